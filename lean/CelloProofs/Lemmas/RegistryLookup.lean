/-
  CelloProofs/Lemmas/RegistryLookup.lean — the probing loops of GC_Mem_Ptr / GC_Rem_Ptr (`RH.lookupLoop`, `RH.findLoop`)
  terminate within `n` iterations when the table has an empty slot, and under the local invariant decide membership.
-/
import Cello.Registry
import CelloProofs.Lemmas.RH
import CelloProofs.Lemmas.RHIns
import CelloProofs.Lemmas.RHErase
set_option linter.unusedSectionVars false
set_option linter.unusedVariables false
namespace RH
variable {κ ε : Type} [DecidableEq κ] {n : Nat}

theorem lookupLoop_eq_findLoop (s : Slots κ ε n) (k : κ) :
    ∀ (fuel i j : Nat) (hi : i < n), lookupLoop s k fuel i j hi = (findLoop s k fuel i j hi).map (fun o => o.isSome) := by
  intro fuel
  induction fuel with
  | zero => intro i j hi; simp [lookupLoop, findLoop]
  | succ fuel ih =>
    intro i j hi
    simp only [lookupLoop, findLoop]
    split
    · simp
    · split
      · simp
      · split
        · simp
        · exact ih _ _ _

/-- with an empty slot `z`, the loop stops within `dist z i + 1` iterations -/
theorem findLoop_terminates (s : Slots κ ε n) (k : κ) (z : Nat) (hz : z < n) (hze : s[z] = none) :
    ∀ (fuel i j : Nat) (hi : i < n), dist n z i < fuel → ∃ r, findLoop s k fuel i j hi = some r := by
  intro fuel
  induction fuel with
  | zero => intro i j hi h; omega
  | succ fuel ih =>
    intro i j hi hf
    simp only [findLoop]
    split
    · exact ⟨_, rfl⟩
    · rename_i e he
      split
      · exact ⟨_, rfl⟩
      · split
        · exact ⟨_, rfl⟩
        · have hne : i ≠ z := ne_of_occ_empty s hi hz he hze
          have := dist_next_fwd hi hz hne
          exact ih _ _ (next_lt hi) (by omega)

theorem findLoop_found (s : Slots κ ε n) (k : κ) :
    ∀ (fuel i j : Nat) (hi : i < n) (r : Fin n), findLoop s k fuel i j hi = some (some r) →
      ∃ e, s[r.1]'r.2 = some e ∧ e.key = k := by
  intro fuel
  induction fuel with
  | zero => intro i j hi r h; simp [findLoop] at h
  | succ fuel ih =>
    intro i j hi r h
    simp only [findLoop] at h
    split at h
    · simp at h
    · rename_i e he
      split at h
      · simp at h
      · split at h
        · rename_i hk
          simp only [Option.some.injEq] at h
          subst h
          exact ⟨e, he, hk⟩
        · exact ih _ _ _ r h

/-- **Lookup is membership.**  Under the local invariant the probing loop of GC_Mem_Ptr, started at the key's home slot
    with fuel `n`, always answers, and answers `true` exactly for the keys that are stored. -/
theorem lookup_correct (hash : κ → Nat) (s : Slots κ ε n) (inv : Inv hash s) (hn : 0 < n) (k : κ) :
    (lookup hash s k hn = some true ↔ Present s k) ∧ (lookup hash s k hn = some false ↔ ¬ Present s k) := by
  obtain ⟨z, hz, hze⟩ := inv.has_empty
  have hhome : hash k % n < n := Nat.mod_lt _ hn
  have hterm : ∃ r, lookup hash s k hn = some r := by
    unfold lookup
    rw [lookupLoop_eq_findLoop]
    obtain ⟨r, hr⟩ := findLoop_terminates s k z hz hze n (hash k % n) 0 hhome (dist_lt hz hhome)
    exact ⟨_, by rw [hr]; rfl⟩
  have h1 : lookup hash s k hn = some true ↔ Present s k :=
    ⟨fun h => lookupLoop_sound s k _ _ _ _ h, fun h => lookup_present hash s inv hn k h⟩
  refine ⟨h1, ?_⟩
  obtain ⟨r, hr⟩ := hterm
  cases r with
  | true => rw [hr]; simp; exact h1.1 hr
  | false =>
    rw [hr]; simp
    intro hp; have := h1.2 hp; rw [hr] at this; cases this

/-- the index-returning loop of GC_Rem_Ptr: finds the slot of a stored key, answers `none` for an absent one -/
theorem find_correct (hash : κ → Nat) (s : Slots κ ε n) (inv : Inv hash s) (hn : 0 < n) (k : κ) :
    (∃ r, findLoop s k n (hash k % n) 0 (Nat.mod_lt _ hn) = some r) ∧
    (∀ r : Fin n, findLoop s k n (hash k % n) 0 (Nat.mod_lt _ hn) = some (some r) → ∃ e, s[r.1]'r.2 = some e ∧ e.key = k) ∧
    (findLoop s k n (hash k % n) 0 (Nat.mod_lt _ hn) = some none → ¬ Present s k) := by
  obtain ⟨z, hz, hze⟩ := inv.has_empty
  have hhome : hash k % n < n := Nat.mod_lt _ hn
  refine ⟨findLoop_terminates s k z hz hze n _ 0 hhome (dist_lt hz hhome), fun r h => findLoop_found s k _ _ _ _ r h, ?_⟩
  intro h hp
  have := lookup_present hash s inv hn k hp
  unfold lookup at this
  rw [lookupLoop_eq_findLoop, h] at this
  simp at this

end RH
