/-
  C04 helper lemmas: from one simulated step to whole histories (store level ⇄ list level), and the list-level steps
  never produce the outcome `ub`.
-/
import CelloProofs.Lemmas.SeqStoreArr
import CelloProofs.Lemmas.SeqStoreLst
import CelloProofs.Lemmas.SeqStoreTup
import CelloProofs.Lemmas.SeqRun

namespace Cello.Seq
variable {α : Type}

/-- a step-wise simulation lifts to histories that stop at the first exception … -/
theorem runOps_sim {σ τ : Type} (stepS : σ → Op α → σ × Res Unit) (stepA : τ → Op α → τ × Res Unit) (R : σ → τ → Prop)
    (hstep : ∀ s a op, R s a → R (stepS s op).1 (stepA a op).1 ∧ (stepS s op).2 = (stepA a op).2) :
    ∀ (ops : List (Op α)) (s : σ) (a : τ), R s a →
      R (runOps stepS s ops).1 (runOps stepA a ops).1 ∧ (runOps stepS s ops).2 = (runOps stepA a ops).2 := by
  intro ops
  induction ops with
  | nil => intro s a h; exact ⟨h, rfl⟩
  | cons op ops ih =>
    intro s a h
    obtain ⟨h1, h2⟩ := hstep s a op h
    rcases hs : stepS s op with ⟨s', rs⟩
    rcases ha : stepA a op with ⟨a', ra⟩
    rw [hs, ha] at h1 h2
    simp only at h1 h2
    subst h2
    simp only [runOps, hs, ha]
    cases rs with
    | ok u => cases u; exact ih s' a' h1
    | raised e => exact ⟨h1, rfl⟩
    | ub => exact ⟨h1, rfl⟩

/-- … and to histories in which exceptions are caught and the history goes on -/
theorem foldl_sim {σ τ : Type} (stepS : σ → Op α → σ × Res Unit) (stepA : τ → Op α → τ × Res Unit) (R : σ → τ → Prop)
    (hstep : ∀ s a op, R s a → R (stepS s op).1 (stepA a op).1 ∧ (stepS s op).2 = (stepA a op).2) :
    ∀ (ops : List (Op α)) (s : σ) (a : τ), R s a →
      R (ops.foldl (fun s op => (stepS s op).1) s) (ops.foldl (fun a op => (stepA a op).1) a) := by
  intro ops
  induction ops with
  | nil => intro s a h; exact h
  | cons op ops ih => intro s a h; exact ih _ _ (hstep s a op h).1

/-- the list-level Array step never reports a read or write outside the object -/
theorem Arr.step_ne_ub [BEq α] (a : Arr α) (op : Op α) : (a.step op).2 ≠ .ub := by
  cases hs : Spec.arrStep a.items op with
  | some l' => rw [(Arr.step_refines a op l' hs).1]; intro h; cases h
  | none => obtain ⟨_, e, he⟩ := Arr.step_out_of_range a op hs; rw [he]; intro h; cases h

/-- the list-level List step reports `.ub` exactly in the territory of known finding KF-C04-list-resize-raw -/
theorem Lst.step_ne_ub [BEq α] [ZeroIsValue α] (l : Lst α) (hinv : l.Inv) (op : Op α) (hrg : l.rawGrow op = false) :
    (l.step op).2 ≠ .ub := by
  cases hs : Spec.lstStep l.items op with
  | some l' => rw [(Lst.step_refines l hinv op l' hs).1]; intro h; cases h
  | none =>
    cases hop : op.iterAssign with
    | false => obtain ⟨_, e, he⟩ := Lst.step_out_of_range l hinv op hop hrg hs; rw [he]; intro h; cases h
    | true =>
      cases op with
      | assign ys b =>
        cases b with
        | false => intro h; cases h
        | true => simp [Op.iterAssign] at hop
      | _ => simp [Op.iterAssign] at hop

theorem Lst.step_ub_iff [BEq α] [ZeroIsValue α] (l : Lst α) (hinv : l.Inv) (op : Op α) :
    (l.step op).2 = .ub ↔ l.rawGrow op = true := by
  constructor
  · intro h
    cases hrg : l.rawGrow op with
    | true => rfl
    | false => exact absurd h (Lst.step_ne_ub l hinv op hrg)
  · intro h; exact (Lst.step_rawGrow l op h).1

/-- when the zero record is a value of the element type there is no such territory -/
theorem Lst.rawGrow_false [ZeroIsValue α] (hz : ZeroIsValue.zeroOk α = true) (l : Lst α) (op : Op α) : l.rawGrow op = false := by
  cases op <;> simp [Lst.rawGrow, hz]

theorem Tup.step_ne_ub [BEq α] (t : Tup α) (op : Op α) : (t.step op).2 ≠ .ub := by
  cases hs : Spec.tupStep t.items op with
  | some l' => rw [(Tup.step_refines t op l' hs).1]; intro h; cases h
  | none =>
    cases hop : op.iterAssign with
    | false => obtain ⟨_, e, he⟩ := Tup.step_out_of_range t op hop hs; rw [he]; intro h; cases h
    | true =>
      cases op with
      | assign ys b =>
        cases b with
        | false => intro h; cases h
        | true => simp [Op.iterAssign] at hop
      | _ => simp [Op.iterAssign] at hop

end Cello.Seq
