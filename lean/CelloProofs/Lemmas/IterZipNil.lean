/- helper lemmas for C11: a Zip of NO inputs (Zip_Iter_Init / _Last / Zip_Len test `num is 0` first) -/
import CelloProofs.Lemmas.IterDir
import CelloProofs.Lemmas.IterGet

namespace Cello.Iter

/-- `zip()`: both walks answer Terminal at once, `len` is 0 -/
theorem zip_nil_lawfulAs {α : Type} : LawfulAs (zipI ([] : List (Iterable α))) [] :=
  ⟨fun s => by simp only [zipI, List.length_nil, if_true]; exact Run.term _,
   fun s => by simp only [zipI, List.length_nil, if_true, List.reverse_nil]; exact Run.term _,
   fun n hn => by simp only [zipI, zipLen, Option.some.injEq] at hn; simp [← hn],
   fun g _ i hi => by simp at hi⟩

/-- … but Zip_Get of a Zip of no inputs answers the empty tuple for EVERY index (the loop over the inputs is empty and nothing
    tests the index) -/
theorem zip_nil_get {α : Type} (k : Int) : (zipI ([] : List (Iterable α))).get.map (fun g => g k) = some (some []) := by
  simp [zipI, zipGet]

end Cello.Iter
