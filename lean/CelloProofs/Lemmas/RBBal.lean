/-
  Lemmas/RBBal.lean — the red-black invariants of the zipper model of Tree.c:
  black heights (`bh`, `Bal`), no red node with a red child (`RRt`), and their versions for paths (`PathBal`, `PathRR`);
  `Tree_Set_Fix` re-establishes them after an insertion.
-/
import CelloProofs.Lemmas.RBRefine

namespace Cello.RB
variable {α β : Type}

/-- weight of a colour in the black height -/
def cw : Color → Nat
  | .R => 0
  | .B => 1

/-- black height along the left spine (all paths agree when `Bal`) -/
def bh : T α β → Nat
  | .nil => 0
  | .node c l _ _ _ => bh l + cw c

/-- every node's subtrees have the same black height -/
def Bal : T α β → Prop
  | .nil => True
  | .node _ l _ _ r => bh l = bh r ∧ Bal l ∧ Bal r

/-- no red node has a red child -/
def RRt : T α β → Prop
  | .nil => True
  | .node c l _ _ r => (c = .R → color l = .B ∧ color r = .B) ∧ RRt l ∧ RRt r

/-- the frames of a path have siblings of the right black height, for a hole of black height `n` -/
def PathBal : Path α β → Nat → Prop
  | [], _ => True
  | f :: p, n => bh f.sib = n ∧ Bal f.sib ∧ PathBal p (n + cw f.c)

/-- the nearest parent is black -/
def headB : Path α β → Prop
  | [] => False
  | g :: _ => g.c = .B

/-- no red-red along the path, and a red frame has a (black) parent: the root frame is black -/
def PathRR : Path α β → Prop
  | [] => True
  | f :: p => RRt f.sib ∧ (f.c = .R → color f.sib = .B ∧ headB p) ∧ PathRR p

/-- a red-black tree (shape part): black root, no red-red, equal black heights -/
def ValidT (t : T α β) : Prop := color t = .B ∧ RRt t ∧ Bal t

@[simp] theorem cw_R : cw .R = 0 := rfl
@[simp] theorem cw_B : cw .B = 1 := rfl
@[simp] theorem bh_nil : bh (T.nil : T α β) = 0 := rfl
@[simp] theorem bh_node (c : Color) (l : T α β) (k : α) (v : β) (r : T α β) : bh (T.node c l k v r) = bh l + cw c := rfl
@[simp] theorem Bal_nil : Bal (T.nil : T α β) = True := rfl
@[simp] theorem Bal_node (c : Color) (l : T α β) (k : α) (v : β) (r : T α β) :
    Bal (T.node c l k v r) = (bh l = bh r ∧ Bal l ∧ Bal r) := rfl
@[simp] theorem RRt_nil : RRt (T.nil : T α β) = True := rfl
@[simp] theorem RRt_node (c : Color) (l : T α β) (k : α) (v : β) (r : T α β) :
    RRt (T.node c l k v r) = ((c = .R → color l = .B ∧ color r = .B) ∧ RRt l ∧ RRt r) := rfl
@[simp] theorem color_nil : color (T.nil : T α β) = .B := rfl
@[simp] theorem color_node (c : Color) (l : T α β) (k : α) (v : β) (r : T α β) : color (T.node c l k v r) = c := rfl
@[simp] theorem PathBal_nil (n : Nat) : PathBal ([] : Path α β) n = True := rfl
@[simp] theorem PathBal_cons (f : Frame α β) (p : Path α β) (n : Nat) :
    PathBal (f :: p) n = (bh f.sib = n ∧ Bal f.sib ∧ PathBal p (n + cw f.c)) := rfl
@[simp] theorem PathRR_nil : PathRR ([] : Path α β) = True := rfl
@[simp] theorem PathRR_cons (f : Frame α β) (p : Path α β) :
    PathRR (f :: p) = (RRt f.sib ∧ (f.c = .R → color f.sib = .B ∧ headB p) ∧ PathRR p) := rfl
@[simp] theorem headB_nil : headB ([] : Path α β) = False := rfl
@[simp] theorem headB_cons (f : Frame α β) (p : Path α β) : headB (f :: p) = (f.c = .B) := rfl

theorem Color.ne_R {c : Color} : ¬ c = .R ↔ c = .B := by cases c <;> simp
theorem Color.ne_B {c : Color} : ¬ c = .B ↔ c = .R := by cases c <;> simp

@[simp] theorem color_setColor_node (c c' : Color) (l : T α β) (k : α) (v : β) (r : T α β) :
    setColor c (T.node c' l k v r) = T.node c l k v r := rfl
@[simp] theorem setColor_nil (c : Color) : setColor c (T.nil : T α β) = .nil := rfl

theorem Bal_setColor (c : Color) (t : T α β) : Bal (setColor c t) = Bal t := by cases t <;> rfl
theorem RRt_setColor_B (t : T α β) (h : RRt t) : RRt (setColor .B t) := by
  cases t with
  | nil => trivial
  | node c l k v r => simp at h ⊢; exact ⟨h.2.1, h.2.2⟩
theorem color_setColor_B (t : T α β) : color (setColor .B t) = .B := by cases t <;> rfl
theorem bh_setColor_B_of_red (t : T α β) (h : color t = .R) : bh (setColor .B t) = bh t + 1 := by
  cases t with
  | nil => simp at h
  | node c l k v r => simp at h; subst h; simp

theorem bh_mk (f : Frame α β) (t : T α β) (h : bh f.sib = bh t) : bh (mk f t) = bh t + cw f.c := by
  unfold mk; split <;> simp [h]

theorem color_mk (f : Frame α β) (t : T α β) : color (mk f t) = f.c := by
  unfold mk; split <;> rfl

/-- plugging a well-formed subtree into a well-formed context gives a red-black tree -/
theorem plug_valid (t : T α β) (p : Path α β) (hb : Bal t) (hr : RRt t) (hpb : PathBal p (bh t)) (hpr : PathRR p)
    (htop : color t = .R → headB p) : ValidT (plug t p) := by
  induction p generalizing t with
  | nil =>
    simp at htop
    exact ⟨Color.ne_R.mp htop, hr, hb⟩
  | cons f p ih =>
    simp at hpb hpr htop
    obtain ⟨h1, h2, h3⟩ := hpb
    obtain ⟨g1, g2, g3⟩ := hpr
    rw [plug]
    apply ih
    · unfold mk; split <;> simp [*]
    · have hc : f.c = .R → color t = .B := fun hfc => by
        cases hct : color t with
        | B => rfl
        | R => have := htop hct; rw [hfc] at this; cases this
      unfold mk; split <;> simp [*] <;> intro hfc <;> simp [hc hfc, (g2 hfc).1]
    · rw [bh_mk _ _ h1]; exact h3
    · exact g3
    · rw [color_mk]; exact fun hfc => (g2 hfc).2

/-- `Tree_Set_Fix` started at a red node whose subtree is well formed, in a well-formed context, succeeds (no NULL
    dereference) and returns a red-black tree -/
theorem setFix_valid (t : T α β) (p : Path α β) (hc : color t = .R) (hb : Bal t) (hr : RRt t)
    (hpb : PathBal p (bh t)) (hpr : PathRR p) : ∃ t', setFix t p = some t' ∧ ValidT t' := by
  fun_induction setFix t p with
  | case1 t =>
    exact ⟨_, rfl, color_setColor_B t, RRt_setColor_B t hr, by rw [Bal_setColor]; exact hb⟩
  | case2 t f hfc =>
    exact ⟨_, rfl, plug_valid t [f] hb hr hpb hpr (fun _ => by simpa using hfc)⟩
  | case3 t f hfc =>
    simp at hpr
    exact absurd (hpr.2 (Color.ne_B.mp hfc)) (by simp)
  | case4 t f g up hfc =>
    exact ⟨_, rfl, plug_valid t _ hb hr hpb hpr (fun _ => by simpa using hfc)⟩
  | case5 t f g up hfc hu ih =>
    have hfr := Color.ne_B.mp hfc
    simp [hfr] at hpb hpr
    obtain ⟨b1, b2, b3, b4, b5⟩ := hpb
    obtain ⟨r1, ⟨r2, r3⟩, r4, r5, r6⟩ := hpr
    simp [r3] at b5 r5
    apply ih
    · simp [color_mk]
    · unfold mk; split <;> split <;> simp_all [Bal_setColor, bh_setColor_B_of_red]
    · unfold mk; split <;> split <;> simp_all [color_setColor_B, RRt_setColor_B]
    · have : bh (mk { g with c := .R, sib := setColor .B g.sib } (mk { f with c := .B } t)) = bh t + 1 := by
        unfold mk; split <;> split <;> simp_all [bh_setColor_B_of_red]
      rw [this]; exact b5
    · exact r6
  | case6 f g up hfc hu n hf hg =>
    have hfr := Color.ne_B.mp hfc
    have hub := Color.ne_R.mp hu
    simp [hfr] at hpb hpr
    obtain ⟨b1, b2, b3, b4, b5⟩ := hpb
    obtain ⟨r1, ⟨r2, r3⟩, r4, r5, r6⟩ := hpr
    simp [r3] at b5
    refine ⟨_, rfl, plug_valid _ up ?_ ?_ ?_ r6 (by simp)⟩
    · simp_all
    · simp_all
    · simpa [cw] using b5
  | case7 f g up hfc hu c a nk nv b hf hg =>
    have hfr := Color.ne_B.mp hfc
    have hub := Color.ne_R.mp hu
    simp [hfr] at hpb hpr
    obtain ⟨b1, b2, b3, b4, b5⟩ := hpb
    obtain ⟨r1, ⟨r2, r3⟩, r4, r5, r6⟩ := hpr
    simp [r3] at b5
    simp at hc; subst hc
    refine ⟨_, rfl, plug_valid _ up ?_ ?_ ?_ r6 (by simp)⟩
    · simp_all
    · simp_all
    · simp_all
  | case8 f g up hfc hu n hf hg =>
    have hfr := Color.ne_B.mp hfc
    have hub := Color.ne_R.mp hu
    simp [hfr] at hpb hpr
    obtain ⟨b1, b2, b3, b4, b5⟩ := hpb
    obtain ⟨r1, ⟨r2, r3⟩, r4, r5, r6⟩ := hpr
    simp [r3] at b5
    refine ⟨_, rfl, plug_valid _ up ?_ ?_ ?_ r6 (by simp)⟩
    · simp_all
    · simp_all
    · simp_all
  | case9 f g up hfc hu c a nk nv b hf hg =>
    have hfr := Color.ne_B.mp hfc
    have hub := Color.ne_R.mp hu
    simp [hfr] at hpb hpr
    obtain ⟨b1, b2, b3, b4, b5⟩ := hpb
    obtain ⟨r1, ⟨r2, r3⟩, r4, r5, r6⟩ := hpr
    simp [r3] at b5
    simp at hc; subst hc
    refine ⟨_, rfl, plug_valid _ up ?_ ?_ ?_ r6 (by simp)⟩
    · simp_all
    · simp_all
    · simp_all
  | case10 f g up hfc hu x y => simp at hc

/-- the invariant of a descent: a well-formed subtree `t` hanging in a well-formed context `p` -/
structure ZipOK (t : T α β) (p : Path α β) : Prop where
  bal : Bal t
  rr : RRt t
  pbal : PathBal p (bh t)
  prr : PathRR p
  top : color t = .R → headB p

theorem ZipOK.root (t : T α β) (h : ValidT t) : ZipOK t [] :=
  ⟨h.2.2, h.2.1, trivial, trivial, fun hc => by rw [h.1] at hc; cases hc⟩

theorem ZipOK.left {c : Color} {l : T α β} {k : α} {v : β} {r : T α β} {p : Path α β}
    (h : ZipOK (.node c l k v r) p) : ZipOK l ({ dir := .L, c := c, k := k, v := v, sib := r } :: p) := by
  obtain ⟨hb, hr, hpb, hpr, htop⟩ := h
  simp at hb hr hpb htop
  refine ⟨hb.2.1, hr.2.1, ?_, ?_, ?_⟩
  · simp only [PathBal_cons]; exact ⟨hb.1.symm, hb.2.2, hpb⟩
  · simp [hr.2.2, hpr]
    intro hc; exact ⟨(hr.1 hc).2, htop hc⟩
  · intro hl; simp
    cases c with
    | B => rfl
    | R => have := (hr.1 rfl).1; rw [this] at hl; cases hl

theorem ZipOK.right {c : Color} {l : T α β} {k : α} {v : β} {r : T α β} {p : Path α β}
    (h : ZipOK (.node c l k v r) p) : ZipOK r ({ dir := .Rt, c := c, k := k, v := v, sib := l } :: p) := by
  obtain ⟨hb, hr, hpb, hpr, htop⟩ := h
  simp at hb hr hpb htop
  refine ⟨hb.2.2, hr.2.2, ?_, ?_, ?_⟩
  · simp only [PathBal_cons]; exact ⟨hb.1, hb.2.1, by rw [← hb.1]; exact hpb⟩
  · simp [hr.2.1, hpr]
    intro hc; exact ⟨(hr.1 hc).1, htop hc⟩
  · intro hl; simp
    cases c with
    | B => rfl
    | R => have := (hr.1 rfl).2; rw [this] at hl; cases hl

theorem ZipOK.plug {t : T α β} {p : Path α β} (h : ZipOK t p) : ValidT (plug t p) :=
  plug_valid t p h.bal h.rr h.pbal h.prr h.top

/-- `Tree_Set` from a well-formed position never dereferences NULL and returns a red-black tree -/
theorem insAt_valid (cmp : α → α → Ordering) (t : T α β) (p : Path α β) (k : α) (v : β) (h : ZipOK t p) :
    ∃ t' fresh, insAt cmp t p k v = some (t', fresh) ∧ ValidT t' := by
  induction t generalizing p with
  | nil =>
    obtain ⟨t', h1, h2⟩ := setFix_valid (.node .R .nil k v .nil) p rfl (by simp) (by simp)
      (by simpa using h.pbal) h.prr
    exact ⟨t', true, by simp [insAt, h1], h2⟩
  | node c l nk nv r ihl ihr =>
    simp only [insAt]
    cases cmp nk k with
    | eq =>
      refine ⟨_, false, rfl, ?_⟩
      have : ZipOK (.node c l k v r) p := ⟨h.bal, h.rr, h.pbal, h.prr, h.top⟩
      exact this.plug
    | lt => exact ihl _ h.left
    | gt => exact ihr _ h.right

end Cello.RB
