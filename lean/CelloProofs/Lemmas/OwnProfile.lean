/-
  CelloProofs/Lemmas/OwnProfile.lean — the ownership profile of the container sources that Cello/Own.lean was written
  against (hand-maintained; compared with the profile regenerated from /repo on every run: Props/C05.lean
  `C05_source_profile`).  How the rows are reflected in the model:

    Array_Push / List_Push        Alloc (zero-fill) then assign                      seqPush: one construction
    Array_Push_At                 throw (bounds) BEFORE Reserve/memmove/Alloc/assign  arrayPushAt: a refused call changes nothing
    List_Push_At                  List_At (which throws) BEFORE List_Alloc, assign    listPushAt: a refused call changes nothing (fix 4077d96)
    Array_Pop / Pop_At, List_*    throw, then one destruct, then the byte move        seqPop / seqPopAt: one retired
    Array_Set / List_Set          assign onto the stored element, no destruct         seqSetProbe: in place
    Array_Clear / List_Clear      destruct in a loop, free                            seqClear
    Array_Resize / List_Resize    Clear | destruct from the back | (List) Alloc+Link without assign   arrayResize / listResize
    Array_Assign / List_Assign    Clear, then Alloc+assign per element                seqAssignProbe
    *_Assign                      `if (self is obj) return;` BEFORE the Clear (fix a3140e4)            step: assign c c is a no-op
    Array_Sort_Partition          swap only                                           partition
    Table_Set_Move                2 assign (swap space) … 2 destruct (replace branch) … memcpy moves   tableSet
    Table_Rem                     2 destruct, memset, memcpy shift                    mapRem
    Tree_Set                      assign, assign on every path; Tree_Alloc only on the insert paths    treeSet
    Tree_Rem                      2 destruct, memcpy (predecessor), free              mapRem
    Tree_Clear_Entry / Table_Clear / *_Del   2 destruct per entry                     mapClear / del
    Box_Del                       del of the pointee;  Box_Assign: Box_Ref only (pointer copy, no del)   ElemKind.box

  Type checks (`cast(<argument>)` rows, and `CelloGen.Own.typeChecks`: where the check stands relative to the first effect):
    Table_Set_Move / Tree_Set     cast(key), cast(val) BEFORE memset / Tree_Alloc / assign            mapSetArgs: a type-refused set is inert
    Table_Rem / Tree_Rem          cast(key) BEFORE the lookup and the destructs                       mapRemWrong
    Array_Push / Push_At / Concat / New   no cast: nitems and the records first, the element's own Assign checks   arrayPushWrong, … (not atomic)
    List_Push / Push_At           no cast: List_Alloc first, the element's own Assign checks, nothing linked     listPushWrong (inert)
    Array_Set / List_Set, *_Rem   no cast: the element's own Assign / Cmp checks before it changes anything     seqSetWrong / seqRemWrong
-/
namespace Cello.Own

def modelledProfile : List (String × List String) := [
  ("Array_Alloc", ["memset"]),
  ("Array_New", ["cast(get(args,$I(0)))", "malloc", "throw", "Array_Alloc", "assign"]),
  ("Array_Del", ["destruct", "free"]),
  ("Array_Clear", ["destruct", "free"]),
  ("Array_Assign", ["return_if_self_is_obj", "Array_Clear", "malloc", "throw", "Array_Alloc", "assign", "Array_Push"]),
  ("Array_Reserve_More", ["realloc", "throw"]),
  ("Array_Concat", ["Array_Reserve_More", "Array_Alloc", "assign"]),
  ("Array_Reserve_Less", ["realloc"]),
  ("Array_Pop_At", ["throw", "destruct", "memmove", "Array_Reserve_Less"]),
  ("Array_Rem", ["Array_Pop_At", "throw"]),
  ("Array_Push", ["Array_Reserve_More", "Array_Alloc", "assign"]),
  ("Array_Push_At", ["throw", "Array_Reserve_More", "memmove", "Array_Alloc", "assign"]),
  ("Array_Pop", ["throw", "destruct", "Array_Reserve_Less"]),
  ("Array_Set", ["throw", "assign"]),
  ("Array_Sort_Partition", ["swap", "swap", "swap"]),
  ("Array_Resize", ["Array_Clear", "destruct", "realloc", "throw"]),
  ("List_Alloc", ["calloc", "throw"]),
  ("List_New", ["cast(get(args,$I(0)))", "List_Push"]),
  ("List_Clear", ["destruct", "List_Free"]),
  ("List_Del", ["List_Clear"]),
  ("List_Assign", ["return_if_self_is_obj", "List_Clear", "List_Push"]),
  ("List_Concat", ["List_Push"]),
  ("List_Pop_At", ["List_At", "List_Unlink", "destruct", "List_Free"]),
  ("List_Rem", ["List_Unlink", "destruct", "List_Free", "throw"]),
  ("List_Push", ["List_Alloc", "assign", "List_Link"]),
  ("List_Push_At", ["List_At", "List_Alloc", "assign", "List_Link", "List_Link"]),
  ("List_Pop", ["throw", "List_Unlink", "destruct", "List_Free"]),
  ("List_Set", ["assign", "List_At"]),
  ("List_Resize", ["List_Clear", "List_Unlink", "destruct", "List_Free", "List_Alloc", "List_Link"]),
  ("Table_New", ["cast(get(args,$(Int,0)))", "cast(get(args,$(Int,1)))", "throw", "calloc", "calloc", "calloc", "throw", "Table_Set_Move"]),
  ("Table_Del", ["destruct", "destruct", "free", "free", "free"]),
  ("Table_Clear", ["destruct", "destruct", "free"]),
  ("Table_Assign", ["return_if_self_is_obj", "Table_Clear", "calloc", "realloc", "realloc", "throw", "memset", "memset", "Table_Set_Move"]),
  ("Table_Set_Move", ["cast(key)", "cast(val)", "memset", "memset", "memcpy", "memcpy", "memcpy", "memcpy", "assign", "assign", "memcpy", "destruct", "destruct", "memcpy", "memcpy", "memcpy", "memcpy"]),
  ("Table_Rehash", ["calloc", "throw", "Table_Set_Move", "free"]),
  ("Table_Rem", ["cast(key)", "throw", "throw", "destruct", "destruct", "memset", "memcpy", "memset", "Table_Resize_Less"]),
  ("Table_Set", ["Table_Rehash", "Table_Set_Move", "Table_Resize_More"]),
  ("Table_Resize", ["Table_Clear", "throw", "Table_Rehash"]),
  ("Tree_Alloc", ["calloc", "throw"]),
  ("Tree_New", ["throw", "Tree_Set"]),
  ("Tree_Clear_Entry", ["Tree_Clear_Entry", "Tree_Clear_Entry", "destruct", "destruct", "free"]),
  ("Tree_Clear", ["Tree_Clear_Entry"]),
  ("Tree_Del", ["Tree_Clear"]),
  ("Tree_Assign", ["return_if_self_is_obj", "Tree_Clear", "Tree_Set"]),
  ("Tree_Set", ["cast(key)", "cast(val)", "Tree_Alloc", "assign", "assign", "Tree_Set_Fix", "assign", "assign", "Tree_Alloc", "assign", "assign", "Tree_Set_Fix", "Tree_Alloc", "assign", "assign", "Tree_Set_Fix"]),
  ("Tree_Rem", ["cast(key)", "throw", "destruct", "destruct", "memcpy", "Tree_Rem_Fix", "Tree_Replace", "free"]),
  ("Tree_Resize", ["Tree_Clear", "throw"]),
  ("Box_New", ["Box_Assign"]),
  ("Box_Del", ["Box_Deref", "del", "Box_Ref"]),
  ("Box_Assign", ["Box_Ref", "Box_Ref"])]


/-- the rows of `CelloGen.Own.typeChecks` the model's type-refused calls were written against: for the functions whose
    refusal is atomic because the `cast` of every element argument precedes the first effect … -/
def modelledTypeChecksFirst : List (String × List String × String × List String) := [
  ("Table_Set_Move", ["key", "val"], "memset", []),
  ("Table_Rem", ["key"], "destruct", []),
  ("Tree_Set", ["key", "val"], "Tree_Alloc", []),
  ("Tree_Rem", ["key"], "destruct", [])]

/-- … and for the functions that never cast an element argument (the stored element's own `Assign` / `Cmp` is the type
    check, reached after the first effect listed here; the only casts are those of the constructors' type arguments) -/
def modelledTypeChecksLate : List (String × List String × String × List String) := [
  ("Array_New", ["get(args,$I(0))"], "nitems=", []),
  ("Array_Concat", [], "nitems+=", []),
  ("Array_Rem", [], "Array_Pop_At", []),
  ("Array_Push", [], "nitems++", []),
  ("Array_Push_At", [], "nitems++", []),
  ("Array_Set", [], "assign", []),
  ("List_New", ["get(args,$I(0))"], "nitems=", []),
  ("List_Concat", [], "List_Push", []),
  ("List_Rem", [], "List_Unlink", []),
  ("List_Push", [], "List_Alloc", []),
  ("List_Push_At", [], "List_At", []),
  ("List_Set", [], "assign", []),
  ("Table_New", ["get(args,$(Int,0))", "get(args,$(Int,1))"], "nitems=", []),
  ("Table_Set", [], "Table_Rehash", []),
  ("Tree_New", [], "nitems=", [])]

/-- the row of a function in a `typeChecks` table -/
def typeCheckOf (tbl : List (String × List String × String × List String)) (fn : String) :
    Option (List String × String × List String) :=
  (tbl.find? (fun r => r.1 == fn)).map (·.2)

def modelledInstances : List (String × String × List String) := [
  ("Array", "New", ["Array_New", "Array_Del"]),
  ("Array", "Assign", ["Array_Assign"]),
  ("Array", "Push", ["Array_Push", "Array_Pop", "Array_Push_At", "Array_Pop_At"]),
  ("Array", "Concat", ["Array_Concat", "Array_Push"]),
  ("Array", "Get", ["Array_Get", "Array_Set", "Array_Mem", "Array_Rem"]),
  ("Array", "Sort", ["Array_Sort_By"]),
  ("Array", "Resize", ["Array_Resize"]),
  ("List", "New", ["List_New", "List_Del"]),
  ("List", "Assign", ["List_Assign"]),
  ("List", "Push", ["List_Push", "List_Pop", "List_Push_At", "List_Pop_At"]),
  ("List", "Concat", ["List_Concat", "List_Push"]),
  ("List", "Get", ["List_Get", "List_Set", "List_Mem", "List_Rem"]),
  ("List", "Resize", ["List_Resize"]),
  ("Table", "New", ["Table_New", "Table_Del"]),
  ("Table", "Assign", ["Table_Assign"]),
  ("Table", "Get", ["Table_Get", "Table_Set", "Table_Mem", "Table_Rem", "Table_Key_Type", "Table_Val_Type"]),
  ("Table", "Resize", ["Table_Resize"]),
  ("Tree", "New", ["Tree_New", "Tree_Del"]),
  ("Tree", "Assign", ["Tree_Assign"]),
  ("Tree", "Get", ["Tree_Get", "Tree_Set", "Tree_Mem", "Tree_Rem", "Tree_Key_Type", "Tree_Val_Type"]),
  ("Tree", "Resize", ["Tree_Resize"]),
  ("Box", "New", ["Box_New", "Box_Del"]),
  ("Box", "Assign", ["Box_Assign"])]


end Cello.Own
