/-
  CelloProofs/Lemmas/OwnMap.lean — C05 helper lemmas for the map operations (Table / Tree) of Cello/Own.lean:
  conservation, fresh identities, and preservation of key uniqueness.
-/
import CelloProofs.Lemmas.Own
set_option linter.unusedVariables false
set_option linter.unusedSimpArgs false

namespace Cello.Own
open List

/-- key payloads of a map's contents -/
def keys (kvs : List KV) : List Nat := kvs.map (·.1.pay)

@[simp] theorem kvToks_nil : kvToks [] = [] := rfl
@[simp] theorem kvToks_cons (kv : KV) (kvs : List KV) : kvToks (kv :: kvs) = kv.1 :: kv.2 :: kvToks kvs := by
  simp [kvToks]
theorem kvToks_perm {a b : List KV} (h : a ~ b) : kvToks a ~ kvToks b := h.flatMap_right _
theorem keys_perm {a b : List KV} (h : a ~ b) : keys a ~ keys b := h.map _
@[simp] theorem length_kvToks (kvs : List KV) : (kvToks kvs).length = 2 * kvs.length := by
  induction kvs with
  | nil => rfl
  | cons kv kvs ih => simp [ih]; omega

theorem mapInsert_perm (kv : KV) (l : List KV) : mapInsert kv l ~ kv :: l := by
  induction l with
  | nil => exact Perm.refl _
  | cons x xs ih =>
    simp only [mapInsert]
    split
    · exact Perm.refl _
    · exact (ih.cons x).trans (Perm.swap _ _ _)

theorem takeKey_some {k : Nat} {kvs : List KV} {old : KV} {rest : List KV}
    (h : takeFirst (keyIs k) kvs = some (old, rest)) : kvs ~ old :: rest ∧ old.1.pay = k := by
  obtain ⟨h1, h2⟩ := takeFirst_some h
  exact ⟨h1, by simpa [keyIs] using h2⟩

theorem takeKey_none {k : Nat} {kvs : List KV} (h : takeFirst (keyIs k) kvs = none) : k ∉ keys kvs := by
  intro hk
  obtain ⟨kv, hkv, rfl⟩ := List.mem_map.mp hk
  have := takeFirst_none h kv hkv
  simp [keyIs] at this

/-! ### conservation -/

theorem cons_tableSet (next : Nat) (kvs : List KV) (k v : Nat) :
    let r := tableSet next kvs k v
    Conserves (kvToks kvs) (kvToks r.val) r.issued r.retired ∧ FreshFrom next r.issued := by
  simp only [tableSet]
  cases h : takeFirst (keyIs k) kvs with
  | none =>
    refine ⟨?_, fresh_two _ _ _⟩
    simp only [Conserves, List.append_nil]
    have := kvToks_perm (mapInsert_perm (⟨next, k⟩, ⟨next + 1, v⟩) kvs)
    simp only [kvToks_cons] at this
    refine ids_perm (this.trans ?_)
    exact (perm_append_comm (l₁ := [_, _]) (l₂ := kvToks kvs))
  | some q =>
    obtain ⟨old, rest⟩ := q
    refine ⟨?_, fresh_two _ _ _⟩
    simp only [Conserves]
    have h1 := kvToks_perm (mapInsert_perm (⟨next, k⟩, ⟨next + 1, v⟩) rest)
    have h2 := kvToks_perm (takeKey_some h).1
    simp only [kvToks_cons] at h1 h2
    refine ids_perm ?_
    -- new :: rest ++ [old.1, old.2]  ~  (old.1 :: old.2 :: rest) ++ new
    calc kvToks (mapInsert (⟨next, k⟩, ⟨next + 1, v⟩) rest) ++ [old.1, old.2]
        ~ ([⟨next, k⟩, ⟨next + 1, v⟩] ++ kvToks rest) ++ [old.1, old.2] := Perm.append_right _ h1
      _ ~ [old.1, old.2] ++ ([⟨next, k⟩, ⟨next + 1, v⟩] ++ kvToks rest) := perm_append_comm
      _ ~ [old.1, old.2] ++ (kvToks rest ++ [⟨next, k⟩, ⟨next + 1, v⟩]) := Perm.append_left _ perm_append_comm
      _ ~ kvToks kvs ++ [⟨next, k⟩, ⟨next + 1, v⟩] := by
          rw [← List.append_assoc]; exact Perm.append_right _ h2.symm

/-- Tree_Set conserves on constructed elements (existing key: both elements are assigned in place) -/
theorem cons_treeSet (next : Nat) (kvs : List KV) (k v : Nat) (hraw : 0 ∉ ids (kvToks kvs)) :
    let r := treeSet next kvs k v
    Conserves (kvToks kvs) (kvToks r.val) r.issued r.retired ∧ FreshFrom next r.issued := by
  simp only [treeSet]
  cases h : takeFirst (keyIs k) kvs with
  | none =>
    refine ⟨?_, fresh_two _ _ _⟩
    simp only [Conserves, List.append_nil]
    have := kvToks_perm (mapInsert_perm (⟨next, k⟩, ⟨next + 1, v⟩) kvs)
    simp only [kvToks_cons] at this
    refine ids_perm (this.trans ?_)
    exact (perm_append_comm (l₁ := [_, _]) (l₂ := kvToks kvs))
  | some q =>
    obtain ⟨old, rest⟩ := q
    have h2 := kvToks_perm (takeKey_some h).1
    simp only [kvToks_cons] at h2
    have hk0 : old.1.id ≠ 0 := by
      intro h0; apply hraw; rw [← h0]
      exact (ids_perm h2).mem_iff.mpr (by simp)
    have hv0 : old.2.id ≠ 0 := by
      intro h0; apply hraw; rw [← h0]
      exact (ids_perm h2).mem_iff.mpr (by simp)
    obtain ⟨hid1, hiss1⟩ := assignProbe_live next old.1 k hk0
    have hlive2 := assignProbe_live (next + (assignProbe next old.1 k).issued.length) old.2 v hv0
    rw [hiss1] at hlive2; simp only [List.length_nil, Nat.add_zero] at hlive2
    obtain ⟨hid2, hiss2⟩ := hlive2
    simp only [hiss1, List.length_nil, Nat.add_zero, hiss2, List.append_nil]
    refine ⟨?_, fresh_nil _⟩
    simp only [Conserves, List.append_nil]
    have h1 := ids_perm (kvToks_perm (mapInsert_perm ((assignProbe next old.1 k).val, (assignProbe next old.2 v).val) rest))
    simp only [kvToks_cons, ids_cons, hid1, hid2] at h1
    exact h1.trans (by simpa using (ids_perm h2).symm)

theorem cons_mapRem (kvs : List KV) (k : Nat) :
    let r := mapRem kvs k
    Conserves (kvToks kvs) (kvToks r.val) r.issued r.retired ∧ r.issued = [] := by
  simp only [mapRem]
  cases h : takeFirst (keyIs k) kvs with
  | none => simp [Conserves]
  | some q =>
    obtain ⟨old, rest⟩ := q
    refine ⟨?_, rfl⟩
    simp only [Conserves, List.append_nil]
    have h2 := kvToks_perm (takeKey_some h).1
    simp only [kvToks_cons] at h2
    exact ids_perm ((perm_append_comm (l₁ := kvToks rest) (l₂ := [old.1, old.2])).trans h2.symm)

theorem cons_mapClear (kvs : List KV) :
    let r := mapClear kvs
    Conserves (kvToks kvs) (kvToks r.val) r.issued r.retired ∧ r.issued = [] := by
  simp [mapClear, Conserves]

theorem cons_mapResize (mk : MapKind) (kvs : List KV) (n : Nat) :
    let r := mapResize mk kvs n
    Conserves (kvToks kvs) (kvToks r.val) r.issued r.retired ∧ r.issued = [] := by
  simp only [mapResize]
  split
  · exact cons_mapClear kvs
  · cases mk <;> simp only [] <;> (try split) <;> simp [Conserves]

theorem cons_mapSet (mk : MapKind) (next : Nat) (kvs : List KV) (k v : Nat) (hraw : 0 ∉ ids (kvToks kvs)) :
    let r := mapSet mk next kvs k v
    Conserves (kvToks kvs) (kvToks r.val) r.issued r.retired ∧ FreshFrom next r.issued := by
  cases mk
  · exact cons_tableSet next kvs k v
  · exact cons_treeSet next kvs k v hraw

/-- composition of two conserving steps on the same container -/
theorem Conserves.trans {a b c i1 r1 i2 r2 : List Tok} (h1 : Conserves a b i1 r1) (h2 : Conserves b c i2 r2) :
    Conserves a c (i1 ++ i2) (r1 ++ r2) := by
  simp only [Conserves, ids_append] at *
  calc ids c ++ (ids r1 ++ ids r2)
      ~ (ids c ++ ids r2) ++ ids r1 := by
        rw [List.append_assoc]; exact Perm.append_left _ perm_append_comm
    _ ~ (ids b ++ ids i2) ++ ids r1 := Perm.append_right _ h2
    _ ~ (ids b ++ ids r1) ++ ids i2 := by
        rw [List.append_assoc, List.append_assoc]; exact Perm.append_left _ perm_append_comm
    _ ~ (ids a ++ ids i1) ++ ids i2 := Perm.append_right _ h1
    _ = ids a ++ (ids i1 ++ ids i2) := List.append_assoc _ _ _

theorem FreshFrom.append {n : Nat} {a b : List Tok} (ha : FreshFrom n a) (hb : FreshFrom (n + a.length) b) :
    FreshFrom n (a ++ b) := by
  simp only [FreshFrom, ids_append, List.length_append] at *
  rw [ha, hb, List.range'_append_1]

/-- fresh identities from `next` on are ≥ next -/
theorem FreshFrom.ge {n : Nat} {a : List Tok} (h : FreshFrom n a) : ∀ i ∈ ids a, n ≤ i ∧ i < n + a.length := by
  intro i hi
  rw [h] at hi
  have := List.mem_range'_1.mp hi
  omega

theorem FreshFrom.nodup {n : Nat} {a : List Tok} (h : FreshFrom n a) : (ids a).Nodup := by
  rw [h]; exact List.nodup_range'

/-- what a conserving step leaves in the container was there before or was constructed by it -/
theorem Conserves.mem_after {a b i r : List Tok} (h : Conserves a b i r) {x : Nat} (hx : x ∈ ids b) :
    x ∈ ids a ∨ x ∈ ids i := by
  simp only [Conserves, ids_append] at h
  have : x ∈ ids a ++ ids i := h.mem_iff.mp (List.mem_append_left _ hx)
  exact List.mem_append.mp this

theorem Conserves.mem_retired {a b i r : List Tok} (h : Conserves a b i r) {x : Nat} (hx : x ∈ ids r) :
    x ∈ ids a ∨ x ∈ ids i := by
  simp only [Conserves, ids_append] at h
  have : x ∈ ids a ++ ids i := h.mem_iff.mp (List.mem_append_right _ hx)
  exact List.mem_append.mp this

theorem noraw_after {a b i r : List Tok} {n : Nat} (h : Conserves a b i r) (hf : FreshFrom n i) (hn : 0 < n)
    (ha : 0 ∉ ids a) : 0 ∉ ids b := by
  intro h0
  rcases h.mem_after h0 with h1 | h1
  · exact ha h1
  · have := (hf.ge 0 h1).1; omega

theorem cons_mapSetMany (mk : MapKind) (ps : List (Nat × Nat)) :
    ∀ (next : Nat) (kvs : List KV), 0 < next → 0 ∉ ids (kvToks kvs) →
      let r := mapSetMany mk next kvs ps
      Conserves (kvToks kvs) (kvToks r.val) r.issued r.retired ∧ FreshFrom next r.issued := by
  induction ps with
  | nil => intro next kvs _ _; simp [mapSetMany, Conserves, FreshFrom]
  | cons kv ps ih =>
    intro next kvs hn hraw
    obtain ⟨k, v⟩ := kv
    simp only [mapSetMany]
    obtain ⟨hc1, hf1⟩ := cons_mapSet mk next kvs k v hraw
    have hraw1 := noraw_after hc1 hf1 hn hraw
    obtain ⟨hc2, hf2⟩ := ih (next + (mapSet mk next kvs k v).issued.length) (mapSet mk next kvs k v).val (by omega) hraw1
    exact ⟨hc1.trans hc2, hf1.append hf2⟩

theorem cons_mapAssign (mk : MapKind) (next : Nat) (kvs src : List KV) (hn : 0 < next) :
    let r := mapAssign mk next kvs src
    Conserves (kvToks kvs) (kvToks r.val) r.issued r.retired ∧ FreshFrom next r.issued := by
  simp only [mapAssign]
  obtain ⟨hc, hf⟩ := cons_mapSetMany mk (src.map (fun kv => (kv.1.pay, kv.2.pay))) next [] hn (by simp)
  refine ⟨?_, hf⟩
  simp only [Conserves, ids_append, kvToks_nil, ids_nil, List.nil_append] at hc ⊢
  calc ids (kvToks (mapSetMany mk next [] _).val) ++ (ids (kvToks kvs) ++ ids (mapSetMany mk next [] _).retired)
      ~ ids (kvToks kvs) ++ (ids (kvToks (mapSetMany mk next [] _).val) ++ ids (mapSetMany mk next [] _).retired) := by
        rw [← List.append_assoc, ← List.append_assoc]; exact Perm.append_right _ perm_append_comm
    _ ~ ids (kvToks kvs) ++ ids (mapSetMany mk next [] _).issued := Perm.append_left _ hc

/-! ### key uniqueness (the map invariant the deep-copy count needs) -/

theorem assignProbe_pay (next : Nat) (dst : Tok) (p : Nat) : (assignProbe next dst p).val.pay = p := by
  unfold assignProbe; split <;> rfl

theorem keys_mapInsert (kv : KV) (l : List KV) : keys (mapInsert kv l) ~ kv.1.pay :: keys l := by
  simpa [keys] using keys_perm (mapInsert_perm kv l)

theorem keys_mapSet (mk : MapKind) (next : Nat) (kvs : List KV) (k v : Nat) (h : (keys kvs).Nodup) :
    (keys (mapSet mk next kvs k v).val).Nodup ∧
    (∀ x, x ∈ keys (mapSet mk next kvs k v).val ↔ x = k ∨ x ∈ keys kvs) := by
  have key : ∀ (kt vt : Tok), kt.pay = k →
      (match takeFirst (keyIs k) kvs with
        | some (old, rest) => (keys (mapInsert (kt, vt) rest)).Nodup ∧ (∀ x, x ∈ keys (mapInsert (kt, vt) rest) ↔ x = k ∨ x ∈ keys kvs)
        | none => (keys (mapInsert (kt, vt) kvs)).Nodup ∧ (∀ x, x ∈ keys (mapInsert (kt, vt) kvs) ↔ x = k ∨ x ∈ keys kvs)) := by
    intro kt vt hkt
    cases hq : takeFirst (keyIs k) kvs with
    | none =>
      have hk := takeKey_none hq
      have hp := keys_mapInsert (kt, vt) kvs
      simp only [hkt] at hp
      exact ⟨hp.nodup_iff.mpr (List.nodup_cons.mpr ⟨hk, h⟩), fun x => by rw [hp.mem_iff]; simp⟩
    | some q =>
      obtain ⟨old, rest⟩ := q
      obtain ⟨hperm, hold⟩ := takeKey_some hq
      have hk := keys_perm hperm
      simp only [keys, List.map_cons, hold] at hk
      have hnd := hk.nodup_iff.mp h
      have hp := keys_mapInsert (kt, vt) rest
      simp only [hkt] at hp
      refine ⟨hp.nodup_iff.mpr hnd, fun x => ?_⟩
      rw [hp.mem_iff]
      show _ ↔ x = k ∨ x ∈ List.map (fun kv => kv.1.pay) kvs
      rw [hk.mem_iff]; simp [keys]
  cases mk
  · simp only [mapSet, tableSet]
    have := key ⟨next, k⟩ ⟨next + 1, v⟩ rfl
    cases hq : takeFirst (keyIs k) kvs with
    | none => simpa [hq] using this
    | some q => obtain ⟨old, rest⟩ := q; simpa [hq] using this
  · simp only [mapSet, treeSet]
    cases hq : takeFirst (keyIs k) kvs with
    | none =>
      have := key ⟨next, k⟩ ⟨next + 1, v⟩ rfl
      simpa [hq] using this
    | some q =>
      obtain ⟨old, rest⟩ := q
      have := key (assignProbe next old.1 k).val
        (assignProbe (next + (assignProbe next old.1 k).issued.length) old.2 v).val (assignProbe_pay _ _ _)
      simpa [hq] using this

theorem keys_mapRem (kvs : List KV) (k : Nat) (h : (keys kvs).Nodup) : (keys (mapRem kvs k).val).Nodup := by
  simp only [mapRem]
  cases hq : takeFirst (keyIs k) kvs with
  | none => simpa using h
  | some q =>
    obtain ⟨old, rest⟩ := q
    have hk := keys_perm (takeKey_some hq).1
    simp only [keys, List.map_cons] at hk
    exact (List.nodup_cons.mp (hk.nodup_iff.mp h)).2

theorem keys_mapResize (mk : MapKind) (kvs : List KV) (n : Nat) (h : (keys kvs).Nodup) :
    (keys (mapResize mk kvs n).val).Nodup := by
  simp only [mapResize]
  split
  · simp [mapClear, keys]
  · cases mk <;> simp only [] <;> (try split) <;> simpa using h

theorem keys_mapSetMany (mk : MapKind) (ps : List (Nat × Nat)) :
    ∀ (next : Nat) (kvs : List KV), (keys kvs).Nodup → (keys (mapSetMany mk next kvs ps).val).Nodup := by
  induction ps with
  | nil => intro next kvs h; simpa [mapSetMany] using h
  | cons kv ps ih =>
    intro next kvs h
    obtain ⟨k, v⟩ := kv
    simp only [mapSetMany]
    exact ih _ _ (keys_mapSet mk next kvs k v h).1

theorem keys_mapAssign (mk : MapKind) (next : Nat) (kvs src : List KV) :
    (keys (mapAssign mk next kvs src).val).Nodup := by
  simp only [mapAssign]
  exact keys_mapSetMany mk _ next [] (by simp [keys])

/-- a run of `set`s with pairwise distinct keys that are not in the map yet constructs two elements per pair and
    finalises / updates nothing -/
theorem mapSetMany_distinct (mk : MapKind) (ps : List (Nat × Nat)) :
    ∀ (next : Nat) (kvs : List KV), (keys kvs).Nodup → (ps.map (·.1)).Nodup → (∀ k ∈ ps.map (·.1), k ∉ keys kvs) →
      let r := mapSetMany mk next kvs ps
      r.issued.map (·.pay) = ps.flatMap (fun kv => [kv.1, kv.2]) ∧ r.retired = [] ∧ r.updated = [] ∧
      r.val.length = kvs.length + ps.length ∧ kvToks r.val ~ kvToks kvs ++ r.issued := by
  induction ps with
  | nil => intro next kvs _ _ _; simp [mapSetMany]
  | cons kv ps ih =>
    intro next kvs hk hnd hnew
    obtain ⟨k, v⟩ := kv
    simp only [List.map_cons, List.nodup_cons] at hnd
    have hk0 : k ∉ keys kvs := hnew k (by simp)
    have hnone : takeFirst (keyIs k) kvs = none := by
      cases hq : takeFirst (keyIs k) kvs with
      | none => rfl
      | some q =>
        obtain ⟨old, rest⟩ := q
        exfalso; apply hk0
        obtain ⟨hperm, hold⟩ := takeKey_some hq
        have := (keys_perm hperm).mem_iff (a := k)
        rw [this]; simp [keys, hold]
    have hset : mapSet mk next kvs k v =
        { val := mapInsert (⟨next, k⟩, ⟨next + 1, v⟩) kvs, issued := [⟨next, k⟩, ⟨next + 1, v⟩] } := by
      cases mk <;> simp [mapSet, tableSet, treeSet, hnone]
    obtain ⟨hknd, hkmem⟩ := keys_mapSet mk next kvs k v hk
    have ih' := ih (next + (mapSet mk next kvs k v).issued.length) (mapSet mk next kvs k v).val hknd hnd.2 (by
      intro x hx hx'
      rcases (hkmem x).mp hx' with rfl | h'
      · exact hnd.1 hx
      · exact hnew x (by simp [hx]) h')
    simp only [mapSetMany]
    obtain ⟨h1, h2, h3, h4, h5⟩ := ih'
    rw [hset] at h1 h2 h3 h4 h5 ⊢
    simp only [List.map_append, List.map_cons, List.map_nil, h1, h2, h3, List.flatMap_cons, List.append_nil,
      List.nil_append, true_and]
    refine ⟨by rw [h4, (mapInsert_perm _ _).length_eq]; simp; omega, ?_⟩
    have h6 := kvToks_perm (mapInsert_perm (⟨next, k⟩, ⟨next + 1, v⟩) kvs)
    simp only [kvToks_cons] at h6
    refine h5.trans ((Perm.append_right _ h6).trans ?_)
    show [(⟨next, k⟩ : Tok), ⟨next + 1, v⟩] ++ kvToks kvs ++ _ ~ kvToks kvs ++ ([⟨next, k⟩, ⟨next + 1, v⟩] ++ _)
    perm_ac

end Cello.Own
