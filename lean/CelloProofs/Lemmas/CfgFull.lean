/-
  Helper lemmas for C18, second part: the simulation for ALL outcomes.  A configuration differs from the default one
  only in that a raise coming from a compiled-out check becomes undefined behaviour (`ORel.off`); everything else —
  values, unconditional error paths, and the objects the program can see afterwards — is the same.
-/
import CelloProofs.Lemmas.Cfg

namespace Cello.Config
open CelloGen.Cfg

/-- how an outcome under configuration `c` may relate to the outcome under the default configuration -/
inductive ORel (c : Cfg) {α : Type} (R : α → α → Prop) : Outcome α → Outcome α → Prop where
  | ok {a b : α} : R a b → ORel c R (.ok a) (.ok b)
  | raised {e : Exc} : ORel c R (.raised e) (.raised e)
  | ub : ORel c R .ub .ub
  | off {e : Exc} : c.checks = false → ORel c R (.raised e) .ub     -- the check that raises is compiled out

theorem orel_refuse (c : Cfg) {α : Type} (R : α → α → Prop) (e : Exc) :
    ORel c R (refuse Cfg.default e) (refuse c e) := by
  unfold refuse
  simp only [Cfg.default, if_true]
  cases h : c.checks
  · simp only [Bool.false_eq_true, if_false]; exact .off h
  · simp only [if_true]; exact .raised

theorem ORel.mono {c : Cfg} {α : Type} {R S : α → α → Prop} {x y : Outcome α} (h : ORel c R x y)
    (hrs : ∀ a b, R a b → S a b) : ORel c S x y := by
  cases h with
  | ok h => exact .ok (hrs _ _ h)
  | raised => exact .raised
  | ub => exact .ub
  | off h => exact .off h

/-- the object found by a dispatch, on both sides -/
def ObjRel (s₁ s₂ : St) (h : Nat) (a b : Obj) : Prop :=
  a.proj = b.proj ∧ (h, a.id) ∈ s₁.live ∧ findObj s₁.heap a.id = some a ∧ findObj s₂.heap a.id = some b

theorem dispatchGen_full (req : Bool) (c : Cfg) {s₁ s₂ : St} (h : Nat) (cls : String)
    (he : Equiv s₁ s₂) (hw₁ : WF Cfg.default s₁) (hw₂ : WF c s₂) :
    ORel c (ObjRel s₁ s₂ h) (dispatchGen req Cfg.default s₁ h cls).2 (dispatchGen req c s₂ h cls).2 ∧
    SameBut s₁ (dispatchGen req Cfg.default s₁ h cls).1 ∧ SameBut s₂ (dispatchGen req c s₂ h cls).1 ∧
    MemoOK (dispatchGen req Cfg.default s₁ h cls).1.memo ∧ MemoOK (dispatchGen req c s₂ h cls).1.memo := by
  unfold dispatchGen
  have hl2 : s₂.live.lookup h = s₁.live.lookup h := by rw [he.2.1]
  rw [hl2]
  rcases hl : s₁.live.lookup h with _ | i
  · exact ⟨orel_refuse c _ _, SameBut.refl _, SameBut.refl _, hw₁.1, hw₂.1⟩
  · simp only
    have hmem : (h, i) ∈ s₁.live := lookup_mem _ _ _ hl
    have hp := he.2.2 (h, i) hmem
    simp only at hp
    rcases hf₁ : findObj s₁.heap i with _ | o₁
    · rw [hf₁] at hp
      rcases hf₂ : findObj s₂.heap i with _ | o₂
      · exact ⟨orel_refuse c _ _, SameBut.refl _, SameBut.refl _, hw₁.1, hw₂.1⟩
      · rw [hf₂] at hp; cases hp
    · rw [hf₁] at hp
      rcases hf₂ : findObj s₂.heap i with _ | o₂
      · rw [hf₂] at hp; cases hp
      · rw [hf₂] at hp
        have hproj : o₁.proj = o₂.proj := Option.some.inj hp
        have hty : o₂.hdr.type = o₁.hdr.type := (congrArg (fun q => q.2.1) hproj).symm
        have hid : o₁.id = i := findObj_some_id hf₁
        have ht₁ := typeOf_of_hdr (hw₁.2 (h, i) hmem o₁ hf₁)
        have ht₂ := typeOf_of_hdr (hw₂.2 (h, i) (he.2.1 ▸ hmem) o₂ hf₂)
        simp only [ht₁, ht₂]
        have hsp₁ := typeInstance_spec Cfg.default s₁.memo o₁.hdr.type cls hw₁.1
        have hsp₂ := typeInstance_spec c s₂.memo o₂.hdr.type cls hw₂.1
        rw [hty] at hsp₂
        have hrel : ObjRel s₁ s₂ h o₁ o₂ := ⟨hproj, hid ▸ hmem, hid ▸ hf₁, hid ▸ hf₂⟩
        rw [hty]
        rcases hr₁ : (typeInstance Cfg.default s₁.memo o₁.hdr.type cls).2 with _ | inst
        · have hr₂ : (typeInstance c s₂.memo o₁.hdr.type cls).2 = none := by rw [hsp₂.1, ← hsp₁.1, hr₁]
          rw [hr₂]
          simp only
          cases req
          · simp only [Bool.false_eq_true, if_false]
            exact ⟨.ok hrel, ⟨rfl, rfl, rfl, rfl, rfl⟩, ⟨rfl, rfl, rfl, rfl, rfl⟩, hsp₁.2, hsp₂.2⟩
          · simp only [if_true]
            exact ⟨orel_refuse c _ _, ⟨rfl, rfl, rfl, rfl, rfl⟩, ⟨rfl, rfl, rfl, rfl, rfl⟩, hsp₁.2, hsp₂.2⟩
        · have hr₂ : (typeInstance c s₂.memo o₁.hdr.type cls).2 = some inst := by rw [hsp₂.1, ← hsp₁.1, hr₁]
          rw [hr₂]
          simp only
          exact ⟨.ok hrel, ⟨rfl, rfl, rfl, rfl, rfl⟩, ⟨rfl, rfl, rfl, rfl, rfl⟩, hsp₁.2, hsp₂.2⟩

theorem dispatchAll_full (c : Cfg) : ∀ (uses : List (Nat × String)) {s₁ s₂ : St},
    Equiv s₁ s₂ → WF Cfg.default s₁ → WF c s₂ →
    ORel c (fun _ _ => True) (dispatchAll Cfg.default s₁ uses).2 (dispatchAll c s₂ uses).2 ∧
    SameBut s₁ (dispatchAll Cfg.default s₁ uses).1 ∧ SameBut s₂ (dispatchAll c s₂ uses).1 ∧
    MemoOK (dispatchAll Cfg.default s₁ uses).1.memo ∧ MemoOK (dispatchAll c s₂ uses).1.memo
  | [], s₁, s₂, _, hw₁, hw₂ => ⟨.ok trivial, SameBut.refl _, SameBut.refl _, hw₁.1, hw₂.1⟩
  | (hd, cls) :: rest, s₁, s₂, he, hw₁, hw₂ => by
    have H := dispatchGen_full true c hd cls he hw₁ hw₂
    simp only [dispatchAll, dispatch]
    generalize dispatchGen true Cfg.default s₁ hd cls = r₁ at H ⊢
    generalize dispatchGen true c s₂ hd cls = r₂ at H ⊢
    obtain ⟨sA, rA⟩ := r₁; obtain ⟨sB, rB⟩ := r₂
    obtain ⟨hrel, hsb₁, hsb₂, hm₁, hm₂⟩ := H
    simp only at hrel hsb₁ hsb₂ hm₁ hm₂ ⊢
    cases hrel with
    | ok _ =>
      simp only
      have heA : Equiv sA sB := equiv_of_sameBut he hsb₁ hsb₂
      obtain ⟨r, h1, h2, h3, h4⟩ := dispatchAll_full c rest heA ⟨hm₁, hsb₁.hdrOK hw₁.2⟩ ⟨hm₂, hsb₂.hdrOK hw₂.2⟩
      exact ⟨r, hsb₁.trans h1, hsb₂.trans h2, h3, h4⟩
    | raised => exact ⟨.raised, hsb₁, hsb₂, hm₁, hm₂⟩
    | ub => exact ⟨.ub, hsb₁, hsb₂, hm₁, hm₂⟩
    | off hc => exact ⟨.off hc, hsb₁, hsb₂, hm₁, hm₂⟩

/-- what every step establishes, whatever its outcome -/
def StepRel (c : Cfg) (r₁ r₂ : St × Outcome Out) : Prop :=
  ORel c (fun a b => a = b) r₁.2 r₂.2 ∧ Equiv r₁.1 r₂.1 ∧ WF Cfg.default r₁.1 ∧ WF c r₂.1

theorem stepRel_of_sameBut {c : Cfg} {s₁ s₂ t₁ t₂ : St} {x y : Outcome Out}
    (he : Equiv s₁ s₂) (hw₁ : WF Cfg.default s₁) (hw₂ : WF c s₂)
    (h1 : SameBut s₁ t₁) (h2 : SameBut s₂ t₂) (hm1 : MemoOK t₁.memo) (hm2 : MemoOK t₂.memo)
    (hr : ORel c (fun a b => a = b) x y) : StepRel c (t₁, x) (t₂, y) :=
  ⟨hr, equiv_of_sameBut he h1 h2, ⟨hm1, h1.hdrOK hw₁.2⟩, ⟨hm2, h2.hdrOK hw₂.2⟩⟩

theorem runCall_full (c : Cfg) (cl : Call) {s₁ s₂ : St}
    (he : Equiv s₁ s₂) (hw₁ : WF Cfg.default s₁) (hw₂ : WF c s₂) :
    StepRel c (runCall Cfg.default cl s₁) (runCall c cl s₂) := by
  have H := dispatchGen_full true c cl.self cl.cls he hw₁ hw₂
  unfold runCall
  simp only [dispatch]
  generalize dispatchGen true Cfg.default s₁ cl.self cl.cls = r₁ at H ⊢
  generalize dispatchGen true c s₂ cl.self cl.cls = r₂ at H ⊢
  obtain ⟨sA, rA⟩ := r₁; obtain ⟨sB, rB⟩ := r₂
  obtain ⟨hrel, hsb₁, hsb₂, hm₁, hm₂⟩ := H
  simp only at hrel hsb₁ hsb₂ hm₁ hm₂ ⊢
  cases hrel with
  | raised => exact stepRel_of_sameBut he hw₁ hw₂ hsb₁ hsb₂ hm₁ hm₂ .raised
  | ub => exact stepRel_of_sameBut he hw₁ hw₂ hsb₁ hsb₂ hm₁ hm₂ .ub
  | off hc => exact stepRel_of_sameBut he hw₁ hw₂ hsb₁ hsb₂ hm₁ hm₂ (.off hc)
  | @ok o₁ o₂ hobj =>
    simp only
    have heA : Equiv sA sB := equiv_of_sameBut he hsb₁ hsb₂
    have hwA : WF Cfg.default sA := ⟨hm₁, hsb₁.hdrOK hw₁.2⟩
    have hwB : WF c sB := ⟨hm₂, hsb₂.hdrOK hw₂.2⟩
    have H2 := dispatchAll_full c cl.uses heA hwA hwB
    generalize dispatchAll Cfg.default sA cl.uses = q₁ at H2 ⊢
    generalize dispatchAll c sB cl.uses = q₂ at H2 ⊢
    obtain ⟨sA', rA'⟩ := q₁; obtain ⟨sB', rB'⟩ := q₂
    obtain ⟨hrel2, hs1, hs2, hmA', hmB'⟩ := H2
    simp only at hrel2 hs1 hs2 hmA' hmB' ⊢
    have heA' : Equiv sA' sB' := equiv_of_sameBut heA hs1 hs2
    have hwA' : WF Cfg.default sA' := ⟨hmA', hs1.hdrOK hwA.2⟩
    have hwB' : WF c sB' := ⟨hmB', hs2.hdrOK hwB.2⟩
    cases hrel2 with
    | raised => exact ⟨.raised, heA', hwA', hwB'⟩
    | ub => exact ⟨.ub, heA', hwA', hwB'⟩
    | off hc => exact ⟨.off hc, heA', hwA', hwB'⟩
    | ok _ =>
      simp only
      have hbody : o₂.body = o₁.body := (congrArg (fun q => q.2.2) hobj.1).symm
      have hid : o₂.id = o₁.id := (congrArg (fun q => q.1) hobj.1).symm
      rw [hbody, hid]
      rcases hg : cl.guard o₁.body with _ | e
      · simp only
        have hh₁ := hw₁.2 _ hobj.2.1 o₁ hobj.2.2.1
        have hh₂ := hw₂.2 _ (he.2.1 ▸ hobj.2.1) o₂ hobj.2.2.2
        have hiA := innerAll_spec Cfg.default (cl.inner o₁.body) sA' hmA'
        have hiB := innerAll_spec c (cl.inner o₁.body) sB' hmB'
        rcases hinA : innerAll Cfg.default sA' (cl.inner o₁.body) with ⟨sA3, fA⟩
        rcases hinB : innerAll c sB' (cl.inner o₁.body) with ⟨sB3, fB⟩
        rw [hinA] at hiA; rw [hinB] at hiB
        simp only at hiA hiB ⊢
        have hf : fB = fA := by rw [hiA.1, hiB.1]
        subst hf
        have heA3 : Equiv sA3 sB3 := equiv_of_sameBut heA' hiA.2.1 hiB.2.1
        have hwA3 : WF Cfg.default sA3 := ⟨hiA.2.2, hiA.2.1.hdrOK hwA'.2⟩
        have hwB3 : WF c sB3 := ⟨hiB.2.2, hiB.2.1.hdrOK hwB'.2⟩
        cases fB
        · simp only
          rw [← sitesFire_of_hdr hh₁ hh₂ (cl.sites o₁.body)]
          rcases hsf : sitesFire o₁ (cl.sites o₁.body) with _ | e
          · simp only
            cases hu : cl.undef o₁.body
            · simp only [Bool.false_eq_true, if_false]
              rcases hh : cl.hard o₁.body with _ | e
              · simp only
                exact ⟨.ok rfl, equiv_setBody _ _ heA3, ⟨hwA3.1, hdrOK_setBody _ _ hwA3.2⟩, ⟨hwB3.1, hdrOK_setBody _ _ hwB3.2⟩⟩
              · exact ⟨.raised, heA3, hwA3, hwB3⟩
            · simp only [if_true]
              exact ⟨.ub, heA3, hwA3, hwB3⟩
          · simp only
            exact ⟨orel_refuse c _ e, heA3, hwA3, hwB3⟩
        · simp only
          exact ⟨orel_refuse c _ _, heA3, hwA3, hwB3⟩
      · simp only
        exact ⟨orel_refuse c _ e, heA', hwA', hwB'⟩

theorem hdrOK_alloc {cfg : Cfg} {s : St} (d : Nat) (ty : String) (b : Body) (hh : HdrOK cfg s) :
    HdrOK cfg { s with next := s.next + 1,
                       heap := { id := s.next, hdr := headerInit cfg ty heapClass, body := b } :: s.heap,
                       live := (d, s.next) :: s.live } := by
  intro p hp o ho
  simp only [findObj_cons] at ho
  by_cases hpn : s.next = p.2
  · simp only [hpn, beq_self_eq_true, if_true] at ho
    rw [← Option.some.inj ho]
    rfl
  · have hb : (s.next == p.2) = false := by simpa using hpn
    simp only [hb, Bool.false_eq_true, if_false] at ho
    rcases List.mem_cons.mp hp with hp | hp
    · exfalso; apply hpn; rw [hp]
    · exact hh p hp o ho

theorem equiv_alloc {c₁ c₂ : Cfg} {s t : St} (d : Nat) (ty : String) (b : Body) (he : Equiv s t) :
    Equiv { s with next := s.next + 1, heap := { id := s.next, hdr := headerInit c₁ ty heapClass, body := b } :: s.heap,
                   live := (d, s.next) :: s.live }
          { t with next := t.next + 1, heap := { id := t.next, hdr := headerInit c₂ ty heapClass, body := b } :: t.heap,
                   live := (d, t.next) :: t.live } := by
  refine ⟨by simp only [he.1], by simp only [he.1, he.2.1], ?_⟩
  intro p hp
  simp only [findObj_cons]
  rw [← he.1]
  by_cases hpn : s.next = p.2
  · simp [hpn, Obj.proj, headerInit]
  · have hb : (s.next == p.2) = false := by simpa using hpn
    simp only [hb, Bool.false_eq_true, if_false]
    rcases List.mem_cons.mp hp with hp | hp
    · exfalso; apply hpn; rw [hp]
    · exact he.2.2 p hp

theorem runAlloc_full (c : Cfg) (d : Nat) (ty : String) (b : Body) (uses : List (Nat × String)) (mode : AMode) {s₁ s₂ : St}
    (he : Equiv s₁ s₂) (hw₁ : WF Cfg.default s₁) (hw₂ : WF c s₂) :
    StepRel c (runAlloc Cfg.default d ty b uses mode s₁) (runAlloc c d ty b uses mode s₂) := by
  have H2 := dispatchAll_full c uses he hw₁ hw₂
  unfold runAlloc
  generalize dispatchAll Cfg.default s₁ uses = q₁ at H2 ⊢
  generalize dispatchAll c s₂ uses = q₂ at H2 ⊢
  obtain ⟨sA, rA⟩ := q₁; obtain ⟨sB, rB⟩ := q₂
  obtain ⟨hrel2, hs1, hs2, hmA, hmB⟩ := H2
  simp only at hrel2 hs1 hs2 hmA hmB ⊢
  have heA : Equiv sA sB := equiv_of_sameBut he hs1 hs2
  have hwA : WF Cfg.default sA := ⟨hmA, hs1.hdrOK hw₁.2⟩
  have hwB : WF c sB := ⟨hmB, hs2.hdrOK hw₂.2⟩
  cases hrel2 with
  | raised => exact ⟨.raised, heA, hwA, hwB⟩
  | ub => exact ⟨.ub, heA, hwA, hwB⟩
  | off hc => exact ⟨.off hc, heA, hwA, hwB⟩
  | ok _ =>
    simp only
    have hsite : sitesFire { id := sB.next, hdr := headerInit c ty heapClass, body := b } ((ty ++ "_Assign", .self) :: elemSites "_Assign" b) =
        sitesFire { id := sA.next, hdr := headerInit Cfg.default ty heapClass, body := b } ((ty ++ "_Assign", .self) :: elemSites "_Assign" b) :=
      sitesFire_congr (by simp only [siteClass_self_headerInit]) _
    rw [hsite]
    rcases hsf : sitesFire { id := sA.next, hdr := headerInit Cfg.default ty heapClass, body := b }
        ((ty ++ "_Assign", .self) :: elemSites "_Assign" b) with _ | e
    · simp only
      have het := equiv_alloc (c₁ := Cfg.default) (c₂ := c) d ty b heA
      have hhA := hdrOK_alloc d ty b hwA.2
      have hhB := hdrOK_alloc d ty b hwB.2
      refine ⟨.ok rfl, ?_, ⟨?_, ?_⟩, ⟨?_, ?_⟩⟩
      · exact ((register_equiv Cfg.default mode _ _).symm.trans het).trans (register_equiv c mode _ _)
      · rw [memo_register]; exact hmA
      · exact hdrOK_register Cfg.default mode _ hhA
      · rw [memo_register]; exact hmB
      · exact hdrOK_register c mode _ hhB
    · simp only
      exact ⟨orel_refuse c _ e, heA, hwA, hwB⟩

theorem runDel_full (c : Cfg) (x : Nat) {s₁ s₂ : St}
    (he : Equiv s₁ s₂) (hw₁ : WF Cfg.default s₁) (hw₂ : WF c s₂) :
    StepRel c (runDel Cfg.default x s₁) (runDel c x s₂) := by
  have H := dispatchGen_full false c x "New" he hw₁ hw₂
  unfold runDel
  generalize dispatchGen false Cfg.default s₁ x "New" = r₁ at H ⊢
  generalize dispatchGen false c s₂ x "New" = r₂ at H ⊢
  obtain ⟨sA, rA⟩ := r₁; obtain ⟨sB, rB⟩ := r₂
  obtain ⟨hrel, hsb₁, hsb₂, hm₁, hm₂⟩ := H
  simp only at hrel hsb₁ hsb₂ hm₁ hm₂ ⊢
  cases hrel with
  | raised => exact stepRel_of_sameBut he hw₁ hw₂ hsb₁ hsb₂ hm₁ hm₂ .raised
  | ub => exact stepRel_of_sameBut he hw₁ hw₂ hsb₁ hsb₂ hm₁ hm₂ .ub
  | off hc => exact stepRel_of_sameBut he hw₁ hw₂ hsb₁ hsb₂ hm₁ hm₂ (.off hc)
  | @ok o₁ o₂ hobj =>
    simp only
    have heA : Equiv sA sB := equiv_of_sameBut he hsb₁ hsb₂
    have hwA : WF Cfg.default sA := ⟨hm₁, hsb₁.hdrOK hw₁.2⟩
    have hwB : WF c sB := ⟨hm₂, hsb₂.hdrOK hw₂.2⟩
    have H2 := dispatchGen_full false c x "Alloc" heA hwA hwB
    generalize dispatchGen false Cfg.default sA x "Alloc" = q₁ at H2 ⊢
    generalize dispatchGen false c sB x "Alloc" = q₂ at H2 ⊢
    obtain ⟨sA', rA'⟩ := q₁; obtain ⟨sB', rB'⟩ := q₂
    obtain ⟨hrel2, hs1, hs2, hmA', hmB'⟩ := H2
    simp only at hrel2 hs1 hs2 hmA' hmB' ⊢
    cases hrel2 with
    | raised => exact stepRel_of_sameBut heA hwA hwB hs1 hs2 hmA' hmB' .raised
    | ub => exact stepRel_of_sameBut heA hwA hwB hs1 hs2 hmA' hmB' .ub
    | off hc => exact stepRel_of_sameBut heA hwA hwB hs1 hs2 hmA' hmB' (.off hc)
    | ok _ =>
      simp only
      have heA' : Equiv sA' sB' := equiv_of_sameBut heA hs1 hs2
      have hid : o₂.id = o₁.id := (congrArg (fun q => q.1) hobj.1).symm
      have hbody : o₂.body = o₁.body := (congrArg (fun q => q.2.2) hobj.1).symm
      have hty : o₂.hdr.type = o₁.hdr.type := (congrArg (fun q => q.2.1) hobj.1).symm
      have hh₁ := hw₁.2 _ hobj.2.1 o₁ hobj.2.2.1
      have hh₂ := hw₂.2 _ (he.2.1 ▸ hobj.2.1) o₂ hobj.2.2.2
      rw [hid, hbody, hty, ← sitesFire_of_hdr hh₁ hh₂]
      rcases hsf : sitesFire o₁ ((o₁.hdr.type ++ "_Del", .self) :: elemSites "_Del" o₁.body ++ [("dealloc", .self)]) with _ | e
      · simp only [hsf]
        exact ⟨.ok rfl, equiv_free x o₁.id _ _ _ _ heA', ⟨hmA', hdrOK_free x o₁.id _ _ (hs1.hdrOK hwA.2)⟩,
          ⟨hmB', hdrOK_free x o₁.id _ _ (hs2.hdrOK hwB.2)⟩⟩
      · simp only [hsf]
        exact ⟨orel_refuse c _ e, heA', ⟨hmA', hs1.hdrOK hwA.2⟩, ⟨hmB', hs2.hdrOK hwB.2⟩⟩

/-- **One step, any outcome.** -/
theorem step_full (c : Cfg) (op : Op) {s₁ s₂ : St}
    (he : Equiv s₁ s₂) (hw₁ : WF Cfg.default s₁) (hw₂ : WF c s₂) :
    StepRel c (step Cfg.default op s₁) (step c op s₂) := by
  unfold step
  rw [← view_eq_of_equiv he]
  rcases hp : plan op s₁.view with cl | ⟨d, ty, b, uses, mode⟩ | x | x | _ | o | e | _
  · exact runCall_full c cl he hw₁ hw₂
  · exact runAlloc_full c d ty b uses mode he hw₁ hw₂
  · exact runDel_full c x he hw₁ hw₂
  · refine ⟨.ok rfl, ⟨he.1, by simp only [he.2.1], ?_⟩, ⟨hw₁.1, ?_⟩, ⟨hw₂.1, ?_⟩⟩
    · intro p hp'; exact he.2.2 p (List.mem_filter.mp hp').1
    · intro p hp' o ho; exact hw₁.2 p (List.mem_filter.mp hp').1 o ho
    · intro p hp' o ho; exact hw₂.2 p (List.mem_filter.mp hp').1 o ho
  · refine ⟨.ok rfl, ?_, ⟨?_, ?_⟩, ⟨?_, ?_⟩⟩
    · simp only [Cfg.default, if_true]
      cases c.gc
      · simp only [Bool.false_eq_true, if_false]; exact (collect_equiv s₁).symm.trans he
      · simp only [if_true]; exact ((collect_equiv s₁).symm.trans he).trans (collect_equiv s₂)
    · simp only [Cfg.default, if_true]; exact hw₁.1
    · simp only [Cfg.default, if_true]; exact hdrOK_collect hw₁.2
    · cases c.gc
      · simp only [Bool.false_eq_true, if_false]; exact hw₂.1
      · simp only [if_true]; exact hw₂.1
    · cases c.gc
      · simp only [Bool.false_eq_true, if_false]; exact hw₂.2
      · simp only [if_true]; exact hdrOK_collect hw₂.2
  · exact ⟨.ok rfl, he, hw₁, hw₂⟩
  · exact ⟨orel_refuse c _ e, he, hw₁, hw₂⟩
  · exact ⟨.ub, he, hw₁, hw₂⟩

/-- pointwise relation of two outcome lists -/
inductive AllRel (c : Cfg) : List (Outcome Out) → List (Outcome Out) → Prop where
  | nil : AllRel c [] []
  | cons {x y : Outcome Out} {xs ys : List (Outcome Out)} :
      ORel c (fun a b => a = b) x y → AllRel c xs ys → AllRel c (x :: xs) (y :: ys)

theorem run_full (c : Cfg) (prog : List Op) : ∀ {s₁ s₂ : St}, Equiv s₁ s₂ → WF Cfg.default s₁ → WF c s₂ →
    AllRel c (run Cfg.default prog s₁).2 (run c prog s₂).2 ∧ Equiv (run Cfg.default prog s₁).1 (run c prog s₂).1 := by
  induction prog with
  | nil => intro s₁ s₂ he _ _; exact ⟨.nil, he⟩
  | cons op rest ih =>
    intro s₁ s₂ he hw₁ hw₂
    obtain ⟨hr, he', hw₁', hw₂'⟩ := step_full c op he hw₁ hw₂
    obtain ⟨h1, h2⟩ := ih he' hw₁' hw₂'
    exact ⟨.cons hr h1, h2⟩

theorem AllRel.eq_of_checks {c : Cfg} (hc : c.checks = true) {xs ys : List (Outcome Out)} (h : AllRel c xs ys) : ys = xs := by
  induction h with
  | nil => rfl
  | cons hr _ ih =>
    rw [ih]
    cases hr with
    | ok h => rw [h]
    | raised => rfl
    | ub => rfl
    | off h => rw [hc] at h; cases h

/-- `AllRel` spelled out position by position -/
theorem AllRel.pointwise {c : Cfg} {xs ys : List (Outcome Out)} (h : AllRel c xs ys) :
    xs.length = ys.length ∧
    ∀ (i : Nat) (x y : Outcome Out), xs[i]? = some x → ys[i]? = some y →
      (y = x ∨ (c.checks = false ∧ (∃ e, x = .raised e) ∧ y = .ub)) := by
  induction h with
  | nil => exact ⟨rfl, fun i x y hx _ => by simp at hx⟩
  | cons hr _ ih =>
    refine ⟨by simp [ih.1], ?_⟩
    intro i x y hx hy
    cases i with
    | zero =>
      simp only [List.getElem?_cons_zero, Option.some.injEq] at hx hy
      subst hx hy
      cases hr with
      | ok h => left; rw [h]
      | raised => left; rfl
      | ub => left; rfl
      | off h => right; exact ⟨h, ⟨_, rfl⟩, rfl⟩
    | succ n =>
      simp only [List.getElem?_cons_succ] at hx hy
      exact ih.2 n x y hx hy

end Cello.Config
