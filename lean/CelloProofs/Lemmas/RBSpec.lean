/-
  Lemmas/RBSpec.lean — facts about the specification of C03: strictly descending association lists
  (`Spec.set`, `Spec.get`, `Spec.rem` of Cello/RBTree.lean) under a lawful comparison.
-/
import Cello.RBTree

namespace Cello.RB
open Std
variable {α β : Type} {cmp : α → α → Ordering}

/-- strictly descending keys (the order in which Tree.c keeps them left → right) -/
def Desc (cmp : α → α → Ordering) (l : List (α × β)) : Prop := l.Pairwise (fun a b => cmp a.1 b.1 = .gt)

theorem Desc.nil : Desc cmp ([] : List (α × β)) := List.Pairwise.nil

theorem desc_append {A B : List (α × β)} :
    Desc cmp (A ++ B) ↔ Desc cmp A ∧ Desc cmp B ∧ ∀ a ∈ A, ∀ b ∈ B, cmp a.1 b.1 = .gt := by
  simp [Desc, List.pairwise_append]

theorem desc_cons {a : α × β} {B : List (α × β)} :
    Desc cmp (a :: B) ↔ (∀ b ∈ B, cmp a.1 b.1 = .gt) ∧ Desc cmp B := by
  simp [Desc, List.pairwise_cons]

/-- the parts of `Desc (A ++ x :: B)` -/
theorem desc_mid {A B : List (α × β)} {x : α × β} (h : Desc cmp (A ++ x :: B)) :
    Desc cmp A ∧ Desc cmp B ∧ (∀ a ∈ A, cmp a.1 x.1 = .gt) ∧ (∀ b ∈ B, cmp x.1 b.1 = .gt) ∧
      ∀ a ∈ A, ∀ b ∈ B, cmp a.1 b.1 = .gt := by
  rw [desc_append, desc_cons] at h
  obtain ⟨hA, ⟨hx, hB⟩, hAB⟩ := h
  exact ⟨hA, hB, fun a ha => hAB a ha x (by simp), hx, fun a ha b hb => hAB a ha b (by simp [hb])⟩

theorem desc_mid_iff {A B : List (α × β)} {x : α × β} :
    Desc cmp (A ++ x :: B) ↔ Desc cmp A ∧ Desc cmp B ∧ (∀ a ∈ A, cmp a.1 x.1 = .gt) ∧ (∀ b ∈ B, cmp x.1 b.1 = .gt) ∧
      ∀ a ∈ A, ∀ b ∈ B, cmp a.1 b.1 = .gt := by
  constructor
  · exact desc_mid
  · rintro ⟨hA, hB, hAx, hxB, hAB⟩
    rw [desc_append, desc_cons]
    refine ⟨hA, ⟨hxB, hB⟩, ?_⟩
    intro a ha b hb
    rcases List.mem_cons.mp hb with rfl | hb
    · exact hAx a ha
    · exact hAB a ha b hb

namespace Spec

/-! ### set -/

theorem set_append_lt (k : α) (v : β) (A B : List (α × β)) (x : α × β) (hx : cmp x.1 k = .lt) :
    set cmp k v (A ++ x :: B) = set cmp k v A ++ x :: B := by
  induction A with
  | nil => obtain ⟨xk, xv⟩ := x; simp_all [set]
  | cons a A ih =>
    obtain ⟨ak, av⟩ := a
    simp only [List.cons_append, set]
    cases cmp ak k <;> simp [ih]

theorem set_append_gt (k : α) (v : β) (A B : List (α × β)) (x : α × β)
    (hA : ∀ a ∈ A, cmp a.1 k = .gt) (hx : cmp x.1 k = .gt) :
    set cmp k v (A ++ x :: B) = A ++ x :: set cmp k v B := by
  induction A with
  | nil => obtain ⟨xk, xv⟩ := x; simp_all [set]
  | cons a A ih =>
    obtain ⟨ak, av⟩ := a
    have : cmp ak k = .gt := hA (ak, av) (by simp)
    simp only [List.cons_append, set, this]
    rw [ih (fun a ha => hA a (by simp [ha]))]

theorem set_append_eq (k : α) (v : β) (A B : List (α × β)) (x : α × β)
    (hA : ∀ a ∈ A, cmp a.1 k = .gt) (hx : cmp x.1 k = .eq) :
    set cmp k v (A ++ x :: B) = A ++ (k, v) :: B := by
  induction A with
  | nil => obtain ⟨xk, xv⟩ := x; simp_all [set]
  | cons a A ih =>
    obtain ⟨ak, av⟩ := a
    have : cmp ak k = .gt := hA (ak, av) (by simp)
    simp only [List.cons_append, set, this]
    rw [ih (fun a ha => hA a (by simp [ha]))]

/-! ### get -/

theorem get_none_of_lt (k : α) (B : List (α × β)) (hB : ∀ b ∈ B, cmp b.1 k = .lt) : get cmp k B = none := by
  induction B with
  | nil => rfl
  | cons b B ih =>
    obtain ⟨bk, bv⟩ := b
    have : cmp bk k = .lt := hB (bk, bv) (by simp)
    simp [get, this, ih (fun b hb => hB b (by simp [hb]))]

theorem get_none_of_gt (k : α) (B : List (α × β)) (hB : ∀ b ∈ B, cmp b.1 k = .gt) : get cmp k B = none := by
  induction B with
  | nil => rfl
  | cons b B ih =>
    obtain ⟨bk, bv⟩ := b
    have : cmp bk k = .gt := hB (bk, bv) (by simp)
    simp [get, this, ih (fun b hb => hB b (by simp [hb]))]

theorem get_append_lt (k : α) (A B : List (α × β)) (x : α × β) (hx : cmp x.1 k = .lt)
    (hB : ∀ b ∈ B, cmp b.1 k = .lt) : get cmp k (A ++ x :: B) = get cmp k A := by
  induction A with
  | nil =>
    obtain ⟨xk, xv⟩ := x
    have := get_none_of_lt k B hB
    simp_all [get]
  | cons a A ih =>
    obtain ⟨ak, av⟩ := a
    simp only [List.cons_append, get, ih]

theorem get_append_gt (k : α) (A B : List (α × β)) (x : α × β)
    (hA : ∀ a ∈ A, cmp a.1 k = .gt) (hx : cmp x.1 k = .gt) : get cmp k (A ++ x :: B) = get cmp k B := by
  induction A with
  | nil => obtain ⟨xk, xv⟩ := x; simp_all [get]
  | cons a A ih =>
    obtain ⟨ak, av⟩ := a
    have : cmp ak k = .gt := hA (ak, av) (by simp)
    simp only [List.cons_append, get, this]
    simpa using ih (fun a ha => hA a (by simp [ha]))

theorem get_append_eq (k : α) (A B : List (α × β)) (x : α × β)
    (hA : ∀ a ∈ A, cmp a.1 k = .gt) (hx : cmp x.1 k = .eq) : get cmp k (A ++ x :: B) = some x.2 := by
  induction A with
  | nil => obtain ⟨xk, xv⟩ := x; simp_all [get]
  | cons a A ih =>
    obtain ⟨ak, av⟩ := a
    have : cmp ak k = .gt := hA (ak, av) (by simp)
    simp only [List.cons_append, get, this]
    simpa using ih (fun a ha => hA a (by simp [ha]))

/-! ### rem -/

theorem rem_of_lt (k : α) (B : List (α × β)) (hB : ∀ b ∈ B, cmp b.1 k = .lt) : rem cmp k B = B := by
  induction B with
  | nil => rfl
  | cons b B ih =>
    obtain ⟨bk, bv⟩ := b
    have : cmp bk k = .lt := hB (bk, bv) (by simp)
    simp [rem, this, ih (fun b hb => hB b (by simp [hb]))]

theorem rem_of_gt (k : α) (B : List (α × β)) (hB : ∀ b ∈ B, cmp b.1 k = .gt) : rem cmp k B = B := by
  induction B with
  | nil => rfl
  | cons b B ih =>
    obtain ⟨bk, bv⟩ := b
    have : cmp bk k = .gt := hB (bk, bv) (by simp)
    simp [rem, this, ih (fun b hb => hB b (by simp [hb]))]

theorem rem_append_lt (k : α) (A B : List (α × β)) (x : α × β) (hx : cmp x.1 k = .lt)
    (hB : ∀ b ∈ B, cmp b.1 k = .lt) : rem cmp k (A ++ x :: B) = rem cmp k A ++ x :: B := by
  induction A with
  | nil =>
    obtain ⟨xk, xv⟩ := x
    have := rem_of_lt k B hB
    simp_all [rem]
  | cons a A ih =>
    obtain ⟨ak, av⟩ := a
    simp only [List.cons_append, rem, ih]
    split <;> simp

theorem rem_append_gt (k : α) (A B : List (α × β)) (x : α × β)
    (hA : ∀ a ∈ A, cmp a.1 k = .gt) (hx : cmp x.1 k = .gt) : rem cmp k (A ++ x :: B) = A ++ x :: rem cmp k B := by
  induction A with
  | nil => obtain ⟨xk, xv⟩ := x; simp_all [rem]
  | cons a A ih =>
    obtain ⟨ak, av⟩ := a
    have : cmp ak k = .gt := hA (ak, av) (by simp)
    simp only [List.cons_append, rem, this]
    simpa using ih (fun a ha => hA a (by simp [ha]))

theorem rem_append_eq (k : α) (A B : List (α × β)) (x : α × β)
    (hA : ∀ a ∈ A, cmp a.1 k = .gt) (hx : cmp x.1 k = .eq) : rem cmp k (A ++ x :: B) = A ++ B := by
  induction A with
  | nil => obtain ⟨xk, xv⟩ := x; simp_all [rem]
  | cons a A ih =>
    obtain ⟨ak, av⟩ := a
    have : cmp ak k = .gt := hA (ak, av) (by simp)
    simp only [List.cons_append, rem, this]
    simpa using ih (fun a ha => hA a (by simp [ha]))

/-! ### the specification is itself an ordered finite map -/

theorem mem_set {k : α} {v : β} {l : List (α × β)} {b : α × β} (h : b ∈ set cmp k v l) : b = (k, v) ∨ b ∈ l := by
  induction l with
  | nil => simp [set] at h; exact Or.inl h
  | cons a l ih =>
    obtain ⟨ak, av⟩ := a
    simp only [set] at h
    cases hc : cmp ak k <;> rw [hc] at h <;> simp at h
    · rcases h with h | h | h <;> simp [h]
    · rcases h with h | h <;> simp [h]
    · rcases h with h | h
      · simp [h]
      · rcases ih h with h | h <;> simp [h]

theorem desc_set [TransCmp cmp] (k : α) (v : β) (l : List (α × β)) (h : Desc cmp l) : Desc cmp (set cmp k v l) := by
  induction l with
  | nil => simp [set, Desc]
  | cons a l ih =>
    obtain ⟨ak, av⟩ := a
    rw [desc_cons] at h
    obtain ⟨h1, h2⟩ := h
    simp only [set]
    cases hc : cmp ak k with
    | eq =>
      rw [desc_cons]
      refine ⟨fun b hb => ?_, h2⟩
      have := h1 b hb
      simp only at this ⊢
      rw [← TransCmp.congr_left hc]; exact this
    | lt =>
      rw [desc_cons, desc_cons]
      refine ⟨fun b hb => ?_, h1, h2⟩
      rcases List.mem_cons.mp hb with rfl | hb
      · exact OrientedCmp.gt_of_lt hc
      · exact TransCmp.gt_trans (OrientedCmp.gt_of_lt hc) (h1 b hb)
    | gt =>
      rw [desc_cons]
      refine ⟨fun b hb => ?_, ih h2⟩
      rcases mem_set hb with rfl | hb
      · exact hc
      · exact h1 b hb

theorem length_set [TransCmp cmp] (k : α) (v : β) (l : List (α × β)) (h : Desc cmp l) :
    (set cmp k v l).length = l.length + (if (get cmp k l).isNone then 1 else 0) := by
  induction l with
  | nil => simp [set, get]
  | cons a l ih =>
    obtain ⟨ak, av⟩ := a
    rw [desc_cons] at h
    obtain ⟨h1, h2⟩ := h
    cases hc : cmp ak k with
    | eq => simp [set, get, hc]
    | lt =>
      have : get cmp k l = none :=
        get_none_of_lt k l (fun b hb => TransCmp.lt_trans (OrientedCmp.lt_of_gt (h1 b hb)) hc)
      simp [set, get, hc, this]
    | gt => simp [set, get, hc, ih h2]; omega

theorem set_all_gt (k : α) (v : β) (l : List (α × β)) (h : ∀ a ∈ l, cmp a.1 k = .gt) :
    set cmp k v l = l ++ [(k, v)] := by
  induction l with
  | nil => rfl
  | cons a l ih =>
    obtain ⟨ak, av⟩ := a
    have : cmp ak k = .gt := h (ak, av) (by simp)
    simp [set, this, ih (fun a ha => h a (by simp [ha]))]

theorem rem_sublist (k : α) (l : List (α × β)) : (rem cmp k l).Sublist l := by
  induction l with
  | nil => exact List.Sublist.slnil
  | cons a l ih =>
    obtain ⟨ak, av⟩ := a
    simp only [rem]
    split
    · exact List.sublist_cons_self _ _
    · exact ih.cons_cons _

theorem desc_rem (k : α) (l : List (α × β)) (h : Desc cmp l) : Desc cmp (rem cmp k l) :=
  List.Pairwise.sublist (rem_sublist k l) h

theorem length_rem (k : α) (l : List (α × β)) (h : (get cmp k l).isSome) : (rem cmp k l).length + 1 = l.length := by
  induction l with
  | nil => simp [get] at h
  | cons a l ih =>
    obtain ⟨ak, av⟩ := a
    simp only [rem, get] at h ⊢
    split
    · simp
    · rename_i hne; simp [hne] at h; simp [ih h]

theorem get_of_mem [TransCmp cmp] (k : α) (v : β) (l : List (α × β)) (h : Desc cmp l) (hm : (k, v) ∈ l) :
    get cmp k l = some v := by
  induction l with
  | nil => simp at hm
  | cons a l ih =>
    obtain ⟨ak, av⟩ := a
    rw [desc_cons] at h
    obtain ⟨h1, h2⟩ := h
    simp only [get]
    rcases List.mem_cons.mp hm with heq | hm
    · cases heq; simp [ReflCmp.compare_self]
    · have := h1 _ hm
      simp only at this
      simp [this, ih h2 hm]

/-- lookup after insertion -/
theorem get_set [TransCmp cmp] (k k' : α) (v : β) (l : List (α × β)) (h : Desc cmp l) :
    get cmp k' (set cmp k v l) = if cmp k k' = .eq then some v else get cmp k' l := by
  induction l with
  | nil => simp [set, get]
  | cons a l ih =>
    obtain ⟨ak, av⟩ := a
    rw [desc_cons] at h
    obtain ⟨h1, h2⟩ := h
    simp only [set]
    cases hc : cmp ak k with
    | eq =>
      simp only [get]
      rw [TransCmp.congr_left hc]
      split <;> rfl
    | lt =>
      simp only [get]
    | gt =>
      simp only [get]
      rw [ih h2]
      by_cases hk : cmp k k' = .eq
      · have : cmp ak k' = .gt := by rw [← TransCmp.congr_right hk]; exact hc
        simp [hk, this]
      · simp [hk]

/-- lookup after removal -/
theorem get_rem [TransCmp cmp] (k k' : α) (l : List (α × β)) (h : Desc cmp l) :
    get cmp k' (rem cmp k l) = if cmp k k' = .eq then none else get cmp k' l := by
  induction l with
  | nil => simp [rem, get]
  | cons a l ih =>
    obtain ⟨ak, av⟩ := a
    rw [desc_cons] at h
    obtain ⟨h1, h2⟩ := h
    simp only [rem]
    by_cases hc : cmp ak k = .eq
    · simp only [hc, if_true, get]
      by_cases hk : cmp k k' = .eq
      · rw [if_pos hk]
        apply get_none_of_lt
        intro b hb
        have h3 := h1 b hb
        simp only at h3
        rw [TransCmp.congr_left hc, TransCmp.congr_left hk] at h3
        exact OrientedCmp.lt_of_gt h3
      · rw [if_neg hk]
        have : ¬ cmp ak k' = .eq := by rw [TransCmp.congr_left hc]; exact hk
        simp [this]
    · simp only [hc, if_false, get]
      rw [ih h2]
      by_cases hk : cmp k k' = .eq
      · have : ¬ cmp ak k' = .eq := by rw [← TransCmp.congr_right hk]; exact hc
        simp [hk, this]
      · simp [hk]

end Spec
end Cello.RB
