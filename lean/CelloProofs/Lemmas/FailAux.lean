import Cello.Fail
import CelloProofs.Lemmas.Fail
import CelloProofs.Lemmas.FailSpec
/-
  C12: auxiliary lemmas used by the property theorems (loops, shapes of results, the store) and the store-level
  definitions of the known-finding territories.
-/
namespace Cello.Fail

theorem Lst.concatLoop_atomic (ty : Ty) : ∀ (vs : List Val) (l l' : Lst) (e : Exc), l.ty = ty →
    (vs.any (fun v => !(assignTo ty v).isOk)) = false → l.concatLoop vs ≠ (l', .raised e) := by
  intro vs
  induction vs with
  | nil => intro l l' e _ _ h; simp [Lst.concatLoop] at h
  | cons v vs ih =>
    intro l l' e hty hk h
    simp only [List.any_cons, Bool.or_eq_false_iff, Bool.not_eq_false'] at hk
    obtain ⟨hv, hvs⟩ := hk
    simp only [Lst.concatLoop, Lst.push, hty] at h
    cases ha : assignTo ty v with
    | ok w => rw [ha] at h; simp only at h; exact ih _ l' e (by simp [hty]) hvs h
    | raised x => simp [ha, R.isOk] at hv
    | ub => simp [ha, R.isOk] at hv

/-- `eq(item, t->items[i])` for an argument of the items' type -/
theorem eqv_arg (ty : Ty) (hty : ty.isElemTy) (x v : Val) (hx : x.elemOf ty) (hv : v.elemOf ty) :
    eqv v x = .ok (decide (v = x)) := by
  obtain ⟨hx1, hx2⟩ := hx
  obtain ⟨hv1, hv2⟩ := hv
  cases ty <;> cases x <;> cases v <;> simp_all [eqv, Val.ty?, Ty.isElemTy]

theorem findEq_arg (ty : Ty) (hty : ty.isElemTy) (v : Val) (hv : v.elemOf ty) :
    ∀ (items : List Val) (i : Nat), (∀ x ∈ items, x.elemOf ty) →
      ∃ r, findEq false v items i = .ok r ∧ (r.isSome ↔ v ∈ items) := by
  intro items
  induction items with
  | nil => intro i _; exact ⟨none, by simp [findEq], by simp⟩
  | cons x xs ih =>
    intro i hall
    have he := eqv_arg ty hty x v (hall x List.mem_cons_self) hv
    obtain ⟨r, hr1, hr2⟩ := ih (i + 1) (fun y hy => hall y (List.mem_cons_of_mem _ hy))
    by_cases hxv : v = x
    · subst hxv; exact ⟨some i, by simp [findEq, he], by simp⟩
    · exact ⟨r, by simp [findEq, he, hxv, hr1], by rw [hr2]; simp [List.mem_cons, hxv]⟩

/-- a `print_to` that fails at its first segment, or into a String that is not on the heap, writes nothing -/
theorem Str.printLoop_atomic_first (s s' : Str) (pos : Nat) (fmt : List FmtItem) (args : List Val) (e : Exc)
    (hk : s.kf (.print pos fmt args) = false) (h : Str.printLoop s pos args fmt = (s', .raised e)) : s' = s := by
  cases fmt with
  | nil => simp [Str.printLoop] at h
  | cons it rest =>
    cases it with
    | lit t =>
      simp only [Str.kf, Bool.and_eq_false_iff, Bool.not_eq_false', decide_eq_false_iff_not] at hk
      simp only [Str.printLoop, Str.write] at h
      rcases hk with hk | hk
      · simp [hk] at h; exact h.1.symm
      · by_cases hh : s.alloc.nonHeap = true
        · simp [hh] at h; exact h.1.symm
        · simp only [hh, Bool.false_eq_true, if_false] at h
          have : pos > s.s.length := by omega
          simp [this] at h
    | d =>
      cases args with
      | nil => simp [Str.printLoop] at h; exact h.1.symm
      | cons a as =>
        simp only [Str.kf, Bool.and_eq_false_iff, Bool.not_eq_false', decide_eq_false_iff_not] at hk
        simp only [Str.printLoop, Str.write] at h
        cases hc : cInt a with
        | ok b =>
          simp only [hc, R.isOk] at h hk
          rcases hk with (hk | hk) | hk
          · simp [hk] at h; exact h.1.symm
          · by_cases hh : s.alloc.nonHeap = true
            · simp [hh] at h; exact h.1.symm
            · have : pos > s.s.length := by omega
              simp [hh, this] at h
          · cases hk
        | raised x => simp [hc] at h; exact h.1.symm
        | ub => simp [hc] at h
    | s =>
      cases args with
      | nil => simp [Str.printLoop] at h; exact h.1.symm
      | cons a as =>
        simp only [Str.kf, Bool.and_eq_false_iff, Bool.not_eq_false', decide_eq_false_iff_not] at hk
        simp only [Str.printLoop, Str.write] at h
        cases hc : cStr a with
        | ok b =>
          simp only [hc, R.isOk] at h hk
          rcases hk with (hk | hk) | hk
          · simp [hk] at h; exact h.1.symm
          · by_cases hh : s.alloc.nonHeap = true
            · simp [hh] at h; exact h.1.symm
            · have : pos > s.s.length := by omega
              simp [hh, this] at h
          · cases hk
        | raised x => simp [hc] at h; exact h.1.symm
        | ub => simp [hc] at h
    | q =>
      cases args with
      | nil => simp [Str.printLoop] at h; exact h.1.symm
      | cons a as =>
        simp only [Str.kf, Bool.and_eq_false_iff, Bool.not_eq_false', decide_eq_false_iff_not] at hk
        simp only [Str.printLoop, Str.write] at h
        cases hc : showText a with
        | ok b =>
          simp only [hc, R.isOk] at h hk
          rcases hk with (hk | hk) | hk
          · simp [hk] at h; exact h.1.symm
          · by_cases hh : s.alloc.nonHeap = true
            · simp [hh] at h; exact h.1.symm
            · have : pos > s.s.length := by omega
              simp [hh, this] at h
          · cases hk
        | raised x => simp [hc] at h; exact h.1.symm
        | ub => simp [hc] at h

theorem Rng.get_shape (r : Rng) (k : Val) : ∃ sc x, r.get k = ({ r with scratch := sc }, x) := by
  unfold Rng.get
  dsimp only
  repeat' split
  all_goals (first | exact ⟨_, _, rfl⟩ | exact ⟨r.scratch, _, rfl⟩)

theorem Rng.get_fields (r : Rng) (k : Val) :
    (r.get k).1.start = r.start ∧ (r.get k).1.stop = r.stop ∧ (r.get k).1.step = r.step := by
  obtain ⟨sc, x, h⟩ := Rng.get_shape r k
  rw [h]; simp

/-- territory of the known findings for an object -/
def Obj.kf : Obj → Op → Bool
  | .arr a, op => a.kf op
  | .lst l, op => l.kf op
  | .tab t, op => t.kf op
  | .tre t, op => t.kf op
  | .str s, op => s.kf op
  | _, _ => false

theorem Store.put_view (σ : Store) (id : Nat) (o o' : Obj) (hget : σ.get? id = some o) (hv : o'.view = o.view) :
    (σ.put id o').view = σ.view := by
  induction σ with
  | nil => simp [Store.get?] at hget
  | cons p ps ih =>
    obtain ⟨pid, po⟩ := p
    simp only [Store.get?, List.lookup_cons] at hget
    by_cases hp : pid = id
    · subst hp
      simp only [beq_self_eq_true] at hget
      injection hget with hget
      subst hget
      simp [Store.put, Store.view, hv]
    · have hb : (id == pid) = false := by
        simp only [beq_eq_false_iff_ne, ne_eq]; exact fun h => hp h.symm
      simp only [hb] at hget
      have := ih (by simpa [Store.get?] using hget)
      simp only [Store.view] at this ⊢
      simp [Store.put, hp, this]

/-- territory of the known findings for operation `op` on object `id` of the store -/
def kf (σ : Store) (id : Nat) (op : Op) : Bool :=
  match σ.get? id with
  | some o => o.kf op
  | none => false

/-- objects for which a failed operation restores the representation exactly, capacity and scratch included -/
def Obj.exact : Obj → Bool
  | .tab t => t.nslots ≠ 0
  | .slc _ => false
  | _ => true

theorem viewStep_zip_eq (σ : Store) (z : Zp) (o' : Obj) (op : Op) (r : Res) (h : viewStep σ (.zip z) op = (o', r)) : o' = .zip z := by
  cases op with
  | get k =>
    simp only [viewStep] at h
    repeat' split at h
    all_goals (simp only [Prod.mk.injEq] at h; exact h.1.symm)
  | len =>
    simp only [viewStep] at h
    repeat' split at h
    all_goals (simp only [Prod.mk.injEq] at h; exact h.1.symm)
  | print pos fmt args =>
    cases fmt with
    | nil => simp [viewStep] at h; exact h.1.symm
    | cons it rest => cases it <;> simp [viewStep] at h <;> exact h.1.symm
  | assign v => cases v <;> simp [viewStep] at h <;> exact h.1.symm
  | _ => simp [viewStep] at h <;> exact h.1.symm

theorem Store.put_same (σ : Store) (id : Nat) (o : Obj) (hget : σ.get? id = some o) : σ.put id o = σ := by
  induction σ with
  | nil => simp [Store.get?] at hget
  | cons p ps ih =>
    obtain ⟨pid, po⟩ := p
    simp only [Store.get?, List.lookup_cons] at hget
    by_cases hp : pid = id
    · subst hp
      simp only [beq_self_eq_true] at hget
      injection hget with hget
      subst hget
      simp [Store.put]
    · have hb : (id == pid) = false := by
        simp only [beq_eq_false_iff_ne, ne_eq]; exact fun h => hp h.symm
      simp only [hb] at hget
      simp [Store.put, hp, ih (by simpa [Store.get?] using hget)]

end Cello.Fail
