import Cello.Fail
import CelloProofs.Lemmas.Fail
import CelloProofs.Lemmas.FailSpec
/-
  C12: auxiliary lemmas used by the property theorems (loops, shapes of results, the store) and the store-level
  definitions of the known-finding territories.
-/
namespace Cello.Fail

theorem Lst.concatLoop_atomic (ty : Ty) : ∀ (vs : List Val) (l l' : Lst) (e : Exc), l.ty = ty →
    (vs.any (fun v => !(assignTo ty v).isOk)) = false → l.concatLoop vs ≠ (l', .raised e) := by
  intro vs
  induction vs with
  | nil => intro l l' e _ _ h; simp [Lst.concatLoop] at h
  | cons v vs ih =>
    intro l l' e hty hk h
    simp only [List.any_cons, Bool.or_eq_false_iff, Bool.not_eq_false'] at hk
    obtain ⟨hv, hvs⟩ := hk
    simp only [Lst.concatLoop, Lst.push, hty] at h
    cases ha : assignTo ty v with
    | ok w => rw [ha] at h; simp only at h; exact ih _ l' e (by simp [hty]) hvs h
    | raised x => simp [ha, R.isOk] at hv
    | ub => simp [ha, R.isOk] at hv

/-- `Array_Concat` from a source whose elements are all accepted: the loop completes, the new slots hold typed elements -/
theorem Arr.concatLoop_ok (ty : Ty) : ∀ (vs : List Val), (vs.any (fun v => !(assignTo ty v).isOk)) = false →
    (Arr.concatLoop ty vs).2 = none ∧ ∀ x ∈ (Arr.concatLoop ty vs).1, x.ty? = some ty ∧ x ≠ .nullstr := by
  intro vs
  induction vs with
  | nil => intro _; simp [Arr.concatLoop]
  | cons v vs ih =>
    intro hk
    simp only [List.any_cons, Bool.or_eq_false_iff, Bool.not_eq_false'] at hk
    obtain ⟨hv, hvs⟩ := hk
    obtain ⟨i1, i2⟩ := ih hvs
    cases ha : assignTo ty v with
    | ok w =>
      obtain ⟨h1, h2, h3⟩ := assignTo_ok ty v w ha
      simp only [Arr.concatLoop, ha]
      rcases hc : Arr.concatLoop ty vs with ⟨r, x⟩
      rw [hc] at i1 i2
      simp only at i1 i2 ⊢
      refine ⟨i1, ?_⟩
      intro y hy
      rcases List.mem_cons.mp hy with h | h
      · subst h; subst h1; exact ⟨h2, h3⟩
      · exact i2 y h
    | raised x => simp [ha, R.isOk] at hv
    | ub => simp [ha, R.isOk] at hv

/-- `List_Concat` pushes item by item: the exception is that of the first source element `assign` refuses -/
theorem Lst.concatLoop_exc (ty : Ty) (hty : ty.isElemTy) : ∀ (vs : List Val) (l : Lst), l.ty = ty →
    (∀ v ∈ vs, v ≠ Val.nullstr) → (l.concatLoop vs).2.exc? = vs.findSome? (elemExc ty) := by
  intro vs
  induction vs with
  | nil => intro l _ _; simp [Lst.concatLoop, R.exc?]
  | cons v vs ih =>
    intro l hl hn
    have ha := assignTo_exc ty hty v (hn v List.mem_cons_self)
    simp only [Lst.concatLoop, Lst.push, hl]
    cases hx : assignTo ty v with
    | ok w =>
      rw [hx] at ha
      have : elemExc ty v = none := by simpa [R.exc?] using ha.1.symm
      simp only [List.findSome?_cons, this]
      exact ih _ (by simp [hl]) (fun w hw => hn w (List.mem_cons_of_mem _ hw))
    | raised e =>
      rw [hx] at ha
      have : elemExc ty v = some e := by simpa [R.exc?] using ha.1.symm
      simp [List.findSome?_cons, this, R.exc?]
    | ub => rw [hx] at ha; exact absurd rfl ha.2

/-- `eq(item, t->items[i])` for an argument of the items' type -/
theorem eqv_arg (ty : Ty) (hty : ty.isElemTy) (x v : Val) (hx : x.elemOf ty) (hv : v.elemOf ty) :
    eqv v x = .ok (decide (v = x)) := by
  obtain ⟨hx1, hx2⟩ := hx
  obtain ⟨hv1, hv2⟩ := hv
  cases ty <;> cases x <;> cases v <;> simp_all [eqv, Val.ty?, Ty.isElemTy]

theorem findEq_arg (ty : Ty) (hty : ty.isElemTy) (v : Val) (hv : v.elemOf ty) :
    ∀ (items : List Val) (i : Nat), (∀ x ∈ items, x.elemOf ty) →
      ∃ r, findEq false v items i = .ok r ∧ (r.isSome ↔ v ∈ items) := by
  intro items
  induction items with
  | nil => intro i _; exact ⟨none, by simp [findEq], by simp⟩
  | cons x xs ih =>
    intro i hall
    have he := eqv_arg ty hty x v (hall x List.mem_cons_self) hv
    obtain ⟨r, hr1, hr2⟩ := ih (i + 1) (fun y hy => hall y (List.mem_cons_of_mem _ hy))
    by_cases hxv : v = x
    · subst hxv; exact ⟨some i, by simp [findEq, he], by simp⟩
    · exact ⟨r, by simp [findEq, he, hxv, hr1], by rw [hr2]; simp [List.mem_cons, hxv]⟩

/-- a `print_to` that fails at its first segment, or into a String that is not on the heap, writes nothing -/
theorem Str.printLoop_atomic_first (s s' : Str) (pos : Nat) (fmt : List FmtItem) (args : List Val) (e : Exc)
    (hk : s.kf (.print pos fmt args) = false) (h : Str.printLoop s pos args fmt = (s', .raised e)) : s' = s := by
  cases fmt with
  | nil => simp [Str.printLoop] at h
  | cons it rest =>
    cases it with
    | lit t =>
      simp only [Str.kf, Bool.and_eq_false_iff, Bool.not_eq_false', decide_eq_false_iff_not] at hk
      simp only [Str.printLoop, Str.write] at h
      rcases hk with hk | hk
      · simp [hk] at h; exact h.1.symm
      · by_cases hh : s.alloc.nonHeap = true
        · simp [hh] at h; exact h.1.symm
        · simp only [hh, Bool.false_eq_true, if_false] at h
          have : pos > s.s.length := by omega
          simp [this] at h
    | d =>
      cases args with
      | nil => simp [Str.printLoop] at h; exact h.1.symm
      | cons a as =>
        simp only [Str.kf, Bool.and_eq_false_iff, Bool.not_eq_false', decide_eq_false_iff_not] at hk
        simp only [Str.printLoop, Str.write] at h
        cases hc : cInt a with
        | ok b =>
          simp only [hc, R.isOk] at h hk
          rcases hk with (hk | hk) | hk
          · simp [hk] at h; exact h.1.symm
          · by_cases hh : s.alloc.nonHeap = true
            · simp [hh] at h; exact h.1.symm
            · have : pos > s.s.length := by omega
              simp [hh, this] at h
          · cases hk
        | raised x => simp [hc] at h; exact h.1.symm
        | ub => simp [hc] at h
    | s =>
      cases args with
      | nil => simp [Str.printLoop] at h; exact h.1.symm
      | cons a as =>
        simp only [Str.kf, Bool.and_eq_false_iff, Bool.not_eq_false', decide_eq_false_iff_not] at hk
        simp only [Str.printLoop, Str.write] at h
        cases hc : cStr a with
        | ok b =>
          simp only [hc, R.isOk] at h hk
          rcases hk with (hk | hk) | hk
          · simp [hk] at h; exact h.1.symm
          · by_cases hh : s.alloc.nonHeap = true
            · simp [hh] at h; exact h.1.symm
            · have : pos > s.s.length := by omega
              simp [hh, this] at h
          · cases hk
        | raised x => simp [hc] at h; exact h.1.symm
        | ub => simp [hc] at h
    | q =>
      cases args with
      | nil => simp [Str.printLoop] at h; exact h.1.symm
      | cons a as =>
        simp only [Str.kf, Bool.and_eq_false_iff, Bool.not_eq_false', decide_eq_false_iff_not] at hk
        simp only [Str.printLoop, Str.write] at h
        cases hc : showText a with
        | ok b =>
          simp only [hc, R.isOk] at h hk
          rcases hk with (hk | hk) | hk
          · simp [hk] at h; exact h.1.symm
          · by_cases hh : s.alloc.nonHeap = true
            · simp [hh] at h; exact h.1.symm
            · have : pos > s.s.length := by omega
              simp [hh, this] at h
          · cases hk
        | raised x => simp [hc] at h; exact h.1.symm
        | ub => simp [hc] at h

theorem Rng.get_shape (r : Rng) (k : Val) : ∃ sc x, r.get k = ({ r with scratch := sc }, x) := by
  unfold Rng.get
  dsimp only
  repeat' split
  all_goals (first | exact ⟨_, _, rfl⟩ | exact ⟨r.scratch, _, rfl⟩)

theorem Rng.get_fields (r : Rng) (k : Val) :
    (r.get k).1.start = r.start ∧ (r.get k).1.stop = r.stop ∧ (r.get k).1.step = r.step := by
  obtain ⟨sc, x, h⟩ := Rng.get_shape r k
  rw [h]; simp

/-- territory of the known findings for an object -/
def Obj.kf : Obj → Op → Bool
  | .arr a, op => a.kf op
  | .lst l, op => l.kf op
  | .tab t, op => t.kf op
  | .tre t, op => t.kf op
  | .str s, op => s.kf op
  | .nest n, .set k v => n.kf (.set k (.val v))
  | .nest n, .push v => n.kf (.push (.val v))
  | .nest n, .append v => n.kf (.push (.val v))
  | .nest n, .pushAt v k => n.kf (.pushAt (.val v) k)
  | _, _ => false

theorem Store.put_view (σ : Store) (id : Nat) (o o' : Obj) (hget : σ.get? id = some o) (hv : o'.view = o.view) :
    (σ.put id o').view = σ.view := by
  induction σ with
  | nil => simp [Store.get?] at hget
  | cons p ps ih =>
    obtain ⟨pid, po⟩ := p
    simp only [Store.get?, List.lookup_cons] at hget
    by_cases hp : pid = id
    · subst hp
      simp only [beq_self_eq_true] at hget
      injection hget with hget
      subst hget
      simp [Store.put, Store.view, hv]
    · have hb : (id == pid) = false := by
        simp only [beq_eq_false_iff_ne, ne_eq]; exact fun h => hp h.symm
      simp only [hb] at hget
      have := ih (by simpa [Store.get?] using hget)
      simp only [Store.view] at this ⊢
      simp [Store.put, hp, this]

/-- territory of the known findings for operation `op` on object `id` of the store -/
def kf (σ : Store) (id : Nat) (op : Op) : Bool :=
  match σ.get? id with
  | some o => o.kf op
  | none => false

/-- territory of the known findings for the nested-container operation `op` on object `id` of the store -/
def kfN (σ : Store) (id : Nat) (op : NOp) : Bool :=
  match σ.get? id with
  | some (.nest n) => n.kf op
  | _ => false

/-- objects for which a failed operation restores the representation exactly, capacity and scratch included -/
def Obj.exact : Obj → Bool
  | .tab t => t.nslots ≠ 0
  | .slc _ => false
  | _ => true

theorem viewStep_zip_eq (σ : Store) (z : Zp) (o' : Obj) (op : Op) (r : Res) (h : viewStep σ (.zip z) op = (o', r)) : o' = .zip z := by
  cases op with
  | get k =>
    simp only [viewStep] at h
    repeat' split at h
    all_goals (simp only [Prod.mk.injEq] at h; exact h.1.symm)
  | len =>
    simp only [viewStep] at h
    repeat' split at h
    all_goals (simp only [Prod.mk.injEq] at h; exact h.1.symm)
  | print pos fmt args =>
    cases fmt with
    | nil => simp [viewStep] at h; exact h.1.symm
    | cons it rest => cases it <;> simp [viewStep] at h <;> exact h.1.symm
  | assign v => cases v <;> simp [viewStep] at h <;> exact h.1.symm
  | _ => simp [viewStep] at h <;> exact h.1.symm

theorem Store.put_same (σ : Store) (id : Nat) (o : Obj) (hget : σ.get? id = some o) : σ.put id o = σ := by
  induction σ with
  | nil => simp [Store.get?] at hget
  | cons p ps ih =>
    obtain ⟨pid, po⟩ := p
    simp only [Store.get?, List.lookup_cons] at hget
    by_cases hp : pid = id
    · subst hp
      simp only [beq_self_eq_true] at hget
      injection hget with hget
      subst hget
      simp [Store.put]
    · have hb : (id == pid) = false := by
        simp only [beq_eq_false_iff_ne, ne_eq]; exact fun h => hp h.symm
      simp only [hb] at hget
      simp [Store.put, hp, ih (by simpa [Store.get?] using hget)]

/-! ### invariants of typed containers and of Table -/

theorem mem_removeAt {α : Type} (xs : List α) (i : Nat) (x : α) (h : x ∈ removeAt xs i) : x ∈ xs := by
  unfold removeAt at h
  rcases List.mem_append.mp h with h | h
  · exact List.mem_of_mem_take h
  · exact List.mem_of_mem_drop h

theorem mem_insertAt {α : Type} (xs : List α) (i : Nat) (a x : α) (h : x ∈ insertAt xs i a) : x = a ∨ x ∈ xs := by
  unfold insertAt at h
  rcases List.mem_append.mp h with h | h
  · exact Or.inr (List.mem_of_mem_take h)
  · rcases List.mem_cons.mp h with h | h
    · exact Or.inl h
    · exact Or.inr (List.mem_of_mem_drop h)

theorem mem_set' {α : Type} (xs : List α) (i : Nat) (a x : α) (h : x ∈ xs.set i a) : x = a ∨ x ∈ xs := by
  rcases List.mem_or_eq_of_mem_set h with h | h
  · exact Or.inr h
  · exact Or.inl h

theorem mem_of_mem_dropLast' {α : Type} (xs : List α) (x : α) (h : x ∈ xs.dropLast) : x ∈ xs := by
  rw [List.dropLast_eq_take] at h; exact List.mem_of_mem_take h

/-- typing invariant of Array / List contents -/
def typedItems (ty : Ty) (items : List Val) : Prop := ty.isElemTy ∧ ∀ x ∈ items, x.elemOf ty

theorem assignTo_elemOf (ty : Ty) (v w : Val) (h : assignTo ty v = .ok w) : w.elemOf ty := by
  obtain ⟨h1, h2, h3⟩ := assignTo_ok ty v w h
  subst h1; exact ⟨h2, h3⟩

theorem zeroVal_elemOf (ty : Ty) (h1 : ty.isElemTy) (h2 : ty ≠ .str) : (zeroVal ty).elemOf ty := by
  cases ty <;> simp_all [zeroVal, Val.elemOf, Val.ty?, Ty.isElemTy]

theorem Lst.concatLoop_typed (ty : Ty) (_hty : ty.isElemTy) : ∀ (vs : List Val) (l : Lst), l.ty = ty → (∀ x ∈ l.items, x.elemOf ty) →
    (l.concatLoop vs).1.ty = ty ∧ ∀ x ∈ (l.concatLoop vs).1.items, x.elemOf ty := by
  intro vs
  induction vs with
  | nil => intro l h1 h2; simp [Lst.concatLoop, h1]; exact h2
  | cons v vs ih =>
    intro l h1 h2
    simp only [Lst.concatLoop, Lst.push, h1]
    cases hw : assignTo ty v with
    | ok w =>
      simp only
      apply ih
      · simp [h1]
      · intro x hx
        rcases List.mem_append.mp hx with h | h
        · exact h2 x h
        · simp at h; subst h; exact assignTo_elemOf _ _ _ hw
    | raised e => simp [h1]; exact h2
    | ub => simp [h1]; exact h2

theorem idealSize_pos (n : Nat) : 0 < idealSize n := by
  unfold idealSize
  dsimp only
  have hs : 1 ≤ (n + 1) * 10 / 9 := by omega
  split
  · rename_i p hp
    have := List.find?_some hp
    simp at this; omega
  · have : 1 ≤ ((n + 1) * 10 / 9 + 8800019 - 1) / 8800019 := by omega
    omega

theorem mem_assocSet (items : List (Val × Val)) (k v : Val) (p : Val × Val) (h : p ∈ assocSet items k v) :
    p ∈ items ∨ p = (k, v) := by
  unfold assocSet at h
  split at h
  · rcases List.mem_map.mp h with ⟨q, hq, hqp⟩
    split at hqp
    · exact Or.inr hqp.symm
    · subst hqp; exact Or.inl hq
  · rcases List.mem_append.mp h with h | h
    · exact Or.inl h
    · simp at h; exact Or.inr h

theorem Tab.set_wf (t : Tab) (k v : Val) (hw : t.wf) : (t.set k v).1.wf := by
  obtain ⟨h0, hkeys⟩ := hw
  obtain ⟨_, _, hc⟩ := castTo_exc t.kty k
  have hns : (if t.nslots = 0 then idealSize 0 else t.nslots) ≠ 0 := by
    split
    · have := idealSize_pos 0; omega
    · assumption
  unfold Tab.set
  dsimp only
  generalize (if t.nslots = 0 then idealSize 0 else t.nslots) = ns0 at hns ⊢
  cases hk : castTo t.kty k with
  | ok k' =>
    cases hv : castTo t.vty v with
    | ok v' =>
      dsimp only
      have hpos := idealSize_pos (assocSet t.items k' v').length
      generalize idealSize (assocSet t.items k' v').length = want at hpos ⊢
      refine ⟨?_, ?_⟩
      · intro hz; dsimp only at hz; split at hz <;> omega
      · intro p hp
        rcases mem_assocSet _ _ _ _ hp with h | h
        · exact hkeys p h
        · subst h; dsimp only; exact ((hc k' hk).1 ▸ (hc k' hk).2)
    | raised e => exact ⟨fun hz => absurd hz hns, hkeys⟩
    | ub => exact ⟨fun hz => absurd hz hns, hkeys⟩
  | raised e => exact ⟨fun hz => absurd hz hns, hkeys⟩
  | ub => exact ⟨fun hz => absurd hz hns, hkeys⟩

theorem Tab.rem_wf (t : Tab) (k : Val) (hw : t.wf) : (t.rem k).1.wf := by
  obtain ⟨h0, hkeys⟩ := hw
  unfold Tab.rem
  cases hk : castTo t.kty k with
  | ok k' =>
    dsimp only
    by_cases hz0 : t.nslots = 0
    · simp only [hz0, if_true]; exact ⟨h0, hkeys⟩
    · simp only [hz0, if_false]
      cases hl : t.items.lookup k' with
      | none => exact ⟨h0, hkeys⟩
      | some w =>
        dsimp only
        have hpos := idealSize_pos (assocErase t.items k').length
        generalize idealSize (assocErase t.items k').length = want at hpos ⊢
        refine ⟨?_, ?_⟩
        · intro hz; dsimp only at hz; split at hz <;> omega
        · intro p hp; simp only [assocErase] at hp; exact hkeys p (List.mem_filter.mp hp).1
  | raised e => exact ⟨h0, hkeys⟩
  | ub => exact ⟨h0, hkeys⟩

/-! ### print_to: specification -/

/-- an argument that must be an Int -/
def intArgExc (v : Val) : Option Exc :=
  match v with
  | .int _ => none
  | .null => some .ValueError
  | _ => some .ClassError

/-- arguments `print_to` can show without printing an address -/
def Val.printable : Val → Prop
  | .int _ => True
  | .str _ => True
  | .null => True
  | _ => False

/-- what `print_to` into a String must raise: the first problem met in format order — a segment written into a String that
    is not on the heap (ValueError), a directive without an argument (FormatError), an argument of the wrong type -/
def printExc (heap : Bool) : List FmtItem → List Val → Option Exc
  | [], _ => none
  | .lit _ :: rest, args => if heap then printExc heap rest args else some .ValueError
  | .d :: _, [] => some .FormatError
  | .s :: _, [] => some .FormatError
  | .q :: _, [] => some .FormatError
  | .d :: rest, a :: args => (intArgExc a).or (if heap then printExc heap rest args else some .ValueError)
  | .s :: rest, a :: args => (strArgExc a).or (if heap then printExc heap rest args else some .ValueError)
  | .q :: rest, _ :: args => if heap then printExc heap rest args else some .ValueError

theorem Str.write_ok (s : Str) (pos : Nat) (t : List Char) (hh : s.alloc.nonHeap = false) (hp : pos ≤ s.s.length) :
    s.write pos t = ({ s with s := s.s.take pos ++ t }, .ok t.length) ∧
    pos + t.length ≤ ({ s with s := s.s.take pos ++ t } : Str).s.length := by
  unfold Str.write
  have : ¬ pos > s.s.length := by omega
  simp [hh, this, List.length_take, Nat.min_eq_left hp]

/-! ### Range: specification and arithmetic -/

/-- `start + step*i < stop` for `step > 0`, `i ≥ 0` says exactly that `i` is below the number of elements -/
theorem range_pos_iff (start stop step i : Int) (hst : 0 < step) (hi : 0 ≤ i) :
    start + step * i < stop ↔ i < (if stop ≤ start then 0 else (stop - 1 - start) / step + 1) := by
  have hm : 0 ≤ step * i := Int.mul_nonneg (by omega) hi
  by_cases h : stop ≤ start
  · simp only [h, if_true]; omega
  · simp only [h, if_false]
    have := Int.le_ediv_iff_mul_le (a := i) (b := stop - 1 - start) hst
    rw [Int.mul_comm] at this
    omega

theorem range_neg_iff (start stop step i : Int) (hst : step < 0) (hi : 0 ≤ i) :
    stop - 1 + step * i ≥ start ↔ i < (if stop ≤ start then 0 else (stop - 1 - start) / (-step) + 1) := by
  have hm : 0 ≤ (-step) * i := Int.mul_nonneg (by omega) hi
  have hneg : (-step) * i = -(step * i) := by rw [Int.neg_mul]
  by_cases h : stop ≤ start
  · simp only [h, if_true]; omega
  · simp only [h, if_false]
    have := Int.le_ediv_iff_mul_le (a := i) (b := stop - 1 - start) (c := -step) (by omega)
    rw [Int.mul_comm, hneg] at this
    omega

/-- the fields of a Range are `int64_t` values -/
def Rng.i64 (r : Rng) : Prop :=
  (-(2 ^ 63 : Int) ≤ r.start ∧ r.start < 2 ^ 63) ∧ (-(2 ^ 63 : Int) ≤ r.stop ∧ r.stop < 2 ^ 63) ∧
  (-(2 ^ 63 : Int) ≤ r.step ∧ r.step < 2 ^ 63)

theorem isI64_iff (x : Int) : isI64 x = true ↔ (-(2 ^ 63 : Int) ≤ x ∧ x < 2 ^ 63) := by
  simp [isI64]

/-- `Range_Len` as an integer -/
def Rng.lenInt (r : Rng) : Int :=
  if r.step = 0 then 0 else if r.stop ≤ r.start then 0
  else if r.step > 0 then (r.stop - 1 - r.start) / r.step + 1 else (r.stop - 1 - r.start) / (-r.step) + 1

theorem Rng.len_eq (r : Rng) : (r.len : Int) = r.lenInt ∧ 0 ≤ r.lenInt := by
  unfold Rng.len Rng.lenInt
  by_cases h0 : r.step = 0
  · simp [h0]
  · by_cases h1 : r.stop ≤ r.start
    · simp [h0, h1]
    · by_cases h2 : r.step > 0
      · have : 0 ≤ (r.stop - 1 - r.start) / r.step := Int.ediv_nonneg (by omega) (by omega)
        simp only [h0, h1, h2, if_false, if_true]
        omega
      · have : 0 ≤ (r.stop - 1 - r.start) / (-r.step) := Int.ediv_nonneg (by omega) (by omega)
        simp only [h0, h1, h2, if_false]
        omega

/-- what `Rng.lenOk` says for a non-empty range: its width and its length fit `int64_t`, and `-step` exists -/
theorem Rng.lenOk_spec (r : Rng) (hl : r.lenOk = true) (h0 : r.step ≠ 0) (h1 : ¬ r.stop ≤ r.start) :
    r.stop - 1 - r.start < 2 ^ 63 ∧ r.lenInt < 2 ^ 63 ∧ -(2 ^ 63 : Int) < r.step := by
  unfold Rng.lenOk at hl
  unfold Rng.lenInt
  by_cases h2 : r.step > 0
  · simp only [h0, h1, h2, if_false, if_true, Bool.and_eq_true, isI64_iff] at hl ⊢
    omega
  · simp only [h0, h1, h2, if_false, Bool.and_eq_true, isI64_iff] at hl ⊢
    omega

/-- a range whose `Range_Len` does not overflow has fewer than 2^63 elements -/
theorem Rng.len_lt (r : Rng) (hl : r.lenOk = true) : r.len < 2 ^ 63 := by
  obtain ⟨he, _⟩ := Rng.len_eq r
  by_cases h0 : r.step = 0
  · have : r.lenInt = 0 := by simp [Rng.lenInt, h0]
    omega
  · by_cases h1 : r.stop ≤ r.start
    · have : r.lenInt = 0 := by simp [Rng.lenInt, h0, h1]
      omega
    · have := (Rng.lenOk_spec r hl h0 h1).2.1
      omega

/-- `Range_Len` cannot overflow when `-2^62 ≤ start`, `stop < 2^62` and the step is not `INT64_MIN` -/
theorem Rng.lenOk_of_half (r : Rng) (h1 : -(2 ^ 62 : Int) ≤ r.start) (h2 : r.stop < 2 ^ 62) (h3 : -(2 ^ 63 : Int) < r.step) :
    r.lenOk = true := by
  unfold Rng.lenOk
  by_cases h0 : r.step = 0
  · simp [h0]
  · by_cases hs : r.stop ≤ r.start
    · simp [h0, hs]
    · by_cases hp : r.step > 0
      · have a := Int.ediv_le_self (a := r.stop - 1 - r.start) r.step (by omega)
        have b : 0 ≤ (r.stop - 1 - r.start) / r.step := Int.ediv_nonneg (by omega) (by omega)
        simp only [h0, hs, hp, if_false, if_true, Bool.and_eq_true, isI64_iff]
        omega
      · have a := Int.ediv_le_self (a := r.stop - 1 - r.start) (-r.step) (by omega)
        have b : 0 ≤ (r.stop - 1 - r.start) / (-r.step) := Int.ediv_nonneg (by omega) (by omega)
        simp only [h0, hs, hp, if_false, Bool.and_eq_true, isI64_iff]
        omega

/-- element `j` of a range: counted from `start` upwards for a positive step, from `stop-1` downwards for a negative one -/
def Rng.elem (r : Rng) (j : Int) : Int :=
  if r.step > 0 then r.start + r.step * j else r.stop - 1 + r.step * j

/-- **inside the bounds test nothing overflows**: for `0 ≤ j < len` every intermediate value of `start + step*j` /
    `stop-1 + step*j` is an `int64_t`, and the element lies in `[start, stop)` -/
theorem Rng.inside (r : Rng) (hr : r.i64) (hl : r.lenOk = true) (j : Int) (hj0 : 0 ≤ j) (hj : j < r.len) :
    r.step ≠ 0 ∧ -(2 ^ 63 : Int) ≤ r.stop - 1 ∧
    (-(2 ^ 63 : Int) < r.step * j ∧ r.step * j < 2 ^ 63) ∧
    (r.start ≤ r.elem j ∧ r.elem j < r.stop) := by
  obtain ⟨he, _⟩ := Rng.len_eq r
  obtain ⟨⟨a1, a2⟩, ⟨b1, b2⟩, ⟨c1, c2⟩⟩ := hr
  by_cases h0 : r.step = 0
  · have : r.lenInt = 0 := by simp [Rng.lenInt, h0]
    omega
  · by_cases h1 : r.stop ≤ r.start
    · have : r.lenInt = 0 := by simp [Rng.lenInt, h0, h1]
      omega
    · obtain ⟨w, _, _⟩ := Rng.lenOk_spec r hl h0 h1
      by_cases h2 : r.step > 0
      · have hli : r.lenInt = (r.stop - 1 - r.start) / r.step + 1 := by simp [Rng.lenInt, h0, h1, h2]
        have hq : j ≤ (r.stop - 1 - r.start) / r.step := by omega
        have hm := (Int.le_ediv_iff_mul_le (a := j) (b := r.stop - 1 - r.start) h2).mp hq
        rw [Int.mul_comm] at hm
        have hn : 0 ≤ r.step * j := Int.mul_nonneg (by omega) hj0
        simp only [Rng.elem, h2, if_true]
        omega
      · have h2' : 0 < -r.step := by omega
        have hli : r.lenInt = (r.stop - 1 - r.start) / (-r.step) + 1 := by simp [Rng.lenInt, h0, h1, h2]
        have hq : j ≤ (r.stop - 1 - r.start) / (-r.step) := by omega
        have hm := (Int.le_ediv_iff_mul_le (a := j) (b := r.stop - 1 - r.start) h2').mp hq
        rw [Int.mul_comm, Int.neg_mul] at hm
        have hn : 0 ≤ -r.step * j := Int.mul_nonneg (by omega) hj0
        rw [Int.neg_mul] at hn
        simp only [Rng.elem, h2, if_false]
        omega

/-- documented outcome of `get(range, i)`: the index must lie in `[-len, len)` — for every range, step 0 (length 0) included -/
def Rng.getExc (r : Rng) (k : Val) : Option Exc :=
  match k with
  | .int i => if -(r.len : Int) ≤ i ∧ i < r.len then none else some .IndexOutOfBoundsError
  | .null => some .ValueError
  | _ => some .ClassError

/-- `Range_Get` in closed form, for every range with `int64_t` fields whose `Range_Len` does not overflow and **every**
    `int64_t` index: inside `[-len, len)` the element (Python-style indexing) is returned and stored in the scratch Int;
    outside, IndexOutOfBoundsError is raised and nothing is touched; `ub` (a signed overflow) is not among the outcomes. -/
theorem Rng.get_int (r : Rng) (hr : r.i64) (hl : r.lenOk = true) (i : Int) (h1 : -(2 ^ 63 : Int) ≤ i) (h2 : i < 2 ^ 63) :
    r.get (.int i) =
      if -(r.len : Int) ≤ i ∧ i < r.len then
        ({ r with scratch := r.elem (idxOf r.len i) }, .ok (.val (.int (r.elem (idxOf r.len i)))))
      else (r, .raised .IndexOutOfBoundsError) := by
  have hlen := Rng.len_lt r hl
  have hkb : (BitVec.ofInt 64 i).toInt = i := toInt_ofInt_small i h1 h2
  unfold Rng.get
  simp only [hl, Bool.not_true, Bool.false_eq_true, if_false, cInt, hkb]
  generalize hj : (if i < 0 then (r.len : Int) + i else i) = j
  have hjI : isI64 j = true := by rw [isI64_iff]; subst hj; split <;> omega
  have hrange : (-(r.len : Int) ≤ i ∧ i < r.len) ↔ (0 ≤ j ∧ j < r.len) := by subst hj; split <;> omega
  simp only [hjI, Bool.not_true, Bool.false_eq_true, if_false]
  by_cases hb : -(r.len : Int) ≤ i ∧ i < r.len
  · obtain ⟨hj0, hjn⟩ := hrange.mp hb
    have hidx : ((idxOf r.len i : Nat) : Int) = j := by subst hj; unfold idxOf; split <;> omega
    obtain ⟨hs0, hst, ⟨m1, m2⟩, ⟨e1, e2⟩⟩ := Rng.inside r hr hl j hj0 hjn
    obtain ⟨⟨a1, a2⟩, ⟨b1, b2⟩, ⟨c1, c2⟩⟩ := hr
    simp only [hb, and_self, if_true, hidx]
    by_cases hp : r.step > 0
    · simp only [Rng.elem, hp, if_true] at e1 e2 ⊢
      have x1 : isI64 (r.step * j) = true := by rw [isI64_iff]; omega
      have x2 : isI64 (r.start + r.step * j) = true := by rw [isI64_iff]; omega
      simp [hj0, hjn, x1, x2]
    · have hn : r.step < 0 := by omega
      simp only [Rng.elem, hp, if_false] at e1 e2 ⊢
      have x0 : isI64 (r.stop - 1) = true := by rw [isI64_iff]; omega
      have x1 : isI64 (r.step * j) = true := by rw [isI64_iff]; omega
      have x2 : isI64 (r.stop - 1 + r.step * j) = true := by rw [isI64_iff]; omega
      simp [hn, hj0, hjn, x0, x1, x2]
  · have hnj : ¬ (0 ≤ j ∧ j < r.len) := fun hc => hb (hrange.mpr hc)
    have g : (decide (j ≥ 0) && decide (j < (r.len : Int))) = false := by
      simp only [Bool.and_eq_false_iff, decide_eq_false_iff_not]; omega
    simp only [hb, if_false, Bool.and_assoc, g, Bool.and_false, Bool.false_eq_true]

/-- when `Range_Len` itself overflows, `get` is undefined behaviour whatever the index (the hypothesis of `Rng.get_int` is needed) -/
theorem Rng.get_lenOverflow (r : Rng) (hl : r.lenOk = false) (k : Val) : r.get k = (r, .ub) := by
  unfold Rng.get; simp [hl]

/-! ### no undefined behaviour for well-formed arguments -/

theorem findEq_ne_ub (ty : Ty) (hty : ty.isElemTy) (v : Val) (hv : v ≠ .nullstr) (items : List Val) (i : Nat)
    (hel : ∀ x ∈ items, x.elemOf ty) : findEq true v items i ≠ .ub := by
  have h := findEq_elem ty hty v hv items i hel
  cases he : elemExc ty v with
  | some e => rw [he] at h; simp only at h; rw [h]; split <;> simp
  | none => rw [he] at h; obtain ⟨r, hr, _⟩ := h; rw [hr]; simp

theorem Lst.concatLoop_ne_ub (ty : Ty) (hty : ty.isElemTy) : ∀ (vs : List Val) (l : Lst), l.ty = ty →
    (∀ v ∈ vs, v ≠ Val.nullstr) → (l.concatLoop vs).2 ≠ .ub := by
  intro vs
  induction vs with
  | nil => intro l _ _; simp [Lst.concatLoop]
  | cons v vs ih =>
    intro l hl hn
    have ha := (assignTo_exc ty hty v (hn v List.mem_cons_self)).2
    simp only [Lst.concatLoop, Lst.push, hl]
    cases hx : assignTo ty v with
    | ok w => exact ih _ (by simp [hl]) (fun w hw => hn w (List.mem_cons_of_mem _ hw))
    | raised e => simp
    | ub => exact absurd hx ha

end Cello.Fail
