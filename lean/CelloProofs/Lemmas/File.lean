/-
  Helper lemmas for C20 (engine `file`): the call-log automaton `track`, and the reference stdio `refIO`.
-/
import Cello.File

namespace Cello.File

/-! ### `track` -/

theorem track_append (c : Option Handle) (a b : List Call) :
    track c (a ++ b) = (track c a).bind (fun c' => track c' b) := by
  induction a generalizing c with
  | nil => simp [track]
  | cons x xs ih =>
    simp only [List.cons_append, track]
    cases trackCall c x with
    | none => simp
    | some c' => simpa using ih c'

theorem track_append_of {c c' c'' : Option Handle} {a b : List Call}
    (ha : track c a = some c') (hb : track c' b = some c'') : track c (a ++ b) = some c'' := by
  rw [track_append, ha]; simpa using hb

@[simp] theorem track_nil (c : Option Handle) : track c [] = some c := rfl

theorem track_on_self (h : Handle) (fn : Fn) (hfn : fn ≠ .fclose) : track (some h) [.on fn h] = some (some h) := by
  simp [track, trackCall, hfn]

theorem track_fclose (h : Handle) : track (some h) [.on .fclose h] = some none := by
  simp [track, trackCall]

theorem track_fopen (k : Nat) (m : Mode) (r : Option Handle) : track none [.fopen k m r] = some r := by
  simp [track, trackCall]

/-- in a well-bracketed log the successful fopens and the fcloses balance, up to the handle held at either end -/
theorem track_count (c c' : Option Handle) (log : List Call) (h : track c log = some c') :
    (if c.isSome then 1 else 0) + (log.filter isOpenOk).length = (log.filter isClose).length + (if c'.isSome then 1 else 0) := by
  induction log generalizing c with
  | nil => simp [track] at h; subst h; simp
  | cons x xs ih =>
    simp only [track] at h
    cases hx : trackCall c x with
    | none => simp [hx] at h
    | some c1 =>
      rw [hx] at h
      have := ih c1 h
      cases c with
      | none =>
        cases x with
        | fopen k m r =>
          simp [trackCall] at hx; subst hx
          cases r <;> simp_all [isOpenOk, isClose, List.filter] <;> omega
        | on fn h' => simp [trackCall] at hx
        | onNull fn => simp [trackCall] at hx
      | some h0 =>
        cases x with
        | fopen k m r => simp [trackCall] at hx
        | on fn h' =>
          simp only [trackCall] at hx
          by_cases hh : h' = h0
          · subst hh
            by_cases hf : fn = .fclose
            · subst hf; simp at hx; subst hx; simp_all [isOpenOk, isClose, List.filter]; omega
            · simp [hf] at hx; subst hx
              have : isClose (.on fn h') = false := by cases fn <;> simp_all [isClose]
              simp_all [isOpenOk, List.filter]
          · simp [hh] at hx
        | onNull fn => simp [trackCall] at hx

/-! ### assoc lists -/

theorem lookup_erase_ne {α : Type} (k k' : Nat) (l : List (Nat × α)) (h : k' ≠ k) :
    lookup k' (erase k l) = lookup k' l := by
  induction l with
  | nil => rfl
  | cons p rest ih =>
    obtain ⟨a, v⟩ := p
    by_cases ha : a = k
    · subst ha
      have : lookup k' ((a, v) :: rest) = lookup k' rest := by simp [lookup, Ne.symm h]
      rw [this, ← ih]; simp [erase, List.filter]
    · have e : erase k ((a, v) :: rest) = (a, v) :: erase k rest := by simp [erase, List.filter, ha]
      rw [e]; simp only [lookup]; rw [ih]

@[simp] theorem lookup_insert_self {α : Type} (k : Nat) (v : α) (l : List (Nat × α)) :
    lookup k (insert k v l) = some v := by simp [insert, lookup]

theorem lookup_insert_ne {α : Type} (k k' : Nat) (v : α) (l : List (Nat × α)) (h : k' ≠ k) :
    lookup k' (insert k v l) = lookup k' l := by
  simp only [insert, lookup, Ne.symm h, if_false]; exact lookup_erase_ne k k' l h

@[simp] theorem lookup_erase_self {α : Type} (k : Nat) (l : List (Nat × α)) : lookup k (erase k l) = none := by
  induction l with
  | nil => rfl
  | cons p rest ih =>
    obtain ⟨a, v⟩ := p
    by_cases ha : a = k
    · subst ha; simpa [erase, List.filter] using ih
    · have e : erase k ((a, v) :: rest) = (a, v) :: erase k rest := by simp [erase, List.filter, ha]
      rw [e]; simp [lookup, ha, ih]

/-! ### the reference stdio on one regular file

  `At l h k m p e c` : in library state `l` the handle `h` is an open stream on the regular file `k` in mode `m`, at
  position `p`, with end-of-file flag `e`, and the file exists with content `c`. -/

def At (l : Ref) (h : Handle) (k : Nat) (m : Mode) (p : Nat) (e : Bool) (c : List Byte) : Prop :=
  ∃ last, lookup h l.streams = some ⟨k, m, p, e, last⟩ ∧ lookup k l.files = some c

def Regular (k : Nat) : Prop := k ≠ fileNoDir ∧ k ≠ fileFull

theorem At.content {l h k m p e c} (a : At l h k m p e c) : l.content k = c := by
  obtain ⟨_, _, hf⟩ := a; simp [Ref.content, hf]

theorem overwrite_end (c d : List Byte) : overwrite c c.length d = c ++ d := by
  simp [overwrite]

/-- fwrite of a non-empty item at the end of the file (sequential writing, or append mode anywhere) -/
theorem fwrite_at_end {l h k m p e c} (a : At l h k m p e c) (hk : Regular k) (hw : m.canWrite = true)
    (hp : m = .a ∨ p = c.length) (d : List Byte) (hd : d ≠ []) :
    (Ref.fwrite l h d).2 = 1 ∧ At (Ref.fwrite l h d).1 h k m (c.length + d.length) e (c ++ d) := by
  obtain ⟨last, hs, hf⟩ := a
  have hlen : d.length ≠ 0 := by cases d <;> simp_all
  have hkf : k ≠ fileFull := hk.2
  have hc : l.content k = c := by simp [Ref.content, hf]
  have hpos : (if m = Mode.a then c.length else p) = c.length := by
    rcases hp with h1 | h1 <;> simp [h1]
  simp only [Ref.fwrite, hs, hlen, hw, hkf, hc, hpos, overwrite_end]
  simp [At]

theorem fwrite_empty (l : Ref) (h : Handle) : Ref.fwrite l h [] = (l, 0) := by
  simp only [Ref.fwrite]; cases lookup h l.streams <;> simp

/-- fwrite at an arbitrary position inside (or beyond) the file, not in append mode -/
theorem fwrite_at {l h k m p e c} (a : At l h k m p e c) (hk : Regular k) (hw : m.canWrite = true)
    (hm : m ≠ .a) (d : List Byte) (hd : d ≠ []) :
    (Ref.fwrite l h d).2 = 1 ∧ At (Ref.fwrite l h d).1 h k m (p + d.length) e (overwrite c p d) := by
  obtain ⟨last, hs, hf⟩ := a
  have hlen : d.length ≠ 0 := by cases d <;> simp_all
  have hkf : k ≠ fileFull := hk.2
  have hc : l.content k = c := by simp [Ref.content, hf]
  simp only [Ref.fwrite, hs, hlen, hw, hkf, hc, hm]
  simp [At]

/-- fread in every case: the bytes delivered are the next `n` bytes of the file (fewer at the end of the file), the
    position advances by what was delivered, the end-of-file flag is raised exactly when fewer than `n` were there -/
theorem fread_at {l h k m p e c} (a : At l h k m p e c) (hk : Regular k) (hr : m.canRead = true) (n : Nat) :
    let d := (c.drop p).take n
    (Ref.fread l h n).2 = (if n ≠ 0 ∧ d.length = n then 1 else 0, d) ∧
      At (Ref.fread l h n).1 h k m (p + d.length) (e || decide (d.length < n)) c := by
  obtain ⟨last, hs, hf⟩ := a
  have hkf : k ≠ fileFull := hk.2
  have hc : l.content k = c := by simp [Ref.content, hf]
  by_cases hn : n = 0
  · subst hn
    simp only [Ref.fread, hs]
    simp [At, hs, hf]
  · by_cases hle : n ≤ (c.drop p).length
    · have hlen : ((c.drop p).take n).length = n := by rw [List.length_take]; exact Nat.min_eq_left hle
      simp only [Ref.fread, hs, hn, hr, hkf, hc, hle]
      simp only [hlen]
      simp [At, Ref.setStream, hf, hn]
    · have hlt : (c.drop p).length < n := Nat.lt_of_not_le hle
      have htake : (c.drop p).take n = c.drop p := List.take_of_length_le (Nat.le_of_lt hlt)
      simp only [Ref.fread, hs, hn, hr, hkf, hc, hle]
      simp only [htake]
      have hlt' : c.length - p < n := by simpa [List.length_drop] using hlt
      simp [At, Ref.setStream, hf, hn]
      exact ⟨by omega, Or.inr hlt'⟩

theorem feof_at {l h k m p e c} (a : At l h k m p e c) : Ref.feof l h = (l, e) := by
  obtain ⟨last, hs, _⟩ := a; simp [Ref.feof, hs]

theorem ftell_at {l h k m p e c} (a : At l h k m p e c) : Ref.ftell l h = (l, some p) := by
  obtain ⟨last, hs, _⟩ := a; simp [Ref.ftell, hs]

/-- fseek to a target that is not negative, from any origin -/
theorem fseek_at {l h k m p e c} (a : At l h k m p e c) (hk : Regular k) (off : Int) (wh : Whence) (t : Nat)
    (ht : (wh = .set ∧ off = t) ∨ (wh = .cur ∧ (p : Int) + off = t) ∨ (wh = .end_ ∧ (c.length : Int) + off = t)) :
    (Ref.fseek l h off wh).2 = true ∧ At (Ref.fseek l h off wh).1 h k m t false c := by
  obtain ⟨last, hs, hf⟩ := a
  have hkf : k ≠ fileFull := hk.2
  have hc : l.content k = c := by simp [Ref.content, hf]
  have hnn : ¬ ((t : Int) < 0) := by omega
  rcases ht with ⟨h1, h2⟩ | ⟨h1, h2⟩ | ⟨h1, h2⟩ <;> subst h1 <;>
    simp only [Ref.fseek, hs, hkf, hc, h2] <;> simp [At, Ref.setStream, hf, hnn]

/-- fclose of a stream on a regular file succeeds, forgets the handle and leaves the files alone -/
theorem fclose_at {l h k m p e c} (a : At l h k m p e c) (hk : Regular k) :
    (Ref.fclose l h).2 = true ∧ (Ref.fclose l h).1.files = l.files ∧ (Ref.fclose l h).1.next = l.next ∧
      lookup h (Ref.fclose l h).1.streams = none := by
  obtain ⟨last, hs, hf⟩ := a
  have hkf : k ≠ fileFull := hk.2
  simp [Ref.fclose, hs, hkf]

/-- fopen for writing ("w", "w+"): a fresh handle on an empty file -/
theorem fopen_w (l : Ref) (k : Nat) (hk : Regular k) (m : Mode) (hm : m = .w ∨ m = .wp) :
    (Ref.fopen l k m).2 = some l.next ∧ At (Ref.fopen l k m).1 l.next k m 0 false [] ∧ (Ref.fopen l k m).1.next = l.next + 1 := by
  have h1 : k ≠ fileNoDir := hk.1
  have h2 : k ≠ fileFull := hk.2
  rcases hm with rfl | rfl <;> simp [Ref.fopen, h1, h2, At]

/-- fopen for reading ("r", "r+") of a file that exists: a fresh handle at position 0 -/
theorem fopen_r (l : Ref) (k : Nat) (hk : Regular k) (m : Mode) (hm : m = .r ∨ m = .rp) (c : List Byte)
    (hf : lookup k l.files = some c) :
    (Ref.fopen l k m).2 = some l.next ∧ At (Ref.fopen l k m).1 l.next k m 0 false c ∧ (Ref.fopen l k m).1.next = l.next + 1 := by
  have h1 : k ≠ fileNoDir := hk.1
  have h2 : k ≠ fileFull := hk.2
  rcases hm with rfl | rfl <;> simp [Ref.fopen, h1, h2, At, hf]

/-! ### chunked writes and reads through the File wrappers -/

/-- what reading with the sizes `ns` from position `p` of a file with content `c` must return: item counts and bytes -/
def readSpec (c : List Byte) : Nat → List Nat → List (Out (Nat × List Byte))
  | _, [] => []
  | p, n :: ns =>
    let d := (c.drop p).take n
    .ok (if n ≠ 0 ∧ d.length = n then 1 else 0, d) :: readSpec c (p + d.length) ns

theorem take_take_drop (x : List Byte) (n m : Nat) :
    x.take n ++ (x.drop (x.take n).length).take m = x.take (n + m) := by
  by_cases h : n ≤ x.length
  · have : (x.take n).length = n := by simp [List.length_take, Nat.min_eq_left h]
    rw [this, List.take_add]
  · have hlt : x.length < n := Nat.lt_of_not_le h
    have e1 : x.take n = x := List.take_of_length_le (Nat.le_of_lt hlt)
    have e2 : x.take (n + m) = x := List.take_of_length_le (by omega)
    rw [e1, e2]; simp

/-- any chunking of reads delivers the same bytes as one big read -/
theorem delivered_readSpec (c : List Byte) (p : Nat) (ns : List Nat) :
    delivered (readSpec c p ns) = (c.drop p).take ns.sum := by
  induction ns generalizing p with
  | nil => simp [readSpec, delivered]
  | cons n ns ih =>
    simp only [readSpec, delivered, List.sum_cons]
    rw [ih, ← take_take_drop (c.drop p) n ns.sum]
    congr 2
    rw [List.drop_drop]

/-- position after the reads: advanced by the number of bytes delivered -/
def readEndPos (c : List Byte) (p : Nat) (ns : List Nat) : Nat := p + ((c.drop p).take ns.sum).length

theorem fileRead_at {l h k m p e c} (a : At l h k m p e c) (hk : Regular k) (hr : m.canRead = true) (n : Nat) :
    let d := (c.drop p).take n
    let r := fileRead refIO l (some h) n
    r.out = .ok (if n ≠ 0 ∧ d.length = n then 1 else 0, d) ∧ r.f = some h ∧
      At r.lib h k m (p + d.length) (e || decide (d.length < n)) c := by
  intro d r
  have hfr := fread_at a hk hr n
  obtain ⟨h1, h2⟩ := hfr
  have hd : d = (c.drop p).take n := rfl
  rcases hfread : Ref.fread l h n with ⟨l1, num, data⟩
  rw [hfread] at h1 h2
  simp only at h1 h2
  have hnum : num = if n ≠ 0 ∧ d.length = n then 1 else 0 := by
    have := congrArg Prod.fst h1; simpa [hd] using this
  have hdata : data = d := by have := congrArg Prod.snd h1; simpa [hd] using this
  have hunf : fileRead refIO l (some h) n =
      if num ≠ 1 ∧ n ≠ 0 then
        ⟨(Ref.feof l1 h).1, some h, if (Ref.feof l1 h).2 then .ok (num, data) else .raised .IOError, [.on .fread h, .on .feof h]⟩
      else ⟨l1, some h, .ok (num, data), [.on .fread h]⟩ := by
    simp only [fileRead, refIO, hfread]
  show (fileRead refIO l (some h) n).out = _ ∧ (fileRead refIO l (some h) n).f = _ ∧ At (fileRead refIO l (some h) n).lib _ _ _ _ _ _
  rw [hunf]
  by_cases hcond : num ≠ 1 ∧ n ≠ 0
  · -- short item: File_Read asks feof, which is true here
    have hshort : d.length < n := by
      rcases hcond with ⟨c1, c2⟩
      by_cases hfull : d.length = n
      · exfalso; apply c1; rw [hnum]; simp [c2, hfull]
      · have : d.length ≤ n := by rw [hd, List.length_take]; exact Nat.min_le_left _ _
        omega
    have he : (e || decide (d.length < n)) = true := by simp [hshort]
    rw [he] at h2
    have hfe := feof_at h2
    rw [if_pos hcond, hfe]
    refine ⟨?_, rfl, ?_⟩
    · simp [hnum, hdata]
    · rw [he]; exact h2
  · rw [if_neg hcond]
    refine ⟨?_, rfl, h2⟩
    simp [hnum, hdata]

/-- sread with any list of sizes = the specification `readSpec` -/
theorem readAll_at {l h k m p e c} (a : At l h k m p e c) (hk : Regular k) (hr : m.canRead = true) (ns : List Nat) :
    (readAll refIO l (some h) ns).2 = readSpec c p ns ∧
      At (readAll refIO l (some h) ns).1 h k m (readEndPos c p ns) (e || decide (((c.drop p).length) < ns.sum)) c := by
  induction ns generalizing l p e with
  | nil => simp [readAll, readSpec, readEndPos]; exact a
  | cons n ns ih =>
    obtain ⟨ho, hf, ha⟩ := fileRead_at a hk hr n
    have ih' := ih ha
    simp only [readAll, readSpec]
    rcases hrest : readAll refIO (fileRead refIO l (some h) n).lib (some h) ns with ⟨l', outs⟩
    rw [hrest] at ih'
    simp only at ih'
    refine ⟨?_, ?_⟩
    · simp only [ho]; rw [ih'.1]
    · have hpos : readEndPos c (p + ((c.drop p).take n).length) ns = readEndPos c p (n :: ns) := by
        simp only [readEndPos, List.sum_cons]
        rw [← take_take_drop (c.drop p) n ns.sum, List.length_append, List.drop_drop]
        simp only [Nat.add_assoc]
      have heof : (e || decide (((c.drop p).take n).length < n) ||
            decide ((c.drop (p + ((c.drop p).take n).length)).length < ns.sum))
          = (e || decide ((c.drop p).length < (n :: ns).sum)) := by
        simp only [List.sum_cons, List.length_drop, List.length_take]
        cases e
        · rw [Bool.eq_iff_iff]; simp only [Bool.false_or, Bool.or_eq_true, decide_eq_true_eq]; omega
        · simp
      have := ih'.2
      rw [hpos, heof] at this
      exact this

/-- outcomes of writing the chunks `cs`: 1 item each, 0 for an empty chunk (`fwrite(p, 0, 1, f)`) -/
def writeSpec (cs : List (List Byte)) : List (Out Nat) := cs.map (fun d => .ok (if d.length = 0 then 0 else 1))

theorem fileWrite_at_end {l h k m p e c} (a : At l h k m p e c) (hk : Regular k) (hw : m.canWrite = true)
    (hp : m = .a ∨ p = c.length) (d : List Byte) :
    let r := fileWrite refIO l (some h) d
    r.out = .ok (if d.length = 0 then 0 else 1) ∧ r.f = some h ∧
      At r.lib h k m (if d.length = 0 then p else c.length + d.length) e (c ++ d) := by
  intro r
  show (fileWrite refIO l (some h) d).out = _ ∧ (fileWrite refIO l (some h) d).f = _ ∧ At (fileWrite refIO l (some h) d).lib _ _ _ _ _ _
  by_cases hd : d = []
  · subst hd
    simp only [fileWrite, refIO, fwrite_empty]
    simpa using a
  · obtain ⟨h1, h2⟩ := fwrite_at_end a hk hw hp d hd
    have hlen : d.length ≠ 0 := by cases d <;> simp_all
    rcases hfw : Ref.fwrite l h d with ⟨l1, num⟩
    rw [hfw] at h1 h2
    simp only at h1 h2
    simp only [fileWrite, refIO, hfw, h1, hlen]
    simpa using h2

/-- swrite of any list of chunks starting at the end of the file (sequentially, or in append mode): the file grows by
    exactly the concatenation of the chunks -/
theorem writeAll_at_end {l h k m p e c} (a : At l h k m p e c) (hk : Regular k) (hw : m.canWrite = true)
    (hp : p = c.length) (cs : List (List Byte)) :
    (writeAll refIO l (some h) cs).2 = writeSpec cs ∧
      At (writeAll refIO l (some h) cs).1 h k m (c.length + cs.flatten.length) e (c ++ cs.flatten) := by
  induction cs generalizing l p c with
  | nil => simp [writeAll, writeSpec]; subst hp; exact a
  | cons d cs ih =>
    obtain ⟨ho, hf, ha⟩ := fileWrite_at_end a hk hw (Or.inr hp) d
    have hp' : (if d.length = 0 then p else c.length + d.length) = (c ++ d).length := by
      by_cases hd : d.length = 0
      · have : d = [] := by cases d <;> simp_all
        subst this; simp [hp]
      · simp [hd]
    have ih' := ih ha hp'
    simp only [writeAll, writeSpec, List.map_cons]
    rcases hrest : writeAll refIO (fileWrite refIO l (some h) d).lib (some h) cs with ⟨l', outs⟩
    rw [hrest] at ih'
    simp only at ih'
    refine ⟨?_, ?_⟩
    · rw [ho, ih'.1]; rfl
    · have := ih'.2
      simpa [List.length_append, Nat.add_assoc, List.append_assoc] using this

/-! ### opening and re-opening through File_Open on the reference stdio -/

theorem fileOpen_none_eq {σ : Type} (io : Stdio σ) (cfg : Cfg) (l : σ) (k : Nat) (m : Mode) (l2 : σ) (h' : Handle)
    (ho : io.fopen l k m = (l2, some h')) :
    fileOpen io cfg l none k m = ⟨l2, some h', .ok (), [.fopen k m (some h')]⟩ := by
  simp [fileOpen, ho]

theorem fileOpen_some_eq {σ : Type} (io : Stdio σ) (l : σ) (h : Handle) (k : Nat) (m : Mode) (l1 l2 : σ) (h' : Handle)
    (hc : io.fclose l h = (l1, true)) (ho : io.fopen l1 k m = (l2, some h')) :
    fileOpen io Cfg.fixed l (some h) k m = ⟨l2, some h', .ok (), [.on .fclose h, .fopen k m (some h')]⟩ := by
  simp [fileOpen, fileClose, hc, ho]

theorem fileOpen_ref_w (l : Ref) (k : Nat) (hk : Regular k) (m : Mode) (hm : m = .w ∨ m = .wp) :
    let r := fileOpen refIO Cfg.fixed l none k m
    r.out = .ok () ∧ r.f = some l.next ∧ r.calls = [.fopen k m (some l.next)] ∧ At r.lib l.next k m 0 false [] ∧
      r.lib.next = l.next + 1 := by
  obtain ⟨h1, h2, h3⟩ := fopen_w l k hk m hm
  rcases ho : Ref.fopen l k m with ⟨l2, r⟩
  rw [ho] at h1 h2 h3
  simp only at h1 h2 h3
  subst h1
  have := fileOpen_none_eq refIO Cfg.fixed l k m l2 l.next ho
  simp only [this]
  exact ⟨trivial, trivial, trivial, h2, h3⟩

/-- reopening for reading while a stream on a regular file is held: File_Open closes that stream (one fclose of exactly
    that handle), then opens the new one at position 0 on the same content -/
theorem fileOpen_ref_reopen {l h k m p e c} (a : At l h k m p e c) (hk : Regular k) (k' : Nat) (hk' : Regular k') (mr : Mode)
    (hmr : mr = .r ∨ mr = .rp) (c' : List Byte) (hc' : lookup k' l.files = some c') :
    let r := fileOpen refIO Cfg.fixed l (some h) k' mr
    r.out = .ok () ∧ r.f = some l.next ∧ r.calls = [.on .fclose h, .fopen k' mr (some l.next)] ∧
      At r.lib l.next k' mr 0 false c' := by
  obtain ⟨c1, c2, c3, _⟩ := fclose_at a hk
  rcases hcl : Ref.fclose l h with ⟨l1, ok⟩
  rw [hcl] at c1 c2 c3
  simp only at c1 c2 c3
  subst c1
  have hf1 : lookup k' l1.files = some c' := by rw [c2]; exact hc'
  obtain ⟨h1, h2, _⟩ := fopen_r l1 k' hk' mr hmr c' hf1
  rcases ho : Ref.fopen l1 k' mr with ⟨l2, r⟩
  rw [ho] at h1 h2
  simp only at h1 h2
  subst h1
  have := fileOpen_some_eq refIO l h k' mr l1 l2 l1.next hcl ho
  simp only [this]
  rw [c3] at h2 ⊢
  exact ⟨trivial, rfl, rfl, h2⟩

theorem At.file_exists {l h k m p e c} (a : At l h k m p e c) : lookup k l.files = some c := by
  obtain ⟨_, _, hf⟩ := a; exact hf

theorem fileTell_at {l h k m p e c} (a : At l h k m p e c) :
    (fileTell refIO l (some h)).out = .ok p ∧ (fileTell refIO l (some h)).lib = l := by
  simp [fileTell, refIO, ftell_at a]

theorem fileEof_at {l h k m p e c} (a : At l h k m p e c) :
    (fileEof refIO l (some h)).out = .ok e ∧ (fileEof refIO l (some h)).lib = l := by
  simp [fileEof, refIO, feof_at a]

theorem fileSeek_at {l h k m p e c} (a : At l h k m p e c) (hk : Regular k) (off : Int) (wh : Whence) (t : Nat)
    (ht : (wh = .set ∧ off = t) ∨ (wh = .cur ∧ (p : Int) + off = t) ∨ (wh = .end_ ∧ (c.length : Int) + off = t)) :
    (fileSeek refIO l (some h) off wh).out = .ok () ∧ (fileSeek refIO l (some h) off wh).f = some h ∧
      At (fileSeek refIO l (some h) off wh).lib h k m t false c := by
  obtain ⟨h1, h2⟩ := fseek_at a hk off wh t ht
  rcases hs : Ref.fseek l h off wh with ⟨l1, ok⟩
  rw [hs] at h1 h2
  simp only at h1 h2
  subst h1
  simp only [fileSeek, refIO, hs]
  exact ⟨by simp, trivial, h2⟩

/-! ### random access, print_to, scan_from -/

theorem overwrite_read_back (c : List Byte) (t : Nat) (d : List Byte) :
    ((overwrite c t d).drop t).take d.length = d := by
  have hpre : ((c ++ List.replicate (t - c.length) 0).take t).length = t := by
    simp [List.length_take, List.length_append]; omega
  simp only [overwrite, List.append_assoc]
  rw [List.drop_append_of_le_length (by omega)]
  rw [List.drop_of_length_le (by omega)]
  simp

theorem vfprintf_at_end {l h k m p e c} (a : At l h k m p e c) (hk : Regular k) (hw : m.canWrite = true)
    (hp : m = .a ∨ p = c.length) (t : List Byte) :
    (Ref.vfprintf l h t).2 = t.length ∧
      At (Ref.vfprintf l h t).1 h k m (if t.length = 0 then p else c.length + t.length) e (c ++ t) := by
  obtain ⟨last, hs, hf⟩ := id a
  by_cases ht : t = []
  · subst ht; simp [Ref.vfprintf, hs, hw]; exact a
  · have hlen : t.length ≠ 0 := by cases t <;> simp_all
    obtain ⟨_, h2⟩ := fwrite_at_end a hk hw hp t ht
    simp only [Ref.vfprintf, hs, hw, hlen]
    simpa using h2

/-- print_to of any fragments at the end of the file: every fragment arrives, in order; the value is the character count -/
theorem filePrintFrom_at_end {l h k m e c} (a : At l h k m c.length e c) (hk : Regular k) (hw : m.canWrite = true)
    (pos : Int) (calls : List Call) (frags : List (List Byte)) :
    let r := filePrintFrom refIO l h pos calls frags
    r.out = .ok (pos + frags.flatten.length) ∧ r.f = some h ∧
      At r.lib h k m (c ++ frags.flatten).length e (c ++ frags.flatten) := by
  induction frags generalizing l c pos calls with
  | nil => simpa [filePrintFrom] using a
  | cons t ts ih =>
    obtain ⟨h1, h2⟩ := vfprintf_at_end a hk hw (Or.inr rfl) t
    rcases hv : Ref.vfprintf l h t with ⟨l1, n⟩
    rw [hv] at h1 h2
    simp only at h1 h2
    subst h1
    have hp : (if t.length = 0 then c.length else c.length + t.length) = (c ++ t).length := by
      by_cases ht : t.length = 0 <;> simp [ht]
    rw [hp] at h2
    have := ih h2 (pos + (t.length : Int)) (calls ++ [.on .vfprintf h])
    have hn : ¬ ((t.length : Int) < 0) := by omega
    simp only [filePrintFrom, refIO, hv, hn, if_false]
    simp only [refIO] at this
    refine ⟨?_, this.2.1, ?_⟩
    · rw [this.1]; simp [Int.add_assoc]
    · simpa [List.append_assoc] using this.2.2

/-- `scan_from(f, 0, "%$ ", intObject)` on an open readable stream is determined by the bytes after the position:
    a failed match raises FormatError having consumed what `scanDec` says; a successful one also skips the white space
    that follows -/
theorem fileScanInt_at {l h k m p e c} (a : At l h k m p e c) (hk : Regular k) (hr : m.canRead = true) :
    let r := fileScanInt refIO l (some h)
    let sd := Ref.scanDec (c.drop p)
    match sd.2.2 with
    | none => r.out = .raised .FormatError ∧ At r.lib h k m (p + sd.1) (e || sd.2.1) c
    | some v =>
      let ws := ((c.drop (p + sd.1)).takeWhile isSpace).length
      r.out = .ok v ∧ At r.lib h k m (p + sd.1 + ws) (e || sd.2.1 || ((c.drop (p + sd.1)).drop ws).length = 0) c := by
  obtain ⟨last, hs, hf⟩ := id a
  have hkf : k ≠ fileFull := hk.2
  have hc : l.content k = c := a.content
  intro r sd
  rcases hsd : Ref.scanDec (c.drop p) with ⟨n, hit, v⟩
  have hsd' : sd = (n, hit, v) := hsd
  have h1 : Ref.vfscanfInt l h = (l.setStream h ⟨k, m, p + n, e || hit, .rd⟩, v) := by
    simp [Ref.vfscanfInt, hs, hr, hkf, hc, hsd]
  have a1 : At (l.setStream h ⟨k, m, p + n, e || hit, .rd⟩) h k m (p + n) (e || hit) c := by
    simp [At, Ref.setStream, hf]
  cases v with
  | none =>
    simp only [hsd']
    show (fileScanInt refIO l (some h)).out = _ ∧ At (fileScanInt refIO l (some h)).lib _ _ _ _ _ _
    simp only [fileScanInt, refIO, h1]
    exact ⟨trivial, a1⟩
  | some x =>
    simp only [hsd']
    show (fileScanInt refIO l (some h)).out = _ ∧ At (fileScanInt refIO l (some h)).lib _ _ _ _ _ _
    simp only [fileScanInt, refIO, h1]
    refine ⟨trivial, ?_⟩
    simp [Ref.vfscanfWs, hr, hkf, At, Ref.setStream, hf, Ref.content]


theorem fileWrite_at {l h k m p e c} (a : At l h k m p e c) (hk : Regular k) (hw : m.canWrite = true)
    (hm : m ≠ .a) (d : List Byte) (hd : d ≠ []) :
    let r := fileWrite refIO l (some h) d
    r.out = .ok 1 ∧ r.f = some h ∧ At r.lib h k m (p + d.length) e (overwrite c p d) := by
  obtain ⟨h1, h2⟩ := fwrite_at a hk hw hm d hd
  have hlen : d.length ≠ 0 := by cases d <;> simp_all
  rcases hfw : Ref.fwrite l h d with ⟨l1, num⟩
  rw [hfw] at h1 h2
  simp only at h1 h2
  subst h1
  simp only [fileWrite, refIO, hfw]
  exact ⟨by simp, trivial, h2⟩

/-- print_to calls in sequence (each a list of fragments); collects the outcomes -/
def printAll {σ : Type} (io : Stdio σ) (l : σ) (f : Option Handle) : List (List (List Byte)) → σ × List (Out Int)
  | [] => (l, [])
  | fr :: rest =>
    let r := filePrint io l f fr
    let (l', outs) := printAll io r.lib f rest
    (l', r.out :: outs)

theorem printAll_at_end {l h k m e c} (a : At l h k m c.length e c) (hk : Regular k) (hw : m.canWrite = true)
    (texts : List (List (List Byte))) :
    (printAll refIO l (some h) texts).2 = texts.map (fun fr => .ok (fr.flatten.length : Int)) ∧
      At (printAll refIO l (some h) texts).1 h k m (c ++ texts.flatten.flatten).length e (c ++ texts.flatten.flatten) := by
  induction texts generalizing l c with
  | nil => simpa [printAll] using a
  | cons fr rest ih =>
    have hstep : (filePrint refIO l (some h) fr).out = .ok (fr.flatten.length : Int) ∧
        At (filePrint refIO l (some h) fr).lib h k m (c ++ fr.flatten).length e (c ++ fr.flatten) := by
      cases fr with
      | nil => simpa [filePrint] using a
      | cons t ts =>
        obtain ⟨o1, _, o3⟩ := filePrintFrom_at_end a hk hw 0 [] (t :: ts)
        simp only [filePrint]
        exact ⟨by simpa using o1, o3⟩
    have ih' := ih hstep.2
    simp only [printAll, List.map_cons]
    rcases hrest : printAll refIO (filePrint refIO l (some h) fr).lib (some h) rest with ⟨l', outs⟩
    rw [hrest] at ih'
    simp only at ih'
    refine ⟨by rw [hstep.1, ih'.1], ?_⟩
    simpa [List.append_assoc] using ih'.2

/-! ### append mode -/

/-- append mode: wherever the position is, every item written lands at the end of the file -/
theorem writeAll_append {l h k p e c} (a : At l h k .a p e c) (hk : Regular k) (cs : List (List Byte)) :
    (writeAll refIO l (some h) cs).2 = writeSpec cs ∧
      ∃ p', At (writeAll refIO l (some h) cs).1 h k .a p' e (c ++ cs.flatten) ∧
        (cs.flatten ≠ [] → p' = (c ++ cs.flatten).length) := by
  induction cs generalizing l p c with
  | nil => exact ⟨rfl, p, by simpa [writeAll] using a, by simp⟩
  | cons d cs ih =>
    by_cases hd : d = []
    · subst hd
      obtain ⟨ho, _, ha⟩ := fileWrite_at_end a hk rfl (Or.inl rfl) []
      simp only [List.length_nil, if_true, List.append_nil] at ha
      obtain ⟨i1, p', i2, i3⟩ := ih ha
      simp only [writeAll, writeSpec, List.map_cons]
      rcases hrest : writeAll refIO (fileWrite refIO l (some h) []).lib (some h) cs with ⟨l', outs⟩
      rw [hrest] at i1 i2
      exact ⟨by rw [ho, i1]; rfl, p', by simpa using i2, by simpa using i3⟩
    · obtain ⟨ho, _, ha⟩ := fileWrite_at_end a hk rfl (Or.inl rfl) d
      have hlen : d.length ≠ 0 := by cases d <;> simp_all
      simp only [hlen, if_false] at ha
      have ha' : At (fileWrite refIO l (some h) d).lib h k .a (c ++ d).length e (c ++ d) := by
        simpa [List.length_append] using ha
      obtain ⟨j1, j2⟩ := writeAll_at_end ha' hk rfl rfl cs
      simp only [writeAll, writeSpec, List.map_cons]
      rcases hrest : writeAll refIO (fileWrite refIO l (some h) d).lib (some h) cs with ⟨l', outs⟩
      rw [hrest] at j1 j2
      refine ⟨by rw [ho, j1]; rfl, (c ++ d).length + cs.flatten.length, by simpa [List.append_assoc] using j2, ?_⟩
      intro _; simp [List.length_append, Nat.add_assoc]

/-- fopen "a" of a file that exists: a fresh handle, content untouched -/
theorem fopen_a (l : Ref) (k : Nat) (hk : Regular k) (c : List Byte) (hf : lookup k l.files = some c) :
    (Ref.fopen l k .a).2 = some l.next ∧ At (Ref.fopen l k .a).1 l.next k .a c.length false c := by
  have h1 : k ≠ fileNoDir := hk.1
  have h2 : k ≠ fileFull := hk.2
  simp [Ref.fopen, h1, h2, At, hf]

end Cello.File
