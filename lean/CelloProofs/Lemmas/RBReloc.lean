/-
  Lemmas/RBReloc.lean — the predecessor relocation of `Tree_Rem`.

  The model moves the node payload as the C code does: one block of
  `sizeof(struct Header) + ksize + sizeof(struct Header) + vsize` bytes from the predecessor into the node (`relocate`).
  The offsets and the width are the expressions the source has now (CelloGen.Tree, evaluated by `Lay.keyOff` … `Lay.moveLen`);
  every lemma here takes `LayoutOk` — what those expressions must evaluate to — as a hypothesis (proved in Props/C03.lean:
  `C03_layout_current_source`).
  Here: when the predecessor's key and value have the sizes of the Tree's key and value types, that block is the whole
  entry, so the node ends up holding exactly the predecessor's key and value (`relocate_fits`), whatever the width of the
  header, of the key and of the value.  A shorter block does not (`relocate_short_value`).
  `remHereA` / `remAtA` are `remHere` / `remAt` with the relocation seen as a move of the abstract key and value; on trees
  whose entries fit the layout they are the same functions (`remHere_eq`, `remAt_eq`), and the structural lemmas
  (RBRefine, RBDel) are stated about them.
-/
import CelloProofs.Lemmas.RBSource

namespace Cello.RB
variable {α β : Type}

/-- the key and the value have the widths of the layout (in words) -/
def FitsLay [Packed α] [Packed β] (y : Lay) (e : α × β) : Prop :=
  (Packed.words e.1).length = y.ks ∧ (Packed.words e.2).length = y.vs

/-- a store of as many words as the part `m` it replaces, right after the prefix `a` -/
theorem writeAt_mid (a m c ws : List Word) (off : Nat) (ha : a.length = off) (h : ws.length = m.length) :
    writeAt off ws (a ++ (m ++ c)) = a ++ (ws ++ c) := by
  subst ha
  unfold writeAt
  have h0 : a.length + ws.length - (a ++ (m ++ c)).length = 0 := by
    simp only [List.length_append, h]; omega
  have h1 : (a ++ (m ++ c)).drop (a.length + ws.length) = c := by
    rw [← List.append_assoc]
    exact List.drop_left' (by simp [h])
  rw [h0, List.replicate_zero, List.append_nil, List.take_left' rfl, h1, List.append_assoc]

theorem entryWords_std [Packed α] [Packed β] (hl : LayoutOk) (y : Lay) (e : α × β) (h : FitsLay y e) :
    entryWords y e = List.replicate y.hdr (Word.hdr true) ++ Packed.words e.1 ++
      (List.replicate y.hdr (Word.hdr false) ++ Packed.words e.2) := by
  obtain ⟨h1, h2, h3, h4, h5, _⟩ := hl y
  unfold entryWords
  rw [h1, h2, h3, h4, h5]
  have z : List.replicate (y.hdr + y.ks + y.hdr + y.vs) (Word.int 0) =
      [] ++ (List.replicate y.hdr (Word.int 0) ++ (List.replicate y.ks (Word.int 0) ++ (List.replicate y.hdr (Word.int 0) ++
        List.replicate y.vs (Word.int 0)))) := by
    simp; omega
  rw [z, writeAt_mid [] _ _ _ 0 rfl (by simp)]
  -- value header
  rw [show ([] : List Word) ++ (List.replicate y.hdr (Word.hdr true) ++ (List.replicate y.ks (Word.int 0) ++
        (List.replicate y.hdr (Word.int 0) ++ List.replicate y.vs (Word.int 0)))) =
      (List.replicate y.hdr (Word.hdr true) ++ List.replicate y.ks (Word.int 0)) ++
        (List.replicate y.hdr (Word.int 0) ++ List.replicate y.vs (Word.int 0)) by simp,
    writeAt_mid _ _ _ _ (y.hdr + y.ks) (by simp) (by simp)]
  -- key
  rw [show (List.replicate y.hdr (Word.hdr true) ++ List.replicate y.ks (Word.int 0)) ++
        (List.replicate y.hdr (Word.hdr false) ++ List.replicate y.vs (Word.int 0)) =
      List.replicate y.hdr (Word.hdr true) ++ (List.replicate y.ks (Word.int 0) ++
        (List.replicate y.hdr (Word.hdr false) ++ List.replicate y.vs (Word.int 0))) by simp,
    writeAt_mid _ _ _ _ y.hdr (by simp) (by simp [h.1])]
  -- value
  rw [show List.replicate y.hdr (Word.hdr true) ++ (Packed.words e.1 ++
        (List.replicate y.hdr (Word.hdr false) ++ List.replicate y.vs (Word.int 0))) =
      (List.replicate y.hdr (Word.hdr true) ++ Packed.words e.1 ++ List.replicate y.hdr (Word.hdr false)) ++
        (List.replicate y.vs (Word.int 0) ++ []) by simp,
    writeAt_mid _ _ _ _ (y.hdr + y.ks + y.hdr) (by simp [h.1]; omega) (by simp [h.2])]
  simp

theorem entryWords_length [Packed α] [Packed β] (hl : LayoutOk) (y : Lay) (e : α × β) (h : FitsLay y e) :
    (entryWords y e).length = y.moveLen := by
  rw [entryWords_std hl y e h, (hl y).2.2.2.2.2]
  simp [h.1, h.2]; omega

theorem memcpyW_all (n : Nat) (dst src : List Word) (h : src.length = n) :
    memcpyW n dst src = src ++ dst.drop n := by
  simp [memcpyW, ← h]

theorem keyAt_entry [Packed α] [Packed β] (hl : LayoutOk) (y : Lay) (e : α × β) (tail : List Word) (h : FitsLay y e) :
    keyAt y (entryWords y e ++ tail) = Packed.words e.1 := by
  rw [entryWords_std hl y e h]
  unfold keyAt
  rw [(hl y).2.1, List.append_assoc, List.append_assoc, List.drop_left' (by simp), List.take_left' h.1]

theorem valAt_entry [Packed α] [Packed β] (hl : LayoutOk) (y : Lay) (e : α × β) (tail : List Word) (h : FitsLay y e) :
    valAt y (entryWords y e ++ tail) = Packed.words e.2 := by
  rw [entryWords_std hl y e h]
  unfold valAt
  rw [(hl y).2.2.2.1]
  have : (List.replicate y.hdr (Word.hdr true) ++ Packed.words e.1 ++
      (List.replicate y.hdr (Word.hdr false) ++ Packed.words e.2)) ++ tail =
      (List.replicate y.hdr (Word.hdr true) ++ Packed.words e.1 ++ List.replicate y.hdr (Word.hdr false)) ++
      (Packed.words e.2 ++ tail) := by simp
  rw [this, List.drop_left' (by simp [h.1]; omega), List.take_left' h.2]

/-- **the memcpy of `Tree_Rem` carries the whole entry**: if the predecessor's key and value have the sizes of the Tree's
    key and value types, the node holds exactly that key and that value afterwards — for every header width, key width
    and value width, and whatever the node held before. -/
theorem relocate_fits [Packed α] [Packed β] [LawfulPacked α] [LawfulPacked β] (hl : LayoutOk) (y : Lay) (dst src : α × β)
    (h : FitsLay y src) : relocate y dst src = some src := by
  unfold relocate
  simp only
  rw [memcpyW_all _ _ _ (entryWords_length hl y src h), keyAt_entry hl y src _ h, valAt_entry hl y src _ h,
    LawfulPacked.ofWords_words, LawfulPacked.ofWords_words]

/-- `Tree_Maximum` returns a node of the subtree -/
theorem maxLoc_mem (t : T α β) (p : Path α β) (x : Loc α β) (h : maxLoc t p = some x) : (x.k, x.v) ∈ toList t := by
  induction t generalizing p with
  | nil => simp [maxLoc] at h
  | node c l k v r ihl ihr =>
    unfold maxLoc at h
    split at h
    · simp at h; subst h; simp [toList]
    · have := ihr _ h
      rw [toList]
      exact List.mem_append_right _ (List.mem_cons_of_mem _ this)

/-- `remHere` with the relocation as a move of the abstract key and value -/
def remHereA (c : Color) (l : T α β) (nk : α) (nv : β) (r : T α β) (p : Path α β) : Option (T α β) :=
  match l, r with
  | .node .., .node .. =>
    match maxLoc l [] with
    | none => none
    | some pr => spliceOut { pr with path := pr.path ++ { dir := .L, c := c, k := pr.k, v := pr.v, sib := r } :: p }
  | _, _ => spliceOut ⟨c, l, nk, nv, r, p⟩

/-- `remAt` over `remHereA` -/
def remAtA (cmp : α → α → Ordering) : T α β → Path α β → α → Option (Option (T α β))
  | .nil, _, _ => some none
  | .node c l nk nv r, p, k =>
    match cmp nk k with
    | .eq => (remHereA c l nk nv r p).map some
    | .lt => remAtA cmp l ({ dir := .L, c := c, k := nk, v := nv, sib := r } :: p) k
    | .gt => remAtA cmp r ({ dir := .Rt, c := c, k := nk, v := nv, sib := l } :: p) k

theorem remHere_eq [Packed α] [Packed β] [LawfulPacked α] [LawfulPacked β] (hy : LayoutOk) (y : Lay) (c : Color) (l : T α β)
    (nk : α) (nv : β) (r : T α β) (p : Path α β) (hl : ∀ e ∈ toList l, FitsLay y e) :
    remHere y c l nk nv r p = remHereA c l nk nv r p := by
  cases l with
  | nil => cases r <;> rfl
  | node lc ll lk lv lr =>
    cases r with
    | nil => rfl
    | node rc rl rk rv rr =>
      simp only [remHere, remHereA]
      cases hm : maxLoc (T.node lc ll lk lv lr) ([] : Path α β) with
      | none => rfl
      | some pr =>
        simp only
        rw [relocate_fits hy y (nk, nv) (pr.k, pr.v) (hl _ (maxLoc_mem _ _ _ hm))]

theorem remAt_eq [Packed α] [Packed β] [LawfulPacked α] [LawfulPacked β] (hy : LayoutOk) (cmp : α → α → Ordering) (y : Lay)
    (t : T α β) (p : Path α β) (k : α) (ht : ∀ e ∈ toList t, FitsLay y e) :
    remAt cmp y t p k = remAtA cmp t p k := by
  induction t generalizing p with
  | nil => rfl
  | node c l nk nv r ihl ihr =>
    simp only [toList, List.mem_append, List.mem_cons] at ht
    simp only [remAt, remAtA]
    cases cmp nk k with
    | eq => simp only; rw [remHere_eq hy y c l nk nv r p (fun e he => ht e (Or.inl he))]
    | lt => exact ihl _ (fun e he => ht e (Or.inl he))
    | gt => exact ihr _ (fun e he => ht e (Or.inr (Or.inr he)))

theorem block_short (ps pd vs' vd : List Word) (d v : Nat) (hp : pd.length = ps.length)
    (hs : vs'.length = v) (hd : vd.length = v) (hdv : d ≤ v) :
    (((ps ++ vs').take (ps.length + d) ++ (pd ++ vd).drop (ps.length + d)).drop ps.length).take v
      = vs'.take d ++ vd.drop d := by
  rw [List.take_length_add_append, ← hp, List.drop_length_add_append, hp, List.append_assoc,
    List.drop_left' rfl, List.take_of_length_le]
  simp [hs, hd]; omega

/-- **a shorter block does not carry the entry**: if only `n` words are moved and `n` ends inside the value
    (`valOff ≤ n ≤ entryLen`), the value read back is the predecessor's first `n - valOff` words followed by the node's
    own remaining words. -/
theorem valAt_short [Packed α] [Packed β] (hl : LayoutOk) (y : Lay) (dst src : α × β) (hd : FitsLay y dst) (hs : FitsLay y src)
    (n : Nat) (h1 : y.valOff ≤ n) (h2 : n ≤ y.entryLen) :
    valAt y (memcpyW n (entryWords y dst) (entryWords y src)) =
      (Packed.words src.2).take (n - y.valOff) ++ (Packed.words dst.2).drop (n - y.valOff) := by
  have pre : ∀ e : α × β, FitsLay y e →
      entryWords y e = (List.replicate y.hdr (Word.hdr true) ++ Packed.words e.1 ++ List.replicate y.hdr (Word.hdr false))
        ++ Packed.words e.2 := by intro e he; rw [entryWords_std hl y e he]; simp
  have hpl : ∀ e : α × β, FitsLay y e →
      (List.replicate y.hdr (Word.hdr true) ++ Packed.words e.1 ++ List.replicate y.hdr (Word.hdr false)).length
        = y.valOff := by intro e he; rw [(hl y).2.2.2.1]; simp [he.1]; omega
  obtain ⟨d, rfl⟩ : ∃ d, n = y.valOff + d := ⟨n - y.valOff, by omega⟩
  have hdv : d ≤ y.vs := by rw [(hl y).2.2.2.2.1, (hl y).2.2.2.1] at h2; omega
  unfold valAt memcpyW
  rw [pre dst hd, pre src hs, Nat.add_sub_cancel_left, ← hpl src hs]
  exact block_short _ _ _ _ d y.vs (by rw [hpl dst hd, hpl src hs]) hs.2 hd.2 hdv

end Cello.RB
