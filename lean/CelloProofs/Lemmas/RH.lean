/-
  CelloProofs/Lemmas/RH.lean — lookup correctness of the robin-hood core from the *local* invariant
  (home slots, distinct keys, predecessor support, an empty slot).  Ported from the design-phase calibration.
-/
import Cello.RH
set_option linter.unusedSectionVars false
set_option linter.unusedVariables false
namespace RH

theorem next_eq_mod {n i : Nat} (h : i < n) : next n i = (i + 1) % n := by
  unfold next; split
  · rename_i h1; rw [h1, Nat.mod_self]
  · rw [Nat.mod_eq_of_lt (by omega)]
theorem dist_eq_mod {n i home : Nat} (hi : i < n) (hh : home < n) : dist n i home = (i + n - home) % n := by
  unfold dist; split
  · have : i + n - home = (i - home) + n := by omega
    rw [this, Nat.add_mod_right, Nat.mod_eq_of_lt (by omega)]
  · rw [Nat.mod_eq_of_lt (by omega)]

variable {κ ε : Type} [DecidableEq κ] {n : Nat}

structure Inv (hash : κ → Nat) (s : Slots κ ε n) : Prop where
  home_ok : ∀ i (hi : i < n) e, s[i] = some e → e.home = hash e.key % n
  distinct : ∀ i j (hi : i < n) (hj : j < n) e e', s[i] = some e → s[j] = some e' → e.key = e'.key → i = j
  loc : ∀ i (hi : i < n) e, s[i] = some e → 0 < dist n i e.home →
          ∃ e', s[prev n i]'(prev_lt hi) = some e' ∧ dist n i e.home ≤ dist n (prev n i) e'.home + 1
  has_empty : ∃ i, ∃ hi : i < n, s[i] = none

def Present (s : Slots κ ε n) (k : κ) : Prop := ∃ i, ∃ hi : i < n, ∃ e, s[i] = some e ∧ e.key = k

theorem prev_next {n q : Nat} (hq : q < n) : prev n (next n q) = q := by
  unfold prev next; split <;> split <;> omega

theorem dist_next {n p q t : Nat} (hp : p < n) (hq : q < n) (h : dist n p q = t + 1) : dist n p (next n q) = t := by
  unfold dist next at *; split at h <;> split <;> split <;> omega

/-- chain property derived from the local invariant -/
theorem chain (hash : κ → Nat) (s : Slots κ ε n) (inv : Inv hash s)
    (p : Nat) (hp : p < n) (e : Entry κ ε) (hpe : s[p] = some e) :
    ∀ (t q : Nat) (hq : q < n), dist n p q = t → t ≤ dist n p e.home →
      ∃ e', s[q] = some e' ∧ dist n p e.home ≤ dist n q e'.home + t := by
  intro t
  induction t with
  | zero =>
    intro q hq hd _
    have : q = p := by unfold dist at hd; split at hd <;> omega
    subst this
    exact ⟨e, hpe, by omega⟩
  | succ t ih =>
    intro q hq hd hle
    have hq' := next_lt hq
    obtain ⟨e'', he'', hD⟩ := ih (next n q) hq' (dist_next hp hq hd) (by omega)
    have hpos : 0 < dist n (next n q) e''.home := by omega
    obtain ⟨e', he', hl⟩ := inv.loc (next n q) hq' e'' he'' hpos
    have hpn : prev n (next n q) = q := prev_next hq
    refine ⟨e', ?_, ?_⟩
    · simpa [hpn] using he'
    · simp only [hpn] at hl; omega

/-- walking forward from slot `i` (offset `j` from k's home) towards the slot `p` that holds `k` -/
theorem lookupLoop_finds (hash : κ → Nat) (s : Slots κ ε n) (inv : Inv hash s) (k : κ)
    (p : Nat) (hp : p < n) (e : Entry κ ε) (hpe : s[p] = some e) (hk : e.key = k) :
    ∀ (m : Nat) (i j : Nat) (hi : i < n) (fuel : Nat),
      dist n p i = m → j + m = dist n p e.home → m < fuel →
      lookupLoop s k fuel i j hi = some true := by
  intro m
  induction m with
  | zero =>
    intro i j hi fuel hm hj hf
    have hip : i = p := by unfold dist at hm; split at hm <;> omega
    subst hip
    match fuel, hf with
    | fuel+1, _ =>
      simp only [lookupLoop, hpe]
      have : ¬ j > dist n i e.home := by omega
      simp [this, hk]
  | succ m ih =>
    intro i j hi fuel hm hj hf
    match fuel, hf with
    | fuel+1, hf =>
      obtain ⟨e', he', hD⟩ := chain hash s inv p hp e hpe (m+1) i hi hm (by omega)
      simp only [lookupLoop, he']
      have : ¬ j > dist n i e'.home := by omega
      simp only [this, if_false]
      by_cases hkk : e'.key = k
      · simp [hkk]
      · simp only [hkk, if_false]
        exact ih (next n i) (j+1) (next_lt hi) fuel (dist_next hp hi hm) (by omega) (by omega)

theorem lookup_present (hash : κ → Nat) (s : Slots κ ε n) (inv : Inv hash s) (hn : 0 < n) (k : κ)
    (h : Present s k) : lookup hash s k hn = some true := by
  obtain ⟨p, hp, e, hpe, hk⟩ := h
  have hh : e.home = hash k % n := by rw [← hk]; exact inv.home_ok p hp e hpe
  have hhome : hash k % n < n := Nat.mod_lt _ hn
  unfold lookup
  apply lookupLoop_finds hash s inv k p hp e hpe hk (dist n p (hash k % n)) _ 0 hhome n rfl
  · rw [hh]; omega
  · unfold dist; split <;> omega

/-- soundness: `some true` only if present -/
theorem lookupLoop_sound (s : Slots κ ε n) (k : κ) :
    ∀ (fuel i j : Nat) (hi : i < n), lookupLoop s k fuel i j hi = some true → Present s k := by
  intro fuel
  induction fuel with
  | zero => intro i j hi h; simp [lookupLoop] at h
  | succ fuel ih =>
    intro i j hi h
    simp only [lookupLoop] at h
    split at h
    · simp at h
    · rename_i e he
      split at h
      · simp at h
      · split at h
        · exact ⟨i, hi, e, he, by assumption⟩
        · exact ih _ _ _ h

end RH
