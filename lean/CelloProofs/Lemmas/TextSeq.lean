/-
  Lemmas for C15 (engine `text`): sinks, sources, separators and sequences.
-/
import CelloProofs.Lemmas.Text
import CelloProofs.Lemmas.TextInt
import CelloProofs.Lemmas.TextFloat

namespace Cello.Text

/-! ## writing at the end of a sink -/

theorem put_at_end (o : Sink) (t : List Nat) : o.put o.data.length t = { o with data := o.data ++ t } := by
  cases o with
  | mk k d => cases k <;> simp [Sink.put]

theorem put_of_len (o : Sink) (pos : Nat) (t : List Nat) (h : pos = o.data.length) :
    o.put pos t = { o with data := o.data ++ t } := by
  subst h; exact put_at_end o t

theorem showStringTo_at_end (esc : List (Nat × List Nat)) (opn cls s : List Nat) (o : Sink) :
    showStringTo esc opn cls s o o.data.length
      = ({ o with data := o.data ++ showString esc opn cls s }, o.data.length + (showString esc opn cls s).length) := by
  have hfold : ∀ (s : List Nat) (o : Sink),
      s.foldl (fun (st : Sink × Nat) b => (st.1.put st.2 (showByte esc b), st.2 + (showByte esc b).length)) (o, o.data.length)
        = ({ o with data := o.data ++ s.flatMap (showByte esc) }, o.data.length + (s.flatMap (showByte esc)).length) := by
    intro s
    induction s with
    | nil => intro o; simp
    | cons b s ih =>
      intro o
      simp only [List.foldl_cons, put_at_end]
      have := ih { o with data := o.data ++ showByte esc b }
      simp only [List.length_append] at this
      rw [this]
      simp [List.flatMap_cons, Nat.add_assoc]
  simp only [showStringTo, put_at_end]
  have := hfold s { o with data := o.data ++ opn }
  simp only [List.length_append] at this
  rw [this]
  rw [put_of_len _ _ _ (by simp only [List.length_append])]
  simp only [showString, List.length_append, List.append_assoc]
  congr 1; omega

theorem printItem_at_end (c : Cfg) (o : Sink) (it : Item) :
    printItem c o o.data.length it = ({ o with data := o.data ++ it.text c }, o.data.length + (it.text c).length) := by
  cases it with
  | shw v => cases v <;> simp [printItem, Item.text, showStringTo_at_end, put_at_end]
  | _ => simp [printItem, Item.text, put_at_end]

/-- **what `print_to_with` writes**: started at the end of the sink it appends exactly the concatenation of the items' texts and
    returns the start position plus the number of characters written -/
theorem printItems_at_end (c : Cfg) (its : List Item) : ∀ (o : Sink),
    printItems c o o.data.length its
      = ({ o with data := o.data ++ its.flatMap (Item.text c) }, o.data.length + (its.flatMap (Item.text c)).length) := by
  induction its with
  | nil => intro o; simp [printItems]
  | cons it its ih =>
    intro o
    simp only [printItems, printItem_at_end]
    have := ih { o with data := o.data ++ it.text c }
    simp only [List.length_append] at this
    rw [this]
    simp [List.flatMap_cons, Nat.add_assoc]

/-! ## reading: views and advancing -/

theorem view_adv (i : Input) (pos : Nat) (a l : List Nat) (h : i.view pos = some (a ++ l)) :
    (i.adv a.length).view (pos + a.length) = some l := by
  cases i with
  | mk k text cur =>
    cases k with
    | str =>
      simp only [Input.view, Input.adv] at h ⊢
      split at h
      · rename_i hle
        simp only [Option.some.injEq] at h
        have hlen : text.length - pos = a.length + l.length := by
          have := congrArg List.length h
          simpa [List.length_drop] using this
        have : pos + a.length ≤ text.length := by omega
        simp only [this, if_true, Option.some.injEq]
        rw [← List.drop_drop, h, List.drop_left]
      · exact absurd h (by simp)
    | file =>
      simp only [Input.view, Input.adv, Option.some.injEq] at h ⊢
      rw [← List.drop_drop, h, List.drop_left]

theorem adv_adv (i : Input) (a b : Nat) : (i.adv a).adv b = i.adv (a + b) := by
  cases i with
  | mk k text cur => cases k <;> simp [Input.adv, Nat.add_assoc]

theorem adv_zero (i : Input) : i.adv 0 = i := by
  cases i with
  | mk k text cur => cases k <;> simp [Input.adv]

theorem adv_kind (i : Input) (a : Nat) : (i.adv a).kind = i.kind := by
  cases i with
  | mk k text cur => cases k <;> simp [Input.adv]

theorem adv_str (i : Input) (h : i.kind = .str) (a b : Nat) : i.adv a = i.adv b := by
  cases i with
  | mk k text cur => simp only at h; subst h; simp [Input.adv]

theorem run_ok {β : Type} (i : Input) (pos : Nat) (d : β) (rd : List Nat → Nat → β × Res (List Nat × Nat))
    (l rest : List Nat) (b : β) (pos' : Nat) (hv : i.view pos = some l) (hr : rd l pos = (b, .ok (rest, pos'))) :
    i.run pos d rd = (b, .ok (i.adv (l.length - rest.length), pos')) := by
  simp [Input.run, hv, hr]

/-! ## separators -/

theorem skipSpace_of_head (l : List Nat) (h : headIs isSpace l = false) : skipSpace l = l := by
  cases l with
  | nil => rfl
  | cons b r => simp only [headIs] at h; simp [skipSpace, h]

theorem skipSpace_cons_space (b : Nat) (r : List Nat) (h : isSpace b = true) : skipSpace (b :: r) = skipSpace r := by
  simp [skipSpace, h]

theorem headIs_skipSpace (l : List Nat) : headIs isSpace (skipSpace l) = false := by
  induction l with
  | nil => simp [skipSpace, headIs]
  | cons b r ih =>
    by_cases h : isSpace b = true
    · rw [skipSpace_cons_space b r h]; exact ih
    · have h' : isSpace b = false := by simpa using h
      rw [skipSpace_of_head (b :: r) (by simp [headIs, h'])]
      simp [headIs, h']

theorem skipSpace_idem (l : List Nat) : skipSpace (skipSpace l) = skipSpace l :=
  skipSpace_of_head _ (headIs_skipSpace l)

theorem lastIs_cons_cons (p : Nat → Bool) (a b : Nat) (r : List Nat) : lastIs p (a :: b :: r) = lastIs p (b :: r) := by
  simp [lastIs]

/-- scanf matching of a separator against itself followed by `f` consumes exactly the separator, unless the separator ends in
    white space and `f` starts with white space (then the white-space directive swallows the beginning of `f`) -/
theorem matchLit_self (t : List Nat) : ∀ f : List Nat, ¬(lastIs isSpace t = true ∧ headIs isSpace f = true) →
    matchLit t (t ++ f) = f ∧ (headIs isSpace t = true → matchLit t (skipSpace (t ++ f)) = f) := by
  induction t with
  | nil => intro f _; simp [matchLit, headIs]
  | cons a t ih =>
    intro f hf
    by_cases ha : isSpace a = true
    · -- a white-space directive
      have key : matchLit t (skipSpace (t ++ f)) = f := by
        cases t with
        | nil =>
          have : headIs isSpace f = false := by
            cases h : headIs isSpace f with
            | false => rfl
            | true => exact absurd ⟨by simp [lastIs, ha], h⟩ hf
          simp [matchLit, skipSpace_of_head f this]
        | cons b t' =>
          have hf' : ¬(lastIs isSpace (b :: t') = true ∧ headIs isSpace f = true) := by
            rw [lastIs_cons_cons] at hf; exact hf
          by_cases hb : isSpace b = true
          · exact (ih f hf').2 (by simp [headIs, hb])
          · have hb' : isSpace b = false := by simpa using hb
            rw [skipSpace_of_head _ (by simp [headIs, hb'])]
            exact (ih f hf').1
      constructor
      · simp only [List.cons_append, matchLit, ha, if_true]
        rw [skipSpace_cons_space a _ ha]; exact key
      · intro _
        simp only [List.cons_append, matchLit, ha, if_true]
        rw [skipSpace_idem, skipSpace_cons_space a _ ha]; exact key
    · have ha' : isSpace a = false := by simpa using ha
      constructor
      · simp only [List.cons_append, matchLit, ha', Bool.false_eq_true, if_false, if_true]
        apply (ih f _).1
        cases t with
        | nil => simp [lastIs]
        | cons b t' => rw [lastIs_cons_cons] at hf; exact hf
      · intro h; simp [headIs, ha'] at h

/-! ## one segment read back -/

def Item.isFloat : Item → Bool
  | .shw (.flt _) => true
  | .fspec _ _ _ => true
  | _ => false

theorem withN_ok {α : Type} (rd : List Nat → Res (α × List Nat)) (d : α) (t f : List Nat) (a : α) (pos : Nat)
    (h : rd (t ++ f) = .ok (a, f)) : withN rd d (t ++ f) pos = (a, .ok (f, pos + t.length)) := by
  simp [withN, h]

theorem run_text {β : Type} (i : Input) (pos : Nat) (d : β) (rd : List Nat → Nat → β × Res (List Nat × Nat))
    (t f : List Nat) (b : β) (hv : i.view pos = some (t ++ f)) (hr : rd (t ++ f) pos = (b, .ok (f, pos + t.length))) :
    i.run pos d rd = (b, .ok (i.adv t.length, pos + t.length)) := by
  rw [run_ok i pos d rd (t ++ f) f b (pos + t.length) hv hr]
  simp

theorem convInt_li (n : Int) (h : inInt64 n = true) : convInt .l .i n = n :=
  convInt_inWidth .l .i n (by simpa [intInWidth, IMod.width] using h)

/-- **one segment**: if the input at `pos` shows the text the item wrote followed by `f`, and `f` does not continue the item
    (`Item.safe`), `scan_from_with` stores the item's value (`readBack`), moves the stream by exactly the item's text and returns
    `pos` + its length -/
theorem scanItem_text (c : Cfg) (T : Tables c) (hc : c.look.continues = true) (hp : c.pctUsesN = true) (A : ArmsOK c)
    (k : Kind) (it : Item) (f : List Nat)
    (i : Input) (pos : Nat) (hk : i.kind = k) (hv : it.valid = true) (hs : it.safe k f = true)
    (hsee : i.view pos = some (it.text c ++ f)) :
    scanItem c i pos it.shape = (it.readBack c, .ok (i.adv (it.text c).length, pos + (it.text c).length)) := by
  cases it with
  | shw v =>
    cases v with
    | str s =>
      simp only [Item.valid, List.all_eq_true, bne_iff_ne, ne_eq] at hv
      simp only [Item.text] at hsee ⊢
      have hl := lookString_show c T hc s (fun b hb => hv b hb) f pos
      simp only [Item.shape, scanItem, Item.readBack]
      rw [run_text i pos [63] (lookString c.look) _ f s hsee hl]
    | int n =>
      simp only [Item.text] at hsee ⊢
      have h0 : printInt n = printIntSpec .l .i n := by
        have : sext 64 n = n := by
          have := convInt_li n hv; simpa [convInt, IConv.signed, IMod.width] using this
        simp [printIntSpec, IMod.width, this]
      rw [h0] at hsee ⊢
      have h1 := scanIntSpec_print c A .l .i n hv f hs
      rw [convInt_li n hv] at h1
      simp only [Item.shape, scanItem, Item.readBack]
      rw [run_text i pos 77 _ _ f n hsee (withN_ok _ _ _ _ _ _ h1)]
    | flt b =>
      simp only [Item.text] at hsee ⊢
      have h1 : scanFloatSpec c true .f (printF b ++ f) = .ok (reparseSpec (fspecNarrow c true .f) .f b, f) :=
        scanFloating_print _ .f b f hs
      simp only [Item.shape, scanItem, Item.readBack]
      rw [run_text i pos _ _ _ f _ hsee (withN_ok _ _ _ _ _ _ h1)]
  | ispec m cv n =>
    simp only [Item.text] at hsee ⊢
    have h1 := scanIntSpec_print c A m cv n hv f hs
    simp only [Item.shape, scanItem, Item.readBack]
    rw [run_text i pos 77 _ _ f _ hsee (withN_ok _ _ _ _ _ _ h1)]
  | fspec l cv b =>
    simp only [Item.text] at hsee ⊢
    have h1 : scanFloatSpec c l cv (printFloatSpec cv b ++ f) = .ok (reparseSpec (fspecNarrow c l cv) cv b, f) :=
      scanFloating_print _ cv b f hs
    simp only [Item.shape, scanItem, Item.readBack]
    rw [run_text i pos _ _ _ f _ hsee (withN_ok _ _ _ _ _ _ h1)]
  | lit t =>
    simp only [Item.text] at hsee ⊢
    simp only [Item.shape, scanItem, Item.readBack, hsee]
    cases hkk : i.kind with
    | str => rw [adv_str i hkk _ t.length]
    | file =>
      have : litSafe k t f = true := hs
      rw [← hk, hkk] at this
      simp only [litSafe, Bool.or_eq_true, beq_iff_eq, Bool.not_eq_true', Bool.and_eq_false_iff] at this
      have hm := (matchLit_self t f (by
        rcases this with h | h
        · exact absurd h (by decide)
        · intro ⟨h1, h2⟩; rcases h with h | h <;> simp_all)).1
      rw [hm]; simp
  | pct =>
    simp only [Item.text, List.cons_append, List.nil_append] at hsee ⊢
    simp only [Item.shape, scanItem, Item.readBack, hsee]
    rw [skipSpace_nonspace 37 _ (by decide)]
    simp [hp]

/-! ## sequences -/

theorem scanItems_text (c : Cfg) (T : Tables c) (hc : c.look.continues = true) (hp : c.pctUsesN = true) (A : ArmsOK c)
    (k : Kind) (its : List Item) (z : List Nat) :
    ∀ (i : Input) (pos : Nat), i.kind = k → contractOK c k its z = true →
      i.view pos = some (its.flatMap (Item.text c) ++ z) →
      scanItems c i pos (its.map Item.shape)
        = (its.filterMap (Item.readBack c), .ok (i.adv (its.flatMap (Item.text c)).length, pos + (its.flatMap (Item.text c)).length)) := by
  induction its with
  | nil => intro i pos _ _ _; simp [scanItems, adv_zero]
  | cons it its ih =>
    intro i pos hk hcon hsee
    simp only [contractOK, Bool.and_eq_true] at hcon
    obtain ⟨⟨hv, hs⟩, hrest⟩ := hcon
    simp only [List.flatMap_cons, List.append_assoc] at hsee
    have h1 := scanItem_text c T hc hp A k it _ i pos hk hv hs hsee
    have hsee' := view_adv i pos _ _ hsee
    have h2 := ih (i.adv (it.text c).length) (pos + (it.text c).length) (by rw [adv_kind]; exact hk) hrest hsee'
    simp only [List.map_cons, scanItems, h1, h2, List.filterMap_cons, List.flatMap_cons, List.length_append, adv_adv, Nat.add_assoc]
    cases it.readBack c <;> simp

/-- for Strings, and for Ints that fit the type their specification names, the expected value is the value written -/
theorem readBack_eq_val (c : Cfg) (it : Item) (h : it.isFloat = false) (hw : it.inWidth c = true) : it.readBack c = it.val? := by
  cases it with
  | shw v => cases v <;> simp_all [Item.readBack, Item.val?, Item.isFloat]
  | ispec m cv n => simp [Item.readBack, Item.val?, convInt_inWidth m cv n hw]
  | _ => simp_all [Item.readBack, Item.val?, Item.isFloat]

theorem filterMap_readBack_eq_val (c : Cfg) (its : List Item) (h : ∀ it ∈ its, it.isFloat = false)
    (hw : ∀ it ∈ its, it.inWidth c = true) :
    its.filterMap (Item.readBack c) = its.filterMap Item.val? := by
  induction its with
  | nil => rfl
  | cons it its ih =>
    simp only [List.filterMap_cons, readBack_eq_val c it (h it List.mem_cons_self) (hw it List.mem_cons_self)]
    rw [ih (fun x hx => h x (List.mem_cons_of_mem _ hx)) (fun x hx => hw x (List.mem_cons_of_mem _ hx))]

end Cello.Text
