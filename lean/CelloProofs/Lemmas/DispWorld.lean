/-
  Helper lemmas for C08, world level: the numbered type objects of a program, `type_of`, `cast`.
-/
import CelloProofs.Lemmas.Disp

namespace Cello.Dispatch

theorem find_put_same : ∀ (l : List (Nat × TypeRec)) (tid : Nat) (t' : TypeRec),
    (l.any (fun p => p.1 = tid) = true) →
    (l.map (fun p => if p.1 = tid then (tid, t') else p)).find? (fun p => p.1 = tid) = some (tid, t')
  | [], _, _, h => by simp at h
  | p :: l, tid, t', h => by
    by_cases hp : p.1 = tid
    · simp [hp]
    · have hl : l.any (fun p => p.1 = tid) = true := by simpa [hp] using h
      simp [hp, find_put_same l tid t' hl]

theorem find_put_other : ∀ (l : List (Nat × TypeRec)) (tid x : Nat) (t' : TypeRec), x ≠ tid →
    (l.map (fun p => if p.1 = tid then (tid, t') else p)).find? (fun p => p.1 = x) = l.find? (fun p => p.1 = x)
  | [], _, _, _, _ => rfl
  | p :: l, tid, x, t', h => by
    by_cases hp : p.1 = tid
    · have hx : ¬ p.1 = x := fun hpx => h (hpx ▸ hp)
      have hx' : ¬ tid = x := fun e => h e.symm
      simp [hp, hx', find_put_other l tid x t' h]
    · by_cases hpx : p.1 = x
      · subst hpx; simp [hp]
      · simp [hp, hpx, find_put_other l tid x t' h]

theorem get_put_same (w : World) (tid : Nat) (t' : TypeRec) : (w.put tid t').get tid = some t' := by
  unfold World.put World.get
  by_cases ha : w.types.any (fun p => p.1 = tid) = true
  · simp only [ha, if_true]
    rw [find_put_same w.types tid t' ha]; rfl
  · simp only [ha]
    have hn : w.types.find? (fun p => decide (p.1 = tid)) = none := by
      rw [List.find?_eq_none]
      intro p hp hpt
      apply ha
      rw [List.any_eq_true]
      exact ⟨p, hp, hpt⟩
    simp [List.find?_append, hn]

theorem get_put_other (w : World) (tid x : Nat) (t' : TypeRec) (h : x ≠ tid) : (w.put tid t').get x = w.get x := by
  unfold World.put World.get
  by_cases ha : w.types.any (fun p => p.1 = tid) = true
  · simp only [ha, if_true]
    rw [find_put_other w.types tid x t' h]
  · simp only [ha]
    have hx : ¬ tid = x := fun e => h e.symm
    cases hf : w.types.find? (fun p => decide (p.1 = x)) <;> simp [List.find?_append, hf, hx]

theorem isSentinel_put (w : World) (tid : Nat) (t t' : TypeRec) (hget : w.get tid = some t)
    (hs : t'.sentinel = t.sentinel) (x : Nat) : (w.put tid t').isSentinel x = w.isSentinel x := by
  unfold World.isSentinel
  by_cases hx : x = tid
  · subst hx; rw [get_put_same, hget]; simp [hs]
  · rw [get_put_other w tid x t' hx]

theorem castW_spec (w : World) (n : Nat) (hs : SlotsOK w.slots n) (D : String → Option Inst)
    (tid ty : Nat) (t : TypeRec) (hget : w.get tid = some t) (h : Inv D w.slots n t) (castCls : Cls)
    (hm : ∀ c, D castCls.name = some c → 0 < c.members.length) :
    (castW castCls w (.obj .good tid) ty).2 =
      (match D castCls.name with
       | some c => if c.members[0]? = some true then Outcome.ok CastRes.custom
                   else if tid = ty then .ok .self
                   else .raised (thrown .ValueError [w.isSentinel tid, w.isSentinel ty])
       | none => if tid = ty then .ok .self
                 else .raised (thrown .ValueError [w.isSentinel tid, w.isSentinel ty])) := by
  have sp := instanceOf_spec hs h castCls
  have hsent := isSentinel_put w tid t (instanceOf w.slots t castCls).1 hget sp.2.2
  simp only [castW, instanceW, typeOfW, typeInstanceW, hget]
  rcases hio : instanceOf w.slots t castCls with ⟨t1, o⟩
  rw [hio] at sp hsent
  simp only at sp hsent
  obtain ⟨ho, _, _⟩ := sp
  subst ho
  cases hD : D castCls.name with
  | none =>
    simp only
    by_cases hty : tid = ty
    · simp [hty]
    · simp [hty, hsent]
  | some c =>
    have hlt := hm c hD
    have hget0 : c.members[0]? = some c.members[0] := List.getElem?_eq_getElem hlt
    simp only [memberAt, hlt, dite_true]
    cases hmem : c.members[0] with
    | true => simp [hget0, hmem]
    | false =>
      simp only [hget0, hmem]
      by_cases hty : tid = ty
      · simp [hty]
      · simp [hty, hsent]

end Cello.Dispatch
