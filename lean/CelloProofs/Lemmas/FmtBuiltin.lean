/-
  C14 helper lemmas: the built-in Show instances (Int, Float, String, Array, Tuple, List, Table, Tree, Range, Slice, Box,
  NULL, objects without a Show instance, Type objects) never take the out-of-bounds outcome and are pure — for arguments that
  are not the destination itself and do not reach it (`plainD`).
-/
import CelloProofs.Lemmas.FmtRefine
import CelloProofs.Lemmas.FmtParse
import CelloProofs.Lemmas.FmtGrammar
import CelloProofs.Lemmas.FmtPure
import CelloProofs.Lemmas.FmtShow

namespace Cello.Fmt

variable (cfg : Cfg) (prim : Prim) (shw : Obj → Out → Out × Outcome)

theorem printToWith_not_oob (hg : prim.Guarded) (hpct : '%' ∉ cfg.conv) (f : Str)
    (hp : (parseFmt cfg.conv f).isSome = true) (args : List Obj) (hs : ∀ a ∈ args, ArgSafe shw a) (o : Out) :
    (printToWith cfg prim shw f args o).pair.2 ≠ .oob := by
  obtain ⟨segs, hp⟩ := Option.isSome_iff_exists.1 hp
  obtain ⟨hr, hwf, _⟩ := parse_sound cfg.conv _ _ _ hp
  rw [← hr, printToWith_pair cfg prim shw args hpct segs hwf o]
  exact refRun_not_oob cfg prim shw hg args hs segs 0 o

theorem andThen_not_oob {f g : Out → Out × Outcome} (hf : ∀ o, (f o).2 ≠ .oob) (hg : ∀ o, (g o).2 ≠ .oob) (o : Out) :
    (andThen f g o).2 ≠ .oob := by
  unfold andThen
  have := hf o
  rcases hfo : f o with ⟨o', oc⟩
  rw [hfo] at this
  cases oc with
  | ok => exact hg o'
  | raised e => simp
  | oob => simp at this

/-- all formats of the built-in Show instances and of `show_to` -/
def ShowCfg.formats (sc : ShowCfg) : List Str :=
  [sc.intFmt, sc.fltFmt, sc.strOpen, sc.strClose, sc.strDefault, sc.arrOpen, sc.arrSep, sc.arrClose,
   sc.tupOpen, sc.tupSep, sc.tupClose, sc.lstOpen, sc.lstSep, sc.lstClose, ['%', '$'],
   sc.tblOpen, sc.tblPair, sc.tblSep, sc.tblClose, sc.treOpen, sc.trePair, sc.treSep, sc.treClose,
   sc.rngOpen, sc.rngItem, sc.rngSep, sc.rngClose, sc.slcOpen, sc.slcSep, sc.slcClose,
   sc.boxFmt, sc.nullFmt, sc.defaultFmt, ['%', 's']] ++ sc.strEsc.map (·.2)

variable (sc : ShowCfg)

theorem argSafe_nil : ∀ a ∈ ([] : List Obj), ArgSafe shw a := by simp

theorem showItems_not_oob (hg : prim.Guarded) (hpct : '%' ∉ cfg.conv) (sep : Str)
    (h1 : (parseFmt cfg.conv ['%', '$']).isSome = true) (h2 : (parseFmt cfg.conv sep).isSome = true) :
    ∀ (items : List Obj), (∀ a ∈ items, ArgSafe shw a) → ∀ (o : Out), (showItems cfg prim shw sep items o).2 ≠ .oob := by
  intro items
  induction items with
  | nil => intro _ o; simp [showItems]
  | cons a r ih =>
    intro hs o
    have ha : ∀ x ∈ [a], ArgSafe shw x := fun x hx => hs x (by simp at hx; simp [hx])
    cases r with
    | nil => exact printToWith_not_oob cfg prim shw hg hpct _ h1 _ ha o
    | cons b r =>
      simp only [showItems]
      exact andThen_not_oob (fun o => printToWith_not_oob cfg prim shw hg hpct _ h1 _ ha o)
        (fun o => andThen_not_oob (fun o => printToWith_not_oob cfg prim shw hg hpct _ h2 _ (argSafe_nil shw) o)
          (ih (fun x hx => hs x (by simp [hx]))) o) o

theorem showPairs_not_oob (hg : prim.Guarded) (hpct : '%' ∉ cfg.conv) (pair sep : Str)
    (h1 : (parseFmt cfg.conv pair).isSome = true) (h2 : (parseFmt cfg.conv sep).isSome = true) :
    ∀ (ps : List (Obj × Obj)), (∀ p ∈ ps, ArgSafe shw p.1 ∧ ArgSafe shw p.2) →
      ∀ (o : Out), (showPairs cfg prim shw pair sep ps o).2 ≠ .oob := by
  intro ps
  induction ps with
  | nil => intro _ o; simp [showPairs]
  | cons p r ih =>
    intro hs o
    obtain ⟨k, v⟩ := p
    have hp := hs (k, v) (by simp)
    have ha : ∀ x ∈ [k, v], ArgSafe shw x := by
      intro x hx
      simp at hx
      rcases hx with rfl | rfl
      · exact hp.1
      · exact hp.2
    cases r with
    | nil => exact printToWith_not_oob cfg prim shw hg hpct _ h1 _ ha o
    | cons q r =>
      simp only [showPairs]
      exact andThen_not_oob (fun o => printToWith_not_oob cfg prim shw hg hpct _ h1 _ ha o)
        (fun o => andThen_not_oob (fun o => printToWith_not_oob cfg prim shw hg hpct _ h2 _ (argSafe_nil shw) o)
          (ih (fun x hx => hs x (by simp [hx]))) o) o

theorem showInts_not_oob (hg : prim.Guarded) (hpct : '%' ∉ cfg.conv) (hi : ∀ n o, (shw (.int n) o).2 ≠ .oob) (item sep : Str)
    (h1 : (parseFmt cfg.conv item).isSome = true) (h2 : (parseFmt cfg.conv sep).isSome = true) :
    ∀ (ns : List Int) (o : Out), (showInts cfg prim shw item sep ns o).2 ≠ .oob := by
  intro ns
  have ha : ∀ n, ∀ x ∈ [Obj.int n], ArgSafe shw x := by
    intro n x hx
    simp at hx
    subst hx
    exact ⟨rfl, hi n⟩
  induction ns with
  | nil => intro o; simp [showInts]
  | cons n r ih =>
    intro o
    cases r with
    | nil => exact printToWith_not_oob cfg prim shw hg hpct _ h1 _ (ha n) o
    | cons m r =>
      simp only [showInts]
      exact andThen_not_oob (fun o => printToWith_not_oob cfg prim shw hg hpct _ h1 _ (ha n) o)
        (fun o => andThen_not_oob (fun o => printToWith_not_oob cfg prim shw hg hpct _ h2 _ (argSafe_nil shw) o) ih o) o

theorem showChars_not_oob (hg : prim.Guarded) (hpct : '%' ∉ cfg.conv) (hi : ∀ n o, (shw (.int n) o).2 ≠ .oob)
    (hf : ∀ f ∈ sc.formats, (parseFmt cfg.conv f).isSome = true) :
    ∀ (s : Str) (o : Out), (showChars cfg prim sc shw s o).2 ≠ .oob := by
  intro s
  induction s with
  | nil => intro o; simp [showChars]
  | cons c r ih =>
    intro o
    simp only [showChars]
    refine andThen_not_oob (fun o => ?_) ih o
    cases hl : sc.strEsc.lookup c with
    | none =>
      exact printToWith_not_oob cfg prim shw hg hpct _ (hf _ (by simp [ShowCfg.formats])) _ (by
        intro x hx
        simp at hx
        subst hx
        exact ⟨rfl, hi _⟩) o
    | some e =>
      have he : e ∈ sc.strEsc.map (·.2) := by
        have := List.lookup_eq_some_iff.1 hl
        obtain ⟨l1, l2, h, _⟩ := this
        rw [h]; simp
      exact printToWith_not_oob cfg prim shw hg hpct _ (hf _ (by simp only [ShowCfg.formats]; exact List.mem_append_right _ he)) _
        (argSafe_nil shw) o

/-! ### plain arguments -/

theorem plainD_not_sink : ∀ (d : Nat) (a : Obj), plainD d a = true → a.isSink = false := by
  intro d a h
  cases d with
  | zero => simpa [plainD] using h
  | succ d => cases a <;> first | rfl | (simp [plainD] at h)

theorem all_mono {α : Type} {p q : α → Bool} (h : ∀ x, p x = true → q x = true) :
    ∀ l : List α, l.all p = true → l.all q = true := by
  intro l hl
  rw [List.all_eq_true] at hl ⊢
  exact fun x hx => h x (hl x hx)

theorem plainD_mono : ∀ (d : Nat) (a : Obj), plainD (d + 1) a = true → plainD d a = true := by
  intro d
  induction d with
  | zero =>
    intro a h
    have := plainD_not_sink 1 a h
    simp [plainD, this]
  | succ d ih =>
    intro a h
    have hp : ∀ (ps : List (Obj × Obj)), (ps.all fun p => plainD (d + 1) p.1 && plainD (d + 1) p.2) = true →
        (ps.all fun p => plainD d p.1 && plainD d p.2) = true :=
      all_mono (fun p hp => by
        simp only [Bool.and_eq_true] at hp ⊢
        exact ⟨ih _ hp.1, ih _ hp.2⟩)
    cases a with
    | array xs => exact all_mono (ih) xs h
    | tuple xs => exact all_mono (ih) xs h
    | list xs => exact all_mono (ih) xs h
    | slice xs => exact all_mono (ih) xs h
    | table ps => exact hp ps h
    | tree ps => exact hp ps h
    | box x => exact ih x h
    | sink => simp [plainD] at h
    | type n => rfl
    | int v => rfl
    | flt v => rfl
    | str s => rfl
    | range ns => rfl
    | null => rfl
    | other t => rfl

theorem plainD_int (d : Nat) (n : Int) : plainD d (.int n) = true := by
  cases d <;> rfl

/-- what the proofs about the built-in Show instances need to know about the scanner configuration and the show formats
    (all of it read from the source; established for `cfgNow` / `showNow` by evaluation) -/
structure ShowFacts (cfg : Cfg) (sc : ShowCfg) : Prop where
  hpct : '%' ∉ cfg.conv
  hfs : firing cfg 's' = [.cstr]
  hfp : firing cfg 'p' = [.obj]
  wf : ∀ f ∈ sc.formats, (parseFmt cfg.conv f).isSome = true
  dflt : ∃ l1 l2 l3, parseFmt cfg.conv sc.defaultFmt = some [.lit l1, .spec [] 's', .lit l2, .spec [] 'p', .lit l3]
  /-- `Type_Show` is `return print_to(output, pos, "%s", self);` (fix 0046a69), not the OLD form that returned a length -/
  typeNow : sc.typeOff = false

theorem showD_not_oob (hg : prim.Guarded) (F : ShowFacts cfg sc) :
    ∀ (d : Nat) (a : Obj), plainD d a = true → ∀ (o : Out), (showD cfg prim sc d a o).2 ≠ .oob := by
  have hpct := F.hpct
  have hf := F.wf
  intro d
  induction d with
  | zero => intro a _ o; simp [showD]
  | succ d ih =>
    intro a hpl o
    have safe : ∀ x, plainD d x = true → ArgSafe (fun x o => showD cfg prim sc d x o) x :=
      fun x hx => ⟨plainD_not_sink d x hx, ih x hx⟩
    have hself : ArgSafe (fun x o => showD cfg prim sc d x o) a := safe a (plainD_mono d a hpl)
    have one : ∀ x, ArgSafe (fun x o => showD cfg prim sc d x o) x → ∀ y ∈ [x], ArgSafe (fun x o => showD cfg prim sc d x o) y := by
      intro x hx y hy; simp at hy; subst hy; exact hx
    have hi : ∀ n o, (showD cfg prim sc d (.int n) o).2 ≠ .oob := fun n => ih _ (plainD_int d n)
    have P : ∀ f ∈ sc.formats, ∀ args, (∀ y ∈ args, ArgSafe (fun x o => showD cfg prim sc d x o) y) → ∀ o,
        (printToWith cfg prim (fun x o => showD cfg prim sc d x o) f args o).pair.2 ≠ .oob :=
      fun f hm args ha o => printToWith_not_oob cfg prim _ hg hpct f (hf f hm) args ha o
    have I : ∀ sep ∈ sc.formats, ∀ items, (items.all (plainD d)) = true → ∀ o,
        (showItems cfg prim (fun x o => showD cfg prim sc d x o) sep items o).2 ≠ .oob :=
      fun sep hm items hit o => showItems_not_oob cfg prim _ hg hpct sep (hf _ (by simp [ShowCfg.formats])) (hf sep hm) items
        (fun x hx => safe x (List.all_eq_true.1 hit x hx)) o
    have Q : ∀ pair ∈ sc.formats, ∀ sep ∈ sc.formats, ∀ ps : List (Obj × Obj),
        (ps.all fun p => plainD d p.1 && plainD d p.2) = true → ∀ o,
        (showPairs cfg prim (fun x o => showD cfg prim sc d x o) pair sep ps o).2 ≠ .oob :=
      fun pair hm sep hm2 ps hps o => showPairs_not_oob cfg prim _ hg hpct pair sep (hf pair hm) (hf sep hm2) ps
        (fun p hp => by
          have := List.all_eq_true.1 hps p hp
          simp only [Bool.and_eq_true] at this
          exact ⟨safe _ this.1, safe _ this.2⟩) o
    cases a with
    | int v => simpa [showD] using P sc.intFmt (by simp [ShowCfg.formats]) _ (one _ hself) o
    | flt v => simpa [showD] using P sc.fltFmt (by simp [ShowCfg.formats]) _ (one _ hself) o
    | str s =>
      simp only [showD]
      exact andThen_not_oob (fun o => P sc.strOpen (by simp [ShowCfg.formats]) _ (one _ hself) o)
        (fun o => andThen_not_oob (fun o => showChars_not_oob cfg prim _ sc hg hpct hi hf s o)
          (fun o => P sc.strClose (by simp [ShowCfg.formats]) _ (one _ hself) o) o) o
    | array items =>
      simp only [showD]
      exact andThen_not_oob (fun o => P sc.arrOpen (by simp [ShowCfg.formats]) _ (one _ hself) o)
        (fun o => andThen_not_oob (fun o => I sc.arrSep (by simp [ShowCfg.formats]) items hpl o)
          (fun o => P sc.arrClose (by simp [ShowCfg.formats]) _ (argSafe_nil _) o) o) o
    | tuple items =>
      simp only [showD]
      exact andThen_not_oob (fun o => P sc.tupOpen (by simp [ShowCfg.formats]) _ (one _ hself) o)
        (fun o => andThen_not_oob (fun o => I sc.tupSep (by simp [ShowCfg.formats]) items hpl o)
          (fun o => P sc.tupClose (by simp [ShowCfg.formats]) _ (argSafe_nil _) o) o) o
    | list items =>
      simp only [showD]
      exact andThen_not_oob (fun o => P sc.lstOpen (by simp [ShowCfg.formats]) _ (one _ hself) o)
        (fun o => andThen_not_oob (fun o => I sc.lstSep (by simp [ShowCfg.formats]) items hpl o)
          (fun o => P sc.lstClose (by simp [ShowCfg.formats]) _ (argSafe_nil _) o) o) o
    | slice items =>
      simp only [showD]
      exact andThen_not_oob (fun o => P sc.slcOpen (by simp [ShowCfg.formats]) _ (one _ hself) o)
        (fun o => andThen_not_oob (fun o => I sc.slcSep (by simp [ShowCfg.formats]) items hpl o)
          (fun o => P sc.slcClose (by simp [ShowCfg.formats]) _ (argSafe_nil _) o) o) o
    | table ps =>
      simp only [showD]
      exact andThen_not_oob (fun o => P sc.tblOpen (by simp [ShowCfg.formats]) _ (one _ hself) o)
        (fun o => andThen_not_oob (fun o => Q sc.tblPair (by simp [ShowCfg.formats]) sc.tblSep (by simp [ShowCfg.formats]) ps hpl o)
          (fun o => P sc.tblClose (by simp [ShowCfg.formats]) _ (argSafe_nil _) o) o) o
    | tree ps =>
      simp only [showD]
      exact andThen_not_oob (fun o => P sc.treOpen (by simp [ShowCfg.formats]) _ (one _ hself) o)
        (fun o => andThen_not_oob (fun o => Q sc.trePair (by simp [ShowCfg.formats]) sc.treSep (by simp [ShowCfg.formats]) ps hpl o)
          (fun o => P sc.treClose (by simp [ShowCfg.formats]) _ (argSafe_nil _) o) o) o
    | range ns =>
      simp only [showD]
      exact andThen_not_oob (fun o => P sc.rngOpen (by simp [ShowCfg.formats]) _ (one _ hself) o)
        (fun o => andThen_not_oob (fun o => showInts_not_oob cfg prim _ hg hpct hi _ _ (hf _ (by simp [ShowCfg.formats]))
            (hf _ (by simp [ShowCfg.formats])) ns o)
          (fun o => P sc.rngClose (by simp [ShowCfg.formats]) _ (argSafe_nil _) o) o) o
    | box x =>
      simp only [showD]
      refine P sc.boxFmt (by simp [ShowCfg.formats]) _ ?_ o
      intro y hy
      simp at hy
      rcases hy with rfl | rfl
      · exact hself
      · exact safe _ hpl
    | null => simpa [showD] using P sc.nullFmt (by simp [ShowCfg.formats]) _ (argSafe_nil _) o
    | other t =>
      obtain ⟨l1, l2, l3, hd⟩ := F.dflt
      simp only [showD]
      rw [print_default cfg prim _ hpct F.hfs F.hfp _ l1 l2 l3 hd]
      exact andThen_not_oob (fun o => call_not_oob prim hg _ _ _) (fun o => andThen_not_oob (fun o => call_not_oob prim hg _ _ _)
        (fun o => andThen_not_oob (fun o => call_not_oob prim hg _ _ _) (fun o => andThen_not_oob (fun o => call_not_oob prim hg _ _ _)
          (fun o => call_not_oob prim hg _ _ _) o) o) o) o
    | type n =>
      simp only [showD, F.typeNow, Bool.false_eq_true, if_false]
      exact P ['%', 's'] (by simp [ShowCfg.formats]) _ (one _ hself) o
    | sink => simp [plainD] at hpl

theorem showD_pure (hg : prim.Guarded) (F : ShowFacts cfg sc) :
    ∀ (d : Nat) (a : Obj), plainD d a = true → Pure prim (showD cfg prim sc d a) := by
  have hpct := F.hpct
  intro d
  induction d with
  | zero => intro a _; exact ⟨[], .raised .Fuel, fun o => by simp [showD, emitAll]⟩
  | succ d ih =>
    intro a hpl
    have safe : ∀ x, plainD d x = true → ArgPure prim (fun x o => showD cfg prim sc d x o) x :=
      fun x hx => ⟨plainD_not_sink d x hx, ih x hx⟩
    have hself : ArgPure prim (fun x o => showD cfg prim sc d x o) a := safe a (plainD_mono d a hpl)
    have one : ∀ x, ArgPure prim (fun x o => showD cfg prim sc d x o) x →
        ∀ y ∈ [x], ArgPure prim (fun x o => showD cfg prim sc d x o) y := by
      intro x hx y hy; simp at hy; subst hy; exact hx
    have nil : ∀ y ∈ ([] : List Obj), ArgPure prim (fun x o => showD cfg prim sc d x o) y := by simp
    have hi : ∀ n, Pure prim (showD cfg prim sc d (.int n)) := fun n => ih _ (plainD_int d n)
    have P := fun f args ha => printToWith_pure prim cfg (fun x o => showD cfg prim sc d x o) hg f args ha
    have I : ∀ sep items, (items.all (plainD d)) = true →
        Pure prim (showItems cfg prim (fun x o => showD cfg prim sc d x o) sep items) :=
      fun sep items hit => showItems_pure prim cfg _ hg sep items (fun x hx => safe x (List.all_eq_true.1 hit x hx))
    have Q : ∀ pair sep (ps : List (Obj × Obj)), (ps.all fun p => plainD d p.1 && plainD d p.2) = true →
        Pure prim (showPairs cfg prim (fun x o => showD cfg prim sc d x o) pair sep ps) :=
      fun pair sep ps hps => showPairs_pure prim cfg _ hg pair sep ps (fun p hp => by
        have := List.all_eq_true.1 hps p hp
        simp only [Bool.and_eq_true] at this
        exact ⟨safe _ this.1, safe _ this.2⟩)
    cases a with
    | int v => simpa [showD] using P sc.intFmt _ (one _ hself)
    | flt v => simpa [showD] using P sc.fltFmt _ (one _ hself)
    | str s =>
      simp only [showD]
      exact pure_andThen prim (P _ _ (one _ hself))
        (pure_andThen prim (showChars_pure prim cfg _ sc hg hi s) (P _ _ (one _ hself)))
    | array items =>
      simp only [showD]
      exact pure_andThen prim (P _ _ (one _ hself)) (pure_andThen prim (I _ items hpl) (P _ _ nil))
    | tuple items =>
      simp only [showD]
      exact pure_andThen prim (P _ _ (one _ hself)) (pure_andThen prim (I _ items hpl) (P _ _ nil))
    | list items =>
      simp only [showD]
      exact pure_andThen prim (P _ _ (one _ hself)) (pure_andThen prim (I _ items hpl) (P _ _ nil))
    | slice items =>
      simp only [showD]
      exact pure_andThen prim (P _ _ (one _ hself)) (pure_andThen prim (I _ items hpl) (P _ _ nil))
    | table ps =>
      simp only [showD]
      exact pure_andThen prim (P _ _ (one _ hself)) (pure_andThen prim (Q _ _ ps hpl) (P _ _ nil))
    | tree ps =>
      simp only [showD]
      exact pure_andThen prim (P _ _ (one _ hself)) (pure_andThen prim (Q _ _ ps hpl) (P _ _ nil))
    | range ns =>
      simp only [showD]
      exact pure_andThen prim (P _ _ (one _ hself)) (pure_andThen prim (showInts_pure prim cfg _ hg hi _ _ ns) (P _ _ nil))
    | box x =>
      simp only [showD]
      refine P sc.boxFmt _ ?_
      intro y hy
      simp at hy
      rcases hy with rfl | rfl
      · exact hself
      · exact safe _ hpl
    | null => simpa [showD] using P sc.nullFmt _ nil
    | other t =>
      obtain ⟨l1, l2, l3, hd⟩ := F.dflt
      have : showD cfg prim sc (d + 1) (.other t) = _ :=
        funext (print_default cfg prim (fun x o => showD cfg prim sc d x o) hpct F.hfs F.hfp _ l1 l2 l3 hd t (.other t))
      rw [this]
      exact pure_andThen prim (call_pure prim hg _ _) (pure_andThen prim (call_pure prim hg _ _)
        (pure_andThen prim (call_pure prim hg _ _) (pure_andThen prim (call_pure prim hg _ _) (call_pure prim hg _ _))))
    | type n =>
      have : showD cfg prim sc (d + 1) (.type n) =
          fun o => (printToWith cfg prim (fun x o => showD cfg prim sc d x o) ['%', 's'] [.type n] o).pair := by
        funext o
        simp only [showD, F.typeNow, Bool.false_eq_true, if_false]
      rw [this]
      exact P ['%', 's'] _ (one _ hself)
    | sink => simp [plainD] at hpl

end Cello.Fmt
