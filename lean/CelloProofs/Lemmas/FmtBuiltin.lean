/-
  C14 helper lemmas: the built-in Show instances never take the out-of-bounds outcome (all their formats are well-formed).
-/
import CelloProofs.Lemmas.FmtRefine
import CelloProofs.Lemmas.FmtParse
import CelloProofs.Lemmas.FmtGrammar

namespace Cello.Fmt

variable (cfg : Cfg) (prim : Prim) (shw : Obj → Out → Out × Outcome)

theorem printToWith_not_oob (hg : prim.Guarded) (hpct : '%' ∉ cfg.conv) (hs : ∀ a o, (shw a o).2 ≠ .oob) (f : Str)
    (hp : (parseFmt cfg.conv f).isSome = true) (args : List Obj) (o : Out) :
    (printToWith cfg prim shw f args o).pair.2 ≠ .oob := by
  obtain ⟨segs, hp⟩ := Option.isSome_iff_exists.1 hp
  obtain ⟨hr, hwf, _⟩ := parse_sound cfg.conv _ _ _ hp
  rw [← hr, printToWith_pair cfg prim shw args hpct segs hwf o]
  exact refRun_not_oob cfg prim shw hg hs args segs 0 o

theorem andThen_not_oob {f g : Out → Out × Outcome} (hf : ∀ o, (f o).2 ≠ .oob) (hg : ∀ o, (g o).2 ≠ .oob) (o : Out) :
    (andThen f g o).2 ≠ .oob := by
  unfold andThen
  have := hf o
  rcases hfo : f o with ⟨o', oc⟩
  rw [hfo] at this
  cases oc with
  | ok => exact hg o'
  | raised e => simp
  | oob => simp at this

/-- all formats of the built-in Show instances -/
def ShowCfg.formats (sc : ShowCfg) : List Str :=
  [sc.intFmt, sc.fltFmt, sc.strOpen, sc.strClose, sc.strDefault, sc.arrOpen, sc.arrSep, sc.arrClose,
   sc.tupOpen, sc.tupSep, sc.tupClose, sc.lstOpen, sc.lstSep, sc.lstClose, ['%', '$']] ++ sc.strEsc.map (·.2)

variable (sc : ShowCfg)

theorem showItems_not_oob (hg : prim.Guarded) (hpct : '%' ∉ cfg.conv) (hs : ∀ a o, (shw a o).2 ≠ .oob) (sep : Str)
    (h1 : (parseFmt cfg.conv ['%', '$']).isSome = true) (h2 : (parseFmt cfg.conv sep).isSome = true) :
    ∀ (items : List Obj) (o : Out), (showItems cfg prim shw sep items o).2 ≠ .oob := by
  intro items
  induction items with
  | nil => intro o; simp [showItems]
  | cons a r ih =>
    intro o
    cases r with
    | nil => exact printToWith_not_oob cfg prim shw hg hpct hs _ h1 _ o
    | cons b r =>
      simp only [showItems]
      exact andThen_not_oob (fun o => printToWith_not_oob cfg prim shw hg hpct hs _ h1 _ o)
        (fun o => andThen_not_oob (fun o => printToWith_not_oob cfg prim shw hg hpct hs _ h2 _ o) ih o) o

theorem showChars_not_oob (hg : prim.Guarded) (hpct : '%' ∉ cfg.conv) (hs : ∀ a o, (shw a o).2 ≠ .oob)
    (hf : ∀ f ∈ sc.formats, (parseFmt cfg.conv f).isSome = true) :
    ∀ (s : Str) (o : Out), (showChars cfg prim sc shw s o).2 ≠ .oob := by
  intro s
  induction s with
  | nil => intro o; simp [showChars]
  | cons c r ih =>
    intro o
    simp only [showChars]
    refine andThen_not_oob (fun o => ?_) ih o
    cases hl : sc.strEsc.lookup c with
    | none => exact printToWith_not_oob cfg prim shw hg hpct hs _ (hf _ (by simp [ShowCfg.formats])) _ o
    | some e =>
      have he : e ∈ sc.strEsc.map (·.2) := by
        have := List.lookup_eq_some_iff.1 hl
        obtain ⟨l1, l2, h, _⟩ := this
        rw [h]; simp
      exact printToWith_not_oob cfg prim shw hg hpct hs _ (hf _ (by simp only [ShowCfg.formats]; exact List.mem_append_right _ he)) _ o

theorem showD_not_oob (hg : prim.Guarded) (hpct : '%' ∉ cfg.conv) (hf : ∀ f ∈ sc.formats, (parseFmt cfg.conv f).isSome = true) :
    ∀ (d : Nat) (a : Obj) (o : Out), (showD cfg prim sc d a o).2 ≠ .oob := by
  intro d
  induction d with
  | zero => intro a o; simp [showD]
  | succ d ih =>
    intro a o
    have hs : ∀ x o, ((fun x o => showD cfg prim sc d x o) x o).2 ≠ .oob := ih
    have P : ∀ f ∈ sc.formats, ∀ args o, (printToWith cfg prim (fun x o => showD cfg prim sc d x o) f args o).pair.2 ≠ .oob :=
      fun f hm args o => printToWith_not_oob cfg prim _ hg hpct hs f (hf f hm) args o
    have I : ∀ sep ∈ sc.formats, ∀ items o, (showItems cfg prim (fun x o => showD cfg prim sc d x o) sep items o).2 ≠ .oob :=
      fun sep hm items o => showItems_not_oob cfg prim _ hg hpct hs sep (hf _ (by simp [ShowCfg.formats])) (hf sep hm) items o
    cases a with
    | int v => simpa [showD] using P sc.intFmt (by simp [ShowCfg.formats]) _ o
    | flt v => simpa [showD] using P sc.fltFmt (by simp [ShowCfg.formats]) _ o
    | str s =>
      simp only [showD]
      exact andThen_not_oob (fun o => P sc.strOpen (by simp [ShowCfg.formats]) _ o)
        (fun o => andThen_not_oob (fun o => showChars_not_oob cfg prim _ sc hg hpct hs hf s o)
          (fun o => P sc.strClose (by simp [ShowCfg.formats]) _ o) o) o
    | array items =>
      simp only [showD]
      exact andThen_not_oob (fun o => P sc.arrOpen (by simp [ShowCfg.formats]) _ o)
        (fun o => andThen_not_oob (fun o => I sc.arrSep (by simp [ShowCfg.formats]) items o)
          (fun o => P sc.arrClose (by simp [ShowCfg.formats]) _ o) o) o
    | tuple items =>
      simp only [showD]
      exact andThen_not_oob (fun o => P sc.tupOpen (by simp [ShowCfg.formats]) _ o)
        (fun o => andThen_not_oob (fun o => I sc.tupSep (by simp [ShowCfg.formats]) items o)
          (fun o => P sc.tupClose (by simp [ShowCfg.formats]) _ o) o) o
    | list items =>
      simp only [showD]
      exact andThen_not_oob (fun o => P sc.lstOpen (by simp [ShowCfg.formats]) _ o)
        (fun o => andThen_not_oob (fun o => I sc.lstSep (by simp [ShowCfg.formats]) items o)
          (fun o => P sc.lstClose (by simp [ShowCfg.formats]) _ o) o) o

end Cello.Fmt
