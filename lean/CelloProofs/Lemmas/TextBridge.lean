/-
  Lemmas for C15 (engine `text`): the bridge to C14's model of `print_to_with` (Cello/Fmt.lean).
  C15 cuts a format with `Text.segmentF` (byte lists); C14 proves what `print_to_with` does (`Fmt.loop`, index-based, with
  `fmt_buf`) about formats given by the grammar `Fmt.wfSegs` / the parser `Fmt.parseFmt` (character lists).  Here: the format a
  list of C15 items renders is, character by character, the rendering of a well-formed C14 segmentation — the same segments.
-/
import CelloProofs.Lemmas.TextFmt
import CelloProofs.Lemmas.FmtParse
import CelloProofs.Lemmas.FmtNow

namespace Cello.Text

/-- bytes as the characters C14's model works with -/
def toStr (l : List Nat) : Cello.Fmt.Str := l.map Char.ofNat

/-- the segment of C14's grammar (`Cello.Fmt.Seg`) that an item of this model is -/
def Item.fmtSeg (it : Item) : Cello.Fmt.Seg :=
  match it.parts with
  | some (mods, cb) => .spec (toStr mods) (Char.ofNat cb)
  | none => match it with
    | .lit t => .lit (toStr t)
    | _ => .pct

theorem toNat_ofNat_byte (b : Nat) (hb : b < 256) : (Char.ofNat b).toNat = b := by
  have h : b.isValidChar := Or.inl (by omega)
  simp only [Char.ofNat, h, dite_true]
  simp [Char.ofNatAux, Char.toNat]

theorem ofNat_ne_of_ne (b c : Nat) (hb : b < 256) (hc : c < 256) (h : b ≠ c) : Char.ofNat b ≠ Char.ofNat c := by
  intro he
  have := congrArg Char.toNat he
  rw [toNat_ofNat_byte b hb, toNat_ofNat_byte c hc] at this
  exact h this

/-- segment by segment the same text -/
theorem fmtSeg_text (it : Item) : it.fmtSeg.text = toStr it.fmt := by
  cases hp : it.parts with
  | some mc =>
    obtain ⟨mods, cb⟩ := mc
    obtain ⟨hfmt, _, _, _⟩ := parts_spec it mods cb hp
    simp [Item.fmtSeg, hp, hfmt, Cello.Fmt.Seg.text, toStr]
  | none =>
    rcases parts_none it hp with ⟨t, rfl⟩ | rfl
    · simp [Item.fmtSeg, Item.parts, Item.fmt, Cello.Fmt.Seg.text, toStr]
    · simp [Item.fmtSeg, Item.parts, Item.fmt, Cello.Fmt.Seg.text, toStr]

/-- the two models cut the same text: rendering C14's segments gives the characters of the format C15's items render -/
theorem bridge_render (its : List Item) : Cello.Fmt.render (its.map Item.fmtSeg) = toStr (its.flatMap Item.fmt) := by
  induction its with
  | nil => rfl
  | cons it its ih =>
    have hstep : Cello.Fmt.render (it.fmtSeg :: its.map Item.fmtSeg) = it.fmtSeg.text ++ Cello.Fmt.render (its.map Item.fmtSeg) := by
      simp [Cello.Fmt.render]
    simp only [List.map_cons, hstep, ih, List.flatMap_cons, toStr, List.map_append]
    congr 1
    cases hp : it.parts with
    | some mc =>
      obtain ⟨mods, cb⟩ := mc
      obtain ⟨hfmt, _, _, _⟩ := parts_spec it mods cb hp
      simp [Item.fmtSeg, hp, hfmt, Cello.Fmt.Seg.text, toStr]
    | none =>
      rcases parts_none it hp with ⟨t, rfl⟩ | rfl
      · simp [Item.fmtSeg, Item.parts, Item.fmt, Cello.Fmt.Seg.text, toStr]
      · simp [Item.fmtSeg, Item.parts, Item.fmt, Cello.Fmt.Seg.text]


/-- what the bridge needs of the conversion set C14's theorems are stated over (`cfgNow.conv`, the characters extracted from
    `print_to_with`): it contains the conversion characters of this model's specifications and none of the modifier characters -/
def bridgeOK (conv : Cello.Fmt.Str) : Bool :=
  convChars.all (fun b => decide (Char.ofNat b ∈ conv) && Char.ofNat b != Cello.Fmt.NUL) &&
  modChars.all (fun b => decide (Char.ofNat b ∉ conv) && Char.ofNat b != Cello.Fmt.NUL && Char.ofNat b != '%') &&
  decide ('%' ∉ conv)

theorem fmtSeg_wf (conv : Cello.Fmt.Str) (hB : bridgeOK conv = true) (it : Item)
    (hb : ∀ t, it = .lit t → t ≠ [] ∧ ∀ b ∈ t, b ≠ 0 ∧ b ≠ 37 ∧ b < 256) : it.fmtSeg.wf conv = true := by
  simp only [bridgeOK, Bool.and_eq_true, List.all_eq_true, decide_eq_true_eq, bne_iff_ne, ne_eq] at hB
  obtain ⟨⟨hc, hm⟩, _⟩ := hB
  cases hp : it.parts with
  | some mc =>
    obtain ⟨mods, cb⟩ := mc
    obtain ⟨_, _, hmods, hcb⟩ := parts_spec it mods cb hp
    simp only [Item.fmtSeg, hp, Cello.Fmt.Seg.wf, Bool.and_eq_true, decide_eq_true_eq, ne_eq, List.all_eq_true, toStr,
      List.mem_map, forall_exists_index, and_imp, forall_apply_eq_imp_iff₂]
    refine ⟨⟨⟨(hc cb hcb).1, (hc cb hcb).2⟩, fun b hbm => ⟨(hm b (hmods b hbm)).1.1, (hm b (hmods b hbm)).1.2⟩⟩, ?_⟩
    cases mods with
    | nil => simp
    | cons a t =>
      have := (hm a (hmods a List.mem_cons_self)).2
      simp [this]
  | none =>
    rcases parts_none it hp with ⟨t, rfl⟩ | rfl
    · obtain ⟨hne, hbs⟩ := hb t rfl
      simp only [Item.fmtSeg, Item.parts, Cello.Fmt.Seg.wf, Bool.and_eq_true, Bool.not_eq_true', List.isEmpty_eq_false_iff,
        List.all_eq_true, toStr, List.mem_map, forall_exists_index, and_imp, forall_apply_eq_imp_iff₂, ne_eq]
      refine ⟨by simpa using hne, fun b hbt => ?_⟩
      obtain ⟨h0, h37, h256⟩ := hbs b hbt
      have e0 : Char.ofNat b ≠ Cello.Fmt.NUL := ofNat_ne_of_ne b 0 h256 (by omega) h0
      have e1 : Char.ofNat b ≠ '%' := ofNat_ne_of_ne b 37 h256 (by omega) h37
      simp [e0, e1]
    · simp [Item.fmtSeg, Item.parts, Cello.Fmt.Seg.wf]

theorem fmtSeg_isLit (it : Item) : it.fmtSeg.isLit = true ↔ ∃ t, it = .lit t := by
  cases it <;> simp [Item.fmtSeg, Item.parts, Cello.Fmt.Seg.isLit]

/-- **the bridge**: a sequence of items that meets `fmtOK`, with separators of bytes 1…255, is a well-formed segmentation in the
    sense of C14's grammar -/
theorem bridge_wf (conv : Cello.Fmt.Str) (hB : bridgeOK conv = true) (its : List Item) (hf : fmtOK its = true)
    (hb : ∀ t, Item.lit t ∈ its → ∀ b ∈ t, b ≠ 0 ∧ b < 256) : Cello.Fmt.wfSegs conv (its.map Item.fmtSeg) = true := by
  induction its with
  | nil => rfl
  | cons it its ih =>
    have hf' : fmtOK its = true := by
      cases it <;> simp only [fmtOK, Bool.and_eq_true] at hf <;> first | exact hf | exact hf.2
    apply Cello.Fmt.wfSegs_mk
    · apply fmtSeg_wf conv hB it
      intro t ht; subst ht
      simp only [fmtOK, Bool.and_eq_true, Bool.not_eq_true', List.isEmpty_eq_false_iff, List.all_eq_true, bne_iff_ne, ne_eq] at hf
      refine ⟨hf.1.1.1, fun b hbt => ?_⟩
      have := hb t List.mem_cons_self b hbt
      exact ⟨this.1, hf.1.1.2 b hbt, this.2⟩
    · exact ih hf' (fun t ht => hb t (List.mem_cons_of_mem _ ht))
    · intro hl s hs
      obtain ⟨t, rfl⟩ := (fmtSeg_isLit it).1 hl
      cases its with
      | nil => simp at hs
      | cons it2 its2 =>
        simp only [List.map_cons, List.head?_cons, Option.mem_def, Option.some.injEq] at hs
        subst hs
        cases h2 : it2.fmtSeg.isLit with
        | false => rfl
        | true =>
          obtain ⟨t2, rfl⟩ := (fmtSeg_isLit it2).1 h2
          simp [fmtOK] at hf

/-- … so C14's parser returns exactly these segments for the format text -/
theorem bridge_parse (conv : Cello.Fmt.Str) (hB : bridgeOK conv = true) (its : List Item) (hf : fmtOK its = true)
    (hb : ∀ t, Item.lit t ∈ its → ∀ b ∈ t, b ≠ 0 ∧ b < 256) :
    Cello.Fmt.parseFmt conv (toStr (its.flatMap Item.fmt)) = some (its.map Item.fmtSeg) := by
  have hwf := bridge_wf conv hB its hf hb
  have hpct : '%' ∉ conv := by
    simp only [bridgeOK, Bool.and_eq_true, decide_eq_true_eq] at hB; exact hB.2
  rw [← bridge_render]
  unfold Cello.Fmt.parseFmt
  apply Cello.Fmt.parse_render conv hpct _ hwf
  have := Cello.Fmt.length_le_render (its.map Item.fmtSeg) hwf
  omega

end Cello.Text
