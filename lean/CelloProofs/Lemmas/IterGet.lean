/- helper lemmas for C11: what `get` does to a walk in progress (`getSt`), `get` at negative indices (`GetFullAs`), and a Zip
   that holds ONE object several times (`zipSameI`) -/
import Cello.IterExpr
import CelloProofs.Lemmas.IterViews
import CelloProofs.Lemmas.IterSlice
import CelloProofs.Lemmas.IterDir

namespace Cello.Iter

variable {σ α β : Type}

/-! ### a loop body that calls `get` -/

theorem runFuelG_of_pure (step : σ → σ × Res α) (gst : σ → Int → σ) (body : Nat → Option Int) (hp : ∀ s k, gst s k = s) :
    ∀ (n i : Nat) (r : σ × Res α), runFuelG step gst body n i r = runFuel step n r
  | 0, _, _ => rfl
  | n + 1, i, (s, .item a) => by
    simp only [runFuelG, runFuel]
    cases body i <;> simp only [hp, runFuelG_of_pure step gst body hp n (i + 1)]
  | _ + 1, _, (_, .term) => rfl
  | _ + 1, _, (_, .undef) => rfl
  | _ + 1, _, (_, .hang) => rfl

theorem runFuelG_of_none (step : σ → σ × Res α) (gst : σ → Int → σ) (body : Nat → Option Int) (hb : ∀ i, body i = none) :
    ∀ (n i : Nat) (r : σ × Res α), runFuelG step gst body n i r = runFuel step n r
  | 0, _, _ => rfl
  | n + 1, i, (s, .item a) => by
    simp only [runFuelG, runFuel, hb i, runFuelG_of_none step gst body hb n (i + 1)]
  | _ + 1, _, (_, .term) => rfl
  | _ + 1, _, (_, .undef) => rfl
  | _ + 1, _, (_, .hang) => rfl

theorem forwardWith_of_pure (I : Iterable α) (hp : GetPure I) (body : Nat → Option Int) (fuel : Nat) :
    I.forwardWith body fuel = I.forward fuel :=
  runFuelG_of_pure I.next I.getSt body hp fuel 0 _

theorem forwardWith_of_none (I : Iterable α) (body : Nat → Option Int) (hb : ∀ i, body i = none) (fuel : Nat) :
    I.forwardWith body fuel = I.forward fuel :=
  runFuelG_of_none I.next I.getSt body hb fuel 0 _

theorem array_getPure (l : List α) : GetPure (arrayI l) := fun _ _ => rfl
theorem list_getPure (l : List α) : GetPure (listI l) := fun _ _ => rfl
theorem tuple_getPure (ids : List Nat) : GetPure (tupleI ids) := fun _ _ => rfl
theorem table_getPure (slots : List (Option α)) : GetPure (tableI slots) := fun _ _ => rfl
theorem tree_getPure (t : T α) : GetPure (treeI t) := fun _ _ => rfl
theorem filter_getPure (I : Iterable α) (p : α → Bool) (fuel : Nat) : GetPure (filterI I p fuel) := fun _ _ => rfl
theorem emb_getPure (I : Iterable α) (f : α → β) (h : GetPure I) : GetPure (embI I f) := fun s k => h s k
theorem slice_getPure (I : Iterable α) (n : Nat) (a b c : Int) (h : GetPure I) : GetPure (sliceI I n a b c) := by
  intro s k
  show (match rangeGet a b c k with | some i => I.getSt s i | none => s) = s
  cases rangeGet a b c k with
  | none => rfl
  | some i => exact h s i

/-- the expressions whose object leaves a walk alone when `get` is called on it: the containers, and Slice / Filter over
    them (Filter has no Get instance at all).  NOT Range, Map, Zip, enumerate. -/
def Expr.getPure : Expr → Bool
  | .range _ => false
  | .zip _ => false
  | .enum _ => false
  | .map _ _ _ => false
  | .slice e _ => e.getPure
  | _ => true

theorem denote_getPure : ∀ (e : Expr) (I : Iterable Val), e.getPure = true → denote e = .ok I → GetPure I
  | .array vs, I, _, h => by simp only [denote, Except.ok.injEq] at h; subst h; exact array_getPure _
  | .list vs, I, _, h => by simp only [denote, Except.ok.injEq] at h; subst h; exact list_getPure _
  | .tuple ids, I, _, h => by simp only [denote, Except.ok.injEq] at h; subst h; exact emb_getPure _ _ (tuple_getPure _)
  | .table slots, I, _, h => by simp only [denote, Except.ok.injEq] at h; subst h; exact table_getPure _
  | .tree t, I, _, h => by simp only [denote, Except.ok.injEq] at h; subst h; exact emb_getPure _ _ (tree_getPure _)
  | .rtree ks, I, _, h => by simp only [denote, Except.ok.injEq] at h; subst h; exact emb_getPure _ _ (tree_getPure _)
  | .range _, _, hp, _ => by simp [Expr.getPure] at hp
  | .zip _, _, hp, _ => by simp [Expr.getPure] at hp
  | .enum _, _, hp, _ => by simp [Expr.getPure] at hp
  | .map _ _ _, _, hp, _ => by simp [Expr.getPure] at hp
  | .slice e args, I, hp, h => by
    simp only [denote] at h
    cases hd : denote e with
    | error m => simp [hd] at h
    | ok I0 =>
      have ih := denote_getPure e I0 (by simpa [Expr.getPure] using hp) hd
      simp only [hd] at h
      cases hl : I0.len with
      | none => simp [hl] at h
      | some n =>
        simp only [hl] at h
        cases hs : sliceStack n args with
        | none => simp [hs] at h
        | some abc =>
          obtain ⟨a, b, c⟩ := abc
          simp only [hs, Except.ok.injEq] at h; subst h
          exact slice_getPure I0 n a b c ih
  | .filter e m r, I, _, h => by
    simp only [denote] at h
    cases hd : denote e with
    | error m => simp [hd] at h
    | ok I0 => simp only [hd, Except.ok.injEq] at h; subst h; exact filter_getPure _ _ _
  | .mlist init ops, I, _, h => by
    simp only [denote] at h
    cases hm : mlistOf init ops with
    | none => simp [hm] at h
    | some l => simp only [hm, Except.ok.injEq] at h; subst h; exact fun _ _ => rfl
  | .marray init ops, I, _, h => by
    simp only [denote] at h
    cases hm : marrayOf init ops with
    | none => simp [hm] at h
    | some l => simp only [hm, Except.ok.injEq] at h; subst h; exact fun _ _ => rfl
  | .mtable init ops, I, _, h => by
    simp only [denote] at h
    cases hm : mtableOf init ops with
    | none => simp [hm] at h
    | some l => simp only [hm, Except.ok.injEq] at h; subst h; exact fun _ _ => rfl
  | .mtree init ops, I, _, h => by simp only [denote, Except.ok.injEq] at h; subst h; exact fun _ _ => rfl

/-! ### one object several times in a Zip -/

theorem all2_replicate {γ δ : Type _} {R : γ → δ → Prop} {a : γ} {b : δ} (h : R a b) :
    ∀ k, All₂ R (List.replicate k a) (List.replicate k b)
  | 0 => All₂.nil
  | k + 1 => All₂.cons h (all2_replicate h k)

theorem zipSame_of_cursor_held (I : Iterable α) (h : I.inObject = false) (k : Nat) :
    zipSameI I k = zipI (List.replicate k I) := by
  simp [zipSameI, h]

theorem zipSame_fwdAs (I : Iterable α) (h : I.inObject = false) (k : Nat) (hk : 0 < k) {l : List α} (hf : FwdAs I l) :
    FwdAs (zipSameI I k) (zipLists (List.replicate k l)) := by
  rw [zipSame_of_cursor_held I h k]
  refine zip_fwdAs _ _ ?_ (all2_replicate hf k)
  intro e
  have := congrArg List.length e
  simp at this; omega

/-! ### `get` at every index -/

/-- `get` agrees with the sequence at EVERY index: negative = from the end, outside `[-len, len)` = IndexOutOfBoundsError -/
def GetFullAs (I : Iterable α) (l : List α) : Prop := ∀ g, I.get = some g → ∀ k : Int, g k = getIdx l k

theorem getIdx_eq_norm (l : List α) (k : Int) : getIdx l k = (normIdx l.length k).bind (fun i => l[i]?) := by
  simp only [getIdx, normIdx]
  generalize (if k < 0 then (l.length : Int) + k else k) = j
  by_cases h : j < 0 ∨ j ≥ (l.length : Int)
  · rw [if_pos h, if_pos h]; rfl
  · rw [if_neg h, if_neg h]; rfl

theorem normIdx_some {n : Nat} {k : Int} {i : Nat} (h : normIdx n k = some i) :
    (if k < 0 then (n : Int) + k else k) = (i : Int) ∧ i < n := by
  simp only [normIdx] at h
  generalize (if k < 0 then (n : Int) + k else k) = j at h ⊢
  by_cases hj : j < 0 ∨ j ≥ (n : Int)
  · rw [if_pos hj] at h; simp at h
  · rw [if_neg hj] at h; simp only [Option.some.injEq] at h; omega

theorem normIdx_none {n : Nat} {k : Int} (h : normIdx n k = none) :
    (if k < 0 then (n : Int) + k else k) < 0 ∨ (if k < 0 then (n : Int) + k else k) ≥ (n : Int) := by
  simp only [normIdx] at h
  generalize (if k < 0 then (n : Int) + k else k) = j at h ⊢
  by_cases hj : j < 0 ∨ j ≥ (n : Int)
  · exact hj
  · rw [if_neg hj] at h; simp at h

theorem normIdx_lt {n : Nat} {k : Int} {i : Nat} (h : normIdx n k = some i) : i < n := (normIdx_some h).2

theorem normIdx_ofNat {n i : Nat} (h : i < n) : normIdx n (Int.ofNat i) = some i := by
  simp only [normIdx, Int.ofNat_eq_natCast]
  have h1 : ¬ ((i : Int) < 0) := by omega
  rw [if_neg h1]
  have h2 : ¬ ((i : Int) < 0 ∨ (i : Int) ≥ (n : Int)) := by omega
  rw [if_neg h2]; simp

/-- the index `k` and the non-negative index it denotes give the same element -/
theorem getIdx_norm (l : List α) (k : Int) (i : Nat) (h : normIdx l.length k = some i) :
    getIdx l k = getIdx l (Int.ofNat i) := by
  rw [getIdx_eq_norm, getIdx_eq_norm, h, normIdx_ofNat (normIdx_lt h)]

theorem getIdx_map (f : α → β) (l : List α) (k : Int) : getIdx (l.map f) k = (getIdx l k).map f := by
  rw [getIdx_eq_norm, getIdx_eq_norm, List.length_map]
  cases normIdx l.length k with
  | none => rfl
  | some i => simp

theorem array_getFull (l : List α) : GetFullAs (arrayI l) l := by
  intro g hg k; simp only [arrayI, Option.some.injEq] at hg; subst hg; rfl
theorem list_getFull (l : List α) : GetFullAs (listI l) l := by
  intro g hg k; simp only [listI, Option.some.injEq] at hg; subst hg; rfl
theorem tuple_getFull (ids : List Nat) : GetFullAs (tupleI ids) ids := by
  intro g hg k; simp only [tupleI, Option.some.injEq] at hg; subst hg; rfl

theorem map_getFull (I : Iterable α) (f : α → β) {l : List α} (h : GetFullAs I l) : GetFullAs (mapI I f) (l.map f) := by
  intro g hg k
  cases hIg : I.get with
  | none => simp [mapI, hIg] at hg
  | some g0 =>
    simp only [mapI, hIg, Option.some.injEq] at hg
    subst hg
    show Option.map f (g0 k) = _
    rw [h g0 hIg k, getIdx_map]

theorem emb_getFull (I : Iterable α) (f : α → β) {l : List α} (h : GetFullAs I l) : GetFullAs (embI I f) (l.map f) :=
  map_getFull I f h

/-- Range_Get only looks at the normalised index -/
theorem rangeGet_norm (a b c k : Int) :
    rangeGet a b c k = match normIdx (rangeLen a b c) k with
      | some i => rangeGet a b c (Int.ofNat i)
      | none => none := by
  cases hn : normIdx (rangeLen a b c) k with
  | none =>
    have h0 := normIdx_none hn
    simp only [rangeGet]
    generalize (if k < 0 then (rangeLen a b c : Int) + k else k) = j at h0 ⊢
    have h1 : ¬ (j ≥ 0 ∧ j < (rangeLen a b c : Int)) := by omega
    simp [h1]
  | some i =>
    obtain ⟨e, hlt⟩ := normIdx_some hn
    have h1 : ¬ ((i : Int) < 0) := by omega
    simp only [rangeGet, e, Int.ofNat_eq_natCast, h1, if_false]

theorem range_getFull (a b c : Int) : GetFullAs (rangeI a b c) (rangeList a b c) := by
  intro g hg k
  simp only [rangeI, Option.some.injEq] at hg
  subst hg
  have hlen : (rangeList a b c).length = rangeLen a b c := by simp [rangeList]
  rw [rangeGet_norm, getIdx_eq_norm, hlen]
  cases hn : normIdx (rangeLen a b c) k with
  | none => rfl
  | some i =>
    have hlt : i < (rangeList a b c).length := by rw [hlen]; exact normIdx_lt hn
    have := (range_lawfulAs a b c).get (rangeGet a b c) rfl i hlt
    simp only [this, Option.bind_some, List.getElem?_eq_getElem hlt]

theorem slice_getFull (I : Iterable α) {l : List α} (hlg : LenGetAs I l) (A B : Nat) (c : Int) (hB : B ≤ l.length) :
    GetFullAs (sliceI I l.length A B c) (sliceSpec l A B c) := by
  intro G hG k
  obtain ⟨hlen, hget⟩ := slice_len_get I hlg A B c hB
  have hL : (sliceSpec l A B c).length = rangeLen A B c := (hlen (rangeLen A B c) rfl).symm
  cases hg : I.get with
  | none => simp [sliceI, hg] at hG
  | some g =>
    have hG' := hG
    simp only [sliceI, hg, Option.some.injEq] at hG
    rw [getIdx_eq_norm, hL]
    cases hn : normIdx (rangeLen A B c) k with
    | none =>
      subst hG
      have : rangeGet A B c k = none := by rw [rangeGet_norm, hn]
      simp [this]
    | some i =>
      have hlt : i < (sliceSpec l A B c).length := by rw [hL]; exact normIdx_lt hn
      have e1 := hget G hG' i hlt
      have e2 : G k = G (Int.ofNat i) := by
        subst hG
        show (match rangeGet A B c k with | some j => g j | none => none) =
          (match rangeGet A B c (Int.ofNat i) with | some j => g j | none => none)
        rw [rangeGet_norm A B c k, hn]
      rw [e2, e1]
      simp [List.getElem?_eq_getElem hlt]

theorem zip_getFull : ∀ (Is : List (Iterable α)) (ls : List (List α)) (n : Nat), Is ≠ [] → (∀ l ∈ ls, l.length = n) →
    All₂ (fun I l => GetFullAs I l) Is ls → GetFullAs (zipI Is) (zipLists ls) := by
  intro Is ls n hne hlen h G hG k
  have hls : ls ≠ [] := by
    intro e; have := h.length_eq; rw [e] at this
    exact hne (List.length_eq_zero_iff.mp (by simpa using this))
  have hzl : (zipLists ls).length = n := zipLists_length n ls hls hlen
  -- the columns
  have hcol : ∀ (Is : List (Iterable α)) (ls : List (List α)), (∀ l ∈ ls, l.length = n) →
      All₂ (fun I l => GetFullAs I l) Is ls → ∀ G, zipGet Is = some G →
      G k = match normIdx n k with
        | some i => column ls i
        | none => if ls = [] then some [] else none := by
    intro Is ls hlen h
    induction h with
    | nil =>
      intro G hG; simp only [zipGet, Option.some.injEq] at hG; subst hG
      cases normIdx n k <;> simp [column]
    | @cons I l Is' ls' hI _ ih =>
      intro G hG
      simp only [zipGet] at hG
      cases hg : I.get with
      | none => simp [hg] at hG
      | some g =>
        cases hgs : zipGet Is' with
        | none => simp [hg, hgs] at hG
        | some gs =>
          simp only [hg, hgs, Option.some.injEq] at hG
          subst hG
          have e1 := hI g hg k
          have e2 := ih (fun x hx => hlen x (by simp [hx])) gs hgs
          have hl : l.length = n := hlen l (by simp)
          rw [getIdx_eq_norm, hl] at e1
          simp only [e1, e2]
          cases hn : normIdx n k with
          | none => simp
          | some i =>
            simp only [Option.bind_some, column]
            cases l[i]? <;> cases column ls' i <;> rfl
  have := hcol Is ls hlen h G hG
  rw [this, getIdx_eq_norm, hzl]
  cases hn : normIdx n k with
  | none => simp [hls]
  | some i =>
    have hi : i < (zipLists ls).length := by rw [hzl]; exact normIdx_lt hn
    obtain ⟨e, _⟩ := column_zipLists ls hls i hi
    simp [e, List.getElem?_eq_getElem hi]

end Cello.Iter
