/-
  Helper lemmas for C08: the small-step machine of one lookup, run alone, computes exactly the sequential functions
  `scan` / `instanceOf` (which are the ones compared with the C code state by state).
-/
import CelloProofs.Lemmas.DispConc

namespace Cello.Dispatch

/-- reflexive-transitive closure of `step` -/
inductive Reach (slots : List (Nat × Cls)) : TypeRec × PC → TypeRec × PC → Prop
  | refl (x : TypeRec × PC) : Reach slots x x
  | next (x y : TypeRec × PC) : Reach slots (step slots x.1 x.2) y → Reach slots x y

theorem Reach.trans {slots : List (Nat × Cls)} {x y z : TypeRec × PC} (h1 : Reach slots x y) (h2 : Reach slots y z) :
    Reach slots x z := by
  induction h1 with
  | refl _ => exact h2
  | next x y _ ih => exact Reach.next x z (ih h2)

theorem reach_one {slots : List (Nat × Cls)} (t : TypeRec) (pc : PC) :
    Reach slots (t, pc) (step slots t pc) := Reach.next (t, pc) _ (Reach.refl _)

def PC.terminal : PC → Bool
  | .done _ _ => true
  | .stuck => true
  | _ => false

/-- a deterministic machine with a decreasing measure: enough fuel ends in the terminal state that is reachable -/
theorem runSolo_of_reach {slots : List (Nat × Cls)} {x y : TypeRec × PC} (h : Reach slots x y) (hy : y.2.terminal = true) :
    ∀ fuel, pcMeasure x.1.entries.length x.2 ≤ fuel → runSolo slots fuel x.1 x.2 = y := by
  induction h with
  | refl x =>
    intro fuel _
    obtain ⟨t, pc⟩ := x
    cases fuel with
    | zero => rfl
    | succ f => cases pc <;> simp_all [runSolo, PC.terminal]
  | next x y hr ih =>
    intro fuel hf
    obtain ⟨t, pc⟩ := x
    by_cases hterm : pc.terminal = true
    · -- a terminal state steps to itself
      have hs : step slots t pc = (t, pc) := by cases pc <;> simp_all [PC.terminal, step]
      simp only [hs] at ih
      exact ih hy fuel hf
    · have hnd : ∀ c v, pc ≠ .done c v := by intro c v e; subst e; simp [PC.terminal] at hterm
      have hns : pc ≠ .stuck := by intro e; subst e; simp [PC.terminal] at hterm
      have sm := step_measure slots t pc hnd hns
      cases fuel with
      | zero => simp only at hf; omega
      | succ f =>
        have hrec : runSolo slots (f + 1) t pc = runSolo slots f (step slots t pc).1 (step slots t pc).2 := by
          cases pc <;> simp_all [runSolo, PC.terminal]
        rw [hrec]
        apply ih hy f
        simp only at hf ⊢
        rw [sm.2.2]; omega

/-! ### the loops -/

theorem reach_finish {slots : List (Nat × Cls)} (t : TypeRec) (cls : Cls) (ret : Ret) (v : Option Inst) :
    Reach slots (t, finish cls ret v)
      (match ret with
       | .direct => (t, PC.done cls v)
       | .fill i => ({ t with cache := t.cache.set i v }, PC.done cls v)) := by
  cases ret with
  | direct => exact Reach.refl _
  | fill i => exact reach_one t _

theorem reach_scanP {slots : List (Nat × Cls)} (t : TypeRec) (cls : Cls) (ret : Ret) :
    ∀ (k pos : Nat), t.entries.length - pos = k →
      Reach slots (t, .scanP cls pos ret)
        (match scanPtr cls (t.entries.drop pos) with
         | some i => (t, finish cls ret (some i))
         | none => (t, PC.scanN cls 0 ret)) := by
  intro k
  induction k with
  | zero =>
    intro pos hk
    have hge : t.entries.length ≤ pos := by omega
    have hnone : t.entries[pos]? = none := List.getElem?_eq_none hge
    rw [List.drop_eq_nil_of_le hge]
    simp only [scanPtr]
    have : step slots t (.scanP cls pos ret) = (t, .scanN cls 0 ret) := by simp [step, hnone]
    rw [← this]; exact reach_one t _
  | succ k ih =>
    intro pos hk
    have hlt : pos < t.entries.length := by omega
    have hsome : t.entries[pos]? = some t.entries[pos] := List.getElem?_eq_getElem hlt
    rw [List.drop_eq_getElem_cons hlt]
    simp only [scanPtr]
    by_cases hm : t.entries[pos].memo = some cls
    · simp only [hm, if_true]
      have : step slots t (.scanP cls pos ret) = (t, finish cls ret (some t.entries[pos].inst)) := by
        simp [step, hsome, hm]
      rw [← this]; exact reach_one t _
    · simp only [hm, if_false]
      have : step slots t (.scanP cls pos ret) = (t, .scanP cls (pos + 1) ret) := by simp [step, hsome, hm]
      refine Reach.next _ _ ?_
      simp only [this]
      exact ih (pos + 1) (by omega)

theorem reach_scanN {slots : List (Nat × Cls)} (cls : Cls) (ret : Ret) :
    ∀ (k pos : Nat) (t : TypeRec), t.entries.length - pos = k →
      Reach slots (t, .scanN cls pos ret)
        ({ t with entries := t.entries.take pos ++ (scanName cls (t.entries.drop pos)).1 },
          finish cls ret (scanName cls (t.entries.drop pos)).2) := by
  intro k
  induction k with
  | zero =>
    intro pos t hk
    have hge : t.entries.length ≤ pos := by omega
    have hnone : t.entries[pos]? = none := List.getElem?_eq_none hge
    rw [List.drop_eq_nil_of_le hge, List.take_of_length_le hge]
    simp only [scanName, List.append_nil]
    have : step slots t (.scanN cls pos ret) = (t, finish cls ret none) := by simp [step, hnone]
    rw [← this]; exact reach_one t _
  | succ k ih =>
    intro pos t hk
    have hlt : pos < t.entries.length := by omega
    have hsome : t.entries[pos]? = some t.entries[pos] := List.getElem?_eq_getElem hlt
    rw [List.drop_eq_getElem_cons hlt]
    simp only [scanName]
    by_cases hn : t.entries[pos].name = cls.name
    · simp only [hn, if_true]
      have h1 : step slots t (.scanN cls pos ret) = (t, .memoWrite cls pos ret) := by simp [step, hsome, hn]
      have h2 : step slots t (.memoWrite cls pos ret) =
          ({ t with entries := t.entries.set pos { t.entries[pos] with memo := some cls } },
            finish cls ret (some t.entries[pos].inst)) := by simp [step, hsome]
      refine Reach.next _ _ ?_
      simp only [h1]
      refine Reach.next _ _ ?_
      simp only [h2]
      rw [List.set_eq_take_append_cons_drop, if_pos hlt]
      simp only [hn]
      exact Reach.refl _
    · simp only [hn, if_false]
      have h1 : step slots t (.scanN cls pos ret) = (t, .scanN cls (pos + 1) ret) := by simp [step, hsome, hn]
      refine Reach.next _ _ ?_
      simp only [h1]
      have := ih (pos + 1) t (by omega)
      have ht : t.entries.take (pos + 1) = t.entries.take pos ++ [t.entries[pos]] := by
        rw [List.take_add_one, hsome]; rfl
      rw [ht, List.append_assoc] at this
      exact this

/-- from the header read of `Type_Scan` to the delivery of its result -/
theorem reach_scan {slots : List (Nat × Cls)} (t : TypeRec) (cls : Cls) (ret : Ret) :
    Reach slots (t, .hdrRead cls ret) ((scan t cls).1, finish cls ret (scan t cls).2) := by
  -- header
  have hh : Reach slots (t, .hdrRead cls ret) ({ t with hdr := true }, .scanP cls 0 ret) := by
    by_cases hb : t.hdr = true
    · have e : ({ t with hdr := true } : TypeRec) = t := by cases t; simp_all
      rw [e]
      have : step slots t (.hdrRead cls ret) = (t, .scanP cls 0 ret) := by simp [step, hb]
      rw [← this]; exact reach_one t _
    · have h1 : step slots t (.hdrRead cls ret) = (t, .hdrWrite cls ret) := by simp [step, hb]
      refine Reach.next _ _ ?_
      simp only [h1]
      exact reach_one t _
  refine hh.trans ?_
  have hp := reach_scanP (slots := slots) { t with hdr := true } cls ret _ 0 rfl
  simp only [List.drop_zero] at hp
  refine hp.trans ?_
  unfold scan
  simp only
  cases hsp : scanPtr cls t.entries with
  | some i => exact Reach.refl _
  | none =>
    simp only
    have hn := reach_scanN (slots := slots) cls ret _ 0 { t with hdr := true } rfl
    simpa using hn

/-- **the machine run alone computes `Type_Scan`** -/
theorem runSolo_scan (slots : List (Nat × Cls)) (t : TypeRec) (cls : Cls) :
    runSolo slots (soloFuel t.entries.length) t (.start false cls) = ((scan t cls).1, .done cls (scan t cls).2) := by
  have h : Reach slots (t, .start false cls) ((scan t cls).1, PC.done cls (scan t cls).2) := by
    refine Reach.next _ _ ?_
    have := reach_scan (slots := slots) t cls .direct
    simpa [step, finish] using this
  exact runSolo_of_reach h rfl _ (by simp [pcMeasure, soloFuel])

/-- **the machine run alone computes `Type_Instance`** (whenever the latter stays inside the object) -/
theorem runSolo_instanceOf (slots : List (Nat × Cls)) (t : TypeRec) (cls : Cls) (r : Option Inst)
    (hr : (instanceOf slots t cls).2 = .ok r) :
    runSolo slots (soloFuel t.entries.length) t (.start true cls) = ((instanceOf slots t cls).1, .done cls r) := by
  have h : Reach slots (t, .start true cls) ((instanceOf slots t cls).1, PC.done cls r) := by
    unfold instanceOf at hr ⊢
    cases hso : slotOf slots cls with
    | none =>
      simp only [hso] at hr ⊢
      simp only [Outcome.ok.injEq] at hr
      subst hr
      refine Reach.next _ _ ?_
      have := reach_scan (slots := slots) t cls .direct
      simpa [step, hso, finish] using this
    | some p =>
      obtain ⟨i, lit⟩ := p
      obtain ⟨_, rfl⟩ := slotOf_some hso
      simp only [hso] at hr ⊢
      by_cases hlt : i < t.cache.length
      · simp only [hlt, dite_true] at hr ⊢
        cases hc : t.cache[i] with
        | some inst =>
          simp only [hc, Outcome.ok.injEq] at hr ⊢
          subst hr
          have : step slots t (.start true lit) = (t, .done lit (some inst)) := by simp [step, hso, hlt, hc]
          rw [← this]; exact reach_one t _
        | none =>
          simp only [hc, Outcome.ok.injEq] at hr ⊢
          subst hr
          have h1 : step slots t (.start true lit) = (t, .hdrRead lit (.fill i)) := by simp [step, hso, hlt, hc]
          refine Reach.next _ _ ?_
          simp only [h1]
          refine (reach_scan (slots := slots) t lit (.fill i)).trans ?_
          exact reach_finish (scan t lit).1 lit (.fill i) (scan t lit).2
      · simp [hlt] at hr
  exact runSolo_of_reach h rfl _ (by simp [pcMeasure, soloFuel])

end Cello.Dispatch
