/- helper lemmas for C11: the Range on int64_t (`rangeI64`) walks exactly as the Range on ℤ (`rangeI`) as long as the walk
   stays inside int64_t (`RangeFitsFwd` / `RangeFitsBwd`) -/
import CelloProofs.Lemmas.IterRange

namespace Cello.Iter

/-- a terminating walk carries over to a second step function that agrees with the first on the item states of the walk -/
theorem Run.transfer {σ α : Type} {step step' : σ → σ × Res α} (P : σ × Res α → Prop)
    (hP : ∀ s a, P (s, .item a) → step' s = step s ∧ P (step s)) :
    ∀ (r : σ × Res α) (l : List α), Run step r l → P r → Run step' r l := by
  intro r l h
  induction h with
  | term s => intro _; exact Run.term s
  | item s a l _ ih =>
    intro hp
    obtain ⟨e, hp'⟩ := hP s a hp
    refine Run.item s a l ?_
    rw [e]; exact ih hp'

theorem isI64_iff (x : Int) : isI64 x = true ↔ -(2 ^ 63 : Int) ≤ x ∧ x < (2 ^ 63 : Int) := by
  simp [isI64]

/-- the `j`-th element of a Range -/
def rangeAt (a b c : Int) (j : Nat) : Int := if c > 0 then a + c * (j : Int) else b - 1 + c * (j : Int)

/-- the item states of a walk over a Range: the cursor holds one of its elements -/
def RangeAtElem (a b c : Int) (r : Int × Res Int) : Prop :=
  ∀ x, r.2 = .item x → ∃ j : Nat, j < rangeLen a b c ∧ r.1 = rangeAt a b c j

theorem range64_next_eq (a b c v : Int) (h : isI64 (v + c) = true) : (rangeI64 a b c).next v = (rangeI a b c).next v := by
  simp [rangeI64, rangeI, h]

theorem range64_prev_eq (a b c v : Int) (h : isI64 (v - c) = true) : (rangeI64 a b c).prev v = (rangeI a b c).prev v := by
  simp [rangeI64, rangeI, h]

theorem mul_le_mul_nat (c : Int) (hc : 0 ≤ c) (i j : Nat) (h : i ≤ j) : c * (i : Int) ≤ c * (j : Int) :=
  Int.mul_le_mul_of_nonneg_left (by omega) hc

/-- FORWARD: under `RangeFitsFwd` the int64 machine walks as the machine on ℤ -/
theorem range64_fwdAs (a b c : Int) (hf : RangeFitsFwd a b c) : FwdAs (rangeI64 a b c) (rangeList a b c) := by
  obtain ⟨ha, hb, hcc, hpos, hneg⟩ := hf
  rw [isI64_iff] at ha hb hcc
  intro s
  have hinit : (rangeI64 a b c).init s = (rangeI a b c).init s := by
    rcases Int.lt_trichotomy c 0 with hc | hc | hc
    · have h1 := (hneg hc).1
      simp [rangeI64, rangeI, h1]
    · subst hc; simp [rangeI64, rangeI]
    · have hnc : ¬ (c < 0) := by omega
      simp [rangeI64, rangeI, hnc]
  rw [hinit]
  refine Run.transfer (RangeAtElem a b c) ?_ _ _ ((range_lawfulAs a b c).fwd s) ?_
  · -- one step from an element
    intro v x hp
    obtain ⟨j, hj, hv⟩ := hp x rfl
    simp only at hv
    rcases Int.lt_trichotomy c 0 with hc | hc | hc
    · have hnc : ¬ (c > 0) := by omega
      have hc0 : c ≠ 0 := by omega
      obtain ⟨hb1, hlow⟩ := hneg hc
      rw [isI64_iff] at hb1
      simp only [rangeAt, hnc, if_false] at hv
      have e : v + c = b - 1 + c * ((j + 1 : Nat) : Int) := by rw [mul_succ_cast]; omega
      have h1 : (-c) * ((j + 1 : Nat) : Int) ≤ (-c) * (rangeLen a b c : Int) := mul_le_mul_nat (-c) (by omega) _ _ hj
      have h2 : 0 ≤ (-c) * ((j + 1 : Nat) : Int) := Int.mul_nonneg (by omega) (by omega)
      have n1 : (-c) * ((j + 1 : Nat) : Int) = -(c * ((j + 1 : Nat) : Int)) := Int.neg_mul _ _
      have n2 : (-c) * (rangeLen a b c : Int) = -(c * (rangeLen a b c : Int)) := Int.neg_mul _ _
      have hfit : isI64 (v + c) = true := by rw [isI64_iff]; constructor <;> omega
      refine ⟨range64_next_eq a b c v hfit, ?_⟩
      intro y hy
      refine ⟨j + 1, ?_, ?_⟩
      · have k := rangeLen_neg_iff a b c hc (j + 1)
        apply k.mp
        rw [← e]
        simp only [rangeI, hc0, if_false, hnc, false_and, hc, true_and] at hy
        by_cases hlt : v + c < a
        · simp [hlt] at hy
        · omega
      · simp only [rangeI, hc0, if_false, hnc, false_and, hc, true_and]
        simp only [rangeAt, hnc, if_false]
        by_cases hlt : v + c < a
        · simp only [rangeI, hc0, if_false, hnc, false_and, hc, true_and, hlt, if_true] at hy
          cases hy
        · simp only [hlt, if_false]; exact e
    · subst hc; simp [rangeLen] at hj
    · have hnc : ¬ (c < 0) := by omega
      have hc0 : c ≠ 0 := by omega
      have hup := hpos hc
      simp only [rangeAt, hc, if_true] at hv
      have e : v + c = a + c * ((j + 1 : Nat) : Int) := by rw [mul_succ_cast]; omega
      have h1 : c * ((j + 1 : Nat) : Int) ≤ c * (rangeLen a b c : Int) := mul_le_mul_nat c (by omega) _ _ hj
      have h2 : 0 ≤ c * ((j + 1 : Nat) : Int) := Int.mul_nonneg (by omega) (by omega)
      have hfit : isI64 (v + c) = true := by rw [isI64_iff]; constructor <;> omega
      refine ⟨range64_next_eq a b c v hfit, ?_⟩
      intro y hy
      refine ⟨j + 1, ?_, ?_⟩
      · have k := rangeLen_pos_iff a b c hc (j + 1)
        apply k.mp
        rw [← e]
        simp only [rangeI, hc0, if_false, hc, true_and, hnc, false_and] at hy
        by_cases hge : v + c ≥ b
        · simp [hge] at hy
        · omega
      · simp only [rangeI, hc0, if_false, hc, true_and, hnc, false_and]
        simp only [rangeAt, hc, if_true]
        by_cases hge : v + c ≥ b
        · simp only [rangeI, hc0, if_false, hc, true_and, hnc, false_and, hge, if_true] at hy
          cases hy
        · simp only [hge, if_false]; exact e
  · -- the first element
    intro x hx
    rcases Int.lt_trichotomy c 0 with hc | hc | hc
    · have hnc : ¬ (c > 0) := by omega
      have hc0 : c ≠ 0 := by omega
      simp only [rangeI, hc0, if_false, hnc, false_and, hc, true_and] at hx ⊢
      by_cases hlt : b - 1 < a
      · simp [hlt] at hx
      · refine ⟨0, (rangeLen_neg_iff a b c hc 0).mp (by simp; omega), ?_⟩
        simp [hlt, rangeAt, hnc]
    · subst hc; simp [rangeI] at hx
    · have hnc : ¬ (c < 0) := by omega
      have hc0 : c ≠ 0 := by omega
      simp only [rangeI, hc0, if_false, hc, true_and, hnc, false_and] at hx ⊢
      by_cases hge : a ≥ b
      · simp [hge] at hx
      · refine ⟨0, (rangeLen_pos_iff a b c hc 0).mp (by simp; omega), ?_⟩
        simp [hge, rangeAt, hc]

theorem rangeLenOk_spec (a b c : Int) (h : rangeLenOk a b c = true) (hc : c ≠ 0) (hab : ¬ (b ≤ a)) :
    isI64 (b - 1) = true ∧ isI64 (b - 1 - a) = true := by
  simp only [rangeLenOk, hc, if_false, hab] at h
  split at h <;> simp only [Bool.and_eq_true] at h
  · exact ⟨h.1, h.2⟩
  · exact ⟨h.1.1, h.1.2⟩

/-- BACKWARD: under `RangeFitsBwd` the int64 machine walks as the machine on ℤ -/
theorem range64_bwdAs (a b c : Int) (hf : RangeFitsBwd a b c) : BwdAs (rangeI64 a b c) (rangeList a b c) := by
  obtain ⟨ha, hb, hcc, hok, hpos, hneg⟩ := hf
  rw [isI64_iff] at ha hb hcc
  intro s
  -- Range_Iter_Last
  have hlast : (rangeI64 a b c).last s = (rangeI a b c).last s := by
    by_cases hn : rangeLen a b c = 0
    · simp [rangeI64, rangeI, hok, hn]
    · obtain ⟨m, hm⟩ : ∃ m, rangeLen a b c = m + 1 := ⟨rangeLen a b c - 1, by omega⟩
      have hc0 : c ≠ 0 := by intro h; subst h; simp [rangeLen] at hn
      have hab : ¬ (b ≤ a) := by intro h; simp [rangeLen, h] at hn
      obtain ⟨hb1, hw⟩ := rangeLenOk_spec a b c hok hc0 hab
      rw [isI64_iff] at hb1 hw
      have hcast : ((m + 1 : Nat) : Int) - 1 = (m : Int) := by omega
      rcases Int.lt_trichotomy c 0 with hc | hc | hc
      · have hnc : ¬ (c > 0) := by omega
        have k := (rangeLen_neg_iff a b c hc m).mpr (by omega)
        have h2 : 0 ≤ (-c) * (m : Int) := Int.mul_nonneg (by omega) (by omega)
        have n1 : (-c) * (m : Int) = -(c * (m : Int)) := Int.neg_mul _ _
        have f1 : isI64 (c * (m : Int)) = true := by rw [isI64_iff]; constructor <;> omega
        have f2 : isI64 (b - 1 + c * (m : Int)) = true := by rw [isI64_iff]; constructor <;> omega
        simp [rangeI64, rangeI, hok, hm, hnc, f1, f2]
      · exact absurd hc hc0
      · have k := (rangeLen_pos_iff a b c hc m).mpr (by omega)
        have h2 : 0 ≤ c * (m : Int) := Int.mul_nonneg (by omega) (by omega)
        have f1 : isI64 (c * (m : Int)) = true := by rw [isI64_iff]; constructor <;> omega
        have f2 : isI64 (a + c * (m : Int)) = true := by rw [isI64_iff]; constructor <;> omega
        simp [rangeI64, rangeI, hok, hm, hc, f1, f2]
  rw [hlast]
  refine Run.transfer (RangeAtElem a b c) ?_ _ _ ((range_lawfulAs a b c).bwd s) ?_
  · intro v x hp
    obtain ⟨j, hj, hv⟩ := hp x rfl
    simp only at hv
    rcases Int.lt_trichotomy c 0 with hc | hc | hc
    · have hnc : ¬ (c > 0) := by omega
      have hnc' : ¬ (0 < c) := by omega
      have hc0 : c ≠ 0 := by omega
      have hup := hneg hc (by omega)
      simp only [rangeAt, hnc, if_false] at hv
      have k := (rangeLen_neg_iff a b c hc j).mpr hj
      have h2 : 0 ≤ (-c) * (j : Int) := Int.mul_nonneg (by omega) (by omega)
      have n1 : (-c) * (j : Int) = -(c * (j : Int)) := Int.neg_mul _ _
      have hfit : isI64 (v - c) = true := by rw [isI64_iff]; constructor <;> omega
      refine ⟨range64_prev_eq a b c v hfit, ?_⟩
      intro y hy
      simp only [rangeI, hc0, if_false, hnc', false_and, hc, true_and] at hy ⊢
      by_cases hge : v - c ≥ b
      · simp [hge] at hy
      · cases j with
        | zero => exfalso; simp at hv; omega
        | succ i =>
          refine ⟨i, by omega, ?_⟩
          simp only [hge, if_false, rangeAt, hnc]
          rw [mul_succ_cast] at hv; omega
    · subst hc; simp [rangeLen] at hj
    · have hnc : ¬ (c < 0) := by omega
      have hc0 : c ≠ 0 := by omega
      have hlow := hpos hc (by omega)
      simp only [rangeAt, hc, if_true] at hv
      have k := (rangeLen_pos_iff a b c hc j).mpr hj
      have h2 : 0 ≤ c * (j : Int) := Int.mul_nonneg (by omega) (by omega)
      have hfit : isI64 (v - c) = true := by rw [isI64_iff]; constructor <;> omega
      refine ⟨range64_prev_eq a b c v hfit, ?_⟩
      intro y hy
      simp only [rangeI, hc0, if_false, hc, true_and, hnc, false_and] at hy ⊢
      by_cases hlt : v - c < a
      · simp [hlt] at hy
      · cases j with
        | zero => exfalso; simp at hv; omega
        | succ i =>
          refine ⟨i, by omega, ?_⟩
          simp only [hlt, if_false, rangeAt, hc, if_true]
          rw [mul_succ_cast] at hv; omega
  · -- the last element
    intro x hx
    by_cases hn : rangeLen a b c = 0
    · simp [rangeI, hn] at hx
    · obtain ⟨m, hm⟩ : ∃ m, rangeLen a b c = m + 1 := ⟨rangeLen a b c - 1, by omega⟩
      have hcast : ((m + 1 : Nat) : Int) - 1 = (m : Int) := by omega
      refine ⟨m, by omega, ?_⟩
      by_cases hc : c > 0
      · simp [rangeI, hm, hc, rangeAt]
      · simp [rangeI, hm, hc, rangeAt]

/-- under both conditions the int64 Range is lawful (len / get are those of the Range on ℤ) -/
theorem range64_lenGet (a b c : Int) : LenGetAs (rangeI64 a b c) (rangeList a b c) :=
  ⟨fun n hn => (range_lawfulAs a b c).len n (by simpa [rangeI64, rangeI] using hn),
   fun g hg i hi => (range_lawfulAs a b c).get g (by simpa [rangeI64, rangeI] using hg) i hi⟩

end Cello.Iter
