/-
  CelloProofs/Lemmas/RegistryRehash.lean — GC_Rehash: re-inserting the old entries in slot order into an empty table with
  more slots than entries terminates, yields a table that satisfies the invariant, and stores exactly the old entries with
  their home slot recomputed and their mark bit dropped.
-/
import Cello.Registry
import CelloProofs.Lemmas.RegistryIns
set_option linter.unusedSectionVars false
set_option linter.unusedVariables false
namespace Cello.Registry
open RH

/-- an old entry as GC_Rehash re-inserts it into a table of `m` slots -/
def rehome (c : Cfg) (m : Nat) (e : Ent) : Ent := ⟨e.key, hashOf c e.key % m, ⟨e.val.root, false⟩⟩

theorem reinsert_spec {m : Nat} (c : Cfg) :
    ∀ (es : List (Option Ent)) (t : Slots Nat Payload m),
      Inv0 (hashOf c) t →
      es.Pairwise (fun a b => ∀ ea eb, a = some ea → b = some eb → ea.key ≠ eb.key) →
      (∀ ea, some ea ∈ es → ∀ q (hq : q < m) e, t[q] = some e → e.key ≠ ea.key) →
      occ t + es.countP Option.isSome < m →
      ∃ t', reinsert c es t = some t' ∧ Inv0 (hashOf c) t' ∧
        (∀ e', Mem t' e' ↔ Mem t e' ∨ ∃ ea, some ea ∈ es ∧ e' = rehome c m ea) ∧
        occ t' = occ t + es.countP Option.isSome := by
  intro es
  induction es with
  | nil =>
    intro t inv _ _ _
    exact ⟨t, rfl, inv, by intro e'; simp, by simp⟩
  | cons a es ih =>
    intro t inv hpw hfresh hroom
    have hpw' := (List.pairwise_cons.1 hpw).2
    have hhead := (List.pairwise_cons.1 hpw).1
    cases a with
    | none =>
      have hc : (none :: es).countP Option.isSome = es.countP Option.isSome := by simp
      rw [hc] at hroom
      obtain ⟨t', h1, h2, h3, h4⟩ := ih t inv hpw' (fun ea hea => hfresh ea (List.mem_cons_of_mem _ hea)) hroom
      refine ⟨t', by simpa [reinsert] using h1, h2, ?_, by rw [h4, hc]⟩
      intro e'; rw [h3 e']
      constructor
      · rintro (h | ⟨ea, hea, he⟩)
        · exact Or.inl h
        · exact Or.inr ⟨ea, List.mem_cons_of_mem _ hea, he⟩
      · rintro (h | ⟨ea, hea, he⟩)
        · exact Or.inl h
        · rcases List.mem_cons.1 hea with h | h
          · cases h
          · exact Or.inr ⟨ea, h, he⟩
    | some ea =>
      have hc : (some ea :: es).countP Option.isSome = es.countP Option.isSome + 1 := by simp
      rw [hc] at hroom
      obtain ⟨t1, hs1, inv1, hmem1, hocc1⟩ :=
        setPtr_spec c t inv ea.key ea.val.root (hfresh ea (List.mem_cons_self)) (by omega)
      have hfresh1 : ∀ eb, some eb ∈ es → ∀ q (hq : q < m) e, t1[q] = some e → e.key ≠ eb.key := by
        intro eb heb q hq e he
        rcases (hmem1 e).1 ⟨q, hq, he⟩ with ⟨q', hq', he'⟩ | h
        · exact hfresh eb (List.mem_cons_of_mem _ heb) q' hq' e he'
        · subst h
          exact hhead (some eb) heb ea eb rfl rfl
      obtain ⟨t', h1, h2, h3, h4⟩ := ih t1 inv1 hpw' hfresh1 (by omega)
      refine ⟨t', by simp only [reinsert, hs1]; exact h1, h2, ?_, by rw [h4, hocc1, hc]; omega⟩
      intro e'; rw [h3 e', hmem1 e']
      constructor
      · rintro ((h | h) | ⟨eb, heb, he⟩)
        · exact Or.inl h
        · exact Or.inr ⟨ea, List.mem_cons_self, h⟩
        · exact Or.inr ⟨eb, List.mem_cons_of_mem _ heb, he⟩
      · rintro (h | ⟨eb, heb, he⟩)
        · exact Or.inl (Or.inl h)
        · rcases List.mem_cons.1 heb with h | h
          · cases h; exact Or.inl (Or.inr he)
          · exact Or.inr ⟨eb, h, he⟩

theorem inv0_replicate_none (hash : Nat → Nat) (m : Nat) :
    Inv0 hash (Vector.replicate m (none : Option Ent)) := by
  refine ⟨?_, ?_, ?_⟩
  · intro i hi e he; simp at he
  · intro a b ha hb e e' he; simp at he
  · intro i hi e he; simp at he

theorem mem_toList_iff_Mem {n : Nat} (s : Slots Nat Payload n) (e : Ent) : some e ∈ s.toList ↔ Mem s e := by
  rw [Vector.mem_toList_iff, Vector.mem_iff_getElem]; rfl

theorem pairwise_toList {n : Nat} (hash : Nat → Nat) (s : Slots Nat Payload n) (inv : Inv0 hash s) :
    s.toList.Pairwise (fun a b => ∀ ea eb, a = some ea → b = some eb → ea.key ≠ eb.key) := by
  rw [List.pairwise_iff_getElem]
  intro i j hi hj hij ea eb ha hb hk
  simp only [Vector.length_toList] at hi hj
  rw [Vector.getElem_toList] at ha hb
  have := inv.distinct i j hi hj ea eb ha hb hk
  omega

/-- **GC_Rehash.** -/
theorem rehash_spec (c : Cfg) (r : Reg) (inv : Inv0 (hashOf c) r.slots) (newSize : Nat) (hroom : occ r.slots < newSize) :
    ∃ t : Slots Nat Payload newSize, rehash c r newSize = some { r with n := newSize, slots := t } ∧ Inv0 (hashOf c) t ∧
      (∀ e', Mem t e' ↔ ∃ e, Mem r.slots e ∧ e' = rehome c newSize e) ∧ occ t = occ r.slots := by
  have hcount : r.slots.toList.countP Option.isSome = occ r.slots := by unfold occ; simp
  obtain ⟨t, h1, h2, h3, h4⟩ := reinsert_spec c r.slots.toList (Vector.replicate newSize none)
    (inv0_replicate_none _ _) (pairwise_toList _ _ inv) (by intro ea _ q hq e he; simp at he)
    (by rw [occ_replicate_none, hcount]; omega)
  refine ⟨t, by unfold rehash; rw [h1], h2, ?_, by rw [h4, occ_replicate_none, hcount]; omega⟩
  intro e'; rw [h3 e']
  constructor
  · rintro (⟨q, hq, h⟩ | ⟨ea, hea, he⟩)
    · simp at h
    · exact ⟨ea, (mem_toList_iff_Mem _ _).1 hea, he⟩
  · rintro ⟨ea, hea, he⟩
    exact Or.inr ⟨ea, (mem_toList_iff_Mem _ _).2 hea, he⟩

end Cello.Registry
