/-
  Lemmas for C10 (T2): `Tree_Set` / `Tree_Rem` keep the iteration sequence strictly descending, so every Tree reached from the
  empty Tree by any history of insertions, updates and removals (with non-NaN keys) satisfies `TreeSeq` — the hypothesis the
  copy/assign/history theorems make about a Tree.
-/
import Cello.Hash
import CelloProofs.Lemmas.HashVal
import CelloProofs.Lemmas.HashObj
import CelloProofs.Lemmas.HashOrder
set_option linter.unusedSimpArgs false
set_option linter.unusedVariables false

namespace Cello.Hash

theorem bytesCmp_trans : ∀ (a b c : Bytes), 0 < bytesCmp a b → 0 < bytesCmp b c → 0 < bytesCmp a c := by
  intro a
  induction a with
  | nil => intro b c h; cases b <;> simp [bytesCmp] at h
  | cons x xs ih =>
    intro b c h1 h2
    cases b with
    | nil => cases c <;> simp [bytesCmp] at h2
    | cons y ys =>
      cases c with
      | nil => simp [bytesCmp]
      | cons z zs =>
        simp only [bytesCmp] at h1 h2 ⊢
        by_cases hxy : x < y
        · simp [hxy] at h1
        · by_cases hyx : y < x
          · -- x > y
            by_cases hyz : y < z
            · simp [hyz] at h2
            · by_cases hzy : z < y
              · have hzx : z < x := UInt8.lt_trans hzy hyx
                have : ¬ x < z := UInt8.lt_asymm hzx
                simp [this, hzx]
              · have hyz' : y = z := UInt8.le_antisymm (UInt8.not_lt.mp hzy) (UInt8.not_lt.mp hyz)
                subst hyz'
                simp [hxy, hyx]
          · have hxy' : x = y := UInt8.le_antisymm (UInt8.not_lt.mp hyx) (UInt8.not_lt.mp hxy)
            subst hxy'
            simp only [hxy, if_false] at h1
            by_cases hxz : x < z
            · simp [hxz] at h2
            · by_cases hzx : z < x
              · simp [hxz, hzx]
              · simp only [hxz, hzx, if_false] at h2 ⊢
                exact ih ys zs h1 h2

theorem intCmp_pos {a b : Int64} : 0 < intCmp a b ↔ b < a := by
  unfold intCmp
  by_cases h : b < a
  · simp [h, GT.gt]
  · by_cases h2 : a < b <;> simp [h, h2, GT.gt]

theorem floatCmp_pos {a b : UInt64} :
    0 < floatCmp a b ↔ (floatIsNaN a = false ∧ floatIsNaN b = false ∧ floatKey b < floatKey a) := by
  unfold floatCmp
  cases ha : floatIsNaN a <;> cases hb : floatIsNaN b <;> simp only [Bool.or_self, Bool.or_true, Bool.true_or, Bool.or_false, if_true,
    Bool.false_eq_true, if_false]
  · by_cases h : floatKey b < floatKey a
    · simp [h, GT.gt]
    · by_cases h2 : floatKey a < floatKey b <;> simp [h, h2, GT.gt]
  all_goals simp

/-- strict transitivity of `cmp > 0` on scalars -/
theorem scalarCmp_trans (addr : Nat → Bytes) (a b c : Scalar) (x y : Int)
    (h1 : scalarCmp addr a b = some x) (hx : 0 < x) (h2 : scalarCmp addr b c = some y) (hy : 0 < y) :
    ∃ z, scalarCmp addr a c = some z ∧ 0 < z := by
  cases a <;> cases b <;> simp only [scalarCmp, reduceCtorEq] at h1 <;> cases c <;> simp only [scalarCmp, reduceCtorEq] at h2 ⊢
  · simp only [Option.some.injEq] at h1 h2; subst h1 h2
    exact ⟨_, rfl, intCmp_pos.mpr (Int64.lt_trans (intCmp_pos.mp hy) (intCmp_pos.mp hx))⟩
  · simp only [Option.some.injEq] at h1 h2; subst h1 h2
    obtain ⟨na, nb, k1⟩ := floatCmp_pos.mp hx
    obtain ⟨_, nc, k2⟩ := floatCmp_pos.mp hy
    exact ⟨_, rfl, floatCmp_pos.mpr ⟨na, nc, by omega⟩⟩
  · simp only [Option.some.injEq] at h1 h2; subst h1 h2
    exact ⟨_, rfl, bytesCmp_trans _ _ _ hx hy⟩
  · simp only [Option.some.injEq] at h1 h2; subst h1 h2
    exact ⟨_, rfl, bytesCmp_trans _ _ _ hx hy⟩
  · split at h1
    · split at h2
      · rename_i e1 e2
        subst e1 e2
        simp only [Option.some.injEq] at h1 h2; subst h1 h2
        exact ⟨_, by simp, bytesCmp_trans _ _ _ hx hy⟩
      · simp at h2
    · simp at h1
  · split at h1
    · split at h2
      · rename_i e1 e2
        subst e1 e2
        simp only [Option.some.injEq] at h1 h2; subst h1 h2
        exact ⟨_, by simp, bytesCmp_trans _ _ _ hx hy⟩
      · simp at h2
    · simp at h1

/-- a key that compares 0 with `r` can stand in for `r` on the left of a strict comparison (for a non-NaN key) -/
theorem scalarCmp_congr_left (addr : Nat → Bytes) (r k c : Scalar) (x : Int) (hk : k.isNaN = false)
    (h0 : scalarCmp addr r k = some 0) (h1 : scalarCmp addr r c = some x) (hx : 0 < x) :
    ∃ z, scalarCmp addr k c = some z ∧ 0 < z := by
  cases r <;> cases k <;> simp only [scalarCmp, reduceCtorEq] at h0 <;> cases c <;> simp only [scalarCmp, reduceCtorEq] at h1 ⊢
  · simp only [Option.some.injEq] at h0 h1
    rw [← intCmp_eq_zero _ _ h0]; exact ⟨_, rfl, h1 ▸ hx⟩
  · simp only [Option.some.injEq] at h0 h1; subst h1
    obtain ⟨nr, nc, k1⟩ := floatCmp_pos.mp hx
    have hk' : floatIsNaN _ = false := hk
    refine ⟨_, rfl, floatCmp_pos.mpr ⟨hk', nc, ?_⟩⟩
    unfold floatCmp at h0
    simp only [nr, hk', Bool.or_self, Bool.false_eq_true, if_false] at h0
    split at h0
    · simp at h0
    · split at h0
      · simp at h0
      · omega
  · simp only [Option.some.injEq] at h0 h1
    rw [← bytesCmp_eq_zero _ _ h0]; exact ⟨_, rfl, h1 ▸ hx⟩
  · simp only [Option.some.injEq] at h0 h1
    rw [← bytesCmp_eq_zero _ _ h0]; exact ⟨_, rfl, h1 ▸ hx⟩
  · split at h0
    · split at h1
      · rename_i e1 e2
        subst e1 e2
        simp only [Option.some.injEq] at h0 h1
        simp only [if_true]
        rw [← bytesCmp_eq_zero _ _ h0]; exact ⟨_, rfl, h1 ▸ hx⟩
      · simp at h1
    · simp at h0
  · split at h0
    · split at h1
      · rename_i e1 e2
        subst e1 e2
        simp only [Option.some.injEq] at h0 h1
        simp only [if_true]
        rw [← bytesCmp_eq_zero _ _ h0]; exact ⟨_, rfl, h1 ▸ hx⟩
      · simp at h1
    · simp at h0

theorem mem_treeSet (addr : Nat → Bytes) (es : List (Scalar × Scalar)) (k v : Scalar) (x : Scalar × Scalar)
    (h : x ∈ treeSet addr es k v) : x = (k, v) ∨ x ∈ es := by
  induction es with
  | nil => simp [treeSet] at h; exact Or.inl h
  | cons e es ih =>
    simp only [treeSet] at h
    cases hc : scalarCmp addr e.1 k with
    | none => simp only [hc] at h; exact Or.inr h
    | some c =>
      simp only [hc] at h
      split at h
      · simp only [List.mem_cons] at h ⊢; rcases h with h | h
        · exact Or.inl h
        · exact Or.inr (Or.inr h)
      · split at h
        · simp only [List.mem_cons] at h ⊢; rcases h with h | h | h
          · exact Or.inl h
          · exact Or.inr (Or.inl h)
          · exact Or.inr (Or.inr h)
        · simp only [List.mem_cons] at h ⊢; rcases h with h | h
          · exact Or.inr (Or.inl h)
          · rcases ih h with h | h
            · exact Or.inl h
            · exact Or.inr (Or.inr h)

/-- **`Tree_Set` keeps the iteration sequence strictly descending** (non-NaN key) -/
theorem treeSet_treeSeq (addr : Nat → Bytes) (es : List (Scalar × Scalar)) (k v : Scalar) (hk : k.isNaN = false)
    (h : TreeSeq addr es) : TreeSeq addr (treeSet addr es k v) := by
  induction es with
  | nil => simp [treeSet, TreeSeq]
  | cons e es ih =>
    obtain ⟨he, hes⟩ := List.pairwise_cons.mp h
    simp only [treeSet]
    cases hc : scalarCmp addr e.1 k with
    | none => simpa [hc] using h
    | some c =>
      simp only [hc]
      split
      · -- replaced
        rename_i hc0
        subst hc0
        refine List.pairwise_cons.mpr ⟨fun f hf => ?_, hes⟩
        obtain ⟨x, hx, hpos⟩ := he f hf
        exact scalarCmp_congr_left addr e.1 k f.1 x hk hc hx hpos
      · split
        · -- inserted before e
          rename_i _ hneg
          have hke : Desc addr (k, v) e := by
            refine ⟨-c, ?_, by omega⟩
            rw [scalarCmp_swap, hc]; rfl
          refine List.pairwise_cons.mpr ⟨fun f hf => ?_, h⟩
          rcases List.mem_cons.mp hf with rfl | hf
          · exact hke
          · obtain ⟨x, hx, hpos⟩ := he f hf
            obtain ⟨c', hc', hpos'⟩ := hke
            exact scalarCmp_trans addr k e.1 f.1 c' x hc' hpos' hx hpos
        · -- goes further down
          rename_i h0 hneg
          refine List.pairwise_cons.mpr ⟨fun f hf => ?_, ih hes⟩
          rcases mem_treeSet addr es k v f hf with rfl | hf
          · exact ⟨c, hc, by omega⟩
          · exact he f hf

theorem treeRem_sublist (addr : Nat → Bytes) : ∀ (es : List (Scalar × Scalar)) (k : Scalar) (r : List (Scalar × Scalar)),
    treeRem addr es k = some r → r.Sublist es := by
  intro es
  induction es with
  | nil => intro k r h; simp [treeRem] at h
  | cons e es ih =>
    intro k r h
    simp only [treeRem] at h
    split at h
    · simp only [Option.some.injEq] at h; subst h; exact List.sublist_cons_self e es
    · cases hr : treeRem addr es k with
      | none => simp [hr] at h
      | some r' =>
        simp only [hr, Option.map_some, Option.some.injEq] at h; subst h
        exact (ih k r' hr).cons_cons e

/-- **`Tree_Rem` keeps the iteration sequence strictly descending** -/
theorem treeRem_treeSeq (addr : Nat → Bytes) (es : List (Scalar × Scalar)) (k : Scalar) (r : List (Scalar × Scalar))
    (hr : treeRem addr es k = some r) (h : TreeSeq addr es) : TreeSeq addr r :=
  List.Pairwise.sublist (treeRem_sublist addr es k r hr) h

/-- a history of Tree operations -/
inductive TreeOp where
  | set (k v : Scalar)
  | rem (k : Scalar)

def TreeOp.keyOk : TreeOp → Bool
  | .set k _ => !k.isNaN
  | .rem _ => true

/-- run a history (a failing `rem` — KeyError — leaves the Tree unchanged) -/
def runTreeOps (addr : Nat → Bytes) (es : List (Scalar × Scalar)) : List TreeOp → List (Scalar × Scalar)
  | [] => es
  | .set k v :: ops => runTreeOps addr (treeSet addr es k v) ops
  | .rem k :: ops => runTreeOps addr ((treeRem addr es k).getD es) ops

theorem runTreeOps_treeSeq (addr : Nat → Bytes) (ops : List TreeOp) : ∀ (es : List (Scalar × Scalar)),
    TreeSeq addr es → (∀ o ∈ ops, o.keyOk = true) → TreeSeq addr (runTreeOps addr es ops) := by
  induction ops with
  | nil => intro es h _; exact h
  | cons o ops ih =>
    intro es h hok
    cases o with
    | set k v =>
      have hk : k.isNaN = false := by simpa [TreeOp.keyOk] using hok (.set k v) (by simp)
      exact ih _ (treeSet_treeSeq addr es k v hk h) (fun o ho => hok o (by simp [ho]))
    | rem k =>
      simp only [runTreeOps]
      cases hr : treeRem addr es k with
      | none => simpa using ih es h (fun o ho => hok o (by simp [ho]))
      | some r => simpa using ih r (treeRem_treeSeq addr es k r hr h) (fun o ho => hok o (by simp [ho]))

end Cello.Hash
