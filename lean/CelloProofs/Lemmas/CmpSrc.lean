/-
  Lemmas for the second layer of engine `cmp` (Cello/CmpSrc.lean): a comparison whose SIGN is a strict order is a strict
  order; the libc instances meet (or violate) the ISO C specification of strcmp / memcmp.
-/
import Cello.CmpSrc
import CelloProofs.Lemmas.Cmp

namespace Cello.Cmp
open CelloGen.Cmp (StrOps DispOps Outcome)

/-- a comparison that agrees in SIGN with a strict order `c'` (on the values satisfying `P`) is a strict order there -/
theorem strictCmpOn_of_sgn {α : Type} {P : α → Prop} {c c' : α → α → Int} (h' : StrictCmp c')
    (hs : ∀ a b, P a → P b → sgn (c a b) = c' a b) : StrictCmpOn P Eq c := by
  have key : ∀ a b, P a → P b → (c a b < 0 ↔ c' a b < 0) ∧ (c a b = 0 ↔ c' a b = 0) ∧ (0 < c a b ↔ 0 < c' a b) := by
    intro a b pa pb
    have := hs a b pa pb
    rcases sgn_cases (c a b) with ⟨h1, h2⟩ | ⟨h1, h2⟩ | ⟨h1, h2⟩ <;> rw [h2] at this <;> omega
  refine { antisymm := fun a b pa pb => ?_, le_trans := fun a b d pa pb pd h1 h2 => ?_, zero_iff := fun a b pa pb => ?_ }
  · have f := antisymm_facts (h'.antisymm a b trivial trivial)
    have k1 := key a b pa pb; have k2 := key b a pb pa
    exact antisymm_of_facts (by omega) (by omega)
  · have k1 := key a b pa pb; have k2 := key b d pb pd; have k3 := key a d pa pd
    have := h'.le_trans a b d trivial trivial trivial (by omega) (by omega)
    omega
  · rw [(key a b pa pb).2.1]; exact h'.zero_iff a b trivial trivial

theorem sgn_ofInt32_small (d : Int) (h1 : -256 < d) (h2 : d < 256) : sgn (BitVec.ofInt 32 d).toInt = sgn d := by
  have : (BitVec.ofInt 32 d).toInt = d := by
    have e : ((2 ^ 32 : Nat) : Int) = 4294967296 := by decide
    rw [BitVec.toInt_ofInt]; simp only [Int.bmod, e]; split <;> omega
  rw [this]

theorem bytesCmp_range (a b : List UInt8) : bytesCmp a b = -1 ∨ bytesCmp a b = 0 ∨ bytesCmp a b = 1 :=
  lexCmp_range (c := byteCmp) a b

theorem sgn_bytesCmp (a b : List UInt8) : sgn (bytesCmp a b) = bytesCmp a b := by
  rcases bytesCmp_range a b with h | h | h <;> rw [h] <;> decide

theorem strcmpSpec_sign : StrcmpSpec signStrOps where
  sign a b _ _ := by
    show sgn (BitVec.ofInt 32 (bytesCmp a b)).toInt = bytesCmp a b
    rw [sgn_ofInt32_small _ (by rcases bytesCmp_range a b with h | h | h <;> omega)
      (by rcases bytesCmp_range a b with h | h | h <;> omega), sgn_bytesCmp]

theorem memcmpSpec_sign : MemcmpSpec signMemcmp where
  sign a b n _ _ := by
    show sgn (BitVec.ofInt 32 (bytesCmp (a.take n) (b.take n))).toInt = _
    rw [sgn_ofInt32_small _ (by rcases bytesCmp_range (a.take n) (b.take n) with h | h | h <;> omega)
      (by rcases bytesCmp_range (a.take n) (b.take n) with h | h | h <;> omega), sgn_bytesCmp]

theorem byte_toNat_lt (x : UInt8) : x.toNat < 256 := x.toNat_lt

theorem bytesDiff_bounds : ∀ a b : List UInt8, -256 < bytesDiff a b ∧ bytesDiff a b < 256
  | [], [] => by simp [bytesDiff]
  | [], y :: _ => by have := byte_toNat_lt y; simp only [bytesDiff]; omega
  | x :: _, [] => by have := byte_toNat_lt x; simp only [bytesDiff]; omega
  | x :: xs, y :: ys => by
    have := byte_toNat_lt x; have := byte_toNat_lt y
    simp only [bytesDiff]; split
    · exact bytesDiff_bounds xs ys
    · simp only [byteCmp]; omega

theorem uint8_eq_of_toNat {x y : UInt8} (h : x.toNat = y.toNat) : x = y := UInt8.toNat_inj.mp h

/-- on NUL-free strings the byte difference has the sign `bytesCmp` has -/
theorem sgn_bytesDiff : ∀ a b : List UInt8, NulFree a → NulFree b → sgn (bytesDiff a b) = bytesCmp a b
  | [], [], _, _ => by decide
  | [], y :: ys, _, hb => by
    have hy : y ≠ 0 := hb y (by simp)
    have : 0 < y.toNat := by
      rcases Nat.eq_zero_or_pos y.toNat with h | h
      · exact absurd (uint8_eq_of_toNat (x := y) (y := 0) (by simpa using h)) hy
      · exact h
    have e : bytesCmp [] (y :: ys) = -1 := rfl
    rw [e, sgn_neg_iff]; simp only [bytesDiff]; omega
  | x :: xs, [], ha, _ => by
    have hx : x ≠ 0 := ha x (by simp)
    have : 0 < x.toNat := by
      rcases Nat.eq_zero_or_pos x.toNat with h | h
      · exact absurd (uint8_eq_of_toNat (x := x) (y := 0) (by simpa using h)) hx
      · exact h
    have e : bytesCmp (x :: xs) [] = 1 := rfl
    rw [e, sgn_pos_iff]; simp only [bytesDiff]; omega
  | x :: xs, y :: ys, ha, hb => by
    have ih := sgn_bytesDiff xs ys (fun z hz => ha z (by simp [hz])) (fun z hz => hb z (by simp [hz]))
    have e : bytesCmp (x :: xs) (y :: ys) =
        if byteCmp x y < 0 then -1 else if byteCmp x y > 0 then 1 else bytesCmp xs ys := rfl
    rw [e]; simp only [bytesDiff]
    by_cases hxy : x = y
    · subst hxy; simp [byteCmp, ih]
    · have hne : x.toNat ≠ y.toNat := fun h => hxy (uint8_eq_of_toNat h)
      rw [if_neg hxy]
      rcases Nat.lt_or_gt_of_ne hne with h | h
      · rw [if_pos (by simp only [byteCmp]; omega), sgn_neg_iff]; simp only [byteCmp]; omega
      · rw [if_neg (by simp only [byteCmp]; omega), if_pos (by simp only [byteCmp]; omega), sgn_pos_iff]
        simp only [byteCmp]; omega

theorem strcmpSpec_diff : StrcmpSpec diffStrOps where
  sign a b ha hb := by
    show sgn (BitVec.ofInt 32 (bytesDiff a b)).toInt = bytesCmp a b
    rw [sgn_ofInt32_small _ (bytesDiff_bounds a b).1 (bytesDiff_bounds a b).2, sgn_bytesDiff a b ha hb]

theorem plainSize_cases (t : Nat) : plainSize t = 0 ∨ plainSize t = 4 ∨ plainSize t = 16 := by
  unfold plainSize; split <;> simp

theorem plainSize_bv_ne_zero (t : Nat) : (BitVec.ofNat 64 (plainSize t) != 0) = (plainSize t != 0) := by
  rcases plainSize_cases t with h | h | h <;> rw [h] <;> decide

theorem plainSize_bv_toNat (t : Nat) : (BitVec.ofNat 64 (plainSize t)).toNat = plainSize t := by
  rcases plainSize_cases t with h | h | h <;> rw [h] <;> decide

end Cello.Cmp

namespace Cello.Cmp
theorem sgn_neg_iff' (x : Int) : sgn x < 0 ↔ x < 0 := by rcases sgn_cases x with h | h | h <;> omega
theorem sgn_pos_iff' (x : Int) : 0 < sgn x ↔ 0 < x := by rcases sgn_cases x with h | h | h <;> omega
end Cello.Cmp
