/-
  CelloProofs/Lemmas/StrPrint.lean — helper lemmas for C16, part 4: formatted writes that reach a String through
  `print_to_with` / `show_to` (Cello.Str.emit): with lawful position arithmetic the machine is the run of `format_to`
  calls `printTo` (StrRun.lean), which is a history of `.format` operations; the steps planned for a well-formed format
  are well-formed; the built-in Show instances and the rendered specifications print C strings.
-/
import CelloProofs.Lemmas.StrRun
namespace Cello.Str

/-! ### lawful positions: `emit` is `printTo` -/

theorem adv_ok {Q : PosParams} (hQ : Q.Lawful) (br : Branch) (w : Nat) (t : List Byte) (pos : Nat)
    (h : (Item.call br w t).OK) : Q.adv br pos t.length w = pos + t.length := by
  obtain ⟨_, hl, hp⟩ := h
  by_cases h1 : br = .lit
  · subst h1; rw [hl rfl]; exact hQ.lit pos _
  · by_cases h2 : br = .pct
    · subst h2; obtain ⟨hw, ht⟩ := hp rfl; subst hw; subst ht; exact hQ.pct pos
    · exact hQ.spec br h1 h2 pos _ w

theorem emit_eq_printTo (P : Params) {Q : PosParams} (hQ : Q.Lawful) (J : Nat → Byte) :
    ∀ (items : List Item) (s : Str) (pos : Nat) (stk : List Nat), (∀ it ∈ items, it.OK) →
      emit P Q J s pos stk items = printTo P J s pos (callTexts items)
  | [], s, pos, stk, _ => by simp [emit, callTexts, printTo]
  | .call br w t :: r, s, pos, stk, h => by
    have h1 : (Item.call br w t).OK := h _ (by simp)
    have ih := emit_eq_printTo P hQ J r (formatTo P J s pos t).st (pos + t.length) stk
      (fun it hi => h it (by simp [hi]))
    simp only [emit, callTexts, printTo]
    have e : (formatTo P J s pos t).out = .ok t.length := rfl
    simp only [e, adv_ok hQ br w t pos h1, ih]
  | .enter :: r, s, pos, stk, h => by
    simp only [emit, callTexts]
    exact emit_eq_printTo P hQ J r s pos (pos :: stk) (fun it hi => h it (by simp [hi]))
  | .leave :: r, s, pos, [], h => by
    simp only [emit, callTexts]
    exact emit_eq_printTo P hQ J r s pos [] (fun it hi => h it (by simp [hi]))
  | .leave :: r, s, pos, p0 :: stk, h => by
    simp only [emit, callTexts, hQ.shw]
    exact emit_eq_printTo P hQ J r s pos stk (fun it hi => h it (by simp [hi]))
  | .rejected br :: r, s, pos, stk, h => absurd (h (.rejected br) (by simp)) (by simp [Item.OK])

theorem flatten_callTexts : ∀ items : List Item, (callTexts items).flatten = textOf items
  | [] => rfl
  | .call _ _ t :: r => by
    show t ++ (callTexts r).flatten = t ++ textOf r
    rw [flatten_callTexts r]
  | .enter :: r => by
    show (callTexts r).flatten = [] ++ textOf r
    rw [flatten_callTexts r]; rfl
  | .leave :: r => by
    show (callTexts r).flatten = [] ++ textOf r
    rw [flatten_callTexts r]; rfl
  | .rejected _ :: _ => rfl

theorem callTexts_nulFree : ∀ items : List Item, (∀ it ∈ items, it.OK) → ∀ f ∈ callTexts items, NulFree f
  | [], _, f, hf => by simp [callTexts] at hf
  | .call br w t :: r, h, f, hf => by
    simp only [callTexts, List.mem_cons] at hf
    rcases hf with rfl | hf
    · exact (h (.call br w f) (by simp)).1
    · exact callTexts_nulFree r (fun it hi => h it (by simp [hi])) f hf
  | .enter :: r, h, f, hf => callTexts_nulFree r (fun it hi => h it (by simp [hi])) f (by simpa [callTexts] using hf)
  | .leave :: r, h, f, hf => callTexts_nulFree r (fun it hi => h it (by simp [hi])) f (by simpa [callTexts] using hf)
  | .rejected _ :: _, _, f, hf => by simp [callTexts] at hf

/-- the machine of `print_to_with` on a String target, for lawful sizes and lawful positions -/
theorem emit_ok {P : Params} (hP : P.Lawful) {Q : PosParams} (hQ : Q.Lawful) (J : Nat → Byte) (items : List Item)
    (s : Str) (pos : Nat) (stk : List Nat) (hs : s.WF) (hpos : pos ≤ s.abs.length) (hok : ∀ it ∈ items, it.OK) :
    (emit P Q J s pos stk items).1.WF ∧
    (callTexts items ≠ [] → (emit P Q J s pos stk items).1.abs = s.abs.take pos ++ textOf items) ∧
    (callTexts items = [] → (emit P Q J s pos stk items).1 = s) ∧
    (emit P Q J s pos stk items).2.1 = pos + (textOf items).length ∧
    (emit P Q J s pos stk items).2.2.all Acc.inBounds = true := by
  rw [emit_eq_printTo P hQ J items s pos stk hok]
  have h := printTo_ok hP J (callTexts items) s pos hs hpos (callTexts_nulFree items hok)
  rw [flatten_callTexts] at h
  exact ⟨h.1, h.2.1, fun e => by rw [e]; rfl, h.2.2.1, h.2.2.2⟩

/-! ### … and `printTo` is a history of `.format` operations -/

theorem printTo_eq_run (P : Params) (J : Nat → Byte) : ∀ (items : List Item) (s : Str) (pos : Nat),
    (printTo P J s pos (callTexts items)).1 = (run P J s (asFormats pos items)).1 ∧
    (printTo P J s pos (callTexts items)).2.2 = ((run P J s (asFormats pos items)).2.map Res.log).flatten
  | [], s, pos => by simp [callTexts, asFormats, printTo, run]
  | .call _ _ t :: r, s, pos => by
    have ih := printTo_eq_run P J r (formatTo P J s pos t).st (pos + t.length)
    simp only [callTexts, asFormats, printTo, run, step, List.map_cons, List.flatten_cons]
    exact ⟨ih.1, by rw [ih.2]⟩
  | .enter :: r, s, pos => by simpa [callTexts, asFormats] using printTo_eq_run P J r s pos
  | .leave :: r, s, pos => by simpa [callTexts, asFormats] using printTo_eq_run P J r s pos
  | .rejected _ :: _, s, pos => by simp [callTexts, asFormats, printTo, run]

theorem asFormats_nulFree : ∀ (items : List Item) (pos : Nat), (∀ it ∈ items, it.OK) →
    ∀ op ∈ asFormats pos items, op.NulFree
  | [], _, _, op, h => by simp [asFormats] at h
  | .call br w t :: r, pos, h, op, hop => by
    simp only [asFormats, List.mem_cons] at hop
    rcases hop with rfl | hop
    · exact (h (.call br w t) (by simp)).1
    · exact asFormats_nulFree r _ (fun it hi => h it (by simp [hi])) op hop
  | .enter :: r, pos, h, op, hop => asFormats_nulFree r pos (fun it hi => h it (by simp [hi])) op (by simpa [asFormats] using hop)
  | .leave :: r, pos, h, op, hop => asFormats_nulFree r pos (fun it hi => h it (by simp [hi])) op (by simpa [asFormats] using hop)
  | .rejected _ :: _, _, _, op, hop => by simp [asFormats] at hop

/-! ### a rejected format -/

/-- a `format_to` that libc rejects ends `print_to_with` there: the object and the accesses are those of the steps before it -/
theorem emit_rejected (P : Params) (Q : PosParams) (J : Nat → Byte) (br : Branch) (rest : List Item) :
    ∀ (pre : List Item) (s : Str) (pos : Nat) (stk : List Nat),
      (emit P Q J s pos stk (pre ++ .rejected br :: rest)).1 = (emit P Q J s pos stk pre).1 ∧
      (emit P Q J s pos stk (pre ++ .rejected br :: rest)).2.2 = (emit P Q J s pos stk pre).2.2
  | [], s, pos, stk => by cases stk <;> simp [emit, formatToR]
  | .call b w t :: r, s, pos, stk => by
    have ih := emit_rejected P Q J br rest r (formatTo P J s pos t).st
      (Q.adv b pos (match (formatTo P J s pos t).out with | .ok n => n | _ => 0) w) stk
    simp only [List.cons_append, emit]
    exact ⟨ih.1, congrArg _ ih.2⟩
  | .enter :: r, s, pos, stk => by simpa [emit] using emit_rejected P Q J br rest r s pos (pos :: stk)
  | .leave :: r, s, pos, [] => by simpa [emit] using emit_rejected P Q J br rest r s pos []
  | .leave :: r, s, pos, p0 :: stk => by simpa [emit] using emit_rejected P Q J br rest r s (Q.shw p0 pos) stk
  | .rejected b :: r, s, pos, stk => by cases stk <;> simp [emit]

/-! ### the executable well-formedness of a step -/

theorem Item.okb_iff (it : Item) : it.okb = true ↔ it.OK := by
  cases it with
  | call br w t =>
    simp only [Item.okb, Item.OK, NulFree, Bool.and_eq_true, Bool.or_eq_true, bne_iff_ne, ne_eq,
      beq_iff_eq, List.contains_eq_mem, decide_eq_false_iff_not, Bool.not_eq_eq_eq_not, Bool.not_true]
    constructor
    · rintro ⟨⟨h1, h2⟩, h3⟩
      exact ⟨h1, fun e => by rcases h2 with h2 | h2; exact absurd e h2; exact h2,
        fun e => by rcases h3 with h3 | h3; exact absurd e h3; exact h3⟩
    · rintro ⟨h1, h2, h3⟩
      refine ⟨⟨h1, ?_⟩, ?_⟩
      · by_cases e : br = .lit
        · exact Or.inr (h2 e)
        · exact Or.inl e
      · by_cases e : br = .pct
        · exact Or.inr (h3 e)
        · exact Or.inl e
  | enter => simp [Item.okb, Item.OK]
  | leave => simp [Item.okb, Item.OK]
  | rejected _ => simp [Item.okb, Item.OK]


/-! ### the steps planned for a format are well-formed -/

theorem branchOf_spec {c : Byte} {br : Branch} (h : branchOf c = some br) : br ≠ .lit ∧ br ≠ .pct := by
  unfold branchOf at h
  split at h
  · cases h; decide
  · split at h
    · cases h; decide
    · split at h
      · cases h; decide
      · split at h
        · cases h; decide
        · split at h
          · cases h; decide
          · cases h

theorem plan_ok {α : Type} (prim : List Byte → Byte → α → Option (List Byte)) (shw : α → List Item) :
    ∀ (segs : List Seg) (args : List α) (items : List Item),
      (∀ a ∈ args, ∀ b c t, prim b c a = some t → NulFree t) → (∀ a ∈ args, ∀ it ∈ shw a, it.OK) →
      (∀ t, Seg.lit t ∈ segs → NulFree t) →
      plan prim shw segs args = some items → ∀ it ∈ items, it.OK
  | [], _, items, _, _, _, h, it, hi => by simp only [plan, Option.some.injEq] at h; subst h; simp at hi
  | .lit t :: r, args, items, hprim, hshw, hl, h, it, hi => by
    simp only [plan, Option.map_eq_some_iff] at h
    obtain ⟨l, hp, rfl⟩ := h
    rcases List.mem_cons.mp hi with rfl | hi
    · exact ⟨hl t (by simp), fun _ => rfl, fun e => by cases e⟩
    · exact plan_ok prim shw r args l hprim hshw (fun t ht => hl t (by simp [ht])) hp it hi
  | .pct :: r, args, items, hprim, hshw, hl, h, it, hi => by
    simp only [plan, Option.map_eq_some_iff] at h
    obtain ⟨l, hp, rfl⟩ := h
    rcases List.mem_cons.mp hi with rfl | hi
    · exact ⟨by simp [NulFree], fun e => (by cases e), fun _ => ⟨rfl, rfl⟩⟩
    · exact plan_ok prim shw r args l hprim hshw (fun t ht => hl t (by simp [ht])) hp it hi
  | .spec _ _ :: _, [], items, _, _, _, h, _, _ => by simp [plan] at h
  | .spec b c :: r, a :: as, items, hprim, hshw, hl, h, it, hi => by
    have hprim' : ∀ x ∈ as, ∀ b c t, prim b c x = some t → NulFree t := fun x hx => hprim x (by simp [hx])
    have hshw' : ∀ x ∈ as, ∀ it ∈ shw x, it.OK := fun x hx => hshw x (by simp [hx])
    simp only [plan] at h
    split at h
    · simp only [Option.map_eq_some_iff] at h
      obtain ⟨l, hp, rfl⟩ := h
      simp only [List.mem_cons, List.mem_append] at hi
      rcases hi with (rfl | hi) | rfl | hi
      · trivial
      · exact hshw a (by simp) it hi
      · trivial
      · exact plan_ok prim shw r as l hprim' hshw' (fun t ht => hl t (by simp [ht])) hp it hi
    · split at h
      · rename_i br t hb ht
        simp only [Option.map_eq_some_iff] at h
        obtain ⟨l, hp, rfl⟩ := h
        rcases List.mem_cons.mp hi with rfl | hi
        · exact ⟨hprim a (by simp) b c t ht, fun e => absurd e (branchOf_spec hb).1, fun e => absurd e (branchOf_spec hb).2⟩
        · exact plan_ok prim shw r as l hprim' hshw' (fun t ht => hl t (by simp [ht])) hp it hi
      · cases h

/-! ### the literal runs of a parsed format are pieces of the format -/

theorem mem_of_mem_dropWhile {p : Byte → Bool} {x : Byte} {l : List Byte} (h : x ∈ l.dropWhile p) : x ∈ l :=
  (List.dropWhile_suffix p).subset h

theorem mem_of_mem_takeWhile {p : Byte → Bool} {x : Byte} {l : List Byte} (h : x ∈ l.takeWhile p) : x ∈ l :=
  (List.takeWhile_prefix p).subset h

/-- the literal runs of a parsed format are pieces of the format -/
theorem parseSegs_lit_sub (conv : List Byte) : ∀ (fuel : Nat) (l : List Byte) (segs : List Seg),
    parseSegs conv fuel l = some segs → ∀ t, Seg.lit t ∈ segs → ∀ x ∈ t, x ∈ l
  | 0, _, _, h, _, _, _, _ => by simp [parseSegs] at h
  | _ + 1, [], segs, h, t, ht, _, _ => by
    simp only [parseSegs, Option.some.injEq] at h; subst h; simp at ht
  | fuel + 1, c :: r, segs, h, t, ht, x, hx => by
    simp only [parseSegs] at h
    split at h
    · split at h
      · rename_i r'
        simp only [Option.map_eq_some_iff] at h
        obtain ⟨l', hp, rfl⟩ := h
        rcases List.mem_cons.mp ht with e | ht
        · cases e
        · have := parseSegs_lit_sub conv fuel r' l' hp t ht x hx
          simp [this]
      · split at h
        · cases h
        · rename_i d r' hd
          simp only [Option.map_eq_some_iff] at h
          obtain ⟨l', hp, rfl⟩ := h
          rcases List.mem_cons.mp ht with e | ht
          · cases e
          · have h1 := parseSegs_lit_sub conv fuel r' l' hp t ht x hx
            have h2 : x ∈ r.dropWhile (fun x => !conv.contains x) := by rw [hd]; simp [h1]
            exact List.mem_cons_of_mem _ (mem_of_mem_dropWhile h2)
    · simp only [Option.map_eq_some_iff] at h
      obtain ⟨l', hp, rfl⟩ := h
      rcases List.mem_cons.mp ht with e | ht
      · cases e; exact mem_of_mem_takeWhile hx
      · exact mem_of_mem_dropWhile (parseSegs_lit_sub conv fuel _ l' hp t ht x hx)

theorem parseFmt_lit_nulFree {fmt : List Byte} (hf : NulFree fmt) {segs : List Seg} (h : parseFmt fmt = some segs) :
    ∀ t, Seg.lit t ∈ segs → NulFree t :=
  fun t ht h0 => hf (parseSegs_lit_sub convSet _ fmt segs h t ht 0 h0)

/-! ### the built-in Show instances print C strings -/

theorem digitByte_ne_zero (u : Bool) (d : Nat) : digitByte u d ≠ 0 := by
  unfold digitByte
  split
  · intro h
    have := congrArg UInt8.toNat h
    rw [Nat.toUInt8_eq, UInt8.toNat_ofNat'] at this
    simp only [UInt8.toNat_zero] at this
    omega
  · split
    · intro h
      have := congrArg UInt8.toNat h
      rw [Nat.toUInt8_eq, UInt8.toNat_ofNat'] at this
      simp only [UInt8.toNat_zero] at this
      cases u <;> simp only [Bool.false_eq_true, if_false, if_true] at this <;> omega
    · decide

theorem digitsAux_nulFree (base : Nat) (u : Bool) : ∀ (fuel n : Nat) (acc : List Byte), NulFree acc →
    NulFree (digitsAux base u fuel n acc)
  | 0, _, acc, h => by simpa [digitsAux] using h
  | fuel + 1, n, acc, h => by
    have h' : NulFree (digitByte u (n % base) :: acc) := by
      intro hm
      rcases List.mem_cons.mp hm with e | hm
      · exact digitByte_ne_zero u _ e.symm
      · exact h hm
    simp only [digitsAux]
    split
    · exact h'
    · exact digitsAux_nulFree base u fuel _ _ h'

theorem digitsOf_nulFree (base : Nat) (u : Bool) (n : Nat) : NulFree (digitsOf base u n) :=
  digitsAux_nulFree base u _ _ [] (by simp [NulFree])

theorem nulFree_append {a b : List Byte} (ha : NulFree a) (hb : NulFree b) : NulFree (a ++ b) := by
  simp only [NulFree, List.mem_append, not_or]; exact ⟨ha, hb⟩

theorem nulFree_replicate (n : Nat) {b : Byte} (hb : b ≠ 0) : NulFree (List.replicate n b) := by
  intro h; exact hb (List.eq_of_mem_replicate h).symm

theorem decimal_nulFree (v : Int) : NulFree (decimal v) := by
  unfold decimal
  apply nulFree_append _ (digitsOf_nulFree _ _ _)
  split <;> simp [NulFree]

theorem showChar_ok (b : Byte) (hb : b ≠ 0) : (showChar b).OK := by
  unfold showChar
  split
  · rename_i e he
    refine ⟨?_, fun _ => rfl, fun h => by cases h⟩
    have : e ≠ 0 := by
      have key : ∀ p ∈ escTable, p.2 ≠ 0 := by decide
      obtain ⟨p, hp, rfl⟩ := Option.map_eq_some_iff.mp he
      exact key p (List.mem_of_find?_eq_some hp)
    simp [NulFree, this.symm]
  · exact ⟨by simp [NulFree, hb.symm], fun h => (by cases h), fun h => (by cases h)⟩

mutual
theorem showVal_ok : ∀ v : Val, v.nulFree = true → ∀ it ∈ showVal v, it.OK
  | .int v, _, it, hi => by
    simp only [showVal, List.mem_singleton] at hi; subst hi
    exact ⟨decimal_nulFree v, fun h => (by cases h), fun h => (by cases h)⟩
  | .str t, h, it, hi => by
    simp only [Val.nulFree, Bool.not_eq_true', List.contains_eq_mem, decide_eq_false_iff_not] at h
    simp only [showVal, List.mem_cons, List.mem_append, List.mem_map, List.not_mem_nil, or_false] at hi
    rcases hi with rfl | ⟨b, hb, rfl⟩ | rfl
    · exact ⟨by simp [NulFree], fun _ => rfl, fun h => by cases h⟩
    · exact showChar_ok b (fun e => h (e ▸ hb))
    · exact ⟨by simp [NulFree], fun _ => rfl, fun h => by cases h⟩
  | .tup vs, h, it, hi => by
    simp only [Val.nulFree] at h
    simp only [showVal, List.mem_cons, List.mem_append, List.not_mem_nil, or_false] at hi
    rcases hi with rfl | hi | rfl
    · exact ⟨by simp [NulFree], fun _ => rfl, fun h => by cases h⟩
    · exact showTupItems_ok vs h it hi
    · exact ⟨by simp [NulFree], fun _ => rfl, fun h => by cases h⟩
theorem showTupItems_ok : ∀ vs : List Val, Val.nulFreeAll vs = true → ∀ it ∈ showTupItems vs, it.OK
  | [], _, it, hi => by simp [showTupItems] at hi
  | [v], h, it, hi => by
    simp only [Val.nulFreeAll, Bool.and_true] at h
    simp only [showTupItems, List.mem_cons, List.mem_append, List.not_mem_nil, or_false] at hi
    rcases hi with rfl | hi | rfl
    · trivial
    · exact showVal_ok v h it hi
    · trivial
  | v :: w :: r, h, it, hi => by
    simp only [Val.nulFreeAll, Bool.and_eq_true] at h
    simp only [showTupItems, List.mem_cons, List.mem_append] at hi
    rcases hi with rfl | hi | rfl | rfl | hi
    · trivial
    · exact showVal_ok v h.1 it hi
    · trivial
    · exact ⟨by simp [NulFree], fun _ => rfl, fun h => by cases h⟩
    · exact showTupItems_ok (w :: r) (by simp [Val.nulFreeAll, h.2]) it hi
end

/-! ### the rendered specifications print C strings -/

theorem padTo_nulFree (sp : SpecF) {sign digits : List Byte} (hs : NulFree sign) (hd : NulFree digits) :
    NulFree (padTo sp sign digits) := by
  unfold padTo
  have h32 := nulFree_replicate (sp.width - (sign.length + digits.length)) (b := 32) (by decide)
  have h48 := nulFree_replicate (sp.width - (sign.length + digits.length)) (b := 48) (by decide)
  simp only []
  split
  · exact nulFree_append (nulFree_append hs hd) h32
  · split
    · exact nulFree_append (nulFree_append hs h48) hd
    · exact nulFree_append (nulFree_append h32 hs) hd

theorem sign_nulFree (m : Int) (p : Bool) : NulFree (if m < 0 then [45] else if p = true then [43] else ([] : List Byte)) := by
  split
  · simp [NulFree]
  · split <;> simp [NulFree]

/-- what the rendered part of the printf grammar prints is a C string -/
theorem renderSpec_nulFree (body : List Byte) (conv : Byte) (v : Val) (hv : v.nulFree = true) (t : List Byte)
    (h : renderSpec body conv v = some t) : NulFree t := by
  unfold renderSpec at h
  split at h
  · rename_i sp x _
    simp only [Val.nulFree, Bool.not_eq_true', List.contains_eq_mem, decide_eq_false_iff_not] at hv
    split at h
    · cases h
      apply padTo_nulFree sp (by simp [NulFree])
      split
      · exact fun h0 => hv (List.mem_of_mem_take h0)
      · exact hv
    · cases h
  · rename_i sp n _
    have hnil : NulFree ([] : List Byte) := by simp [NulFree]
    split at h
    · cases h
    · split at h
      · dsimp only at h
        split at h
        · rename_i hb
          cases h
          apply padTo_nulFree sp hnil
          simp only [Bool.and_eq_true, bne_iff_ne, ne_eq] at hb
          simp [NulFree, Ne.symm hb.2]
        · cases h
      · split at h
        · dsimp only at h
          cases h
          exact padTo_nulFree sp (sign_nulFree _ _) (digitsOf_nulFree _ _ _)
        · split at h
          · cases h
          · dsimp only at h
            repeat' split at h
            all_goals first | (cases h; exact padTo_nulFree sp hnil (digitsOf_nulFree _ _ _)) | cases h
  · cases h

/-! ### reading from a String at a position -/

/-- the C string that starts at `s->val + pos` is the abstract string from `pos` on -/
theorem cstrAt_pos {s : Str} (hs : s.WF) {pos : Nat} (hpos : pos ≤ s.abs.length) : cstrAt s.buf pos = s.abs.drop pos := by
  obtain ⟨c, r, rfl, hc, habs⟩ := hs.view
  rw [habs] at hpos ⊢
  exact cstrAt_view c r hc pos hpos

end Cello.Str
