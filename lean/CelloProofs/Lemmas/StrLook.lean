import Cello.StrLook
import CelloProofs.Lemmas.StrRun
/-! lemmas about `Cello.Str.look` (String_Look): it is a history of `clear` / `concat`; reading back what String_Show wrote -/
namespace Cello.Str

theorem run_cons (P : Params) (J : Nat → Byte) (s : Str) (op : Op) (ops : List Op) :
    run P J s (op :: ops) = ((run P J (step P J s op).st ops).1, step P J s op :: (run P J (step P J s op).st ops).2) := by
  simp [run]

/-- the loop of `String_Look` is the history of its `String_Concat` calls -/
theorem lookLoop_eq_run (P : Params) (L : LookParams) (J : Nat → Byte) :
    ∀ (n : Nat) (rest : List Byte), rest.length ≤ n → ∀ (s : Str) (pos : Nat) (lg : List Acc),
      (lookLoop P L J rest s pos lg).st = (run P J s ((lookTexts L rest pos).1.map Op.concat)).1 ∧
      (lookLoop P L J rest s pos lg).out = (lookTexts L rest pos).2 ∧
      (lookLoop P L J rest s pos lg).log = lg ++ ((run P J s ((lookTexts L rest pos).1.map Op.concat)).2.map Res.log).flatten := by
  intro n
  induction n with
  | zero =>
    intro rest h s pos lg
    have : rest = [] := List.eq_nil_of_length_eq_zero (Nat.le_zero.mp h)
    subst this; simp [lookLoop, lookTexts, run]
  | succ n ih =>
    intro rest h s pos lg
    match rest, h with
    | [], _ => simp [lookLoop, lookTexts, run]
    | c :: rest, h =>
      have hl : rest.length ≤ n := by simp at h; omega
      unfold lookLoop lookTexts
      by_cases hq : (c == L.quoteClose) = true
      · simp [hq, run]
      · simp only [hq, Bool.false_eq_true, if_false]
        by_cases he : (c == L.escLead) = true
        · simp only [he, if_true]
          match rest, hl with
          | [], _ => simp [run]
          | e :: rest', hl' =>
            have hl2 : rest'.length ≤ n := by simp at hl'; omega
            cases hlk : L.escapes.lookup e with
            | none => simp [hlk, run]
            | some t =>
              simp only [hlk]
              obtain ⟨h1, h2, h3⟩ := ih rest' hl2 (concat P J s t).st (pos + 2) (lg ++ (concat P J s t).log)
              refine ⟨?_, h2, ?_⟩
              · rw [h1]; simp [run_cons, step]
              · rw [h3]; simp [run_cons, step, List.append_assoc]
        · simp only [he, Bool.false_eq_true, if_false]
          obtain ⟨h1, h2, h3⟩ := ih rest hl (concat P J s [c]).st (pos + 1) (lg ++ (concat P J s [c]).log)
          refine ⟨?_, h2, ?_⟩
          · rw [h1]; simp [run_cons, step]
          · rw [h3]; simp [run_cons, step, List.append_assoc]

/-- `String_Look` is the history `lookOps`: same object, same outcome, same accesses -/
theorem look_eq_run (P : Params) (L : LookParams) (J : Nat → Byte) (s : Str) (inp : List Byte) (pos : Nat) :
    (look P L J s inp pos).st = (run P J s (lookOps L inp pos).1).1 ∧
    (look P L J s inp pos).out = (lookOps L inp pos).2 ∧
    (look P L J s inp pos).log = ((run P J s (lookOps L inp pos).1).2.map Res.log).flatten := by
  unfold look lookOps
  cases hd : inp.drop pos with
  | nil =>
    cases hc : L.clearsFirst <;> simp [run, step]
  | cons c rest =>
    by_cases hq : (c != L.quoteOpen) = true
    · cases hc : L.clearsFirst <;> simp [hq, run, step]
    · simp only [hq, Bool.false_eq_true, if_false]
      cases hc : L.clearsFirst
      · obtain ⟨h1, h2, h3⟩ := lookLoop_eq_run P L J rest.length rest (Nat.le_refl _) s (pos + 1) []
        simp only [Bool.false_eq_true, if_false, List.nil_append]
        exact ⟨h1, h2, by simpa using h3⟩
      · obtain ⟨h1, h2, h3⟩ := lookLoop_eq_run P L J rest.length rest (Nat.le_refl _) (clear P J s).st (pos + 1) (clear P J s).log
        simp only [if_true, List.cons_append, List.nil_append]
        refine ⟨?_, h2, ?_⟩
        · rw [h1]; simp [run_cons, step]
        · rw [h3]; simp [run_cons, step]

theorem lookup_mem {e : Byte} {t : List Byte} : ∀ {l : List (Byte × List Byte)}, l.lookup e = some t → (e, t) ∈ l
  | [], h => by simp [List.lookup] at h
  | (a, b) :: l, h => by
    by_cases hab : e == a
    · have : e = a := by simpa using hab
      subst this
      simp [List.lookup] at h; subst h; simp
    · simp only [List.lookup, hab] at h
      exact List.mem_cons_of_mem _ (lookup_mem h)

theorem unesc_nulFree {e : Byte} {t : List Byte} (h : unescTable.lookup e = some t) : NulFree t := by
  have hm := lookup_mem h
  simp [unescTable, escTable] at hm
  rcases hm with h | h | h | h | h | h | h | h | h | h | h <;> (rw [h.2]; simp [NulFree])

/-- every operand of the `String_Concat` calls is a C string: a character of the (NUL-free) input or a text of the escape table -/
theorem lookTexts_nulFree {L : LookParams} (hL : L.Lawful) :
    ∀ (n : Nat) (rest : List Byte), rest.length ≤ n → NulFree rest → ∀ (pos : Nat), ∀ t ∈ (lookTexts L rest pos).1, NulFree t := by
  intro n
  induction n with
  | zero =>
    intro rest h _ pos t ht
    have : rest = [] := List.eq_nil_of_length_eq_zero (Nat.le_zero.mp h)
    subst this; simp [lookTexts] at ht
  | succ n ih =>
    intro rest h hr pos t ht
    match rest, h, hr with
    | [], _, _ => simp [lookTexts] at ht
    | c :: rest, h, hr =>
      have hl : rest.length ≤ n := by simp at h; omega
      have hc : c ≠ 0 := fun hc0 => hr (by simp [hc0])
      have hrest : NulFree rest := fun h0 => hr (List.mem_cons_of_mem _ h0)
      unfold lookTexts at ht
      by_cases hq : (c == L.quoteClose) = true
      · simp [hq] at ht
      · simp only [hq, Bool.false_eq_true, if_false] at ht
        by_cases he : (c == L.escLead) = true
        · simp only [he, if_true] at ht
          match rest, hl, hrest with
          | [], _, _ => simp at ht
          | e :: rest', hl', hrest' =>
            have hl2 : rest'.length ≤ n := by simp at hl'; omega
            have hrest2 : NulFree rest' := fun h0 => hrest' (List.mem_cons_of_mem _ h0)
            cases hlk : L.escapes.lookup e with
            | none => simp [hlk] at ht
            | some t' =>
              simp only [hlk, List.mem_cons] at ht
              rcases ht with ht | ht
              · subst ht; rw [hL.esc] at hlk; exact unesc_nulFree hlk
              · exact ih rest' hl2 hrest2 _ t ht
        · simp only [he, Bool.false_eq_true, if_false, List.mem_cons] at ht
          rcases ht with ht | ht
          · subst ht; simp [NulFree]; exact fun h => hc h.symm
          · exact ih rest hl hrest _ t ht

theorem lookOps_nulFree {L : LookParams} (hL : L.Lawful) (inp : List Byte) (hin : NulFree inp) (pos : Nat) :
    ∀ op ∈ (lookOps L inp pos).1, op.NulFree := by
  intro op hop
  unfold lookOps at hop
  have hd : NulFree (inp.drop pos) := fun h0 => hin (List.mem_of_mem_drop h0)
  cases hdr : inp.drop pos with
  | nil => simp [hdr, hL.clears] at hop; subst hop; simp [Op.NulFree]
  | cons c rest =>
    rw [hdr] at hd
    have hrest : NulFree rest := fun h0 => hd (List.mem_cons_of_mem _ h0)
    simp only [hdr, hL.clears, if_true] at hop
    by_cases hq : (c != L.quoteOpen) = true
    · simp [hq] at hop; subst hop; simp [Op.NulFree]
    · simp only [hq, Bool.false_eq_true, if_false, List.cons_append, List.nil_append, List.mem_cons, List.mem_map] at hop
      rcases hop with hop | ⟨t, ht, rfl⟩
      · subst hop; simp [Op.NulFree]
      · exact lookTexts_nulFree hL rest.length rest (Nat.le_refl _) hrest _ t ht

theorem spec_run_concats : ∀ (ts : List (List Byte)) (a : List Byte), Spec.run a (ts.map Op.concat) = a ++ ts.flatten
  | [], a => by simp [Spec.run]
  | t :: ts, a => by simp [Spec.run, Spec.step, spec_run_concats ts, List.append_assoc]

/-! ### reading back what `String_Show` wrote -/

theorem escOf_some {b e : Byte} (h : escOf b = some e) : unescTable.lookup e = some [b] ∧ e ≠ 0 := by
  unfold escOf at h
  cases hf : escTable.find? (fun p => p.1 == b) with
  | none => simp [hf] at h
  | some p =>
    simp [hf] at h
    have hm := List.mem_of_find?_eq_some hf
    have hp := List.find?_some hf
    have hb : p.1 = b := by simpa using hp
    subst hb; subst h
    simp [escTable] at hm
    rcases hm with h | h | h | h | h | h | h | h | h | h | h <;> (rw [h]; exact ⟨by decide, by decide⟩)

theorem escOf_none {b : Byte} (h : escOf b = none) : b ≠ 34 ∧ b ≠ 92 := by
  unfold escOf at h
  have hf : escTable.find? (fun p => p.1 == b) = none := by
    cases hf : escTable.find? (fun p => p.1 == b) with
    | none => rfl
    | some p => simp [hf] at h
  rw [List.find?_eq_none] at hf
  constructor
  · intro hb; exact hf (34, 34) (by simp [escTable]) (by simp [hb])
  · intro hb; exact hf (92, 92) (by simp [escTable]) (by simp [hb])

/-- the reader undoes the writer: on the escaped characters of `x` followed by a quote it appends `x` character by
    character and returns the position behind that quote — whatever follows -/
theorem lookTexts_shown {L : LookParams} (hL : L.Lawful) : ∀ (x suf : List Byte) (pos : Nat),
    lookTexts L (x.flatMap escBytes ++ 34 :: suf) pos = (x.map (fun b => [b]), .ok (pos + (x.flatMap escBytes).length + 1))
  | [], suf, pos => by simp only [List.flatMap_nil, List.nil_append, List.map_nil, List.length_nil, Nat.add_zero]; unfold lookTexts; simp [hL.qc]
  | b :: x, suf, pos => by
    cases hb : escOf b with
    | some e =>
      obtain ⟨hlk, _⟩ := escOf_some hb
      have ih := lookTexts_shown hL x suf (pos + 2)
      simp only [List.flatMap_cons, escBytes, hb, List.cons_append, List.nil_append, List.map_cons]
      unfold lookTexts
      simp only [hL.qc, hL.lead, hL.esc, hlk, ih]
      simp; omega
    | none =>
      obtain ⟨h34, h92⟩ := escOf_none hb
      have ih := lookTexts_shown hL x suf (pos + 1)
      simp only [List.flatMap_cons, escBytes, hb, List.cons_append, List.nil_append, List.map_cons]
      unfold lookTexts
      simp only [hL.qc, hL.lead, ih]
      simp [h34, h92]; omega

theorem textOf_showChars : ∀ (t : List Byte) (rest : List Item), (∀ it ∈ rest, ∃ br w tx, it = .call br w tx) →
    textOf (t.map showChar ++ rest) = t.flatMap escBytes ++ textOf rest
  | [], rest, _ => by simp
  | b :: t, rest, h => by
    cases hb : escOf b with
    | some e => simp [showChar, escBytes, hb, textOf, Item.text, textOf_showChars t rest h]
    | none => simp [showChar, escBytes, hb, textOf, Item.text, textOf_showChars t rest h]

/-- `shownText x` is the text `show_to` writes for the String `x` -/
theorem shownText_eq_show (x : List Byte) : textOf (showVal (.str x)) = shownText x := by
  rw [showVal]
  simp only [textOf, Item.text, shownText]
  rw [textOf_showChars x _ (by intro it hit; simp at hit; exact ⟨_, _, _, hit⟩)]
  simp [textOf, Item.text]

theorem flatten_all_inBounds : ∀ (rs : List Res), (∀ r ∈ rs, r.safe = true) → ((rs.map Res.log).flatten).all Acc.inBounds = true
  | [], _ => by simp
  | r :: rs, h => by
    have h1 : r.safe = true := h r (by simp)
    have h2 := flatten_all_inBounds rs (fun r' hr' => h r' (by simp [hr']))
    simp only [List.map_cons, List.flatten_cons, List.all_append, Bool.and_eq_true]
    exact ⟨by simpa [Res.safe] using h1, h2⟩

/-- everything the property says, for one `String_Look` whose `String_Concat` operands are C strings -/
theorem look_ok {P : Params} (hP : P.Lawful) (L : LookParams) (J : Nat → Byte) (s : Str) (hs : s.WF) (inp : List Byte) (pos : Nat)
    (hops : ∀ op ∈ (lookOps L inp pos).1, op.NulFree) :
    (look P L J s inp pos).st.WF ∧ (look P L J s inp pos).st.abs = Spec.run s.abs (lookOps L inp pos).1 ∧
    (look P L J s inp pos).safe = true ∧ (look P L J s inp pos).out = (lookOps L inp pos).2 := by
  obtain ⟨h1, h2, h3⟩ := look_eq_run P L J s inp pos
  obtain ⟨hwf, habs, _, hall⟩ := run_ok hP J (lookOps L inp pos).1 s hs hops
  refine ⟨by rw [h1]; exact hwf, by rw [h1]; exact habs, ?_, h2⟩
  unfold Res.safe; rw [h3]
  exact flatten_all_inBounds _ (fun r hr => (hall r hr).1)

/-- the history `String_Look` makes of a shown String: one `clear`, one `concat` per character of the text shown -/
theorem lookOps_shown {L : LookParams} (hL : L.Lawful) (x pre suf : List Byte) :
    lookOps L (pre ++ shownText x ++ suf) pre.length =
      (Op.clear :: x.map (fun b => Op.concat [b]), .ok (pre.length + (shownText x).length)) := by
  have hd : (pre ++ shownText x ++ suf).drop pre.length = 34 :: (x.flatMap escBytes ++ 34 :: suf) := by
    simp [shownText, List.append_assoc]
  unfold lookOps
  rw [hd]
  simp only [hL.clears, hL.qo, if_true, bne_self_eq_false, Bool.false_eq_true, if_false, lookTexts_shown hL]
  simp [shownText, List.map_map, Function.comp_def]
  omega

theorem lookTexts_outcome (L : LookParams) : ∀ (n : Nat) (rest : List Byte), rest.length ≤ n → ∀ pos,
    (lookTexts L rest pos).2 = .raised .FormatError ∨ ∃ p, (lookTexts L rest pos).2 = .ok p := by
  intro n
  induction n with
  | zero =>
    intro rest h pos
    have : rest = [] := List.eq_nil_of_length_eq_zero (Nat.le_zero.mp h)
    subst this; unfold lookTexts; simp
  | succ n ih =>
    intro rest h pos
    match rest, h with
    | [], _ => unfold lookTexts; simp
    | c :: rest, h =>
      have hl : rest.length ≤ n := by simp at h; omega
      unfold lookTexts
      by_cases hq : (c == L.quoteClose) = true
      · simp [hq]
      · simp only [hq, Bool.false_eq_true, if_false]
        by_cases he : (c == L.escLead) = true
        · simp only [he, if_true]
          match rest, hl with
          | [], _ => simp
          | e :: rest', hl' =>
            have hl2 : rest'.length ≤ n := by simp at hl'; omega
            cases hlk : L.escapes.lookup e with
            | none => simp [hlk]
            | some t => simp only [hlk]; exact ih rest' hl2 _
        · simp only [he, Bool.false_eq_true, if_false]; exact ih rest hl _

theorem lookOps_outcome (L : LookParams) (inp : List Byte) (pos : Nat) :
    (lookOps L inp pos).2 = .raised .FormatError ∨ ∃ p, (lookOps L inp pos).2 = .ok p := by
  unfold lookOps
  cases hd : inp.drop pos with
  | nil => simp
  | cons c rest =>
    by_cases hq : (c != L.quoteOpen) = true
    · simp [hq]
    · simp only [hq, Bool.false_eq_true, if_false]; exact lookTexts_outcome L rest.length rest (Nat.le_refl _) _

theorem flatten_singletons : ∀ (x : List Byte), (x.map (fun b => [b])).flatten = x
  | [] => rfl
  | b :: x => by simp [flatten_singletons x]

end Cello.Str
