/-
  CelloProofs/Lemmas/RegistryOps.lean — the registry operations of Cello/Registry.lean against a ledger of live managed
  addresses: `Core` (the slot array stores exactly one entry per ledger item, with the right root flag, home slot and mark
  bit, and satisfies the robin-hood invariant) is preserved by GC_Rehash / GC_Resize_More / GC_Resize_Less, GC_Set_Ptr,
  GC_Mark_Item, the root-marking loop, GC_Sweep and GC_Rem (destructors that delete nothing: `noK`).
-/
import Cello.Registry
import CelloProofs.Lemmas.RegistryIdeal
import CelloProofs.Lemmas.RegistryLookup
import CelloProofs.Lemmas.RegistryIns
import CelloProofs.Lemmas.RegistryRehash
import CelloProofs.Lemmas.RegistryMark
import CelloProofs.Lemmas.RHSweep
set_option linter.unusedSectionVars false
set_option linter.unusedVariables false
namespace Cello.Registry
open RH

/-- live managed objects: address and the root flag given at allocation -/
abbrev Ledger := List (Nat × Bool)

/-- what the theorems need from the source-derived parameters -/
structure GoodCfg (c : Cfg) : Prop where
  bump : 1 ≤ c.sizeBump
  num : 0 < c.loadNum
  le : c.loadNum ≤ c.loadDen
  last : 0 < c.primes.getLastD 0

/-- destructors that delete nothing -/
def noK : Nat → List Nat := fun _ => []
def noMark : Nat → Bool → Bool := fun _ _ => false

/-- the slot array against the ledger `L`; `mk p root` is the mark bit the entry of `p` carries -/
structure Core (c : Cfg) (r : Reg) (L : Ledger) (mk : Nat → Bool → Bool) : Prop where
  inv : Inv0 (hashOf c) r.slots
  ents : ∀ e, Mem r.slots e ↔ ((e.key, e.val.root) ∈ L ∧ e.val.marked = mk e.key e.val.root ∧ e.home = hashOf c e.key % r.n)

/-- everything but the slot array is unchanged -/
structure SameMeta (r r' : Reg) : Prop where
  nitems : r'.nitems = r.nitems
  mitems : r'.mitems = r.mitems
  minptr : r'.minptr = r.minptr
  maxptr : r'.maxptr = r.maxptr
  running : r'.running = r.running
  pending : r'.pending = r.pending

theorem SameMeta.refl (r : Reg) : SameMeta r r := ⟨rfl, rfl, rfl, rfl, rfl, rfl⟩
theorem SameMeta.trans {a b c : Reg} (h1 : SameMeta a b) (h2 : SameMeta b c) : SameMeta a c :=
  ⟨h2.nitems.trans h1.nitems, h2.mitems.trans h1.mitems, h2.minptr.trans h1.minptr, h2.maxptr.trans h1.maxptr,
   h2.running.trans h1.running, h2.pending.trans h1.pending⟩

theorem ent_eta (e : Ent) (k h : Nat) (rt m : Bool) (hk : e.key = k) (hh : e.home = h) (hr : e.val.root = rt) (hm : e.val.marked = m) :
    e = ⟨k, h, ⟨rt, m⟩⟩ := by
  cases e with | mk k' h' v => cases v with | mk r' m' => simp at *; simp [*]

/-- **GC_Rehash** against the ledger -/
theorem rehash_core (c : Cfg) (r : Reg) (L : Ledger) (h : Core c r L noMark) (ns : Nat) (hroom : occ r.slots < ns) :
    ∃ r', rehash c r ns = some r' ∧ r'.n = ns ∧ SameMeta r r' ∧ Core c r' L noMark ∧ occ r'.slots = occ r.slots := by
  obtain ⟨t, h1, h2, h3, h4⟩ := rehash_spec c r h.inv ns hroom
  refine ⟨_, h1, rfl, ⟨rfl, rfl, rfl, rfl, rfl, rfl⟩, ⟨h2, ?_⟩, h4⟩
  intro e'
  show Mem t e' ↔ _
  rw [h3 e']
  constructor
  · rintro ⟨e, he, rfl⟩
    have := (h.ents e).1 he
    exact ⟨this.1, rfl, rfl⟩
  · rintro ⟨hL, hm, hh⟩
    refine ⟨⟨e'.key, hashOf c e'.key % r.n, ⟨e'.val.root, false⟩⟩, (h.ents _).2 ⟨hL, rfl, rfl⟩, ?_⟩
    exact ent_eta e' _ _ _ _ rfl hh rfl hm

/-- `r.n = 0` only before the first insertion -/
def Room (r : Reg) : Prop := r.nitems < r.n ∨ (r.n = 0 ∧ r.nitems = 0)

/-- **GC_Resize_Less** -/
theorem resizeLess_spec (c : Cfg) (g : GoodCfg c) (r : Reg) (L : Ledger) (h : Core c r L noMark)
    (hc : r.nitems = occ r.slots) (hroom : Room r) :
    ∃ r', resizeLess c r = some r' ∧ SameMeta r r' ∧ Core c r' L noMark ∧ occ r'.slots = occ r.slots ∧ Room r' ∧
      (r'.n = 0 → r.n = 0) := by
  obtain ⟨v, hv, hgt⟩ := idealSize_gt_of c r.nitems g.bump g.num g.le g.last
  unfold resizeLess
  rw [hv]
  simp only []
  by_cases hlt : v < r.n
  · rw [if_pos hlt]
    obtain ⟨r', h1, h2, h3, h4, h5⟩ := rehash_core c r L h v (by omega)
    refine ⟨r', h1, h3, h4, h5, Or.inl (by rw [h3.nitems, h2]; exact hgt), ?_⟩
    intro h0; omega
  · rw [if_neg hlt]
    exact ⟨r, rfl, SameMeta.refl r, h, rfl, hroom, fun h0 => h0⟩

/-- **GC_Resize_More** (after `nitems++`) -/
theorem resizeMore_spec (c : Cfg) (g : GoodCfg c) (r : Reg) (L : Ledger) (h : Core c r L noMark)
    (hc : r.nitems = occ r.slots + 1) :
    ∃ r', resizeMore c r = some r' ∧ SameMeta r r' ∧ Core c r' L noMark ∧ occ r'.slots = occ r.slots ∧ r'.nitems < r'.n := by
  obtain ⟨v, hv, hgt⟩ := idealSize_gt_of c r.nitems g.bump g.num g.le g.last
  unfold resizeMore
  rw [hv]
  simp only []
  by_cases hlt : v > r.n
  · rw [if_pos hlt]
    obtain ⟨r', h1, h2, h3, h4, h5⟩ := rehash_core c r L h v (by omega)
    exact ⟨r', h1, h3, h4, h5, by rw [h3.nitems, h2]; exact hgt⟩
  · rw [if_neg hlt]
    exact ⟨r, rfl, SameMeta.refl r, h, rfl, by omega⟩

theorem exec_fin_noK (c : Cfg) (fuel : Nat) (r : Reg) (p : Nat) : exec c noK (fuel+1) r (.fin p) = some (r, [p]) := by
  simp [exec, noK]

/-- the finalisation loop of GC_Sweep with plain destructors only empties the pending list -/
theorem finaliseLoop_noK (c : Cfg) :
    ∀ (todo i : Nat) (r : Reg) (t : List Nat), ∃ pend' t', finaliseLoop c noK todo i r t = some ({ r with pending := pend' }, t') := by
  intro todo
  induction todo with
  | zero => intro i r t; exact ⟨r.pending, t, rfl⟩
  | succ todo ih =>
    intro i r t
    unfold finaliseLoop
    split
    · rename_i p hp
      simp only [exec_fin_noK]
      obtain ⟨pend', t', h⟩ := ih (i+1) { r with pending := r.pending.setIfInBounds i none } (t ++ [p])
      exact ⟨pend', t', h⟩
    · exact ih (i+1) r t

/-- `Core` does not look at the counters -/
theorem Core.of_slots {c : Cfg} {r r' : Reg} {L : Ledger} {mk : Nat → Bool → Bool} (h : Core c r L mk)
    (hn : r'.n = r.n) (hs : HEq r'.slots r.slots) : Core c r' L mk := by
  cases r with | mk n s a b c' d e f =>
  cases r' with | mk n' s' a' b' c'' d' e' f' =>
  simp only at hn; subst hn
  simp only [heq_eq_eq] at hs; subst hs
  exact ⟨h.inv, h.ents⟩

theorem empty_of_room (r : Reg) (hc : r.nitems = occ r.slots) (hn : 0 < r.n) (hroom : Room r) :
    ∃ z, ∃ hz : z < r.n, r.slots[z] = none := by
  apply exists_empty_of_occ_lt
  rcases hroom with h | h <;> omega

/-- the "Mark Roots" loop -/
theorem markRoots_core (c : Cfg) (r : Reg) (L : Ledger) (mk : Nat → Bool → Bool) (h : Core c r L mk) :
    Core c (markRoots r) L (fun q b => if b then true else mk q b) ∧ occ (markRoots r).slots = occ r.slots ∧
      SameMeta r (markRoots r) ∧ (markRoots r).n = r.n := by
  refine ⟨⟨?_, ?_⟩, occ_map_payload _ _, ⟨rfl, rfl, rfl, rfl, rfl, rfl⟩, rfl⟩
  · exact inv0_map_payload _ _ h.inv _ (by intro e; split <;> rfl) (by intro e; split <;> rfl)
  · intro e'
    show Mem (r.slots.map _) e' ↔ _
    rw [mem_map_payload]
    constructor
    · rintro ⟨e, he, rfl⟩
      obtain ⟨h1, h2, h3⟩ := (h.ents e).1 he
      by_cases hr : e.val.root = true
      · simp only [hr, if_true]; exact ⟨by rw [← hr]; exact h1, trivial, h3⟩
      · simp only [hr]; exact ⟨h1, by simp [h2, hr], h3⟩
    · rintro ⟨h1, h2, h3⟩
      by_cases hr : e'.val.root = true
      · refine ⟨⟨e'.key, e'.home, ⟨e'.val.root, mk e'.key e'.val.root⟩⟩, (h.ents _).2 ⟨h1, rfl, h3⟩, ?_⟩
        simp only [hr, if_true] at h2 ⊢
        exact ent_eta e' _ _ _ _ rfl rfl hr h2
      · refine ⟨e', (h.ents _).2 ⟨h1, by simpa [hr] using h2, h3⟩, ?_⟩
        simp [hr]

/-- what the address filter of GC_Mark_Item needs from the ledger -/
structure Bounded (r : Reg) (L : Ledger) : Prop where
  bounds : ∀ p b, (p, b) ∈ L → r.minptr ≤ p ∧ p ≤ r.maxptr
  aligned : ∀ p b, (p, b) ∈ L → p % 8 = 0
  zero : r.n = 0 → r.minptr = uintptrMax ∧ r.maxptr = 0
  /-- no live object sits at NULL (GC_Rem_Ptr returns at once for NULL, GC_Sweep's last loop skips NULL words) -/
  nonnull : ∀ p b, (p, b) ∈ L → p ≠ 0

/-- **GC_Mark_Item** on one address -/
theorem markSlot_core (c : Cfg) (r : Reg) (L : Ledger) (mk : Nat → Bool → Bool) (h : Core c r L mk)
    (hc : r.nitems = occ r.slots) (hroom : Room r) (hb : Bounded r L) (p : Nat) :
    ∃ s', markSlot c r.minptr r.maxptr r.slots p = some s' ∧
      Core c { r with slots := s' } L (fun q b => mk q b || q == p) ∧ occ s' = occ r.slots := by
  unfold markSlot
  by_cases hf : p % 8 ≠ 0 ∨ p < r.minptr ∨ p > r.maxptr
  · rw [if_pos hf]
    refine ⟨r.slots, rfl, ⟨h.inv, ?_⟩, rfl⟩
    intro e
    rw [h.ents e]
    have : (e.key, e.val.root) ∈ L → (e.key == p) = false := by
      intro hL
      have h1 := hb.bounds _ _ hL
      have h2 := hb.aligned _ _ hL
      simp only [beq_eq_false_iff_ne, ne_eq]
      intro heq; rw [heq] at h1 h2; omega
    constructor
    · rintro ⟨h1, h2, h3⟩; exact ⟨h1, by rw [this h1, Bool.or_false]; exact h2, h3⟩
    · rintro ⟨h1, h2, h3⟩; exact ⟨h1, by rw [this h1, Bool.or_false] at h2; exact h2, h3⟩
  · rw [if_neg hf]
    have hn : 0 < r.n := by
      rcases Nat.eq_zero_or_pos r.n with h0 | h0
      · have := hb.zero h0
        exfalso; apply hf
        rw [this.1, this.2]; unfold uintptrMax; omega
      · exact h0
    rw [dif_pos hn]
    obtain ⟨z, hz, hze⟩ := empty_of_room r hc hn hroom
    obtain ⟨s', hs', hinv, hocc, _, hmem⟩ := markLoop_spec (hashOf c) r.slots (h.inv.toInv z hz hze) hn p
    refine ⟨s', hs', ⟨hinv, ?_⟩, hocc⟩
    intro e'
    show Mem s' e' ↔ _
    rw [hmem e']
    constructor
    · rintro ⟨e, he, rfl⟩
      obtain ⟨h1, h2, h3⟩ := (h.ents e).1 he
      by_cases hk : e.key = p
      · rw [if_pos hk]; exact ⟨h1, by simp [setMark, hk], h3⟩
      · rw [if_neg hk]; exact ⟨h1, by simp [h2, hk], h3⟩
    · rintro ⟨h1, h2, h3⟩
      by_cases hk : e'.key = p
      · refine ⟨⟨e'.key, e'.home, ⟨e'.val.root, mk e'.key e'.val.root⟩⟩, (h.ents _).2 ⟨h1, rfl, h3⟩, ?_⟩
        rw [if_pos hk]
        simp [hk] at h2
        exact ent_eta e' _ _ _ _ rfl rfl rfl h2
      · have hb' : (e'.key == p) = false := by simp [hk]
        rw [hb', Bool.or_false] at h2
        refine ⟨e', (h.ents _).2 ⟨h1, h2, h3⟩, ?_⟩
        rw [if_neg hk]

theorem markAllSlots_core (c : Cfg) (L : Ledger) :
    ∀ (ps : List Nat) (r : Reg) (mk : Nat → Bool → Bool), Core c r L mk → r.nitems = occ r.slots → Room r → Bounded r L →
      ∃ s', markAllSlots c r.minptr r.maxptr r.slots ps = some s' ∧
        Core c { r with slots := s' } L (fun q b => mk q b || ps.contains q) ∧ occ s' = occ r.slots := by
  intro ps
  induction ps with
  | nil =>
    intro r mk h hc hroom hb
    refine ⟨r.slots, rfl, ⟨h.inv, ?_⟩, rfl⟩
    intro e; simpa using h.ents e
  | cons p ps ih =>
    intro r mk h hc hroom hb
    obtain ⟨s1, hs1, hcore1, hocc1⟩ := markSlot_core c r L mk h hc hroom hb p
    have hc1 : ({ r with slots := s1 } : Reg).nitems = occ ({ r with slots := s1 } : Reg).slots := by
      show r.nitems = occ s1; rw [hocc1]; exact hc
    obtain ⟨s', hs', hcore', hocc'⟩ := ih { r with slots := s1 } _ hcore1 hc1 hroom ⟨hb.bounds, hb.aligned, hb.zero, hb.nonnull⟩
    refine ⟨s', by simp only [markAllSlots, hs1]; exact hs', ⟨hcore'.inv, ?_⟩, by rw [hocc']; exact hocc1⟩
    intro e
    have := hcore'.ents e
    show Mem s' e ↔ _
    rw [show Mem ({ ({ r with slots := s1 } : Reg) with slots := s' } : Reg).slots e = Mem s' e from rfl] at this
    rw [this]
    simp only [List.contains_cons, Bool.or_assoc]

/-- GC_Mark_Item on a list of addresses -/
theorem markAll_core (c : Cfg) (r : Reg) (L : Ledger) (mk : Nat → Bool → Bool) (h : Core c r L mk)
    (hc : r.nitems = occ r.slots) (hroom : Room r) (hb : Bounded r L) (ps : List Nat) :
    ∃ r', markAll c r ps = some r' ∧ Core c r' L (fun q b => mk q b || ps.contains q) ∧ occ r'.slots = occ r.slots ∧
      SameMeta r r' ∧ r'.n = r.n := by
  obtain ⟨s', hs', hcore, hocc⟩ := markAllSlots_core c L ps r mk h hc hroom hb
  exact ⟨{ r with slots := s' }, by unfold markAll; rw [hs'], hcore, hocc, ⟨rfl, rfl, rfl, rfl, rfl, rfl⟩, rfl⟩

/-- a collection that marks the addresses for which `mk` holds releases every other non-root object -/
def collectBy (L : Ledger) (mk : Nat → Bool → Bool) : Ledger := L.filter (fun x => x.2 || mk x.1 x.2)

theorem clear_eq (e : Ent) : ({ e with val := { e.val with marked := false } } : Ent) = ⟨e.key, e.home, ⟨e.val.root, false⟩⟩ := rfl

/-- the compaction loop from slot 0 with the fuel GC_Sweep's model gives it -/
theorem sweepLoop_total {n : Nat} (hash : Nat → Nat) (s : Slots Nat Payload n) (ni : Nat) (inv : Inv0 hash s)
    (hroom : occ s < n ∨ n = 0) :
    ∃ (s' : Slots Nat Payload n) (removed : List Ent),
      sweepLoop (2 * n + 1) s 0 #[] ni = some (s', (removed.map (fun x => some x.key)).toArray, ni - removed.length) ∧
      Inv0 hash s' ∧ (∀ e, Mem s e ↔ Mem s' e ∨ e ∈ removed) ∧ (∀ e, Mem s' e → Keep e) ∧ (∀ e, e ∈ removed → ¬ Keep e) ∧
      (∀ e, e ∈ removed → ¬ Mem s' e) ∧ removed.Nodup ∧ occ s' + removed.length = occ s := by
  rcases Nat.eq_zero_or_pos n with h0 | hpos
  · subst h0
    refine ⟨s, [], ?_, inv, by intro e; simp, ?_, by simp, by simp, List.nodup_nil, by simp⟩
    · unfold sweepLoop; simp
    · rintro e ⟨q, hq, _⟩; omega
  · have hlt : occ s < n := by rcases hroom with h | h <;> omega
    obtain ⟨z, hz, hze⟩ := exists_empty_of_occ_lt s hlt
    obtain ⟨s', removed, h1, h2, _, h4, h5, h6, h7, h8, h9⟩ :=
      sweepLoop_spec hash (2 * n + 1) s 0 #[] ni z hz inv hze (by omega) (by intro q hq h; omega) (by omega)
    refine ⟨s', removed, ?_, h2, h4, h5, h6, h7, h8, h9⟩
    rw [h1]; simp

/-- **GC_Sweep** (plain destructors) against the ledger -/
theorem gcSweep_core (c : Cfg) (g : GoodCfg c) (r : Reg) (L : Ledger) (mk : Nat → Bool → Bool) (h : Core c r L mk)
    (hc : r.nitems = occ r.slots) (hroom : Room r) :
    ∃ r' t, gcSweep c noK r = some (r', t) ∧ Core c r' (collectBy L mk) noMark ∧ r'.nitems = occ r'.slots ∧ Room r' ∧
      r'.minptr = r.minptr ∧ r'.maxptr = r.maxptr ∧ r'.running = r.running ∧ r'.pending = #[] ∧ (r'.n = 0 → r.n = 0) := by
  have hroom' : occ r.slots < r.n ∨ r.n = 0 := by rcases hroom with h' | h' <;> omega
  obtain ⟨s', removed, hs', inv', hmem, hkeep, hrem, hnot, hnd, hocc⟩ :=
    sweepLoop_total (hashOf c) r.slots r.nitems h.inv hroom'
  have hcoreA : Core c { r with slots := clearMarks s', nitems := r.nitems - removed.length,
                                pending := (removed.map (fun x => some x.key)).toArray } (collectBy L mk) noMark := by
    refine ⟨inv0_map_payload _ _ inv' _ (fun _ => rfl) (fun _ => rfl), ?_⟩
    intro e'
    show Mem (clearMarks s') e' ↔ _
    unfold clearMarks
    rw [mem_map_payload]
    constructor
    · rintro ⟨e, he, rfl⟩
      have hk := hkeep e he
      obtain ⟨h1, h2, h3⟩ := (h.ents e).1 ((hmem e).2 (Or.inl he))
      refine ⟨?_, rfl, h3⟩
      unfold collectBy
      rw [List.mem_filter]
      refine ⟨h1, ?_⟩
      rcases hk with hk | hk
      · rw [h2] at hk; simp [hk]
      · simp [hk]
    · rintro ⟨h1, h2, h3⟩
      unfold collectBy at h1
      rw [List.mem_filter] at h1
      have hin : Mem r.slots ⟨e'.key, e'.home, ⟨e'.val.root, mk e'.key e'.val.root⟩⟩ := (h.ents _).2 ⟨h1.1, rfl, h3⟩
      rcases (hmem _).1 hin with hs | hr
      · refine ⟨_, hs, ?_⟩
        rw [clear_eq]
        exact ent_eta e' _ _ _ _ rfl rfl rfl h2
      · exfalso
        apply hrem _ hr
        have := h1.2
        simp only [Bool.or_eq_true] at this
        rcases this with h' | h'
        · exact Or.inr h'
        · exact Or.inl h'
  have hcA : (r.nitems - removed.length) = occ (clearMarks s') := by
    unfold clearMarks; rw [occ_map_payload]; omega
  have hroomA : Room { r with slots := clearMarks s', nitems := r.nitems - removed.length,
                              pending := (removed.map (fun x => some x.key)).toArray } := by
    rcases hroom with h' | h'
    · exact Or.inl (show r.nitems - removed.length < r.n by omega)
    · exact Or.inr ⟨h'.1, show r.nitems - removed.length = 0 by omega⟩
  obtain ⟨r1, hr1, hmeta1, hcore1, hocc1, hroom1, hz1⟩ := resizeLess_spec c g _ (collectBy L mk) hcoreA hcA hroomA
  obtain ⟨pend', t', hfin⟩ := finaliseLoop_noK c ({ r1 with mitems := c.mitemsOf r1.nitems } : Reg).pending.size 0
    { r1 with mitems := c.mitemsOf r1.nitems } []
  refine ⟨{ ({ ({ r1 with mitems := c.mitemsOf r1.nitems } : Reg) with pending := pend' } : Reg) with pending := #[] },
    t', ?_, ?_, ?_, ?_, ?_, ?_, ?_, rfl, ?_⟩
  · unfold gcSweep
    rw [hs']; simp only []
    rw [hr1]; simp only []
    rw [hfin]
  · exact hcore1.of_slots rfl HEq.rfl
  · show r1.nitems = occ r1.slots
    rw [hmeta1.nitems, hocc1]; exact hcA
  · exact hroom1
  · exact hmeta1.minptr
  · exact hmeta1.maxptr
  · exact hmeta1.running
  · exact hz1

/-- well-formed registry for the ledger `L` -/
structure WF (c : Cfg) (r : Reg) (L : Ledger) : Prop where
  core : Core c r L noMark
  count : r.nitems = occ r.slots
  room : Room r
  bounded : Bounded r L
  nodup : (L.map Prod.fst).Nodup
  pend : r.pending = #[]

theorem collectBy_sub (L : Ledger) (mk : Nat → Bool → Bool) : ∀ x, x ∈ collectBy L mk → x ∈ L := by
  intro x hx; unfold collectBy at hx; exact (List.mem_filter.1 hx).1

theorem collectBy_nodup (L : Ledger) (mk : Nat → Bool → Bool) (h : (L.map Prod.fst).Nodup) :
    ((collectBy L mk).map Prod.fst).Nodup :=
  List.Nodup.sublist (List.Sublist.map _ List.filter_sublist) h

theorem wf_init (c : Cfg) : WF c Reg.init [] := by
  refine ⟨⟨inv0_replicate_none _ _, ?_⟩, ?_, Or.inr ⟨rfl, rfl⟩, ⟨by simp, by simp, fun _ => ⟨rfl, rfl⟩, by simp⟩, by simp, rfl⟩
  · intro e
    constructor
    · rintro ⟨q, hq, _⟩; exact absurd hq (Nat.not_lt_zero _)
    · rintro ⟨h, _⟩; simp at h
  · show 0 = occ (Vector.replicate 0 none); rw [occ_replicate_none]

/-- **GC_Unmark**: whatever mark bits the entries carry (`mk` arbitrary: a mark phase left by an exception), afterwards
    every entry is unmarked and nothing else changed -/
theorem unmark_core (c : Cfg) (r : Reg) (L : Ledger) (mk : Nat → Bool → Bool) (h : Core c r L mk) :
    Core c (unmark r) L noMark ∧ occ (unmark r).slots = occ r.slots ∧ SameMeta r (unmark r) ∧ (unmark r).n = r.n := by
  refine ⟨⟨inv0_map_payload _ _ h.inv _ (fun _ => rfl) (fun _ => rfl), ?_⟩, occ_map_payload _ _, ⟨rfl, rfl, rfl, rfl, rfl, rfl⟩, rfl⟩
  intro e'
  show Mem (clearMarks r.slots) e' ↔ _
  unfold clearMarks
  rw [mem_map_payload]
  constructor
  · rintro ⟨e, he, rfl⟩
    obtain ⟨h1, _, h3⟩ := (h.ents e).1 he
    exact ⟨h1, rfl, h3⟩
  · rintro ⟨h1, h2, h3⟩
    refine ⟨⟨e'.key, e'.home, ⟨e'.val.root, mk e'.key e'.val.root⟩⟩, (h.ents _).2 ⟨h1, rfl, h3⟩, ?_⟩
    rw [clear_eq]
    exact ent_eta e' _ _ _ _ rfl rfl rfl h2

/-- the state GC_Mark starts from is well formed whichever way the flag says, when the state was (all marks clear) -/
theorem markStart_wf (c : Cfg) (r : Reg) (L : Ledger) (hwf : WF c r L) :
    WF c (markStart c r) L ∧ SameMeta r (markStart c r) ∧ (markStart c r).n = r.n := by
  unfold markStart
  cases c.markUnmarks with
  | false => exact ⟨hwf, SameMeta.refl r, rfl⟩
  | true =>
    obtain ⟨h1, h2, h3, h4⟩ := unmark_core c r L noMark hwf.core
    refine ⟨⟨h1, ?_, hwf.room, ⟨hwf.bounded.bounds, hwf.bounded.aligned, hwf.bounded.zero, hwf.bounded.nonnull⟩, hwf.nodup, hwf.pend⟩, h3, h4⟩
    show r.nitems = occ (unmark r).slots
    rw [h2]; exact hwf.count

theorem gcMark_eq (c : Cfg) (r : Reg) (marks : List Nat) (h : r.nitems ≠ 0) :
    gcMark c r marks = markAll c (markRoots (markStart c r)) marks := by
  unfold gcMark; rw [if_neg h]

/-- a full collection: mark (roots by the root loop when `roots`), GC_Mark_Item on `marks`, sweep -/
theorem collect_wf (c : Cfg) (g : GoodCfg c) (r : Reg) (L : Ledger) (hwf : WF c r L) (roots : Bool) (marks : List Nat) :
    ∃ r1 r' t, markAll c (if roots then markRoots r else r) marks = some r1 ∧ gcSweep c noK r1 = some (r', t) ∧
      WF c r' (L.filter (fun x => x.2 || marks.contains x.1)) ∧ r'.running = r.running := by
  -- state before GC_Mark_Item
  have hpre : ∃ mk0 : Nat → Bool → Bool, Core c (if roots then markRoots r else r) L mk0 ∧
      (if roots then markRoots r else r).nitems = occ (if roots then markRoots r else r).slots ∧
      Room (if roots then markRoots r else r) ∧ Bounded (if roots then markRoots r else r) L ∧
      (if roots then markRoots r else r).n = r.n ∧ SameMeta r (if roots then markRoots r else r) ∧
      (∀ q b, (b || mk0 q b) = b) := by
    cases roots with
    | false => exact ⟨noMark, hwf.core, hwf.count, hwf.room, hwf.bounded, rfl, SameMeta.refl r, by intro q b; simp [noMark]⟩
    | true =>
      obtain ⟨h1, h2, h3, h4⟩ := markRoots_core c r L noMark hwf.core
      refine ⟨_, h1, ?_, ?_, ⟨hwf.bounded.bounds, hwf.bounded.aligned, hwf.bounded.zero, hwf.bounded.nonnull⟩, rfl, h3, ?_⟩
      · show r.nitems = occ (markRoots r).slots; rw [h2]; exact hwf.count
      · exact hwf.room
      · intro q b; cases b <;> simp [noMark]
  obtain ⟨mk0, hcore0, hc0, hroom0, hb0, hn0, hmeta0, hmk0⟩ := hpre
  obtain ⟨r1, hr1, hcore1, hocc1, hmeta1, hn1⟩ := markAll_core c _ L mk0 hcore0 hc0 hroom0 hb0 marks
  have hc1 : r1.nitems = occ r1.slots := by rw [hmeta1.nitems, hocc1]; exact hc0
  have hroom1 : Room r1 := by
    unfold Room at *; rw [hmeta1.nitems, hn1]; exact hroom0
  obtain ⟨r', t, hsw, hcore', hc', hroom', hmin, hmax, hrun, hpend, hz⟩ := gcSweep_core c g r1 L _ hcore1 hc1 hroom1
  have hfilter : collectBy L (fun q b => mk0 q b || marks.contains q) = L.filter (fun x => x.2 || marks.contains x.1) := by
    unfold collectBy
    apply List.filter_congr
    intro x _
    rw [← Bool.or_assoc, hmk0]
  rw [hfilter] at hcore'
  refine ⟨r1, r', t, hr1, hsw, ⟨hcore', hc', hroom', ⟨?_, ?_, ?_, ?_⟩, ?_, hpend⟩, ?_⟩
  · intro p b hp
    rw [hmin, hmax, hmeta1.minptr, hmeta1.maxptr, hmeta0.minptr, hmeta0.maxptr]
    exact hwf.bounded.bounds p b (List.mem_filter.1 hp).1
  · intro p b hp; exact hwf.bounded.aligned p b (List.mem_filter.1 hp).1
  · intro h0
    have := hz h0
    rw [hn1, hn0] at this
    rw [hmin, hmax, hmeta1.minptr, hmeta1.maxptr, hmeta0.minptr, hmeta0.maxptr]
    exact hwf.bounded.zero this
  · intro p b hp; exact hwf.bounded.nonnull p b (List.mem_filter.1 hp).1
  · exact List.Nodup.sublist (List.Sublist.map _ List.filter_sublist) hwf.nodup
  · rw [hrun, hmeta1.running, hmeta0.running]

theorem mem_ledger_of_core {c : Cfg} {r : Reg} {L : Ledger} (h : Core c r L noMark) (p : Nat) :
    Present r.slots p ↔ p ∈ L.map Prod.fst := by
  constructor
  · rintro ⟨i, hi, e, he, hk⟩
    have := ((h.ents e).1 ⟨i, hi, he⟩).1
    rw [← hk]; exact List.mem_map.2 ⟨_, this, rfl⟩
  · intro hp
    obtain ⟨⟨q, b⟩, hqb, hq⟩ := List.mem_map.1 hp
    simp only at hq; subst hq
    obtain ⟨i, hi, he⟩ := (h.ents ⟨q, hashOf c q % r.n, ⟨b, false⟩⟩).2 ⟨hqb, rfl, rfl⟩
    exact ⟨i, hi, _, he, rfl⟩

/-- **GC_Set** (collector running, address not live, plain destructors) -/
theorem gcSet_wf (c : Cfg) (g : GoodCfg c) (r : Reg) (L : Ledger) (hwf : WF c r L) (p : Nat) (root : Bool) (marks : List Nat)
    (hrun : r.running = true) (hfresh : p ∉ L.map Prod.fst) (hal : p % 8 = 0) (hnz : p ≠ 0) :
    ∃ r' t, gcSet c noK r p root marks = some (r', t) ∧
      WF c r' (if r.nitems + 1 > r.mitems then ((p, root) :: L).filter (fun x => x.2 || marks.contains x.1) else (p, root) :: L) ∧
      r'.running = true := by
  have core0 : Core c { r with nitems := r.nitems + 1, maxptr := if p > r.maxptr then p else r.maxptr,
                               minptr := if p < r.minptr then p else r.minptr } L noMark := hwf.core.of_slots rfl HEq.rfl
  obtain ⟨r1, hr1, hmeta1, hcore1, hocc1, hroom1⟩ := resizeMore_spec c g _ L core0
    (show r.nitems + 1 = occ r.slots + 1 by rw [hwf.count])
  have hni1 : r1.nitems = r.nitems + 1 := hmeta1.nitems
  have hocc1' : occ r1.slots = occ r.slots := hocc1
  have hfresh1 : ∀ q (hq : q < r1.n) e, r1.slots[q] = some e → e.key ≠ p := by
    intro q hq e he hk
    apply hfresh
    have := ((hcore1.ents e).1 ⟨q, hq, he⟩).1
    rw [← hk]; exact List.mem_map.2 ⟨_, this, rfl⟩
  obtain ⟨s, hs, invs, mems, occs⟩ := setPtr_spec c r1.slots hcore1.inv p root hfresh1
    (by rw [hocc1', ← hwf.count]; omega)
  have wf2 : WF c { r1 with slots := s } ((p, root) :: L) := by
    refine ⟨⟨invs, ?_⟩, ?_, Or.inl hroom1, ⟨?_, ?_, ?_, ?_⟩, ?_, ?_⟩
    · intro e
      show Mem s e ↔ _
      rw [mems e]
      constructor
      · rintro (h | h)
        · obtain ⟨a, b, d⟩ := (hcore1.ents e).1 h
          exact ⟨List.mem_cons_of_mem _ a, b, d⟩
        · subst h; exact ⟨List.mem_cons_self, rfl, rfl⟩
      · rintro ⟨a, b, d⟩
        rcases List.mem_cons.1 a with h | h
        · right
          have h1 : e.key = p := congrArg Prod.fst h
          have h2 : e.val.root = root := congrArg Prod.snd h
          exact ent_eta e _ _ _ _ h1 (by rw [d, h1]) h2 b
        · exact Or.inl ((hcore1.ents e).2 ⟨h, b, d⟩)
    · show r1.nitems = occ s
      rw [occs, hocc1', hni1, hwf.count]
    · intro q b hq
      show r1.minptr ≤ q ∧ q ≤ r1.maxptr
      rw [hmeta1.minptr, hmeta1.maxptr]
      show (if p < r.minptr then p else r.minptr) ≤ q ∧ q ≤ (if p > r.maxptr then p else r.maxptr)
      rcases List.mem_cons.1 hq with h | h
      · have : q = p := congrArg Prod.fst h
        subst this
        constructor <;> split <;> omega
      · have := hwf.bounded.bounds q b h
        constructor <;> split <;> omega
    · intro q b hq
      rcases List.mem_cons.1 hq with h | h
      · have : q = p := congrArg Prod.fst h
        rw [this]; exact hal
      · exact hwf.bounded.aligned q b h
    · intro h0
      have : r1.n = 0 := h0
      omega
    · intro q b hq
      rcases List.mem_cons.1 hq with h | h
      · have : q = p := congrArg Prod.fst h
        rw [this]; exact hnz
      · exact hwf.bounded.nonnull q b h
    · show (p :: L.map Prod.fst).Nodup
      exact List.nodup_cons.2 ⟨hfresh, hwf.nodup⟩
    · show r1.pending = #[]
      rw [hmeta1.pending]; exact hwf.pend
  have hrun2 : ({ r1 with slots := s } : Reg).running = true := by
    show r1.running = true; rw [hmeta1.running]; exact hrun
  have hth : (({ r1 with slots := s } : Reg).nitems > ({ r1 with slots := s } : Reg).mitems) ↔ r.nitems + 1 > r.mitems := by
    show r1.nitems > r1.mitems ↔ _
    rw [hni1, hmeta1.mitems]
  have hnr : (!r.running) = false := by rw [hrun]; rfl
  unfold gcSet
  rw [hnr]
  simp only [Bool.false_eq_true, if_false]
  rw [hr1]; simp only []
  rw [hs]; simp only []
  by_cases h : r.nitems + 1 > r.mitems
  · rw [if_pos (hth.2 h), if_pos h]
    have hnz2 : ({ r1 with slots := s } : Reg).nitems ≠ 0 := by show r1.nitems ≠ 0; omega
    rw [gcMark_eq c _ marks hnz2]
    obtain ⟨wf3, hmeta3, _⟩ := markStart_wf c _ _ wf2
    obtain ⟨ra, r', t, hra, hsw, hwf', hrun'⟩ := collect_wf c g _ _ wf3 true marks
    simp only [if_true] at hra
    rw [hra]
    exact ⟨r', t, hsw, hwf', by rw [hrun', hmeta3.running]; exact hrun2⟩
  · rw [if_neg (fun h' => h (hth.1 h')), if_neg h]
    exact ⟨_, [], rfl, wf2, hrun2⟩

theorem filter_ne_self (L : Ledger) (x : Nat) (h : x ∉ L.map Prod.fst) : L.filter (fun y => y.1 != x) = L := by
  apply List.filter_eq_self.2
  intro y hy
  simp only [bne_iff_ne, ne_eq]
  intro heq; apply h; rw [← heq]; exact List.mem_map.2 ⟨y, hy, rfl⟩

/-- **GC_Rem_Ptr** up to its final `dealloc(destruct(…))` -/
theorem remPtr_wf (c : Cfg) (r : Reg) (L : Ledger) (hwf : WF c r L) (x : Nat) :
    ∃ r1 fi, remPtr c r x = some (r1, fi) ∧ Core c r1 (L.filter (fun y => y.1 != x)) noMark ∧ r1.nitems = occ r1.slots ∧
      Room r1 ∧ r1.n = r.n ∧ r1.mitems = r.mitems ∧ r1.minptr = r.minptr ∧ r1.maxptr = r.maxptr ∧ r1.running = r.running ∧
      r1.pending = #[] ∧ (fi = none ∨ fi = some x) := by
  unfold remPtr
  rcases Nat.eq_zero_or_pos r.n with h0 | hn
  · rw [dif_neg (by omega)]
    have hx : x ∉ L.map Prod.fst := by
      intro hx
      obtain ⟨i, hi, _⟩ := (mem_ledger_of_core hwf.core x).2 hx
      omega
    rw [filter_ne_self L x hx]
    exact ⟨r, none, rfl, hwf.core, hwf.count, hwf.room, rfl, rfl, rfl, rfl, rfl, hwf.pend, Or.inl rfl⟩
  · rw [dif_pos hn]
    by_cases hg : (c.remNullGuard && x == 0) = true
    · -- `ptr is NULL`: nothing to remove, NULL is not a live object
      rw [if_pos hg]
      have hx0 : x = 0 := by simpa using (Bool.and_eq_true_iff.1 hg).2
      have hx : x ∉ L.map Prod.fst := by
        intro hx
        obtain ⟨⟨q, b⟩, hqb, hq⟩ := List.mem_map.1 hx
        exact hwf.bounded.nonnull q b hqb (by simpa [hx0] using hq)
      rw [filter_ne_self L x hx]
      exact ⟨r, none, rfl, hwf.core, hwf.count, hwf.room, rfl, rfl, rfl, rfl, rfl, hwf.pend, Or.inl rfl⟩
    rw [if_neg hg]
    simp only [hwf.pend, Array.findIdx?_empty]
    obtain ⟨z, hz, hze⟩ := empty_of_room r hwf.count hn hwf.room
    have inv : Inv (hashOf c) r.slots := hwf.core.inv.toInv z hz hze
    obtain ⟨⟨res, hres⟩, hfound, hnone⟩ := find_correct (hashOf c) r.slots inv hn x
    rw [hres]
    cases res with
    | none =>
      have hx : x ∉ L.map Prod.fst := fun hx => hnone hres ((mem_ledger_of_core hwf.core x).2 hx)
      rw [filter_ne_self L x hx]
      exact ⟨r, none, rfl, hwf.core, hwf.count, hwf.room, rfl, rfl, rfl, rfl, rfl, hwf.pend, Or.inl rfl⟩
    | some i =>
      obtain ⟨e, he, hk⟩ := hfound i hres
      obtain ⟨s', hs', inv', hz', hmem', hocc', _⟩ := eraseAt_spec (hashOf c) r.slots hwf.core.inv i.1 i.2 e he z hz hze
      simp only [hs']
      refine ⟨_, some x, rfl, ⟨inv', ?_⟩, ?_, Or.inl ?_, rfl, rfl, rfl, rfl, rfl, rfl, Or.inr rfl⟩
      · intro e'
        show Mem s' e' ↔ _
        rw [hmem' e', hwf.core.ents e', List.mem_filter]
        constructor
        · rintro ⟨⟨a, b, d⟩, hne⟩
          refine ⟨⟨a, ?_⟩, b, d⟩
          simp only [bne_iff_ne, ne_eq]
          intro hkx
          obtain ⟨q, hq, hq'⟩ := (hwf.core.ents e').2 ⟨a, b, d⟩
          have := hwf.core.inv.distinct q i.1 hq i.2 e' e hq' he (by rw [hkx, hk])
          subst this
          rw [he] at hq'; cases hq'; exact hne rfl
        · rintro ⟨⟨a, hne⟩, b, d⟩
          refine ⟨⟨a, b, d⟩, ?_⟩
          intro heq; subst heq
          simp only [bne_iff_ne, ne_eq] at hne
          exact hne hk
      · show r.nitems - 1 = occ s'
        rw [hwf.count]; omega
      · show r.nitems - 1 < r.n
        rcases hwf.room with h | h <;> omega

theorem exec_rem_succ (c : Cfg) (K : Nat → List Nat) (f : Nat) (r : Reg) (x : Nat) :
    exec c K (f+1) r (.rem x) =
      if !r.running then some (r, [])
      else
        match remPtr c r x with
        | none => none
        | some (r1, fi) =>
          match (match fi with
                 | none => some (r1, [])
                 | some p => exec c K f r1 (.fin p)) with
          | none => none
          | some (r2, t) =>
            match resizeLess c r2 with
            | none => none
            | some r3 => some ({ r3 with mitems := c.mitemsOf r3.nitems }, t) := by
  rw [exec]; rfl

/-- **GC_Rem** (collector running, plain destructors) -/
theorem gcRem_wf (c : Cfg) (g : GoodCfg c) (r : Reg) (L : Ledger) (hwf : WF c r L) (x : Nat) (hrun : r.running = true) :
    ∃ r' t, gcRem c noK r x = some (r', t) ∧ WF c r' (L.filter (fun y => y.1 != x)) ∧ r'.running = true := by
  obtain ⟨r1, fi, hrem, hcore1, hc1, hroom1, hn1, hmi1, hmin1, hmax1, hrun1, hpend1, hfi⟩ := remPtr_wf c r L hwf x
  obtain ⟨r3, hr3, hmeta3, hcore3, hocc3, hroom3, hz3⟩ := resizeLess_spec c g r1 _ hcore1 hc1 hroom1
  have hfuel : nestFuel r = (2 * (r.nitems + r.pending.size) + 2) + 1 + 1 := by unfold nestFuel; omega
  refine ⟨{ r3 with mitems := c.mitemsOf r3.nitems }, fi.toList, ?_, ⟨hcore3.of_slots rfl HEq.rfl, ?_, hroom3, ⟨?_, ?_, ?_, ?_⟩, ?_, ?_⟩, ?_⟩
  · unfold gcRem
    have hnr : (!r.running) = false := by rw [hrun]; rfl
    rw [hfuel, exec_rem_succ, hnr]
    simp only [Bool.false_eq_true, if_false]
    rw [hrem]; simp only []
    rcases hfi with h | h <;> subst h <;> simp only [exec_fin_noK, hr3, Option.toList]
  · show r3.nitems = occ r3.slots
    rw [hmeta3.nitems, hocc3]; exact hc1
  · intro p b hp
    show r3.minptr ≤ p ∧ p ≤ r3.maxptr
    rw [hmeta3.minptr, hmeta3.maxptr, hmin1, hmax1]
    exact hwf.bounded.bounds p b (List.mem_filter.1 hp).1
  · intro p b hp; exact hwf.bounded.aligned p b (List.mem_filter.1 hp).1
  · intro h0
    show r3.minptr = uintptrMax ∧ r3.maxptr = 0
    rw [hmeta3.minptr, hmeta3.maxptr, hmin1, hmax1]
    exact hwf.bounded.zero (by rw [← hn1]; exact hz3 h0)
  · intro p b hp; exact hwf.bounded.nonnull p b (List.mem_filter.1 hp).1
  · exact List.Nodup.sublist (List.Sublist.map _ List.filter_sublist) hwf.nodup
  · show r3.pending = #[]
    rw [hmeta3.pending]; exact hpend1
  · show r3.running = true
    rw [hmeta3.running, hrun1]; exact hrun

/-- `mem` under `WF`: exactly the ledger's addresses -/
theorem wf_mem (c : Cfg) (r : Reg) (L : Ledger) (hwf : WF c r L) (p : Nat) :
    memPtr c r p = some (decide (p ∈ L.map Prod.fst)) := by
  unfold memPtr
  rcases Nat.eq_zero_or_pos r.n with h0 | hn
  · rw [dif_neg (by omega)]
    have hx : p ∉ L.map Prod.fst := by
      intro hx
      obtain ⟨i, hi, _⟩ := (mem_ledger_of_core hwf.core p).2 hx
      omega
    simp [hx]
  · rw [dif_pos hn]
    obtain ⟨z, hz, hze⟩ := empty_of_room r hwf.count hn hwf.room
    have inv : Inv (hashOf c) r.slots := hwf.core.inv.toInv z hz hze
    have hl := lookup_correct (hashOf c) r.slots inv hn p
    by_cases hp : p ∈ L.map Prod.fst
    · rw [hl.1.2 ((mem_ledger_of_core hwf.core p).2 hp)]; simp [hp]
    · rw [hl.2.2 (fun h => hp ((mem_ledger_of_core hwf.core p).1 h))]; simp [hp]

theorem length_filterMap_key (l : List (Option Ent)) :
    (l.filterMap (fun o => o.map (fun e => e.key))).length = l.countP Option.isSome := by
  induction l with
  | nil => rfl
  | cons a l ih => cases a <;> simp [ih]

/-- the number of occupied slots is the number of ledger items -/
theorem wf_count (c : Cfg) (r : Reg) (L : Ledger) (hwf : WF c r L) : r.nitems = L.length := by
  rw [hwf.count]
  have h1 : (r.slots.toList.filterMap (fun o => o.map (fun e => e.key))).length = occ r.slots := by
    rw [length_filterMap_key]; unfold occ; simp
  have h2 : (r.slots.toList.filterMap (fun o => o.map (fun e => e.key))).Nodup := by
    unfold List.Nodup
    rw [List.pairwise_filterMap]
    refine List.Pairwise.imp ?_ (pairwise_toList _ _ hwf.core.inv)
    intro a b hab ka hka kb hkb
    cases a with
    | none => simp at hka
    | some ea =>
      cases b with
      | none => simp at hkb
      | some eb =>
        simp at hka hkb
        rw [← hka, ← hkb]; exact hab ea eb rfl rfl
  have h3 : ∀ p, p ∈ r.slots.toList.filterMap (fun o => o.map (fun e => e.key)) ↔ p ∈ L.map Prod.fst := by
    intro p
    rw [← mem_ledger_of_core hwf.core p, List.mem_filterMap]
    constructor
    · rintro ⟨o, ho, hk⟩
      cases o with
      | none => simp at hk
      | some e =>
        simp at hk
        obtain ⟨i, hi, he⟩ := (mem_toList_iff_Mem _ _).1 ho
        exact ⟨i, hi, e, he, hk⟩
    · rintro ⟨i, hi, e, he, hk⟩
      exact ⟨some e, (mem_toList_iff_Mem _ _).2 ⟨i, hi, he⟩, by simp [hk]⟩
  have := ((List.perm_ext_iff_of_nodup h2 hwf.nodup).2 h3).length_eq
  rw [h1, List.length_map] at this
  exact this

end Cello.Registry
