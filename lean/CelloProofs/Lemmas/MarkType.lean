/-
  Lemmas for the header's type pointer (Cello/HeapRec.lean, `TyMap` … `TState.run`): under `typesAnchored` no mark phase meets a released Type,
  the typed history is the untyped one, and reachability with the header edge is reachability; the witness of KF-C01-type-outlived.
-/
import Cello.Heap
import Cello.HeapRec
import CelloProofs.Lemmas.Mark
import CelloProofs.Lemmas.MarkBits
import CelloProofs.Lemmas.MarkRelease
import CelloProofs.Lemmas.MarkWitness

namespace Cello.Heap

section typed
variable {σ : Type} (S : MarkSet σ) (c : Cfg)

theorem typesAnchored_spec {h : Heap} {ty : TyMap} {thread : Obj} {stack : List Word}
    (ha : typesAnchored S c h ty thread stack = true) (a : Addr) (hreg : (h.lookup a).isSome = true) (t : Addr) (ht : ty a = some t) :
    ∃ e, h.lookup t = some e ∧ (e.root = true ∨ S.mem t (gcMark S c h thread stack) = true) := by
  obtain ⟨e0, he0⟩ := Option.isSome_iff_exists.mp hreg
  have hmem : a ∈ h.regs := h.complete a e0 he0
  unfold typesAnchored at ha
  have := List.all_eq_true.mp ha a hmem
  simp only [he0, Option.isNone_some, Bool.false_or, ht] at this
  cases hl : h.lookup t with
  | none => simp [hl] at this
  | some e =>
    simp only [hl, Bool.or_eq_true] at this
    exact ⟨e, rfl, this⟩

theorem typesAnchored_closed {h : Heap} {ty : TyMap} {thread : Obj} {stack : List Word}
    (ha : typesAnchored S c h ty thread stack = true) (a : Addr) (hreg : (h.lookup a).isSome = true) :
    typeDangling h ty a = false := by
  unfold typeDangling
  cases ht : ty a with
  | none => rfl
  | some t =>
    obtain ⟨e, hl, _⟩ := typesAnchored_spec S c ha a hreg t ht
    simp [hl]

theorem ubNow_false_of_anchored (cf : Bool) (s : TState)
    (ha : typesAnchored S c s.g.heap s.ty s.g.thread s.g.stack = true) (o : GOp) : s.ubNow S c cf o = false := by
  cases o with
  | base op =>
    cases op <;> try rfl
    simp only [TState.ubNow, markUB]
    rw [List.any_eq_false]
    intro a _
    cases hreg : (s.g.heap.lookup a).isSome with
    | false => simp
    | true => simp [typesAnchored_closed S c ha a hreg]
  | raise k =>
    simp only [TState.ubNow]
    rw [List.any_eq_false]
    intro a _
    cases hreg : (s.g.heap.lookup a).isSome with
    | false => simp
    | true => simp [typesAnchored_closed S c ha a hreg]
  | rehash => rfl

theorem ubNow_false_of_not_marks (cf : Bool) (s : TState) (o : GOp) (hm : o.marks = false) : s.ubNow S c cf o = false := by
  cases o with
  | base op => cases op <;> first | rfl | (simp [GOp.marks] at hm)
  | raise k => simp [GOp.marks] at hm
  | rehash => rfl

/-- an operation that yields a collection event is a mark phase, and the event records the state it ran on -/
theorem gstep_event_marks (cf : Bool) (g : GState) (o : GOp) (e : GEvent) (he : (g.step S c cf o).2 = some e) :
    o.marks = true ∧ e.before = g := by
  cases o with
  | base op =>
    cases op <;> simp only [GState.step] at he <;> cases he
    exact ⟨rfl, rfl⟩
  | raise k => simp only [GState.step] at he; cases he
  | rehash => simp only [GState.step] at he; cases he

/-- **under `TState.anchored` the typed history is the untyped one**: no mark phase meets a released Type, the events are those of
    `GState.run` on the operations the collector sees, and `typesAnchored` held when each of them began -/
theorem run_of_anchored (cf : Bool) : ∀ (ops : List TOp) (s : TState), TState.anchored S c cf ops s = true →
    ∃ s2 evs, TState.run S c cf ops s = some (s2, evs) ∧
      evs.map (·.ev) = (GState.run S c cf (TOp.erase ops) s.g).2 ∧ s2.g = (GState.run S c cf (TOp.erase ops) s.g).1 ∧
      ∀ tev ∈ evs, typesAnchored S c tev.ev.before.heap tev.ty tev.ev.before.thread tev.ev.before.stack = true := by
  intro ops
  induction ops with
  | nil => intro s _; exact ⟨s, [], rfl, rfl, rfl, fun _ h => by cases h⟩
  | cons op ops ih =>
    intro s ha
    cases op with
    | retag a t =>
      simp only [TState.anchored] at ha
      obtain ⟨s2, evs, h1, h2, h3, h4⟩ := ih (s.retag a t) ha
      exact ⟨s2, evs, by simpa [TState.run] using h1, by simpa [TOp.erase, TState.retag] using h2,
        by simpa [TOp.erase, TState.retag] using h3, h4⟩
    | op o =>
      simp only [TState.anchored, Bool.and_eq_true, Bool.or_eq_true, Bool.not_eq_true'] at ha
      obtain ⟨ha1, ha2⟩ := ha
      obtain ⟨s2, evs, h1, h2, h3, h4⟩ := ih { s with g := (s.g.step S c cf o).1 } ha2
      have hub : s.ubNow S c cf o = false := by
        rcases ha1 with h | h
        · exact ubNow_false_of_not_marks S c cf s o h
        · exact ubNow_false_of_anchored S c cf s h o
      cases hev : (s.g.step S c cf o).2 with
      | none =>
        refine ⟨s2, evs, by simp [TState.run, hub, h1, hev], ?_, ?_, h4⟩
        · simpa [TOp.erase, GState.run, hev] using h2
        · simpa [TOp.erase, GState.run] using h3
      | some e =>
        refine ⟨s2, ⟨e, s.ty⟩ :: evs, by simp [TState.run, hub, h1, hev], ?_, ?_, ?_⟩
        · simpa [TOp.erase, GState.run, hev] using h2
        · simpa [TOp.erase, GState.run] using h3
        · intro tev htev
          rcases List.mem_cons.mp htev with h | h
          · subst h
            obtain ⟨hm, hb⟩ := gstep_event_marks S c cf s.g o e hev
            rcases ha1 with h' | h'
            · rw [h'] at hm; cases hm
            · show typesAnchored S c e.before.heap s.ty e.before.thread e.before.stack = true
              rw [hb]; exact h'
          · exact h4 tev h

/-- under `typesAnchored`, reachability with the header edge is reachability along the words the collector reads -/
theorem reachableT_reachable {h : Heap} (wf : h.WF) {ty : TyMap} {thread : Obj} {stack : List Word}
    (ha : typesAnchored S c h ty thread stack = true) (a : Addr)
    (hr : ReachableT c h ty (rootWords c h thread stack) a) : Reachable c h (rootWords c h thread stack) a := by
  induction hr with
  | root hm hreg => exact .root hm hreg
  | step _ hp hreg ih => exact .step ih hp hreg
  | hdr hra ht hreg ih =>
    rename_i a t
    have hrega : (h.lookup a).isSome = true := by
      cases ih with
      | root _ h1 => exact h1
      | step _ _ h1 => exact h1
    obtain ⟨e, hl, hor⟩ := typesAnchored_spec S c ha a hrega t ht
    rcases hor with h1 | h1
    · refine .root ?_ hreg
      simp only [rootWords, List.mem_append]
      exact .inr (.inl (mem_rootAddrs hl h1))
    · exact (reachable_iff_reach wf _ _).mpr ((gcMark_iff_reach S c h thread stack t).mp h1)

end typed

/-! ### the witness of KF-C01-type-outlived: `typeHeap` (x at 4096 on the stack, its run-time Type at 4160 referenced by x's header only) -/

theorem typeHeap_wf : typeHeap.WF := by
  constructor <;> intro a e he <;> simp only [typeHeap] at he ⊢ <;>
    (repeat' split at he) <;> first | (cases he) | (subst_vars; decide) | skip
  all_goals simp_all

theorem typeHeap_roots (ws : List Word) : rootWords Cfg.current typeHeap emptyThread ws = ws := by
  have h1 : tlsWords Cfg.current emptyThread = [] := by decide
  have h2 : rootAddrs typeHeap = [] := by decide
  simp [rootWords, h1, h2]

theorem typeHeap_x_reach (ws : List Word) (hx : 4096 ∈ ws) :
    Reachable Cfg.current typeHeap (rootWords Cfg.current typeHeap emptyThread ws) 4096 :=
  .root (by rw [typeHeap_roots]; exact hx) (by decide)

/-- the header edge makes the Type reachable -/
theorem typeHeap_type_reachT :
    ReachableT Cfg.current typeHeap typeTy (rootWords Cfg.current typeHeap emptyThread [4096]) 4160 :=
  .hdr (a := 4096) (.root (by rw [typeHeap_roots]; simp) (by decide)) rfl (by decide)

/-- … the words the collector reads do not -/
theorem typeHeap_type_unreachable :
    ¬ Reachable Cfg.current typeHeap (rootWords Cfg.current typeHeap emptyThread [4096]) 4160 := by
  intro hr
  have key : ∀ y, Reachable Cfg.current typeHeap (rootWords Cfg.current typeHeap emptyThread [4096]) y → y = 4096 := by
    intro y hy
    induction hy with
    | root hmem _ => rw [typeHeap_roots] at hmem; simpa using hmem
    | step _ hp hreg ih =>
      subst ih
      obtain ⟨e, hl, hb⟩ := hp
      have h2 : typeHeap.lookup 4096 = some ⟨.raw "Probe" [7], false⟩ := rfl
      rw [h2] at hl
      have he := (Option.some.inj hl).symm
      subst he
      have hf : fields Cfg.current (.raw "Probe" [7]) = [7] := by decide
      rw [hf] at hb
      rename_i b _
      have hb7 : b = 7 := by simpa using hb
      subst hb7
      exact absurd hreg (by decide)
  exact absurd (key 4160 hr) (by decide)

theorem typeHeap_no_owner : ∀ b ∈ typeHeap.regs, typeHeap.ownsAt b = [] := by decide

/-- one collection with x on the stack: the Type is put on the pending list, x stays, and the registry afterwards has x without its Type -/
theorem typeHeap_collect :
    4160 ∈ (collectAll listSet Cfg.current typeHeap emptyThread [4096] []).pending ∧
    (collectAll listSet Cfg.current typeHeap emptyThread [4096] []).heap.lookup 4096 = some ⟨.raw "Probe" [7], false⟩ ∧
    (collectAll listSet Cfg.current typeHeap emptyThread [4096] []).heap.lookup 4160 = none := by
  have hbox := boxExclusive_of_no_owner listSet Cfg.current typeHeap emptyThread [4096] [] typeHeap_no_owner
  have hx : listSet.mem 4096 (gcMarkFrom listSet Cfg.current typeHeap emptyThread [4096] []) = true :=
    (gcMark_iff_reach listSet Cfg.current typeHeap emptyThread [4096] 4096).mpr
      ((reachable_iff_reach typeHeap_wf _ _).mp (typeHeap_x_reach [4096] (by simp)))
  have ht : listSet.mem 4160 (gcMarkFrom listSet Cfg.current typeHeap emptyThread [4096] []) = false := by
    cases hm : listSet.mem 4160 (gcMarkFrom listSet Cfg.current typeHeap emptyThread [4096] []) with
    | false => rfl
    | true =>
      exact absurd ((reachable_iff_reach typeHeap_wf _ _).mpr
        ((gcMark_iff_reach listSet Cfg.current typeHeap emptyThread [4096] 4160).mp hm)) typeHeap_type_unreachable
  have hsw : sweeps listSet typeHeap (gcMarkFrom listSet Cfg.current typeHeap emptyThread [4096] []) 4160 = true :=
    (sweeps_iff listSet typeHeap _ 4160).mpr ⟨⟨.raw "Type" [0], false⟩, rfl, rfl, ht⟩
  obtain ⟨k1, _, _⟩ := collectAll_keeps_marked listSet Cfg.current typeHeap emptyThread [4096] [] 4096 hx hbox
  have hown : ownsSurvivor listSet typeHeap (gcMarkFrom listSet Cfg.current typeHeap emptyThread [4096] []) = false := by
    simpa [boxExclusive] using hbox
  obtain ⟨r1, _⟩ := release_within_pending typeHeap (collectFrom listSet Cfg.current typeHeap emptyThread [4096] []).1
    (collectFrom listSet Cfg.current typeHeap emptyThread [4096] []).2 (ownsSurvivor_false listSet typeHeap hown)
  refine ⟨?_, k1, ?_⟩
  · rw [collectAll_pending]
    exact (mem_pending listSet typeHeap _ 4160).mpr ⟨by decide, hsw⟩
  · show (release typeHeap (collectFrom listSet Cfg.current typeHeap emptyThread [4096] []).1
        (collectFrom listSet Cfg.current typeHeap emptyThread [4096] []).2).heap.lookup 4160 = none
    rw [r1]
    show (sweep listSet typeHeap (gcMarkFrom listSet Cfg.current typeHeap emptyThread [4096] [])).1.lookup 4160 = none
    rw [sweep_lookup, hsw]; rfl

def typeStart : TState := ⟨⟨typeHeap, emptyThread, [4096], []⟩, typeTy⟩

/-- the first collection meets no released Type; the SECOND one traces x, whose Type the first one released -/
theorem typeHeap_second_collection_ub :
    TState.run listSet Cfg.current true [.op (.base .collect), .op (.base .collect)] typeStart = none := by
  obtain ⟨_, l1, l2⟩ := typeHeap_collect
  have hub1 : typeStart.ubNow listSet Cfg.current true (.base .collect) = false := by
    simp only [TState.ubNow, markUB]
    rw [List.any_eq_false]
    intro a ha
    have : a = 4096 ∨ a = 4160 := by simpa [typeStart, typeHeap] using ha
    rcases this with h | h <;> subst h <;> simp [typeDangling, typeStart, typeTy, typeHeap]
  let h1 := (collectAll listSet Cfg.current typeHeap emptyThread [4096] (seed listSet [])).heap
  have wf1 : h1.WF := collectAll_wf listSet Cfg.current typeHeap typeHeap_wf emptyThread [4096] _
  have l1' : h1.lookup 4096 = some ⟨.raw "Probe" [7], false⟩ := l1
  have l2' : h1.lookup 4160 = none := l2
  let s1 : TState := { typeStart with g := (typeStart.g.step listSet Cfg.current true (.base .collect)).1 }
  have hs1 : s1.g.heap = h1 := rfl
  have hub2 : s1.ubNow listSet Cfg.current true (.base .collect) = true := by
    simp only [TState.ubNow, markUB]
    rw [List.any_eq_true]
    refine ⟨4096, ?_, ?_⟩
    · rw [hs1]; exact h1.complete 4096 _ l1'
    · have hm : listSet.mem 4096 (gcMarkFrom listSet Cfg.current s1.g.heap s1.g.thread s1.g.stack (seed listSet [])) = true := by
        rw [hs1]
        refine (gcMark_iff_reach listSet Cfg.current h1 emptyThread [4096] 4096).mpr (.root ?_ ?_)
        · simp [rootWords]
        · exact accepts_of_registered wf1 (by rw [l1']; rfl)
      have hd : typeDangling s1.g.heap s1.ty 4096 = true := by
        rw [hs1]
        show (match typeTy 4096 with | some t => (h1.lookup t).isNone | none => false) = true
        simp [typeTy, l2']
      rw [hs1] at hm hd ⊢
      have hn : listSet.mem 4096 (seed listSet []) = false := rfl
      simp only [if_true]
      rw [hm, hd, l1', hn]; rfl
  show (if typeStart.ubNow listSet Cfg.current true (.base .collect) then none else
      match TState.run listSet Cfg.current true [.op (.base .collect)] s1 with
      | none => none
      | some (s2, evs) => some (s2, _)) = none
  rw [hub1]
  simp only [Bool.false_eq_true, if_false]
  have : TState.run listSet Cfg.current true [.op (.base .collect)] s1 = none := by
    simp only [TState.run, hub2, if_true]
  rw [this]

end Cello.Heap
