/-
  C14 helper lemmas: the hypotheses about arguments made RELATIVE TO THE FORMAT.  An argument only matters through the dispatch
  kinds of the specification that fetches it: `show_to` for `%$`, `c_str` for `%s`; every other kind (`c_int`, `c_float`, the
  pointer) is harmless whatever the object is — also when it is the destination itself.  `UseOk P` walks the specifications with
  the arguments they fetch; `plainFor` (Cello/Fmt.lean) is its decidable instance for the built-in Show instances, exactly the
  territory of KF-C14-alias.
-/
import CelloProofs.Lemmas.FmtBuiltin

namespace Cello.Fmt

variable (cfg : Cfg) (prim : Prim) (shw : Obj → Out → Out × Outcome)

/-- what dispatch kind `k` needs of its argument to stay clear of undefined behaviour -/
def KindSafe (k : Kind) (a : Obj) : Prop :=
  match k with
  | .show => ∀ o, (shw a o).2 ≠ .oob
  | .cstr => a.isSink = false
  | _ => True

/-- what dispatch kind `k` needs of its argument to touch the destination only through a fixed list of calls -/
def KindPure (k : Kind) (a : Obj) : Prop :=
  match k with
  | .show => Pure prim (shw a)
  | .cstr => a.isSink = false
  | _ => True

/-- every specification's argument (the k-th specification fetches the k-th argument) satisfies `P` for every dispatch `if` that fires -/
def UseOk (P : Kind → Obj → Prop) (args : List Obj) : List Seg → Nat → Prop
  | [], _ => True
  | .spec _ c :: r, k => (∀ a, args[k]? = some a → ∀ mk ∈ cfg.disp, mk.1.hit c = true → P mk.2 a) ∧ UseOk P args r (k + 1)
  | .lit _ :: r, k => UseOk P args r k
  | .pct :: r, k => UseOk P args r k

theorem action_not_oob_kind (hg : prim.Guarded) (k : Kind) (buf : Str) (a : Obj) (ha : KindSafe shw k a) (o : Out) :
    (action prim shw k buf a o).2 ≠ .oob := by
  cases k with
  | «show» => exact ha o
  | cstr =>
    have hns : action prim shw .cstr buf a o =
        match cStr a with
        | .ok s => o.call prim buf (.cstr s)
        | .error e => (o, .raised e) := by
      cases a <;> first | rfl | exact absurd (show Obj.isSink Obj.sink = false from ha) (by decide)
    rw [hns]; split <;> first | exact call_not_oob prim hg _ _ _ | simp
  | cint => simp only [action]; split <;> first | exact call_not_oob prim hg _ _ _ | simp
  | cfloat => simp only [action]; split <;> first | exact call_not_oob prim hg _ _ _ | simp
  | obj => exact call_not_oob prim hg _ _ _

theorem dispatch_not_oob_kind (hg : prim.Guarded) (c : Char) (buf : Str) (a : Obj) :
    ∀ (d : List (Matcher × Kind)), (∀ mk ∈ d, mk.1.hit c = true → KindSafe shw mk.2 a) →
      ∀ (o : Out), (dispatch prim shw d c buf a o).2 ≠ .oob := by
  intro d
  induction d with
  | nil => intro _ o; simp [dispatch]
  | cons mk r ih =>
    intro ha o
    obtain ⟨m, k⟩ := mk
    simp only [dispatch]
    split
    · rename_i hm
      have := action_not_oob_kind prim shw hg k buf a (ha (m, k) (by simp) hm) o
      rcases hact : action prim shw k buf a o with ⟨o', oc⟩
      rw [hact] at this
      cases oc with
      | ok => simpa using ih (fun mk hmk => ha mk (List.mem_cons_of_mem _ hmk)) o'
      | raised e => simp
      | oob => simp at this
    · exact ih (fun mk hmk => ha mk (List.mem_cons_of_mem _ hmk)) o

theorem refRun_not_oob_used (hg : prim.Guarded) (args : List Obj) :
    ∀ (segs : List Seg) (k : Nat) (o : Out), UseOk cfg (KindSafe shw) args segs k →
      (refRun cfg prim shw args segs k o).2 ≠ .oob := by
  intro segs
  induction segs with
  | nil => intro k o _; simp [refRun]
  | cons s r ih =>
    intro k o hu
    cases s with
    | lit s =>
      simp only [refRun]
      have := call_not_oob prim hg o s .none
      rcases hc : o.call prim s .none with ⟨o', oc⟩
      rw [hc] at this
      cases oc with
      | ok => simpa using ih k o' hu
      | raised e => simp
      | oob => simp at this
    | pct =>
      simp only [refRun]
      have := call_not_oob prim hg o ['%', '%'] .none
      rcases hc : o.call prim ['%', '%'] .none with ⟨o', oc⟩
      rw [hc] at this
      cases oc with
      | ok => simpa using ih k o' hu
      | raised e => simp
      | oob => simp at this
    | spec b c =>
      simp only [refRun]
      cases hk : args[k]? with
      | none => simp
      | some a =>
        have := dispatch_not_oob_kind prim shw hg c ('%' :: (b ++ [c])) a cfg.disp (hu.1 a hk) o
        rcases hd : dispatch prim shw cfg.disp c ('%' :: (b ++ [c])) a o with ⟨o', oc⟩
        rw [hd] at this
        simp only [hd]
        cases oc with
        | ok => simpa using ih (k + 1) o' hu.2
        | raised e => simp
        | oob => simp at this

theorem action_pure_kind (hg : prim.Guarded) (k : Kind) (buf : Str) (a : Obj) (ha : KindPure prim shw k a) :
    Pure prim (action prim shw k buf a) := by
  cases k with
  | «show» => exact ha
  | cstr =>
    have hns : ∀ o, action prim shw .cstr buf a o =
        match cStr a with
        | .ok s => o.call prim buf (.cstr s)
        | .error e => (o, .raised e) := by
      intro o
      cases a <;> first | rfl | exact absurd (show Obj.isSink Obj.sink = false from ha) (by decide)
    cases h : cStr a with
    | ok s =>
      obtain ⟨cs, oc, hc⟩ := call_pure prim hg buf (.cstr s)
      exact ⟨cs, oc, fun o => by rw [hns, h]; exact hc o⟩
    | error e => exact ⟨[], .raised e, fun o => by rw [hns, h]; rfl⟩
  | cint =>
    cases h : cInt a with
    | ok s =>
      obtain ⟨cs, oc, hc⟩ := call_pure prim hg buf (.i64 s)
      exact ⟨cs, oc, fun o => by simpa [action, h] using hc o⟩
    | error e => exact ⟨[], .raised e, fun o => by simp [action, h, emitAll]⟩
  | cfloat =>
    cases h : cFloat a with
    | ok s =>
      obtain ⟨cs, oc, hc⟩ := call_pure prim hg buf (.dbl s)
      exact ⟨cs, oc, fun o => by simpa [action, h] using hc o⟩
    | error e => exact ⟨[], .raised e, fun o => by simp [action, h, emitAll]⟩
  | obj =>
    obtain ⟨cs, oc, hc⟩ := call_pure prim hg buf .ptr
    exact ⟨cs, oc, fun o => by simpa [action] using hc o⟩

theorem dispatch_pure_kind (hg : prim.Guarded) (c : Char) (buf : Str) (a : Obj) :
    ∀ d : List (Matcher × Kind), (∀ mk ∈ d, mk.1.hit c = true → KindPure prim shw mk.2 a) →
      Pure prim (dispatch prim shw d c buf a) := by
  intro d
  induction d with
  | nil => intro _; exact ⟨[], .ok, fun o => by simp [dispatch, emitAll]⟩
  | cons mk r ih =>
    intro hall
    obtain ⟨m, k⟩ := mk
    have ih := ih (fun mk hmk => hall mk (List.mem_cons_of_mem _ hmk))
    by_cases hm : m.hit c = true
    · obtain ⟨cs, oc, ha⟩ := action_pure_kind prim shw hg k buf a (hall (m, k) (by simp) hm)
      obtain ⟨ds, od, hd⟩ := ih
      cases oc with
      | ok => exact ⟨cs ++ ds, od, fun o => by simp [dispatch, hm, ha, hd, emitAll_append]⟩
      | raised e => exact ⟨cs, .raised e, fun o => by simp [dispatch, hm, ha]⟩
      | oob => exact ⟨cs, .oob, fun o => by simp [dispatch, hm, ha]⟩
    · obtain ⟨ds, od, hd⟩ := ih
      exact ⟨ds, od, fun o => by simp [dispatch, hm, hd]⟩

/-- the reference run of a format is pure when every argument is used purely by the specification that fetches it -/
theorem refRun_pure_used (hg : prim.Guarded) (args : List Obj) :
    ∀ (segs : List Seg) (k : Nat), UseOk cfg (KindPure prim shw) args segs k → Pure prim (refRun cfg prim shw args segs k) := by
  intro segs
  induction segs with
  | nil => intro k _; exact ⟨[], .ok, fun o => by simp [refRun, emitAll]⟩
  | cons s r ih =>
    intro k hu
    cases s with
    | lit s =>
      have e : refRun cfg prim shw args (.lit s :: r) k = andThen (fun o => o.call prim s .none) (refRun cfg prim shw args r k) := by
        funext o
        simp only [refRun, andThen]
      rw [e]
      exact pure_andThen prim (call_pure prim hg s .none) (ih k hu)
    | pct =>
      have e : refRun cfg prim shw args (.pct :: r) k = andThen (fun o => o.call prim ['%', '%'] .none) (refRun cfg prim shw args r k) := by
        funext o
        simp only [refRun, andThen]
      rw [e]
      exact pure_andThen prim (call_pure prim hg _ .none) (ih k hu)
    | spec b c =>
      cases hk : args[k]? with
      | none => exact ⟨[], .raised .FormatError, fun o => by simp [refRun, hk, emitAll]⟩
      | some a =>
        have e : refRun cfg prim shw args (.spec b c :: r) k =
            andThen (dispatch prim shw cfg.disp c ('%' :: (b ++ [c])) a) (refRun cfg prim shw args r (k + 1)) := by
          funext o
          simp only [refRun, hk, andThen]
        rw [e]
        exact pure_andThen prim (dispatch_pure_kind prim shw hg c _ a cfg.disp (hu.1 a hk)) (ih (k + 1) hu.2)

/-- what the argument hypotheses need to know about the dispatch of the source: among the conversion characters, `show_to` is reached
    through `$` only and `c_str` through `s` only -/
def DispatchFacts (cfg : Cfg) : Prop :=
  ∀ c ∈ cfg.conv, ∀ mk ∈ cfg.disp, mk.1.hit c = true → (mk.2 = .show → c = '$') ∧ (mk.2 = .cstr → c = 's')

variable (sc : ShowCfg)

/-- `plainFor` gives both use-hypotheses for the built-in Show instances -/
theorem useOk_of_plainFor (hg : prim.Guarded) (F : ShowFacts cfg sc) (D : DispatchFacts cfg) (d : Nat) (args : List Obj) :
    ∀ (segs : List Seg) (k : Nat), wfSegs cfg.conv segs = true → plainFor d args segs k = true →
      UseOk cfg (KindSafe (showD cfg prim sc d)) args segs k ∧ UseOk cfg (KindPure prim (showD cfg prim sc d)) args segs k := by
  intro segs
  induction segs with
  | nil => intro k _ _; exact ⟨trivial, trivial⟩
  | cons s r ih =>
    intro k hwf hpl
    obtain ⟨hs, hr, _⟩ := wfSegs_cons hwf
    cases s with
    | lit s => exact ih k hr (by simpa [plainFor] using hpl)
    | pct => exact ih k hr (by simpa [plainFor] using hpl)
    | spec b c =>
      simp only [plainFor, Bool.and_eq_true] at hpl
      have hc := (spec_wf hs).1
      obtain ⟨i1, i2⟩ := ih (k + 1) hr hpl.2
      have key : ∀ a, args[k]? = some a → ∀ mk ∈ cfg.disp, mk.1.hit c = true →
          KindSafe (showD cfg prim sc d) mk.2 a ∧ KindPure prim (showD cfg prim sc d) mk.2 a := by
        intro a ha mk hmk hhit
        obtain ⟨m, kd⟩ := mk
        have hD := D c hc (m, kd) hmk hhit
        have h1 := hpl.1
        rw [ha] at h1
        cases kd with
        | «show» =>
          have hcd : c = '$' := hD.1 rfl
          subst hcd
          simp only [if_true] at h1
          exact ⟨showD_not_oob cfg prim sc hg F d a h1, showD_pure cfg prim sc hg F d a h1⟩
        | cstr =>
          have hcs : c = 's' := hD.2 rfl
          subst hcs
          have : a.isSink = false := by simpa using h1
          exact ⟨this, this⟩
        | cint => exact ⟨trivial, trivial⟩
        | cfloat => exact ⟨trivial, trivial⟩
        | obj => exact ⟨trivial, trivial⟩
      exact ⟨⟨fun a ha mk hmk hh => (key a ha mk hmk hh).1, i1⟩, ⟨fun a ha mk hmk hh => (key a ha mk hmk hh).2, i2⟩⟩

/-- `plainArgs` (no argument is or reaches the destination) implies `plainFor` for every format -/
theorem plainFor_of_plainArgs (d : Nat) (args : List Obj) (h : plainArgs d args = true) :
    ∀ (segs : List Seg) (k : Nat), plainFor d args segs k = true := by
  intro segs
  induction segs with
  | nil => intro k; rfl
  | cons s r ih =>
    intro k
    cases s with
    | lit s => simpa [plainFor] using ih k
    | pct => simpa [plainFor] using ih k
    | spec b c =>
      simp only [plainFor, Bool.and_eq_true]
      refine ⟨?_, ih (k + 1)⟩
      cases ha : args[k]? with
      | none => rfl
      | some a =>
        have hp : plainD d a = true := List.all_eq_true.1 h a (List.mem_of_getElem? ha)
        have hns := plainD_not_sink d a hp
        simp only []
        split
        · exact hp
        · split
          · simp [hns]
          · rfl

/-- the conclusions about position and sinks, from the fact that the run is one fixed list of calls -/
theorem position_of_pure (hg : prim.Guarded) (f : Out → Out × Outcome) (hp : Pure prim f) :
    ∃ (cs : List Call) (oc : Outcome), ∀ (sink : Sink) (start : Nat),
      let r := f ⟨sink, start, []⟩
      r.1.calls = cs ∧ r.2 = oc ∧ r.1.pos = start + (textOf prim cs).length ∧
      (∀ c, sink = .file c → r.1.sink = .file (c ++ textOf prim cs)) ∧
      (∀ v, sink = .str v → start ≤ v.length →
        r.1.sink = if accepted prim cs = [] then .str v else .str (v.take start ++ textOf prim cs)) := by
  obtain ⟨cs, oc, h⟩ := hp
  refine ⟨cs, oc, fun sink start => ?_⟩
  simp only [h]
  refine ⟨by simp [emitAll_calls], trivial, by simp [emitAll_pos], fun c hc => ?_, fun v hv hle => ?_⟩
  · exact emitAll_file prim cs _ c hc
  · exact emitAll_str_guarded prim hg cs ⟨sink, start, []⟩ v hv hle

/-! ### the built-in show as a list of calls (closed form), and libc's contract -/

/-- the calls the built-in `show` (fuel `d`) makes for `a`, read off a run on an empty File -/
def builtinCalls (d : Nat) (a : Obj) : List Call := (showD cfg prim sc d a ⟨.file [], 0, []⟩).1.calls

/-- the built-in `show` of `a` completes (fuel suffices, libc accepts every call, nothing inside raises) — decidable by running it once;
    by purity the outcome is the same on every destination -/
def showsOk (d : Nat) (args : List Obj) : Bool := args.all fun a => decide ((showD cfg prim sc d a ⟨.file [], 0, []⟩).2 = .ok)

/-- a plain object whose built-in show completes on one destination: on EVERY destination `show` is exactly its list of calls, outcome ok -/
theorem showD_closed (hg : prim.Guarded) (F : ShowFacts cfg sc) (d : Nat) (a : Obj) (hp : plainD d a = true)
    (hok : (showD cfg prim sc d a ⟨.file [], 0, []⟩).2 = .ok) :
    ∀ o, showD cfg prim sc d a o = (emitAll prim o (builtinCalls cfg prim sc d a), .ok) := by
  obtain ⟨cs, oc, h⟩ := showD_pure cfg prim sc hg F d a hp
  have h0 := h ⟨.file [], 0, []⟩
  have hcs : builtinCalls cfg prim sc d a = cs := by simp [builtinCalls, h0, emitAll_calls]
  have hoc : oc = .ok := by rw [h0] at hok; exact hok
  intro o
  rw [h o, hcs, hoc]

theorem showD_closed_args (hg : prim.Guarded) (F : ShowFacts cfg sc) (d : Nat) (args : List Obj) (hpl : plainArgs d args = true)
    (hok : showsOk cfg prim sc d args = true) :
    ∀ a ∈ args, ∀ o, showD cfg prim sc d a o = (emitAll prim o (builtinCalls cfg prim sc d a), .ok) := by
  intro a ha
  have h1 : plainD d a = true := List.all_eq_true.1 hpl a ha
  have h2 := List.all_eq_true.1 hok a ha
  exact showD_closed cfg prim sc hg F d a h1 (by simpa using h2)

/-- a specification of the printf grammar with the C value of an argument of its class is inside libc's contract -/
theorem spec_inContract (b : Str) (c : Char) (a : Obj) (v : PVal) (hb : specOK b c = true) (hv : specVal c a = some v) :
    (Call.mk ('%' :: (b ++ [c])) v).inContract = true := by
  have hfit : valFits c v = true := by
    unfold specVal at hv
    split at hv
    · rename_i hc
      cases a <;> simp at hv
      subst hv
      rcases hc with hc | hc <;> simp [valFits, hc]
    · split at hv
      · rename_i hc
        cases a <;> simp at hv
        subst hv
        simp [valFits, hc]
      · split at hv
        · rename_i hc
          cases a <;> simp at hv
          subst hv
          simp [valFits, hc]
        · split at hv
          · rename_i hc
            simp at hv; subst hv; simp [valFits, hc]
          · simp at hv
  have hne : v ≠ .none := by
    intro h; subst h; simp [valFits] at hfit
  have hl : (b ++ [c]).getLast? = some c := by simp
  have hd : (b ++ [c]).dropLast = b := by simp
  cases v <;> first | exact absurd rfl hne | simp [Call.inContract, hl, hd, hb, hfit]

/-- on a format of the printf grammar whose specifications find arguments of their class, every call `print_to_with` hands to libc is
    inside libc's contract — provided the calls of `show` (for `%$`) are -/
theorem expectCalls_inContract (showCalls : Obj → List Call) (args : List Obj)
    (hsh : ∀ a ∈ args, ∀ c ∈ showCalls a, c.inContract = true) :
    ∀ (segs : List Seg) (k : Nat) (cs : List Call), wfSegs cfg.conv segs = true → segs.all Seg.printfOK = true →
      expectCalls showCalls args segs k = some cs → ∀ c ∈ cs, c.inContract = true := by
  intro segs
  induction segs with
  | nil => intro k cs _ _ h; simp [expectCalls] at h; subst h; simp
  | cons s r ih =>
    intro k cs hwf hpf h
    obtain ⟨hs, hr, _⟩ := wfSegs_cons hwf
    simp only [List.all_cons, Bool.and_eq_true] at hpf
    cases s with
    | lit s =>
      simp only [expectCalls, Option.map_eq_some_iff] at h
      obtain ⟨cs', h1, rfl⟩ := h
      intro c hc
      rcases List.mem_cons.1 hc with rfl | hc
      · have := (lit_wf hs).2
        simp only [Call.inContract, Bool.or_eq_true, decide_eq_true_eq, List.all_eq_true]
        right; intro x hx; exact (this x hx).2
      · exact ih k cs' hr hpf.2 h1 c hc
    | pct =>
      simp only [expectCalls, Option.map_eq_some_iff] at h
      obtain ⟨cs', h1, rfl⟩ := h
      intro c hc
      rcases List.mem_cons.1 hc with rfl | hc
      · simp [Call.inContract]
      · exact ih k cs' hr hpf.2 h1 c hc
    | spec b c =>
      simp only [expectCalls] at h
      cases hk : args[k]? with
      | none => simp [hk] at h
      | some a =>
        simp only [hk] at h
        by_cases hc : c = '$'
        · subst hc
          simp only [if_true, Option.map_eq_some_iff] at h
          obtain ⟨cs', h1, rfl⟩ := h
          intro x hx
          rcases List.mem_append.1 hx with hx | hx
          · exact hsh a (List.mem_of_getElem? hk) x hx
          · exact ih (k + 1) cs' hr hpf.2 h1 x hx
        · simp only [hc, if_false] at h
          cases hv : specVal c a with
          | none => simp [hv] at h
          | some v =>
            simp only [hv, Option.map_eq_some_iff] at h
            obtain ⟨cs', h1, rfl⟩ := h
            intro x hx
            rcases List.mem_cons.1 hx with rfl | hx
            · exact spec_inContract b c a v (by simpa [Seg.printfOK] using hpf.1) hv
            · exact ih (k + 1) cs' hr hpf.2 h1 x hx

end Cello.Fmt
