import Cello.Fail
/-
  C12, the dispatcher: which class members the modelled types lack (`lacks`, the hand model's view: exactly the operations whose
  branch in `X.step` is an unconditional ClassError) — compared with the declaration matrix `CelloGen.Disp.declared` generated from
  the `Cello(T, Instance(…))` texts by `declares_as_modelled` (a finite table: `decide`).
-/
namespace Cello.Fail

/-- every class member an operation of the model is dispatched through -/
def allMembers : List (String × Nat) :=
  [("Get", 0), ("Get", 1), ("Get", 2), ("Get", 3), ("Push", 0), ("Push", 1), ("Push", 2), ("Push", 3), ("Resize", 0), ("Len", 0),
   ("Concat", 0), ("Concat", 1), ("Format", 0)]

def modelledTypes : List String := ["Array", "List", "Tuple", "Table", "Tree", "String", "Range", "Slice", "Zip", "Int", "Plain"]

/-- the members a type lacks, as the model has them (its unconditional ClassError branches) -/
def lacks : String → List (String × Nat)
  | "Array" => [("Format", 0)]
  | "List" => [("Format", 0)]
  | "Tuple" => [("Format", 0)]
  | "Table" => [("Push", 0), ("Push", 1), ("Push", 2), ("Push", 3), ("Concat", 0), ("Concat", 1), ("Format", 0)]
  | "Tree" => [("Push", 0), ("Push", 1), ("Push", 2), ("Push", 3), ("Concat", 0), ("Concat", 1), ("Format", 0)]
  | "String" => [("Get", 0), ("Get", 1), ("Push", 0), ("Push", 1), ("Push", 2), ("Push", 3)]
  | "Range" => [("Get", 1), ("Get", 3), ("Push", 0), ("Push", 1), ("Push", 2), ("Push", 3), ("Resize", 0), ("Concat", 0), ("Concat", 1), ("Format", 0)]
  | "Slice" => [("Get", 1), ("Get", 3), ("Push", 0), ("Push", 1), ("Push", 2), ("Push", 3), ("Resize", 0), ("Concat", 0), ("Concat", 1), ("Format", 0)]
  | "Zip" => [("Get", 1), ("Get", 3), ("Push", 0), ("Push", 1), ("Push", 2), ("Push", 3), ("Resize", 0), ("Concat", 0), ("Concat", 1), ("Format", 0)]
  | _ => allMembers          -- Int, Plain: none of Get, Push, Resize, Len, Concat, Format

/-- **the declaration matrix generated from the sources says what the model says**: for every modelled type and every member an
    operation is dispatched through, the member is declared (non-NULL) exactly when the model does not list it as lacking -/
theorem declares_as_modelled :
    ∀ ty ∈ modelledTypes, ∀ m ∈ allMembers, declares ty m.1 m.2 = !(lacks ty).contains m := by decide

/-- the class member of an operation is one of `allMembers` -/
theorem Op.member_mem (op : Op) (m : String × Nat) (hm : op.member = some m) : m ∈ allMembers := by
  cases op with
  | print pos fmt args =>
    cases fmt with
    | nil => simp [Op.member] at hm
    | cons it rest => cases it <;> simp [Op.member] at hm <;> (subst hm; simp [allMembers])
  | assign v => simp [Op.member] at hm
  | _ => simp only [Op.member, Option.some.injEq] at hm <;> (subst hm; simp [allMembers])

theorem lacks_of_undeclared (ty : String) (ht : ty ∈ modelledTypes) (m : String × Nat) (hm : m ∈ allMembers)
    (hd : declares ty m.1 m.2 = false) : (lacks ty).contains m = true := by
  have := declares_as_modelled ty ht m hm
  rw [hd] at this
  simpa using this.symm

/-! for each kind of object: an operation dispatched through a member the model lists as lacking is an unconditional ClassError -/

theorem uce_arr (a : Arr) (op : Op) (m : String × Nat) (hm : op.member = some m) (hl : (lacks "Array").contains m = true) :
    a.step op = (a, .raised .ClassError) := by
  simp only [lacks, allMembers, List.contains_cons, List.contains_nil, Bool.or_false, Bool.or_eq_true, beq_iff_eq] at hl
  cases op with
  | print pos fmt args =>
    cases fmt with
    | nil => simp [Op.member] at hm
    | cons it rest => cases it <;> simp [Op.member] at hm <;> (try (subst hm; simp at hl)) <;> simp [Arr.step]
  | assign v => simp [Op.member] at hm
  | _ => simp only [Op.member, Option.some.injEq] at hm <;> subst hm <;> simp at hl <;> simp [Arr.step]

theorem uce_lst (l : Lst) (op : Op) (m : String × Nat) (hm : op.member = some m) (hl : (lacks "List").contains m = true) :
    l.step op = (l, .raised .ClassError) := by
  simp only [lacks, allMembers, List.contains_cons, List.contains_nil, Bool.or_false, Bool.or_eq_true, beq_iff_eq] at hl
  cases op with
  | print pos fmt args =>
    cases fmt with
    | nil => simp [Op.member] at hm
    | cons it rest => cases it <;> simp [Op.member] at hm <;> (try (subst hm; simp at hl)) <;> simp [Lst.step]
  | assign v => simp [Op.member] at hm
  | _ => simp only [Op.member, Option.some.injEq] at hm <;> subst hm <;> simp at hl <;> simp [Lst.step]

theorem uce_tup (t : Tup) (op : Op) (m : String × Nat) (hm : op.member = some m) (hl : (lacks "Tuple").contains m = true) :
    t.step op = (t, .raised .ClassError) := by
  simp only [lacks, allMembers, List.contains_cons, List.contains_nil, Bool.or_false, Bool.or_eq_true, beq_iff_eq] at hl
  cases op with
  | print pos fmt args =>
    cases fmt with
    | nil => simp [Op.member] at hm
    | cons it rest => cases it <;> simp [Op.member] at hm <;> (try (subst hm; simp at hl)) <;> simp [Tup.step]
  | assign v => simp [Op.member] at hm
  | _ => simp only [Op.member, Option.some.injEq] at hm <;> subst hm <;> simp at hl <;> simp [Tup.step]

theorem uce_tab (t : Tab) (op : Op) (m : String × Nat) (hm : op.member = some m) (hl : (lacks "Table").contains m = true) :
    t.step op = (t, .raised .ClassError) := by
  simp only [lacks, allMembers, List.contains_cons, List.contains_nil, Bool.or_false, Bool.or_eq_true, beq_iff_eq] at hl
  cases op with
  | print pos fmt args =>
    cases fmt with
    | nil => simp [Op.member] at hm
    | cons it rest => cases it <;> simp [Op.member] at hm <;> (try (subst hm; simp at hl)) <;> simp [Tab.step]
  | assign v => simp [Op.member] at hm
  | _ => simp only [Op.member, Option.some.injEq] at hm <;> subst hm <;> simp at hl <;> simp [Tab.step]

theorem uce_tre (t : Tre) (op : Op) (m : String × Nat) (hm : op.member = some m) (hl : (lacks "Tree").contains m = true) :
    t.step op = (t, .raised .ClassError) := by
  simp only [lacks, allMembers, List.contains_cons, List.contains_nil, Bool.or_false, Bool.or_eq_true, beq_iff_eq] at hl
  cases op with
  | print pos fmt args =>
    cases fmt with
    | nil => simp [Op.member] at hm
    | cons it rest => cases it <;> simp [Op.member] at hm <;> (try (subst hm; simp at hl)) <;> simp [Tre.step]
  | assign v => simp [Op.member] at hm
  | _ => simp only [Op.member, Option.some.injEq] at hm <;> subst hm <;> simp at hl <;> simp [Tre.step]

theorem uce_str (s : Str) (op : Op) (m : String × Nat) (hm : op.member = some m) (hl : (lacks "String").contains m = true) :
    s.step op = (s, .raised .ClassError) := by
  simp only [lacks, allMembers, List.contains_cons, List.contains_nil, Bool.or_false, Bool.or_eq_true, beq_iff_eq] at hl
  cases op with
  | print pos fmt args =>
    cases fmt with
    | nil => simp [Op.member] at hm
    | cons it rest => cases it <;> simp [Op.member] at hm <;> (try (subst hm; simp at hl)) <;> simp [Str.step]
  | assign v => simp [Op.member] at hm
  | _ => simp only [Op.member, Option.some.injEq] at hm <;> subst hm <;> simp at hl <;> simp [Str.step]

theorem uce_rng (r : Rng) (op : Op) (m : String × Nat) (hm : op.member = some m) (hl : (lacks "Range").contains m = true) :
    r.step' op = (r, .raised .ClassError) := by
  simp only [lacks, allMembers, List.contains_cons, List.contains_nil, Bool.or_false, Bool.or_eq_true, beq_iff_eq] at hl
  cases op with
  | print pos fmt args =>
    cases fmt with
    | nil => simp [Op.member] at hm
    | cons it rest => cases it <;> simp [Op.member] at hm <;> (try (subst hm; simp at hl)) <;> simp [Rng.step']
  | assign v => simp [Op.member] at hm
  | _ => simp only [Op.member, Option.some.injEq] at hm <;> subst hm <;> simp at hl <;> simp [Rng.step']

theorem uce_slc (σ : Store) (c : Slc) (op : Op) (m : String × Nat) (hm : op.member = some m) (hl : (lacks "Slice").contains m = true) :
    viewStep σ (.slc c) op = (Obj.slc c, .raised .ClassError) := by
  simp only [lacks, allMembers, List.contains_cons, List.contains_nil, Bool.or_false, Bool.or_eq_true, beq_iff_eq] at hl
  cases op with
  | print pos fmt args =>
    cases fmt with
    | nil => simp [Op.member] at hm
    | cons it rest => cases it <;> simp [Op.member] at hm <;> (try (subst hm; simp at hl)) <;> simp [viewStep]
  | assign v => simp [Op.member] at hm
  | _ => simp only [Op.member, Option.some.injEq] at hm <;> subst hm <;> simp at hl <;> simp [viewStep]

theorem uce_zip (σ : Store) (z : Zp) (op : Op) (m : String × Nat) (hm : op.member = some m) (hl : (lacks "Zip").contains m = true) :
    viewStep σ (.zip z) op = (Obj.zip z, .raised .ClassError) := by
  simp only [lacks, allMembers, List.contains_cons, List.contains_nil, Bool.or_false, Bool.or_eq_true, beq_iff_eq] at hl
  cases op with
  | print pos fmt args =>
    cases fmt with
    | nil => simp [Op.member] at hm
    | cons it rest => cases it <;> simp [Op.member] at hm <;> (try (subst hm; simp at hl)) <;> simp [viewStep]
  | assign v => simp [Op.member] at hm
  | _ => simp only [Op.member, Option.some.injEq] at hm <;> subst hm <;> simp at hl <;> simp [viewStep]

theorem uce_int (a : AllocK) (i : Int) (op : Op) (m : String × Nat) (hm : op.member = some m) (hl : (lacks "Int").contains m = true) :
    (Obj.scalar a (.int i)).stepLocal op = (Obj.scalar a (.int i), .raised .ClassError) := by
  simp only [lacks, allMembers, List.contains_cons, List.contains_nil, Bool.or_false, Bool.or_eq_true, beq_iff_eq] at hl
  cases op with
  | print pos fmt args =>
    cases fmt with
    | nil => simp [Op.member] at hm
    | cons it rest => cases it <;> simp [Op.member] at hm <;> (try (subst hm; simp at hl)) <;> simp [Obj.stepLocal]
  | assign v => simp [Op.member] at hm
  | _ => simp only [Op.member, Option.some.injEq] at hm <;> subst hm <;> simp at hl <;> simp [Obj.stepLocal]

theorem uce_plain (a : AllocK) (i : Int) (op : Op) (m : String × Nat) (hm : op.member = some m) (hl : (lacks "Plain").contains m = true) :
    (Obj.scalar a (.plain i)).stepLocal op = (Obj.scalar a (.plain i), .raised .ClassError) := by
  simp only [lacks, allMembers, List.contains_cons, List.contains_nil, Bool.or_false, Bool.or_eq_true, beq_iff_eq] at hl
  cases op with
  | print pos fmt args =>
    cases fmt with
    | nil => simp [Op.member] at hm
    | cons it rest => cases it <;> simp [Op.member] at hm <;> (try (subst hm; simp at hl)) <;> simp [Obj.stepLocal]
  | assign v => simp [Op.member] at hm
  | _ => simp only [Op.member, Option.some.injEq] at hm <;> subst hm <;> simp at hl <;> simp [Obj.stepLocal]

theorem uce_narr (n : Nest) (ho : n.outer = .arr) (op : Op) (m : String × Nat) (hm : op.member = some m) (hl : (lacks "Array").contains m = true) :
    (Obj.nest n).stepLocal op = (Obj.nest n, .raised .ClassError) := by
  simp only [lacks, allMembers, List.contains_cons, List.contains_nil, Bool.or_false, Bool.or_eq_true, beq_iff_eq] at hl
  cases op with
  | print pos fmt args =>
    cases fmt with
    | nil => simp [Op.member] at hm
    | cons it rest => cases it <;> simp [Op.member] at hm <;> (try (subst hm; simp at hl)) <;> simp [Obj.stepLocal]
  | assign v => simp [Op.member] at hm
  | _ => simp only [Op.member, Option.some.injEq] at hm <;> subst hm <;> simp at hl <;> simp [Obj.stepLocal]

theorem uce_nlst (n : Nest) (ho : n.outer = .lst) (op : Op) (m : String × Nat) (hm : op.member = some m) (hl : (lacks "List").contains m = true) :
    (Obj.nest n).stepLocal op = (Obj.nest n, .raised .ClassError) := by
  simp only [lacks, allMembers, List.contains_cons, List.contains_nil, Bool.or_false, Bool.or_eq_true, beq_iff_eq] at hl
  cases op with
  | print pos fmt args =>
    cases fmt with
    | nil => simp [Op.member] at hm
    | cons it rest => cases it <;> simp [Op.member] at hm <;> (try (subst hm; simp at hl)) <;> simp [Obj.stepLocal]
  | assign v => simp [Op.member] at hm
  | _ => simp only [Op.member, Option.some.injEq] at hm <;> subst hm <;> simp at hl <;> simp [Obj.stepLocal]

end Cello.Fail
