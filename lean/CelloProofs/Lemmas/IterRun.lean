/- helper lemmas for C11: walks (`Run`, `runFuel`, `stepN`), Map and Filter -/
import Cello.Iter

namespace Cello.Iter

variable {σ α β : Type}

/-- a terminating walk is what the fuelled interpreter of the driver computes, given enough fuel -/
theorem Run.runFuel {step : σ → σ × Res α} {r : σ × Res α} {l : List α} (h : Run step r l) :
    ∀ n, l.length < n → runFuel step n r = (l, .term) := by
  induction h with
  | term s => intro n hn; cases n with
    | zero => omega
    | succ n => rfl
  | item s a l _ ih =>
    intro n hn
    cases n with
    | zero => omega
    | succ n =>
      have := ih n (by simp at hn; omega)
      simp [Cello.Iter.runFuel, this]

/-- a walk determines its item list -/
theorem Run.unique {step : σ → σ × Res α} {r : σ × Res α} {l l' : List α} (h : Run step r l) (h' : Run step r l') :
    l = l' := by
  have a := h.runFuel (l.length + l'.length + 1) (by omega)
  have b := h'.runFuel (l.length + l'.length + 1) (by omega)
  rw [a] at b; exact (Prod.mk.inj b).1

theorem Run.inv_nil {step : σ → σ × Res α} {r : σ × Res α} (h : Run step r []) : r.2 = .term := by
  cases h; rfl

theorem Run.inv_cons {step : σ → σ × Res α} {r : σ × Res α} {a : α} {l : List α} (h : Run step r (a :: l)) :
    r.2 = .item a ∧ Run step (step r.1) l := by
  cases h with
  | item s a l h => exact ⟨rfl, h⟩

/-- `k` further calls along a walk that still has `k` items (or exactly reaches Terminal) stay on the walk -/
theorem Run.stepN {step : σ → σ × Res α} : ∀ (k : Nat) {r : σ × Res α} {l : List α}, Run step r l → k ≤ l.length →
    Run step (stepN step k r) (l.drop k)
  | 0, r, l, h, _ => by simpa [Cello.Iter.stepN] using h
  | k + 1, r, l, h, hk => by
    cases h with
    | term s => simp at hk
    | item s a l h =>
      simp only [Cello.Iter.stepN, List.drop_succ_cons]
      exact Run.stepN k h (by simpa using hk)

/-! ### Map -/

theorem Run.map (I : Iterable α) (f : α → β) {step : I.σ → I.σ × Res α} {r : I.σ × Res α} {l : List α}
    (h : Run step r l) :
    Run (fun s => ((step s).1, (step s).2.map f)) (r.1, r.2.map f) (l.map f) := by
  induction h with
  | term s => exact Run.term s
  | item s a l _ ih => exact Run.item s (f a) (l.map f) ih

/-! ### Filter -/

theorem Run.skip (p : α → Bool) (step : σ → σ × Res α) (fuel : Nat) {r : σ × Res α} {l : List α}
    (h : Run step r l) : l.length < fuel → ∀ k, l.length < k →
    Run (fun s => skipLoop p step fuel (step s)) (skipLoop p step k r) (l.filter p) := by
  induction h with
  | term s =>
    intro _ k hk
    cases k with
    | zero => simp at hk
    | succ k => simpa [skipLoop] using Run.term s
  | item s a l h ih =>
    intro hf k hk
    cases k with
    | zero => simp at hk
    | succ k =>
      simp only [List.length_cons] at hf hk
      by_cases hp : p a = true
      · simp only [skipLoop, hp, if_true, List.filter_cons_of_pos]
        exact Run.item s a _ (ih (by omega) fuel (by omega))
      · simp only [skipLoop, hp, List.filter_cons_of_neg, Bool.false_eq_true, if_false, not_false_eq_true]
        exact ih (by omega) k (by omega)

end Cello.Iter
