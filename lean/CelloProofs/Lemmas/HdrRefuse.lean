/-
  Lemmas for C19: a refused release leaves the *whole state* as it was — `del_raw` and `destruct` included, outside the
  territory of known finding KF-C19-delraw-embedded (`delrawTerritory` for whole objects, `Scalar.hasDestructor` for
  embedded ones); the operations the histories leave out (`Obs.skip`) change nothing.
-/
import CelloProofs.Lemmas.HdrGuard

namespace Cello.Hdr

variable {cfg : Config}

/-! ## writing back what is already there -/

theorem map_upd_self (l : List (Nat × Obj)) (id : Nat) (f : Obj → Obj) (h : ∀ p ∈ l, p.1 = id → f p.2 = p.2) :
    l.map (fun p => if p.1 = id then (p.1, f p.2) else p) = l := by
  induction l with
  | nil => rfl
  | cons p r ih =>
    simp only [List.map_cons]
    rw [ih (fun q hq => h q (List.mem_cons_of_mem _ hq))]
    by_cases hp : p.1 = id
    · have := h p (List.mem_cons_self ..) hp
      simp only [hp, if_true, this]
      rw [← hp]
    · simp [hp]

/-- replacing the body of a handle by a body equal to the one it has is the identity on states -/
theorem updBody_self {s : St} (hw : WF cfg s) {id : Nat} {o : Obj} (hget : s.get id = some o) (f : Body → Body)
    (hf : f o.body = o.body) : s.updBody id f = s := by
  unfold St.updBody
  have : s.objs.map (fun p => if p.1 = id then (p.1, { p.2 with body := f p.2.body }) else p) = s.objs := by
    apply map_upd_self s.objs id (fun o' => { o' with body := f o'.body })
    intro p hp hk
    have h1 := get_of_mem hw hp
    rw [hk, hget] at h1
    have h2 : p.2 = o := (Option.some.inj h1).symm
    show { p.2 with body := f p.2.body } = p.2
    rw [h2, hf]
  rw [this]

theorem list_set_self {α : Type} : ∀ (l : List α) (i : Nat) (x : α), l[i]? = some x → l.set i x = l
  | [], _, _, h => by simp at h
  | a :: r, 0, x, h => by simp at h; simp [h]
  | a :: r, i + 1, x, h => by
    simp only [List.getElem?_cons_succ] at h
    simp [list_set_self r i x h]

/-- writing an embedded object back into the slot it came from changes nothing -/
theorem setElemAt_self {b : Body} {t : Target} {e : Elem} (h : b.elemAt t = some e) : b.setElemAt t e = b := by
  cases b with
  | seq k ety es =>
    cases t <;> simp only [Body.elemAt] at h <;> try cases h
    simp only [Body.setElemAt, list_set_self es _ e h]
  | map k kty vty ents =>
    cases t <;> simp only [Body.elemAt] at h <;> try cases h
    · rename_i id i
      cases hp : ents[i]? with
      | none => simp [hp] at h
      | some p =>
        simp only [hp, Option.map_some, Option.some.injEq] at h
        simp only [Body.setElemAt, hp]
        rw [list_set_self ents i (e, p.2) (by rw [hp, ← h])]
    · rename_i id i
      cases hp : ents[i]? with
      | none => simp [hp] at h
      | some p =>
        simp only [hp, Option.map_some, Option.some.injEq] at h
        simp only [Body.setElemAt, hp]
        rw [list_set_self ents i (p.1, e) (by rw [hp, ← h])]
  | _ => cases t <;> simp [Body.elemAt] at h

/-! ## whole objects -/

/-- **the territory of known finding KF-C19-delraw-embedded among whole objects**: `del_raw` / `destruct` run a destructor
    that is not guarded for the object's allocation class — a Box that points to something (Box_Del has no guard: it deletes
    the pointee and clears the Box), an Array / List / Table / Tree (no guard: the backing store is freed), a String or Tuple
    of class `data` (String_Del / Tuple_Del let that class through).  Everything else — Int, Ref, Type objects, objects of
    run-time types, an empty Box, and every stack or static String or Tuple — is outside. -/
def delrawTerritory (cfg : Config) (o : Obj) : Bool :=
  match o.body with
  | .box (some _) => true
  | .seq _ _ _ => true
  | .map _ _ _ _ => true
  | .scalar (.str _) => o.hdr.alloc == cfg.cData
  | .tuple _ => o.hdr.alloc == cfg.cData
  | _ => false

/-- `dealloc` of an object that is not on the heap: refused, the state is the very same -/
theorem dealloc_refused (F : Facts cfg) (s : St) (id : Nat) (o : Obj)
    (hcls : o.hdr.alloc = cfg.cStatic ∨ o.hdr.alloc = cfg.cStack ∨ o.hdr.alloc = cfg.cData) :
    dealloc cfg s id o =
      (s, .raised (if o.body = .tyobj (.builtin "Terminal") 0 then "FormatError" else "ResourceError")) := by
  rcases hcls with h | h | h <;> simp [dealloc, h, F.refStatic, F.refStack, F.refData]

/-- outside the territory the destructor of a non-heap object either does nothing or is the guarded String_Del / Tuple_Del,
    which refuses; the body is untouched in both cases -/
theorem destructBody_outside (F : Facts cfg) {o : Obj}
    (hcls : o.hdr.alloc = cfg.cStatic ∨ o.hdr.alloc = cfg.cStack ∨ o.hdr.alloc = cfg.cData)
    (ht : delrawTerritory cfg o = false) :
    destructBody cfg o.hdr o.body = (o.body, .ok) ∨ destructBody cfg o.hdr o.body = (o.body, .raised "ValueError") := by
  obtain ⟨_, hs1, hs2, _, _, he⟩ := Guard.protects_iff.mp F.sDel
  obtain ⟨_, ht1, ht2, _, _, hte⟩ := Guard.protects_iff.mp F.tDel
  have hss : o.hdr.alloc ≠ cfg.cData → o.hdr.alloc = cfg.cStatic ∨ o.hdr.alloc = cfg.cStack := by
    intro hn; rcases hcls with h | h | h
    · exact Or.inl h
    · exact Or.inr h
    · exact absurd h hn
  unfold delrawTerritory at ht
  cases hb : o.body with
  | scalar v =>
    cases v with
    | str t =>
      rw [hb] at ht
      simp only [beq_eq_false_iff_ne, ne_eq] at ht
      have hc : cfg.sDel.classes.contains o.hdr.alloc = true := by
        rcases hss ht with h | h <;> rw [h] <;> assumption
      right; simp only [destructBody, hc, if_true, he]
    | _ => left; rfl
  | tuple items =>
    rw [hb] at ht
    simp only [beq_eq_false_iff_ne, ne_eq] at ht
    have hc : cfg.tDel.classes.contains o.hdr.alloc = true := by
      rcases hss ht with h | h <;> rw [h] <;> assumption
    right; simp only [destructBody, hc, if_true, hte]
  | seq k ety es => rw [hb] at ht; cases ht
  | map k kty vty ents => rw [hb] at ht; cases ht
  | box v =>
    cases v with
    | none => left; rfl
    | some x => rw [hb] at ht; cases ht
  | ref x => left; rfl
  | tyobj t n => left; rfl
  | destroyed => left; rfl

/-- **`del_raw` of a live object that is not on the heap, outside the territory: an exception and the very same state** —
    whether `del_by` tests the class first (the proposed repair) or runs `dealloc(destruct(self))` as the code does -/
theorem freeObj_delRaw_refused (F : Facts cfg) {s : St} (hw : WF cfg s) {id : Nat} {o : Obj}
    (hget : s.get id = some o) (hlive : o.live = true)
    (hcls : o.hdr.alloc = cfg.cStatic ∨ o.hdr.alloc = cfg.cStack ∨ o.hdr.alloc = cfg.cData)
    (ht : delrawTerritory cfg o = false) :
    ∃ e, freeObj cfg s .delRaw id o = (s, .raised e) := by
  have hd := dealloc_refused F s id o hcls
  simp only [freeObj]
  split
  · exact ⟨_, hd⟩
  · have hfuel : fuelFor s = (s.listed + 1) + 1 := rfl
    rw [hfuel, finalise_succ, hget]
    simp only [hlive, Bool.not_true, Bool.false_eq_true, if_false]
    split
    · rename_i x hbx
      simp [delrawTerritory, hbx] at ht
    · rcases destructBody_outside F hcls ht with h | h
      · simp only [h]
        rw [updBody_self hw hget _ rfl]
        exact ⟨_, hd⟩
      · simp only [h]
        exact ⟨_, rfl⟩

/-- **`destruct` of a live object that is not on the heap, outside the territory: the very same state** -/
theorem destructObj_unchanged (F : Facts cfg) {s : St} (hw : WF cfg s) {id : Nat} {o : Obj}
    (hget : s.get id = some o)
    (hcls : o.hdr.alloc = cfg.cStatic ∨ o.hdr.alloc = cfg.cStack ∨ o.hdr.alloc = cfg.cData)
    (ht : delrawTerritory cfg o = false) :
    (destructObj cfg s id o).1 = s := by
  unfold destructObj
  split
  · rename_i x hbx
    simp [delrawTerritory, hbx] at ht
  · rcases destructBody_outside F hcls ht with h | h <;> simp only [h] <;> exact updBody_self hw hget _ rfl

/-- with the class check first, `del_raw` of *any* live object that is not on the heap is refused with the state unchanged:
    no territory is left -/
theorem freeObj_delRaw_classFirst (F : Facts cfg) (hcf : cfg.delRawClassFirst = true) (s : St) (id : Nat) (o : Obj)
    (hcls : o.hdr.alloc = cfg.cStatic ∨ o.hdr.alloc = cfg.cStack ∨ o.hdr.alloc = cfg.cData) :
    freeObj cfg s .delRaw id o =
      (s, .raised (if o.body = .tyobj (.builtin "Terminal") 0 then "FormatError" else "ResourceError")) := by
  have hnh : o.hdr.alloc ≠ cfg.cHeap := by
    rcases hcls with h | h | h <;> rw [h]
    · exact F.ne_static_heap
    · exact F.ne_stack_heap
    · exact fun e => F.ne_heap_data e.symm
  simp only [freeObj, hcf, Bool.true_and, bne_iff_ne, ne_eq, hnh, not_false_eq_true, if_true]
  exact dealloc_refused F s id o hcls

/-! ## embedded objects -/

/-- the destructor of an embedded object whose type has none does nothing -/
theorem destructElem_noDtor {e : Elem} (h : e.val.hasDestructor = false) : destructElem cfg e = (e, .ok) := by
  unfold destructElem
  cases hv : e.val <;> simp_all [Scalar.hasDestructor]

/-- an object without destructor is never dangling -/
theorem not_dangling_of_noDtor {v : Scalar} (h : v.hasDestructor = false) : v.dangling = false := by
  cases v <;> simp_all [Scalar.hasDestructor, Scalar.dangling]

/-! ## operations that are left out change nothing -/

theorem stepMake_skip {s : St} {id : Nat} {r : Route} {i : Init} {why : String} :
    (stepMake cfg s id r i).2 = .skip why → (stepMake cfg s id r i).1 = s := by
  unfold stepMake
  repeat' split
  all_goals first
    | (intro _; rfl)
    | (intro h; cases h)

theorem stepStatic_skip {s : St} {id : Nat} {name : String} {why : String} :
    (stepStatic cfg s id name).2 = .skip why → (stepStatic cfg s id name).1 = s := by
  unfold stepStatic
  repeat' split
  all_goals first
    | (intro _; rfl)
    | (intro h; cases h)

theorem stepCopy_skip {s : St} {id src : Nat} {why : String} :
    (stepCopy cfg s id src).2 = .skip why → (stepCopy cfg s id src).1 = s := by
  unfold stepCopy
  repeat' split
  all_goals first
    | (intro _; rfl)
    | (intro h; cases h)

theorem stepFree_skip {s : St} {f : FreeOp} {t : Target} {why : String} :
    (stepFree cfg s f t).2 = .skip why → (stepFree cfg s f t).1 = s := by
  unfold stepFree
  repeat' split
  all_goals first
    | (intro _; rfl)
    | (intro h; cases h)

theorem stepOwn_skip {s : St} {id : Nat} {target : Option Nat} {why : String} :
    (stepOwn cfg s id target).2 = .skip why → (stepOwn cfg s id target).1 = s := by
  unfold stepOwn
  repeat' split
  all_goals first
    | (intro _; rfl)
    | (intro h; cases h)

theorem stepInplace_skip {s : St} {ip : InPlace} {t : Target} {why : String} :
    (stepInplace cfg s ip t).2 = .skip why → (stepInplace cfg s ip t).1 = s := by
  unfold stepInplace
  repeat' split
  all_goals first
    | (intro _; rfl)
    | (intro h; cases h)

/-- **an operation that both sides skip is a no-op of the model** -/
theorem step_skip {s : St} {op : Op} {why : String} (h : (step cfg s op).2 = .skip why) : (step cfg s op).1 = s := by
  cases op with
  | make id r i => exact stepMake_skip h
  | static id name => exact stepStatic_skip h
  | copy id src => exact stepCopy_skip h
  | free f t => exact stepFree_skip h
  | inplace ip t => exact stepInplace_skip h
  | own id target => exact stepOwn_skip h
  | obs t => revert h; simp only [step]; repeat' split
             all_goals first | (intro _; rfl) | (intro h; cases h)
  | iter id back => revert h; simp only [step]; split <;> first | (intro _; rfl) | (intro h; cases h)
  | values id => revert h; simp only [step]; split <;> first | (intro _; rfl) | (intro h; cases h)
  | view v => revert h; simp only [step]; split <;> first | (intro _; rfl) | (intro h; cases h)
  | sweep victims order => revert h; simp only [step]; split <;> (intro h; cases h)
  | thr victims order => revert h; simp only [step]; split <;> (intro h; cases h)
  | exit order => simp only [step] at h; cases h
  | finish => simp only [step] at h; cases h

/-- the reasons a freeing operation on a whole live object is left out -/
theorem freeSkip_reasons {s : St} {f : FreeOp} {id : Nat} {o : Obj} {why : String}
    (h : s.freeSkip cfg f id o = some why) : why = "misuse" ∨ why = "referenced" ∨ why = "dangling" := by
  unfold St.freeSkip at h
  repeat' split at h
  all_goals first
    | (cases h; exact Or.inl rfl)
    | (cases h; exact Or.inr (Or.inl rfl))
    | (cases h; exact Or.inr (Or.inr rfl))
    | cases h

/-- a freeing operation on a live object that is not on the heap (and is neither a run-time Type in use nor a Box with a
    dangling pointer) is never left out -/
theorem freeSkip_nonheap_none (F : Facts cfg) {s : St} (hw : WF cfg s) {id : Nat} {o : Obj} (f : FreeOp)
    (hget : s.get id = some o) (hnh : o.hdr.alloc ≠ cfg.cHeap) (hty : s.isTypeInUse id = false)
    (hdb : s.danglingBox o = false) :
    s.freeSkip cfg f id o = none := by
  have hnr : s.isReg id = false := by
    cases hr : s.isReg id with
    | false => rfl
    | true =>
      obtain ⟨p, hp, hpid⟩ := isReg_true hr
      obtain ⟨o1, hget1, hheap, _⟩ := hw.reg p hp
      rw [hpid, hget] at hget1; cases hget1; exact absurd hheap hnh
  have hb : (o.hdr.alloc == cfg.cHeap) = false := by simpa using hnh
  simp [St.freeSkip, hnr, hty, hb, hdb]

end Cello.Hdr
