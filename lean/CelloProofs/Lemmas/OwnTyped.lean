/-
  CelloProofs/Lemmas/OwnTyped.lean — C05: calls with a wrong-typed element / key / value (`Op.typed`, `stepTyped` of
  Cello/Own.lean) at the level of one container: what a type-refused call constructs and finalises, and that it
  conserves identities.
-/
import CelloProofs.Lemmas.OwnWorld
set_option linter.unusedVariables false
set_option linter.unusedSimpArgs false

namespace Cello.Own
open List

theorem cons_refused (xs : List Tok) (e : Exc) (next : Nat) :
    let r := refused xs e
    Conserves xs r.val r.issued r.retired ∧ FreshFrom next r.issued := by
  simp [refused, Conserves, FreshFrom]

theorem cons_refusedKV (kvs : List KV) (e : Exc) (next : Nat) :
    let r := refused kvs e
    Conserves (kvToks kvs) (kvToks r.val) r.issued r.retired ∧ FreshFrom next r.issued := by
  simp [refused, Conserves, FreshFrom]

/-- a refused call: nothing constructed, finalised, assigned; the contents are the same value -/
theorem refused_inert {α : Type} (x : α) (e : Exc) : (refused x e).val = x ∧ (refused x e).issued = [] ∧
    (refused x e).retired = [] ∧ (refused x e).updated = [] ∧ (refused x e).out = .raised e := ⟨rfl, rfl, rfl, rfl, rfl⟩

theorem listPushAtWrong_spec (xs : List Tok) (i : Int) :
    ∃ e, listPushAtWrong xs i = refused xs e := by
  simp only [listPushAtWrong]
  by_cases hi : i = 0
  · simp only [hi, if_true]; exact ⟨_, rfl⟩
  · simp only [hi, if_false]
    generalize (if i < 0 then (xs.length : Int) + i else i) = j
    by_cases hb : j < 0 ∨ j ≥ (xs.length : Int)
    · simp only [hb, if_true]; exact ⟨_, rfl⟩
    · simp only [hb, if_false]; exact ⟨_, rfl⟩

theorem seqSetWrong_spec (xs : List Tok) (i : Int) : ∃ e, seqSetWrong xs i = refused xs e := by
  simp only [seqSetWrong]
  generalize (if i < 0 then (xs.length : Int) + i else i) = j
  by_cases hb : j < 0 ∨ j ≥ (xs.length : Int)
  · simp only [hb, if_true]; exact ⟨_, rfl⟩
  · simp only [hb, if_false]; exact ⟨_, rfl⟩

/-- Array_Push_At with a wrong-typed element is atomic exactly when its bounds check refuses the index -/
theorem arrayPushAtWrong_oob {xs : List Tok} {i : Int}
    (h : ((arrayPushAtWrong xs i).out == Outcome.raised .indexOutOfBounds) = true) :
    arrayPushAtWrong xs i = refused xs .indexOutOfBounds := by
  simp only [arrayPushAtWrong] at h ⊢
  generalize (if i < 0 then (xs.length : Int) + 1 + i else i) = j at h ⊢
  by_cases hb : j < 0 ∨ j > (xs.length : Int)
  · simp only [hb, if_true]
  · simp [hb] at h

theorem mapSetArgs_refused {mk : MapKind} {next : Nat} {kvs : List KV} {k v : Arg}
    (h : ¬ ∃ a b, k = .pay a ∧ v = .pay b) : mapSetArgs mk next kvs k v = refused kvs .valueError := by
  cases k <;> cases v <;> first | rfl | (exfalso; exact h ⟨_, _, rfl, rfl⟩)

theorem mapSetArgs_good (mk : MapKind) (next : Nat) (kvs : List KV) (a b : Nat) :
    mapSetArgs mk next kvs (.pay a) (.pay b) = mapSet mk next kvs a b := rfl

/-- List_Concat from a Tuple: the items before a wrong-typed one are constructed and stay; conservation holds whether
    the call is refused or not -/
theorem cons_listConcatArgs (next : Nat) (xs : List Tok) (args : List Arg) :
    let r := listConcatArgs next xs args
    Conserves xs r.val r.issued r.retired ∧ FreshFrom next r.issued := by
  simp only [listConcatArgs]
  split <;> exact ⟨by simp [Conserves], fresh_mkFresh _ _⟩

theorem cons_arrayConcatArgs_good (next : Nat) (xs : List Tok) (args : List Arg) (h : allGood args = true) :
    let r := arrayConcatArgs next xs args
    Conserves xs r.val r.issued r.retired ∧ FreshFrom next r.issued ∧ r.out = .ok := by
  simp only [arrayConcatArgs]
  have : (goodPrefix args).2 = none := by simpa [allGood] using h
  rw [this]
  exact ⟨by simp [Conserves], fresh_mkFresh _ _, rfl⟩

theorem listConcatArgs_first_wrong (next : Nat) (xs : List Tok) (args : List Arg)
    (h : (goodPrefix args).1.isEmpty = true) (hr : (listConcatArgs next xs args).out ≠ .ok) :
    listConcatArgs next xs args = refused xs .valueError := by
  have h1 : (goodPrefix args).1 = [] := by simpa using h
  simp only [listConcatArgs, h1, mkFresh] at hr ⊢
  split
  · rename_i h2; simp [h2] at hr
  · simp [refused]

theorem listConcatArgs_good_ok (next : Nat) (xs : List Tok) (args : List Arg) (h : allGood args = true) :
    (listConcatArgs next xs args).out = .ok := by
  have : (goodPrefix args).2 = none := by simpa [allGood] using h
  simp [listConcatArgs, this]

/-- a refused List constructor: everything it constructed is finalised again (the half-built list is reclaimed) -/
theorem cons_listNewRefused (next : Nat) (args : List Arg) :
    let r := listNewRefused next args
    Conserves [] [] r.issued r.retired ∧ FreshFrom next r.issued ∧ r.retired = r.issued ∧ r.updated = [] := by
  refine ⟨?_, ?_, rfl, rfl⟩
  · simp [listNewRefused, Conserves]
  · exact fresh_mkFresh _ _

/-- a refused Table / Tree constructor: the pairs before the failing one were set; what the half-built map holds is
    finalised when it is reclaimed — the finalised identities are exactly the constructed ones -/
theorem cons_mapNewRefused (mk : MapKind) (next : Nat) (args : List (Arg × Arg)) (hn : 0 < next) :
    let r := mapNewRefused mk next args
    Conserves [] [] r.issued r.retired ∧ FreshFrom next r.issued := by
  simp only [mapNewRefused]
  obtain ⟨hc, hf⟩ := cons_mapSetMany mk (goodPairs args).1 next [] hn (by simp)
  refine ⟨?_, hf⟩
  simp only [Conserves, ids_append, kvToks_nil, ids_nil, List.nil_append] at hc ⊢
  exact (perm_append_comm).trans hc

end Cello.Own
