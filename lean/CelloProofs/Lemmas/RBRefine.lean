/-
  Lemmas/RBRefine.lean — the tree operations of the model compute, on the in-order sequence, the operations of the
  specification (strictly descending association list): BST search, insertion, removal.
-/
import CelloProofs.Lemmas.RBList
import CelloProofs.Lemmas.RBSpec
import CelloProofs.Lemmas.RBReloc

namespace Cello.RB
open Std
variable {α β : Type} {cmp : α → α → Ordering}

/-! ### search -/

theorem find_eq_get [TransCmp cmp] (t : T α β) (k : α) (hd : Desc cmp (toList t)) :
    find cmp t k = Spec.get cmp k (toList t) := by
  induction t with
  | nil => rfl
  | node c l nk nv r ihl ihr =>
    simp only [toList_node] at hd ⊢
    obtain ⟨hl, hr, hlx, hxr, hlr⟩ := desc_mid hd
    simp only [find]
    cases hc : cmp nk k with
    | eq =>
      rw [Spec.get_append_eq k _ _ (nk, nv) (fun a ha => TransCmp.gt_of_gt_of_eq (hlx a ha) hc) hc]
    | lt =>
      rw [Spec.get_append_lt k _ _ (nk, nv) hc
        (fun b hb => TransCmp.lt_trans (OrientedCmp.lt_of_gt (hxr b hb)) hc)]
      exact ihl hl
    | gt =>
      rw [Spec.get_append_gt k _ _ (nk, nv) (fun a ha => TransCmp.gt_trans (hlx a ha) hc) hc]
      exact ihr hr

/-! ### insertion -/

theorem toList_insAt [TransCmp cmp] (t : T α β) (p : Path α β) (k : α) (v : β) (t' : T α β) (fresh : Bool)
    (hd : Desc cmp (toList t)) (h : insAt cmp t p k v = some (t', fresh)) :
    toList t' = ctxL p ++ Spec.set cmp k v (toList t) ++ ctxR p ∧
      fresh = (Spec.get cmp k (toList t)).isNone := by
  induction t generalizing p with
  | nil =>
    simp only [insAt, Option.map_eq_some_iff, Prod.mk.injEq] at h
    obtain ⟨t'', hs, rfl, rfl⟩ := h
    rw [toList_setFix _ _ _ hs]
    simp [Spec.set, Spec.get]
  | node c l nk nv r ihl ihr =>
    simp only [toList_node] at hd ⊢
    obtain ⟨hl, hr, hlx, hxr, hlr⟩ := desc_mid hd
    simp only [insAt] at h
    cases hc : cmp nk k with
    | eq =>
      rw [hc] at h; simp only [Option.some.injEq, Prod.mk.injEq] at h
      obtain ⟨rfl, rfl⟩ := h
      have hA : ∀ a ∈ toList l, cmp a.1 k = .gt := fun a ha => TransCmp.gt_of_gt_of_eq (hlx a ha) hc
      rw [toList_plug, Spec.set_append_eq k v _ _ (nk, nv) hA hc, Spec.get_append_eq k _ _ (nk, nv) hA hc]
      simp
    | lt =>
      rw [hc] at h
      have := ihl _ hl h
      rw [this.1, this.2, Spec.set_append_lt k v _ _ (nk, nv) hc,
        Spec.get_append_lt k _ _ (nk, nv) hc (fun b hb => TransCmp.lt_trans (OrientedCmp.lt_of_gt (hxr b hb)) hc)]
      simp [ctxL, ctxR]
    | gt =>
      rw [hc] at h
      have hA : ∀ a ∈ toList l, cmp a.1 k = .gt := fun a ha => TransCmp.gt_trans (hlx a ha) hc
      have := ihr _ hr h
      rw [this.1, this.2, Spec.set_append_gt k v _ _ (nk, nv) hA hc, Spec.get_append_gt k _ _ (nk, nv) hA hc]
      simp [ctxL, ctxR]

/-! ### removal -/

theorem ctxL_append (p q : Path α β) : ctxL (p ++ q) = ctxL q ++ ctxL p := by
  induction p with
  | nil => simp
  | cons f p ih => cases hd : f.dir <;> simp [ctxL, hd, ih]

theorem ctxR_append (p q : Path α β) : ctxR (p ++ q) = ctxR p ++ ctxR q := by
  induction p with
  | nil => simp
  | cons f p ih => cases hd : f.dir <;> simp [ctxR, hd, ih]

/-- `Tree_Maximum`: the node found has no right child and is the last of the in-order sequence -/
theorem maxLoc_spec (t : T α β) (p : Path α β) (x : Loc α β) (h : maxLoc t p = some x) :
    x.r = .nil ∧ ctxL x.path ++ toList x.l ++ [(x.k, x.v)] = ctxL p ++ toList t ∧ ctxR x.path = ctxR p := by
  induction t generalizing p with
  | nil => simp [maxLoc] at h
  | node c l k v r ihl ihr =>
    unfold maxLoc at h
    split at h
    · simp at h; subst h; simp
    · rename_i c' l' k' v' r'
      obtain ⟨h1, h2, h3⟩ := ihr _ h
      refine ⟨h1, ?_, ?_⟩
      · rw [h2]; simp [ctxL]
      · rw [h3]; simp [ctxR]

theorem toList_child (x : Loc α β) (h1 : x.l = .nil ∨ x.r = .nil) :
    toList x.child = toList x.l ++ toList x.r := by
  unfold Loc.child
  rcases h1 with h1 | h1
  · rw [h1]; split <;> simp_all
  · rw [h1]; simp

/-- the tail of `Tree_Rem`: the node is replaced by its only possible child, nothing else moves in the sequence -/
theorem toList_spliceOut (x : Loc α β) (t' : T α β) (h1 : x.l = .nil ∨ x.r = .nil) (h : spliceOut x = some t') :
    toList t' = ctxL x.path ++ (toList x.l ++ toList x.r) ++ ctxR x.path := by
  have hch := toList_child x h1
  unfold spliceOut at h
  simp only at h
  have hp : ∀ p', (if x.c = .B then remFix x.path else some x.path) = some p' →
      ctxL p' = ctxL x.path ∧ ctxR p' = ctxR x.path := by
    intro p' hp
    split at hp
    · exact ctx_remFix _ _ hp
    · simp at hp; subst hp; exact ⟨rfl, rfl⟩
  split at h
  · simp at h
  · rename_i heq
    have := hp _ heq
    simp at h; subst h
    rw [toList_setColor, hch, ← this.1, ← this.2]; simp
  · rename_i p' hne heq
    have := hp _ heq
    simp at h; subst h
    rw [toList_plug, hch, this.1, this.2]

/-- `Tree_Rem` at the node found: exactly that node's binding disappears from the sequence -/
theorem toList_remHere (c : Color) (l : T α β) (nk : α) (nv : β) (r : T α β) (p : Path α β) (t' : T α β)
    (h : remHereA c l nk nv r p = some t') : toList t' = ctxL p ++ (toList l ++ toList r) ++ ctxR p := by
  unfold remHereA at h
  split at h
  · rename_i lc ll lk lv lr rc rl rk rv rr
    split at h
    · simp at h
    · rename_i pr hpr
      obtain ⟨h1, h2, h3⟩ := maxLoc_spec _ _ _ hpr
      rw [toList_spliceOut _ _ (Or.inr (by exact h1)) h]
      simp only [ctxL_append, ctxR_append, h1, h3]
      simp only [ctxL_nil, List.nil_append] at h2
      rw [← h2]
      simp [ctxL, ctxR]
  · rename_i hnot
    have h1 : l = .nil ∨ r = .nil := by
      cases l <;> cases r <;> simp at hnot ⊢
      exact hnot _ _ _ _ _ _ _ _ _ _ rfl rfl rfl rfl rfl rfl rfl rfl rfl rfl
    rw [toList_spliceOut _ _ h1 h]

theorem toList_remAt [TransCmp cmp] (t : T α β) (p : Path α β) (k : α) (hd : Desc cmp (toList t)) :
    (remAtA cmp t p k = some none → Spec.get cmp k (toList t) = none) ∧
    (∀ t', remAtA cmp t p k = some (some t') →
      (Spec.get cmp k (toList t)).isSome ∧ toList t' = ctxL p ++ Spec.rem cmp k (toList t) ++ ctxR p) := by
  induction t generalizing p with
  | nil => simp [remAtA, Spec.get]
  | node c l nk nv r ihl ihr =>
    simp only [toList_node] at hd ⊢
    obtain ⟨hl, hr, hlx, hxr, hlr⟩ := desc_mid hd
    simp only [remAtA]
    cases hc : cmp nk k with
    | eq =>
      have hA : ∀ a ∈ toList l, cmp a.1 k = .gt := fun a ha => TransCmp.gt_of_gt_of_eq (hlx a ha) hc
      rw [Spec.get_append_eq k _ _ (nk, nv) hA hc, Spec.rem_append_eq k _ _ (nk, nv) hA hc]
      refine ⟨by simp, ?_⟩
      intro t' ht'
      simp only [Option.map_eq_some_iff, Option.some.injEq] at ht'
      obtain ⟨t'', hs, rfl⟩ := ht'
      exact ⟨by simp, toList_remHere _ _ _ _ _ _ _ hs⟩
    | lt =>
      have hB : ∀ b ∈ toList r, cmp b.1 k = .lt :=
        fun b hb => TransCmp.lt_trans (OrientedCmp.lt_of_gt (hxr b hb)) hc
      rw [Spec.get_append_lt k _ _ (nk, nv) hc hB, Spec.rem_append_lt k _ _ (nk, nv) hc hB]
      have := ihl ({ dir := .L, c := c, k := nk, v := nv, sib := r } :: p) hl
      refine ⟨this.1, fun t' ht' => ?_⟩
      obtain ⟨g1, g2⟩ := this.2 t' ht'
      refine ⟨g1, ?_⟩
      rw [g2]; simp [ctxL, ctxR]
    | gt =>
      have hA : ∀ a ∈ toList l, cmp a.1 k = .gt := fun a ha => TransCmp.gt_trans (hlx a ha) hc
      rw [Spec.get_append_gt k _ _ (nk, nv) hA hc, Spec.rem_append_gt k _ _ (nk, nv) hA hc]
      have := ihr ({ dir := .Rt, c := c, k := nk, v := nv, sib := l } :: p) hr
      refine ⟨this.1, fun t' ht' => ?_⟩
      obtain ⟨g1, g2⟩ := this.2 t' ht'
      refine ⟨g1, ?_⟩
      rw [g2]; simp [ctxL, ctxR]

end Cello.RB
