/- helper lemmas for C11: the containers Array, List, Tuple, Table -/
import CelloProofs.Lemmas.IterRun

namespace Cello.Iter

variable {α : Type}

theorem atIdx_lt (l : List α) (i : Nat) (h : i < l.length) : atIdx l i = (some i, .item l[i]) := by
  simp [atIdx, List.getElem?_eq_getElem h]

theorem getIdx_ofNat (l : List α) (i : Nat) (h : i < l.length) : getIdx l (Int.ofNat i) = some l[i] := by
  have h1 : ¬ ((i : Int) < 0) := by omega
  have h2 : ¬ ((i : Int) < 0 ∨ (i : Int) ≥ (l.length : Int)) := by omega
  simp [getIdx, h1, List.getElem?_eq_getElem h] <;> omega

/-! ### Array -/

theorem array_fwd_from (l : List α) : ∀ (m i : Nat) (h : i < l.length), l.length - i = m →
    Run (arrayI l).next (some i, .item l[i]) (l.drop i) := by
  intro m
  induction m with
  | zero => intro i h hm; omega
  | succ m ih =>
    intro i h hm
    rw [List.drop_eq_getElem_cons h]
    refine Run.item _ _ _ ?_
    by_cases hl : i + 1 ≥ l.length
    · have : l.drop (i + 1) = [] := List.drop_eq_nil_of_le hl
      simp only [arrayI, hl, if_true, this]
      exact Run.term _
    · have hlt : i + 1 < l.length := by omega
      simp only [arrayI, hl, if_false, atIdx_lt l (i + 1) hlt]
      exact ih (i + 1) hlt (by omega)

theorem array_bwd_from (l : List α) : ∀ (i : Nat) (h : i < l.length),
    Run (arrayI l).prev (some i, .item l[i]) (l.take (i + 1)).reverse := by
  intro i
  induction i with
  | zero =>
    intro h
    have : l.take 1 = [l[0]] := by
      cases l with
      | nil => simp at h
      | cons a t => simp
    rw [this]
    refine Run.item _ _ _ ?_
    simp only [arrayI, Nat.le_refl, if_true]
    exact Run.term _
  | succ i ih =>
    intro h
    have hi : i < l.length := by omega
    have : l.take (i + 1 + 1) = l.take (i + 1) ++ [l[i + 1]] := by
      rw [List.take_add_one, List.getElem?_eq_getElem h]; rfl
    rw [this, List.reverse_append]
    refine Run.item _ _ _ ?_
    have hne : ¬ (i + 1 ≤ 0) := by omega
    simp only [arrayI, hne, if_false, Nat.add_sub_cancel, atIdx_lt l i hi]
    exact ih hi

theorem array_lawfulAs (l : List α) : LawfulAs (arrayI l) l := by
  refine ⟨?_, ?_, ?_, ?_⟩
  · intro s
    by_cases h0 : l.length = 0
    · have : l = [] := List.length_eq_zero_iff.mp h0
      subst this; exact Run.term _
    · have h : 0 < l.length := by omega
      have := array_fwd_from l l.length 0 h rfl
      simpa [arrayI, h0, atIdx_lt l 0 h] using this
  · intro s
    by_cases h0 : l.length = 0
    · have : l = [] := List.length_eq_zero_iff.mp h0
      subst this; exact Run.term _
    · have h : l.length - 1 < l.length := by omega
      have := array_bwd_from l (l.length - 1) h
      have e : l.length - 1 + 1 = l.length := by omega
      simpa [arrayI, h0, atIdx_lt l _ h, e] using this
  · intro n hn; simp [arrayI] at hn; omega
  · intro g hg i hi
    simp only [arrayI, Option.some.injEq] at hg
    subst hg; exact getIdx_ofNat l i hi

/-! ### List -/

theorem list_fwd_from (l : List α) : ∀ (m i : Nat) (h : i < l.length), l.length - i = m →
    Run (listI l).next (some i, .item l[i]) (l.drop i) := by
  intro m
  induction m with
  | zero => intro i h hm; omega
  | succ m ih =>
    intro i h hm
    rw [List.drop_eq_getElem_cons h]
    refine Run.item _ _ _ ?_
    by_cases hl : i + 1 < l.length
    · simp only [listI, hl, if_true, atIdx_lt l (i + 1) hl]
      exact ih (i + 1) hl (by omega)
    · have : l.drop (i + 1) = [] := List.drop_eq_nil_of_le (by omega)
      simp only [listI, hl, if_false, this]
      exact Run.term _

theorem list_bwd_from (l : List α) : ∀ (i : Nat) (h : i < l.length),
    Run (listI l).prev (some i, .item l[i]) (l.take (i + 1)).reverse := by
  intro i
  induction i with
  | zero =>
    intro h
    have : l.take 1 = [l[0]] := by
      cases l with
      | nil => simp at h
      | cons a t => simp
    rw [this]
    refine Run.item _ _ _ ?_
    simp only [listI]
    exact Run.term _
  | succ i ih =>
    intro h
    have hi : i < l.length := by omega
    have : l.take (i + 1 + 1) = l.take (i + 1) ++ [l[i + 1]] := by
      rw [List.take_add_one, List.getElem?_eq_getElem h]; rfl
    rw [this, List.reverse_append]
    refine Run.item _ _ _ ?_
    simp only [listI, atIdx_lt l i hi]
    exact ih hi

theorem list_lawfulAs (l : List α) : LawfulAs (listI l) l := by
  refine ⟨?_, ?_, ?_, ?_⟩
  · intro s
    by_cases h0 : l.length = 0
    · have : l = [] := List.length_eq_zero_iff.mp h0
      subst this; exact Run.term _
    · have h : 0 < l.length := by omega
      have := list_fwd_from l l.length 0 h rfl
      simpa [listI, h0, atIdx_lt l 0 h] using this
  · intro s
    by_cases h0 : l.length = 0
    · have : l = [] := List.length_eq_zero_iff.mp h0
      subst this; exact Run.term _
    · have h : l.length - 1 < l.length := by omega
      have := list_bwd_from l (l.length - 1) h
      have e : l.length - 1 + 1 = l.length := by omega
      simpa [listI, h0, atIdx_lt l _ h, e] using this
  · intro n hn; simp [listI] at hn; omega
  · intro g hg i hi
    simp only [listI, Option.some.injEq] at hg
    subst hg; exact getIdx_ofNat l i hi

/-! ### Tuple (elements found again by identity) -/

theorem tupNext_nodup : ∀ (ids : List Nat), ids.Nodup → ∀ (i : Nat) (h : i < ids.length),
    tupNext ids ids[i] = ids[i + 1]? := by
  intro ids
  induction ids with
  | nil => intro _ i h; simp at h
  | cons x t ih =>
    intro hnd i h
    have hx : x ∉ t := (List.nodup_cons.mp hnd).1
    have ht : t.Nodup := (List.nodup_cons.mp hnd).2
    cases i with
    | zero => simp [tupNext, List.head?_eq_getElem?]
    | succ i =>
      have hi : i < t.length := by simpa using h
      have hne : x ≠ t[i] := fun e => hx (e ▸ List.getElem_mem hi)
      simp only [List.getElem_cons_succ, tupNext, hne, if_false]
      rw [ih ht i hi]; simp

theorem tupPrevGo_nodup : ∀ (ids : List Nat), ids.Nodup → ∀ (i : Nat) (h : i + 1 < ids.length),
    tupPrevGo ids ids[i + 1] = some ids[i] := by
  intro ids
  induction ids with
  | nil => intro _ i h; simp at h
  | cons x t ih =>
    intro hnd i h
    have ht : t.Nodup := (List.nodup_cons.mp hnd).2
    cases t with
    | nil => simp at h
    | cons y t' =>
      cases i with
      | zero => simp [tupPrevGo]
      | succ i =>
        have hi : i + 1 < (y :: t').length := by simpa using h
        have hy : y ∉ t' := (List.nodup_cons.mp ht).1
        have hne : y ≠ (y :: t')[i + 1] := by
          intro e
          apply hy
          have : (y :: t')[i + 1] ∈ t' := by
            simp only [List.getElem_cons_succ]; exact List.getElem_mem _
          exact e ▸ this
        have e1 : (x :: y :: t')[i + 1 + 1] = (y :: t')[i + 1] := rfl
        have e2 : (x :: y :: t')[i + 1] = (y :: t')[i] := rfl
        rw [e1, e2]
        simp only [tupPrevGo, hne, if_false]
        exact ih ht i hi

theorem tuple_fwd_from (ids : List Nat) (hnd : ids.Nodup) : ∀ (m i : Nat) (h : i < ids.length), ids.length - i = m →
    Run (tupleI ids).next (some ids[i], .item ids[i]) (ids.drop i) := by
  intro m
  induction m with
  | zero => intro i h hm; omega
  | succ m ih =>
    intro i h hm
    rw [List.drop_eq_getElem_cons h]
    refine Run.item _ _ _ ?_
    simp only [tupleI, tupNext_nodup ids hnd i h]
    by_cases hl : i + 1 < ids.length
    · rw [List.getElem?_eq_getElem hl]
      exact ih (i + 1) hl (by omega)
    · have : ids.drop (i + 1) = [] := List.drop_eq_nil_of_le (by omega)
      rw [List.getElem?_eq_none (by omega), this]
      exact Run.term _

theorem tuple_bwd_from (ids : List Nat) (hnd : ids.Nodup) : ∀ (i : Nat) (h : i < ids.length),
    Run (tupleI ids).prev (some ids[i], .item ids[i]) (ids.take (i + 1)).reverse := by
  intro i
  induction i with
  | zero =>
    intro h
    have : ids.take 1 = [ids[0]] := by
      cases ids with
      | nil => simp at h
      | cons a t => simp
    rw [this]
    refine Run.item _ _ _ ?_
    have : ids.head? = some ids[0] := by
      cases ids with
      | nil => simp at h
      | cons a t => simp
    simp only [tupleI, this, if_true]
    exact Run.term _
  | succ i ih =>
    intro h
    have hi : i < ids.length := by omega
    have : ids.take (i + 1 + 1) = ids.take (i + 1) ++ [ids[i + 1]] := by
      rw [List.take_add_one, List.getElem?_eq_getElem h]; rfl
    rw [this, List.reverse_append]
    refine Run.item _ _ _ ?_
    have hh : ids.head? ≠ some ids[i + 1] := by
      cases ids with
      | nil => simp at h
      | cons a t =>
        have ha : a ∉ t := (List.nodup_cons.mp hnd).1
        simp only [List.head?_cons, List.getElem_cons_succ, ne_eq, Option.some.injEq]
        intro e; exact ha (e ▸ List.getElem_mem _)
    simp only [tupleI, hh, if_false, tupPrevGo_nodup ids hnd i h]
    exact ih hi

theorem tuple_lawfulAs (ids : List Nat) (hnd : ids.Nodup) : LawfulAs (tupleI ids) ids := by
  refine ⟨?_, ?_, ?_, ?_⟩
  · intro s
    cases hids : ids with
    | nil => exact Run.term _
    | cons a t =>
      have h : 0 < ids.length := by simp [hids]
      have := tuple_fwd_from ids hnd ids.length 0 h rfl
      simpa [tupleI, hids, idRes] using this
  · intro s
    by_cases h0 : ids.length = 0
    · have : ids = [] := List.length_eq_zero_iff.mp h0
      subst this; exact Run.term _
    · have h : ids.length - 1 < ids.length := by omega
      have := tuple_bwd_from ids hnd (ids.length - 1) h
      have e : ids.length - 1 + 1 = ids.length := by omega
      have hl : ids.getLast? = some ids[ids.length - 1] := by
        rw [List.getLast?_eq_getElem?, List.getElem?_eq_getElem h]
      simpa [tupleI, h0, hl, idRes, e] using this
  · intro n hn; simp [tupleI] at hn; omega
  · intro g hg i hi
    simp only [tupleI, Option.some.injEq] at hg
    subst hg; exact getIdx_ofNat ids i hi

/-! ### Table (slot scan) -/

theorem table_fwd_scan (slots : List (Option α)) : ∀ (t pre : List (Option α)), slots = pre ++ t →
    Run (tableI slots).next (scanRes (scanUp t pre.length)) (t.filterMap id) := by
  intro t
  induction t with
  | nil => intro pre _; exact Run.term _
  | cons x t ih =>
    intro pre hs
    cases x with
    | none =>
      have := ih (pre ++ [none]) (by simp [hs])
      simpa [scanUp] using this
    | some a =>
      simp only [scanUp, scanRes, List.filterMap_cons_some (show id (some a) = some a from rfl)]
      refine Run.item _ _ _ ?_
      have hd : slots.drop (pre.length + 1) = t := by
        rw [hs]
        have : pre ++ some a :: t = (pre ++ [some a]) ++ t := by simp
        rw [this]
        have hl : (pre ++ [some a]).length = pre.length + 1 := by simp
        rw [← hl, List.drop_left]
      have := ih (pre ++ [some a]) (by simp [hs])
      have hl : (pre ++ [some a]).length = pre.length + 1 := by simp
      rw [hl] at this
      show Run (tableI slots).next (scanRes (scanUp (slots.drop (pre.length + 1)) (pre.length + 1))) _
      rw [hd]; exact this

theorem table_bwd_scan (slots : List (Option α)) : ∀ (i : Nat),
    Run (tableI slots).prev (scanRes (scanDown slots i)) ((slots.take i).filterMap id).reverse := by
  intro i
  induction i with
  | zero => exact Run.term _
  | succ i ih =>
    rw [List.take_add_one]
    cases hx : slots[i]? with
    | none => simpa [scanDown, hx] using ih
    | some x =>
      cases x with
      | none => simpa [scanDown, hx] using ih
      | some a =>
        simp only [scanDown, hx, scanRes, Option.toList_some, List.filterMap_append, List.reverse_append]
        refine Run.item _ _ _ ?_
        simpa [tableI] using ih

theorem table_lawfulAs (slots : List (Option α)) : LawfulAs (tableI slots) (occupied slots) := by
  refine ⟨?_, ?_, ?_, ?_⟩
  · intro s
    dsimp only [tableI]
    split
    · next h0 =>
      have : occupied slots = [] := List.length_eq_zero_iff.mp h0
      rw [this]; exact Run.term _
    · exact table_fwd_scan slots slots [] rfl
  · intro s
    dsimp only [tableI]
    split
    · next h0 =>
      have : occupied slots = [] := List.length_eq_zero_iff.mp h0
      rw [this]; exact Run.term _
    · have := table_bwd_scan slots slots.length
      rw [List.take_length] at this; exact this
  · intro n hn; simp [tableI] at hn; omega
  · intro g hg; simp [tableI] at hg

end Cello.Iter
