/-
  C10 helper lemmas: `memswap` as a program (Cello/Hash.lean: `runSwapProg`).

  * `runBody_exch`      : a block body of the shape `exchBody` recognises exchanges `w` bytes at the two cursors and does its
                          bookkeeping, whatever the surrounding memory is;
  * `swapProg_exchanges`: every program of the shape `swapOk` — blocks of exchange steps of any widths guarded by the remaining
                          count, closed by a byte loop — leaves the two objects exchanged, for objects of every size and bytes of
                          every type;
  * `sortW_perm`        : the quicksort of src/Array.c, run with an element swap that exchanges, ends in a permutation of the items.
  Core Lean only.
-/
import Cello.Hash
set_option linter.unusedSimpArgs false
set_option linter.unusedSimpArgs false

namespace Cello.Hash
open CelloGen.Hash (SwPtr SwStmt SwBlock)

variable {α : Type}

/-! ## lists -/

theorem window_length (m : List α) (o w : Nat) (h : o + w ≤ m.length) : (window m o w).length = w := by
  simp only [window, List.length_take, List.length_drop]; omega

theorem splice_length (m : List α) (o : Nat) (x : List α) (h : o + x.length ≤ m.length) : (splice m o x).length = m.length := by
  simp only [splice, List.length_append, List.length_take, List.length_drop]; omega

/-- the two objects hold each other's first `d` bytes -/
def Mixed (x y : List α) (d : Nat) (m0 m1 : List α) : Prop := m0 = y.take d ++ x.drop d ∧ m1 = x.take d ++ y.drop d

theorem mixed_length {x y : List α} (hxy : y.length = x.length) {d : Nat} (hd : d ≤ x.length) {m0 m1 : List α}
    (hm : Mixed x y d m0 m1) : m0.length = x.length ∧ m1.length = x.length := by
  obtain ⟨rfl, rfl⟩ := hm
  simp only [List.length_append, List.length_take, List.length_drop]; omega

private theorem mix_one (x y : List α) (hxy : y.length = x.length) (d w : Nat) (h : d + w ≤ x.length) :
    splice (y.take d ++ x.drop d) d (window (x.take d ++ y.drop d) d w) = y.take (d + w) ++ x.drop (d + w) := by
  have hx : (x.take d).length = d := by simp only [List.length_take]; omega
  have hy : (y.take d).length = d := by simp only [List.length_take]; omega
  have hwin : window (x.take d ++ y.drop d) d w = (y.drop d).take w := by
    unfold window
    have : (x.take d ++ y.drop d).drop d = y.drop d := by
      conv => lhs; arg 1; rw [← hx]
      exact List.drop_left
    rw [this]
  have hwl : ((y.drop d).take w).length = w := by simp only [List.length_take, List.length_drop]; omega
  rw [hwin]
  unfold splice
  rw [hwl]
  have h1 : (y.take d ++ x.drop d).take d = y.take d := by
    conv => lhs; arg 1; rw [← hy]
    exact List.take_left
  have h2 : (y.take d ++ x.drop d).drop (d + w) = x.drop (d + w) := by
    rw [List.drop_append, hy, List.drop_drop]
    have : (y.take d).drop (d + w) = [] := List.drop_of_length_le (by omega)
    rw [this, List.nil_append]
    congr 1; omega
  rw [h1, h2, List.take_add, List.append_assoc]

theorem mixed_step {x y : List α} (hxy : y.length = x.length) {d w : Nat} (h : d + w ≤ x.length) {m0 m1 : List α}
    (hm : Mixed x y d m0 m1) : Mixed x y (d + w) (splice m0 d (window m1 d w)) (splice m1 d (window m0 d w)) := by
  obtain ⟨rfl, rfl⟩ := hm
  exact ⟨mix_one x y hxy d w h, mix_one y x hxy.symm d w (by omega)⟩

theorem mixed_full {x y : List α} (hxy : y.length = x.length) {m0 m1 : List α} (hm : Mixed x y x.length m0 m1) :
    m0 = y ∧ m1 = x := by
  obtain ⟨rfl, rfl⟩ := hm
  constructor
  · rw [List.take_of_length_le (by omega), List.drop_of_length_le (by omega), List.append_nil]
  · rw [List.take_of_length_le (by omega), List.drop_of_length_le (by omega), List.append_nil]

/-! ## a block body -/

/-- the cursor into `p` moved on `k` bytes -/
def advance (σ : SwSt α) : SwPtr → Nat → SwSt α
  | .a, k => { σ with a := σ.a + k }
  | .b, k => { σ with b := σ.b + k }

theorem runBody_book : ∀ (bk : List SwStmt) (x y z : Nat), bookOf bk = some (x, y, z) → ∀ σ : SwSt α, σ.ub = false → z ≤ σ.s →
    runBody σ bk = { σ with a := σ.a + x, b := σ.b + y, s := σ.s - z } := by
  intro bk
  induction bk with
  | nil =>
    intro x y z h σ _ _
    simp only [bookOf, Option.some.injEq, Prod.mk.injEq] at h
    obtain ⟨rfl, rfl, rfl⟩ := h
    simp [runBody]
  | cons st r ih =>
    intro x y z h σ hub hz
    obtain ⟨m0, m1, a, b, s, i, t, ub⟩ := σ
    simp only at hub hz
    subst hub
    cases st with
    | load _ _ _ => simp [bookOf] at h
    | move _ _ _ _ => simp [bookOf] at h
    | store _ _ _ => simp [bookOf] at h
    | adv p k =>
      cases p with
      | a =>
        simp only [bookOf, Option.map_eq_some_iff, Prod.mk.injEq] at h
        obtain ⟨⟨x', y', z'⟩, hr, rfl, rfl, rfl⟩ := h
        simp only [runBody, Bool.false_eq_true, if_false, runStmt]
        rw [ih x' y' z' hr ⟨m0, m1, a + k, b, s, i, t, false⟩ rfl hz]
        simp only [SwSt.mk.injEq, true_and, and_true]; omega
      | b =>
        simp only [bookOf, Option.map_eq_some_iff, Prod.mk.injEq] at h
        obtain ⟨⟨x', y', z'⟩, hr, rfl, rfl, rfl⟩ := h
        simp only [runBody, Bool.false_eq_true, if_false, runStmt]
        rw [ih x' y' z' hr ⟨m0, m1, a, b + k, s, i, t, false⟩ rfl hz]
        simp only [SwSt.mk.injEq, true_and, and_true]; omega
    | dec k =>
      simp only [bookOf, Option.map_eq_some_iff, Prod.mk.injEq] at h
      obtain ⟨⟨x', y', z'⟩, hr, rfl, rfl, rfl⟩ := h
      have hk : k ≤ s := by simp only at hz; omega
      simp only [runBody, Bool.false_eq_true, if_false, runStmt, hk, if_true]
      rw [ih x' y' z' hr ⟨m0, m1, a, b, s - k, i, t, false⟩ rfl (by simp only at hz ⊢; omega)]
      simp only [SwSt.mk.injEq, true_and, and_true]; simp only at hz; omega

theorem runBody_splitAdv (p : SwPtr) : ∀ (rest : List SwStmt) (σ : SwSt α), σ.ub = false →
    runBody σ rest = runBody (advance σ p (splitAdv p rest).1) (splitAdv p rest).2 := by
  intro rest
  induction rest with
  | nil => intro σ _; cases p <;> simp [splitAdv, advance]
  | cons st r ih =>
    intro σ hub
    cases st with
    | adv q k =>
      by_cases hq : q = p
      · subst hq
        simp only [splitAdv, if_true]
        have : runBody σ (SwStmt.adv q k :: r) = runBody (advance σ q k) r := by
          cases q <;> simp [runBody, hub, runStmt, advance]
        rw [this, ih (advance σ q k) (by cases q <;> simpa [advance] using hub)]
        congr 1
        cases q <;> (cases σ; simp [advance]; omega)
      · simp only [splitAdv, hq, if_false]
        cases p <;> simp [advance]
    | load _ _ _ => cases p <;> simp [splitAdv, advance]
    | move _ _ _ _ => cases p <;> simp [splitAdv, advance]
    | store _ _ _ => cases p <;> simp [splitAdv, advance]
    | dec _ => cases p <;> simp [splitAdv, advance]

/-- what `exchBody` accepts -/
theorem exchBody_inv {body : List SwStmt} {e : Exch} (h : exchBody body = some e) :
    ∃ (p q : SwPtr) (rest bk : List SwStmt) (k1 x y z : Nat), p ≠ q ∧
      body = .load p e.idx e.w :: .move p q e.idx e.w :: rest ∧
      splitAdv p rest = (k1, .store q e.idx e.w :: bk) ∧ bookOf bk = some (x, y, z) ∧
      e.da = (if p = .a then k1 else 0) + x ∧ e.db = (if p = .b then k1 else 0) + y ∧ e.ds = z := by
  unfold exchBody at h
  split at h
  · rename_i p idx w d s idx' w' rest
    split at h
    · rename_i k1 q idx'' w'' bk hsp
      split at h
      · rename_i x y z hbk
        split at h
        · rename_i hc
          obtain ⟨rfl, rfl, hne, rfl, rfl, rfl, rfl⟩ := hc
          simp only [Option.some.injEq] at h
          subst h
          exact ⟨d, s, rest, bk, k1, x, y, z, hne, rfl, hsp, hbk, rfl, rfl, rfl⟩
        · simp at h
      · simp at h
    · simp at h
  · simp at h

/-- **an exchange body exchanges**: `w` bytes at the two addressed offsets change sides, the rest of both objects stays, the
    cursors and the count move by the totals of the bookkeeping statements -/
theorem runBody_exch {body : List SwStmt} {e : Exch} (h : exchBody body = some e) (σ : SwSt α) (hub : σ.ub = false)
    (ha : σ.off .a e.idx e.w + e.w ≤ σ.m0.length) (hb : σ.off .b e.idx e.w + e.w ≤ σ.m1.length) (hs : e.ds ≤ σ.s) :
    (runBody σ body).m0 = splice σ.m0 (σ.off .a e.idx e.w) (window σ.m1 (σ.off .b e.idx e.w) e.w) ∧
    (runBody σ body).m1 = splice σ.m1 (σ.off .b e.idx e.w) (window σ.m0 (σ.off .a e.idx e.w) e.w) ∧
    (runBody σ body).a = σ.a + e.da ∧ (runBody σ body).b = σ.b + e.db ∧ (runBody σ body).s = σ.s - e.ds ∧
    (runBody σ body).i = σ.i ∧ (runBody σ body).ub = false := by
  obtain ⟨p, q, rest, bk, k1, x, y, z, hne, rfl, hsp, hbk, hda, hdb, hds⟩ := exchBody_inv h
  obtain ⟨m0, m1, a, b, s, i, t, ub⟩ := σ
  simp only at hub hs
  subst hub
  simp only [SwSt.off, SwSt.cur] at ha hb ⊢
  generalize hoa : a + (if e.idx = true then i * e.w else 0) = oa at ha ⊢
  generalize hob : b + (if e.idx = true then i * e.w else 0) = ob at hb ⊢
  have hwa := window_length m0 oa e.w ha
  have hwb := window_length m1 ob e.w hb
  have hz : z ≤ s := by omega
  cases p with
  | a =>
    cases q with
    | a => exact absurd rfl hne
    | b =>
      have e1 : runBody (⟨m0, m1, a, b, s, i, t, false⟩ : SwSt α) (.load .a e.idx e.w :: .move .a .b e.idx e.w :: rest) =
          runBody ⟨splice m0 oa (window m1 ob e.w), m1, a, b, s, i, window m0 oa e.w, false⟩ rest := by
        simp only [runBody, runStmt, SwSt.off, SwSt.cur, SwSt.mem, SwSt.setMem, hoa, hob, ha, hb, and_self, if_true,
          Bool.false_eq_true, if_false]
      rw [e1, runBody_splitAdv .a rest _ rfl, hsp]
      simp only [advance]
      have e2 : runBody (⟨splice m0 oa (window m1 ob e.w), m1, a + k1, b, s, i, window m0 oa e.w, false⟩ : SwSt α)
            (.store .b e.idx e.w :: bk) =
          runBody ⟨splice m0 oa (window m1 ob e.w), splice m1 ob (window m0 oa e.w), a + k1, b, s, i, window m0 oa e.w, false⟩ bk := by
        simp only [runBody, runStmt, SwSt.off, SwSt.cur, SwSt.mem, SwSt.setMem, hob, hb, hwa, Nat.le_refl, and_self, if_true,
          Bool.false_eq_true, if_false]
        rw [List.take_of_length_le (by rw [hwa]; exact Nat.le_refl _)]
      rw [e2, runBody_book bk x y z hbk _ rfl hz]
      simp only [hda, hdb, hds, if_true, reduceCtorEq, if_false]
      exact ⟨trivial, trivial, by omega, by omega, trivial, trivial, trivial⟩
  | b =>
    cases q with
    | b => exact absurd rfl hne
    | a =>
      have e1 : runBody (⟨m0, m1, a, b, s, i, t, false⟩ : SwSt α) (.load .b e.idx e.w :: .move .b .a e.idx e.w :: rest) =
          runBody ⟨m0, splice m1 ob (window m0 oa e.w), a, b, s, i, window m1 ob e.w, false⟩ rest := by
        simp only [runBody, runStmt, SwSt.off, SwSt.cur, SwSt.mem, SwSt.setMem, hoa, hob, ha, hb, and_self, if_true,
          Bool.false_eq_true, if_false]
      rw [e1, runBody_splitAdv .b rest _ rfl, hsp]
      simp only [advance]
      have e2 : runBody (⟨m0, splice m1 ob (window m0 oa e.w), a, b + k1, s, i, window m1 ob e.w, false⟩ : SwSt α)
            (.store .a e.idx e.w :: bk) =
          runBody ⟨splice m0 oa (window m1 ob e.w), splice m1 ob (window m0 oa e.w), a, b + k1, s, i, window m1 ob e.w, false⟩ bk := by
        simp only [runBody, runStmt, SwSt.off, SwSt.cur, SwSt.mem, SwSt.setMem, hoa, ha, hwb, Nat.le_refl, and_self, if_true,
          Bool.false_eq_true, if_false]
        rw [List.take_of_length_le (by rw [hwb]; exact Nat.le_refl _)]
      rw [e2, runBody_book bk x y z hbk _ rfl hz]
      simp only [hda, hdb, hds, if_true, reduceCtorEq, if_false]
      exact ⟨trivial, trivial, by omega, by omega, trivial, trivial, trivial⟩

/-! ## the loops -/

/-- one exchange step at offset `d` of both objects, which hold each other's first `d` bytes -/
theorem body_step {x y : List α} (hxy : y.length = x.length) {body : List SwStmt} {e : Exch} (h : exchBody body = some e)
    {d : Nat} (σ : SwSt α) (hm : Mixed x y d σ.m0 σ.m1) (hoa : σ.off .a e.idx e.w = d) (hob : σ.off .b e.idx e.w = d)
    (hub : σ.ub = false) (hw : d + e.w ≤ x.length) (hs : e.ds ≤ σ.s) :
    Mixed x y (d + e.w) (runBody σ body).m0 (runBody σ body).m1 ∧ (runBody σ body).a = σ.a + e.da ∧
    (runBody σ body).b = σ.b + e.db ∧ (runBody σ body).s = σ.s - e.ds ∧ (runBody σ body).i = σ.i ∧
    (runBody σ body).ub = false := by
  obtain ⟨l0, l1⟩ := mixed_length hxy (by omega) hm
  obtain ⟨r0, r1, ra, rb, rs, ri, ru⟩ := runBody_exch h σ hub (by rw [hoa, l0]; exact hw) (by rw [hob, l1]; exact hw) hs
  rw [hoa, hob] at r0 r1
  exact ⟨by rw [r0, r1]; exact mixed_step hxy hw hm, ra, rb, rs, ri, ru⟩

/-- the invariant between blocks: both objects exchanged up to byte `c`, both cursors at `c`, the count = what is left -/
structure Mid (x y : List α) (c : Nat) (σ : SwSt α) : Prop where
  mix : Mixed x y c σ.m0 σ.m1
  ha : σ.a = c
  hb : σ.b = c
  hs : σ.s = x.length - c
  hc : c ≤ x.length
  hi : σ.i = 0
  hub : σ.ub = false

theorem Mid.offA {x y : List α} {c : Nat} {σ : SwSt α} (hm : Mid x y c σ) (idx : Bool) (w : Nat) : σ.off .a idx w = c := by
  simp [SwSt.off, SwSt.cur, hm.ha, hm.hi]

theorem Mid.offB {x y : List α} {c : Nat} {σ : SwSt α} (hm : Mid x y c σ) (idx : Bool) (w : Nat) : σ.off .b idx w = c := by
  simp [SwSt.off, SwSt.cur, hm.hb, hm.hi]

/-- an exchange step of `w` bytes that moves the cursors and the count by `w` keeps the invariant -/
theorem body_mid {x y : List α} (hxy : y.length = x.length) {body : List SwStmt} {e : Exch} (h : exchBody body = some e)
    (hda : e.da = e.w) (hdb : e.db = e.w) (hds : e.ds = e.w) {c : Nat} {σ : SwSt α} (hm : Mid x y c σ)
    (hw : c + e.w ≤ x.length) : Mid x y (c + e.w) (runBody σ body) := by
  have hs := hm.hs
  obtain ⟨m, a', b', s', i', u'⟩ := body_step hxy h σ hm.mix (hm.offA _ _) (hm.offB _ _) hm.hub hw (by omega)
  exact ⟨m, by rw [a', hm.ha, hda], by rw [b', hm.hb, hdb], by rw [s', hds]; omega, hw, by rw [i', hm.hi], u'⟩

theorem loopGe_mid {x y : List α} (hxy : y.length = x.length) {body : List SwStmt} {e : Exch} (h : exchBody body = some e)
    {k : Nat} (hw1 : 1 ≤ e.w) (hwk : e.w ≤ k) (hda : e.da = e.w) (hdb : e.db = e.w) (hds : e.ds = e.w) :
    ∀ (fuel c : Nat) (σ : SwSt α), Mid x y c σ → x.length - c < fuel →
      ∃ c', Mid x y c' (loopGe k body fuel σ) ∧ x.length - c' < k := by
  intro fuel
  induction fuel with
  | zero => intro c σ _ hf; omega
  | succ f ih =>
    intro c σ hm hf
    have hs := hm.hs
    simp only [loopGe, hm.hub, Bool.false_eq_true, if_false]
    by_cases hk : k ≤ σ.s
    · simp only [hk, if_true]
      exact ih (c + e.w) _ (body_mid hxy h hda hdb hds hm (by omega)) (by omega)
    · simp only [hk, if_false]
      exact ⟨c, hm, by omega⟩

theorem loopDec_final {x y : List α} (hxy : y.length = x.length) {body : List SwStmt}
    (h : exchBody body = some ⟨1, 1, 1, 0, false⟩) :
    ∀ (fuel c : Nat) (σ : SwSt α), Mid x y c σ → x.length - c < fuel →
      (loopDec body fuel σ).ub = false ∧ (loopDec body fuel σ).m0 = y ∧ (loopDec body fuel σ).m1 = x := by
  intro fuel
  induction fuel with
  | zero => intro c σ _ hf; omega
  | succ f ih =>
    intro c σ hm hf
    obtain ⟨m0, m1, a, b, s, i, t, ub⟩ := σ
    have hub := hm.hub; have hs := hm.hs; have hc := hm.hc; have hmix := hm.mix
    have ha := hm.ha; have hb := hm.hb; have hi := hm.hi
    simp only at hub hs hmix ha hb hi
    subst hub
    simp only [loopDec, Bool.false_eq_true, if_false]
    by_cases h0 : s = 0
    · simp only [h0, if_true]
      have hcn : c = x.length := by omega
      rw [hcn] at hmix
      have := mixed_full hxy hmix
      exact ⟨by trivial, this.1, this.2⟩
    · simp only [h0, if_false]
      have hw : c + 1 ≤ x.length := by omega
      obtain ⟨m, a', b', s', i', u'⟩ := body_step hxy h (⟨m0, m1, a, b, s - 1, i, t, false⟩ : SwSt α) hmix
        (by simp [SwSt.off, SwSt.cur, ha]) (by simp [SwSt.off, SwSt.cur, hb]) rfl hw (Nat.zero_le _)
      exact ih (c + 1) _ ⟨m, by rw [a']; simp only; omega, by rw [b']; simp only; omega, by rw [s']; simp only; omega, hw,
        by rw [i']; exact hi, u'⟩ (by omega)

theorem loopFor_final {x y : List α} (hxy : y.length = x.length) {body : List SwStmt}
    (h : exchBody body = some ⟨1, 0, 0, 0, true⟩) (c : Nat) :
    ∀ (fuel j : Nat) (σ : SwSt α), Mixed x y (c + j) σ.m0 σ.m1 → σ.a = c → σ.b = c → σ.s = x.length - c → σ.i = j →
      c + j ≤ x.length → σ.ub = false → x.length - c - j < fuel →
      (loopFor 1 body fuel σ).ub = false ∧ (loopFor 1 body fuel σ).m0 = y ∧ (loopFor 1 body fuel σ).m1 = x := by
  intro fuel
  induction fuel with
  | zero => intro j σ _ _ _ _ _ _ _ hf; omega
  | succ f ih =>
    intro j σ hm ha hb hs hi hc hub hf
    obtain ⟨m0, m1, a, b, s, i, t, ub⟩ := σ
    simp only at hm ha hb hs hi hub
    subst hub
    simp only [loopFor, Bool.false_eq_true, if_false, Nat.div_one]
    by_cases hlt : i < s
    · simp only [hlt, if_true]
      have hw : c + j + 1 ≤ x.length := by omega
      obtain ⟨m, a', b', s', i', u'⟩ := body_step hxy h (⟨m0, m1, a, b, s, i, t, false⟩ : SwSt α) hm
        (by simp [SwSt.off, SwSt.cur, ha, hi]) (by simp [SwSt.off, SwSt.cur, hb, hi]) rfl hw (Nat.zero_le _)
      exact ih (j + 1) _ m (by simp only; rw [a']; simp only; omega) (by simp only; rw [b']; simp only; omega)
        (by simp only; rw [s']; simp only; omega) (by simp only; rw [i']; simp only; omega) (by omega) u' (by omega)
    · simp only [hlt, if_false]
      have hcn : c + j = x.length := by omega
      rw [hcn] at hm
      have := mixed_full hxy hm
      exact ⟨by trivial, this.1, this.2⟩

/-! ## blocks and programs -/

theorem runBlock_mid {x y : List α} (hxy : y.length = x.length) {blk : SwBlock} (hok : blockOk blk = true) {c : Nat}
    {σ : SwSt α} (hm : Mid x y c σ) : ∃ c', Mid x y c' (runBlock σ blk) := by
  have hs := hm.hs
  cases blk with
  | forIdx _ _ => simp [blockOk] at hok
  | whileDec _ => simp [blockOk] at hok
  | whileGe k body =>
    simp only [blockOk] at hok
    split at hok
    · rename_i e he
      simp only [Bool.and_eq_true, beq_iff_eq, decide_eq_true_eq] at hok
      obtain ⟨⟨⟨⟨⟨_, hw1⟩, hwk⟩, hda⟩, hdb⟩, hds⟩ := hok
      obtain ⟨c', hm', _⟩ := loopGe_mid hxy he hw1 hwk hda hdb hds (σ.s + 1) c σ hm (by omega)
      exact ⟨c', hm'⟩
    · simp at hok
  | ifGe k body =>
    simp only [blockOk] at hok
    split at hok
    · rename_i e he
      simp only [Bool.and_eq_true, beq_iff_eq, decide_eq_true_eq] at hok
      obtain ⟨⟨⟨⟨⟨_, hw1⟩, hwk⟩, hda⟩, hdb⟩, hds⟩ := hok
      simp only [runBlock]
      by_cases hk : k ≤ σ.s
      · simp only [hk, if_true]
        exact ⟨c + e.w, body_mid hxy he hda hdb hds hm (by omega)⟩
      · simp only [hk, if_false]
        exact ⟨c, hm⟩
    · simp at hok

theorem runBlock_last {x y : List α} (hxy : y.length = x.length) {blk : SwBlock} (hok : lastOk blk = true) {c : Nat}
    {σ : SwSt α} (hm : Mid x y c σ) : (runBlock σ blk).ub = false ∧ (runBlock σ blk).m0 = y ∧ (runBlock σ blk).m1 = x := by
  have hs := hm.hs
  have hc := hm.hc
  cases blk with
  | ifGe _ _ => simp [lastOk] at hok
  | whileGe k body =>
    simp only [lastOk, Bool.and_eq_true, beq_iff_eq] at hok
    obtain ⟨rfl, he⟩ := hok
    obtain ⟨c', hm', hlt⟩ := loopGe_mid hxy he (Nat.le_refl 1) (Nat.le_refl 1) rfl rfl rfl (σ.s + 1) c σ hm (by omega)
    have hcn : c' = x.length := by have := hm'.hc; omega
    have := hm'.mix
    rw [hcn] at this
    exact ⟨hm'.hub, mixed_full hxy this⟩
  | whileDec body =>
    simp only [lastOk, beq_iff_eq] at hok
    exact loopDec_final hxy hok (σ.s + 1) c σ hm (by omega)
  | forIdx div body =>
    simp only [lastOk, Bool.and_eq_true, beq_iff_eq] at hok
    obtain ⟨rfl, he⟩ := hok
    simp only [runBlock, Nat.one_ne_zero, if_false]
    exact loopFor_final hxy he c (σ.s + 1) 0 { σ with i := 0 } hm.mix hm.ha hm.hb hm.hs rfl hm.hc hm.hub (by omega)

theorem runBlocks_ok {x y : List α} (hxy : y.length = x.length) : ∀ (prog : List SwBlock), swapOk prog = true →
    ∀ (c : Nat) (σ : SwSt α), Mid x y c σ →
      (runBlocks σ prog).ub = false ∧ (runBlocks σ prog).m0 = y ∧ (runBlocks σ prog).m1 = x := by
  intro prog
  induction prog with
  | nil => intro h; simp [swapOk] at h
  | cons blk rest ih =>
    intro hok c σ hm
    cases rest with
    | nil =>
      simp only [swapOk] at hok
      simp only [runBlocks, hm.hub, Bool.false_eq_true, if_false]
      exact runBlock_last hxy hok hm
    | cons b2 rest' =>
      simp only [swapOk, Bool.and_eq_true] at hok
      obtain ⟨c', hm'⟩ := runBlock_mid hxy hok.1 hm
      have := ih hok.2 c' _ hm'
      simpa only [runBlocks, hm.hub, Bool.false_eq_true, if_false] using this

/-- **every program of the shape `swapOk` exchanges two objects of any one size**, whatever the bytes are -/
theorem swapProg_exchanges (prog : List SwBlock) (hok : swapOk prog = true) (x y : List α) (hxy : x.length = y.length) :
    runSwapProg prog x y = some (y, x) := by
  have hm : Mid x y 0 (⟨x, y, 0, 0, x.length, 0, [], false⟩ : SwSt α) :=
    ⟨⟨by simp, by simp⟩, rfl, rfl, by simp, Nat.zero_le _, rfl, rfl⟩
  obtain ⟨u, r0, r1⟩ := runBlocks_ok hxy.symm prog hok 0 _ hm
  simp only [runSwapProg, u, Bool.false_eq_true, if_false, r0, r1]

/-! ## swap of two values -/

theorem tagBytes_length (side : Bool) (n : Nat) : (tagBytes side n).length = n := by simp [tagBytes]

/-- the two values are of one type (`sameStruct`: what `swap` tests before it calls `memswap`; anything else raises TypeError) —
    two scalars of one scalar type, two Arrays, two Lists, two Tuples, two Tables, two Trees — other than Type objects (static
    tables of instances, not swapped in this engine); two plain structs hold equally many bytes -/
def SwapCompatible (x y : Val) : Prop :=
  sameStruct x y = true ∧
  match x, y with
  | .sc (.raw _ bx), .sc (.raw _ by') => bx.length = by'.length
  | .sc (.typ _), _ => False
  | _, _ => True

/-- when `memswap` exchanges equally long byte strings, `swap` exchanges values -/
theorem swapVals_exchanges
    (hsrc : ∀ {β : Type} (x y : List β), x.length = y.length → memswapSrc x y = some (y, x))
    (x y : Val) (hc : SwapCompatible x y) : swapVals x y = some (y, x) := by
  have htag : ∀ n, memswapSrc (tagBytes false n) (tagBytes true n) = some (tagBytes true n, tagBytes false n) :=
    fun n => hsrc _ _ (by rw [tagBytes_length, tagBytes_length])
  unfold swapVals
  split
  · rename_i k bx k' by'
    obtain ⟨hs, hl⟩ := hc
    have hk : k = k' := by simpa [sameStruct, Scalar.ty] using hs
    subst hk
    rw [hsrc bx by' hl]; rfl
  · dsimp only; rw [htag]; simp

/-- … and `swap`, with its type test in front, is carried out and exchanges them -/
theorem swapChecked_exchanges
    (hsrc : ∀ {β : Type} (x y : List β), x.length = y.length → memswapSrc x y = some (y, x))
    (x y : Val) (hc : SwapCompatible x y) : swapChecked x y = .ok (y, x) := by
  unfold swapChecked
  rw [hc.1, swapVals_exchanges hsrc x y hc]; rfl

/-- two values of one type both hold a buffer pointer (String, Tuple) or neither does -/
theorem sameStruct_hasBuffer (x y : Val) (h : sameStruct x y = true) : x.hasBuffer = y.hasBuffer := by
  cases x with
  | sc s =>
    cases y with
    | sc t =>
      have ht : s.ty = t.ty := by simpa [sameStruct] using h
      cases s <;> cases t <;> first | rfl | (simp [Scalar.ty] at ht) | (rename_i b1 _ b2 _; cases b1 <;> cases b2 <;> simp [Scalar.ty] at ht) | skip
      all_goals first | rfl | (rename_i b _; cases b <;> simp [Scalar.ty] at ht) | (rename_i b _ _; cases b <;> simp [Scalar.ty] at ht)
    | _ => simp [sameStruct] at h
  | seq _ _ _ => cases y <;> first | rfl | simp [sameStruct] at h
  | tuple _ => cases y <;> first | rfl | simp [sameStruct] at h
  | table _ _ _ => cases y <;> first | rfl | simp [sameStruct] at h
  | tree _ _ _ => cases y <;> first | rfl | simp [sameStruct] at h

/-- operands of two different types: `swap` raises TypeError and exchanges nothing -/
theorem swapChecked_typeError (x y : Val) (h : sameStruct x y = false) : swapChecked x y = .error .typeError := by
  unfold swapChecked; simp [h]

/-! ## the quicksort of src/Array.c over an element swap that exchanges -/

/-- the element swap exchanges any two elements of `a` -/
def ExchOn (swp : α → α → Option (α × α)) (a : Array α) : Prop := ∀ x y, x ∈ a → y ∈ a → swp x y = some (y, x)

theorem ExchOn.of_perm {swp : α → α → Option (α × α)} {a a' : Array α} (h : ExchOn swp a) (p : a'.Perm a) : ExchOn swp a' :=
  fun x y hx hy => h x y (p.mem_iff.mp hx) (p.mem_iff.mp hy)

theorem swapAt_ok {swp : α → α → Option (α × α)} {arr : Array α} {i j : Nat} (hi : i < arr.size) (hj : j < arr.size)
    (hsw : ExchOn swp arr) : ∃ arr', swapAt swp arr i j = some arr' ∧ arr'.Perm arr := by
  unfold swapAt
  by_cases hij : i = j
  · exact ⟨arr, by simp [hij], Array.Perm.refl _⟩
  · simp only [hij, if_false, Array.getElem?_eq_getElem hi, Array.getElem?_eq_getElem hj,
      hsw arr[i] arr[j] (Array.getElem_mem hi) (Array.getElem_mem hj), Option.map_some]
    refine ⟨_, rfl, ?_⟩
    have : (arr.setIfInBounds i arr[j]).setIfInBounds j arr[i] = arr.swap i j hi hj := by
      simp [Array.swap_def, Array.setIfInBounds, hi, hj]
    rw [this]
    exact Array.swap_perm hi hj

theorem partLoopW_ok {swp : α → α → Option (α × α)} {f : α → α → Bool} {r : Nat} :
    ∀ (n i : Nat) (a : Array α) (s : Nat), s ≤ i → i + n = r → r < a.size → ExchOn swp a →
      ∃ a' s', partLoopW swp f r n i a s = some (a', s') ∧ a'.Perm a ∧ s ≤ s' ∧ s' ≤ s + n := by
  intro n
  induction n with
  | zero => intro i a s _ _ _ _; exact ⟨a, s, rfl, Array.Perm.refl _, Nat.le_refl _, Nat.le_refl _⟩
  | succ n ih =>
    intro i a s hsi hin hr hsw
    have hi : i < a.size := by omega
    simp only [partLoopW, Array.getElem?_eq_getElem hi, Array.getElem?_eq_getElem hr]
    by_cases hf : f a[i] a[r] = true
    · simp only [hf, if_true]
      obtain ⟨a1, e1, p1⟩ := swapAt_ok (swp := swp) hi (by omega : s < a.size) hsw
      rw [e1]
      simp only [Option.bind_some]
      obtain ⟨a', s', e', p', h1, h2⟩ := ih (i + 1) a1 (s + 1) (by omega) (by omega) (by rw [p1.size_eq]; exact hr) (hsw.of_perm p1)
      exact ⟨a', s', e', p'.trans p1, by omega, by omega⟩
    · simp only [hf, Bool.false_eq_true, if_false]
      obtain ⟨a', s', e', p', h1, h2⟩ := ih (i + 1) a s (by omega) (by omega) hr hsw
      exact ⟨a', s', e', p', h1, by omega⟩

theorem partitionW_ok {swp : α → α → Option (α × α)} {f : α → α → Bool} {a : Array α} {l r : Nat} (hlr : l ≤ r)
    (hr : r < a.size) (hsw : ExchOn swp a) :
    ∃ a' s, partitionW swp f a l r = some (a', s) ∧ a'.Perm a ∧ l ≤ s ∧ s ≤ r := by
  unfold partitionW
  obtain ⟨a1, e1, p1⟩ := swapAt_ok (swp := swp) (i := l + (r - l) / 2) (by omega) hr hsw
  rw [e1]
  simp only [Option.bind_some]
  have hr1 : r < a1.size := by rw [p1.size_eq]; exact hr
  obtain ⟨a2, s, e2, p2, h1, h2⟩ := partLoopW_ok (f := f) (r - l) l a1 l (Nat.le_refl _) (by omega) hr1 (hsw.of_perm p1)
  rw [e2]
  simp only [Option.bind_some]
  have hr2 : r < a2.size := by rw [p2.size_eq]; exact hr1
  obtain ⟨a3, e3, p3⟩ := swapAt_ok (swp := swp) (i := s) (j := r) (by omega) hr2 ((hsw.of_perm p1).of_perm p2)
  rw [e3]
  exact ⟨a3, s, rfl, p3.trans (p2.trans p1), h1, by omega⟩

theorem sortPartW_ok {swp : α → α → Option (α × α)} {f : α → α → Bool} :
    ∀ (fuel : Nat) (a : Array α) (l r : Nat), (l < r → r < a.size) → r - l < fuel → ExchOn swp a →
      ∃ a', sortPartW swp f fuel a l r = some a' ∧ a'.Perm a := by
  intro fuel
  induction fuel with
  | zero => intro a l r _ hf _; omega
  | succ fuel ih =>
    intro a l r hr hf hsw
    simp only [sortPartW]
    by_cases hlr : l < r
    · simp only [hlr, if_true]
      obtain ⟨a1, s, e1, p1, h1, h2⟩ := partitionW_ok (f := f) (Nat.le_of_lt hlr) (hr hlr) hsw
      rw [e1]
      simp only [Option.bind_some]
      have hs1 : r < a1.size := by rw [p1.size_eq]; exact hr hlr
      obtain ⟨a2, e2, p2⟩ := ih a1 l (s - 1) (fun _ => by omega) (by omega) (hsw.of_perm p1)
      rw [e2]
      simp only [Option.bind_some]
      obtain ⟨a3, e3, p3⟩ := ih a2 (s + 1) r (fun _ => by rw [p2.size_eq]; exact hs1) (by omega) ((hsw.of_perm p1).of_perm p2)
      exact ⟨a3, e3, p3.trans (p2.trans p1)⟩
    · simp only [hlr, if_false]
      exact ⟨a, rfl, Array.Perm.refl _⟩

/-- **`sort` with an element swap that exchanges ends — no access outside the Array — in a permutation of the items** -/
theorem sortW_perm {swp : α → α → Option (α × α)} (f : α → α → Bool) (items : List α)
    (hsw : ∀ x y, x ∈ items → y ∈ items → swp x y = some (y, x)) :
    ∃ out, sortW swp f items = some out ∧ out.Perm items := by
  unfold sortW
  obtain ⟨a', e, p⟩ := sortPartW_ok (swp := swp) (f := f) (items.length + 1) items.toArray 0 (items.length - 1)
    (fun h => by simp only [List.size_toArray]; omega) (by omega)
    (fun x y hx hy => hsw x y (by simpa using hx) (by simpa using hy))
  rw [e]
  exact ⟨a'.toList, rfl, by simpa [Array.perm_iff_toList_perm] using p⟩

end Cello.Hash
