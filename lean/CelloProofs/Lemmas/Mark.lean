/-
  Lemmas about the worklist marker `Cello.Heap.dfs` (model of GC_Mark_Item / GC_Recurse):
  closure invariant, completeness and soundness with respect to reachability, concatenation of root lists.
  Everything is generic in the implementation `S : MarkSet σ` of the mark bits.
-/
import Cello.Heap

namespace Cello.Heap

variable {σ : Type} (S : MarkSet σ) (c : Cfg) (h : Heap)

/-- well-formed registry: every registered pointer is 8-aligned and within the bounds `GC_Set` maintains -/
structure Heap.WF (h : Heap) : Prop where
  aligned : ∀ a e, h.lookup a = some e → a % 8 = 0
  inRange : ∀ a e, h.lookup a = some e → h.minptr ≤ a ∧ a ≤ h.maxptr

theorem accepts_registered {h : Heap} {w : Word} (hw : h.accepts w = true) : (h.lookup w).isSome = true := by
  simp only [Heap.accepts, Bool.and_eq_true] at hw
  exact hw.2

theorem accepts_of_registered {h : Heap} (wf : h.WF) {w : Word} (hw : (h.lookup w).isSome = true) :
    h.accepts w = true := by
  cases hl : h.lookup w with
  | none => simp [hl] at hw
  | some e =>
    have h1 := wf.aligned w e hl
    have h2 := wf.inRange w e hl
    simp [Heap.accepts, hl, h1, h2.1, h2.2]

theorem accepts_iff {h : Heap} (wf : h.WF) (w : Word) : h.accepts w = true ↔ (h.lookup w).isSome = true :=
  ⟨accepts_registered, accepts_of_registered wf⟩

theorem fieldsAt_lookup {c : Cfg} {h : Heap} {a : Addr} {e : Entry} (hl : h.lookup a = some e) :
    h.fieldsAt c a = fields c e.obj := by simp [Heap.fieldsAt, hl]

/-- reachability as the marker sees it: from a root word that `GC_Mark_Item` accepts, through accepted words of
    traced objects -/
inductive Reach (c : Cfg) (h : Heap) (roots : List Word) : Addr → Prop
  | root {a} : a ∈ roots → h.accepts a = true → Reach c h roots a
  | step {a b} : Reach c h roots a → b ∈ h.fieldsAt c a → h.accepts b = true → Reach c h roots b

/-- invariant of the worklist: an accepted word of a marked object is marked or still on the stack -/
def Closed (stack : List Word) (m : σ) : Prop :=
  ∀ a, S.mem a m = true → ∀ b ∈ h.fieldsAt c a, h.accepts b = true → S.mem b m = true ∨ b ∈ stack

theorem dfs_nil (m : σ) : dfs S c h [] m = m := by
  rw [dfs]

theorem dfs_cons_pos (w : Word) (st : List Word) (m : σ) (hw : h.accepts w = true ∧ S.mem w m = false) :
    dfs S c h (w :: st) m = dfs S c h (h.fieldsAt c w ++ st) (S.insert w m) := by
  rw [dfs]; simp only [hw, and_self, dite_true]

theorem dfs_cons_neg (w : Word) (st : List Word) (m : σ) (hw : ¬ (h.accepts w = true ∧ S.mem w m = false)) :
    dfs S c h (w :: st) m = dfs S c h st m := by
  rw [dfs]; simp only [hw, dite_false]

theorem dfs_spec : ∀ (stack : List Word) (m : σ), Closed S c h stack m →
    (∀ a, S.mem a m = true → S.mem a (dfs S c h stack m) = true) ∧
    (∀ w ∈ stack, h.accepts w = true → S.mem w (dfs S c h stack m) = true) ∧
    Closed S c h [] (dfs S c h stack m) := by
  intro stack m
  induction stack, m using dfs.induct S c h with
  | case1 m => intro hc; rw [dfs_nil]; exact ⟨fun _ h => h, by simp, hc⟩
  | case2 m w st hw ih =>
    intro hc
    rw [dfs_cons_pos S c h w st m hw]
    have hc' : Closed S c h (h.fieldsAt c w ++ st) (S.insert w m) := by
      intro a ha b hb hbr
      rw [S.mem_insert] at ha
      rcases Bool.or_eq_true _ _ |>.mp ha with ha | ha
      · have : a = w := by simpa using ha
        subst this
        right; exact List.mem_append_left _ hb
      · rcases hc a ha b hb hbr with h1 | h1
        · left; rw [S.mem_insert]; simp [h1]
        · cases h1 with
          | head => left; rw [S.mem_insert]; simp
          | tail _ h1 => right; exact List.mem_append_right _ h1
    obtain ⟨h1, h2, h3⟩ := ih hc'
    refine ⟨fun a ha => h1 a (by rw [S.mem_insert]; simp [ha]), ?_, h3⟩
    intro x hx hxr
    cases hx with
    | head => exact h1 _ (by rw [S.mem_insert]; simp)
    | tail _ hx => exact h2 x (List.mem_append_right _ hx) hxr
  | case3 m w st hw ih =>
    intro hc
    rw [dfs_cons_neg S c h w st m hw]
    have hskip : ∀ b, b = w → h.accepts b = true → S.mem b m = true := by
      intro b hb hbr
      subst hb
      cases hm : S.mem b m with
      | true => rfl
      | false => exact absurd ⟨hbr, hm⟩ hw
    have hc' : Closed S c h st m := by
      intro a ha b hb hbr
      rcases hc a ha b hb hbr with h1 | h1
      · left; exact h1
      · rcases List.mem_cons.mp h1 with heq | h1
        · left; exact hskip b heq hbr
        · right; exact h1
    obtain ⟨h1, h2, h3⟩ := ih hc'
    refine ⟨h1, ?_, h3⟩
    intro x hx hxr
    rcases List.mem_cons.mp hx with heq | hx
    · exact h1 x (hskip x heq hxr)
    · exact h2 x hx hxr

theorem closed_empty (stack : List Word) : Closed S c h stack S.empty := by
  intro a ha; rw [S.mem_empty] at ha; cases ha

/-- completeness: whatever is reachable from the root words is marked -/
theorem dfs_complete (roots : List Word) (a : Addr) (hr : Reach c h roots a) :
    S.mem a (dfs S c h roots S.empty) = true := by
  obtain ⟨_, h2, h3⟩ := dfs_spec S c h roots S.empty (closed_empty S c h roots)
  induction hr with
  | root hroot hacc => exact h2 _ hroot hacc
  | step _ hb hbr ih =>
    rcases h3 _ ih _ hb hbr with h | h
    · exact h
    · cases h

theorem reach_mono {r1 r2 : List Word} (hsub : ∀ w ∈ r1, w ∈ r2) {a : Addr} (hr : Reach c h r1 a) : Reach c h r2 a := by
  induction hr with
  | root hroot hacc => exact .root (hsub _ hroot) hacc
  | step _ hb hbr ih => exact .step ih hb hbr

/-- roots that are accepted words of an accepted root can be replaced by that root -/
theorem reach_push (w : Word) (st : List Word) (hw : h.accepts w = true) {a : Addr}
    (hr : Reach c h (h.fieldsAt c w ++ st) a) : Reach c h (w :: st) a := by
  induction hr with
  | root hroot hacc =>
    rcases List.mem_append.mp hroot with hf | hs
    · exact .step (.root List.mem_cons_self hw) hf hacc
    · exact .root (List.mem_cons_of_mem _ hs) hacc
  | step _ hb hbr ih => exact .step ih hb hbr

/-- soundness: a mark bit set by the marker belongs to an object reachable from the words it was given -/
theorem dfs_sound : ∀ (stack : List Word) (m : σ) (a : Addr),
    S.mem a (dfs S c h stack m) = true → S.mem a m = true ∨ Reach c h stack a := by
  intro stack m
  induction stack, m using dfs.induct S c h with
  | case1 m => intro a ha; rw [dfs_nil] at ha; exact .inl ha
  | case2 m w st hw ih =>
    intro a ha
    rw [dfs_cons_pos S c h w st m hw] at ha
    rcases ih a ha with h1 | h1
    · rw [S.mem_insert] at h1
      rcases Bool.or_eq_true _ _ |>.mp h1 with h1 | h1
      · have : a = w := by simpa using h1
        subst this
        exact .inr (.root List.mem_cons_self hw.1)
      · exact .inl h1
    · exact .inr (reach_push c h w st hw.1 h1)
  | case3 m w st hw ih =>
    intro a ha
    rw [dfs_cons_neg S c h w st m hw] at ha
    rcases ih a ha with h1 | h1
    · exact .inl h1
    · exact .inr (reach_mono c h (fun x hx => List.mem_cons_of_mem _ hx) h1)

/-- the mark bits the marker sets are exactly the objects reachable from the root words -/
theorem dfs_iff_reach (roots : List Word) (a : Addr) :
    S.mem a (dfs S c h roots S.empty) = true ↔ Reach c h roots a := by
  constructor
  · intro ha
    rcases dfs_sound S c h roots S.empty a ha with h1 | h1
    · rw [S.mem_empty] at h1; cases h1
    · exact h1
  · exact dfs_complete S c h roots a

/-- marking from `r1 ++ r2` is marking from `r1` and then, with the bits kept, from `r2` (the phases of `GC_Mark`) -/
theorem dfs_append : ∀ (r1 : List Word) (m : σ) (r2 : List Word),
    dfs S c h (r1 ++ r2) m = dfs S c h r2 (dfs S c h r1 m) := by
  intro r1 m
  induction r1, m using dfs.induct S c h with
  | case1 m => intro r2; rw [dfs_nil]; rfl
  | case2 m w st hw ih =>
    intro r2
    rw [List.cons_append, dfs_cons_pos S c h w (st ++ r2) m hw, dfs_cons_pos S c h w st m hw,
      ← List.append_assoc]
    exact ih r2
  | case3 m w st hw ih =>
    intro r2
    rw [List.cons_append, dfs_cons_neg S c h w (st ++ r2) m hw, dfs_cons_neg S c h w st m hw]
    exact ih r2

/-- marked objects are registered -/
theorem reach_registered {roots : List Word} {a : Addr} (hr : Reach c h roots a) : (h.lookup a).isSome = true := by
  cases hr with
  | root _ hacc => exact accepts_registered hacc
  | step _ _ hacc => exact accepts_registered hacc

theorem reachable_iff_reach {c : Cfg} {h : Heap} (wf : h.WF) (roots : List Word) (a : Addr) :
    Reachable c h roots a ↔ Reach c h roots a := by
  constructor
  · intro hr
    induction hr with
    | root hroot hreg => exact .root hroot (accepts_of_registered wf hreg)
    | step _ hp hreg ih =>
      obtain ⟨e, hl, hb⟩ := hp
      exact .step ih (by rw [fieldsAt_lookup hl]; exact hb) (accepts_of_registered wf hreg)
  · intro hr
    induction hr with
    | root hroot hacc => exact .root hroot (accepts_registered hacc)
    | @step a b hra hb hacc ih =>
      have hreg := reach_registered c h hra
      cases hl : h.lookup a with
      | none => simp [hl] at hreg
      | some e => exact .step ih ⟨e, hl, by rw [fieldsAt_lookup hl] at hb; exact hb⟩ (accepts_registered hacc)

/-- all root words of `GC_Mark`, in phase order -/
def rootWords (c : Cfg) (h : Heap) (thread : Obj) (stack : List Word) : List Word :=
  tlsWords c thread ++ (rootAddrs h ++ stack)

theorem gcMark_eq (thread : Obj) (stack : List Word) :
    gcMark S c h thread stack = dfs S c h (rootWords c h thread stack) S.empty := by
  simp only [gcMark, rootWords, dfs_append]

theorem gcMark_iff_reach (thread : Obj) (stack : List Word) (a : Addr) :
    S.mem a (gcMark S c h thread stack) = true ↔ Reach c h (rootWords c h thread stack) a := by
  rw [gcMark_eq]; exact dfs_iff_reach S c h _ a

theorem mem_rootAddrs {h : Heap} {a : Addr} {e : Entry} (hl : h.lookup a = some e) (hr : e.root = true) : a ∈ rootAddrs h := by
  unfold rootAddrs
  exact List.mem_filter.mpr ⟨h.complete a e hl, by simp [hl, hr]⟩

/-- sweep: what is removed and what stays -/
theorem sweep_lookup (m : σ) (a : Addr) :
    (sweep S h m).1.lookup a = if sweeps S h m a then none else h.lookup a := rfl

theorem mem_pending (m : σ) (a : Addr) :
    a ∈ (sweep S h m).2 ↔ a ∈ h.regs ∧ sweeps S h m a = true := by
  simp [sweep, List.mem_filter]

theorem sweeps_iff (m : σ) (a : Addr) :
    sweeps S h m a = true ↔ ∃ e, h.lookup a = some e ∧ e.root = false ∧ S.mem a m = false := by
  unfold sweeps
  cases hl : h.lookup a with
  | none => simp
  | some e => simp

theorem sweep_wf (wf : h.WF) (m : σ) : (sweep S h m).1.WF := by
  constructor
  · intro a e he
    rw [sweep_lookup] at he
    split at he
    · cases he
    · exact wf.aligned a e he
  · intro a e he
    rw [sweep_lookup] at he
    split at he
    · cases he
    · exact wf.inRange a e he


/-! ### histories keep the registry well formed; every collection event is a `collect` of a well-formed heap -/

theorem register_wf {h : Heap} (wf : h.WF) (a : Addr) (e : Entry) (ha : a % 8 = 0) : (h.register a e).WF := by
  unfold Heap.register
  split
  · exact wf
  · constructor
    · intro x e' he
      simp only at he
      by_cases hx : x = a
      · subst hx; exact ha
      · simp only [hx, if_false] at he; exact wf.aligned x e' he
    · intro x e' he
      simp only at he ⊢
      by_cases hx : x = a
      · subst hx; exact ⟨Nat.min_le_right _ _, Nat.le_max_right _ _⟩
      · simp only [hx, if_false] at he
        have := wf.inRange x e' he
        exact ⟨Nat.le_trans (Nat.min_le_left _ _) this.1, Nat.le_trans this.2 (Nat.le_max_left _ _)⟩

theorem write_wf {h : Heap} (wf : h.WF) (a : Addr) (o : Obj) : (h.write a o).WF := by
  constructor
  · intro x e' he
    simp only [Heap.write] at he
    by_cases hx : x = a
    · subst hx
      simp only [if_true] at he
      cases hl : h.lookup x with
      | none => simp [hl] at he
      | some e0 => exact wf.aligned x e0 hl
    · simp only [hx, if_false] at he; exact wf.aligned x e' he
  · intro x e' he
    simp only [Heap.write] at he ⊢
    by_cases hx : x = a
    · subst hx
      simp only [if_true] at he
      cases hl : h.lookup x with
      | none => simp [hl] at he
      | some e0 => exact wf.inRange x e0 hl
    · simp only [hx, if_false] at he; exact wf.inRange x e' he

theorem remove_wf {h : Heap} (wf : h.WF) (a : Addr) : (h.remove a).WF := by
  constructor
  · intro x e' he
    simp only [Heap.remove] at he
    by_cases hx : x = a
    · simp [hx] at he
    · simp only [hx, if_false] at he; exact wf.aligned x e' he
  · intro x e' he
    simp only [Heap.remove] at he ⊢
    by_cases hx : x = a
    · simp [hx] at he
    · simp only [hx, if_false] at he; exact wf.inRange x e' he

theorem step_wf {σ : Type} (S : MarkSet σ) (c : Cfg) (s : HState) (op : HOp) (wf : s.heap.WF) (hok : op.ok) :
    (s.step S c op).1.heap.WF := by
  cases op with
  | alloc a e => exact register_wf wf a e hok
  | write a o => exact write_wf wf a o
  | del a => exact remove_wf wf a
  | assign a b =>
    simp only [HState.step]
    split
    · exact write_wf wf a _
    · exact wf
  | copyTo a b =>
    simp only [HState.step]
    split
    · exact register_wf wf a _ hok
    · exact wf
  | clear a =>
    simp only [HState.step]
    split
    · exact write_wf wf a _
    · exact wf
  | setThread t => exact wf
  | setStack ws => exact wf
  | collect => exact sweep_wf S s.heap wf _

theorem step_event {σ : Type} (S : MarkSet σ) (c : Cfg) (s : HState) (op : HOp) (ev : Event)
    (he : (s.step S c op).2 = some ev) :
    ev.before = s ∧ ev.pending = (collect S c s.heap s.thread s.stack).2 := by
  cases op <;> simp only [HState.step] at he <;> (try split at he) <;> cases he
  exact ⟨rfl, rfl⟩

theorem run_events {σ : Type} (S : MarkSet σ) (c : Cfg) : ∀ (ops : List HOp) (s : HState), s.heap.WF →
    (∀ op ∈ ops, op.ok) →
    (HState.run S c ops s).1.heap.WF ∧
    ∀ ev ∈ (HState.run S c ops s).2, ev.before.heap.WF ∧
      ev.pending = (collect S c ev.before.heap ev.before.thread ev.before.stack).2 := by
  intro ops
  induction ops with
  | nil => intro s wf _; exact ⟨wf, fun ev hev => by simp [HState.run] at hev⟩
  | cons op ops ih =>
    intro s wf hok
    have wf1 := step_wf S c s op wf (hok op List.mem_cons_self)
    obtain ⟨h1, h2⟩ := ih (s.step S c op).1 wf1 (fun o ho => hok o (List.mem_cons_of_mem _ ho))
    simp only [HState.run]
    refine ⟨h1, ?_⟩
    intro ev hev
    cases hs : (s.step S c op).2 with
    | none => rw [hs] at hev; exact h2 ev hev
    | some e0 =>
      rw [hs] at hev
      rcases List.mem_cons.mp hev with heq | hmem
      · subst heq
        obtain ⟨hb, hp⟩ := step_event S c s op ev hs
        rw [hb]; exact ⟨wf, by rw [hp]⟩
      · exact h2 ev hmem

end Cello.Heap
