/- helper lemmas for C11: Table and Tree after a history of set / rem / resize.
   Table: the representation invariant `Rep` of the C02 engine (CelloProofs/Lemmas/Table*.lean, imported read-only) is kept
   by every mutation; in it `nitems` = number of occupied slots, so the slot scan is lawful.
   Tree: iteration is lawful over EVERY shape whose `nitems` field equals its number of nodes; the field of `MTree` does. -/
import Cello.IterMut
import CelloProofs.Lemmas.IterContainers
import CelloProofs.Lemmas.IterTree
import CelloProofs.Lemmas.TableOps
import CelloProofs.Lemmas.TableErase
import CelloProofs.Lemmas.TableIter
import CelloProofs.Lemmas.TableIdeal

namespace Cello.Iter

/-! ### Table -/

/-- the slot scan with a separate `nitems` field is the scan of `tableI` when the field counts the occupied slots -/
theorem tableNI_lawfulAs {α : Type} (slots : List (Option α)) (n : Nat) (h : (occupied slots).length = n) :
    LawfulAs (tableNI slots n) (occupied slots) := by
  subst h
  exact table_lawfulAs slots

open Cello.Table in
/-- the parameters of src/Table.c as they are now satisfy what the refinement needs (strict displacement test, growth
    of an empty table, `Table_Ideal_Size n > n`): stops type-checking when the source changes any of them -/
theorem tabCfg_good : GoodCfg tabCfg := by
  -- field by field, so that a further source-derived flag of the C02 engine (each holds by `rfl` for the current source)
  -- does not need a change here
  constructor <;> first
    | rfl
    | exact fun n => idealSize_gt _ _ _ (by decide) (by decide) (by decide) n

/-- abstract effect of one mutation on the finite map (association list with unique keys) -/
def keyedSpec (m : Cello.Table.Spec Int Int) : KOp → Cello.Table.Spec Int Int × MOut
  | .set k => (Cello.Table.Spec.set m k (10 * k), .ok)
  | .rem k => match Cello.Table.Spec.get m k with
    | none => (m, .key)
    | some _ => (Cello.Table.Spec.rem m k, .ok)
  | .resize n => if n = 0 then ([], .ok) else if n < m.length then (m, .format) else (m, .ok)

open Cello.Table in
theorem tabStep_rep (t : MTab) (m : Spec Int Int) (r : Rep intHash t m) (op : KOp) :
    ∃ t', tabStep t op = some (t', (keyedSpec m op).2) ∧ Rep intHash t' (keyedSpec m op).1 := by
  cases op with
  | set k =>
    obtain ⟨t', e, r'⟩ := set_rep tabCfg tabCfg_good intHash t m r k (10 * k)
    exact ⟨t', by simp only [tabStep, e, keyedSpec], r'⟩
  | rem k =>
    obtain ⟨t', e, r'⟩ := rem_rep tabCfg tabCfg_good intHash t m r k
    simp only [tabStep, keyedSpec, e]
    cases hg : Spec.get m k with
    | none => simp only [hg] at r' ⊢; exact ⟨t', rfl, r'⟩
    | some v => simp only [hg] at r' ⊢; exact ⟨t', rfl, r'⟩
  | resize n =>
    obtain ⟨t', e, r'⟩ := resize_rep tabCfg tabCfg_good intHash t m r n
    simp only [tabStep, keyedSpec, e]
    by_cases h0 : n = 0
    · simp only [h0, if_true] at r' ⊢; exact ⟨t', rfl, r'⟩
    · simp only [h0, if_false] at r' ⊢
      by_cases hlt : n < m.length
      · simp only [hlt, if_true]; exact ⟨t', rfl, r'⟩
      · simp only [hlt, if_false]; exact ⟨t', rfl, r'⟩

def keyedRun : Cello.Table.Spec Int Int → List KOp → Cello.Table.Spec Int Int × List MOut
  | m, [] => (m, [])
  | m, op :: ops =>
    let (m1, o) := keyedSpec m op
    let (m2, os) := keyedRun m1 ops
    (m2, o :: os)

open Cello.Table in
/-- **every history** of set / rem / resize keeps the representation invariant and never fails in the model -/
theorem tabRun_rep : ∀ (ops : List KOp) (t : MTab) (m : Spec Int Int), Rep intHash t m →
    ∃ t', tabRun t ops = (t', (keyedRun m ops).2) ∧ Rep intHash t' (keyedRun m ops).1 := by
  intro ops
  induction ops with
  | nil => intro t m r; exact ⟨t, rfl, r⟩
  | cons op ops ih =>
    intro t m r
    obtain ⟨t1, e1, r1⟩ := tabStep_rep t m r op
    obtain ⟨t2, e2, r2⟩ := ih t1 _ r1
    exact ⟨t2, by simp only [tabRun, e1, e2, keyedRun], by simpa only [keyedRun] using r2⟩

theorem keyedSpec_ne_undef (m : Cello.Table.Spec Int Int) (op : KOp) : (keyedSpec m op).2 ≠ .undef := by
  cases op <;> simp only [keyedSpec] <;> (repeat' split) <;> simp

theorem keyedRun_no_undef : ∀ (ops : List KOp) (m : Cello.Table.Spec Int Int),
    (keyedRun m ops).2.contains .undef = false := by
  intro ops
  induction ops with
  | nil => intro m; rfl
  | cons op ops ih =>
    intro m
    have h1 := keyedSpec_ne_undef m op
    have h2 := ih (keyedSpec m op).1
    simp only [keyedRun, List.contains_cons, Bool.or_eq_false_iff]
    exact ⟨by simpa using fun e => h1 e.symm, h2⟩

theorem filterMap_map_length {α β : Type} (f : α → β) : ∀ (l : List (Option α)),
    ((l.map (fun o => o.map f)).filterMap id).length = l.countP Option.isSome := by
  intro l
  induction l with
  | nil => rfl
  | cons x r ih => cases x <;> simp_all

open Cello.Table in
/-- in the representation invariant the slot scan of a Table is lawful over the keys in slot order, `len` is the number
    of bindings of the map, and the keys yielded are exactly the keys of the map, each once -/
theorem tabI_lawful (t : MTab) (m : Spec Int Int) (r : Rep intHash t m) :
    LawfulAs (tabI t) (occupied (tabSlots t)) ∧ (occupied (tabSlots t)).length = m.length ∧
    (occupied (tabSlots t)).Perm (m.map Prod.fst) := by
  have hlen : (occupied (tabSlots t)).length = t.nitems := by
    rw [← r.cnt]
    simp only [occupied, tabSlots, filterMap_map_length, count]
    rw [← Vector.countP_toList]
  refine ⟨tableNI_lawfulAs _ _ hlen, by rw [hlen, r.len], ?_⟩
  have h1 : occupied (tabSlots t) = (entriesList t.slots).map Prod.fst := by
    simp only [occupied, tabSlots, entriesList, List.filterMap_map, List.map_filterMap]
    congr 1
    funext o
    cases o <;> rfl
  rw [h1]
  have := foreach_perm intHash t m r.toRep0
  rw [foreach_eq intHash t r.toWF] at this
  exact this.map _

/-! ### Tree -/

/-- iteration with a separate `nitems` field is lawful over EVERY shape whose field equals its number of nodes -/
theorem treeNI_lawfulAs {α : Type} (t : T α) (n : Nat) (h : n = t.size) : LawfulAs (treeNI t n) t.inorder := by
  have L := tree_lawfulAs t
  subst h
  refine ⟨?_, ?_, ?_, ?_⟩
  · intro s
    have := L.fwd s
    cases t with
    | nil => exact this
    | node l k r =>
      have hn : (T.node l k r).size ≠ 0 := by simp [T.size]
      simpa [treeNI, treeI, hn] using this
  · intro s
    have := L.bwd s
    cases t with
    | nil => exact this
    | node l k r =>
      have hn : (T.node l k r).size ≠ 0 := by simp [T.size]
      simpa [treeNI, treeI, hn] using this
  · intro n hn
    simp only [treeNI, Option.some.injEq] at hn
    rw [← hn, T.size_eq_length]
  · intro g hg; simp [treeNI] at hg

theorem T.size_removeFirst : ∀ (t : T Int) (m : Int) (t' : T Int), t.removeFirst = some (m, t') → t'.size + 1 = t.size := by
  intro t
  induction t with
  | nil => intro m t' h; simp [T.removeFirst] at h
  | node l k r ihl _ =>
    intro m t' h
    simp only [T.removeFirst] at h
    cases hl : l.removeFirst with
    | none =>
      simp only [hl, Option.some.injEq, Prod.mk.injEq] at h
      obtain ⟨_, rfl⟩ := h
      cases l with
      | nil => simp only [T.size]; omega
      | node ll lk lr =>
        simp only [T.removeFirst] at hl
        cases h2 : ll.removeFirst <;> simp [h2] at hl
    | some p =>
      obtain ⟨m', l'⟩ := p
      simp only [hl, Option.some.injEq, Prod.mk.injEq] at h
      obtain ⟨_, rfl⟩ := h
      have := ihl m' l' hl
      simp only [T.size]; omega

theorem T.removeFirst_none : ∀ (t : T Int), t.removeFirst = none → t = .nil := by
  intro t h
  cases t with
  | nil => rfl
  | node l k r =>
    simp only [T.removeFirst] at h
    cases h2 : l.removeFirst <;> simp [h2] at h

theorem T.size_insert (x : Int) : ∀ (t : T Int), (t.insert x).size = t.size + (if t.mem x then 0 else 1) := by
  intro t
  induction t with
  | nil => simp [T.insert, T.mem, T.size]
  | node l k r ihl ihr =>
    simp only [T.insert, T.mem]
    by_cases h1 : k < x
    · simp only [h1, if_true, T.size, ihl]; omega
    · by_cases h2 : x < k
      · simp only [h1, if_false, h2, if_true, T.size, ihr]; omega
      · simp [h1, h2, T.size]

theorem T.size_remove (x : Int) : ∀ (t : T Int), (t.remove x).size + (if t.mem x then 1 else 0) = t.size := by
  intro t
  induction t with
  | nil => simp [T.remove, T.mem, T.size]
  | node l k r ihl ihr =>
    simp only [T.remove, T.mem]
    by_cases h1 : k < x
    · simp only [h1, if_true, T.size]; omega
    · by_cases h2 : x < k
      · simp only [h1, if_false, h2, if_true, T.size]; omega
      · simp only [h1, h2, if_false]
        cases hr : r.removeFirst with
        | none =>
          have := T.removeFirst_none r hr
          subst this
          simp only [T.size, ↓reduceIte]
        | some p =>
          obtain ⟨m, r'⟩ := p
          have := T.size_removeFirst r m r' hr
          simp only [T.size, ↓reduceIte]; omega

/-- the `nitems` field of the Tree model counts the nodes, after every mutation -/
theorem treeStep_count (m : MTree) (h : m.nitems = m.root.size) (op : KOp) : (treeStep m op).1.nitems = (treeStep m op).1.root.size := by
  cases op with
  | set k =>
    simp only [treeStep, T.size_insert]
    split <;> omega
  | rem k =>
    simp only [treeStep]
    split
    · next hm =>
      have := T.size_remove k m.root
      simp only [hm, if_true] at this
      simp only; omega
    · exact h
  | resize n =>
    simp only [treeStep]
    split
    · rfl
    · exact h

theorem treeRun_count : ∀ (ops : List KOp) (m : MTree), m.nitems = m.root.size →
    (treeRun m ops).1.nitems = (treeRun m ops).1.root.size := by
  intro ops
  induction ops with
  | nil => intro m h; exact h
  | cons op ops ih =>
    intro m h
    simp only [treeRun]
    exact ih _ (treeStep_count m h op)

end Cello.Iter
