/-
  CelloProofs/Lemmas/RegistryRaise.lean — destructors that raise (`R`): `execR` / `finaliseLoopR` / `gcSweepR` / `gcSetR` of
  Cello/Registry.lean.
   * with `R = noR` they are `exec` / `finaliseLoop` / `gcSweep` / `gcSet` (so every theorem about those is a theorem about the
     functions the driver runs);
   * for every `K` and every `R`: from a well-formed state (`WFP`: pending list arbitrary — also a list that an earlier exception
     left behind) the nested recursion answers within the model's fuel and leaves a well-formed state for a sub-ledger; nothing
     is added to the pending list and its length does not change (`execR_safe`);
   * GC_Sweep with raising destructors (`gcSweepR_safe`): the table, the count, the bounds stay exact for a sub-ledger of the
     survivors; the pending list is reset exactly when no exception left the release loop.
-/
import Cello.Registry
import CelloProofs.Lemmas.RegistryKillsHist
set_option linter.unusedSectionVars false
set_option linter.unusedVariables false
namespace Cello.Registry
open RH

/-- a result without exception -/
def liftR (x : Option (Reg × List Nat)) : Option (Reg × List Nat × Bool) := x.map (fun y => (y.1, y.2, false))

theorem execR_fin_succ (c : Cfg) (K : Nat → List Nat) (R : Nat → Bool) (f : Nat) (r : Reg) (p : Nat) :
    execR c K R (f+1) r (.fin p) =
      match (K p).foldl (fun (acc : Option (Reg × List Nat × Bool)) y =>
          match acc with
          | none => none
          | some (r', t, ex) =>
            if ex then some (r', t, true)
            else
              match execR c K R f r' (.rem y) with
              | none => none
              | some (r'', t', ex') => some (r'', t ++ t', ex')) (some (r, [], false)) with
      | none => none
      | some (r', t, ex) =>
        if ex then some (r', t, true)
        else if R p then some (r', t, true)
        else some (r', t ++ [p], false) := by
  rw [execR]; rfl

theorem execR_rem_succ (c : Cfg) (K : Nat → List Nat) (R : Nat → Bool) (f : Nat) (r : Reg) (x : Nat) :
    execR c K R (f+1) r (.rem x) =
      if !r.running then some (r, [], false)
      else
        match remPtr c r x with
        | none => none
        | some (r1, fi) =>
          match (match fi with
                 | none => some (r1, [], false)
                 | some p => execR c K R f r1 (.fin p)) with
          | none => none
          | some (r2, t, ex) =>
            if ex then some (r2, t, true)
            else
              match resizeLess c r2 with
              | none => none
              | some r3 => some ({ r3 with mitems := c.mitemsOf r3.nitems }, t, false) := by
  rw [execR]; rfl

/-- **No destructor raises: `execR` is `exec`.** -/
theorem execR_noRaise (c : Cfg) (K : Nat → List Nat) :
    ∀ (fuel : Nat) (r : Reg) (cmd : Cmd), execR c K noR fuel r cmd = liftR (exec c K fuel r cmd) := by
  intro fuel
  induction fuel with
  | zero => intro r cmd; simp [execR, exec, liftR]
  | succ fuel ih =>
    intro r cmd
    cases cmd with
    | fin p =>
      rw [execR_fin_succ, exec_fin_succ]
      have hfold : ∀ (l : List Nat) (x : Option (Reg × List Nat)),
          l.foldl (fun (acc : Option (Reg × List Nat × Bool)) y =>
            match acc with
            | none => none
            | some (r', t, ex) =>
              if ex then some (r', t, true)
              else
                match execR c K noR fuel r' (.rem y) with
                | none => none
                | some (r'', t', ex') => some (r'', t ++ t', ex')) (liftR x) =
          liftR (l.foldl (fun (acc : Option (Reg × List Nat)) y =>
            match acc with
            | none => none
            | some (r', t) =>
              match exec c K fuel r' (.rem y) with
              | none => none
              | some (r'', t') => some (r'', t ++ t')) x) := by
        intro l
        induction l with
        | nil => intro x; rfl
        | cons z l ihl =>
          intro x
          simp only [List.foldl_cons]
          rw [← ihl]
          congr 1
          cases x with
          | none => rfl
          | some v =>
            obtain ⟨r', t⟩ := v
            simp only [liftR, Option.map_some, Bool.false_eq_true, if_false]
            rw [ih r' (.rem z)]
            cases exec c K fuel r' (.rem z) with
            | none => rfl
            | some w => rfl
      have h0 : (some (r, [], false) : Option (Reg × List Nat × Bool)) = liftR (some (r, [])) := rfl
      rw [h0, hfold]
      cases (K p).foldl _ (some (r, [])) with
      | none => rfl
      | some v => obtain ⟨r', t⟩ := v; simp [liftR, noR]
    | rem x =>
      rw [execR_rem_succ, exec_rem_succ]
      cases hrun : r.running with
      | false => simp [liftR]
      | true =>
        simp only [Bool.not_true, Bool.false_eq_true, if_false]
        cases remPtr c r x with
        | none => rfl
        | some v =>
          obtain ⟨r1, fi⟩ := v
          simp only []
          cases fi with
          | none =>
            simp only [Bool.false_eq_true, if_false]
            cases resizeLess c r1 with
            | none => rfl
            | some r3 => rfl
          | some p =>
            simp only []
            rw [ih r1 (.fin p)]
            cases exec c K fuel r1 (.fin p) with
            | none => rfl
            | some w =>
              obtain ⟨r2, t⟩ := w
              simp only [liftR, Option.map_some, Bool.false_eq_true, if_false]
              cases resizeLess c r2 with
              | none => rfl
              | some r3 => rfl

theorem gcRemR_noRaise (c : Cfg) (K : Nat → List Nat) (r : Reg) (x : Nat) : gcRemR c K noR r x = liftR (gcRem c K r x) :=
  execR_noRaise c K _ r _

theorem finaliseLoopR_noRaise (c : Cfg) (K : Nat → List Nat) :
    ∀ (todo i : Nat) (r : Reg) (t : List Nat), finaliseLoopR c K noR todo i r t = liftR (finaliseLoop c K todo i r t) := by
  intro todo
  induction todo with
  | zero => intro i r t; rfl
  | succ todo ih =>
    intro i r t
    unfold finaliseLoopR finaliseLoop
    cases hgi : r.pending[i]? with
    | none => simp only []; exact ih (i+1) r t
    | some o =>
      cases o with
      | none => simp only []; exact ih (i+1) r t
      | some p =>
        simp only []
        rw [execR_noRaise]
        cases exec c K (nestFuel { r with pending := r.pending.setIfInBounds i none } + 1)
            { r with pending := r.pending.setIfInBounds i none } (.fin p) with
        | none => rfl
        | some w =>
          obtain ⟨r2, t'⟩ := w
          simp only [liftR, Option.map_some, Bool.false_eq_true, if_false]
          exact ih (i+1) r2 (t ++ t')

/-- **No destructor raises: `gcSweepR` is `gcSweep`.** -/
theorem gcSweepR_noRaise (c : Cfg) (K : Nat → List Nat) (r : Reg) : gcSweepR c K noR r = liftR (gcSweep c K r) := by
  unfold gcSweepR gcSweep
  cases sweepLoop (2 * r.n + 1) r.slots 0 #[] r.nitems with
  | none => rfl
  | some v =>
    obtain ⟨s, pend, ni⟩ := v
    simp only []
    cases resizeLess c { r with slots := clearMarks s, nitems := ni, pending := pend } with
    | none => rfl
    | some r1 =>
      simp only []
      rw [finaliseLoopR_noRaise]
      cases finaliseLoop c K r1.pending.size 0 { r1 with mitems := c.mitemsOf r1.nitems } [] with
      | none => rfl
      | some w => obtain ⟨r3, t⟩ := w; simp [liftR]

/-- **No destructor raises: `gcSetR` is `gcSet`.** -/
theorem gcSetR_noRaise (c : Cfg) (K : Nat → List Nat) (r : Reg) (p : Nat) (root : Bool) (marks : List Nat) :
    gcSetR c K noR r p root marks = liftR (gcSet c K r p root marks) := by
  unfold gcSetR gcSet
  by_cases hrun : (!r.running) = true
  · rw [if_pos hrun, if_pos hrun]; rfl
  · rw [if_neg hrun, if_neg hrun]
    generalize resizeMore c { r with nitems := r.nitems + 1, maxptr := if p > r.maxptr then p else r.maxptr, minptr := if p < r.minptr then p else r.minptr } = o
    cases o with
    | none => rfl
    | some r1 =>
      simp only []
      cases setPtr c r1.slots p root with
      | none => rfl
      | some s =>
        simp only []
        split
        · cases gcMark c { r1 with slots := s } marks with
          | none => rfl
          | some r3 => simp only []; exact gcSweepR_noRaise c K r3
        · rfl

/-! ### safety for every `K` and every `R` -/

/-- what `execR_safe` says about a result -/
def SafeRes (c : Cfg) (r : Reg) (L : Ledger) (res : Option (Reg × List Nat × Bool)) : Prop :=
  ∃ r' L' t ex, res = some (r', t, ex) ∧ WFP c r' L' ∧ (∀ y, y ∈ L' → y ∈ L) ∧ (∀ y, y ∈ pendList r' → y ∈ pendList r) ∧
    L'.length + (pendList r').length ≤ L.length + (pendList r).length ∧ r'.running = r.running ∧
    r'.pending.size = r.pending.size

theorem SafeRes.refl (c : Cfg) (r : Reg) (L : Ledger) (h : WFP c r L) (t : List Nat) (ex : Bool) :
    SafeRes c r L (some (r, t, ex)) :=
  ⟨r, L, t, ex, rfl, h, fun _ h => h, fun _ h => h, Nat.le_refl _, rfl, rfl⟩

/-- **Nested removals with raising destructors are safe**: for every `K`, every `R`, from every well-formed state (pending list
    arbitrary) the recursion answers within fuel `2·(|L| + |waiting|) + 2` (finalise) / `+ 1` (remove), and the resulting state
    is well formed for a sub-ledger; no object is added to the pending list, whose length is unchanged; `running` is unchanged. -/
theorem execR_safe (c : Cfg) (g : GoodCfg c) (hg : c.remNullGuard = true) (K : Nat → List Nat) (R : Nat → Bool) :
    ∀ (fuel : Nat) (r : Reg) (L : Ledger) (cmd : Cmd), WFP c r L →
      (match cmd with | .fin _ => 2 * (L.length + (pendList r).length) + 2 | .rem _ => 2 * (L.length + (pendList r).length) + 1) ≤ fuel →
      SafeRes c r L (execR c K R fuel r cmd) := by
  intro fuel
  induction fuel with
  | zero => intro r L cmd _ hf; cases cmd <;> simp at hf
  | succ fuel ih =>
    intro r L cmd hwf hf
    cases cmd with
    | fin p =>
      simp only at hf
      rw [execR_fin_succ]
      have hfold : ∀ (l : List Nat) (x : Option (Reg × List Nat × Bool)), SafeRes c r L x →
          SafeRes c r L (l.foldl (fun (acc : Option (Reg × List Nat × Bool)) y =>
            match acc with
            | none => none
            | some (r', t, ex) =>
              if ex then some (r', t, true)
              else
                match execR c K R fuel r' (.rem y) with
                | none => none
                | some (r'', t', ex') => some (r'', t ++ t', ex')) x) := by
        intro l
        induction l with
        | nil => intro x h; exact h
        | cons z l ihl =>
          intro x h
          simp only [List.foldl_cons]
          apply ihl
          obtain ⟨r', L', t, ex, hx, hw, hsub, hpsub, hsz, hrun, hps⟩ := h
          subst hx
          cases ex with
          | true => simp only [if_true]; exact ⟨r', L', t, true, rfl, hw, hsub, hpsub, hsz, hrun, hps⟩
          | false =>
            simp only [Bool.false_eq_true, if_false]
            obtain ⟨r'', L'', t', ex', he, hw', hsub', hpsub', hsz', hrun', hps'⟩ :=
              ih r' L' (.rem z) hw (by simp only; omega)
            rw [he]
            exact ⟨r'', L'', t ++ t', ex', rfl, hw', fun y hy => hsub y (hsub' y hy), fun y hy => hpsub y (hpsub' y hy),
              by omega, by rw [hrun', hrun], by rw [hps', hps]⟩
      obtain ⟨r', L', t, ex, hx, hw, hsub, hpsub, hsz, hrun, hps⟩ := hfold (K p) _ (SafeRes.refl c r L hwf [] false)
      rw [hx]
      simp only []
      cases ex with
      | true => simp only [if_true]; exact ⟨r', L', t, true, rfl, hw, hsub, hpsub, hsz, hrun, hps⟩
      | false =>
        simp only [Bool.false_eq_true, if_false]
        cases R p with
        | true => simp only [if_true]; exact ⟨r', L', t, true, rfl, hw, hsub, hpsub, hsz, hrun, hps⟩
        | false => simp only [Bool.false_eq_true, if_false]; exact ⟨r', L', t ++ [p], false, rfl, hw, hsub, hpsub, hsz, hrun, hps⟩
    | rem x =>
      simp only at hf
      rw [execR_rem_succ]
      cases hrun : r.running with
      | false => simp only [Bool.not_false, if_true]; exact SafeRes.refl c r L hwf [] false
      | true =>
        simp only [Bool.not_true, Bool.false_eq_true, if_false]
        obtain ⟨r1, fi, hrem, hrun1, _, hcases⟩ := remPtr_abs c r L hwf x (Or.inl hg)
        rw [hrem]; simp only []
        -- what happens after the (possible) finalisation
        have tail : ∀ (x' : Option (Reg × List Nat × Bool)), SafeRes c r L x' →
            SafeRes c r L
              (match x' with
               | none => none
               | some (r2, t, ex) =>
                 if ex then some (r2, t, true)
                 else
                   match resizeLess c r2 with
                   | none => none
                   | some r3 => some ({ r3 with mitems := c.mitemsOf r3.nitems }, t, false)) := by
          intro x' h
          obtain ⟨r2, L2, t, ex, hx, hw, hsub, hpsub, hsz, hrun2, hps⟩ := h
          subst hx
          simp only []
          cases ex with
          | true => simp only [if_true]; exact ⟨r2, L2, t, true, rfl, hw, hsub, hpsub, hsz, hrun2, hps⟩
          | false =>
            simp only [Bool.false_eq_true, if_false]
            obtain ⟨r3, hr3, w3, p3, run3, sz3⟩ := rem_tail c g r2 L2 hw
            rw [hr3]
            refine ⟨_, L2, t, false, rfl, w3, hsub, ?_, ?_, ?_, ?_⟩
            · intro y hy; rw [p3] at hy; exact hpsub y hy
            · rw [p3]; exact hsz
            · show r3.running = r.running; rw [run3]; exact hrun2
            · show r3.pending.size = r.pending.size; rw [sz3]; exact hps
        rcases hcases with ⟨hx, hfi, hpl, hw1, hsz1⟩ | ⟨hxp, hxL, hfi, hpend, hw1, _⟩ | ⟨hxp, hxL, hfi, hr1⟩
        · subst hfi
          simp only []
          have hlen : ((pendList r).erase x).length = (pendList r).length - 1 := List.length_erase_of_mem hx
          have hpos : 0 < (pendList r).length := List.length_pos_of_mem hx
          obtain ⟨r2, L2, t, ex, he, hw2, hsub2, hpsub2, hsz2, hrun2, hps2⟩ :=
            ih r1 L (.fin x) hw1 (by simp only; rw [hpl, hlen]; omega)
          apply tail
          refine ⟨r2, L2, t, ex, he, hw2, hsub2, ?_, ?_, by rw [hrun2, hrun1], by rw [hps2, hsz1]⟩
          · intro y hy; have := hpsub2 y hy; rw [hpl] at this; exact List.mem_of_mem_erase this
          · rw [hpl, hlen] at hsz2; omega
        · subst hfi
          simp only []
          have hpl : pendList r1 = pendList r := by unfold pendList; rw [hpend]
          have hlt : (L.filter (fun y => y.1 != x)).length < L.length := by
            rw [List.length_filter_lt_length_iff_exists]
            obtain ⟨y, hy, hyx⟩ := List.mem_map.1 hxL
            exact ⟨y, hy, by simp [hyx]⟩
          obtain ⟨r2, L2, t, ex, he, hw2, hsub2, hpsub2, hsz2, hrun2, hps2⟩ :=
            ih r1 _ (.fin x) hw1 (by simp only; rw [hpl]; omega)
          apply tail
          refine ⟨r2, L2, t, ex, he, hw2, fun y hy => (List.mem_filter.1 (hsub2 y hy)).1, ?_, ?_, by rw [hrun2, hrun1], by rw [hps2, hpend]⟩
          · intro y hy; rw [← hpl]; exact hpsub2 y hy
          · rw [hpl] at hsz2; omega
        · subst hfi; subst hr1
          simp only []
          exact tail _ (SafeRes.refl c r1 L hwf [] false)

theorem nestFuel_ge (c : Cfg) (r : Reg) (L : Ledger) (h : WFP c r L) : 2 * (L.length + (pendList r).length) + 1 ≤ nestFuel r := by
  have h1 := wfp_count c r L h
  have h2 := pendList_length_le r
  unfold nestFuel
  omega

/-- **GC_Rem with raising destructors**, from any well-formed state -/
theorem gcRemR_safe (c : Cfg) (g : GoodCfg c) (hg : c.remNullGuard = true) (K : Nat → List Nat) (R : Nat → Bool) (r : Reg) (L : Ledger)
    (h : WFP c r L) (x : Nat) : SafeRes c r L (gcRemR c K R r x) :=
  execR_safe c g hg K R (nestFuel r) r L (.rem x) h (nestFuel_ge c r L h)

theorem length_filterMap_set_none (l : List (Option Nat)) (i : Nat) :
    ((l.set i none).filterMap id).length ≤ (l.filterMap id).length := by
  induction l generalizing i with
  | nil => simp
  | cons a l ihl =>
    cases i with
    | zero => cases a <;> simp
    | succ i => cases a <;> simp [List.set_cons_succ] <;> exact ihl i

/-- the release loop with raising destructors: it answers; well-formed for a sub-ledger; the list keeps its length; when no
    exception left the loop nothing is waiting any more from slot `i + todo` down … (only the part the theorems need) -/
theorem finaliseLoopR_safe (c : Cfg) (g : GoodCfg c) (hg : c.remNullGuard = true) (K : Nat → List Nat) (R : Nat → Bool) :
    ∀ (todo i : Nat) (r : Reg) (L : Ledger) (t : List Nat), WFP c r L → SafeRes c r L (finaliseLoopR c K R todo i r t) := by
  intro todo
  induction todo with
  | zero => intro i r L t h; exact SafeRes.refl c r L h t false
  | succ todo ih =>
    intro i r L t h
    unfold finaliseLoopR
    cases hgi : r.pending[i]? with
    | none => simp only []; exact ih (i+1) r L t h
    | some o =>
      cases o with
      | none => simp only []; exact ih (i+1) r L t h
      | some p =>
        simp only []
        have hw1 := wfp_set_pending c r L h i
        have hsub1 : ∀ y, y ∈ pendList { r with pending := r.pending.setIfInBounds i none } → y ∈ pendList r :=
          fun y hy => pendList_set_none_mem r i y hy
        have hlen1 : (pendList { r with pending := r.pending.setIfInBounds i none }).length ≤ (pendList r).length := by
          unfold pendList
          show ((r.pending.setIfInBounds i none).toList.filterMap id).length ≤ _
          rw [Array.toList_setIfInBounds]
          exact length_filterMap_set_none _ i
        obtain ⟨r2, L2, t2, ex, he, hw2, hsub2, hpsub2, hsz2, hrun2, hps2⟩ :=
          execR_safe c g hg K R (nestFuel { r with pending := r.pending.setIfInBounds i none } + 1) _ L (.fin p) hw1
            (by have := nestFuel_ge c _ L hw1; simp only; omega)
        rw [he]
        simp only []
        have hps2' : r2.pending.size = r.pending.size := by rw [hps2]; simp
        cases ex with
        | true =>
          simp only [if_true]
          exact ⟨r2, L2, t ++ t2, true, rfl, hw2, hsub2, fun y hy => hsub1 y (hpsub2 y hy), by omega, hrun2, hps2'⟩
        | false =>
          simp only [Bool.false_eq_true, if_false]
          obtain ⟨r3, L3, t3, ex3, he3, hw3, hsub3, hpsub3, hsz3, hrun3, hps3⟩ := ih (i+1) r2 L2 (t ++ t2) hw2
          exact ⟨r3, L3, t3, ex3, he3, hw3, fun y hy => hsub2 y (hsub3 y hy), fun y hy => hsub1 y (hpsub2 y (hpsub3 y hy)),
            by omega, by rw [hrun3, hrun2], by rw [hps3, hps2']⟩

/-- **the first part of GC_Sweep** (compaction, mark clearing, GC_Resize_Less, threshold) — before any destructor runs: the state
    is well formed for the survivors `collectBy L mk`, and the pending list holds the reclaimed objects, each once.  (The same
    facts are established inside the proof of `gcSweep_simO`.) -/
theorem sweepPhase_wfp (c : Cfg) (g : GoodCfg c) (r : Reg) (L : Ledger) (mk : Nat → Bool → Bool)
    (h : Core c r L mk) (hc : r.nitems = occ r.slots) (hroom : Room r) (hb : Bounded r L) (hnd : (L.map Prod.fst).Nodup) :
    ∃ (s' : Slots Nat Payload r.n) (pend : Array (Option Nat)) (ni : Nat) (r1 : Reg) (order : List Nat),
      sweepLoop (2 * r.n + 1) r.slots 0 #[] r.nitems = some (s', pend, ni) ∧
      resizeLess c { r with slots := clearMarks s', nitems := ni, pending := pend } = some r1 ∧
      WFP c { r1 with mitems := c.mitemsOf r1.nitems } (collectBy L mk) ∧
      r1.pending.toList = order.map some ∧ r1.running = r.running ∧ order.Nodup ∧
      (∀ p, p ∈ order ↔ ∃ b, (p, b) ∈ L ∧ (p, b) ∉ collectBy L mk) := by
  have hroom' : occ r.slots < r.n ∨ r.n = 0 := by rcases hroom with h' | h' <;> omega
  obtain ⟨s', removed, hs', inv', hmem, hkeep, hrem, hnot, hnd', hocc⟩ :=
    sweepLoop_total (hashOf c) r.slots r.nitems h.inv hroom'
  have hcoreA : Core c { r with slots := clearMarks s', nitems := r.nitems - removed.length,
                                pending := (removed.map (fun x => some x.key)).toArray } (collectBy L mk) noMark := by
    refine ⟨inv0_map_payload _ _ inv' _ (fun _ => rfl) (fun _ => rfl), ?_⟩
    intro e'
    show Mem (clearMarks s') e' ↔ _
    unfold clearMarks
    rw [mem_map_payload]
    constructor
    · rintro ⟨e, he, rfl⟩
      have hk := hkeep e he
      obtain ⟨h1, h2, h3⟩ := (h.ents e).1 ((hmem e).2 (Or.inl he))
      refine ⟨?_, rfl, h3⟩
      unfold collectBy
      rw [List.mem_filter]
      refine ⟨h1, ?_⟩
      rcases hk with hk | hk
      · rw [h2] at hk; simp [hk]
      · simp [hk]
    · rintro ⟨h1, h2, h3⟩
      unfold collectBy at h1
      rw [List.mem_filter] at h1
      have hin : Mem r.slots ⟨e'.key, e'.home, ⟨e'.val.root, mk e'.key e'.val.root⟩⟩ := (h.ents _).2 ⟨h1.1, rfl, h3⟩
      rcases (hmem _).1 hin with hs | hr
      · refine ⟨_, hs, ?_⟩
        rw [clear_eq]
        exact ent_eta e' _ _ _ _ rfl rfl rfl h2
      · exfalso
        apply hrem _ hr
        have := h1.2
        simp only [Bool.or_eq_true] at this
        rcases this with h' | h'
        · exact Or.inr h'
        · exact Or.inl h'
  have hcA : (r.nitems - removed.length) = occ (clearMarks s') := by
    unfold clearMarks; rw [occ_map_payload]; omega
  have hroomA : Room { r with slots := clearMarks s', nitems := r.nitems - removed.length,
                              pending := (removed.map (fun x => some x.key)).toArray } := by
    rcases hroom with h' | h'
    · exact Or.inl (show r.nitems - removed.length < r.n by omega)
    · exact Or.inr ⟨h'.1, show r.nitems - removed.length = 0 by omega⟩
  obtain ⟨r1, hr1, hmeta1, hcore1, hocc1, hroom1, hz1⟩ := resizeLess_spec c g _ (collectBy L mk) hcoreA hcA hroomA
  -- membership in `removed`
  have hremoved : ∀ e, e ∈ removed ↔ Mem r.slots e ∧ ¬ Keep e := by
    intro e
    constructor
    · intro he; exact ⟨(hmem e).2 (Or.inr he), hrem e he⟩
    · rintro ⟨he, hk⟩
      rcases (hmem e).1 he with h' | h'
      · exact absurd (hkeep e h') hk
      · exact h'
  have hrem0 : r.n = 0 → removed = [] := by
    intro h0
    apply List.eq_nil_iff_forall_not_mem.2
    intro e he
    obtain ⟨q, hq, _⟩ := ((hremoved e).1 he).1
    omega
  have hw2 : WFP c { r1 with mitems := c.mitemsOf r1.nitems } (collectBy L mk) := by
    refine ⟨hcore1.of_slots rfl HEq.rfl, ?_, hroom1, ⟨?_, ?_, ?_, fun p b hp => hb.nonnull p b (collectBy_sub L mk _ hp)⟩,
      collectBy_nodup L mk hnd, ?_, ?_⟩
    · show r1.nitems = occ r1.slots; rw [hmeta1.nitems, hocc1]; exact hcA
    · intro p b hp; show r1.minptr ≤ p ∧ p ≤ r1.maxptr; rw [hmeta1.minptr, hmeta1.maxptr]
      exact hb.bounds p b (collectBy_sub L mk _ hp)
    · intro p b hp; exact hb.aligned p b (collectBy_sub L mk _ hp)
    · intro h0; show r1.minptr = uintptrMax ∧ r1.maxptr = 0; rw [hmeta1.minptr, hmeta1.maxptr]; exact hb.zero (hz1 h0)
    · intro h0
      unfold pendList
      show r1.pending.toList.filterMap id = []
      rw [hmeta1.pending]
      show ((removed.map (fun x => some x.key)).toArray).toList.filterMap id = []
      rw [hrem0 (hz1 h0)]; rfl
    · -- what the sweep lists are registered objects: none of them is NULL
      intro h0
      unfold pendList at h0
      have h0' : 0 ∈ r1.pending.toList.filterMap id := h0
      rw [hmeta1.pending] at h0'
      have h0'' : 0 ∈ ((removed.map (fun x => some x.key)).toArray).toList.filterMap id := h0'
      simp only [List.mem_filterMap, List.mem_map, id] at h0''
      obtain ⟨a, ⟨e, he, hea⟩, ha⟩ := h0''
      subst hea
      have hk : e.key = 0 := by simpa using ha
      obtain ⟨h1, _, _⟩ := (h.ents e).1 ((hremoved e).1 he).1
      exact hb.nonnull _ _ h1 hk
  have hp2 : ({ r1 with mitems := c.mitemsOf r1.nitems } : Reg).pending.toList = (removed.map (fun x => x.key)).map some := by
    show r1.pending.toList = _
    rw [hmeta1.pending]
    show ((removed.map (fun x => some x.key)).toArray).toList = _
    simp [List.map_map]
  refine ⟨s', _, _, r1, removed.map (fun x => x.key), hs', hr1, hw2, hp2, hmeta1.running, ?_, ?_⟩
  · -- keys of distinct stored entries are distinct
    unfold List.Nodup at hnd' ⊢
    rw [List.pairwise_map]
    refine List.Pairwise.imp_of_mem ?_ hnd'
    intro e1 e2 he1 he2 hne hk
    apply hne
    obtain ⟨q1, hq1, h1⟩ := ((hremoved e1).1 he1).1
    obtain ⟨q2, hq2, h2⟩ := ((hremoved e2).1 he2).1
    have := h.inv.distinct q1 q2 hq1 hq2 e1 e2 h1 h2 hk
    subst this
    rw [h1] at h2; exact Option.some.inj h2
  · intro p
    rw [List.mem_map]
    constructor
    · rintro ⟨e, he, rfl⟩
      obtain ⟨hm, hk⟩ := (hremoved e).1 he
      obtain ⟨h1, h2, _⟩ := (h.ents e).1 hm
      refine ⟨e.val.root, h1, ?_⟩
      intro hin
      unfold collectBy at hin
      have := (List.mem_filter.1 hin).2
      simp only [Bool.or_eq_true] at this
      apply hk
      rcases this with h' | h'
      · exact Or.inr h'
      · exact Or.inl (by rw [h2]; exact h')
    · rintro ⟨b, hL, hnot'⟩
      have hm : Mem r.slots ⟨p, hashOf c p % r.n, ⟨b, mk p b⟩⟩ := (h.ents _).2 ⟨hL, rfl, rfl⟩
      refine ⟨_, (hremoved _).2 ⟨hm, ?_⟩, rfl⟩
      intro hk
      apply hnot'
      unfold collectBy
      rw [List.mem_filter]
      refine ⟨hL, ?_⟩
      simp only [Bool.or_eq_true]
      rcases hk with h' | h'
      · exact Or.inr h'
      · exact Or.inl h'

/-- **GC_Sweep with raising destructors**, for every `K` and every `R`: it answers; the table, the count and the bounds are
    well formed for a sub-ledger of the survivors; what is still listed are reclaimed objects (`order`: the unmarked non-roots,
    each once); without an exception the pending list is reset, with an exception it keeps its `order.length` slots. -/
theorem gcSweepR_safe (c : Cfg) (g : GoodCfg c) (hg : c.remNullGuard = true) (K : Nat → List Nat) (R : Nat → Bool) (r : Reg) (L : Ledger)
    (mk : Nat → Bool → Bool) (h : Core c r L mk) (hc : r.nitems = occ r.slots) (hroom : Room r) (hb : Bounded r L)
    (hnd : (L.map Prod.fst).Nodup) :
    ∃ (order : List Nat) (r' : Reg) (L' : Ledger) (t : List Nat) (ex : Bool),
      gcSweepR c K R r = some (r', t, ex) ∧ WFP c r' L' ∧ (∀ y, y ∈ L' → y ∈ collectBy L mk) ∧
      (∀ y, y ∈ pendList r' → y ∈ order) ∧ order.Nodup ∧ (∀ p, p ∈ order ↔ ∃ b, (p, b) ∈ L ∧ (p, b) ∉ collectBy L mk) ∧
      r'.running = r.running ∧ (ex = false → r'.pending = #[]) ∧ (ex = true → r'.pending.size = order.length) := by
  obtain ⟨s', pend, ni, r1, order, hs', hr1, hw2, hp2, hrun1, hnd2, hmem2⟩ := sweepPhase_wfp c g r L mk h hc hroom hb hnd
  obtain ⟨r3, L3, t, ex, he, hw3, hsub3, hpsub3, _, hrun3, hps3⟩ :=
    finaliseLoopR_safe c g hg K R ({ r1 with mitems := c.mitemsOf r1.nitems } : Reg).pending.size 0
      { r1 with mitems := c.mitemsOf r1.nitems } (collectBy L mk) [] hw2
  have hpl : ∀ y, y ∈ pendList ({ r1 with mitems := c.mitemsOf r1.nitems } : Reg) → y ∈ order := by
    intro y hy
    unfold pendList at hy
    have hy' : y ∈ r1.pending.toList.filterMap id := hy
    rw [hp2] at hy'
    simpa using hy'
  have hsz : r3.pending.size = order.length := by
    rw [hps3]; show r1.pending.size = _
    have := congrArg List.length hp2
    simpa using this
  unfold gcSweepR
  rw [hs']; simp only []
  rw [hr1]; simp only []
  rw [he]; simp only []
  cases ex with
  | true =>
    simp only [if_true]
    exact ⟨order, r3, L3, t, true, rfl, hw3, hsub3, fun y hy => hpl y (hpsub3 y hy), hnd2, hmem2, (by rw [hrun3]; exact hrun1),
      (fun h => by cases h), (fun _ => hsz)⟩
  | false =>
    simp only [Bool.false_eq_true, if_false]
    have hwf : WF c { r3 with pending := #[] } L3 :=
      ⟨hw3.core.of_slots rfl HEq.rfl, hw3.count, hw3.room, ⟨hw3.bounded.bounds, hw3.bounded.aligned, hw3.bounded.zero, hw3.bounded.nonnull⟩,
        hw3.nodup, rfl⟩
    refine ⟨order, _, L3, t, false, rfl, hwf.toWFP, hsub3, ?_, hnd2, hmem2, (by show r3.running = r.running; rw [hrun3]; exact hrun1),
      (fun _ => rfl), (fun h => by cases h)⟩
    intro y hy
    unfold pendList at hy
    simp at hy

/-- an address has one root flag in a ledger of distinct addresses -/
theorem ledger_flag_unique (L : Ledger) (hnd : (L.map Prod.fst).Nodup) (q : Nat) (b b' : Bool) (h1 : (q, b) ∈ L) (h2 : (q, b') ∈ L) :
    b = b' := by
  induction L with
  | nil => cases h1
  | cons x L ih =>
    rw [List.map_cons, List.nodup_cons] at hnd
    rcases List.mem_cons.1 h1 with e1 | m1 <;> rcases List.mem_cons.1 h2 with e2 | m2
    · exact (Prod.mk.inj (e1.trans e2.symm)).2
    · exfalso; apply hnd.1; rw [← e1]; exact List.mem_map.2 ⟨(q, b'), m2, rfl⟩
    · exfalso; apply hnd.1; rw [← e2]; exact List.mem_map.2 ⟨(q, b), m1, rfl⟩
    · exact ih hnd.2 m1 m2

end Cello.Registry
