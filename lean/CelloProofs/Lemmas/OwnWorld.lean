/-
  CelloProofs/Lemmas/OwnWorld.lean — C05 helper lemmas at the level of the world of named containers:
  the invariant `Inv` and its preservation by `commit`.
-/
import CelloProofs.Lemmas.OwnMap
set_option linter.unusedVariables false
set_option linter.unusedSimpArgs false

namespace Cello.Own
open List

/-- identities held by all containers together -/
def allIds (objs : List (Nat × Cont)) : List Nat := ids (allToks objs)

/-- The invariant of every in-contract history.
    `cons`: the elements ever constructed are exactly the finalised ones together with the ones the containers hold
    (as multisets of identities) — so the live elements are exactly the union of the container contents;
    `nodup`: no identity was handed out twice — together with `cons`: nothing is finalised twice, nothing finalised is
    still contained, no element is in two places. -/
structure Inv (w : World) : Prop where
  cons : w.issuedLog ~ w.retiredLog ++ allIds w.objs
  nodup : w.issuedLog.Nodup
  bound : ∀ i ∈ w.issuedLog, 0 < i ∧ i < w.next
  pos : 0 < w.next
  mapsOK : ∀ c mk kvs, (c, Cont.map mk kvs) ∈ w.objs → (keys kvs).Nodup

theorem inv_init : Inv {} := by
  refine ⟨?_, ?_, ?_, ?_, ?_⟩ <;> simp [allIds, allToks, lookup]

/-! ### lookup / store / erase -/

@[simp] theorem allToks_nil : allToks [] = [] := rfl
@[simp] theorem allToks_cons (c : Nat) (x : Cont) (rest : List (Nat × Cont)) :
    allToks ((c, x) :: rest) = x.toks ++ allToks rest := by simp [allToks]

theorem allToks_erase {objs : List (Nat × Cont)} {c : Nat} {x : Cont} (h : lookup objs c = some x) :
    allToks objs ~ x.toks ++ allToks (erase objs c) := by
  induction objs with
  | nil => simp [lookup] at h
  | cons cx rest ih =>
    obtain ⟨d, y⟩ := cx
    simp only [lookup] at h
    by_cases hd : d = c
    · simp only [hd, if_true, Option.some.injEq] at h
      subst h; simp [erase, hd]
    · simp only [hd, if_false] at h
      simp only [erase, hd, if_false, allToks_cons]
      calc y.toks ++ allToks rest ~ y.toks ++ (x.toks ++ allToks (erase rest c)) := Perm.append_left _ (ih h)
        _ ~ x.toks ++ (y.toks ++ allToks (erase rest c)) := by
          rw [← List.append_assoc, ← List.append_assoc]; exact Perm.append_right _ perm_append_comm

theorem erase_of_lookup_none {objs : List (Nat × Cont)} {c : Nat} (h : lookup objs c = none) : erase objs c = objs := by
  induction objs with
  | nil => rfl
  | cons cx rest ih =>
    obtain ⟨d, y⟩ := cx
    simp only [lookup] at h
    by_cases hd : d = c
    · simp [hd] at h
    · simp only [hd, if_false] at h
      simp [erase, hd, ih h]

theorem allToks_insertSorted (d : Nat) (y : Cont) (l : List (Nat × Cont)) :
    allToks (insertSorted d y l) ~ y.toks ++ allToks l := by
  induction l with
  | nil => simp [insertSorted]
  | cons cx rest ih =>
    obtain ⟨c, x⟩ := cx
    simp only [insertSorted]
    split
    · simp
    · simp only [allToks_cons]
      calc x.toks ++ allToks (insertSorted d y rest) ~ x.toks ++ (y.toks ++ allToks rest) := Perm.append_left _ ih
        _ ~ y.toks ++ (x.toks ++ allToks rest) := by
          rw [← List.append_assoc, ← List.append_assoc]; exact Perm.append_right _ perm_append_comm

theorem allToks_store (objs : List (Nat × Cont)) (c : Nat) (y : Cont) :
    allToks (store objs c y) ~ y.toks ++ allToks (erase objs c) := allToks_insertSorted _ _ _

theorem lookup_insertSorted (d : Nat) (y : Cont) (l : List (Nat × Cont)) (e : Nat) :
    lookup (insertSorted d y l) e = if e = d then some y else lookup l e := by
  induction l with
  | nil =>
    by_cases h : e = d
    · simp [insertSorted, lookup, h]
    · have : ¬ d = e := fun h' => h h'.symm
      simp [insertSorted, lookup, h, this]
  | cons cx rest ih =>
    obtain ⟨c, x⟩ := cx
    simp only [insertSorted]
    by_cases h1 : d ≤ c
    · simp only [h1, if_true, lookup]
      by_cases h : e = d
      · simp [h]
      · have : ¬ d = e := fun h' => h h'.symm
        simp [h, this]
    · simp only [h1, if_false, lookup, ih]
      by_cases h : e = d
      · have : ¬ c = d := by omega
        subst h; simp [this]
      · simp [h]

theorem lookup_erase_ne (objs : List (Nat × Cont)) {c e : Nat} (h : e ≠ c) :
    lookup (erase objs c) e = lookup objs e := by
  induction objs with
  | nil => rfl
  | cons dx rest ih =>
    obtain ⟨d, x⟩ := dx
    simp only [erase]
    by_cases hd : d = c
    · have : ¬ c = e := fun h' => h h'.symm
      simp [hd, lookup, this]
    · simp only [hd, if_false, lookup, ih]

theorem mem_of_lookup {objs : List (Nat × Cont)} {c : Nat} {x : Cont} (h : lookup objs c = some x) : (c, x) ∈ objs := by
  induction objs with
  | nil => simp [lookup] at h
  | cons dx rest ih =>
    obtain ⟨d, y⟩ := dx
    simp only [lookup] at h
    by_cases hd : d = c
    · simp only [hd, if_true, Option.some.injEq] at h; subst h; simp [hd]
    · simp only [hd, if_false] at h; exact List.mem_cons_of_mem _ (ih h)

theorem mem_erase_sub {objs : List (Nat × Cont)} {c : Nat} {p : Nat × Cont} (h : p ∈ erase objs c) : p ∈ objs := by
  induction objs with
  | nil => simp [erase] at h
  | cons dx rest ih =>
    obtain ⟨d, y⟩ := dx
    simp only [erase] at h
    by_cases hd : d = c
    · simp only [hd, if_true] at h; exact List.mem_cons_of_mem _ h
    · simp only [hd, if_false, List.mem_cons] at h
      rcases h with h | h
      · simp [h]
      · exact List.mem_cons_of_mem _ (ih h)

theorem mem_insertSorted {l : List (Nat × Cont)} {c : Nat} {y : Cont} {p : Nat × Cont} (h : p ∈ insertSorted c y l) :
    p = (c, y) ∨ p ∈ l := by
  induction l with
  | nil => simp [insertSorted] at h; exact Or.inl h
  | cons dx rest ih =>
    obtain ⟨d, x⟩ := dx
    simp only [insertSorted] at h
    by_cases h1 : c ≤ d
    · simp only [h1, if_true, List.mem_cons] at h
      rcases h with h | h | h
      · exact Or.inl h
      · exact Or.inr (by simp [h])
      · exact Or.inr (List.mem_cons_of_mem _ h)
    · simp only [h1, if_false, List.mem_cons] at h
      rcases h with h | h
      · exact Or.inr (by simp [h])
      · rcases ih h with h | h
        · exact Or.inl h
        · exact Or.inr (List.mem_cons_of_mem _ h)

theorem mem_store {objs : List (Nat × Cont)} {c : Nat} {y : Cont} {p : Nat × Cont} (h : p ∈ store objs c y) :
    p = (c, y) ∨ p ∈ objs := by
  rcases mem_insertSorted h with h | h
  · exact Or.inl h
  · exact Or.inr (mem_erase_sub h)

theorem lookup_store (objs : List (Nat × Cont)) (c : Nat) (y : Cont) (e : Nat) :
    lookup (store objs c y) e = if e = c then some y else lookup objs e := by
  simp only [store, lookup_insertSorted]
  by_cases h : e = c
  · simp [h]
  · simp [h, lookup_erase_ne objs h]

/-! ### commit -/

def oldToks (w : World) (c : Nat) : List Tok :=
  match lookup w.objs c with
  | some x => x.toks
  | none => []

def newToks : Option Cont → List Tok
  | some y => y.toks
  | none => []

theorem dedupIds_of_nodup (l : List Tok) (h : (ids l).Nodup) : dedupIds l = l := by
  induction l with
  | nil => rfl
  | cons t ts ih =>
    simp only [ids_cons, List.nodup_cons] at h
    simp only [dedupIds, ih h.2]
    congr 1
    apply List.filter_eq_self.mpr
    intro u hu
    have : u.id ≠ t.id := fun he => h.1 (by rw [← he]; exact List.mem_map_of_mem hu)
    simpa using this

def objsAfter (objs : List (Nat × Cont)) (c : Nat) : Option Cont → List (Nat × Cont)
  | some x => store objs c x
  | none => erase objs c

/-- the conditions under which the filters of `commit` (zero-filled elements, already finalised Box pointees) do nothing -/
theorem commit_eq (w : World) (c : Nat) (isBox : Bool) (cont : Option Cont) (r : Res Unit) (touched : List Nat)
    (h0 : 0 ∉ ids r.retired) (hnd : (ids r.retired).Nodup) (hdis : ∀ i ∈ ids r.retired, i ∉ w.retiredLog) :
    commit w c isBox cont r touched =
      ({ next := w.next + r.issued.length, objs := objsAfter w.objs c cont,
         issuedLog := ids r.issued ++ w.issuedLog, retiredLog := ids r.retired ++ w.retiredLog },
       { out := r.out, issued := r.issued, retired := r.retired, updated := r.updated, touched := touched }) := by
  have hf1 : r.retired.filter (fun t => !w.retiredLog.contains t.id) = r.retired := by
    apply List.filter_eq_self.mpr
    intro t ht
    have := hdis t.id (List.mem_map_of_mem ht)
    simpa using this
  have hret : (if isBox then dedupIds (r.retired.filter (fun t => !w.retiredLog.contains t.id)) else r.retired) = r.retired := by
    cases isBox
    · rfl
    · simp only [if_true, hf1]; exact dedupIds_of_nodup _ hnd
  have hf0 : r.retired.filter (fun t => t.id != 0) = r.retired := by
    apply List.filter_eq_self.mpr
    intro t ht
    have : t.id ≠ 0 := fun he => h0 (by rw [← he]; exact List.mem_map_of_mem ht)
    simpa using this
  simp only [commit, hret, hf0]
  cases cont <;> rfl

theorem commit_inv {w : World} (hinv : Inv w) (c : Nat) (isBox : Bool) (cont : Option Cont) (r : Res Unit)
    (touched : List Nat)
    (hf : FreshFrom w.next r.issued)
    (hc : Conserves (oldToks w c) (newToks cont) r.issued r.retired)
    (hok : ∀ mk kvs, cont = some (.map mk kvs) → (keys kvs).Nodup) :
    Inv (commit w c isBox cont r touched).1 ∧
    (commit w c isBox cont r touched) =
      ({ next := w.next + r.issued.length, objs := objsAfter w.objs c cont,
         issuedLog := ids r.issued ++ w.issuedLog, retiredLog := ids r.retired ++ w.retiredLog },
       { out := r.out, issued := r.issued, retired := r.retired, updated := r.updated, touched := touched }) ∧
    allIds (objsAfter w.objs c cont) ++ ids r.retired ~ allIds w.objs ++ ids r.issued := by
  obtain ⟨hcons, hnodup, hbound, hpos, hmaps⟩ := hinv
  -- the world without container c
  have hA : allIds w.objs ~ ids (oldToks w c) ++ allIds (erase w.objs c) := by
    unfold oldToks allIds
    cases hl : lookup w.objs c with
    | none => simp [erase_of_lookup_none hl]
    | some x => simpa using ids_perm (allToks_erase hl)
  have hB : allIds (objsAfter w.objs c cont) ~ ids (newToks cont) ++ allIds (erase w.objs c) := by
    unfold newToks allIds objsAfter
    cases cont with
    | none => simp
    | some y => simpa using ids_perm (allToks_store w.objs c y)
  -- retiredLog and the contents are disjoint, and nodup
  have hnd2 : (w.retiredLog ++ allIds w.objs).Nodup := hcons.nodup_iff.mp hnodup
  have hold_in : ∀ i ∈ ids (oldToks w c), i ∈ w.issuedLog ∧ i ∉ w.retiredLog := by
    intro i hi
    have hi' : i ∈ allIds w.objs := hA.mem_iff.mpr (List.mem_append_left _ hi)
    refine ⟨hcons.mem_iff.mpr (List.mem_append_right _ hi'), fun hr => ?_⟩
    exact (List.disjoint_of_nodup_append hnd2) hr hi'
  have hret_log : ∀ i ∈ w.retiredLog, i < w.next := fun i hi =>
    (hbound i (hcons.mem_iff.mpr (List.mem_append_left _ hi))).2
  have hret_in : ∀ i ∈ ids r.retired, i ≠ 0 ∧ i ∉ w.retiredLog := by
    intro i hi
    rcases hc.mem_retired hi with h | h
    · obtain ⟨h1, h2⟩ := hold_in i h
      exact ⟨by have := (hbound i h1).1; omega, h2⟩
    · have := (hf.ge i h).1
      exact ⟨by omega, fun hr => by have := hret_log i hr; omega⟩
  have hold_nd : (ids (oldToks w c)).Nodup :=
    (List.nodup_append.mp (hA.nodup_iff.mp (List.nodup_append.mp hnd2).2.1)).1
  have hrhs_nd : (ids (oldToks w c) ++ ids r.issued).Nodup := by
    refine List.nodup_append.mpr ⟨hold_nd, hf.nodup, ?_⟩
    intro a ha b hb hab
    have h1 := (hbound a (hold_in a ha).1).2
    have h2 := (hf.ge b hb).1
    omega
  have hc' : ids (newToks cont) ++ ids r.retired ~ ids (oldToks w c) ++ ids r.issued := by
    simpa [Conserves] using hc
  have hret_nd : (ids r.retired).Nodup := (List.nodup_append.mp (hc'.nodup_iff.mpr hrhs_nd)).2.1
  have heq := commit_eq w c isBox cont r touched (fun h => (hret_in 0 h).1 rfl) hret_nd (fun i hi => (hret_in i hi).2)
  have hstep : allIds (objsAfter w.objs c cont) ++ ids r.retired ~ allIds w.objs ++ ids r.issued := by
    calc allIds (objsAfter w.objs c cont) ++ ids r.retired
        ~ (ids (newToks cont) ++ allIds (erase w.objs c)) ++ ids r.retired := Perm.append_right _ hB
      _ ~ allIds (erase w.objs c) ++ (ids (newToks cont) ++ ids r.retired) := by perm_ac
      _ ~ allIds (erase w.objs c) ++ (ids (oldToks w c) ++ ids r.issued) := Perm.append_left _ hc'
      _ ~ (ids (oldToks w c) ++ allIds (erase w.objs c)) ++ ids r.issued := by perm_ac
      _ ~ allIds w.objs ++ ids r.issued := Perm.append_right _ hA.symm
  refine ⟨?_, heq, hstep⟩
  rw [heq]
  refine ⟨?_, ?_, ?_, by simp only; omega, ?_⟩
  · -- cons
    simp only
    calc ids r.issued ++ w.issuedLog
        ~ ids r.issued ++ (w.retiredLog ++ allIds w.objs) := Perm.append_left _ hcons
      _ ~ w.retiredLog ++ (allIds w.objs ++ ids r.issued) := by perm_ac
      _ ~ w.retiredLog ++ (allIds (objsAfter w.objs c cont) ++ ids r.retired) := Perm.append_left _ hstep.symm
      _ ~ (ids r.retired ++ w.retiredLog) ++ allIds (objsAfter w.objs c cont) := by perm_ac
  · -- nodup
    simp only
    refine List.nodup_append.mpr ⟨hf.nodup, hnodup, ?_⟩
    intro a ha b hb hab
    have h1 := (hf.ge a ha).1
    have h2 := (hbound b hb).2
    omega
  · -- bound
    simp only
    intro i hi
    rcases List.mem_append.mp hi with h | h
    · have := hf.ge i h; omega
    · have := hbound i h; omega
  · -- maps keep distinct keys
    simp only
    intro e mk kvs hmem
    cases cont with
    | none => exact hmaps e mk kvs (mem_erase_sub hmem)
    | some y =>
      rcases mem_store hmem with h | h
      · have hy : y = Cont.map mk kvs := (Prod.mk.inj h).2.symm
        exact hok mk kvs (by rw [hy])
      · exact hmaps e mk kvs h

end Cello.Own
