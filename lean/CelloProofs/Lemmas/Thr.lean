/-
  Helper lemmas for C13 (threads): frame and projection lemmas for `Cello.Thr.step` / `run`.
-/
import Cello.Threads

namespace Cello.Thr

/-! ### the class cache only ever holds declared instances -/

/-- every filled cache word is the declared (non-NULL) instance -/
def CacheOK (cfg : Cfg) (c : Cache) : Prop := ∀ k ∈ c, cfg.scan k = true

theorem cacheOK_nil (cfg : Cfg) : CacheOK cfg [] := by intro k hk; cases hk

theorem cacheLookup_val {cfg : Cfg} {c : Cache} (h : CacheOK cfg c) (k : Nat × Nat) :
    (cacheLookup cfg c k).2 = cfg.scan k := by
  by_cases hc : k ∈ c
  · simp [cacheLookup, hc, h k hc]
  · by_cases hs : cfg.scan k = true <;> simp [cacheLookup, hc, hs]

theorem cacheLookup_ok {cfg : Cfg} {c : Cache} (h : CacheOK cfg c) (k : Nat × Nat) :
    CacheOK cfg (cacheLookup cfg c k).1 := by
  by_cases hc : k ∈ c
  · simpa [cacheLookup, hc] using h
  · by_cases hs : cfg.scan k = true
    · simp only [cacheLookup, List.contains_eq_mem, hc, decide_false, hs, if_true, Bool.false_eq_true, if_false]
      intro k' hk'
      rcases List.mem_cons.mp hk' with rfl | hk'
      · exact hs
      · exact h k' hk'
    · simpa [cacheLookup, hc, hs] using h

/-! ### a local step does not depend on what the cache contains -/

theorem lrun_spec {cfg : Cfg} {c : Cache} (h : CacheOK cfg c) (t : Tid) (fm : List Obj) (op : LOp) (ts : TS)
    (hr : ts.phase = .running) :
    ((lrun cfg t c fm op ts).1, (lrun cfg t c fm op ts).2.2) = lstepSpec cfg t fm op ts ∧ CacheOK cfg (lrun cfg t c fm op ts).2.1 := by
  cases op with
  | lookup ty cls =>
    have hv := cacheLookup_val h (ty, cls)
    have hk := cacheLookup_ok h (ty, cls)
    simp only [lrun, lstepSpec, hr, if_true]
    exact ⟨by rw [hv], hk⟩
  | begin_ => simp [lrun, lstepSpec, lstep, hr, h]
  | end_ =>
    simp only [lrun, lstepSpec, lstep, hr, if_true]
    cases ts.gc with
    | none => exact ⟨rfl, h⟩
    | some g => simp only []; split <;> exact ⟨rfl, h⟩
  | new k root xdtor =>
    simp only [lrun, lstepSpec, lstep, hr, if_true]
    split
    · exact ⟨rfl, h⟩
    · cases ts.gc <;> exact ⟨rfl, h⟩
  | del o =>
    simp only [lrun, lstepSpec, lstep, hr, if_true]
    cases ts.gc with
    | none => exact ⟨rfl, h⟩
    | some g => simp only []; split <;> exact ⟨rfl, h⟩
  | collect st =>
    simp only [lrun, lstepSpec, lstep, hr, if_true]
    cases ts.gc with
    | none => exact ⟨rfl, h⟩
    | some g => simp only []; split <;> exact ⟨rfl, h⟩
  | churn n =>
    simp only [lrun, lstepSpec, lstep, hr, if_true]
    cases ts.gc <;> exact ⟨rfl, h⟩
  | tset key o =>
    simp only [lrun, lstepSpec, lstep, hr, if_true]
    split <;> exact ⟨rfl, h⟩
  | tget key =>
    simp only [lrun, lstepSpec, lstep, hr, if_true]
    cases ts.tls.lookup key <;> exact ⟨rfl, h⟩
  | tmem key => exact ⟨by simp [lrun, lstepSpec, lstep, hr], h⟩
  | trem key =>
    simp only [lrun, lstepSpec, lstep, hr, if_true]
    split <;> exact ⟨rfl, h⟩
  | exn p =>
    simp only [lrun, lstepSpec, lstep, hr, if_true]
    cases ts.exc <;> exact ⟨rfl, h⟩
  | pub v => exact ⟨by simp [lrun, lstepSpec, lstep, hr], h⟩
  | pubo o => exact ⟨by simp [lrun, lstepSpec, lstep, hr], h⟩
  | work a b c => exact ⟨by simp [lrun, lstepSpec, lstep, hr], h⟩
  | perr f e =>
    simp only [lrun, lstepSpec, lstep, hr, if_true]
    cases f <;> simp only [] <;> split <;> exact ⟨rfl, h⟩

theorem lstep_spec {cfg : Cfg} {c : Cache} (h : CacheOK cfg c) (t : Tid) (fm : List Obj) (op : LOp) (ts : TS) :
    ((lstep cfg t c fm op ts).1, (lstep cfg t c fm op ts).2.2) = lstepSpec cfg t fm op ts ∧ CacheOK cfg (lstep cfg t c fm op ts).2.1 := by
  by_cases hr : ts.phase = .running
  · have := lrun_spec h t fm op ts hr
    cases op <;> first
      | (simp only [lstep, hr, if_true] at this ⊢; exact this)
      | (simp [lstep, lstepSpec, hr, h])
  · cases op <;> first
      | (simp [lstep, lstepSpec, hr, h]; done)
      | (simp only [lstep, lstepSpec]; split <;> exact ⟨rfl, h⟩)


/-! ### solo runs -/

/-- thread `u` alone, with the class cache replaced by its specification -/
def soloSpec (cfg : Cfg) (u : Tid) : List Act → TS → TS × List Out
  | [], ts => (ts, [])
  | .op o fm :: as, ts =>
    let r := lstepSpec cfg u fm o ts
    let r2 := soloSpec cfg u as r.1
    (r2.1, r.2 :: r2.2)
  | .born :: as, ts => soloSpec cfg u as (if ts.phase = .unborn ∨ ts.phase = .done then { ts with phase := .ready } else ts)

theorem solo_eq_spec (cfg : Cfg) (u : Tid) (as : List Act) :
    ∀ (c : Cache) (ts : TS), CacheOK cfg c → solo cfg u as c ts = soloSpec cfg u as ts := by
  induction as with
  | nil => intro c ts _; rfl
  | cons a as ih =>
    intro c ts hc
    cases a with
    | born => simp only [solo, soloSpec]; exact ih c _ hc
    | op o fm =>
      have h := lstep_spec hc u fm o ts
      simp only [solo, soloSpec]
      rw [ih _ _ h.2, ← h.1]

/-! ### frame lemmas for one step -/

theorem upd_same {α : Type} (f : Nat → α) (i : Nat) (v : α) : upd f i v i = v := by simp [upd]
theorem upd_other {α : Type} (f : Nat → α) (i j : Nat) (v : α) (h : j ≠ i) : upd f i v j = f j := by simp [upd, h]

/-- a synchronisation event other than `spawn` and `join` touches no thread component and not the class cache -/
theorem step_sync_frame (cfg : Cfg) (g : G) (e : Ev) (h1 : ∀ t op, e ≠ .loc t op) (h2 : ∀ t v, e ≠ .spawn t v)
    (h3 : ∀ t v, e ≠ .join t v) :
    (step cfg g e).1.thr = g.thr ∧ (step cfg g e).1.cache = g.cache := by
  cases e with
  | loc t op => exact absurd rfl (h1 t op)
  | spawn t v => exact absurd rfl (h2 t v)
  | join t u => exact absurd rfl (h3 t u)
  | lock t m => simp only [step]; split; exact ⟨rfl, rfl⟩; split <;> exact ⟨rfl, rfl⟩
  | trylock t m => simp only [step]; split; exact ⟨rfl, rfl⟩; split <;> exact ⟨rfl, rfl⟩
  | unlock t m => simp only [step]; split; exact ⟨rfl, rfl⟩; split <;> exact ⟨rfl, rfl⟩
  | winc t m c => simp only [step]; split; exact ⟨rfl, rfl⟩; split <;> exact ⟨rfl, rfl⟩
  | ld t c => simp only [step]; split <;> exact ⟨rfl, rfl⟩
  | st t c => simp only [step]; split <;> exact ⟨rfl, rfl⟩
  | rd t u => simp only [step]; split <;> exact ⟨rfl, rfl⟩
  | bind t u => simp only [step]; split; exact ⟨rfl, rfl⟩; split <;> exact ⟨rfl, rfl⟩
  | rdo t u =>
    simp only [step]
    split
    · exact ⟨rfl, rfl⟩
    · split
      · exact ⟨rfl, rfl⟩
      · split <;> exact ⟨rfl, rfl⟩
  | arg t u os => simp only [step]; split; exact ⟨rfl, rfl⟩; split <;> exact ⟨rfl, rfl⟩
  | rdarg t i =>
    simp only [step]
    split
    · exact ⟨rfl, rfl⟩
    · split
      · exact ⟨rfl, rfl⟩
      · split <;> exact ⟨rfl, rfl⟩

/-- `join`: either no thread component changes and nothing is raised, or it is a running thread's join of itself:
    `pthread_join` reports EDEADLK, `Thread_Join` raises what the translation says, and the caller's exception record —
    nothing else — takes it -/
theorem step_join (cfg : Cfg) (g : G) (t u : Tid) :
    ((step cfg g (.join t u)).1.thr = g.thr ∧ ∀ x, (step cfg g (.join t u)).2 ≠ .raised x) ∨
    (∃ x, t = u ∧ running g t = true ∧ joinTrOf cfg .edeadlk = some x ∧ (step cfg g (.join t u)).2 = .raised x ∧
      (step cfg g (.join t u)).1.thr = upd g.thr t { g.thr t with exc := caught x (g.thr t).exc }) := by
  simp only [step]
  split
  · left; exact ⟨rfl, by intro x; simp⟩
  · rename_i hrun
    split
    · left; exact ⟨rfl, by intro x; simp⟩
    · split
      · rename_i htu
        split
        · left; exact ⟨rfl, by intro x; simp⟩
        · rename_i x hx
          right
          exact ⟨x, htu, by simpa using hrun, hx, rfl, rfl⟩
      · split
        · left; exact ⟨rfl, by intro x; simp⟩
        · split <;> (left; exact ⟨rfl, by intro x; simp⟩)
        · left; exact ⟨rfl, by intro x; simp⟩

/-- … and nothing but thread components and the joined flags -/
theorem step_join_rest (cfg : Cfg) (g : G) (t u : Tid) :
    (step cfg g (.join t u)).1.cache = g.cache ∧ (step cfg g (.join t u)).1.holder = g.holder ∧
    (step cfg g (.join t u)).1.counter = g.counter ∧ (step cfg g (.join t u)).1.reg = g.reg ∧
    (step cfg g (.join t u)).1.wraps = g.wraps := by
  simp only [step]
  repeat' split
  all_goals exact ⟨rfl, rfl, rfl, rfl, rfl⟩

/-- whatever a `join` does, no other thread's component changes -/
theorem step_join_other (cfg : Cfg) (g : G) (t u v : Tid) (hv : v ≠ t) :
    (step cfg g (.join t u)).1.thr v = g.thr v := by
  rcases step_join cfg g t u with ⟨h, _⟩ | ⟨x, _, _, _, _, h⟩
  · rw [h]
  · rw [h]; simp [upd, hv]

/-- the local operation a raising self-join is: `pthread_join` fails with EDEADLK -/
theorem lstep_perr_join (cfg : Cfg) (t : Tid) (c : Cache) (fm : List Obj) (ts : TS) (hr : ts.phase = .running) (x : Exc)
    (hx : joinTrOf cfg .edeadlk = some x) :
    lstep cfg t c fm (.perr .join .edeadlk) ts = ({ ts with exc := caught x ts.exc }, c, .raised x) := by
  simp [lstep, lrun, hr, hx]

/-- a local operation: the executing thread's component is replaced by the result of `lstep` on that component, the
    thread-local tables of the Thread objects the mark phase reaches (`foreignMarks`) being *read* — unless the sweep
    would free the Thread object of a live thread (`ub`, not executed) -/
theorem step_loc (cfg : Cfg) (g : G) (t : Tid) (op : LOp) :
    step cfg g (.loc t op) =
      if wrapperKilled g t (lstep cfg t g.cache (foreignMarks cfg g t op) op (g.thr t)).1 = true then (g, .ub)
      else
      ({ g with thr := upd g.thr t (lstep cfg t g.cache (foreignMarks cfg g t op) op (g.thr t)).1,
                cache := (lstep cfg t g.cache (foreignMarks cfg g t op) op (g.thr t)).2.1 },
       (lstep cfg t g.cache (foreignMarks cfg g t op) op (g.thr t)).2.2) := by
  simp only [step]

/-- under the isolation hypothesis the mark phase reads no foreign table and the step is executed -/
theorem isolated_loc (cfg : Cfg) (g : G) (t : Tid) (op : LOp) (h : isolatedEv cfg g (.loc t op) = true) :
    foreignMarks cfg g t op = [] ∧ wrapperKilled g t (lstep cfg t g.cache [] op (g.thr t)).1 = false := by
  simp only [isolatedEv, keepsWrappersEv, Bool.and_eq_true, Bool.or_eq_true, Bool.not_eq_true'] at h
  have hfm : foreignMarks cfg g t op = [] := by
    unfold foreignMarks
    rcases h.1 with hf | hq
    · simp [hf]
    · split
      · rw [List.flatMap_eq_nil_iff]
        intro u hu
        have := List.all_eq_true.mp hq u hu
        simp only [quiet, Bool.and_eq_true, List.isEmpty_iff] at this
        simp [this.2]
      · rfl
  refine ⟨hfm, ?_⟩
  have := h.2
  rw [hfm] at this
  exact this

theorem step_loc_isolated (cfg : Cfg) (g : G) (t : Tid) (op : LOp) (h : isolatedEv cfg g (.loc t op) = true) :
    step cfg g (.loc t op) =
      ({ g with thr := upd g.thr t (lstep cfg t g.cache [] op (g.thr t)).1, cache := (lstep cfg t g.cache [] op (g.thr t)).2.1 },
       (lstep cfg t g.cache [] op (g.thr t)).2.2) := by
  obtain ⟨hfm, hk⟩ := isolated_loc cfg g t op h
  rw [step_loc, hfm, hk]
  simp

/-- whatever a local operation does, no other thread's component changes -/
theorem step_loc_other (cfg : Cfg) (g : G) (t : Tid) (op : LOp) (u : Tid) (hu : u ≠ t) :
    (step cfg g (.loc t op)).1.thr u = g.thr u := by
  rw [step_loc]
  split
  · rfl
  · simp [upd, hu]

/-- a step that leaves the registry alone frees no Thread object -/
theorem wrapperKilled_gc (g : G) (t : Tid) (ts' : TS) (h : ts'.gc = (g.thr t).gc) : wrapperKilled g t ts' = false := by
  unfold wrapperKilled
  rw [List.any_eq_false]
  intro uw _
  have : registered ts' uw.2 = registered (g.thr t) uw.2 := by simp [registered, h]
  rw [this]
  cases registered (g.thr t) uw.2 <;> simp

/-- `spawn` changes at most the phase of its target — from `unborn`, or from `done` (a joined Thread object called
    again), to `ready` — and only then reports `spawned` -/
theorem step_spawn (cfg : Cfg) (g : G) (t v : Tid) :
    ((step cfg g (.spawn t v)).2 = .spawned ∧ ((g.thr v).phase = .unborn ∨ (g.thr v).phase = .done) ∧
       (step cfg g (.spawn t v)).1.thr = upd g.thr v { g.thr v with phase := .ready }) ∨
    ((step cfg g (.spawn t v)).2 ≠ .spawned ∧ (step cfg g (.spawn t v)).1 = g) := by
  simp only [step]
  split
  · right; exact ⟨by simp, rfl⟩
  · split
    · right; exact ⟨by simp, rfl⟩
    · split
      · left; rename_i h; exact ⟨rfl, Or.inl h, rfl⟩
      · split
        · left; rename_i h; exact ⟨rfl, Or.inr h.1, rfl⟩
        · right; exact ⟨by simp, rfl⟩

/-- … and nothing but thread components and the joined flags -/
theorem step_spawn_rest (cfg : Cfg) (g : G) (t v : Tid) :
    (step cfg g (.spawn t v)).1.cache = g.cache ∧ (step cfg g (.spawn t v)).1.holder = g.holder ∧
    (step cfg g (.spawn t v)).1.counter = g.counter ∧ (step cfg g (.spawn t v)).1.reg = g.reg ∧
    (step cfg g (.spawn t v)).1.wraps = g.wraps := by
  simp only [step]
  split
  · exact ⟨rfl, rfl, rfl, rfl, rfl⟩
  · split
    · exact ⟨rfl, rfl, rfl, rfl, rfl⟩
    · split
      · exact ⟨rfl, rfl, rfl, rfl, rfl⟩
      · split <;> exact ⟨rfl, rfl, rfl, rfl, rfl⟩

/-! ### the projection lemma -/

theorem run_cons (cfg : Cfg) (e : Ev) (s : List Ev) (g : G) :
    run cfg (e :: s) g =
      ((run cfg s (step cfg g e).1).1, (e, (step cfg g e).2) :: (run cfg s (step cfg g e).1).2) := by
  simp [run]

theorem run_nil (cfg : Cfg) (g : G) : run cfg [] g = (g, []) := rfl

/-- events that are neither local operations nor `spawn` nor `join` are invisible to `proj` and `localOuts` -/
theorem proj_sync (u : Tid) (e : Ev) (o : Out) (tr : List (Ev × Out))
    (h1 : ∀ t op, e ≠ .loc t op) (h2 : ∀ t v, e ≠ .spawn t v) (h3 : ∀ t v, e ≠ .join t v) :
    proj u ((e, o) :: tr) = proj u tr ∧ localOuts u ((e, o) :: tr) = localOuts u tr := by
  cases e with
  | loc t op => exact absurd rfl (h1 t op)
  | spawn t v => exact absurd rfl (h2 t v)
  | join t v => exact absurd rfl (h3 t v)
  | _ => exact ⟨rfl, rfl⟩

/-- a `join` that raised nothing is invisible to `proj` and `localOuts` -/
theorem proj_join_nr (u t v : Tid) (o : Out) (tr : List (Ev × Out)) (h : ∀ x, o ≠ .raised x) :
    proj u ((.join t v, o) :: tr) = proj u tr ∧ localOuts u ((.join t v, o) :: tr) = localOuts u tr := by
  cases o <;> first | exact ⟨rfl, rfl⟩ | exact absurd rfl (h _)

theorem isolated_cons (cfg : Cfg) (e : Ev) (s : List Ev) (g : G) (h : Isolated cfg (e :: s) g = true) :
    isolatedEv cfg g e = true ∧ Isolated cfg s (step cfg g e).1 = true := by
  simpa [Isolated] using h

/-- a synchronisation step (neither local nor `spawn`) inside `run_proj` -/
theorem run_proj_sync (cfg : Cfg) (u : Tid) (e : Ev) (s : List Ev) (g : G)
    (h1 : ∀ t op, e ≠ .loc t op) (h2 : ∀ t v, e ≠ .spawn t v) (h3 : ∀ t v, e ≠ .join t v)
    (ih : (run cfg s (step cfg g e).1).1.thr u = (soloSpec cfg u (proj u (run cfg s (step cfg g e).1).2) ((step cfg g e).1.thr u)).1 ∧
          localOuts u (run cfg s (step cfg g e).1).2 = (soloSpec cfg u (proj u (run cfg s (step cfg g e).1).2) ((step cfg g e).1.thr u)).2 ∧
          CacheOK cfg (run cfg s (step cfg g e).1).1.cache) :
    (run cfg s (step cfg g e).1).1.thr u =
        (soloSpec cfg u (proj u ((e, (step cfg g e).2) :: (run cfg s (step cfg g e).1).2)) (g.thr u)).1 ∧
    localOuts u ((e, (step cfg g e).2) :: (run cfg s (step cfg g e).1).2) =
        (soloSpec cfg u (proj u ((e, (step cfg g e).2) :: (run cfg s (step cfg g e).1).2)) (g.thr u)).2 ∧
    CacheOK cfg (run cfg s (step cfg g e).1).1.cache := by
  have hf := step_sync_frame cfg g e h1 h2 h3
  have hp := proj_sync u e (step cfg g e).2 (run cfg s (step cfg g e).1).2 h1 h2 h3
  rw [hp.1, hp.2]
  rw [hf.1] at ih
  exact ih

/-- **projection**: in a schedule that keeps the threads isolated (`Isolated`), thread `u`'s final component and the
    outcomes of its local operations are those of `u` alone on its projection -/
theorem run_proj (cfg : Cfg) (u : Tid) (s : List Ev) : ∀ g : G, CacheOK cfg g.cache → Isolated cfg s g = true →
    (run cfg s g).1.thr u = (soloSpec cfg u (proj u (run cfg s g).2) (g.thr u)).1 ∧
    localOuts u (run cfg s g).2 = (soloSpec cfg u (proj u (run cfg s g).2) (g.thr u)).2 ∧
    CacheOK cfg (run cfg s g).1.cache := by
  induction s with
  | nil => intro g hc _; exact ⟨rfl, rfl, hc⟩
  | cons e s ih =>
    intro g hc hiso
    obtain ⟨hie, hiso'⟩ := isolated_cons cfg e s g hiso
    rw [run_cons]
    have sync : (∀ t op, e ≠ .loc t op) → (∀ t v, e ≠ .spawn t v) → (∀ t v, e ≠ .join t v) → _ := fun h1 h2 h3 =>
      run_proj_sync cfg u e s g h1 h2 h3
        (ih (step cfg g e).1 (by rw [(step_sync_frame cfg g e h1 h2 h3).2]; exact hc) hiso')
    cases e with
    | loc t op =>
      have hs := lstep_spec hc t [] op (g.thr t)
      have hstep := step_loc_isolated cfg g t op hie
      rw [hstep] at hiso' ⊢
      have ih' := ih { g with thr := upd g.thr t (lstep cfg t g.cache [] op (g.thr t)).1,
                              cache := (lstep cfg t g.cache [] op (g.thr t)).2.1 } hs.2 hiso'
      by_cases htu : t = u
      · subst htu
        simp only [upd_same] at ih'
        have h1 : (lstep cfg t g.cache [] op (g.thr t)).1 = (lstepSpec cfg t [] op (g.thr t)).1 := by rw [← hs.1]
        have h2 : (lstep cfg t g.cache [] op (g.thr t)).2.2 = (lstepSpec cfg t [] op (g.thr t)).2 := by rw [← hs.1]
        simp only [proj, localOuts, if_true, soloSpec]
        rw [← h1, ← h2]
        exact ⟨ih'.1, by rw [ih'.2.1], ih'.2.2⟩
      · have hut : u ≠ t := fun h => htu h.symm
        simp only [upd_other _ _ _ _ hut] at ih'
        simp only [proj, localOuts, htu, if_false]
        exact ih'
    | spawn t v =>
      have hrest := step_spawn_rest cfg g t v
      have ih' := ih (step cfg g (.spawn t v)).1 (by rw [hrest.1]; exact hc) hiso'
      rcases step_spawn cfg g t v with ⟨ho, hph, hthr⟩ | ⟨ho, hg⟩
      · rw [hthr] at ih'
        rw [ho]
        by_cases hvu : v = u
        · subst hvu
          simp only [upd_same] at ih'
          simp only [proj, localOuts, if_true, soloSpec]
          rw [if_pos hph]
          exact ih'
        · have huv : u ≠ v := fun h => hvu h.symm
          simp only [upd_other _ _ _ _ huv] at ih'
          simp only [proj, localOuts, hvu, if_false]
          exact ih'
      · rw [hg] at ih' ⊢
        have hp : proj u ((Ev.spawn t v, (step cfg g (.spawn t v)).2) :: (run cfg s g).2) = proj u (run cfg s g).2 := by
          generalize (step cfg g (.spawn t v)).2 = o at ho
          cases o <;> first | rfl | exact absurd rfl ho
        rw [hp]
        exact ih'
    | join t w =>
      have ih' := ih (step cfg g (.join t w)).1 (by rw [(step_join_rest cfg g t w).1]; exact hc) hiso'
      rcases step_join cfg g t w with ⟨hthr, hnr⟩ | ⟨x, htw, hrun, hx, hout, hthr⟩
      · have hp := proj_join_nr u t w (step cfg g (.join t w)).2 (run cfg s (step cfg g (.join t w)).1).2 hnr
        rw [hp.1, hp.2]
        rw [hthr] at ih'
        exact ih'
      · subst htw
        rw [hthr] at ih'
        rw [hout]
        by_cases htu : t = u
        · subst htu
          simp only [upd_same] at ih'
          have hph : (g.thr t).phase = .running := by simpa [running] using hrun
          have hl : lstepSpec cfg t [] (.perr .join .edeadlk) (g.thr t) =
              ({ g.thr t with exc := caught x (g.thr t).exc }, .raised x) := by
            simp only [lstepSpec, lstep_perr_join cfg t [] [] (g.thr t) hph x hx]
          simp only [proj, localOuts, and_self, if_true, soloSpec, hl]
          exact ⟨ih'.1, by rw [ih'.2.1], ih'.2.2⟩
        · have hut : u ≠ t := fun h => htu h.symm
          simp only [upd_other _ _ _ _ hut] at ih'
          simp only [proj, localOuts, htu, and_false, if_false]
          exact ih'
    | lock t m => exact sync (by intros; simp) (by intros; simp) (by intros; simp)
    | trylock t m => exact sync (by intros; simp) (by intros; simp) (by intros; simp)
    | unlock t m => exact sync (by intros; simp) (by intros; simp) (by intros; simp)
    | winc t m c => exact sync (by intros; simp) (by intros; simp) (by intros; simp)
    | ld t c => exact sync (by intros; simp) (by intros; simp) (by intros; simp)
    | st t c => exact sync (by intros; simp) (by intros; simp) (by intros; simp)
    | rd t w => exact sync (by intros; simp) (by intros; simp) (by intros; simp)
    | bind t w => exact sync (by intros; simp) (by intros; simp) (by intros; simp)
    | rdo t w => exact sync (by intros; simp) (by intros; simp) (by intros; simp)
    | arg t w os => exact sync (by intros; simp) (by intros; simp) (by intros; simp)
    | rdarg t i => exact sync (by intros; simp) (by intros; simp) (by intros; simp)


theorem run_append (cfg : Cfg) (s1 s2 : List Ev) : ∀ g : G,
    run cfg (s1 ++ s2) g = ((run cfg s2 (run cfg s1 g).1).1, (run cfg s1 g).2 ++ (run cfg s2 (run cfg s1 g).1).2) := by
  induction s1 with
  | nil => intro g; simp [run_nil]
  | cons e s1 ih => intro g; simp only [List.cons_append, run_cons, ih]

/-! ### the Mutex machine: the holder is the unique thread inside -/

/-- 1 when `h` is thread `t`, else 0 -/
def ind (h : Option Tid) (t : Tid) : Int := if h = some t then 1 else 0

theorem inside_cons (t : Tid) (m : Nat) (x : Ev × Out) (tr : List (Ev × Out)) :
    inside t m (x :: tr) = inside t m [x] + inside t m tr := by
  rcases x with ⟨e, o⟩
  cases e <;> cases o <;> first
    | (simp [inside]; done)
    | (rename_i b; cases b <;> simp [inside]; done)

theorem step_inside (cfg : Cfg) (g : G) (e : Ev) (t : Tid) (m : Nat) :
    ind (g.holder m) t + inside t m [(e, (step cfg g e).2)] = ind ((step cfg g e).1.holder m) t := by
  cases e with
  | loc t' op => rw [step_loc]; split <;> simp [inside]
  | spawn t' v => simp only [step]; repeat' split
                  all_goals simp [inside]
  | join t' u => simp only [step]; repeat' split
                 all_goals simp [inside]
  | rd t' u => simp only [step]; split <;> simp [inside]
  | ld t' c => simp only [step]; split <;> simp [inside]
  | st t' c => simp only [step]; split <;> simp [inside]
  | bind t' u => simp only [step]; repeat' split
                 all_goals simp [inside]
  | rdo t' u => simp only [step]; repeat' split
                all_goals simp [inside]
  | arg t' u os => simp only [step]; repeat' split
                   all_goals simp [inside]
  | rdarg t' i => simp only [step]; repeat' split
                  all_goals simp [inside]
  | winc t' m' c =>
    simp only [step]
    split
    · simp [inside]
    · split <;> simp [inside]
  | lock t' m' =>
    simp only [step]
    split
    · simp [inside]
    · split
      · rename_i hh
        by_cases hm : m = m'
        · subst hm; simp [inside, ind, upd, hh, eq_comm]
        · have : ¬ m' = m := fun h => hm h.symm
          simp [inside, ind, upd, hm, this]
      · simp [inside]
  | trylock t' m' =>
    simp only [step]
    split
    · simp [inside]
    · split
      · rename_i hh
        by_cases hm : m = m'
        · subst hm; simp [inside, ind, upd, hh, eq_comm]
        · have : ¬ m' = m := fun h => hm h.symm
          simp [inside, ind, upd, hm, this]
      · simp [inside]
  | unlock t' m' =>
    simp only [step]
    split
    · simp [inside]
    · split
      · rename_i hh
        by_cases hm : m = m'
        · subst hm
          by_cases ht : t' = t
          · subst ht; simp [inside, ind, upd, hh]
          · simp [inside, ind, upd, hh, ht]
        · have : ¬ m' = m := fun h => hm h.symm
          simp [inside, ind, upd, hm, this]
      · simp [inside]

theorem run_inside (cfg : Cfg) (t : Tid) (m : Nat) (s : List Ev) : ∀ g : G,
    ind (g.holder m) t + inside t m (run cfg s g).2 = ind ((run cfg s g).1.holder m) t := by
  induction s with
  | nil => intro g; simp [run_nil, inside]
  | cons e s ih =>
    intro g
    rw [run_cons]
    simp only []
    rw [inside_cons, ← ih (step cfg g e).1, ← step_inside cfg g e t m]
    omega


theorem run_inside_init (cfg : Cfg) (t : Tid) (m : Nat) (s : List Ev) :
    inside t m (run cfg s G.init).2 = if (run cfg s G.init).1.holder m = some t then 1 else 0 := by
  have h := run_inside cfg t m s G.init
  have h0 : ind (G.init.holder m) t = 0 := by simp [ind, G.init]
  rw [h0] at h
  simpa [ind] using h

/-! ### a finished thread takes no more steps -/

theorem lstep_not_running (cfg : Cfg) (t : Tid) (c : Cache) (fm : List Obj) (op : LOp) (ts : TS) (h1 : ts.phase ≠ .running)
    (h2 : ts.phase ≠ .ready) : lstep cfg t c fm op ts = (ts, c, .dead) := by
  cases op <;> simp [lstep, h1, h2]

theorem step_done (cfg : Cfg) (g : G) (e : Ev) (u : Tid) (hd : (g.thr u).phase = .done)
    (hns : ∀ t', e ≠ .spawn t' u) :
    (step cfg g e).1.thr u = g.thr u ∧ (e.tid = u → (step cfg g e).2 = .dead) := by
  have hnr : running g u = false := by simp [running, hd]
  have sync : ∀ e : Ev, (∀ t op, e ≠ .loc t op) → (∀ t v, e ≠ .spawn t v) → (∀ t v, e ≠ .join t v) →
      (step cfg g e).1.thr u = g.thr u :=
    fun e h1 h2 h3 => by rw [(step_sync_frame cfg g e h1 h2 h3).1]
  cases e with
  | loc t op =>
    by_cases htu : t = u
    · subst htu
      rw [step_loc, lstep_not_running cfg t g.cache _ op (g.thr t) (by simp [hd]) (by simp [hd])]
      rw [wrapperKilled_gc g t (g.thr t) rfl]
      simp [upd_same]
    · have : u ≠ t := fun h => htu h.symm
      exact ⟨step_loc_other cfg g t op u this, by simp [Ev.tid, htu]⟩
  | spawn t v =>
    have hvu : v ≠ u := fun h => hns t (by rw [h])
    rcases step_spawn cfg g t v with ⟨_, _, hthr⟩ | ⟨_, hg⟩
    · have huv : u ≠ v := fun h => hvu h.symm
      refine ⟨(by rw [hthr]; simp [upd_other _ _ _ _ huv]), ?_⟩
      intro ht; simp only [Ev.tid] at ht; subst ht; simp [step, hnr]
    · refine ⟨(by rw [hg]), ?_⟩
      intro ht; simp only [Ev.tid] at ht; subst ht; simp [step, hnr]
  | join t w =>
    have hdead : t = u → (step cfg g (.join t w)).2 = .dead := by
      intro ht; subst ht; simp [step, hnr]
    refine ⟨?_, fun ht => hdead (by simpa [Ev.tid] using ht)⟩
    by_cases htu : t = u
    · rcases step_join cfg g t w with ⟨h, _⟩ | ⟨x, _, _, _, hout, _⟩
      · rw [h]
      · rw [hdead htu] at hout; cases hout
    · exact step_join_other cfg g t w u (fun h => htu h.symm)
  | lock t m =>
    refine ⟨sync _ (by intros; simp) (by intros; simp) (by intros; simp), ?_⟩
    intro ht; simp only [Ev.tid] at ht; subst ht; simp [step, hnr]
  | trylock t m =>
    refine ⟨sync _ (by intros; simp) (by intros; simp) (by intros; simp), ?_⟩
    intro ht; simp only [Ev.tid] at ht; subst ht; simp [step, hnr]
  | unlock t m =>
    refine ⟨sync _ (by intros; simp) (by intros; simp) (by intros; simp), ?_⟩
    intro ht; simp only [Ev.tid] at ht; subst ht; simp [step, hnr]
  | winc t m c =>
    refine ⟨sync _ (by intros; simp) (by intros; simp) (by intros; simp), ?_⟩
    intro ht; simp only [Ev.tid] at ht; subst ht; simp [step, hnr]
  | ld t c =>
    refine ⟨sync _ (by intros; simp) (by intros; simp) (by intros; simp), ?_⟩
    intro ht; simp only [Ev.tid] at ht; subst ht; simp [step, hnr]
  | st t c =>
    refine ⟨sync _ (by intros; simp) (by intros; simp) (by intros; simp), ?_⟩
    intro ht; simp only [Ev.tid] at ht; subst ht; simp [step, hnr]
  | rd t w =>
    refine ⟨sync _ (by intros; simp) (by intros; simp) (by intros; simp), ?_⟩
    intro ht; simp only [Ev.tid] at ht; subst ht; simp [step, hnr]
  | bind t w =>
    refine ⟨sync _ (by intros; simp) (by intros; simp) (by intros; simp), ?_⟩
    intro ht; simp only [Ev.tid] at ht; subst ht; simp [step, hnr]
  | rdo t w =>
    refine ⟨sync _ (by intros; simp) (by intros; simp) (by intros; simp), ?_⟩
    intro ht; simp only [Ev.tid] at ht; subst ht; simp [step, hnr]
  | arg t w os =>
    refine ⟨sync _ (by intros; simp) (by intros; simp) (by intros; simp), ?_⟩
    intro ht; simp only [Ev.tid] at ht; subst ht; simp [step, hnr]
  | rdarg t i =>
    refine ⟨sync _ (by intros; simp) (by intros; simp) (by intros; simp), ?_⟩
    intro ht; simp only [Ev.tid] at ht; subst ht; simp [step, hnr]

theorem run_done (cfg : Cfg) (u : Tid) (s : List Ev) (hns : ∀ e ∈ s, ∀ t', e ≠ .spawn t' u) : ∀ g : G,
    (g.thr u).phase = .done →
    (run cfg s g).1.thr u = g.thr u ∧ ∀ eo ∈ (run cfg s g).2, eo.1.tid = u → eo.2 = .dead := by
  induction s with
  | nil => intro g _; exact ⟨rfl, (by intro eo h; cases h)⟩
  | cons e s ih =>
    intro g hd
    have hs := step_done cfg g e u hd (hns e (by simp))
    have ih' := ih (fun e' he' => hns e' (by simp [he'])) (step cfg g e).1 (by rw [hs.1]; exact hd)
    rw [run_cons]
    refine ⟨by rw [ih'.1, hs.1], ?_⟩
    intro eo hmem
    rcases List.mem_cons.mp hmem with rfl | hmem
    · exact hs.2
    · exact ih'.2 eo hmem

/-- `join` reports `joined` only for a thread whose `Thread_Init_Run` has returned; it touches no thread component -/
theorem step_join_joined (cfg : Cfg) (g : G) (t u : Tid) (h : (step cfg g (.join t u)).2 = .joined) :
    (g.thr u).phase = .done ∧ (step cfg g (.join t u)).1.thr = g.thr := by
  refine ⟨?_, ?_⟩
  · simp only [step] at h
    split at h
    · cases h
    · split at h
      · cases h
      · split at h
        · split at h <;> cases h
        · split at h
          · cases h
          · rename_i hd; split at h
            · cases h
            · exact hd
          · cases h
  · rcases step_join cfg g t u with ⟨hthr, _⟩ | ⟨x, _, _, _, hout, _⟩
    · exact hthr
    · rw [h] at hout; cases hout

/-! ### a collector only ever holds, and finalises, objects of its own thread -/

/-- every entry of the thread's registry and every entry of its ledger was allocated by the thread itself -/
def Own (t : Tid) (ts : TS) : Prop :=
  (∀ g, ts.gc = some g → ∀ e ∈ g.reg, e.1.owner = t) ∧ (∀ o ∈ ts.fin, o.owner = t)

theorem GC.set_mem (g : GC) (o : Obj) (r : Bool) : ∀ e ∈ (g.set o r).reg, e ∈ g.reg ∨ e.1 = o := by
  intro e he
  unfold GC.set at he
  split at he
  · exact Or.inl he
  · simp only [List.mem_append, List.mem_singleton] at he
    rcases he with he | rfl
    · exact Or.inl he
    · exact Or.inr rfl

theorem GC.setAll_mem (os : List Obj) : ∀ (g : GC), ∀ e ∈ (g.setAll os).reg, e ∈ g.reg ∨ e.1 ∈ os := by
  induction os with
  | nil => intro g e he; exact Or.inl he
  | cons o os ih =>
    intro g e he
    simp only [GC.setAll, List.foldl_cons] at he
    rcases ih (g.set o false) e he with h | h
    · rcases GC.set_mem g o false e h with h | h
      · exact Or.inl h
      · exact Or.inr (by simp [h])
    · exact Or.inr (by simp [h])

theorem GC.rem_sub (g : GC) (o : Obj) :
    (∀ e ∈ (g.rem o).1.reg, e ∈ g.reg) ∧ (∀ x ∈ (g.rem o).2, ∃ e ∈ g.reg, e.1 = x) := by
  unfold GC.rem
  split
  · rename_i h
    refine ⟨fun e he => (List.mem_filter.mp he).1, ?_⟩
    intro x hx
    simp only [List.mem_singleton] at hx
    subst hx
    obtain ⟨e, he, hp⟩ := List.any_eq_true.mp h
    exact ⟨e, he, by simpa using hp⟩
  · exact ⟨fun e he => he, fun x hx => by cases hx⟩

theorem GC.sweep_sub (g : GC) (marked : List Obj) :
    (∀ e ∈ (g.sweep marked).1.reg, e ∈ g.reg) ∧
    (∀ x ∈ (g.sweep marked).2, ∃ e ∈ g.reg, e.1 = x ∧ e.2 = false ∧ x ∉ marked) := by
  unfold GC.sweep
  refine ⟨fun e he => (List.mem_filter.mp he).1, ?_⟩
  intro x hx
  simp only [List.mem_map, List.mem_filter] at hx
  obtain ⟨e, ⟨he, hp⟩, rfl⟩ := hx
  refine ⟨e, he, rfl, ?_, ?_⟩ <;> simp at hp <;> simp [hp]

theorem garbage_owner (t : Tid) (a n : Nat) : ∀ o ∈ garbage t a n, o.owner = t := by
  intro o ho
  simp only [garbage, List.mem_map] at ho
  obtain ⟨i, _, rfl⟩ := ho
  rfl

theorem lrun_own (cfg : Cfg) (t : Tid) (c : Cache) (fm : List Obj) (op : LOp) (ts : TS) (h : Own t ts) :
    Own t (lrun cfg t c fm op ts).1 := by
  obtain ⟨hr, hf⟩ := h
  cases op with
  | begin_ => exact ⟨hr, hf⟩
  | end_ =>
    simp only [lrun]
    cases hg : ts.gc with
    | none => exact ⟨(by intro g h; cases h), hf⟩
    | some g =>
      have hfin : ∀ o ∈ ts.fin ++ (g.sweep []).2, o.owner = t := by
        intro o ho
        simp only [List.mem_append] at ho
        rcases ho with ho | ho
        · exact hf o ho
        · obtain ⟨e, he, rfl, _⟩ := (GC.sweep_sub g []).2 o ho
          exact hr g hg e he
      simp only []
      split <;> exact ⟨(by intro g' h; cases h), hfin⟩
  | new k root xdtor =>
    simp only [lrun]
    split
    · exact ⟨hr, hf⟩
    · cases hg : ts.gc with
      | none => exact ⟨hr, hf⟩
      | some g =>
        refine ⟨?_, hf⟩
        intro g' h e he
        simp only [Option.some.injEq] at h
        subst h
        rcases GC.set_mem g ⟨t, k⟩ root e he with h | h
        · exact hr g hg e h
        · rw [h]
  | del o =>
    simp only [lrun]
    cases hg : ts.gc with
    | none => exact ⟨hr, hf⟩
    | some g =>
      have h1 : ∀ g', some (g.rem o).1 = some g' → ∀ e ∈ g'.reg, e.1.owner = t := by
        intro g' h e he
        simp only [Option.some.injEq] at h
        subst h
        exact hr g hg e ((GC.rem_sub g o).1 e he)
      have h2 : ∀ x ∈ ts.fin ++ (g.rem o).2, x.owner = t := by
        intro x hx
        simp only [List.mem_append] at hx
        rcases hx with hx | hx
        · exact hf x hx
        · obtain ⟨e, he, rfl⟩ := (GC.rem_sub g o).2 x hx
          exact hr g hg e he
      simp only []
      split <;> exact ⟨h1, h2⟩
  | collect st =>
    simp only [lrun]
    cases hg : ts.gc with
    | none => exact ⟨hr, hf⟩
    | some g =>
      have h1 : ∀ g', some (g.sweep (ts.tls.map (·.2) ++ st.map (fun k => (⟨t, k⟩ : Obj)) ++ fm)).1 = some g' →
          ∀ e ∈ g'.reg, e.1.owner = t := by
        intro g' h e he
        simp only [Option.some.injEq] at h
        subst h
        exact hr g hg e ((GC.sweep_sub g _).1 e he)
      have h2 : ∀ x ∈ ts.fin ++ (g.sweep (ts.tls.map (·.2) ++ st.map (fun k => (⟨t, k⟩ : Obj)) ++ fm)).2, x.owner = t := by
        intro x hx
        simp only [List.mem_append] at hx
        rcases hx with hx | hx
        · exact hf x hx
        · obtain ⟨e, he, rfl, _⟩ := (GC.sweep_sub g _).2 x hx
          exact hr g hg e he
      simp only []
      split <;> exact ⟨h1, h2⟩
  | churn n =>
    simp only [lrun]
    cases hg : ts.gc with
    | none => exact ⟨hr, hf⟩
    | some g =>
      refine ⟨?_, hf⟩
      intro g' h e he
      simp only [Option.some.injEq] at h
      subst h
      rcases GC.setAll_mem _ g e he with h | h
      · exact hr g hg e h
      · exact garbage_owner t _ _ _ h
  | tset key o => simp only [lrun]; split <;> exact ⟨hr, hf⟩
  | tget key => simp only [lrun]; split <;> exact ⟨hr, hf⟩
  | tmem key => exact ⟨hr, hf⟩
  | trem key => simp only [lrun]; split <;> exact ⟨hr, hf⟩
  | exn p => simp only [lrun]; split <;> exact ⟨hr, hf⟩
  | lookup ty cls => exact ⟨hr, hf⟩
  | pub v => exact ⟨hr, hf⟩
  | pubo o => exact ⟨hr, hf⟩
  | work a b c => exact ⟨hr, hf⟩
  | perr f e => simp only [lrun]; cases f <;> simp only [] <;> split <;> exact ⟨hr, hf⟩

theorem lstep_own (cfg : Cfg) (t : Tid) (c : Cache) (fm : List Obj) (op : LOp) (ts : TS) (h : Own t ts) :
    Own t (lstep cfg t c fm op ts).1 := by
  have hl := lrun_own cfg t c fm op ts h
  cases op <;> first
    | (simp only [lstep]; split
       · first | exact hl | (refine ⟨?_, h.2⟩; intro g hg e he; simp only [Option.some.injEq] at hg; subst hg; cases he)
       · exact h)

theorem step_own (cfg : Cfg) (g : G) (e : Ev) (h : ∀ t, Own t (g.thr t)) : ∀ t, Own t ((step cfg g e).1.thr t) := by
  intro u
  have sync : ∀ e : Ev, (∀ t op, e ≠ .loc t op) → (∀ t v, e ≠ .spawn t v) → (∀ t v, e ≠ .join t v) →
      Own u ((step cfg g e).1.thr u) :=
    fun e h1 h2 h3 => by rw [(step_sync_frame cfg g e h1 h2 h3).1]; exact h u
  cases e with
  | loc t op =>
    rw [step_loc]
    split
    · exact h u
    · by_cases hut : u = t
      · subst hut; simp only [upd_same]; exact lstep_own cfg u g.cache _ op (g.thr u) (h u)
      · simp only [upd_other _ _ _ _ hut]; exact h u
  | spawn t v =>
    rcases step_spawn cfg g t v with ⟨_, _, hthr⟩ | ⟨_, hg⟩
    · rw [hthr]
      by_cases huv : u = v
      · subst huv; simp only [upd_same]; exact h u
      · simp only [upd_other _ _ _ _ huv]; exact h u
    · rw [hg]; exact h u
  | join t w =>
    rcases step_join cfg g t w with ⟨hthr, _⟩ | ⟨x, _, _, _, _, hthr⟩
    · rw [hthr]; exact h u
    · rw [hthr]
      by_cases hut : u = t
      · subst hut; simp only [upd_same]; exact h u
      · simp only [upd_other _ _ _ _ hut]; exact h u
  | lock t m => exact sync _ (by intros; simp) (by intros; simp) (by intros; simp)
  | trylock t m => exact sync _ (by intros; simp) (by intros; simp) (by intros; simp)
  | unlock t m => exact sync _ (by intros; simp) (by intros; simp) (by intros; simp)
  | winc t m c => exact sync _ (by intros; simp) (by intros; simp) (by intros; simp)
  | ld t c => exact sync _ (by intros; simp) (by intros; simp) (by intros; simp)
  | st t c => exact sync _ (by intros; simp) (by intros; simp) (by intros; simp)
  | rd t w => exact sync _ (by intros; simp) (by intros; simp) (by intros; simp)
  | bind t w => exact sync _ (by intros; simp) (by intros; simp) (by intros; simp)
  | rdo t w => exact sync _ (by intros; simp) (by intros; simp) (by intros; simp)
  | arg t w os => exact sync _ (by intros; simp) (by intros; simp) (by intros; simp)
  | rdarg t i => exact sync _ (by intros; simp) (by intros; simp) (by intros; simp)

theorem run_own (cfg : Cfg) (s : List Ev) : ∀ g : G, (∀ t, Own t (g.thr t)) → ∀ t, Own t ((run cfg s g).1.thr t) := by
  induction s with
  | nil => intro g h; exact h
  | cons e s ih => intro g h; rw [run_cons]; exact ih _ (step_own cfg g e h)

theorem own_init : ∀ t, Own t (G.init.thr t) := by
  intro t
  simp only [G.init]
  split
  · exact ⟨(by intro g hg e he; simp [TS.main] at hg; subst hg; cases he), (by intro o ho; cases ho)⟩
  · exact ⟨(by intro g hg; simp [TS.unborn] at hg), (by intro o ho; cases ho)⟩


/-- once thread `u` has finished, whoever reads its published cell reads the same (final) value -/
theorem run_rd_frozen (cfg : Cfg) (u : Tid) (s : List Ev) (hns : ∀ e ∈ s, ∀ t', e ≠ .spawn t' u) : ∀ g : G,
    (g.thr u).phase = .done →
    ∀ eo ∈ (run cfg s g).2, ∀ r, eo.1 = .rd r u → eo.2 = .num (g.thr u).pub ∨ eo.2 = .dead := by
  induction s with
  | nil => intro g _ eo h; cases h
  | cons e s ih =>
    intro g hd eo hmem r he
    have hs := step_done cfg g e u hd (hns e (by simp))
    rw [run_cons] at hmem
    rcases List.mem_cons.mp hmem with rfl | hmem
    · simp only at he
      subst he
      simp only [step]
      split
      · exact Or.inr rfl
      · exact Or.inl rfl
    · have := ih (fun e' he' => hns e' (by simp [he'])) (step cfg g e).1 (by rw [hs.1]; exact hd) eo hmem r he
      rw [hs.1] at this
      exact this


/-- once thread `u` has finished, whoever dereferences the pointer it published finds the same thing: the object is
    live iff `u`'s collector (teardown included) has not finalised it — for an object `u` allocated itself -/
theorem run_rdo_frozen (cfg : Cfg) (u : Tid) (s : List Ev) (hns : ∀ e ∈ s, ∀ t', e ≠ .spawn t' u) : ∀ g : G,
    (g.thr u).phase = .done → ∀ o, (g.thr u).pubo = some o → o.owner = u →
    ∀ eo ∈ (run cfg s g).2, ∀ r, eo.1 = .rdo r u →
      eo.2 = (if (g.thr u).fin.contains o then .dangling o else .val o) ∨ eo.2 = .dead := by
  induction s with
  | nil => intro g _ o _ _ eo h; cases h
  | cons e s ih =>
    intro g hd o hp ho eo hmem r he
    have hs := step_done cfg g e u hd (hns e (by simp))
    rw [run_cons] at hmem
    rcases List.mem_cons.mp hmem with rfl | hmem
    · simp only at he
      subst he
      simp only [step]
      split
      · exact Or.inr rfl
      · left
        rw [hp]
        simp only [ho]
        split <;> rfl
    · have := ih (fun e' he' => hns e' (by simp [he'])) (step cfg g e).1 (by rw [hs.1]; exact hd) o
        (by rw [hs.1]; exact hp) ho eo hmem r he
      rw [hs.1] at this
      exact this

/-! ### schedules without collector-managed Thread objects are isolated -/

theorem step_wraps (cfg : Cfg) (g : G) (e : Ev) (h : ∀ t u, e ≠ .bind t u) : (step cfg g e).1.wraps = g.wraps := by
  cases e with
  | bind t u => exact absurd rfl (h t u)
  | loc t op => rw [step_loc]; split <;> rfl
  | _ =>
    simp only [step]
    repeat' split
    all_goals rfl

theorem isolatedEv_nil (cfg : Cfg) (g : G) (e : Ev) (h : g.wraps = []) : isolatedEv cfg g e = true := by
  cases e with
  | loc t op => cases op <;> simp [isolatedEv, keepsWrappersEv, heldOf, heldThreads, wrapperKilled, h]
  | _ => rfl

theorem isolated_raw (cfg : Cfg) (s : List Ev) : ∀ g : G, g.wraps = [] → (∀ e ∈ s, ∀ t u, e ≠ .bind t u) →
    Isolated cfg s g = true := by
  induction s with
  | nil => intro g _ _; rfl
  | cons e s ih =>
    intro g hw hnb
    simp only [Isolated, Bool.and_eq_true]
    refine ⟨isolatedEv_nil cfg g e hw, ih _ ?_ (fun e' he' => hnb e' (by simp [he']))⟩
    rw [step_wraps cfg g e (hnb e (by simp))]
    exact hw

/-! ### in the guarded variant of `Thread_Mark`, isolation is: no sweep frees the Thread object of a live thread -/

theorem isolatedEv_of_keeps (cfg : Cfg) (hfm : cfg.foreignMark = false) (g : G) (e : Ev)
    (h : keepsWrappersEv cfg g e = true) : isolatedEv cfg g e = true := by
  cases e with
  | loc t op => simp only [isolatedEv, hfm, Bool.not_false, Bool.true_or, Bool.true_and]; exact h
  | _ => rfl

theorem isolated_of_keeps (cfg : Cfg) (hfm : cfg.foreignMark = false) (s : List Ev) : ∀ g : G,
    KeepsWrappers cfg s g = true → Isolated cfg s g = true := by
  induction s with
  | nil => intro g _; rfl
  | cons e s ih =>
    intro g h
    simp only [KeepsWrappers, Bool.and_eq_true] at h
    simp only [Isolated, Bool.and_eq_true]
    exact ⟨isolatedEv_of_keeps cfg hfm g e h.1, ih _ h.2⟩

/-- an isolated schedule keeps the Thread objects of live threads (any variant) -/
theorem keeps_of_isolated (cfg : Cfg) (s : List Ev) : ∀ g : G, Isolated cfg s g = true → KeepsWrappers cfg s g = true := by
  induction s with
  | nil => intro g _; rfl
  | cons e s ih =>
    intro g h
    simp only [Isolated, Bool.and_eq_true] at h
    simp only [KeepsWrappers, Bool.and_eq_true]
    refine ⟨?_, ih _ h.2⟩
    cases e with
    | loc t op => have := h.1; simp only [isolatedEv, Bool.and_eq_true] at this; exact this.2
    | _ => rfl

/-! ### a running thread has an exception record, so destructors that use exceptions never crash the teardown -/

/-- a running thread has its Exception record -/
def Live (ts : TS) : Prop := ts.phase = .running → ts.exc ≠ none

theorem caught_some (x : Exc) (e : Option Exn.St) (h : e ≠ none) : caught x e ≠ none := by
  cases e with
  | none => exact absurd rfl h
  | some s => simp [caught]

theorem runDtors_some (xd : List Nat) (dead : List Obj) (s : Exn.St) :
    ∃ e', runDtors xd dead (some s) = some e' ∧ e' ≠ none := by
  unfold runDtors
  split
  · exact ⟨_, rfl, by simp [caught]⟩
  · exact ⟨_, rfl, by simp⟩

theorem lrun_live_nocrash (cfg : Cfg) (hgf : cfg.gcFirst = true) (t : Tid) (c : Cache) (fm : List Obj) (op : LOp) (ts : TS)
    (hr : ts.phase = .running) (h : ts.exc ≠ none) :
    Live (lrun cfg t c fm op ts).1 ∧ (lrun cfg t c fm op ts).2.2 ≠ .crash := by
  obtain ⟨s, hs⟩ : ∃ s, ts.exc = some s := by
    cases he : ts.exc with
    | none => exact absurd he h
    | some s => exact ⟨s, rfl⟩
  have hl : Live ts := fun _ => h
  cases op with
  | begin_ => exact ⟨hl, by simp [lrun]⟩
  | end_ =>
    simp only [lrun]
    cases ts.gc with
    | none => exact ⟨by intro hp; simp at hp, by simp⟩
    | some g =>
      simp only [hgf, if_true, hs]
      obtain ⟨e', he', _⟩ := runDtors_some ts.xd (g.sweep []).2 s
      rw [he']
      exact ⟨by intro hp; simp at hp, by simp⟩
  | new k root xdtor =>
    simp only [lrun]
    split
    · exact ⟨hl, by simp⟩
    · cases ts.gc with
      | none => exact ⟨hl, by simp⟩
      | some g => exact ⟨fun _ => h, by simp⟩
  | del o =>
    simp only [lrun]
    cases ts.gc with
    | none => exact ⟨hl, by simp⟩
    | some g =>
      simp only [hs]
      obtain ⟨e', he', hne⟩ := runDtors_some ts.xd (g.rem o).2 s
      rw [he']
      exact ⟨fun _ => hne, by simp⟩
  | collect st =>
    simp only [lrun]
    cases ts.gc with
    | none => exact ⟨hl, by simp⟩
    | some g =>
      simp only [hs]
      obtain ⟨e', he', hne⟩ := runDtors_some ts.xd (g.sweep (ts.tls.map (·.2) ++ st.map (fun k => (⟨t, k⟩ : Obj)) ++ fm)).2 s
      rw [he']
      exact ⟨fun _ => hne, by simp⟩
  | churn n =>
    simp only [lrun]
    cases ts.gc with
    | none => exact ⟨hl, by simp⟩
    | some g => exact ⟨fun _ => h, by simp⟩
  | tset key o =>
    simp only [lrun]
    split
    · exact ⟨hl, by simp⟩
    · exact ⟨fun _ => h, by simp⟩
  | tget key =>
    simp only [lrun]
    split
    · exact ⟨hl, by simp⟩
    · exact ⟨fun _ => caught_some _ _ h, by simp⟩
  | tmem key => exact ⟨hl, by simp [lrun]⟩
  | trem key =>
    simp only [lrun]
    split
    · exact ⟨fun _ => h, by simp⟩
    · exact ⟨fun _ => caught_some _ _ h, by simp⟩
  | exn p => simp only [lrun, hs]; exact ⟨fun _ => by simp, by simp⟩
  | lookup ty cls => exact ⟨hl, by simp [lrun]⟩
  | pub v => exact ⟨fun _ => h, by simp [lrun]⟩
  | pubo o => exact ⟨fun _ => h, by simp [lrun]⟩
  | work a b c' => exact ⟨hl, by simp [lrun]⟩
  | perr f e =>
    simp only [lrun]
    cases f <;> simp only [] <;> split <;>
      first | exact ⟨fun _ => caught_some _ _ h, by simp⟩ | exact ⟨hl, by simp⟩

theorem lstep_live_nocrash (cfg : Cfg) (hgf : cfg.gcFirst = true) (t : Tid) (c : Cache) (fm : List Obj) (op : LOp) (ts : TS)
    (h : Live ts) : Live (lstep cfg t c fm op ts).1 ∧ (lstep cfg t c fm op ts).2.2 ≠ .crash := by
  by_cases hr : ts.phase = .running
  · have := lrun_live_nocrash cfg hgf t c fm op ts hr (h hr)
    cases op <;> first
      | (simp only [lstep, hr, if_true]; exact this)
      | (simp [lstep, hr]; exact h)
  · cases op <;> first
      | (simp only [lstep, hr, if_false]; exact ⟨h, by simp⟩)
      | (simp only [lstep]; split
         · exact ⟨fun _ => by simp, by simp⟩
         · exact ⟨h, by simp⟩)

theorem step_live_nocrash (cfg : Cfg) (hgf : cfg.gcFirst = true) (g : G) (e : Ev) (h : ∀ t, Live (g.thr t)) :
    (∀ t, Live ((step cfg g e).1.thr t)) ∧ (step cfg g e).2 ≠ .crash := by
  have sync : ∀ e : Ev, (∀ t op, e ≠ .loc t op) → (∀ t v, e ≠ .spawn t v) → (∀ t v, e ≠ .join t v) →
      ∀ t, Live ((step cfg g e).1.thr t) :=
    fun e h1 h2 h3 => by rw [(step_sync_frame cfg g e h1 h2 h3).1]; exact h
  cases e with
  | loc t op =>
    rw [step_loc]
    have hl := lstep_live_nocrash cfg hgf t g.cache (foreignMarks cfg g t op) op (g.thr t) (h t)
    split
    · exact ⟨h, by simp⟩
    · refine ⟨?_, hl.2⟩
      intro u
      by_cases hut : u = t
      · subst hut; simp only [upd_same]; exact hl.1
      · simp only [upd_other _ _ _ _ hut]; exact h u
  | spawn t v =>
    rcases step_spawn cfg g t v with ⟨ho, _, hthr⟩ | ⟨_, hg⟩
    · rw [hthr, ho]
      refine ⟨?_, by simp⟩
      intro u
      by_cases huv : u = v
      · subst huv; simp only [upd_same]; intro hp; simp at hp
      · simp only [upd_other _ _ _ _ huv]; exact h u
    · rw [hg]
      refine ⟨h, ?_⟩
      simp only [step]
      repeat' split
      all_goals simp
  | join t w =>
    refine ⟨?_, ?_⟩
    · intro v
      rcases step_join cfg g t w with ⟨hthr, _⟩ | ⟨x, _, _, _, _, hthr⟩
      · rw [hthr]; exact h v
      · rw [hthr]
        by_cases hvt : v = t
        · subst hvt; simp only [upd_same]; intro hp; exact caught_some _ _ (h v hp)
        · simp only [upd_other _ _ _ _ hvt]; exact h v
    · simp only [step]
      repeat' split
      all_goals simp
  | lock t m =>
    refine ⟨sync _ (by intros; simp) (by intros; simp) (by intros; simp), ?_⟩
    simp only [step]; split; simp; split <;> simp
  | trylock t m =>
    refine ⟨sync _ (by intros; simp) (by intros; simp) (by intros; simp), ?_⟩
    simp only [step]; split; simp; split <;> simp
  | unlock t m =>
    refine ⟨sync _ (by intros; simp) (by intros; simp) (by intros; simp), ?_⟩
    simp only [step]; split; simp; split <;> simp
  | winc t m c =>
    refine ⟨sync _ (by intros; simp) (by intros; simp) (by intros; simp), ?_⟩
    simp only [step]; split; simp; split <;> simp
  | ld t c =>
    refine ⟨sync _ (by intros; simp) (by intros; simp) (by intros; simp), ?_⟩
    simp only [step]; split <;> simp
  | st t c =>
    refine ⟨sync _ (by intros; simp) (by intros; simp) (by intros; simp), ?_⟩
    simp only [step]; split <;> simp
  | rd t w =>
    refine ⟨sync _ (by intros; simp) (by intros; simp) (by intros; simp), ?_⟩
    simp only [step]; split <;> simp
  | bind t w =>
    refine ⟨sync _ (by intros; simp) (by intros; simp) (by intros; simp), ?_⟩
    simp only [step]
    repeat' split
    all_goals simp
  | rdo t w =>
    refine ⟨sync _ (by intros; simp) (by intros; simp) (by intros; simp), ?_⟩
    simp only [step]
    repeat' split
    all_goals simp
  | arg t w os =>
    refine ⟨sync _ (by intros; simp) (by intros; simp) (by intros; simp), ?_⟩
    simp only [step]
    repeat' split
    all_goals simp
  | rdarg t i =>
    refine ⟨sync _ (by intros; simp) (by intros; simp) (by intros; simp), ?_⟩
    simp only [step]
    repeat' split
    all_goals simp

theorem run_nocrash (cfg : Cfg) (hgf : cfg.gcFirst = true) (s : List Ev) : ∀ g : G, (∀ t, Live (g.thr t)) →
    ∀ eo ∈ (run cfg s g).2, eo.2 ≠ .crash := by
  induction s with
  | nil => intro g _ eo h; cases h
  | cons e s ih =>
    intro g h eo hmem
    have hs := step_live_nocrash cfg hgf g e h
    rw [run_cons] at hmem
    rcases List.mem_cons.mp hmem with rfl | hmem
    · exact hs.2
    · exact ih _ hs.1 eo hmem

theorem live_init : ∀ t, Live (G.init.thr t) := by
  intro t
  simp only [G.init]
  split
  · intro _; simp [TS.main]
  · intro hp; simp [TS.unborn] at hp

/-! ### reading the error-translation tables extracted from the source (CelloGen.Thr) -/

def Errno.name : Errno → String
  | .zero => "0" | .einval => "EINVAL" | .edeadlk => "EDEADLK" | .ebusy => "EBUSY" | .eperm => "EPERM"
  | .esrch => "ESRCH" | .eagain => "EAGAIN"

def excOfName : String → Option Exc
  | "ValueError" => some .valueError | "ResourceError" => some .resourceError | "KeyError" => some .keyError
  | "OutOfMemoryError" => some .outOfMemoryError | "BusyError" => some .busyError | _ => none

/-- what a table `[(errno, exception)]` extracted from the source does with error code `e` -/
def tableTr (tab : List (String × String)) (e : Errno) : Option Exc := (tab.lookup e.name).bind excOfName

def tableTry (tab : List (String × String)) (dflt : String) (e : Errno) : Option (Except Exc Bool) :=
  match tab.lookup e.name with
  | some "false" => some (.ok false)
  | some "true" => some (.ok true)
  | some x => (excOfName x).map .error
  | none => if dflt = "true" then some (.ok true) else if dflt = "false" then some (.ok false) else none

end Cello.Thr
