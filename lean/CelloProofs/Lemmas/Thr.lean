/-
  Helper lemmas for C13 (threads): frame and projection lemmas for `Cello.Thr.step` / `run`.
-/
import Cello.Threads

namespace Cello.Thr

/-! ### the class cache only ever holds declared instances -/

/-- every filled cache word is the declared (non-NULL) instance -/
def CacheOK (cfg : Cfg) (c : Cache) : Prop := ∀ k ∈ c, cfg.scan k = true

theorem cacheOK_nil (cfg : Cfg) : CacheOK cfg [] := by intro k hk; cases hk

theorem cacheLookup_val {cfg : Cfg} {c : Cache} (h : CacheOK cfg c) (k : Nat × Nat) :
    (cacheLookup cfg c k).2 = cfg.scan k := by
  unfold cacheLookup
  by_cases hc : c.contains k = true
  · simp only [hc, if_true]
    have : k ∈ c := by simpa using hc
    exact (h k this).symm
  · simp only [hc]
    by_cases hs : cfg.scan k = true <;> simp [hs]

theorem cacheLookup_ok {cfg : Cfg} {c : Cache} (h : CacheOK cfg c) (k : Nat × Nat) :
    CacheOK cfg (cacheLookup cfg c k).1 := by
  unfold cacheLookup
  by_cases hc : c.contains k = true
  · simpa [hc] using h
  · simp only [hc]
    by_cases hs : cfg.scan k = true
    · simp only [hs, if_true]
      intro k' hk'
      rcases List.mem_cons.mp hk' with rfl | hk'
      · exact hs
      · exact h k' hk'
    · simpa [hs] using h

/-! ### a local step does not depend on what the cache contains -/

theorem lrun_spec {cfg : Cfg} {c : Cache} (h : CacheOK cfg c) (t : Tid) (op : LOp) (ts : TS)
    (hr : ts.phase = .running) :
    ((lrun cfg t c op ts).1, (lrun cfg t c op ts).2.2) = lstepSpec cfg t op ts ∧ CacheOK cfg (lrun cfg t c op ts).2.1 := by
  cases op with
  | lookup ty cls =>
    have hv := cacheLookup_val h (ty, cls)
    have hk := cacheLookup_ok h (ty, cls)
    simp only [lrun, lstepSpec, hr, if_true]
    exact ⟨by rw [hv], hk⟩
  | begin_ => simp [lrun, lstepSpec, lstep, hr, h]
  | end_ =>
    simp only [lrun, lstepSpec, lstep, hr, if_true]
    cases ts.gc <;> exact ⟨rfl, h⟩
  | new k root =>
    simp only [lrun, lstepSpec, lstep, hr, if_true]
    split
    · exact ⟨rfl, h⟩
    · cases ts.gc <;> exact ⟨rfl, h⟩
  | del o =>
    simp only [lrun, lstepSpec, lstep, hr, if_true]
    cases ts.gc <;> exact ⟨rfl, h⟩
  | collect st =>
    simp only [lrun, lstepSpec, lstep, hr, if_true]
    cases ts.gc <;> exact ⟨rfl, h⟩
  | churn n =>
    simp only [lrun, lstepSpec, lstep, hr, if_true]
    cases ts.gc <;> exact ⟨rfl, h⟩
  | tset key o => exact ⟨by simp [lrun, lstepSpec, lstep, hr], h⟩
  | tget key =>
    simp only [lrun, lstepSpec, lstep, hr, if_true]
    cases ts.tls.lookup key <;> exact ⟨rfl, h⟩
  | tmem key => exact ⟨by simp [lrun, lstepSpec, lstep, hr], h⟩
  | trem key =>
    simp only [lrun, lstepSpec, lstep, hr, if_true]
    split <;> exact ⟨rfl, h⟩
  | exn p =>
    simp only [lrun, lstepSpec, lstep, hr, if_true]
    cases ts.exc <;> exact ⟨rfl, h⟩
  | pub v => exact ⟨by simp [lrun, lstepSpec, lstep, hr], h⟩
  | work a b c => exact ⟨by simp [lrun, lstepSpec, lstep, hr], h⟩
  | perr f e =>
    simp only [lrun, lstepSpec, lstep, hr, if_true]
    cases f <;> simp only [] <;> split <;> exact ⟨rfl, h⟩

theorem lstep_spec {cfg : Cfg} {c : Cache} (h : CacheOK cfg c) (t : Tid) (op : LOp) (ts : TS) :
    ((lstep cfg t c op ts).1, (lstep cfg t c op ts).2.2) = lstepSpec cfg t op ts ∧ CacheOK cfg (lstep cfg t c op ts).2.1 := by
  by_cases hr : ts.phase = .running
  · have := lrun_spec h t op ts hr
    cases op <;> first
      | (simp only [lstep, hr, if_true] at this ⊢; exact this)
      | (simp [lstep, lstepSpec, hr, h])
  · cases op <;> first
      | (simp [lstep, lstepSpec, hr, h]; done)
      | (simp only [lstep, lstepSpec]; split <;> exact ⟨rfl, h⟩)

end Cello.Thr
