/-
  Lemmas about a mark phase that starts from mark bits that are already set (`Cello.Heap.gcMarkFrom`): the `marked`
  field of a registry entry survives when an exception leaves `GC_Mark`, and the next `GC_Mark` starts from those bits.
  Everything is generic in the implementation `S : MarkSet σ` of the mark bits.
-/
import Cello.Heap
import CelloProofs.Lemmas.Mark

namespace Cello.Heap

/-! ## marking from bits that are already set -/

section bits
variable {σ : Type} (S : MarkSet σ) (c : Cfg) (h : Heap)

theorem mem_seed (stale : List Addr) (a : Addr) : S.mem a (seed S stale) = stale.contains a := by
  induction stale with
  | nil => simp [seed, S.mem_empty]
  | cons x xs ih =>
    have : seed S (x :: xs) = S.insert x (seed S xs) := rfl
    rw [this, S.mem_insert, ih, List.contains_cons]

theorem seed_nil : seed S [] = S.empty := rfl

/-- reachability as a marker sees it that starts with the bits `m0` set: through accepted words that are not marked in `m0` -/
inductive ReachFresh (m0 : σ) (roots : List Word) : Addr → Prop
  | root {a} : a ∈ roots → h.accepts a = true → S.mem a m0 = false → ReachFresh m0 roots a
  | step {a b} : ReachFresh m0 roots a → b ∈ h.fieldsAt c a → h.accepts b = true → S.mem b m0 = false → ReachFresh m0 roots b

theorem reachFresh_fresh {m0 : σ} {roots : List Word} {a : Addr} (hr : ReachFresh S c h m0 roots a) : S.mem a m0 = false := by
  cases hr with
  | root _ _ hf => exact hf
  | step _ _ _ hf => exact hf

theorem reachFresh_accepts {m0 : σ} {roots : List Word} {a : Addr} (hr : ReachFresh S c h m0 roots a) : h.accepts a = true := by
  cases hr with
  | root _ ha _ => exact ha
  | step _ _ ha _ => exact ha

/-- invariant of the worklist when it starts from bits `m0`: an accepted word of an entry marked SINCE is marked or still on the stack -/
def ClosedFrom (m0 : σ) (stack : List Word) (m : σ) : Prop :=
  ∀ a, S.mem a m = true → S.mem a m0 = false → ∀ b ∈ h.fieldsAt c a, h.accepts b = true → S.mem b m = true ∨ b ∈ stack

theorem closedFrom_self (m0 : σ) (stack : List Word) : ClosedFrom S c h m0 stack m0 := by
  intro a ha hf; rw [ha] at hf; cases hf

theorem dfs_spec_from (m0 : σ) : ∀ (stack : List Word) (m : σ), ClosedFrom S c h m0 stack m →
    (∀ a, S.mem a m = true → S.mem a (dfs S c h stack m) = true) ∧
    (∀ w ∈ stack, h.accepts w = true → S.mem w (dfs S c h stack m) = true) ∧
    ClosedFrom S c h m0 [] (dfs S c h stack m) := by
  intro stack m
  induction stack, m using dfs.induct S c h with
  | case1 m => intro hc; rw [dfs_nil]; exact ⟨fun _ h => h, by simp, hc⟩
  | case2 m w st hw ih =>
    intro hc
    rw [dfs_cons_pos S c h w st m hw]
    have hc' : ClosedFrom S c h m0 (h.fieldsAt c w ++ st) (S.insert w m) := by
      intro a ha hfr b hb hbr
      rw [S.mem_insert] at ha
      rcases Bool.or_eq_true _ _ |>.mp ha with ha | ha
      · have : a = w := by simpa using ha
        subst this
        right; exact List.mem_append_left _ hb
      · rcases hc a ha hfr b hb hbr with h1 | h1
        · left; rw [S.mem_insert]; simp [h1]
        · cases h1 with
          | head => left; rw [S.mem_insert]; simp
          | tail _ h1 => right; exact List.mem_append_right _ h1
    obtain ⟨h1, h2, h3⟩ := ih hc'
    refine ⟨fun a ha => h1 a (by rw [S.mem_insert]; simp [ha]), ?_, h3⟩
    intro x hx hxr
    cases hx with
    | head => exact h1 _ (by rw [S.mem_insert]; simp)
    | tail _ hx => exact h2 x (List.mem_append_right _ hx) hxr
  | case3 m w st hw ih =>
    intro hc
    rw [dfs_cons_neg S c h w st m hw]
    have hskip : ∀ b, b = w → h.accepts b = true → S.mem b m = true := by
      intro b hb hbr
      subst hb
      cases hm : S.mem b m with
      | true => rfl
      | false => exact absurd ⟨hbr, hm⟩ hw
    have hc' : ClosedFrom S c h m0 st m := by
      intro a ha hfr b hb hbr
      rcases hc a ha hfr b hb hbr with h1 | h1
      · left; exact h1
      · rcases List.mem_cons.mp h1 with heq | h1
        · left; exact hskip b heq hbr
        · right; exact h1
    obtain ⟨h1, h2, h3⟩ := ih hc'
    refine ⟨h1, ?_, h3⟩
    intro x hx hxr
    rcases List.mem_cons.mp hx with heq | hx
    · exact h1 x (hskip x heq hxr)
    · exact h2 x hx hxr

/-- completeness from stale bits: what is reachable through unmarked entries gets marked -/
theorem dfs_complete_from (m0 : σ) (roots : List Word) (a : Addr) (hr : ReachFresh S c h m0 roots a) :
    S.mem a (dfs S c h roots m0) = true := by
  obtain ⟨_, h2, h3⟩ := dfs_spec_from S c h m0 roots m0 (closedFrom_self S c h m0 roots)
  induction hr with
  | root hroot hacc _ => exact h2 _ hroot hacc
  | step hra hb hbr _ ih =>
    rcases h3 _ ih (reachFresh_fresh S c h hra) _ hb hbr with h | h
    · exact h
    · cases h

theorem reachFresh_mono_roots {m0 : σ} {r1 r2 : List Word} (hsub : ∀ w ∈ r1, w ∈ r2) {a : Addr}
    (hr : ReachFresh S c h m0 r1 a) : ReachFresh S c h m0 r2 a := by
  induction hr with
  | root hroot hacc hf => exact .root (hsub _ hroot) hacc hf
  | step _ hb hbr hf ih => exact .step ih hb hbr hf

theorem fresh_of_insert {w a : Addr} {m : σ} (hf : S.mem a (S.insert w m) = false) : S.mem a m = false := by
  rw [S.mem_insert] at hf
  cases hm : S.mem a m with
  | false => rfl
  | true => rw [hm] at hf; simp at hf

theorem reachFresh_push (w : Word) (st : List Word) (m : σ) (hw : h.accepts w = true ∧ S.mem w m = false) {a : Addr}
    (hr : ReachFresh S c h (S.insert w m) (h.fieldsAt c w ++ st) a) : ReachFresh S c h m (w :: st) a := by
  induction hr with
  | root hroot hacc hf =>
    rcases List.mem_append.mp hroot with hfl | hs
    · exact .step (.root List.mem_cons_self hw.1 hw.2) hfl hacc (fresh_of_insert S hf)
    · exact .root (List.mem_cons_of_mem _ hs) hacc (fresh_of_insert S hf)
  | step _ hb hbr hf ih => exact .step ih hb hbr (fresh_of_insert S hf)

/-- soundness from stale bits: a bit the marker sets belongs to an entry reachable through entries that were unmarked -/
theorem dfs_sound_from : ∀ (stack : List Word) (m : σ) (a : Addr),
    S.mem a (dfs S c h stack m) = true → S.mem a m = true ∨ ReachFresh S c h m stack a := by
  intro stack m
  induction stack, m using dfs.induct S c h with
  | case1 m => intro a ha; rw [dfs_nil] at ha; exact .inl ha
  | case2 m w st hw ih =>
    intro a ha
    rw [dfs_cons_pos S c h w st m hw] at ha
    rcases ih a ha with h1 | h1
    · rw [S.mem_insert] at h1
      rcases Bool.or_eq_true _ _ |>.mp h1 with h1 | h1
      · have : a = w := by simpa using h1
        subst this
        exact .inr (.root List.mem_cons_self hw.1 hw.2)
      · exact .inl h1
    · exact .inr (reachFresh_push S c h w st m hw h1)
  | case3 m w st hw ih =>
    intro a ha
    rw [dfs_cons_neg S c h w st m hw] at ha
    rcases ih a ha with h1 | h1
    · exact .inl h1
    · exact .inr (reachFresh_mono_roots S c h (fun x hx => List.mem_cons_of_mem _ hx) h1)

theorem dfs_mono_bits (stack : List Word) (m : σ) (a : Addr) (ha : S.mem a m = true) : S.mem a (dfs S c h stack m) = true :=
  (dfs_spec_from S c h m stack m (closedFrom_self S c h m stack)).1 a ha

/-- **the bits after a mark phase that starts from `m0`**: `m0`, and whatever is reachable through entries unmarked in `m0` -/
theorem dfs_iff_from (roots : List Word) (m0 : σ) (a : Addr) :
    S.mem a (dfs S c h roots m0) = true ↔ S.mem a m0 = true ∨ ReachFresh S c h m0 roots a := by
  constructor
  · exact dfs_sound_from S c h roots m0 a
  · rintro (h1 | h1)
    · exact dfs_mono_bits S c h roots m0 a h1
    · exact dfs_complete_from S c h m0 roots a h1

theorem gcMarkFrom_eq (thread : Obj) (stack : List Word) (m0 : σ) :
    gcMarkFrom S c h thread stack m0 = dfs S c h (rootWords c h thread stack) m0 := by
  simp only [gcMarkFrom, rootWords, dfs_append]

theorem gcMarkFrom_empty (thread : Obj) (stack : List Word) :
    gcMarkFrom S c h thread stack S.empty = gcMark S c h thread stack := rfl

theorem reachableUnmarked_iff_fresh {c : Cfg} {h : Heap} (wf : h.WF) (m0 : σ) (roots : List Word) (a : Addr) :
    ReachableUnmarked c h (fun x => S.mem x m0) roots a ↔ ReachFresh S c h m0 roots a := by
  constructor
  · intro hr
    induction hr with
    | root hroot hreg hf => exact .root hroot (accepts_of_registered wf hreg) hf
    | step _ hp hreg hf ih =>
      obtain ⟨e, hl, hb⟩ := hp
      exact .step ih (by rw [fieldsAt_lookup hl]; exact hb) (accepts_of_registered wf hreg) hf
  · intro hr
    induction hr with
    | root hroot hacc hf => exact .root hroot (accepts_registered hacc) hf
    | @step a b hra hb hacc hf ih =>
      have hreg := accepts_registered (reachFresh_accepts S c h hra)
      cases hl : h.lookup a with
      | none => simp [hl] at hreg
      | some e => exact .step ih ⟨e, hl, by rw [fieldsAt_lookup hl] at hb; exact hb⟩ (accepts_registered hacc) hf

theorem reachableUnmarked_none {c : Cfg} {h : Heap} (roots : List Word) (a : Addr) :
    ReachableUnmarked c h (fun _ => false) roots a ↔ Reachable c h roots a := by
  constructor
  · intro hr
    induction hr with
    | root hroot hreg _ => exact .root hroot hreg
    | step _ hp hreg _ ih => exact .step ih hp hreg
  · intro hr
    induction hr with
    | root hroot hreg => exact .root hroot hreg rfl
    | step _ hp hreg ih => exact .step ih hp hreg rfl

/-- the bits after `GC_Mark` from `m0`, in terms of the specification -/
theorem gcMarkFrom_iff (wf : h.WF) (thread : Obj) (stack : List Word) (m0 : σ) (a : Addr) :
    S.mem a (gcMarkFrom S c h thread stack m0) = true ↔
      S.mem a m0 = true ∨ ReachableUnmarked c h (fun x => S.mem x m0) (rootWords c h thread stack) a := by
  rw [gcMarkFrom_eq, dfs_iff_from, reachableUnmarked_iff_fresh S wf]

end bits
end Cello.Heap
