/-
  CelloProofs/Lemmas/RegistryIdeal.lean — GC_Ideal_Size returns a size strictly above its argument whenever the load
  factor is at most 1 and the prime table does not end in 0.
-/
import Cello.Registry
namespace Cello.Registry

theorem multLoop_spec (last size : Nat) (hl : 0 < last) :
    ∀ (fuel i : Nat), size < i + fuel → i ≤ size → ∃ v, multLoop last size fuel i = some v ∧ size ≤ v := by
  intro fuel
  induction fuel with
  | zero => intro i h1 h2; omega
  | succ fuel ih =>
    intro i h1 h2
    unfold multLoop
    by_cases h : last * i ≥ size
    · rw [if_pos h]; exact ⟨_, rfl, h⟩
    · rw [if_neg h]
      have : i ≤ last * i := Nat.le_mul_of_pos_left i hl
      exact ih (i+1) (by omega) (by omega)

/-- the size computed from the load factor is above `n` -/
theorem scaled_gt (c : Cfg) (n : Nat) (hb : 1 ≤ c.sizeBump) (hnum : 0 < c.loadNum) (hle : c.loadNum ≤ c.loadDen) :
    n < (n + c.sizeBump) * c.loadDen / c.loadNum := by
  have h1 : (n + 1) * c.loadNum ≤ (n + c.sizeBump) * c.loadDen := Nat.mul_le_mul (by omega) hle
  have : n + 1 ≤ (n + c.sizeBump) * c.loadDen / c.loadNum := (Nat.le_div_iff_mul_le hnum).2 h1
  omega

theorem idealSize_gt_of (c : Cfg) (n : Nat) (hb : 1 ≤ c.sizeBump) (hnum : 0 < c.loadNum) (hle : c.loadNum ≤ c.loadDen)
    (hlast : 0 < c.primes.getLastD 0) : ∃ v, idealSize c n = some v ∧ n < v := by
  have hs := scaled_gt c n hb hnum hle
  unfold idealSize
  simp only []
  split
  · rename_i p hp
    have := List.find?_some hp
    simp only [ge_iff_le, decide_eq_true_eq] at this
    exact ⟨p, rfl, by omega⟩
  · obtain ⟨v, hv, hge⟩ := multLoop_spec (c.primes.getLastD 0) ((n + c.sizeBump) * c.loadDen / c.loadNum) hlast
      ((n + c.sizeBump) * c.loadDen / c.loadNum + 1) 0 (by omega) (by omega)
    exact ⟨v, hv, by omega⟩

end Cello.Registry
