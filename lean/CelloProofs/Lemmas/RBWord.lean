/-
  Lemmas/RBWord.lean — what the zipper model needs of the parent-and-colour word (Cello/RBTreeWord.lean): the four accessors
  implement a pair (parent address, colour) in one word, for even addresses.
-/
import Cello.RBTreeWord

namespace Cello.RB
open CelloGen.Tree (PW)

/-- the word is a pair (parent, colour) under the four accessors -/
structure PWordLaws (getP : Nat → Nat) (getC : Nat → Bool) (setP : Nat → Nat → Nat) (setC : Nat → Bool → Nat) : Prop where
  /-- reading the parent gives the address that was stored, whatever the colour -/
  getParent : ∀ a c, a % 2 = 0 → getP (encodeW a c) = a
  /-- reading the colour gives the colour that was stored, whatever the parent -/
  getColor : ∀ a c, a % 2 = 0 → getC (encodeW a c) = decide (c = .R)
  /-- `Tree_Set_Parent` replaces the parent and KEEPS the colour -/
  setParent : ∀ a c p, a % 2 = 0 → p % 2 = 0 → setP (encodeW a c) p = encodeW p c
  /-- `Tree_Set_Color` replaces the colour and KEEPS the parent -/
  setColor : ∀ a c c', a % 2 = 0 → setC (encodeW a c) (decide (c' = .R)) = encodeW a c'

/-- a decoded link table is the model's own: parent addresses and colours survive the round trip through the words -/
theorem linkTable_faithful {α β : Type} (h : PWordLaws getParentW getColorW setParentW setColorW) (t : T α β) :
    linkTable t = (nodesPre t 0 0).1 := by
  have even : ∀ (t : T α β) (p n : Nat), p % 2 = 0 → ∀ e ∈ (nodesPre t p n).1, e.2.2.1 % 2 = 0 := by
    intro t
    induction t with
    | nil => intro p n _ e he; simp [nodesPre] at he
    | node c l k v r ihl ihr =>
      intro p n hp e he
      simp only [nodesPre, List.mem_cons, List.mem_append] at he
      rcases he with rfl | he | he
      · exact hp
      · exact ihl _ _ (by omega) e he
      · exact ihr _ _ (by omega) e he
  have alloc : allocW = encodeW 0 .R := by
    have h0 : (0 : Nat) = encodeW 0 .B := rfl
    unfold allocW
    rw [show setParentW 0 0 = encodeW 0 .B from by
      have := h.setParent 0 .B 0 rfl rfl; rwa [← h0] at this]
    exact h.setColor 0 .B .R rfl
  unfold linkTable
  conv => rhs; rw [← List.map_id (nodesPre t 0 0).1]
  apply List.map_congr_left
  intro e he
  obtain ⟨k, me, p, c⟩ := e
  have hp : p % 2 = 0 := even t 0 0 rfl _ he
  simp only [id]
  rw [alloc, h.setParent 0 .R p rfl hp, h.setColor p .R c hp, h.getParent p c hp]
  simp only [colorOfW, h.getColor p c hp]
  cases c <;> simp
