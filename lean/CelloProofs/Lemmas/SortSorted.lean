/-
  C04 helper lemmas (T2): the quicksort of Cello/Sort.lean orders its input when the comparison function is a strict
  partial order (asymmetric and transitive) — the Lomuto partition invariant.  Core Lean only.

  Everything is phrased with `a[k]?` and universally quantified element values, so that no statement depends on a proof
  of an index bound.
-/
import Cello.Sort

namespace Cello.Sort
variable {α : Type}

/-! ### reading a store after a swap -/

theorem swapIB_other (a : Array α) (i j k : Nat) (hi : k ≠ i) (hj : k ≠ j) : (a.swapIfInBounds i j)[k]? = a[k]? := by
  unfold Array.swapIfInBounds
  split
  · split
    · rw [Array.getElem?_swap]
      rw [if_neg (fun h => hj h.symm), if_neg (fun h => hi h.symm)]
    · rfl
  · rfl

theorem swapIB_left (a : Array α) (i j : Nat) (hi : i < a.size) (hj : j < a.size) : (a.swapIfInBounds i j)[i]? = a[j]? := by
  unfold Array.swapIfInBounds
  rw [dif_pos hi, dif_pos hj, Array.getElem?_swap]
  by_cases h : j = i
  · subst h; simp
  · rw [if_neg h, if_pos rfl]; simp [hj]

theorem swapIB_right (a : Array α) (i j : Nat) (hi : i < a.size) (hj : j < a.size) : (a.swapIfInBounds i j)[j]? = a[i]? := by
  unfold Array.swapIfInBounds
  rw [dif_pos hi, dif_pos hj, Array.getElem?_swap, if_pos rfl]; simp [hi]

/-! ### "obtained by swaps inside the index range [lo, hi)" -/

/-- `b` is `a` after a sequence of swaps of positions in `[lo, hi)`, all inside the store -/
inductive SwapsIn (lo hi : Nat) : Array α → Array α → Prop where
  | refl (a : Array α) : SwapsIn lo hi a a
  | step {a b : Array α} (h : SwapsIn lo hi a b) (i j : Nat) (hi1 : lo ≤ i) (hi2 : i < hi) (hj1 : lo ≤ j) (hj2 : j < hi)
      (hib : i < b.size) (hjb : j < b.size) : SwapsIn lo hi a (b.swapIfInBounds i j)

theorem SwapsIn.trans {lo hi : Nat} {a b c : Array α} (h1 : SwapsIn lo hi a b) (h2 : SwapsIn lo hi b c) : SwapsIn lo hi a c := by
  induction h2 with
  | refl => exact h1
  | step _ i j a1 a2 a3 a4 a5 a6 ih => exact .step ih i j a1 a2 a3 a4 a5 a6

theorem SwapsIn.mono {lo hi lo' hi' : Nat} {a b : Array α} (h : SwapsIn lo hi a b) (hl : lo' ≤ lo) (hh : hi ≤ hi') :
    SwapsIn lo' hi' a b := by
  induction h with
  | refl => exact .refl _
  | step _ i j a1 a2 a3 a4 a5 a6 ih => exact .step ih i j (by omega) (by omega) (by omega) (by omega) a5 a6

theorem SwapsIn.size {lo hi : Nat} {a b : Array α} (h : SwapsIn lo hi a b) : b.size = a.size := by
  induction h with
  | refl => rfl
  | step _ i j _ _ _ _ _ _ ih => rw [Array.size_swapIfInBounds, ih]

/-- positions outside the range are not touched -/
theorem SwapsIn.outside {lo hi : Nat} {a b : Array α} (h : SwapsIn lo hi a b) (k : Nat) (hk : k < lo ∨ hi ≤ k) :
    b[k]? = a[k]? := by
  induction h with
  | refl => rfl
  | step _ i j _ _ _ _ _ _ ih => rw [swapIB_other _ _ _ _ (by omega) (by omega), ih]

/-- every element found in the range afterwards was in the range before -/
theorem SwapsIn.within {lo hi : Nat} {a b : Array α} (h : SwapsIn lo hi a b) (k : Nat) (hk1 : lo ≤ k) (hk2 : k < hi) :
    ∃ k', lo ≤ k' ∧ k' < hi ∧ b[k]? = a[k']? := by
  induction h generalizing k with
  | refl => exact ⟨k, hk1, hk2, rfl⟩
  | @step b0 _ i j a1 a2 a3 a4 a5 a6 ih =>
    by_cases hki : k = i
    · subst hki
      obtain ⟨k', h1, h2, h3⟩ := ih j a3 a4
      exact ⟨k', h1, h2, by rw [swapIB_left _ _ _ a5 a6, h3]⟩
    · by_cases hkj : k = j
      · subst hkj
        obtain ⟨k', h1, h2, h3⟩ := ih i a1 a2
        exact ⟨k', h1, h2, by rw [swapIB_right _ _ _ a5 a6, h3]⟩
      · obtain ⟨k', h1, h2, h3⟩ := ih k hk1 hk2
        exact ⟨k', h1, h2, by rw [swapIB_other _ _ _ _ hki hkj, h3]⟩

/-! ### the partition -/

/-- all elements at positions `[lo, hi)` satisfy `f · p` -/
def Lo (f : α → α → Bool) (p : α) (a : Array α) (lo hi : Nat) : Prop :=
  ∀ k x, lo ≤ k → k < hi → a[k]? = some x → f x p = true
/-- no element at positions `[lo, hi)` satisfies `f · p` -/
def Hi (f : α → α → Bool) (p : α) (a : Array α) (lo hi : Nat) : Prop :=
  ∀ k x, lo ≤ k → k < hi → a[k]? = some x → f x p = false

theorem Lo.of_within {f : α → α → Bool} {p : α} {a b : Array α} {lo hi : Nat} (h : Lo f p a lo hi)
    (hw : ∀ k, lo ≤ k → k < hi → ∃ k', lo ≤ k' ∧ k' < hi ∧ b[k]? = a[k']?) : Lo f p b lo hi := by
  intro k x h1 h2 hx
  obtain ⟨k', g1, g2, g3⟩ := hw k h1 h2
  exact h k' x g1 g2 (by rw [← g3]; exact hx)

theorem Hi.of_within {f : α → α → Bool} {p : α} {a b : Array α} {lo hi : Nat} (h : Hi f p a lo hi)
    (hw : ∀ k, lo ≤ k → k < hi → ∃ k', lo ≤ k' ∧ k' < hi ∧ b[k]? = a[k']?) : Hi f p b lo hi := by
  intro k x h1 h2 hx
  obtain ⟨k', g1, g2, g3⟩ := hw k h1 h2
  exact h k' x g1 g2 (by rw [← g3]; exact hx)

/-- the loop invariant of `*_Sort_Partition` -/
theorem partLoop_spec (f : α → α → Bool) (l r : Nat) (p : α) :
    ∀ (n i : Nat) (a : Array α) (s : Nat), l ≤ s → s ≤ i → i + n = r → r < a.size → a[r]? = some p →
      Lo f p a l s → Hi f p a s i →
      SwapsIn l r a (partLoop f r n i a s).1 ∧ (partLoop f r n i a s).2 ≤ r ∧ l ≤ (partLoop f r n i a s).2 ∧
      Lo f p (partLoop f r n i a s).1 l (partLoop f r n i a s).2 ∧
      Hi f p (partLoop f r n i a s).1 (partLoop f r n i a s).2 r := by
  intro n
  induction n with
  | zero =>
    intro i a s h1 h2 h3 h4 h5 hlo hhi
    have : i = r := by omega
    subst this
    exact ⟨.refl _, h2, h1, hlo, hhi⟩
  | succ n ih =>
    intro i a s h1 h2 h3 h4 h5 hlo hhi
    have hir : i < r := by omega
    have his : i < a.size := by omega
    have hss : s < a.size := by omega
    unfold partLoop
    rw [h5, Array.getElem?_eq_getElem his]
    simp only
    by_cases hf : f a[i] p = true
    · rw [if_pos hf]
      have hr' : (a.swapIfInBounds i s)[r]? = some p := by rw [swapIB_other _ _ _ _ (by omega) (by omega)]; exact h5
      have hlo' : Lo f p (a.swapIfInBounds i s) l (s + 1) := by
        intro k x g1 g2 gx
        by_cases hks : k = s
        · subst hks
          rw [swapIB_right _ _ _ his hss, Array.getElem?_eq_getElem his] at gx
          cases gx; exact hf
        · rw [swapIB_other _ _ _ _ (by omega) hks] at gx
          exact hlo k x g1 (by omega) gx
      have hhi' : Hi f p (a.swapIfInBounds i s) (s + 1) (i + 1) := by
        intro k x g1 g2 gx
        by_cases hki : k = i
        · subst hki
          rw [swapIB_left _ _ _ his hss] at gx
          exact hhi s x (Nat.le_refl _) (by omega) gx
        · rw [swapIB_other _ _ _ _ hki (by omega)] at gx
          exact hhi k x (by omega) (by omega) gx
      have := ih (i + 1) (a.swapIfInBounds i s) (s + 1) (by omega) (by omega) (by omega)
        (by rw [Array.size_swapIfInBounds]; exact h4) hr' hlo' hhi'
      obtain ⟨g1, g2, g3, g4, g5⟩ := this
      refine ⟨?_, g2, by omega, ?_, g5⟩
      · exact SwapsIn.trans (.step (.refl a) i s (by omega) hir h1 (by omega) his hss) g1
      · intro k x q1 q2 qx; exact g4 k x q1 q2 qx
    · have hf' : f a[i] p = false := by simpa using hf
      rw [if_neg hf]
      have hhi' : Hi f p a s (i + 1) := by
        intro k x g1 g2 gx
        by_cases hki : k = i
        · subst hki; rw [Array.getElem?_eq_getElem his] at gx; cases gx; exact hf'
        · exact hhi k x g1 (by omega) gx
      exact ih (i + 1) a s h1 (by omega) (by omega) h4 h5 hlo hhi'

theorem partition_fst_eq (f : α → α → Bool) (a : Array α) (l r : Nat) :
    (partition f a l r).1 =
      (partLoop f r (r - l) l (a.swapIfInBounds (l + (r - l) / 2) r) l).1.swapIfInBounds
        (partLoop f r (r - l) l (a.swapIfInBounds (l + (r - l) / 2) r) l).2 r := by
  unfold partition
  dsimp only

/-- postcondition of `*_Sort_Partition(a, l, r, f)` for `l < r` inside the store: the pivot value `p` sits at the
    returned position `s`, everything in `[l, s)` is `f`-below it, nothing in `(s, r]` is -/
theorem partition_spec (f : α → α → Bool) (a : Array α) (l r : Nat) (hlr : l < r) (hr : r < a.size) :
    ∃ p, SwapsIn l (r + 1) a (partition f a l r).1 ∧ l ≤ (partition f a l r).2 ∧ (partition f a l r).2 ≤ r ∧
      (partition f a l r).1[(partition f a l r).2]? = some p ∧
      Lo f p (partition f a l r).1 l (partition f a l r).2 ∧
      Hi f p (partition f a l r).1 ((partition f a l r).2 + 1) (r + 1) := by
  have hm1 : l + (r - l) / 2 < a.size := by omega
  have hm2 : l ≤ l + (r - l) / 2 := by omega
  have hm3 : l + (r - l) / 2 ≤ r := by omega
  refine ⟨a[l + (r - l) / 2], ?_⟩
  rw [partition_fst_eq, partition_snd_eq]
  generalize hm : l + (r - l) / 2 = m at *
  have hsz0 : (a.swapIfInBounds m r).size = a.size := Array.size_swapIfInBounds
  have hpiv : (a.swapIfInBounds m r)[r]? = some a[m] := by
    rw [swapIB_right _ _ _ hm1 hr, Array.getElem?_eq_getElem hm1]
  have hspec := partLoop_spec f l r a[m] (r - l) l (a.swapIfInBounds m r) l (Nat.le_refl _) (Nat.le_refl _) (by omega)
    (by rw [hsz0]; exact hr) hpiv (by intro k x g1 g2; omega) (by intro k x g1 g2; omega)
  generalize partLoop f r (r - l) l (a.swapIfInBounds m r) l = res at hspec
  obtain ⟨a', s'⟩ := res
  simp only at hspec ⊢
  obtain ⟨g1, g2, g3, g4, g5⟩ := hspec
  have hsz1 : a'.size = a.size := by rw [g1.size, hsz0]
  have hs'b : s' < a'.size := by omega
  have hrb : r < a'.size := by omega
  have hpiv' : a'[r]? = some a[m] := by rw [g1.outside r (Or.inr (Nat.le_refl _))]; exact hpiv
  refine ⟨?_, g3, g2, ?_, ?_, ?_⟩
  · exact .step (SwapsIn.trans (.step (.refl a) m r hm2 (by omega) (by omega) (by omega) hm1 hr)
      (g1.mono (Nat.le_refl _) (by omega))) s' r g3 (by omega) (by omega) (by omega) hs'b hrb
  · rw [swapIB_left _ _ _ hs'b hrb]; exact hpiv'
  · intro k x q1 q2 qx
    rw [swapIB_other _ _ _ _ (by omega) (by omega)] at qx
    exact g4 k x q1 q2 qx
  · intro k x q1 q2 qx
    by_cases hkr : k = r
    · subst hkr
      rw [swapIB_right _ _ _ hs'b hrb] at qx
      exact g5 s' x (Nat.le_refl _) (by omega) qx
    · rw [swapIB_other _ _ _ _ (by omega) hkr] at qx
      exact g5 k x (by omega) (by omega) qx

/-! ### the sort -/

/-- no inversion with respect to `f` among positions `[lo, hi)` -/
def Sorted (f : α → α → Bool) (a : Array α) (lo hi : Nat) : Prop :=
  ∀ i j x y, lo ≤ i → i < j → j < hi → a[i]? = some x → a[j]? = some y → f y x = false

theorem sortPart_spec (f : α → α → Bool)
    (hasym : ∀ x y, f x y = true → f y x = false)
    (htrans : ∀ x y z, f x y = true → f y z = true → f x z = true) :
    ∀ (a : Array α) (l r : Nat), r < a.size →
      SwapsIn l (r + 1) a (sortPart f a l r) ∧ Sorted f (sortPart f a l r) l (r + 1) := by
  intro a l r
  induction a, l, r using sortPart.induct f with
  | case2 a l r h =>
    intro _
    rw [sortPart, dif_neg h]
    exact ⟨.refl _, by intro i j x y g1 g2 g3; omega⟩
  | case1 a l r h a1 s hp hs a2 ih1 ih2 =>
    intro hr
    rw [sortPart, dif_pos h]
    simp only [hp]
    obtain ⟨p, q1, q2, q3, q4, q5, q6⟩ := partition_spec f a l r h hr
    rw [hp] at q1 q2 q3 q4 q5 q6
    simp only at q1 q2 q3 q4 q5 q6
    have hsz1 : a1.size = a.size := q1.size
    -- left part
    have hleft : SwapsIn l s a1 a2 ∧ Sorted f a2 l s := by
      by_cases hl : l < s - 1
      · have := ih1 (by omega)
        have e : s - 1 + 1 = s := by omega
        rw [e] at this
        exact this
      · have e : a2 = a1 := by show sortPart f a1 l (s - 1) = a1; rw [sortPart, dif_neg hl]
        rw [e]
        exact ⟨.refl _, by intro i j x y g1 g2 g3; omega⟩
    obtain ⟨l1, l2⟩ := hleft
    have hsz2 : a2.size = a.size := by rw [l1.size, hsz1]
    obtain ⟨r1, r2⟩ := ih2 (by omega)
    -- facts about the final store
    have hlo : Lo f p (sortPart f a2 (s + 1) r) l s := by
      intro k x g1 g2 gx
      rw [r1.outside k (Or.inl (by omega))] at gx
      exact (q5.of_within (l1.within)) k x g1 g2 gx
    have hpiv : (sortPart f a2 (s + 1) r)[s]? = some p := by
      rw [r1.outside s (Or.inl (by omega)), l1.outside s (Or.inr (Nat.le_refl _))]; exact q4
    have hhi : Hi f p (sortPart f a2 (s + 1) r) (s + 1) (r + 1) := by
      have h2 : Hi f p a2 (s + 1) (r + 1) := by
        intro k x g1 g2 gx
        rw [l1.outside k (Or.inr (by omega))] at gx
        exact q6 k x g1 g2 gx
      exact h2.of_within (r1.within)
    have hsl : Sorted f (sortPart f a2 (s + 1) r) l s := by
      intro i j x y g1 g2 g3 gx gy
      rw [r1.outside i (Or.inl (by omega))] at gx
      rw [r1.outside j (Or.inl (by omega))] at gy
      exact l2 i j x y g1 g2 g3 gx gy
    refine ⟨?_, ?_⟩
    · exact SwapsIn.trans (SwapsIn.trans q1 (l1.mono (Nat.le_refl _) (by omega))) (r1.mono (by omega) (Nat.le_refl _))
    · intro i j x y g1 g2 g3 gx gy
      by_cases hjs : j < s
      · exact hsl i j x y g1 g2 hjs gx gy
      · by_cases his : s < i
        · exact r2 i j x y (by omega) g2 g3 gx gy
        · -- i ≤ s ≤ j
          by_cases hie : i = s
          · subst hie
            rw [hpiv] at gx; cases gx
            exact hhi j y (by omega) g3 gy
          · have hfx : f x p = true := hlo i x g1 (by omega) gx
            by_cases hje : j = s
            · subst hje
              rw [hpiv] at gy; cases gy
              exact hasym _ _ hfx
            · have hfy : f y p = false := hhi j y (by omega) g3 gy
              cases hyx : f y x with
              | false => rfl
              | true => rw [htrans y x p hyx hfx] at hfy; cases hfy

theorem sortBy_sorted (f : α → α → Bool)
    (hasym : ∀ x y, f x y = true → f y x = false)
    (htrans : ∀ x y z, f x y = true → f y z = true → f x z = true) (a : Array α) :
    Sorted f (sortBy f a) 0 a.size := by
  unfold sortBy
  by_cases h0 : a.size = 0
  · intro i j x y g1 g2 g3; omega
  · have := (sortPart_spec f hasym htrans a 0 (a.size - 1) (by omega)).2
    have e : a.size - 1 + 1 = a.size := by omega
    rw [e] at this
    exact this

/-- **sort orders the sequence** (list form): no later element is `f`-below an earlier one -/
theorem sortList_sorted (f : α → α → Bool)
    (hasym : ∀ x y, f x y = true → f y x = false)
    (htrans : ∀ x y z, f x y = true → f y z = true → f x z = true) (l : List α) :
    (sortList f l).Pairwise (fun x y => f y x = false) := by
  have hs := sortBy_sorted f hasym htrans l.toArray
  unfold sortList
  rw [List.pairwise_iff_getElem]
  intro i j hi hj hij
  have hi' : i < (sortBy f l.toArray).size := by simpa using hi
  have hj' : j < (sortBy f l.toArray).size := by simpa using hj
  have hsz : (sortBy f l.toArray).size = l.toArray.size := by
    unfold sortBy
    by_cases h0 : l.toArray.size = 0
    · rw [sortPart, dif_neg (by omega)]
    · exact (sortPart_spec f hasym htrans l.toArray 0 (l.toArray.size - 1) (by omega)).1.size
  exact hs i j _ _ (Nat.zero_le _) hij (by omega) (Array.getElem?_eq_getElem hi') (Array.getElem?_eq_getElem hj')

end Cello.Sort
