/-
  Lemmas for C19: what a protecting guard does to a stack or static object; shapes of births; the collector leaves
  everything that is not registered alone.
-/
import CelloProofs.Lemmas.HdrKeep

namespace Cello.Hdr

variable {cfg : Config}

/-- the exception a refused operation raises: the index check's when that check comes first and fails, else the guard's -/
def refusalExc (g : Guard) (bounds : Option String) : String :=
  match (if g.boundsFirst then bounds else none) with
  | some e => e
  | none => g.exc

/-- a protecting guard applied to a stack or static object: nothing is changed and an exception is raised -/
theorem runGuarded_refuses {g : Guard} (hp : g.Protects cfg = true) {alloc : Nat}
    (ha : alloc = cfg.cStack ∨ alloc = cfg.cStatic) (bounds : Option String) (b : Body) (m : Body → Body) :
    runGuarded cfg g alloc bounds b m = (b, .raised (refusalExc g bounds)) := by
  obtain ⟨hfirst, hstack, hstatic, _, _, _⟩ := Guard.protects_iff.mp hp
  have hc : g.classes.contains alloc = true := by rcases ha with h | h <;> rw [h] <;> assumption
  have hc' : alloc ∈ g.classes := by simpa using hc
  unfold runGuarded refusalExc
  cases hb : (if g.boundsFirst = true then bounds else none) with
  | some e => simp
  | none => simp [hc', hfirst]

/-- a protecting guard lets heap and embedded objects through -/
theorem runGuarded_passes {g : Guard} (hp : g.Protects cfg = true) {alloc : Nat}
    (ha : alloc = cfg.cHeap ∨ alloc = cfg.cData) (b : Body) (m : Body → Body) :
    runGuarded cfg g alloc none b m = (m b, .ok) := by
  obtain ⟨_, _, _, hheap, hdata, _⟩ := Guard.protects_iff.mp hp
  have hc : g.classes.contains alloc = false := by rcases ha with h | h <;> rw [h] <;> assumption
  have hc' : alloc ∉ g.classes := by simpa using hc
  unfold runGuarded
  simp [hc', ha]

theorem round8_ge (n : Nat) : n ≤ round8 n := by unfold round8; omega

theorem slotCap_ge (r : Bool) (n : Nat) : n ≤ slotCap r n := by
  unfold slotCap; split
  · exact round8_ge n
  · exact Nat.le_refl n

theorem copyBody_ty {s : St} {o : Obj} {t : Ty} {b : Body} (h : copyBody cfg s o = some (t, b)) : typeOf cfg o.hdr = some t := by
  unfold copyBody at h
  split at h
  all_goals first
    | (rename_i heq _; cases h; exact heq)
    | (rename_i heq; cases h; exact heq)
    | (cases h; done)

theorem birthHeader_type (F : Facts cfg) (s : St) (r : Route) (ty : Ty) : typeOf cfg (birthHeader cfg s r ty).1 = some ty := by
  by_cases hty : ty = .type
  · subst hty; cases r <;> simp [birthHeader, headerInit_eq F, typeOf]
  · cases r <;> simp [birthHeader, headerInit_eq F, typeOf, hty]

theorem birthHeader_magic (F : Facts cfg) (s : St) (r : Route) (ty : Ty) : (birthHeader cfg s r ty).1.magic = cfg.magic := by
  by_cases hty : ty = .type
  · subst hty; cases r <;> simp [birthHeader, headerInit_eq F]
  · cases r <;> simp [birthHeader, headerInit_eq F, hty]

/-- releasing or changing the object `id` does not touch another handle -/
theorem get_dealloc_other {s : St} {id k : Nat} {o : Obj} (hk : k ≠ id) : (dealloc cfg s id o).1.get k = s.get k := by
  unfold dealloc
  split
  · rfl
  · split
    · rw [get_release]; cases s.get k <;> simp [hk]
    · rfl

theorem get_updBody_other {s : St} {id k : Nat} (f : Body → Body) (hk : k ≠ id) : (s.updBody id f).get k = s.get k := by
  rw [get_updBody]; cases s.get k <;> simp [hk]

/-- what iterating a container body hands out, in terms of its declared type -/
theorem iterate_container {s : St} (hw : WF cfg s) (id : Nat) (o : Obj)
    (l : List (Option Seen)) (hget : s.get id = some o) (hit : s.iterate cfg id = some l) :
    (∀ k ety es, o.body = .seq k ety es → ∀ x ∈ l, x = some (some ety, cfg.cData)) ∧
    (∀ k kty vty ents, o.body = .map k kty vty ents → ∀ x ∈ l, x = some (some kty, cfg.cData)) := by
  have hb : BodyOK cfg o.body := bodyOK_of_get hw hget
  unfold St.iterate at hit
  rw [hget] at hit
  simp only at hit
  split at hit
  · constructor
    · intro k ety es hbody x hx
      rw [hbody] at hit hb
      simp only [Option.some.injEq] at hit
      subst hit
      obtain ⟨e, he, rfl⟩ := List.mem_map.mp hx
      simp [seenElem, hb e he, typeOf, dataHdr]
    · intro k kty vty ents hbody x hx
      rw [hbody] at hit hb
      simp only [Option.some.injEq] at hit
      subst hit
      obtain ⟨e, he, rfl⟩ := List.mem_map.mp hx
      simp [seenElem, (hb e he).1, typeOf, dataHdr]
  · cases hit

theorem everySecond_mem {α : Type} (l : List α) : ∀ x ∈ everySecond l, x ∈ l := by
  induction l using everySecond.induct with
  | case1 => intro x hx; cases hx
  | case2 y => intro x hx; exact hx
  | case3 y z r ih =>
    intro x hx
    simp only [everySecond, List.mem_cons] at hx ⊢
    rcases hx with hx | hx
    · exact Or.inl hx
    · exact Or.inr (Or.inr (ih x hx))


end Cello.Hdr
