/-
  Lemmas for C15 (engine `text`): the format-string layer — the scanners of `print_to_with` / `scan_from_with` cut the format
  rendered from a list of segments back into exactly those segments.
-/
import CelloProofs.Lemmas.TextSeq

namespace Cello.Text

theorem spanUntil_run (p : Nat → Bool) (t r : List Nat) (ht : ∀ b ∈ t, p b = false) (hr : ∀ b r', r = b :: r' → p b = true) :
    spanUntil p (t ++ r) = (t, r) := by
  induction t with
  | nil =>
    cases r with
    | nil => rfl
    | cons b r' => simp [spanUntil, hr b r' rfl]
  | cons a t ih =>
    have ha := ht a List.mem_cons_self
    simp only [List.cons_append, spanUntil, ha, Bool.false_eq_true, if_false]
    rw [ih (fun b hb => ht b (List.mem_cons_of_mem _ hb))]

/-- the modifier characters and the conversion character of a specification item -/
def Item.parts : Item → Option (List Nat × Nat)
  | .shw _ => some ([], 36)
  | .ispec m c _ => some (m.text, c.byte)
  | .fspec l c _ => some ((if l then [108] else []), c.byte)
  | .lit _ => none
  | .pct => none

/-- the characters that may end a specification of the model / that may stand before the conversion character -/
def convChars : List Nat := [36] ++ IConv.all.map IConv.byte ++ FConv.all.map FConv.byte
def modChars : List Nat := [104, 108, 106, 122, 116, 113]

theorem parts_spec (it : Item) (mods : List Nat) (cb : Nat) (h : it.parts = some (mods, cb)) :
    it.fmt = 37 :: (mods ++ [cb]) ∧ it.seg = .spec it.fmt ∧ (∀ b ∈ mods, b ∈ modChars) ∧ cb ∈ convChars := by
  cases it with
  | shw v => simp only [Item.parts, Option.some.injEq, Prod.mk.injEq] at h; obtain ⟨rfl, rfl⟩ := h; simp [Item.fmt, Item.seg, convChars]
  | ispec m c n =>
    simp only [Item.parts, Option.some.injEq, Prod.mk.injEq] at h; obtain ⟨rfl, rfl⟩ := h
    refine ⟨rfl, rfl, ?_, ?_⟩
    · cases m <;> simp [IMod.text, modChars]
    · cases c <;> simp [IConv.byte, convChars, IConv.all]
  | fspec l c b =>
    simp only [Item.parts, Option.some.injEq, Prod.mk.injEq] at h; obtain ⟨rfl, rfl⟩ := h
    refine ⟨rfl, rfl, ?_, ?_⟩
    · cases l <;> simp [modChars]
    · cases c <;> simp [FConv.byte, convChars, FConv.all, IConv.all, IConv.byte]
  | lit t => simp [Item.parts] at h
  | pct => simp [Item.parts] at h

theorem parts_none (it : Item) (h : it.parts = none) : (∃ t, it = .lit t) ∨ it = .pct := by
  cases it <;> simp [Item.parts] at h ⊢

/-- what follows a non-literal item starts with `%` -/
theorem head_fmt_nonlit (it : Item) (h : ∀ t, it ≠ .lit t) : ∃ r, it.fmt = 37 :: r := by
  cases it with
  | lit t => exact absurd rfl (h t)
  | shw v => exact ⟨_, rfl⟩
  | ispec m c n => exact ⟨_, rfl⟩
  | fspec l c b => exact ⟨_, rfl⟩
  | pct => exact ⟨_, rfl⟩

structure ConvFacts (conv : List Nat) : Prop where
  ends : ∀ b ∈ convChars, conv.contains b = true
  mods : ∀ b ∈ modChars, conv.contains b = false
  pct : conv.contains 37 = false

theorem convFacts_of_ok (conv : List Nat) (h : convOK conv = true) : ConvFacts conv := by
  simp only [convOK, Bool.and_eq_true, List.all_eq_true, Bool.not_eq_true'] at h
  refine ⟨fun b hb => h.1 b hb, fun b hb => h.2 b (by simp only [modChars] at hb; simp only [List.mem_cons]; right; simpa using hb), ?_⟩
  exact h.2 37 (by simp)

/-- `%<mods><c>` followed by anything: the specification ends at `c` -/
theorem spanUntil_spec (conv : List Nat) (C : ConvFacts conv) (mods : List Nat) (cb : Nat) (hm : ∀ b ∈ mods, b ∈ modChars)
    (hc : cb ∈ convChars) (rest : List Nat) :
    spanUntil (fun b => conv.contains b) (mods ++ cb :: rest) = (mods, cb :: rest) :=
  spanUntil_run _ mods (cb :: rest) (fun b hb => C.mods b (hm b hb)) (fun b r' h => by cases h; exact C.ends _ hc)

theorem segmentF_spec (conv : List Nat) (fuel a : Nat) (t : List Nat) (ha : a ≠ 37) :
    segmentF conv (fuel + 1) (37 :: a :: t) =
      match (spanUntil (fun b => conv.contains b) (a :: t)).2 with
      | cv :: r'' => .spec (37 :: (spanUntil (fun b => conv.contains b) (a :: t)).1 ++ [cv]) :: segmentF conv fuel r''
      | [] => [.open_ (37 :: (spanUntil (fun b => conv.contains b) (a :: t)).1)] := by
  simp only [segmentF, ne_eq, not_true_eq_false, if_false]
  split
  · rename_i heq; simp only [List.cons.injEq] at heq; exact absurd heq.1 ha
  · rfl

/-- **segmentation**: the scanner cuts the rendered format of `its` into exactly the segments of `its` -/
theorem segmentF_render (conv : List Nat) (C : ConvFacts conv) (its : List Item) : ∀ fuel, fmtOK its = true →
    (its.flatMap Item.fmt).length < fuel → segmentF conv fuel (its.flatMap Item.fmt) = its.map Item.seg := by
  induction its with
  | nil => intro fuel _ _; cases fuel <;> simp [segmentF]
  | cons it its ih =>
    intro fuel hok hlen
    cases fuel with
    | zero => omega
    | succ fuel =>
      simp only [List.flatMap_cons, List.length_append] at hlen
      cases hparts : it.parts with
      | none =>
        rcases parts_none it hparts with ⟨t, rfl⟩ | rfl
        · simp only [fmtOK, Bool.and_eq_true, Bool.not_eq_true', List.isEmpty_eq_false_iff, List.all_eq_true, bne_iff_ne, ne_eq] at hok
          obtain ⟨⟨⟨hne, hno⟩, hadj⟩, hrest⟩ := hok
          obtain ⟨c, t', rfl⟩ := List.exists_cons_of_ne_nil hne
          have hc : c ≠ 37 := hno c List.mem_cons_self
          have hspan : spanUntil (· == 37) ((c :: t') ++ its.flatMap Item.fmt) = (c :: t', its.flatMap Item.fmt) := by
            apply spanUntil_run
            · intro b hb; simpa using hno b hb
            · intro b r' hbr
              cases its with
              | nil => simp at hbr
              | cons it2 its2 =>
                have hnl : ∀ t, it2 ≠ .lit t := by
                  intro t ht; subst ht; simp at hadj
                obtain ⟨r, hr⟩ := head_fmt_nonlit it2 hnl
                simp only [List.flatMap_cons, hr, List.cons_append, List.cons.injEq] at hbr
                simp [← hbr.1]
          simp only [List.flatMap_cons, Item.fmt, List.cons_append, segmentF, ne_eq, hc, not_false_eq_true, if_true, List.map_cons, Item.seg]
          simp only [List.cons_append] at hspan
          rw [hspan]
          simp only [Item.fmt, List.length_cons] at hlen
          rw [ih fuel hrest (by omega)]
        · simp only [fmtOK] at hok
          simp only [List.flatMap_cons, Item.fmt, List.cons_append, List.nil_append, segmentF, ne_eq, not_true_eq_false, if_false, List.map_cons, Item.seg]
          simp only [Item.fmt, List.length_cons, List.length_nil] at hlen
          rw [ih fuel hok (by omega)]
      | some mc =>
        obtain ⟨mods, cb⟩ := mc
        obtain ⟨hfmt, hseg, hm, hcb⟩ := parts_spec it mods cb hparts
        have hok' : fmtOK its = true := by
          cases it <;> first | (simp [Item.parts] at hparts; done) | (simpa [fmtOK] using hok)
        rw [hfmt] at hlen
        simp only [List.length_cons, List.length_append, List.length_nil] at hlen
        simp only [List.flatMap_cons, List.map_cons, hseg, hfmt, List.cons_append, List.append_assoc, List.nil_append]
        -- the byte after `%` is not `%`: a modifier or a conversion character
        have hspan := spanUntil_spec conv C mods cb hm hcb (its.flatMap Item.fmt)
        have hhead : ∃ a t, mods ++ cb :: its.flatMap Item.fmt = a :: t ∧ a ≠ 37 := by
          cases mods with
          | nil =>
            refine ⟨cb, _, rfl, ?_⟩
            intro h; have := C.ends cb hcb; rw [h, C.pct] at this; exact absurd this (by decide)
          | cons a t =>
            refine ⟨a, _, rfl, ?_⟩
            intro h
            have := hm a List.mem_cons_self
            rw [h] at this; simp [modChars] at this
        obtain ⟨a, t, hat, ha⟩ := hhead
        rw [hat] at hspan ⊢
        rw [segmentF_spec conv fuel a t ha, hspan]
        simp only
        rw [ih fuel hok' (by omega)]
        simp

theorem segment_render (conv : List Nat) (C : ConvFacts conv) (its : List Item) (hok : fmtOK its = true) :
    segment conv (its.flatMap Item.fmt) = its.map Item.seg :=
  segmentF_render conv C its _ hok (by omega)

theorem lookup_ispec (m : IMod) (c : IConv) : allISpecs.lookup (ispecFmt m c) = some (m, c) := by
  cases m <;> cases c <;> decide

theorem lookup_fspec (l : Bool) (c : FConv) : allFSpecs.lookup (fspecFmt l c) = some (l, c) := by
  cases l <;> cases c <;> decide

theorem ispecFmt_ne_dollar (m : IMod) (c : IConv) : ispecFmt m c ≠ [37, 36] := by
  cases m <;> cases c <;> decide

theorem fspecFmt_ne_dollar (l : Bool) (c : FConv) : fspecFmt l c ≠ [37, 36] := by
  cases l <;> cases c <;> decide

/-- the arguments of a format: the values its items carry -/
theorem itemsOf_render (its : List Item) : itemsOf (its.map Item.seg) (its.filterMap Item.val?) = some its := by
  induction its with
  | nil => rfl
  | cons it its ih =>
    cases it with
    | lit t =>
      have : (Item.lit t :: its).filterMap Item.val? = its.filterMap Item.val? := rfl
      simp [Item.seg, itemsOf, this, ih]
    | pct =>
      have : (Item.pct :: its).filterMap Item.val? = its.filterMap Item.val? := rfl
      simp [Item.seg, itemsOf, this, ih]
    | shw v => simp [Item.seg, Item.val?, itemsOf, ih, specItem, Item.fmt]
    | ispec m c n => simp [Item.seg, Item.val?, itemsOf, ih, specItem, Item.fmt, lookup_ispec, ispecFmt_ne_dollar]
    | fspec l c b => simp [Item.seg, Item.val?, itemsOf, ih, specItem, Item.fmt, lookup_fspec, fspecFmt_ne_dollar]

/-- two values of the same Cello type -/
def sameKind : Val → Val → Bool
  | .str _, .str _ => true
  | .int _, .int _ => true
  | .flt _, .flt _ => true
  | _, _ => false

theorem specItem_shape (spec : List Nat) (v w : Val) (h : sameKind v w = true) :
    (specItem spec v).map Item.shape = (specItem spec w).map Item.shape := by
  cases v <;> cases w <;> simp [sameKind] at h <;> simp only [specItem] <;> split <;>
    simp [Item.shape, Option.map_map, Function.comp_def]

def sameKinds : List Val → List Val → Bool
  | [], [] => true
  | v :: vs, w :: ws => sameKind v w && sameKinds vs ws
  | _, _ => false

/-- only the *types* of the arguments matter for what `scan_from_with` does with a format -/
theorem itemsOf_shape (ss : List Seg) : ∀ (vs ws : List Val), sameKinds vs ws = true →
    (itemsOf ss vs).map (fun its => its.map Item.shape) = (itemsOf ss ws).map (fun its => its.map Item.shape) := by
  induction ss with
  | nil => intro vs ws _; rfl
  | cons s ss ih =>
    intro vs ws h
    cases s with
    | lit t =>
      have := ih vs ws h
      simp only [itemsOf, Option.map_map]
      cases h1 : itemsOf ss vs <;> cases h2 : itemsOf ss ws <;> simp_all
    | pct =>
      have := ih vs ws h
      simp only [itemsOf, Option.map_map]
      cases h1 : itemsOf ss vs <;> cases h2 : itemsOf ss ws <;> simp_all
    | open_ t => simp [itemsOf]
    | spec t =>
      cases vs with
      | nil => cases ws with
        | nil => simp [itemsOf]
        | cons w ws' => simp [sameKinds] at h
      | cons v vs' => cases ws with
        | nil => simp [sameKinds] at h
        | cons w ws' =>
          simp only [sameKinds, Bool.and_eq_true] at h
          have h1 := specItem_shape t v w h.1
          have h2 := ih vs' ws' h.2
          simp only [itemsOf]
          cases a1 : specItem t v <;> cases a2 : specItem t w <;> cases b1 : itemsOf ss vs' <;> cases b2 : itemsOf ss ws' <;>
            simp_all

end Cello.Text
