/-
  Lemmas for C15 (engine `text`): the format-string layer — the scanners of `print_to_with` / `scan_from_with` cut the format
  rendered from a list of segments back into exactly those segments.
-/
import CelloProofs.Lemmas.TextSeq

namespace Cello.Text

theorem spanUntil_run (p : Nat → Bool) (t r : List Nat) (ht : ∀ b ∈ t, p b = false) (hr : ∀ b r', r = b :: r' → p b = true) :
    spanUntil p (t ++ r) = (t, r) := by
  induction t with
  | nil =>
    cases r with
    | nil => rfl
    | cons b r' => simp [spanUntil, hr b r' rfl]
  | cons a t ih =>
    have ha := ht a List.mem_cons_self
    simp only [List.cons_append, spanUntil, ha, Bool.false_eq_true, if_false]
    rw [ih (fun b hb => ht b (List.mem_cons_of_mem _ hb))]

/-- what follows a non-literal item starts with `%` -/
theorem head_fmt_nonlit (it : Item) (h : ∀ t, it ≠ .lit t) : ∃ r, it.fmt = 37 :: r := by
  cases it with
  | lit t => exact absurd rfl (h t)
  | shw v => exact ⟨_, rfl⟩
  | li n => exact ⟨_, rfl⟩
  | ld n => exact ⟨_, rfl⟩
  | lf b => exact ⟨_, rfl⟩
  | pct => exact ⟨_, rfl⟩

structure ConvFacts (conv : List Nat) : Prop where
  dollar : 36 ∈ conv
  i : 105 ∈ conv
  d : 100 ∈ conv
  f : 102 ∈ conv
  l : 108 ∉ conv
  pct : 37 ∉ conv

theorem convFacts_of_ok (conv : List Nat) (h : convOK conv = true) : ConvFacts conv := by
  simp only [convOK, Bool.and_eq_true, Bool.not_eq_true', List.contains_eq_mem, decide_eq_true_eq, decide_eq_false_iff_not] at h
  obtain ⟨⟨⟨⟨⟨h1, h2⟩, h3⟩, h4⟩, h5⟩, h6⟩ := h
  exact ⟨h1, h2, h3, h4, h5, h6⟩

/-- `%l<c>` followed by anything: the specification ends at `c` -/
theorem spanUntil_l (conv : List Nat) (C : ConvFacts conv) (c : Nat) (hc : c ∈ conv) (rest : List Nat) :
    spanUntil (fun b => conv.contains b) (108 :: c :: rest) = ([108], c :: rest) := by
  simp [spanUntil, C.l, hc]

theorem spanUntil_dollar (conv : List Nat) (C : ConvFacts conv) (rest : List Nat) :
    spanUntil (fun b => conv.contains b) (36 :: rest) = ([], 36 :: rest) := by
  simp [spanUntil, C.dollar]

/-- **segmentation**: the scanner cuts the rendered format of `its` into exactly the segments of `its` -/
theorem segmentF_render (conv : List Nat) (C : ConvFacts conv) (its : List Item) : ∀ fuel, fmtOK its = true →
    (its.flatMap Item.fmt).length < fuel → segmentF conv fuel (its.flatMap Item.fmt) = its.map Item.seg := by
  induction its with
  | nil => intro fuel _ _; cases fuel <;> simp [segmentF]
  | cons it its ih =>
    intro fuel hok hlen
    cases fuel with
    | zero => omega
    | succ fuel =>
      simp only [List.flatMap_cons, List.length_append] at hlen
      cases it with
      | lit t =>
        simp only [fmtOK, Bool.and_eq_true, Bool.not_eq_true', List.isEmpty_eq_false_iff, List.all_eq_true, bne_iff_ne, ne_eq] at hok
        obtain ⟨⟨⟨hne, hno⟩, hadj⟩, hrest⟩ := hok
        obtain ⟨c, t', rfl⟩ := List.exists_cons_of_ne_nil hne
        have hc : c ≠ 37 := hno c List.mem_cons_self
        have hspan : spanUntil (· == 37) ((c :: t') ++ its.flatMap Item.fmt) = (c :: t', its.flatMap Item.fmt) := by
          apply spanUntil_run
          · intro b hb; simpa using hno b hb
          · intro b r' hbr
            cases its with
            | nil => simp at hbr
            | cons it2 its2 =>
              have hnl : ∀ t, it2 ≠ .lit t := by
                intro t ht; subst ht; simp at hadj
              obtain ⟨r, hr⟩ := head_fmt_nonlit it2 hnl
              simp only [List.flatMap_cons, hr, List.cons_append, List.cons.injEq] at hbr
              simp [← hbr.1]
        simp only [List.flatMap_cons, Item.fmt, List.cons_append, segmentF, ne_eq, hc, not_false_eq_true, if_true, List.map_cons, Item.seg]
        simp only [List.cons_append] at hspan
        rw [hspan]
        simp only [Item.fmt, List.length_cons] at hlen
        rw [ih fuel hrest (by omega)]
      | pct =>
        simp only [fmtOK] at hok
        simp only [List.flatMap_cons, Item.fmt, List.cons_append, List.nil_append, segmentF, ne_eq, not_true_eq_false, if_false, List.map_cons, Item.seg]
        simp only [Item.fmt, List.length_cons, List.length_nil] at hlen
        rw [ih fuel hok (by omega)]
      | shw v =>
        simp only [fmtOK] at hok
        simp only [List.flatMap_cons, Item.fmt, List.cons_append, List.nil_append, segmentF, ne_eq, not_true_eq_false, if_false, List.map_cons, Item.seg]
        simp only [Item.fmt, List.length_cons, List.length_nil] at hlen
        rw [spanUntil_dollar conv C]
        simp only [List.append_nil, List.cons_append, List.nil_append]
        rw [ih fuel hok (by omega)]
      | li n =>
        simp only [fmtOK] at hok
        simp only [List.flatMap_cons, Item.fmt, List.cons_append, List.nil_append, segmentF, ne_eq, not_true_eq_false, if_false, List.map_cons, Item.seg]
        simp only [Item.fmt, List.length_cons, List.length_nil] at hlen
        rw [spanUntil_l conv C 105 C.i]
        simp only [List.cons_append, List.nil_append]
        rw [ih fuel hok (by omega)]
      | ld n =>
        simp only [fmtOK] at hok
        simp only [List.flatMap_cons, Item.fmt, List.cons_append, List.nil_append, segmentF, ne_eq, not_true_eq_false, if_false, List.map_cons, Item.seg]
        simp only [Item.fmt, List.length_cons, List.length_nil] at hlen
        rw [spanUntil_l conv C 100 C.d]
        simp only [List.cons_append, List.nil_append]
        rw [ih fuel hok (by omega)]
      | lf b =>
        simp only [fmtOK] at hok
        simp only [List.flatMap_cons, Item.fmt, List.cons_append, List.nil_append, segmentF, ne_eq, not_true_eq_false, if_false, List.map_cons, Item.seg]
        simp only [Item.fmt, List.length_cons, List.length_nil] at hlen
        rw [spanUntil_l conv C 102 C.f]
        simp only [List.cons_append, List.nil_append]
        rw [ih fuel hok (by omega)]

theorem segment_render (conv : List Nat) (C : ConvFacts conv) (its : List Item) (hok : fmtOK its = true) :
    segment conv (its.flatMap Item.fmt) = its.map Item.seg :=
  segmentF_render conv C its _ hok (by omega)

/-- the arguments of a format: the values its items carry -/
theorem itemsOf_render (its : List Item) : itemsOf (its.map Item.seg) (its.filterMap Item.val?) = some its := by
  induction its with
  | nil => rfl
  | cons it its ih =>
    cases it with
    | lit t =>
      have : (Item.lit t :: its).filterMap Item.val? = its.filterMap Item.val? := rfl
      simp [Item.seg, itemsOf, this, ih]
    | pct =>
      have : (Item.pct :: its).filterMap Item.val? = its.filterMap Item.val? := rfl
      simp [Item.seg, itemsOf, this, ih]
    | shw v => simp [Item.seg, Item.val?, itemsOf, ih, specItem, Item.fmt]
    | li n => simp [Item.seg, Item.val?, itemsOf, ih, specItem, Item.fmt]
    | ld n => simp [Item.seg, Item.val?, itemsOf, ih, specItem, Item.fmt]
    | lf b => simp [Item.seg, Item.val?, itemsOf, ih, specItem, Item.fmt]

/-- two values of the same Cello type -/
def sameKind : Val → Val → Bool
  | .str _, .str _ => true
  | .int _, .int _ => true
  | .flt _, .flt _ => true
  | _, _ => false

theorem specItem_shape (spec : List Nat) (v w : Val) (h : sameKind v w = true) :
    (specItem spec v).map Item.shape = (specItem spec w).map Item.shape := by
  cases v <;> cases w <;> simp [sameKind] at h <;> simp only [specItem] <;> repeat' split <;> simp_all [Item.shape]

def sameKinds : List Val → List Val → Bool
  | [], [] => true
  | v :: vs, w :: ws => sameKind v w && sameKinds vs ws
  | _, _ => false

/-- only the *types* of the arguments matter for what `scan_from_with` does with a format -/
theorem itemsOf_shape (ss : List Seg) : ∀ (vs ws : List Val), sameKinds vs ws = true →
    (itemsOf ss vs).map (fun its => its.map Item.shape) = (itemsOf ss ws).map (fun its => its.map Item.shape) := by
  induction ss with
  | nil => intro vs ws _; rfl
  | cons s ss ih =>
    intro vs ws h
    cases s with
    | lit t =>
      have := ih vs ws h
      simp only [itemsOf, Option.map_map]
      cases h1 : itemsOf ss vs <;> cases h2 : itemsOf ss ws <;> simp_all
    | pct =>
      have := ih vs ws h
      simp only [itemsOf, Option.map_map]
      cases h1 : itemsOf ss vs <;> cases h2 : itemsOf ss ws <;> simp_all
    | open_ t => simp [itemsOf]
    | spec t =>
      cases vs with
      | nil => cases ws with
        | nil => simp [itemsOf]
        | cons w ws' => simp [sameKinds] at h
      | cons v vs' => cases ws with
        | nil => simp [sameKinds] at h
        | cons w ws' =>
          simp only [sameKinds, Bool.and_eq_true] at h
          have h1 := specItem_shape t v w h.1
          have h2 := ih vs' ws' h.2
          simp only [itemsOf]
          cases a1 : specItem t v <;> cases a2 : specItem t w <;> cases b1 : itemsOf ss vs' <;> cases b2 : itemsOf ss ws' <;>
            simp_all

end Cello.Text
