/-
  Lemmas for C10: comparison = 0 implies equality (or equal hashes) for the scalar types; reflexivity of the comparisons.
-/
import Cello.Hash
set_option linter.unusedSimpArgs false

namespace Cello.Hash

/-! ### bytes -/

theorem bytesCmp_self (a : Bytes) : bytesCmp a a = 0 := by
  induction a with
  | nil => rfl
  | cons x xs ih => simp [bytesCmp, ih]

theorem bytesCmp_eq_zero : ∀ (a b : Bytes), bytesCmp a b = 0 → a = b := by
  intro a
  induction a with
  | nil => intro b h; cases b with
    | nil => rfl
    | cons y ys => simp [bytesCmp] at h
  | cons x xs ih => intro b h; cases b with
    | nil => simp [bytesCmp] at h
    | cons y ys =>
      simp only [bytesCmp] at h
      split at h
      · simp at h
      · split at h
        · simp at h
        · rename_i h1 h2
          have hxy : x = y := UInt8.le_antisymm (UInt8.not_lt.mp h2) (UInt8.not_lt.mp h1)
          rw [hxy, ih ys h]

/-! ### Int -/

theorem intCmp_self (a : Int64) : intCmp a a = 0 := by
  simp [intCmp, Int64.lt_irrefl]

theorem intCmp_eq_zero (a b : Int64) (h : intCmp a b = 0) : a = b := by
  unfold intCmp at h
  split at h
  · simp at h
  · split at h
    · simp at h
    · rename_i h1 h2
      exact Int64.le_antisymm (Int64.not_lt.mp h1) (Int64.not_lt.mp h2)

/-! ### Float (bit level) -/

theorem floatCmp_self (a : UInt64) : floatCmp a a = 0 := by
  unfold floatCmp
  split
  · rfl
  · simp

theorem uint64_eq_of_toNat_eq {a b : UInt64} (h : a.toNat = b.toNat) : a = b := UInt64.toNat_inj.mp h

/-- for two doubles that are not NaN, `Float_Cmp` = 0 only for equal bit patterns or two zeros -/
theorem floatCmp_eq_zero (a b : UInt64) (ha : floatIsNaN a = false) (hb : floatIsNaN b = false)
    (h : floatCmp a b = 0) : a = b ∨ (floatIsZero a = true ∧ floatIsZero b = true) := by
  unfold floatCmp at h
  simp only [ha, hb, Bool.or_self, Bool.false_eq_true, if_false] at h
  have hk : floatKey a = floatKey b := by
    split at h
    · simp at h
    · split at h
      · simp at h
      · omega
  have hx := a.toNat_lt
  have hy := b.toNat_lt
  unfold floatKey floatNeg floatMag at hk
  unfold floatIsZero floatMag
  simp only [decide_eq_true_eq] at hk
  by_cases h1 : 2 ^ 63 ≤ a.toNat <;> by_cases h2 : 2 ^ 63 ≤ b.toNat <;> simp only [h1, h2, if_true, if_false] at hk
  · left; apply uint64_eq_of_toNat_eq; omega
  · right; simp only [beq_iff_eq]; omega
  · right; simp only [beq_iff_eq]; omega
  · left; apply uint64_eq_of_toNat_eq; omega

theorem floatHash_zero (b : UInt64) (h : floatIsZero b = true) : floatHash true b = 0 := by
  simp [floatHash, h]

/-! ### scalars -/

theorem scalarCmp_self (addr : Nat → Bytes) (s : Scalar) : scalarCmp addr s s = some 0 := by
  cases s <;> simp [scalarCmp, intCmp_self, floatCmp_self, bytesCmp_self]

def Scalar.isNaN : Scalar → Bool
  | .float b => floatIsNaN b
  | _ => false

end Cello.Hash
