/-
  CelloProofs/Lemmas/TableFind.lean — the probing loop of Table_Get / Table_Mem / Table_Rem (`RH.findLoop`):
  a stored key is found at its slot; an absent key is reported absent within `n` steps when an empty slot exists.
-/
import CelloProofs.Lemmas.TableBasic
set_option linter.unusedSectionVars false
set_option linter.unusedVariables false
namespace Cello.Table
open RH
variable {κ ν : Type} [DecidableEq κ] {n : Nat}

theorem findLoop_finds (hash : κ → Nat) (s : Slots κ ν n) (inv : Inv0 hash s) (k : κ)
    (p : Nat) (hp : p < n) (e : Entry κ ν) (hpe : s[p] = some e) (hk : e.key = k) :
    ∀ (m : Nat) (i j : Nat) (hi : i < n) (fuel : Nat),
      dist n p i = m → j + m = dist n p e.home → m < fuel →
      findLoop s k fuel i j hi = some (some ⟨p, hp⟩) := by
  intro m
  induction m with
  | zero =>
    intro i j hi fuel hm hj hf
    have hip : i = p := by unfold dist at hm; split at hm <;> omega
    subst hip
    match fuel, hf with
    | fuel+1, _ =>
      simp only [findLoop, hpe]
      have : ¬ j > dist n i e.home := by omega
      simp [this, hk]
  | succ m ih =>
    intro i j hi fuel hm hj hf
    match fuel, hf with
    | fuel+1, hf =>
      obtain ⟨e', he', hD⟩ := chain0 hash s inv p hp e hpe (m+1) i hi hm (by omega)
      have hip : i ≠ p := by
        intro h; subst h; simp [dist_self] at hm
      have hkk : ¬ e'.key = k := by
        intro h
        exact hip (inv.distinct i p hi hp e' e he' hpe (h.trans hk.symm))
      simp only [findLoop, he']
      have : ¬ j > dist n i e'.home := by omega
      simp only [this, if_false, hkk]
      exact ih (next n i) (j+1) (next_lt hi) fuel (dist_next hp hi hm) (by omega) (by omega)

/-- a stored key is found, at the slot where it is stored -/
theorem find_present (hash : κ → Nat) (s : Slots κ ν n) (inv : Inv0 hash s) (hn : 0 < n) (k : κ)
    (p : Nat) (hp : p < n) (e : Entry κ ν) (hpe : s[p] = some e) (hk : e.key = k) :
    findLoop s k n (hash k % n) 0 (Nat.mod_lt _ hn) = some (some ⟨p, hp⟩) := by
  have hh : e.home = hash k % n := by rw [← hk]; exact inv.home_ok p hp e hpe
  have hhome : hash k % n < n := Nat.mod_lt _ hn
  apply findLoop_finds hash s inv k p hp e hpe hk (dist n p (hash k % n)) _ 0 hhome n rfl
  · rw [hh]; omega
  · exact dist_lt hp hhome

/-- an absent key: the loop stops (at the latest at the empty slot `z`) and says "absent" -/
theorem findLoop_absent (s : Slots κ ν n) (k : κ) (habs : ¬ HasKey s k) (z : Nat) (hz : z < n) (hze : s[z] = none) :
    ∀ (fuel i j : Nat) (hi : i < n), dist n z i < fuel → findLoop s k fuel i j hi = some none := by
  intro fuel
  induction fuel with
  | zero => intro i j hi h; omega
  | succ fuel ih =>
    intro i j hi hf
    simp only [findLoop]
    split
    · rfl
    · rename_i e he
      split
      · rfl
      · have hkk : ¬ e.key = k := fun h => habs ⟨e, ⟨i, hi, he⟩, h⟩
        simp only [hkk, if_false]
        have hne : i ≠ z := ne_of_occ_empty s hi hz he hze
        have := dist_next_fwd hi hz hne
        exact ih (next n i) (j+1) (next_lt hi) (by omega)

theorem find_absent (hash : κ → Nat) (s : Slots κ ν n) (hn : 0 < n) (k : κ) (habs : ¬ HasKey s k)
    (z : Nat) (hz : z < n) (hze : s[z] = none) :
    findLoop s k n (hash k % n) 0 (Nat.mod_lt _ hn) = some none :=
  findLoop_absent s k habs z hz hze n _ 0 _ (dist_lt hz (Nat.mod_lt _ hn))

end Cello.Table
