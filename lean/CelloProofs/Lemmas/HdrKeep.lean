/-
  Lemmas for C19: no operation of the model ever changes the header or the reserved size of an existing object, and an
  object whose class is not `heap` is never released (`Stable`).  Purely structural: no assumption on the configuration.
-/
import CelloProofs.Lemmas.HdrStep

namespace Cello.Hdr

variable {cfg : Config}

/-- `o'` is `o` later: same header, same reserved bytes; if `o` is not a heap object it is as alive as before -/
def Keeps (cfg : Config) (o o' : Obj) : Prop :=
  o'.hdr = o.hdr ∧ o'.cap = o.cap ∧ (o.hdr.alloc ≠ cfg.cHeap → o'.live = o.live)

theorem keeps_refl (o : Obj) : Keeps cfg o o := ⟨rfl, rfl, fun _ => rfl⟩

theorem keeps_trans {a b c : Obj} (h1 : Keeps cfg a b) (h2 : Keeps cfg b c) : Keeps cfg a c :=
  ⟨h2.1.trans h1.1, h2.2.1.trans h1.2.1, fun hn => (h2.2.2 (by rw [h1.1]; exact hn)).trans (h1.2.2 hn)⟩

def Stable (cfg : Config) (s s' : St) : Prop := ∀ id o, s.get id = some o → ∃ o', s'.get id = some o' ∧ Keeps cfg o o'

theorem stable_refl (s : St) : Stable cfg s s := fun _ o h => ⟨o, h, keeps_refl o⟩

theorem stable_trans {a b c : St} (h1 : Stable cfg a b) (h2 : Stable cfg b c) : Stable cfg a c := by
  intro id o h
  obtain ⟨o1, g1, k1⟩ := h1 id o h
  obtain ⟨o2, g2, k2⟩ := h2 id o1 g1
  exact ⟨o2, g2, keeps_trans k1 k2⟩

theorem stable_updBody (s : St) (id : Nat) (f : Body → Body) : Stable cfg s (s.updBody id f) := by
  intro k o h
  rw [get_updBody, h]
  by_cases hk : k = id
  · exact ⟨{ o with body := f o.body }, by simp [hk], rfl, rfl, fun _ => rfl⟩
  · exact ⟨o, by simp [hk], keeps_refl o⟩

theorem stable_unreg (s : St) (id : Nat) : Stable cfg s (s.unreg id) := fun _ o h => ⟨o, h, keeps_refl o⟩

theorem stable_rtSizes (s : St) (x : List (Nat × Nat)) : Stable cfg s { s with rtSizes := x } :=
  fun _ o h => ⟨o, h, keeps_refl o⟩

theorem stable_release {s : St} {id : Nat} {o : Obj} (hget : s.get id = some o) (hheap : o.hdr.alloc = cfg.cHeap) :
    Stable cfg s (s.release id) := by
  intro k o' h
  rw [get_release, h]
  by_cases hk : k = id
  · subst hk
    rw [hget] at h; cases h
    exact ⟨{ o with live := false }, by simp, rfl, rfl, fun hn => absurd hheap hn⟩
  · exact ⟨o', by simp [hk], keeps_refl o'⟩

theorem stable_addObj {s : St} (id : Nat) (o : Obj) : Stable cfg s { s with objs := s.objs ++ [(id, o)] } := by
  intro k o' h
  refine ⟨o', ?_, keeps_refl o'⟩
  simp only [St.get] at *
  rw [assoc_append, h]

theorem stable_birth (s : St) (id : Nat) (r : Route) (ty : Ty) (b : Body) : Stable cfg s (s.birth cfg id r ty b) := by
  intro k o' h
  refine ⟨o', ?_, keeps_refl o'⟩
  simp only [St.get, St.birth] at *
  rw [assoc_append, h]

theorem stable_dealloc {s : St} {id : Nat} {o : Obj} (hget : s.get id = some o) : Stable cfg s (dealloc cfg s id o).1 := by
  unfold dealloc
  split
  · exact stable_refl s
  · split
    · rename_i hheap; exact stable_release hget hheap
    · exact stable_refl s

theorem stable_destruct_dealloc {s : St} {id : Nat} {o : Obj} (hget : s.get id = some o) (b : Body) :
    Stable cfg s (dealloc cfg (s.updBody id (fun _ => b)) id { o with body := b }).1 := by
  refine stable_trans (stable_updBody s id _) (stable_dealloc ?_)
  rw [get_updBody, hget]; simp

theorem stable_freeObj {s : St} (f : FreeOp) {id : Nat} {o : Obj} (hget : s.get id = some o) :
    Stable cfg s (freeObj cfg s f id o).1 := by
  cases f with
  | dealloc => exact stable_dealloc hget
  | deallocRaw => exact stable_dealloc hget
  | deallocRoot => exact stable_dealloc hget
  | destruct => simp only [freeObj]; exact stable_updBody s id _
  | delRaw =>
    simp only [freeObj]
    cases hdb : destructBody cfg o.hdr o.body with
    | mk b out =>
      cases out with
      | ok => exact stable_destruct_dealloc hget b
      | raised e => exact stable_refl s
      | ub => exact stable_refl s
  | del =>
    simp only [freeObj]
    repeat' split
    all_goals first
      | exact stable_refl s
      | exact stable_unreg s id
      | exact stable_destruct_dealloc hget _
      | exact stable_trans (stable_unreg s id) (stable_destruct_dealloc (s := s.unreg id) hget _)
  | delRoot =>
    simp only [freeObj]
    repeat' split
    all_goals first
      | exact stable_refl s
      | exact stable_unreg s id
      | exact stable_destruct_dealloc hget _
      | exact stable_trans (stable_unreg s id) (stable_destruct_dealloc (s := s.unreg id) hget _)

theorem stable_sweepOne (s : St) (id : Nat) : Stable cfg s (sweepOne cfg s id) := by
  unfold sweepOne
  split
  · exact stable_refl s
  · split
    · rename_i o hget
      simp only
      repeat' split
      all_goals first
        | exact stable_unreg s id
        | exact stable_trans (stable_unreg s id) (stable_destruct_dealloc (s := s.unreg id) hget _)
    · exact stable_unreg s id

theorem stable_foldl_sweepOne (l : List Nat) : ∀ s : St, Stable cfg s (l.foldl (sweepOne cfg) s) := by
  induction l with
  | nil => intro s; exact stable_refl s
  | cons x r ih => intro s; exact stable_trans (stable_sweepOne s x) (ih _)

theorem stable_step (s : St) (op : Op) : Stable cfg s (step cfg s op).1 := by
  cases op with
  | make id r i =>
    simp only [step, stepMake]
    repeat' split
    all_goals first
      | exact stable_refl s
      | exact stable_birth s _ _ _ _
      | exact stable_trans (stable_birth s _ _ _ _) (stable_rtSizes _ _)
  | static id name =>
    simp only [step, stepStatic]
    repeat' split
    all_goals first
      | exact stable_refl s
      | exact stable_addObj _ _
  | copy id src =>
    simp only [step, stepCopy]
    repeat' split
    all_goals first
      | exact stable_refl s
      | exact stable_birth s _ _ _ _
  | obs t => simp only [step]; repeat' split
             all_goals exact stable_refl s
  | free f t =>
    simp only [step, stepFree]
    split
    · exact stable_refl s
    · rename_i o hget
      cases t with
      | obj id =>
        simp only [Target.id] at hget
        simp only
        repeat' split
        all_goals first
          | exact stable_refl s
          | exact stable_freeObj _ hget
      | elem id i => simp only; repeat' split
                     all_goals first | exact stable_refl s | exact stable_updBody s _ _
      | key id i => simp only; repeat' split
                    all_goals first | exact stable_refl s | exact stable_updBody s _ _
      | val id i => simp only; repeat' split
                    all_goals first | exact stable_refl s | exact stable_updBody s _ _
  | inplace ip t =>
    simp only [step, stepInplace]
    repeat' split
    all_goals first | exact stable_refl s | exact stable_updBody s _ _
  | iter id back => simp only [step]; split <;> exact stable_refl s
  | values id => simp only [step]; split <;> exact stable_refl s
  | view v => simp only [step]; split <;> exact stable_refl s
  | sweep victims => simp only [step, St.sweep]; exact stable_foldl_sweepOne _ s
  | finish => exact stable_refl s

theorem stable_run (ops : List Op) : ∀ s : St, Stable cfg s (run cfg s ops) := by
  induction ops with
  | nil => intro s; exact stable_refl s
  | cons op r ih => intro s; exact stable_trans (stable_step s op) (ih _)

end Cello.Hdr
