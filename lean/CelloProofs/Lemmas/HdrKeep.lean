/-
  Lemmas for C19: no operation of the model ever changes the header or the reserved size of an existing object, and an
  object whose class is not `heap` is never released (`Stable`).  Purely structural: no assumption on the configuration.
-/
import CelloProofs.Lemmas.HdrStep

namespace Cello.Hdr

variable {cfg : Config}

/-- `o'` is `o` later: same header, same reserved bytes; if `o` is not a heap object it is as alive as before -/
def Keeps (cfg : Config) (o o' : Obj) : Prop :=
  o'.hdr = o.hdr ∧ o'.cap = o.cap ∧ (o.hdr.alloc ≠ cfg.cHeap → o'.live = o.live)

theorem keeps_refl (o : Obj) : Keeps cfg o o := ⟨rfl, rfl, fun _ => rfl⟩

theorem keeps_trans {a b c : Obj} (h1 : Keeps cfg a b) (h2 : Keeps cfg b c) : Keeps cfg a c :=
  ⟨h2.1.trans h1.1, h2.2.1.trans h1.2.1, fun hn => (h2.2.2 (by rw [h1.1]; exact hn)).trans (h1.2.2 hn)⟩

def Stable (cfg : Config) (s s' : St) : Prop := ∀ id o, s.get id = some o → ∃ o', s'.get id = some o' ∧ Keeps cfg o o'

theorem stable_refl (s : St) : Stable cfg s s := fun _ o h => ⟨o, h, keeps_refl o⟩

theorem stable_trans {a b c : St} (h1 : Stable cfg a b) (h2 : Stable cfg b c) : Stable cfg a c := by
  intro id o h
  obtain ⟨o1, g1, k1⟩ := h1 id o h
  obtain ⟨o2, g2, k2⟩ := h2 id o1 g1
  exact ⟨o2, g2, keeps_trans k1 k2⟩

theorem stable_updBody (s : St) (id : Nat) (f : Body → Body) : Stable cfg s (s.updBody id f) := by
  intro k o h
  rw [get_updBody, h]
  by_cases hk : k = id
  · exact ⟨{ o with body := f o.body }, by simp [hk], rfl, rfl, fun _ => rfl⟩
  · exact ⟨o, by simp [hk], keeps_refl o⟩

theorem stable_unreg (s : St) (id : Nat) : Stable cfg s (s.unreg id) := fun _ o h => ⟨o, h, keeps_refl o⟩

theorem stable_rtSizes (s : St) (x : List (Nat × Nat)) : Stable cfg s { s with rtSizes := x } :=
  fun _ o h => ⟨o, h, keeps_refl o⟩

theorem stable_release {s : St} {id : Nat} {o : Obj} (hget : s.get id = some o) (hheap : o.hdr.alloc = cfg.cHeap) :
    Stable cfg s (s.release id) := by
  intro k o' h
  rw [get_release, h]
  by_cases hk : k = id
  · subst hk
    rw [hget] at h; cases h
    exact ⟨{ o with live := false }, by simp, rfl, rfl, fun hn => absurd hheap hn⟩
  · exact ⟨o', by simp [hk], keeps_refl o'⟩

theorem stable_addObj {s : St} (id : Nat) (o : Obj) : Stable cfg s { s with objs := s.objs ++ [(id, o)] } := by
  intro k o' h
  refine ⟨o', ?_, keeps_refl o'⟩
  simp only [St.get] at *
  rw [assoc_append, h]

theorem stable_birth (s : St) (id : Nat) (r : Route) (ty : Ty) (b : Body) : Stable cfg s (s.birth cfg id r ty b) := by
  intro k o' h
  refine ⟨o', ?_, keeps_refl o'⟩
  simp only [St.get, St.birth] at *
  rw [assoc_append, h]

theorem stable_dealloc {s : St} {id : Nat} {o : Obj} (hget : s.get id = some o) : Stable cfg s (dealloc cfg s id o).1 := by
  unfold dealloc
  split
  · exact stable_refl s
  · split
    · rename_i hheap; exact stable_release hget hheap
    · exact stable_refl s

theorem stable_destruct_dealloc {s : St} {id : Nat} {o : Obj} (hget : s.get id = some o) (b : Body) :
    Stable cfg s (dealloc cfg (s.updBody id (fun _ => b)) id { o with body := b }).1 := by
  refine stable_trans (stable_updBody s id _) (stable_dealloc ?_)
  rw [get_updBody, hget]; simp

theorem stable_setPending (s : St) (p : List (Option Nat)) : Stable cfg s { s with pending := p } :=
  fun _ o h => ⟨o, h, keeps_refl o⟩

theorem stable_setReg (s : St) (r : List (Nat × Bool)) : Stable cfg s { s with reg := r } :=
  fun _ o h => ⟨o, h, keeps_refl o⟩

/-- `dealloc` looks at the header only -/
theorem stable_dealloc' {s : St} {id : Nat} {o o' : Obj} (hget : s.get id = some o) (hh : o'.hdr = o.hdr) :
    Stable cfg s (dealloc cfg s id o').1 := by
  unfold dealloc
  split
  · exact stable_refl s
  · split
    · rename_i hheap; exact stable_release hget (by rw [← hh]; exact hheap)
    · exact stable_refl s

/-- a call that may raise, followed by one more step when it did not -/
theorem stable_then {fin : St → Nat → St × Outcome} (hfin : ∀ s x, Stable cfg s (fin s x).1) (s : St) (x : Nat)
    {r : St × Outcome} {g : St → St} (hg : ∀ t, Stable cfg t (g t))
    (hr : r = (match fin s x with | (s1, .ok) => (g s1, Outcome.ok) | r => r)) : Stable cfg s r.1 := by
  subst hr
  split
  · rename_i s1 heq
    have h := hfin s x
    rw [heq] at h
    exact stable_trans h (hg s1)
  · exact hfin s x

theorem stable_gcRem {fin : St → Nat → St × Outcome} (hfin : ∀ s x, Stable cfg s (fin s x).1) (s : St) (x : Nat) :
    Stable cfg s (gcRem fin cfg s x).1 := by
  unfold gcRem
  split
  · split
    · split
      · exact stable_trans (stable_setPending s _) (hfin _ _)
      · exact stable_then hfin s x (g := fun t => { t with pending := strike x t.pending }) (fun t => stable_setPending t _) rfl
      · exact hfin s x
    · split
      · exact stable_refl s
      · exact stable_setPending s _
  · split
    · split
      · exact stable_trans (stable_unreg s x) (hfin _ _)
      · exact stable_then hfin s x (g := fun t => t.unreg x) (fun t => stable_unreg t x) rfl
      · exact hfin s x
    · exact stable_refl s

theorem stable_finalise : ∀ (fuel : Nat) (s : St) (id : Nat), Stable cfg s (finalise fuel cfg s id).1 := by
  intro fuel
  induction fuel with
  | zero => intro s id; exact stable_refl s
  | succ fuel ih =>
    intro s id
    rw [finalise_succ]
    split
    · exact stable_refl s
    · rename_i o hget
      split
      · exact stable_refl s
      · split
        · rename_i x hbx
          split
          · split
            · rename_i s1 heq
              have h1 : Stable cfg s s1 := by
                have := stable_gcRem (cfg := cfg) ih s x
                rw [heq] at this; exact this
              split
              · obtain ⟨o1, hg1, k1⟩ := h1 id o hget
                refine stable_trans h1 (stable_trans (stable_updBody s1 id _) (stable_dealloc' (o := { o1 with body := .box none }) ?_ k1.1.symm))
                rw [get_updBody, hg1]; simp
              · exact h1
            · exact stable_gcRem ih s x
          · exact stable_destruct_dealloc hget _
        · cases hdb : destructBody cfg o.hdr o.body with
          | mk b out =>
            cases out with
            | ok => exact stable_destruct_dealloc hget b
            | raised e => exact stable_refl s
            | ub => exact stable_refl s

theorem stable_destructObj {s : St} {id : Nat} {o : Obj} : Stable cfg s (destructObj cfg s id o).1 := by
  unfold destructObj
  split
  · rename_i x _
    split
    · have ht := stable_gcRem (cfg := cfg) (stable_finalise (fuelFor s)) s x
      split
      · rename_i s1 heq
        rw [heq] at ht
        exact stable_trans ht (stable_updBody s1 id _)
      · exact ht
    · exact stable_updBody s id _
  · exact stable_updBody s id _

theorem stable_freeObj {s : St} (f : FreeOp) {id : Nat} {o : Obj} (hget : s.get id = some o) :
    Stable cfg s (freeObj cfg s f id o).1 := by
  cases f with
  | dealloc => exact stable_dealloc hget
  | deallocRaw => exact stable_dealloc hget
  | deallocRoot => exact stable_dealloc hget
  | destruct => simp only [freeObj]; exact stable_destructObj
  | delRaw =>
    simp only [freeObj]
    split
    · exact stable_dealloc hget
    · exact stable_finalise _ s id
  | del =>
    simp only [freeObj]
    split
    · exact stable_gcRem (stable_finalise _) s id
    · exact stable_finalise _ s id
  | delRoot =>
    simp only [freeObj]
    split
    · exact stable_gcRem (stable_finalise _) s id
    · exact stable_finalise _ s id

theorem stable_sweepLoop (fuel : Nat) : ∀ (todo : List Nat) (s : St), Stable cfg s (sweepLoop fuel cfg todo s).1 := by
  intro todo
  induction todo with
  | nil => intro s; exact stable_refl s
  | cons a rest ih =>
    intro s
    rw [sweepLoop]
    split
    · split
      · -- the loop finalises
        have hfin : ∀ (t : St) (x : Nat), Stable cfg t (finalise fuel cfg t x).1 := fun t x => stable_finalise fuel t x
        have hr : ∀ r : St × Outcome, Stable cfg s r.1 →
            Stable cfg s (match r with | (s', Outcome.ok) => sweepLoop fuel cfg rest s' | r => r).1 := by
          intro r h
          split
          · exact stable_trans h (ih _)
          · exact h
        apply hr
        split
        · exact stable_trans (stable_setPending s _) (hfin _ _)
        · exact stable_then hfin s a (g := fun t => { t with pending := strike a t.pending }) (fun t => stable_setPending t _) rfl
        · exact hfin s a
      · split
        · exact ih s
        · exact stable_trans (stable_setPending s _) (ih _)
    · exact ih s

theorem stable_collect (s : St) (vs : List Nat) : Stable cfg s (s.collect cfg vs).1 := by
  unfold St.collect
  have h1 : Stable cfg s { s with reg := s.reg.filter (fun p => !vs.contains p.1), pending := vs.map some } :=
    fun _ o h => ⟨o, h, keeps_refl o⟩
  simp only
  split
  · rename_i s2 heq
    have := stable_sweepLoop (cfg := cfg) (fuelFor { s with reg := s.reg.filter (fun p => !vs.contains p.1), pending := vs.map some })
      vs { s with reg := s.reg.filter (fun p => !vs.contains p.1), pending := vs.map some }
    rw [heq] at this
    exact stable_trans h1 (stable_trans this (stable_setPending s2 _))
  · exact stable_trans h1 (stable_sweepLoop _ _ _)

theorem stable_stepOwn (s : St) (id : Nat) (target : Option Nat) : Stable cfg s (stepOwn cfg s id target).1 := by
  unfold stepOwn
  repeat' split
  all_goals first
    | exact stable_refl s
    | exact stable_updBody s id _

theorem stable_step (s : St) (op : Op) : Stable cfg s (step cfg s op).1 := by
  cases op with
  | make id r i =>
    simp only [step, stepMake]
    repeat' split
    all_goals first
      | exact stable_refl s
      | exact stable_birth s _ _ _ _
      | exact stable_trans (stable_birth s _ _ _ _) (stable_rtSizes _ _)
  | static id name =>
    simp only [step, stepStatic]
    repeat' split
    all_goals first
      | exact stable_refl s
      | exact stable_addObj _ _
  | copy id src =>
    simp only [step, stepCopy]
    repeat' split
    all_goals first
      | exact stable_refl s
      | exact stable_birth s _ _ _ _
  | obs t => simp only [step]; repeat' split
             all_goals exact stable_refl s
  | free f t =>
    simp only [step, stepFree]
    split
    · exact stable_refl s
    · rename_i o hget
      cases t with
      | obj id =>
        simp only [Target.id] at hget
        simp only
        repeat' split
        all_goals first
          | exact stable_refl s
          | exact stable_freeObj _ hget
      | elem id i => simp only; repeat' split
                     all_goals first | exact stable_refl s | exact stable_updBody s _ _
      | key id i => simp only; repeat' split
                    all_goals first | exact stable_refl s | exact stable_updBody s _ _
      | val id i => simp only; repeat' split
                    all_goals first | exact stable_refl s | exact stable_updBody s _ _
  | inplace ip t =>
    simp only [step, stepInplace]
    repeat' split
    all_goals first | exact stable_refl s | exact stable_updBody s _ _
  | iter id back => simp only [step]; split <;> exact stable_refl s
  | values id => simp only [step]; split <;> exact stable_refl s
  | view v => simp only [step]; split <;> exact stable_refl s
  | own id target => simp only [step]; exact stable_stepOwn s id target
  | sweep victims order => simp only [step]; split
                           · exact stable_refl s
                           · simp only [St.sweep]; exact stable_collect s _
  | thr victims order => simp only [step]; split
                         · exact stable_refl s
                         · simp only [St.sweep]; exact stable_collect s _
  | exit order => simp only [step]; exact stable_refl s
  | finish => exact stable_refl s

theorem stable_run (ops : List Op) : ∀ s : St, Stable cfg s (run cfg s ops) := by
  induction ops with
  | nil => intro s; exact stable_refl s
  | cons op r ih => intro s; exact stable_trans (stable_step s op) (ih _)

end Cello.Hdr
