/-
  Lemmas tying the recursive marker with the call structure of GC.c (`Cello.Heap.level`, Cello/HeapRec.lean) to the
  worklist marker `Cello.Heap.dfs`; the divergence of the un-repaired callback on a self-containing Tuple; facts about
  the list implementation of the mark bits.
-/
import Cello.Heap
import Cello.HeapRec
import CelloProofs.Lemmas.Mark

namespace Cello.Heap

/-! ### list implementation: marking events -/

theorem dfs_list_nodup (c : Cfg) (h : Heap) : ∀ (stack : List Word) (m : List Addr), m.Nodup →
    (dfs listSet c h stack m).Nodup := by
  intro stack m
  induction stack, m using dfs.induct listSet c h with
  | case1 m => intro hn; rw [dfs_nil]; exact hn
  | case2 m w st hw ih =>
    intro hn
    rw [dfs_cons_pos listSet c h w st m hw]
    apply ih
    have : w ∉ m := by
      have := hw.2
      simpa [listSet] using this
    exact List.nodup_cons.mpr ⟨this, hn⟩
  | case3 m w st hw ih =>
    intro hn
    rw [dfs_cons_neg listSet c h w st m hw]
    exact ih hn

theorem dfs_list_regs (c : Cfg) (h : Heap) : ∀ (stack : List Word) (m : List Addr), (∀ a ∈ m, a ∈ h.regs) →
    ∀ a ∈ dfs listSet c h stack m, a ∈ h.regs := by
  intro stack m
  induction stack, m using dfs.induct listSet c h with
  | case1 m => intro hm; rw [dfs_nil]; exact hm
  | case2 m w st hw ih =>
    intro hm
    rw [dfs_cons_pos listSet c h w st m hw]
    apply ih
    intro a ha
    rcases List.mem_cons.mp ha with h1 | h1
    · subst h1
      have hreg := accepts_registered hw.1
      cases hl : h.lookup a with
      | none => simp [hl] at hreg
      | some e => exact h.complete a e hl
    · exact hm a h1
  | case3 m w st hw ih =>
    intro hm
    rw [dfs_cons_neg listSet c h w st m hw]
    exact ih hm

/-! ### the recursion agrees with the worklist -/

section agree
variable {σ : Type} (S : MarkSet σ) (c : Cfg) (h : Heap)

theorem fieldsL_eq_flatMap (es : List Obj) : fieldsL c es = es.flatMap (fields c) := by
  induction es with
  | nil => rfl
  | cons x xs ih => simp [fieldsL, ih]

/-- what the Mark instance of the object's type hands on (given that the type has one).  `own`: the object is the marking
    thread's `current(Thread)`; `Thread_Mark` walks `t->tls` always (`c.foreignTls`, the source as it is) or only then (the
    variant of the withdrawn repair 80c795e) -/
def markBody (c : Cfg) (own : Bool) : Obj → List Word
  | .raw _ _ => []
  | .cont _ es => fieldsL c es
  | .tup _ items => items
  | .thr _ tls => if own || c.foreignTls then viaMark c tls else []

theorem viaMark_eq (o : Obj) : viaMark c o = if c.hasMark o.ty then markBody c true o else [] := by
  cases o <;> simp only [viaMark, markBody, Obj.ty, Bool.true_or, if_true] <;>
    (rename_i ty _; by_cases hx : c.hasMark ty = true <;> simp [hx])

theorem fields_leaf (o : Obj) (hl : c.isLeaf o.ty = true) : fields c o = [] := by
  cases o <;> simp_all [fields, Obj.ty]

theorem fields_mark (o : Obj) (hl : c.isLeaf o.ty = false) (hm : c.hasMark o.ty = true) : fields c o = markBody c false o := by
  cases o <;> simp_all [fields, markBody, Obj.ty]

theorem fields_scan (o : Obj) (hl : c.isLeaf o.ty = false) (hm : c.hasMark o.ty = false) :
    fields c o = match o with | .raw _ ws => scanWords c ws | _ => [] := by
  cases o <;> simp only [Obj.ty] at hl hm <;> simp [fields, hl, hm]

theorem dfs_singleton_append (w : Word) (ws : List Word) (m : σ) :
    dfs S c h (w :: ws) m = dfs S c h ws (dfs S c h [w] m) := by
  have := dfs_append S c h [w] m ws
  simpa using this

/-- a loop whose body agrees with the worklist on `g x` agrees with it on the concatenation -/
theorem foldRes_agree {α : Type} (f : α → σ → Res σ) (g : α → List Word)
    (hf : ∀ x m m', f x m = .ok m' → m' = dfs S c h (g x) m) :
    ∀ (xs : List α) (m m' : σ), foldRes f xs m = .ok m' → m' = dfs S c h (xs.flatMap g) m := by
  intro xs
  induction xs with
  | nil =>
    intro m m' hok
    simp only [foldRes] at hok
    have hmm : m' = m := by simpa using hok.symm
    simp [dfs_nil, hmm]
  | cons x xs ih =>
    intro m m' hok
    simp only [foldRes] at hok
    cases hx : f x m with
    | ok m1 =>
      rw [hx] at hok
      simp only [Res.bind] at hok
      have h1 := hf x m m1 hx
      have h2 := ih m1 m' hok
      rw [List.flatMap_cons, dfs_append, ← h1]; exact h2
    | deep => rw [hx] at hok; simp [Res.bind] at hok
    | ub => rw [hx] at hok; simp [Res.bind] at hok

theorem level_item_succ (d : Nat) (w : Word) (m : σ) :
    (level S c h (d + 1)).item w m =
      if w % 8 == 0 && decide (h.minptr ≤ w) && decide (w ≤ h.maxptr) then
        match h.lookup w with
        | some e => if S.mem w m then .ok m else (level S c h d).recurse e.obj (S.insert w m)
        | none => .ok m
      else .ok m := rfl

theorem level_recurse_succ (d : Nat) (o : Obj) (m : σ) :
    (level S c h (d + 1)).recurse o m =
      if c.isLeaf o.ty then .ok m
      else if c.hasMark o.ty then markInst c false (level S c h d).recurse (callback c h (level S c h d)) o m
      else match o with
        | .raw _ ws => foldRes (level S c h d).item (scanWords c ws) m
        | _ => .ok m := rfl

/-- the Mark instance, given that element tracing and the callback agree with the worklist -/
theorem markInst_agree (rec : Obj → σ → Res σ) (cb : Word → σ → Res σ)
    (hrec : ∀ o m m', rec o m = .ok m' → m' = dfs S c h (fields c o) m)
    (hcb : ∀ w m m', cb w m = .ok m' → m' = dfs S c h [w] m) :
    ∀ (own : Bool) (o : Obj) (m m' : σ), markInst c own rec cb o m = .ok m' → m' = dfs S c h (markBody c own o) m
  | _, .raw _ _, m, m', hok => by
    simp only [markInst] at hok
    have hmm : m' = m := by simpa using hok.symm
    simp [markBody, dfs_nil, hmm]
  | _, .cont _ es, m, m', hok => by
    simp only [markInst] at hok
    have := foldRes_agree S c h rec (fields c) hrec es m m' hok
    simpa [markBody, fieldsL_eq_flatMap] using this
  | _, .tup _ items, m, m', hok => by
    simp only [markInst] at hok
    have := foldRes_agree S c h cb (fun w => [w]) hcb items m m' hok
    simpa [markBody] using this
  | own, .thr _ tls, m, m', hok => by
    simp only [markInst] at hok
    simp only [markBody]
    split at hok
    · rename_i hw
      simp only [hw, if_true]
      rw [viaMark_eq]
      split at hok
      · rename_i hm
        simp only [hm, if_true]
        exact markInst_agree rec cb hrec hcb true tls m m' hok
      · rename_i hm
        have hmm : m' = m := by simpa using hok.symm
        simp [hm, dfs_nil, hmm]
    · rename_i hw
      have hmm : m' = m := by simpa using hok.symm
      simp [hw, dfs_nil, hmm]

theorem accepts_eq (w : Word) :
    h.accepts w = ((w % 8 == 0 && decide (h.minptr ≤ w) && decide (w ≤ h.maxptr)) && (h.lookup w).isSome) := rfl

/-- both functions of every level agree with the worklist marker whenever they complete (guarded callback) -/
theorem level_agree (hg : c.guarded = true) : ∀ d : Nat,
    (∀ w m m', (level S c h d).item w m = .ok m' → m' = dfs S c h [w] m) ∧
    (∀ o m m', (level S c h d).recurse o m = .ok m' → m' = dfs S c h (fields c o) m) := by
  intro d
  induction d with
  | zero => exact ⟨fun w m m' hok => by simp [level] at hok, fun o m m' hok => by simp [level] at hok⟩
  | succ d ih =>
    obtain ⟨ihI, ihR⟩ := ih
    constructor
    · intro w m m' hok
      rw [level_item_succ] at hok
      by_cases hchk : (w % 8 == 0 && decide (h.minptr ≤ w) && decide (w ≤ h.maxptr)) = true
      · simp only [hchk, if_true] at hok
        cases hl : h.lookup w with
        | none =>
          rw [hl] at hok
          have hmm : m' = m := by simpa using hok.symm
          have : ¬ (h.accepts w = true ∧ S.mem w m = false) := by simp [accepts_eq, hl]
          rw [hmm, dfs_cons_neg S c h w [] m this, dfs_nil]
        | some e =>
          rw [hl] at hok
          simp only at hok
          cases hm : S.mem w m with
          | true =>
            simp only [hm, if_true] at hok
            have hmm : m' = m := by simpa using hok.symm
            have : ¬ (h.accepts w = true ∧ S.mem w m = false) := by simp [hm]
            rw [hmm, dfs_cons_neg S c h w [] m this, dfs_nil]
          | false =>
            simp only [hm] at hok
            have hacc : h.accepts w = true ∧ S.mem w m = false := ⟨by simp [accepts_eq, hchk, hl], hm⟩
            rw [dfs_cons_pos S c h w [] m hacc, fieldsAt_lookup hl, List.append_nil]
            exact ihR e.obj _ m' (by simpa using hok)
      · simp only [hchk] at hok
        have hmm : m' = m := by simpa using hok.symm
        have : ¬ (h.accepts w = true ∧ S.mem w m = false) := by
          intro hx; apply hchk
          have := hx.1
          rw [accepts_eq, Bool.and_eq_true] at this
          exact this.1
        rw [hmm, dfs_cons_neg S c h w [] m this, dfs_nil]
    · intro o m m' hok
      rw [level_recurse_succ] at hok
      cases hleaf : c.isLeaf o.ty with
      | true =>
        simp only [hleaf, if_true] at hok
        have hmm : m' = m := by simpa using hok.symm
        rw [hmm, fields_leaf c o hleaf, dfs_nil]
      | false =>
        simp only [hleaf] at hok
        cases hmk : c.hasMark o.ty with
        | true =>
          simp only [hmk, if_true] at hok
          rw [fields_mark c o hleaf hmk]
          refine markInst_agree S c h _ _ ihR ?_ false o m m' (by simpa using hok)
          intro w m1 m2 hcb
          simp only [callback, hg, if_true] at hcb
          split at hcb
          · exact ihI w m1 m2 hcb
          · cases hcb
        | false =>
          simp only [hmk] at hok
          rw [fields_scan c o hleaf hmk]
          cases o with
          | raw ty ws =>
            simp only at hok ⊢
            have := foldRes_agree S c h _ (fun w => [w]) ihI (scanWords c ws) m m' (by simpa using hok)
            simpa using this
          | cont ty es =>
            have hmm : m' = m := by simpa using hok.symm
            simp [hmm, dfs_nil]
          | tup ty items =>
            have hmm : m' = m := by simpa using hok.symm
            simp [hmm, dfs_nil]
          | thr ty tls =>
            have hmm : m' = m := by simpa using hok.symm
            simp [hmm, dfs_nil]

theorem rec_items_agree (hg : c.guarded = true) (d : Nat) (ws : List Word) (m m' : σ)
    (hok : foldRes (level S c h d).item ws m = .ok m') : m' = dfs S c h ws m := by
  have := foldRes_agree S c h _ (fun w => [w]) (level_agree S c h hg d).1 ws m m' hok
  simpa using this

end agree

/-! ### a concrete heap for the non-vacuity examples and the F25 witness -/

/-- a small heap: 4096 ↦ Array [Ref → 4160], 4160 ↦ Tuple [4160, 4224] (contains itself), 4224 ↦ Probe (leafless),
    4288 ↦ Probe referenced only from thread-local storage, 4352 ↦ garbage -/
def demoHeap : Heap where
  lookup a :=
    if a = 4096 then some ⟨.cont "Array" [.raw "Ref" [4160]], false⟩
    else if a = 4160 then some ⟨.tup "Tuple" [4160, 4224], false⟩
    else if a = 4224 then some ⟨.raw "Probe" [7, 4100, 0], false⟩
    else if a = 4288 then some ⟨.raw "Probe" [4224], false⟩
    else if a = 4352 then some ⟨.raw "Ref" [4096], false⟩
    else none
  regs := [4096, 4160, 4224, 4288, 4352]
  minptr := 4096
  maxptr := 4352
  complete := by
    intro a e he
    by_cases h1 : a = 4096; · simp [h1]
    by_cases h2 : a = 4160; · simp [h2]
    by_cases h3 : a = 4224; · simp [h3]
    by_cases h4 : a = 4288; · simp [h4]
    by_cases h5 : a = 4352; · simp [h5]
    simp [h1, h2, h3, h4, h5] at he

def demoThread : Obj := .thr "Thread" (.cont "Table" [.raw "String" [0], .raw "Ref" [4288]])

theorem demoHeap_wf : demoHeap.WF := by
  constructor <;> intro a e he <;> simp only [demoHeap] at he ⊢ <;>
    (repeat' split at he) <;> first | (cases he) | (subst_vars; decide) | skip
  all_goals simp_all

/-! ### the un-repaired callback on a Tuple that contains itself -/

def selfTupleHeap : Heap where
  lookup a := if a = 4096 then some ⟨.tup "Tuple" [4096], false⟩ else none
  regs := [4096]
  minptr := 4096
  maxptr := 4096
  complete := by
    intro a e he
    by_cases h1 : a = 4096
    · simp [h1]
    · simp [h1] at he

theorem selfTuple_recurse_deep {σ : Type} (S : MarkSet σ) (c : Cfg) (hl : c.isLeaf "Tuple" = false)
    (hk : c.hasMark "Tuple" = true) (hg : c.guarded = false) (m : σ) (hm : S.mem 4096 m = true) :
    ∀ d, (level S c selfTupleHeap d).recurse (.tup "Tuple" [4096]) m = .deep := by
  intro d
  induction d with
  | zero => rfl
  | succ d ih =>
    rw [level_recurse_succ]
    simp only [Obj.ty, hl, hk, if_true, markInst, foldRes, callback, hg]
    cases d with
    | zero => rfl
    | succ d =>
      rw [level_item_succ]
      have hlook : selfTupleHeap.lookup 4096 = some ⟨.tup "Tuple" [4096], false⟩ := rfl
      have hchk : ((4096 : Nat) % 8 == 0 && decide (selfTupleHeap.minptr ≤ 4096) && decide (4096 ≤ selfTupleHeap.maxptr)) = true := by decide
      simp only [hchk, if_true, hlook, hm, Res.bind]
      rw [ih]
      rfl

theorem selfTuple_diverges {σ : Type} (S : MarkSet σ) (c : Cfg) (hl : c.isLeaf "Tuple" = false)
    (hk : c.hasMark "Tuple" = true) (hg : c.guarded = false) (d : Nat) :
    (level S c selfTupleHeap d).item 4096 S.empty = .deep := by
  cases d with
  | zero => rfl
  | succ d =>
    rw [level_item_succ]
    have hlook : selfTupleHeap.lookup 4096 = some ⟨.tup "Tuple" [4096], false⟩ := rfl
    have hchk : ((4096 : Nat) % 8 == 0 && decide (selfTupleHeap.minptr ≤ 4096) && decide (4096 ≤ selfTupleHeap.maxptr)) = true := by decide
    simp only [hchk, if_true, hlook, S.mem_empty]
    exact selfTuple_recurse_deep S c hl hk hg _ (by rw [S.mem_insert]; simp) d

end Cello.Heap

/-! ### the recursion completes (guarded callback): a large enough depth budget exists for every heap -/

namespace Cello.Heap

mutual
/-- every stored pointer that a Mark instance inside this object (at any nesting) hands to the callback -/
def handed : Obj → List Word
  | .raw _ _ => []
  | .cont _ es => handedL es
  | .tup _ items => items
  | .thr _ tls => handed tls
def handedL : List Obj → List Word
  | [] => []
  | o :: os => handed o ++ handedL os
end

/-- the pointers that Tuples (and user Mark instances) hand to the callback are registered objects: otherwise the C
    code reads memory the model knows nothing about (`Res.ub`) -/
def Heap.CallbackSafe (h : Heap) : Prop :=
  ∀ a e, h.lookup a = some e → ∀ w ∈ handed e.obj, (h.lookup w).isSome = true

section complete
variable {σ : Type} (S : MarkSet σ) (c : Cfg) (h : Heap)

theorem foldRes_append {α : Type} (f : α → σ → Res σ) (xs ys : List α) (m : σ) :
    foldRes f (xs ++ ys) m = (foldRes f xs m).bind (foldRes f ys) := by
  induction xs generalizing m with
  | nil => rfl
  | cons x xs ih =>
    simp only [List.cons_append, foldRes]
    cases f x m with
    | ok m1 => simp only [Res.bind]; exact ih m1
    | deep => rfl
    | ub => rfl

theorem foldRes_append_ok {α : Type} (f : α → σ → Res σ) (xs ys : List α) (m r : σ)
    (hok : foldRes f (xs ++ ys) m = .ok r) : ∃ m1, foldRes f xs m = .ok m1 ∧ foldRes f ys m1 = .ok r := by
  rw [foldRes_append] at hok
  cases hx : foldRes f xs m with
  | ok m1 => rw [hx] at hok; exact ⟨m1, rfl, hok⟩
  | deep => rw [hx] at hok; cases hok
  | ub => rw [hx] at hok; cases hok

theorem foldRes_mono {α : Type} (f g : α → σ → Res σ) (xs : List α)
    (hfg : ∀ x ∈ xs, ∀ m r, f x m = .ok r → g x m = .ok r) :
    ∀ m r, foldRes f xs m = .ok r → foldRes g xs m = .ok r := by
  induction xs with
  | nil => intro m r hok; exact hok
  | cons x xs ih =>
    intro m r hok
    simp only [foldRes] at hok ⊢
    cases hx : f x m with
    | ok m1 =>
      rw [hx] at hok
      rw [hfg x List.mem_cons_self m m1 hx]
      exact ih (fun y hy => hfg y (List.mem_cons_of_mem _ hy)) m1 r hok
    | deep => rw [hx] at hok; cases hok
    | ub => rw [hx] at hok; cases hok

theorem markInst_mono (rec rec' : Obj → σ → Res σ) (cb cb' : Word → σ → Res σ)
    (hrec : ∀ o m r, rec o m = .ok r → rec' o m = .ok r) (hcb : ∀ w m r, cb w m = .ok r → cb' w m = .ok r) :
    ∀ (own : Bool) (o : Obj) (m r : σ), markInst c own rec cb o m = .ok r → markInst c own rec' cb' o m = .ok r
  | _, .raw _ _, m, r, hok => by simpa [markInst] using hok
  | _, .cont _ es, m, r, hok => by
    simp only [markInst] at hok ⊢
    exact foldRes_mono rec rec' es (fun o _ => hrec o) m r hok
  | _, .tup _ items, m, r, hok => by
    simp only [markInst] at hok ⊢
    exact foldRes_mono cb cb' items (fun w _ => hcb w) m r hok
  | own, .thr _ tls, m, r, hok => by
    simp only [markInst] at hok ⊢
    split at hok
    · rename_i hw
      simp only [hw, if_true]
      split at hok
      · rename_i hm; simp only [hm, if_true]; exact markInst_mono rec rec' cb cb' hrec hcb true tls m r hok
      · rename_i hm; simp only [hm]; exact hok
    · rename_i hw; simp only [hw]; exact hok

theorem callback_mono (L L' : Level σ) (hi : ∀ w m r, L.item w m = .ok r → L'.item w m = .ok r)
    (hr : ∀ o m r, L.recurse o m = .ok r → L'.recurse o m = .ok r) :
    ∀ w m r, callback c h L w m = .ok r → callback c h L' w m = .ok r := by
  intro w m r hok
  unfold callback at hok ⊢
  cases hg : c.guarded with
  | true =>
    simp only [hg, if_true] at hok ⊢
    split at hok
    · rename_i hreg; simp only [hreg, if_true]; exact hi w m r hok
    · cases hok
  | false =>
    simp only [hg] at hok ⊢
    cases hx : L.item w m with
    | ok m1 =>
      rw [hx] at hok
      rw [hi w m m1 hx]
      simp only [Res.bind] at hok ⊢
      cases hl : h.lookup w with
      | none => rw [hl] at hok; cases hok
      | some e => rw [hl] at hok; exact hr e.obj m1 r hok
    | deep => rw [hx] at hok; cases hok
    | ub => rw [hx] at hok; cases hok

/-- a larger budget changes nothing once the recursion completes -/
theorem level_mono : ∀ d : Nat,
    (∀ w m r, (level S c h d).item w m = .ok r → (level S c h (d + 1)).item w m = .ok r) ∧
    (∀ o m r, (level S c h d).recurse o m = .ok r → (level S c h (d + 1)).recurse o m = .ok r) := by
  intro d
  induction d with
  | zero => exact ⟨fun w m r hok => by simp [level] at hok, fun o m r hok => by simp [level] at hok⟩
  | succ d ih =>
    obtain ⟨ihI, ihR⟩ := ih
    constructor
    · intro w m r hok
      rw [level_item_succ] at hok ⊢
      split at hok
      · rename_i hchk
        simp only [hchk, if_true]
        cases hl : h.lookup w with
        | none => rw [hl] at hok; exact hok
        | some e =>
          rw [hl] at hok
          simp only at hok ⊢
          split at hok
          · rename_i hm; simp only [hm, if_true]; exact hok
          · rename_i hm; simp only [hm]; exact ihR _ _ _ hok
      · rename_i hchk; simp only [hchk]; exact hok
    · intro o m r hok
      rw [level_recurse_succ] at hok ⊢
      split at hok
      · rename_i hl; simp only [hl, if_true]; exact hok
      · rename_i hl
        simp only [hl]
        split at hok
        · rename_i hm
          simp only [hm, if_true]
          exact markInst_mono c _ _ _ _ ihR (callback_mono c h _ _ ihI ihR) false o m r hok
        · rename_i hm
          simp only [hm]
          cases o with
          | raw ty ws => exact foldRes_mono _ _ _ (fun w _ => ihI w) m r hok
          | cont ty es => exact hok
          | tup ty items => exact hok
          | thr ty tls => exact hok

theorem level_mono_add (d k : Nat) :
    (∀ w m r, (level S c h d).item w m = .ok r → (level S c h (d + k)).item w m = .ok r) ∧
    (∀ o m r, (level S c h d).recurse o m = .ok r → (level S c h (d + k)).recurse o m = .ok r) := by
  induction k with
  | zero => exact ⟨fun _ _ _ h => h, fun _ _ _ h => h⟩
  | succ k ih =>
    exact ⟨fun w m r hok => (level_mono S c h (d + k)).1 w m r (ih.1 w m r hok),
           fun o m r hok => (level_mono S c h (d + k)).2 o m r (ih.2 o m r hok)⟩

theorem level_mono_le {d d' : Nat} (hle : d ≤ d') :
    (∀ w m r, (level S c h d).item w m = .ok r → (level S c h d').item w m = .ok r) ∧
    (∀ o m r, (level S c h d).recurse o m = .ok r → (level S c h d').recurse o m = .ok r) := by
  obtain ⟨k, rfl⟩ := Nat.exists_eq_add_of_le hle
  exact level_mono_add S c h d k

theorem foldRes_cb_eq_item (hg : c.guarded = true) (L : Level σ) (items : List Word)
    (hreg : ∀ w ∈ items, (h.lookup w).isSome = true) (m : σ) :
    foldRes (callback c h L) items m = foldRes L.item items m := by
  induction items generalizing m with
  | nil => rfl
  | cons w ws ih =>
    simp only [foldRes]
    have : callback c h L w m = L.item w m := by
      simp [callback, hg, hreg w List.mem_cons_self]
    rw [this]
    cases L.item w m with
    | ok m1 => simp only [Res.bind]; exact ih (fun x hx => hreg x (List.mem_cons_of_mem _ hx)) m1
    | deep => rfl
    | ub => rfl

/-- tracing an object (resp. running its Mark instance) completes at a budget `k` above one at which presenting its
    words one by one completes, with the same mark bits -/
def RecOK (o : Obj) (k : Nat) : Prop :=
  ∀ d m1 m2, foldRes (level S c h d).item (fields c o) m1 = .ok m2 → (level S c h (d + k)).recurse o m1 = .ok m2
def InstOK (own : Bool) (o : Obj) (k : Nat) : Prop :=
  ∀ d m1 m2, foldRes (level S c h d).item (markBody c own o) m1 = .ok m2 →
    markInst c own (level S c h (d + k)).recurse (callback c h (level S c h (d + k))) o m1 = .ok m2
def RecLOK (es : List Obj) (k : Nat) : Prop :=
  ∀ d m1 m2, foldRes (level S c h d).item (fieldsL c es) m1 = .ok m2 → foldRes (level S c h (d + k)).recurse es m1 = .ok m2

theorem recOK_of_instOK (o : Obj) (k : Nat) (hi : InstOK S c h false o k) : RecOK S c h o (k + 1) := by
  intro d m1 m2 hok
  rw [← Nat.add_assoc, level_recurse_succ]
  cases hleaf : c.isLeaf o.ty with
  | true =>
    rw [fields_leaf c o hleaf] at hok
    simp only [if_true]; exact hok
  | false =>
    simp only [Bool.false_eq_true, if_false]
    cases hmk : c.hasMark o.ty with
    | true =>
      simp only [if_true]
      rw [fields_mark c o hleaf hmk] at hok
      exact hi d m1 m2 hok
    | false =>
      simp only [Bool.false_eq_true, if_false]
      rw [fields_scan c o hleaf hmk] at hok
      cases o with
      | raw ty ws =>
        simp only at hok ⊢
        exact foldRes_mono _ _ _ (fun w _ => (level_mono_add S c h d k).1 w) m1 m2 hok
      | cont ty es => exact hok
      | tup ty items => exact hok
      | thr ty tls => exact hok

mutual
theorem instOK_exists (hg : c.guarded = true) :
    ∀ (own : Bool) (o : Obj), (∀ w ∈ handed o, (h.lookup w).isSome = true) → ∃ k, InstOK S c h own o k
  | _, .raw _ _, _ => ⟨0, fun d m1 m2 hok => by simpa [markInst, markBody, foldRes] using hok⟩
  | _, .cont _ es, hreg => by
    obtain ⟨k, hk⟩ := recLOK_exists hg es (by simpa [handed] using hreg)
    exact ⟨k, fun d m1 m2 hok => by
      simp only [markInst]
      exact hk d m1 m2 (by simpa [markBody] using hok)⟩
  | _, .tup _ items, hreg => ⟨0, fun d m1 m2 hok => by
      simp only [markInst, Nat.add_zero]
      rw [foldRes_cb_eq_item c h hg _ items (by simpa [handed] using hreg)]
      simpa [markBody] using hok⟩
  | own, .thr ty tls, hreg => by
    obtain ⟨k, hk⟩ := instOK_exists hg true tls (by simpa [handed] using hreg)
    refine ⟨k, fun d m1 m2 hok => ?_⟩
    simp only [markBody] at hok
    simp only [markInst]
    by_cases hw : (own || c.foreignTls) = true
    · simp only [hw, if_true] at hok ⊢
      rw [viaMark_eq] at hok
      by_cases hm : c.hasMark tls.ty = true
      · simp only [hm, if_true] at hok ⊢; exact hk d m1 m2 hok
      · simp only [hm] at hok ⊢; simpa [foldRes] using hok
    · simp only [hw] at hok ⊢; simpa [foldRes] using hok
theorem recLOK_exists (hg : c.guarded = true) :
    ∀ (es : List Obj), (∀ w ∈ handedL es, (h.lookup w).isSome = true) → ∃ k, RecLOK S c h es k
  | [], _ => ⟨0, fun d m1 m2 hok => by simpa [fieldsL, foldRes] using hok⟩
  | o :: os, hreg => by
    have hreg1 : ∀ w ∈ handed o, (h.lookup w).isSome = true := fun w hw => hreg w (by simp [handedL, hw])
    have hreg2 : ∀ w ∈ handedL os, (h.lookup w).isSome = true := fun w hw => hreg w (by simp [handedL, hw])
    obtain ⟨k1, hk1⟩ := instOK_exists hg false o hreg1
    obtain ⟨k2, hk2⟩ := recLOK_exists hg os hreg2
    have hr1 := recOK_of_instOK S c h o k1 hk1
    refine ⟨k1 + 1 + k2, fun d m1 m2 hok => ?_⟩
    simp only [fieldsL] at hok
    obtain ⟨m', h1, h2⟩ := foldRes_append_ok _ _ _ m1 m2 hok
    simp only [foldRes]
    have e1 : (level S c h (d + (k1 + 1 + k2))).recurse o m1 = .ok m' := by
      have := hr1 d m1 m' h1
      have hle : d + (k1 + 1) ≤ d + (k1 + 1 + k2) := by omega
      exact (level_mono_le S c h hle).2 o m1 m' this
    rw [e1]
    simp only [Res.bind]
    have := hk2 d m' m2 h2
    have hle : d + k2 ≤ d + (k1 + 1 + k2) := by omega
    exact foldRes_mono _ _ os (fun x _ => (level_mono_le S c h hle).2 x) m' m2 this
end

/-- **the C recursion completes**: for every heap whose Tuples hold registered pointers, every word list and every
    state of the mark bits there is a depth budget at which the recursive marker finishes, and its result is the
    worklist marker's -/
theorem rec_completes (hg : c.guarded = true) (safe : h.CallbackSafe) :
    ∀ (stack : List Word) (m : σ), ∃ d, foldRes (level S c h d).item stack m = .ok (dfs S c h stack m) := by
  intro stack m
  induction stack, m using dfs.induct S c h with
  | case1 m => exact ⟨0, by rw [dfs_nil]; rfl⟩
  | case2 m w st hw ih =>
    obtain ⟨d, hd⟩ := ih
    have hreg := accepts_registered hw.1
    cases hl : h.lookup w with
    | none => simp [hl] at hreg
    | some e =>
      rw [fieldsAt_lookup hl] at hd
      obtain ⟨m2, h1, h2⟩ := foldRes_append_ok _ _ _ _ _ hd
      obtain ⟨k, hk⟩ := instOK_exists S c h hg false e.obj (safe w e hl)
      have hr := recOK_of_instOK S c h e.obj k hk d _ m2 h1
      refine ⟨d + (k + 1) + 1, ?_⟩
      rw [dfs_cons_pos S c h w st m hw, fieldsAt_lookup hl]
      simp only [foldRes]
      have hchk : (w % 8 == 0 && decide (h.minptr ≤ w) && decide (w ≤ h.maxptr)) = true := by
        have := hw.1
        rw [accepts_eq, Bool.and_eq_true] at this
        exact this.1
      have e1 : (level S c h (d + (k + 1) + 1)).item w m = .ok m2 := by
        rw [level_item_succ]
        simp only [hchk, if_true, hl, hw.2]
        exact hr
      rw [e1]
      simp only [Res.bind]
      have hle : d ≤ d + (k + 1) + 1 := by omega
      exact foldRes_mono _ _ st (fun x _ => (level_mono_le S c h hle).1 x) m2 _ h2
  | case3 m w st hw ih =>
    obtain ⟨d, hd⟩ := ih
    refine ⟨d + 1, ?_⟩
    rw [dfs_cons_neg S c h w st m hw]
    simp only [foldRes]
    have e1 : (level S c h (d + 1)).item w m = .ok m := by
      rw [level_item_succ]
      by_cases hchk : (w % 8 == 0 && decide (h.minptr ≤ w) && decide (w ≤ h.maxptr)) = true
      · simp only [hchk, if_true]
        cases hl : h.lookup w with
        | none => rfl
        | some e =>
          simp only
          cases hm : S.mem w m with
          | true => simp
          | false =>
            exfalso; apply hw
            exact ⟨by simp [accepts_eq, hchk, hl], hm⟩
      · simp only [hchk]; rfl
    rw [e1]
    simp only [Res.bind]
    exact foldRes_mono _ _ st (fun x _ => (level_mono S c h d).1 x) m _ hd

end complete

end Cello.Heap

/-! ### the three phases of `GC_Mark` with the C call structure agree with `gcMark` -/

namespace Cello.Heap
section phases
variable {σ : Type} (S : MarkSet σ) (c : Cfg) (h : Heap)

theorem tlsPhase_agree (hg : c.guarded = true) (ht : c.tlsCallback = true) (d : Nat) (thread : Obj) (m m' : σ)
    (hok : tlsPhase c h (level S c h d) thread m = .ok m') : m' = dfs S c h (tlsWords c thread) m := by
  unfold tlsPhase at hok
  simp only [tlsWords, ht, if_true, viaMark_eq]
  obtain ⟨ihI, ihR⟩ := level_agree S c h hg d
  by_cases hm : c.hasMark thread.ty = true
  · simp only [hm, if_true, ht] at hok ⊢
    refine markInst_agree S c h _ _ ihR ?_ true thread m m' hok
    intro w m1 m2 hcb
    simp only [callback, hg, if_true] at hcb
    split at hcb
    · exact ihI w m1 m2 hcb
    · cases hcb
  · simp only [hm] at hok ⊢
    have hmm : m' = m := by simpa using hok.symm
    simp [hmm, dfs_nil]

theorem rootPhase_agree (hg : c.guarded = true) (wf : h.WF) (d : Nat) (m m' : σ)
    (hok : rootPhase S h (level S c h d) m = .ok m') : m' = dfs S c h (rootAddrs h) m := by
  unfold rootPhase at hok
  obtain ⟨_, ihR⟩ := level_agree S c h hg d
  have := foldRes_agree S c h _ (fun a => [a]) ?_ (rootAddrs h) m m' hok
  · simpa using this
  · intro a m1 m2 hf
    cases hl : h.lookup a with
    | none =>
      rw [hl] at hf
      have hmm : m2 = m1 := by simpa using hf.symm
      have : ¬ (h.accepts a = true ∧ S.mem a m1 = false) := by simp [accepts_eq, hl]
      rw [hmm, dfs_cons_neg S c h a [] m1 this, dfs_nil]
    | some e =>
      rw [hl] at hf
      simp only at hf
      cases hmem : S.mem a m1 with
      | true =>
        simp only [hmem, if_true] at hf
        have hmm : m2 = m1 := by simpa using hf.symm
        have : ¬ (h.accepts a = true ∧ S.mem a m1 = false) := by simp [hmem]
        rw [hmm, dfs_cons_neg S c h a [] m1 this, dfs_nil]
      | false =>
        simp only [hmem] at hf
        have hacc : h.accepts a = true ∧ S.mem a m1 = false :=
          ⟨accepts_of_registered wf (by simp [hl]), hmem⟩
        rw [dfs_cons_pos S c h a [] m1 hacc, fieldsAt_lookup hl, List.append_nil]
        exact ihR e.obj _ m2 (by simpa using hf)

/-- whenever `GC_Mark` with the call structure of GC.c completes, it has set exactly the bits of `gcMark` -/
theorem gcMarkRec_agree (hg : c.guarded = true) (ht : c.tlsCallback = true) (wf : h.WF) (d : Nat) (thread : Obj)
    (stack : List Word) (m' : σ) (hok : gcMarkRec S c h d thread stack = .ok m') : m' = gcMark S c h thread stack := by
  unfold gcMarkRec at hok
  simp only at hok
  cases h1 : tlsPhase c h (level S c h d) thread S.empty with
  | deep => rw [h1] at hok; cases hok
  | ub => rw [h1] at hok; cases hok
  | ok m1 =>
    rw [h1] at hok
    simp only [Res.bind] at hok
    cases h2 : rootPhase S h (level S c h d) m1 with
    | deep => rw [h2] at hok; cases hok
    | ub => rw [h2] at hok; cases hok
    | ok m2 =>
      rw [h2] at hok
      simp only [Res.bind] at hok
      have e1 := tlsPhase_agree S c h hg ht d thread _ m1 h1
      have e2 := rootPhase_agree S c h hg wf d m1 m2 h2
      have e3 := rec_items_agree S c h hg d stack m2 m' hok
      simp only [gcMark]
      rw [e3, e2, e1]

end phases
end Cello.Heap

namespace Cello.Heap

theorem demoHeap_safe : demoHeap.CallbackSafe := by
  intro a e he w hw
  simp only [demoHeap] at he
  by_cases h1 : a = 4096
  · simp only [h1, if_true] at he; cases he; simp [handed, handedL] at hw
  by_cases h2 : a = 4160
  · simp only [h1, h2, if_true, if_false] at he
    cases he
    simp only [handed, List.mem_cons, List.not_mem_nil, or_false] at hw
    rcases hw with hw | hw <;> subst hw <;> decide
  by_cases h3 : a = 4224
  · simp only [h1, h2, h3, if_true, if_false] at he; cases he; simp [handed] at hw
  by_cases h4 : a = 4288
  · simp only [h1, h2, h3, h4, if_true, if_false] at he; cases he; simp [handed] at hw
  by_cases h5 : a = 4352
  · simp only [h1, h2, h3, h4, h5, if_true, if_false] at he; cases he; simp [handed] at hw
  · simp [h1, h2, h3, h4, h5] at he

end Cello.Heap

/-! ### F27: the recursion depth grows with the length of a chain (no fixed stack bound suffices) -/

namespace Cello.Heap

/-- `n` Refs at addresses 8, 16, …, 8n, each pointing to the next; the last one points past the heap -/
def chainHeap (n : Nat) : Heap where
  lookup := fun (a : Nat) => if a % 8 = 0 ∧ 8 ≤ a ∧ a ≤ 8 * n then some ⟨.raw "Ref" [a + 8], false⟩ else none
  regs := (List.range n).map (fun k => 8 * (k + 1))
  minptr := 8
  maxptr := 8 * n
  complete := by
    intro (a : Nat) e he
    by_cases hc : a % 8 = 0 ∧ 8 ≤ a ∧ a ≤ 8 * n
    · obtain ⟨h1, h2, h3⟩ := hc
      simp only [List.mem_map, List.mem_range]
      refine ⟨a / 8 - 1, ?_, ?_⟩
      · show (a / 8 - 1 : Nat) < n
        omega
      · show (8 * (a / 8 - 1 + 1) : Nat) = a
        omega
    · simp [hc] at he

theorem chainHeap_wf (n : Nat) : (chainHeap n).WF := by
  constructor <;> intro a e he <;> simp only [chainHeap] at he ⊢ <;> split at he <;> first | (cases he) | skip
  · rename_i hc; exact hc.1
  · rename_i hc; exact ⟨hc.2.1, hc.2.2⟩

theorem chainHeap_safe (n : Nat) : (chainHeap n).CallbackSafe := by
  intro a e he w hw
  simp only [chainHeap] at he
  split at he
  · cases he; simp [handed] at hw
  · cases he

section chain
variable {σ : Type} (S : MarkSet σ) (c : Cfg)

theorem chain_item_deep (hl : c.isLeaf "Ref" = false) (hk : c.hasMark "Ref" = false) (hs : c.scanInclusive = true)
    (n : Nat) : ∀ (d k : Nat) (m : σ), k < n → d ≤ 2 * (n - k) →
      (∀ j, k ≤ j → j < n → S.mem (8 * (j + 1)) m = false) →
      (level S c (chainHeap n) d).item (8 * (k + 1)) m = .deep := by
  intro d
  induction d using Nat.strongRecOn with
  | _ d ih =>
    intro k m hkn hd hm
    match d, ih, hd with
    | 0, _, _ => rfl
    | 1, _, _ =>
      rw [level_item_succ]
      have hlook : (chainHeap n).lookup (8 * (k + 1)) = some ⟨.raw "Ref" [8 * (k + 1) + 8], false⟩ := by
        simp only [chainHeap]; rw [if_pos]; refine ⟨?_, ?_, ?_⟩ <;> omega
      have hchk : ((8 * (k + 1)) % 8 == 0 && decide ((chainHeap n).minptr ≤ 8 * (k + 1)) && decide (8 * (k + 1) ≤ (chainHeap n).maxptr)) = true := by
        have h1 : (8 * (k + 1)) % 8 = 0 := Nat.mul_mod_right 8 (k + 1)
        have h2 : 8 ≤ 8 * (k + 1) := by omega
        have h3 : 8 * (k + 1) ≤ 8 * n := by omega
        simp [chainHeap, h1, h2, h3]
      simp only [hchk, if_true, hlook, hm k (Nat.le_refl k) hkn]
      rfl
    | d + 2, ih, hd =>
      rw [level_item_succ]
      have hlook : (chainHeap n).lookup (8 * (k + 1)) = some ⟨.raw "Ref" [8 * (k + 1) + 8], false⟩ := by
        simp only [chainHeap]; rw [if_pos]; refine ⟨?_, ?_, ?_⟩ <;> omega
      have hchk : ((8 * (k + 1)) % 8 == 0 && decide ((chainHeap n).minptr ≤ 8 * (k + 1)) && decide (8 * (k + 1) ≤ (chainHeap n).maxptr)) = true := by
        have h1 : (8 * (k + 1)) % 8 = 0 := Nat.mul_mod_right 8 (k + 1)
        have h2 : 8 ≤ 8 * (k + 1) := by omega
        have h3 : 8 * (k + 1) ≤ 8 * n := by omega
        simp [chainHeap, h1, h2, h3]
      simp only [hchk, if_true, hlook, hm k (Nat.le_refl k) hkn]
      rw [level_recurse_succ]
      simp only [Obj.ty, hl, hk, scanWords, hs, if_true, foldRes]
      have hnext : 8 * (k + 1) + 8 = 8 * (k + 1 + 1) := by omega
      rw [hnext]
      by_cases hd0 : d = 0
      · subst hd0; rfl
      · have : (level S c (chainHeap n) d).item (8 * (k + 1 + 1)) (S.insert (8 * (k + 1)) m) = .deep := by
          apply ih d (by omega) (k + 1) _ (by omega) (by omega)
          intro j hj1 hj2
          rw [S.mem_insert, hm j (by omega) hj2]
          have : (8 * (j + 1) == 8 * (k + 1)) = false := by
            simp only [beq_eq_false_iff_ne, ne_eq]; omega
          simp [this]
        rw [this]; rfl

/-- for every depth budget there is a chain on which the recursive marker exceeds it -/
theorem chain_exceeds_budget (hl : c.isLeaf "Ref" = false) (hk : c.hasMark "Ref" = false) (hs : c.scanInclusive = true)
    (d : Nat) : (level S c (chainHeap (d + 1)) d).item 8 S.empty = .deep := by
  have := chain_item_deep S c hl hk hs (d + 1) d 0 S.empty (by omega) (by omega) (fun j _ _ => S.mem_empty _)
  simpa using this

end chain

end Cello.Heap

/-! ### a Tuple holding a pointer to an object that was deleted by hand (known finding KF-C01-dangling-tuple-item) -/

namespace Cello.Heap

/-- 4096 ↦ heap Tuple [4160]; 4160 was registered once (the bounds still include it) and has been deleted -/
def danglingHeap : Heap where
  lookup a := if a = 4096 then some ⟨.tup "Tuple" [4160], false⟩ else none
  regs := [4096]
  minptr := 4096
  maxptr := 4160
  complete := by
    intro a e he
    by_cases h1 : a = 4096
    · simp [h1]
    · simp [h1] at he

theorem danglingHeap_wf : danglingHeap.WF := by
  constructor <;> intro a e he <;> simp only [danglingHeap] at he ⊢ <;> split at he <;> first | (cases he) | skip
  · rename_i hc; subst hc; decide
  · rename_i hc; subst hc; decide

theorem dangling_ub {σ : Type} (S : MarkSet σ) (c : Cfg) (hl : c.isLeaf "Tuple" = false)
    (hk : c.hasMark "Tuple" = true) (hg : c.guarded = true) (d : Nat) :
    (level S c danglingHeap (d + 2)).item 4096 S.empty = .ub := by
  rw [level_item_succ]
  have hlook : danglingHeap.lookup 4096 = some ⟨.tup "Tuple" [4160], false⟩ := rfl
  have hlook2 : danglingHeap.lookup 4160 = none := rfl
  have hchk : ((4096 : Nat) % 8 == 0 && decide (danglingHeap.minptr ≤ 4096) && decide (4096 ≤ danglingHeap.maxptr)) = true := by decide
  simp only [hchk, if_true, hlook, S.mem_empty]
  rw [level_recurse_succ]
  simp only [Obj.ty, hl, hk, if_true, markInst, foldRes, callback, hg, hlook2]
  rfl

end Cello.Heap
