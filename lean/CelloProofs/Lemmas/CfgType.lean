/-
  Helper lemmas for C18, run-time type objects under both values of the cache switch (model: Cello/ConfigType.lean).

  `IxCanon ix cfg` says what the index expressions of `Type_New` must EVALUATE to under the constants of configuration `cfg` for
  the constructor to build the object C08's `typeNewRaw` builds for the layout of that configuration; `RdCanon` the same for the
  readers.  Under these, the source-driven constructor / readers / life cycle coincide with C08's (`typeNewWith_eq_raw`,
  `ofRawWith_eq`, `runLifeSrc_eq`), so C08's theorems (generic in the layout) apply to BOTH configurations.
-/
import Cello.ConfigType
import CelloProofs.Lemmas.Disp
import CelloProofs.Lemmas.DispNew

namespace Cello.CfgType
open Cello.Config (Cfg cacheNum)
open Cello.Dispatch
open CelloGen.Cfg (TExpr TypeNewIx typeNewIx)

/-! ### stores and loops -/

theorem storeAt_some (mem : List Word) (k : Nat) (a b c : Word) (h : 3 * k + 2 < mem.length) :
    storeAt (some mem) (k : Int) a b c = some (writeCell mem k a b c) := by
  unfold storeAt
  simp only [Int.toNat_natCast]
  rw [if_pos ⟨Int.natCast_nonneg k, h⟩]

theorem loop_clear : ∀ (cnt i : Nat) (mem : List Word), 3 * (i + cnt) ≤ mem.length →
    loopFrom (fun i m => storeAt m (i : Int) .null .null .null) i cnt (some mem) = some (clearCells i cnt mem)
  | 0, _, _, _ => rfl
  | cnt + 1, i, mem, h => by
    simp only [loopFrom, clearCells]
    rw [storeAt_some mem i _ _ _ (by omega)]
    exact loop_clear cnt (i + 1) _ (by rw [writeCell_length]; omega)

theorem argAt_nat (es : List (String × Inst)) (j : Nat) : argAt es ((2 + j : Nat) : Int) = es[j]? := by
  unfold argAt
  have h2 : (2 : Int) ≤ ((2 + j : Nat) : Int) := by omega
  rw [if_pos h2]
  congr 1
  omega

theorem loop_insts (nb : Nat) (es : List (String × Inst)) : ∀ (rest pre : List (String × Inst)) (mem : List Word),
    es = pre ++ rest → 3 * (nb + pre.length + rest.length) ≤ mem.length →
    loopFrom (fun i m => instStep es (i : Int) ((nb : Int) - 2 + (i : Int)) m) (2 + pre.length) rest.length (some mem)
      = some (writeInsts nb pre.length rest mem)
  | [], _, _, _, _ => rfl
  | (nm, ins) :: rest, pre, mem, hes, h => by
    simp only [List.length_cons, loopFrom, writeInsts]
    have hget : es[pre.length]? = some (nm, ins) := by rw [hes]; simp
    have hidx : (nb : Int) - 2 + ((2 + pre.length : Nat) : Int) = ((nb + pre.length : Nat) : Int) := by omega
    have hs : instStep es ((2 + pre.length : Nat) : Int) ((nb : Int) - 2 + ((2 + pre.length : Nat) : Int)) (some mem)
        = some (writeCell mem (nb + pre.length) .null (.str nm) (.inst ins)) := by
      unfold instStep
      rw [argAt_nat es pre.length, hget]
      simp only
      rw [hidx, storeAt_some mem (nb + pre.length) _ _ _ (by simp only [List.length_cons] at h; omega)]
    rw [hs]
    have ih := loop_insts nb es rest (pre ++ [(nm, ins)]) (writeCell mem (nb + pre.length) .null (.str nm) (.inst ins))
      (by rw [hes]; simp) (by rw [writeCell_length]; simp only [List.length_append, List.length_cons, List.length_nil] at h ⊢; omega)
    have hl : (pre ++ [(nm, ins)]).length = pre.length + 1 := by simp
    rw [hl] at ih
    have e1 : 2 + pre.length + 1 = 2 + (pre.length + 1) := by omega
    rw [e1]
    exact ih

/-! ### what the index expressions must evaluate to -/

/-- the values `Type_New`'s index expressions and loop bounds must take, for every `len(args)` and every value of the loop
    variable, under the constants of configuration `cfg` -/
structure IxCanon (ix : TypeNewIx) (cfg : Cfg) : Prop where
  nameArg : ix.nameArg = 0
  sizeArg : ix.sizeArg = 1
  clearLo : ∀ n, eval (envOf cfg n 0) ix.clearLo = 0
  clearHi : ∀ n, eval (envOf cfg n 0) ix.clearHi = ((cacheNum cfg / 3 : Nat) : Int)
  clearIdx : ∀ n i, eval (envOf cfg n i) ix.clearIdx = (i : Int)
  nameIdx : ∀ n, eval (envOf cfg n 0) ix.nameIdx = ((cacheNum cfg / 3 : Nat) : Int)
  sizeIdx : ∀ n, eval (envOf cfg n 0) ix.sizeIdx = ((cacheNum cfg / 3 + 1 : Nat) : Int)
  instLo : ∀ n, eval (envOf cfg n 0) ix.instLo = 2
  instHi : ∀ n, eval (envOf cfg n 0) ix.instHi = (n : Int)
  instArg : ∀ n i, eval (envOf cfg n i) ix.instArg = (i : Int)
  instIdx : ∀ n i, eval (envOf cfg n i) ix.instIdx = (nbOf (cacheNum cfg) : Int) - 2 + (i : Int)
  termIdx : ∀ n, eval (envOf cfg n 0) ix.termIdx = (nbOf (cacheNum cfg) : Int) + (n : Int) - 2

/-- the same for the readers: `Type_Builtin_Name`, `Type_Builtin_Size`, both walks of `Type_Scan` -/
structure RdCanon (rd : Readers) (cfg : Cfg) : Prop where
  nameIdx : eval (envOf cfg 0 0) rd.nameIdx = ((cacheNum cfg / 3 : Nat) : Int)
  sizeIdx : eval (envOf cfg 0 0) rd.sizeIdx = ((cacheNum cfg / 3 + 1 : Nat) : Int)
  scan1 : eval (envOf cfg 0 0) rd.scan1 = (nbOf (cacheNum cfg) : Int)
  scan2 : eval (envOf cfg 0 0) rd.scan2 = (nbOf (cacheNum cfg) : Int)

/-- **the source's `Type_New` is C08's `typeNewRaw` for the layout of the configuration**, on every storage that is large
    enough (ANY previous contents) and every instance list within the limit -/
theorem typeNewWith_eq_raw {ix : TypeNewIx} {cfg : Cfg} (hC : IxCanon ix cfg) (hL : LayoutOK (layoutOf cfg))
    (mem : List Word) (name : String) (size : Nat) (es : List (String × Inst))
    (hn : es.length ≤ CelloGen.Cfg.maxInstances) (hlen : 3 * ((layoutOf cfg).nBuiltins + es.length + 1) ≤ mem.length) :
    typeNewWith ix cfg mem name size es = typeNewRaw (layoutOf cfg) mem name size es := by
  have hnb : nbOf (cacheNum cfg) = cacheNum cfg / 3 + 2 := hL.first
  have hlen' : 3 * (nbOf (cacheNum cfg) + es.length + 1) ≤ mem.length := hlen
  generalize hce : cacheNum cfg / 3 = ce at hnb
  generalize hnbv : nbOf (cacheNum cfg) = nb at hnb hlen'
  have hmax : (layoutOf cfg).maxInstances = CelloGen.Cfg.maxInstances := rfl
  have hgt : ¬ es.length > CelloGen.Cfg.maxInstances := by omega
  have hgt' : ¬ es.length > (layoutOf cfg).maxInstances := by omega
  have hargs : ¬ (ix.nameArg ≠ 0 ∨ ix.sizeArg ≠ 1) := by rw [hC.nameArg, hC.sizeArg]; simp
  unfold typeNewWith typeNewRaw
  rw [if_neg hgt, if_neg hgt', if_neg hargs]
  have hub : (mem.length < 3 * ((layoutOf cfg).nBuiltins + es.length + 1) || mem.length < 3 * ((layoutOf cfg).cacheNum / 3 + 2)) = false := by
    have h1 : (layoutOf cfg).nBuiltins = nb := hnbv
    have h2 : (layoutOf cfg).cacheNum / 3 = ce := hce
    rw [h1, h2]
    simp only [Bool.or_eq_false_iff, decide_eq_false_iff_not, Nat.not_lt]
    omega
  rw [hub]
  simp only [hC.clearLo, hC.clearHi, hC.clearIdx, hC.nameIdx, hC.sizeIdx, hC.instLo, hC.instHi, hC.instArg, hC.instIdx, hC.termIdx, hce, hnbv]
  have h1 : (layoutOf cfg).nBuiltins = nb := hnbv
  have h2 : (layoutOf cfg).cacheNum / 3 = ce := hce
  simp only [h1, h2]
  rw [if_neg (by omega)]
  -- the clear loop
  have c0 : ((0 : Int).toNat) = 0 := rfl
  have c1 : (((ce : Nat) : Int) - 0).toNat = ce := by omega
  rw [c0, c1, loop_clear ce 0 mem (by omega)]
  -- __Name, __Size
  have l1 : (clearCells 0 ce mem).length = mem.length := clearCells_length ce 0 mem
  rw [storeAt_some _ ce _ _ _ (by rw [l1]; omega)]
  have l2 : (writeCell (clearCells 0 ce mem) ce .null (.str "__Name") (.str name)).length = mem.length := by rw [writeCell_length, l1]
  rw [storeAt_some _ (ce + 1) _ _ _ (by rw [l2]; omega)]
  have l3 : (writeCell (writeCell (clearCells 0 ce mem) ce .null (.str "__Name") (.str name)) (ce + 1) .null (.str "__Size") (.num size)).length = mem.length := by
    rw [writeCell_length, l2]
  -- the instance loop
  have c2 : ((2 : Int).toNat) = 2 + ([] : List (String × Inst)).length := rfl
  have c3 : (((es.length + 2 : Nat) : Int) - 2).toNat = es.length := by omega
  rw [c2, c3, loop_insts nb es es [] _ rfl (by rw [l3]; simp only [List.length_nil]; omega)]
  -- the terminator
  have l4 : (writeInsts nb ([] : List (String × Inst)).length es
      (writeCell (writeCell (clearCells 0 ce mem) ce .null (.str "__Name") (.str name)) (ce + 1) .null (.str "__Size") (.num size))).length = mem.length := by
    rw [writeInsts_length, l3]
  have c4 : (nb : Int) + ((es.length + 2 : Nat) : Int) - 2 = ((nb + es.length : Nat) : Int) := by omega
  rw [c4, storeAt_some _ (nb + es.length) _ _ _ (by rw [l4]; omega)]
  rfl

/-- the source's readers are C08's `Store.ofRaw` for the layout of the configuration -/
theorem ofRawWith_eq {rd : Readers} {cfg : Cfg} (hR : RdCanon rd cfg) (_hL : LayoutOK (layoutOf cfg)) (hdr sent : Bool) (mem : List Word) :
    ofRawWith rd cfg hdr sent mem = Store.ofRaw (layoutOf cfg) hdr sent mem := by
  unfold ofRawWith Store.ofRaw
  simp only [hR.nameIdx, hR.sizeIdx, hR.scan1, hR.scan2]
  rw [if_neg (by omega)]
  simp only [Int.toNat_natCast]
  rfl

/-! ### both configurations -/

/-- the storage `Type_Alloc` reserves has exactly the cells C08's layout of the configuration has -/
def CellsOK (cfg : Cfg) : Prop := cellsOf cfg = (layoutOf cfg).cells

/-- everything the current source must satisfy in a configuration -/
structure SrcOK (cfg : Cfg) : Prop where
  layout : LayoutOK (layoutOf cfg)
  slots : SlotsOK (slotsOf cfg) (layoutOf cfg).cacheNum
  cells : CellsOK cfg
  ix : IxCanon typeNewIx cfg
  rd : RdCanon readersSrc cfg

theorem constructInSrc_eq {cfg : Cfg} (h : SrcOK cfg) (s : Store) (name : String) (size : Nat) (es : List (String × Inst))
    (hn : es.length ≤ CelloGen.Cfg.maxInstances) (hlen : s.toRaw.length = 3 * (layoutOf cfg).cells) :
    constructInSrc cfg s name size es = constructIn (layoutOf cfg) s name size es := by
  have hfit : 3 * ((layoutOf cfg).nBuiltins + es.length + 1) ≤ s.toRaw.length := by
    rw [hlen]; unfold Layout.cells
    have : (layoutOf cfg).maxInstances = CelloGen.Cfg.maxInstances := rfl
    omega
  unfold constructInSrc constructIn constructAt typeNewSrc ofRawSrc
  rw [typeNewWith_eq_raw h.ix h.layout s.toRaw name size es hn hfit]
  rcases typeNewRaw (layoutOf cfg) s.toRaw name size es with ⟨m, o⟩
  cases o with
  | ok u =>
    simp only
    rw [ofRawWith_eq h.rd h.layout]
    cases Store.ofRaw (layoutOf cfg) s.trec.hdr s.trec.sentinel m <;> rfl
  | raised e => rfl
  | ub => rfl

theorem applyLifeSrc_eq {cfg : Cfg} (h : SrcOK cfg) (s : Store) (op : LOp) (hop : LOp.inContract op = true)
    (hlen : s.toRaw.length = 3 * (layoutOf cfg).cells) :
    applyLifeSrc cfg s op = applyLife (layoutOf cfg) (slotsOf cfg) s op := by
  cases op with
  | look o => rfl
  | construct name size es =>
    simp only [applyLifeSrc, applyLife]
    rw [constructInSrc_eq h s name size es (by simpa [LOp.inContract] using hop) hlen]

/-- on in-contract histories the source-driven life cycle IS C08's life cycle for the layout and cache table of the configuration -/
theorem runLifeSrc_eq {cfg : Cfg} (h : SrcOK cfg) : ∀ (ops : List LOp) (D : String → Option Inst) (s : Store),
    (∀ op ∈ ops, LOp.inContract op = true) → StoreOK (layoutOf cfg) D (slotsOf cfg) s →
    runLifeSrc cfg s ops = runLife (layoutOf cfg) (slotsOf cfg) s ops
  | [], _, _, _, _ => rfl
  | op :: ops, D, s, hops, hs => by
    simp only [runLifeSrc, runLife]
    have e := applyLifeSrc_eq h s op (hops op (List.mem_cons_self ..)) hs.len
    rw [e]
    have sp := applyLife_spec h.layout h.slots hs op
    rw [runLifeSrc_eq h ops _ _ (fun o ho => hops o (List.mem_cons_of_mem _ ho)) sp.2.1]

/-- in-contract histories refuse nothing: the specification of an in-contract history does not depend on which layout's
    `CELLO_MAX_INSTANCES` it is read with (both configurations have the same one anyway) -/
theorem specLife_sent_irrelevant_layout (cfg₁ cfg₂ : Cfg) :
    (layoutOf cfg₁).maxInstances = (layoutOf cfg₂).maxInstances := rfl

/-! ### the workload of the driver: what a construction prints is a function of the declaration, the name and the size -/

theorem instsOf_length_le : ∀ ks : List Nat, (instsOf ks).length ≤ ks.length
  | [] => Nat.le_refl 0
  | k :: ks => by
    unfold instsOf
    cases instOf k with
    | none => simp only [List.length_cons]; exact Nat.le_succ_of_le (instsOf_length_le ks)
    | some p => simp only [List.length_cons]; exact Nat.succ_le_succ (instsOf_length_le ks)

/-- what a lookup on a store satisfying the invariant returns, and that name, size and invariant survive it -/
theorem look_spec {cfg : Cfg} {n : Nat} {D : String → Option Inst} (hs : SlotsOK (slotsOf cfg) n) {s : Store}
    (h : Inv D (slotsOf cfg) n s.trec) (cls : String) :
    (look cfg s cls).2 = D cls ∧ Inv D (slotsOf cfg) n (look cfg s cls).1.trec ∧
      (look cfg s cls).1.name = s.name ∧ (look cfg s cls).1.size = s.size := by
  have sp := instanceOf_spec hs h (clsOf cls)
  unfold look
  simp only
  rw [sp.1]
  exact ⟨rfl, sp.2.1, trivial, trivial⟩

/-- the member test after `instance(self, C)`, as a function of the declaration -/
def memberOf (D : String → Option Inst) (cls : String) (m : Nat) : Option Nat :=
  match D cls with
  | some i => if i.members[m]?.getD false then some i.id else none
  | none => none

theorem lookMember_spec {cfg : Cfg} {n : Nat} {D : String → Option Inst} (hs : SlotsOK (slotsOf cfg) n) {s : Store}
    (h : Inv D (slotsOf cfg) n s.trec) (cls : String) (m : Nat) :
    (lookMember cfg s cls m).2 = memberOf D cls m ∧ Inv D (slotsOf cfg) n (lookMember cfg s cls m).1.trec ∧
      (lookMember cfg s cls m).1.name = s.name ∧ (lookMember cfg s cls m).1.size = s.size := by
  have sp := look_spec hs h cls
  unfold lookMember memberOf
  simp only
  rw [sp.1]
  exact ⟨rfl, sp.2.1, sp.2.2.1, sp.2.2.2⟩

theorem sizeOf_spec {cfg : Cfg} {n : Nat} {D : String → Option Inst} (hs : SlotsOK (slotsOf cfg) n) {s : Store}
    (h : Inv D (slotsOf cfg) n s.trec) :
    (sizeOf cfg s).2 = (match memberOf D "Size" 0 with | some _ => 32 | none => s.size) ∧
      Inv D (slotsOf cfg) n (sizeOf cfg s).1.trec ∧ (sizeOf cfg s).1.name = s.name ∧ (sizeOf cfg s).1.size = s.size := by
  have sp := lookMember_spec hs h "Size" 0
  unfold sizeOf
  simp only
  rw [sp.1]
  exact ⟨rfl, sp.2.1, sp.2.2.1, sp.2.2.2⟩

theorem implBits_spec {n : Nat} {D : String → Option Inst} {slots : List (Nat × Cls)} : ∀ (cs : List String) (s : Store),
    Inv D slots n s.trec →
    (implBits s cs).2 = cs.map (fun c => (D c).isSome) ∧ Inv D slots n (implBits s cs).1.trec ∧
      (implBits s cs).1.name = s.name ∧ (implBits s cs).1.size = s.size
  | [], _, h => ⟨rfl, h, rfl, rfl⟩
  | c :: cs, s, h => by
    have sp := scan_spec h (clsOf c)
    have h' : Inv D slots n ({ s with trec := (implementsT s.trec (clsOf c)).1 } : Store).trec := sp.2.1
    have ih := implBits_spec cs { s with trec := (implementsT s.trec (clsOf c)).1 } h'
    simp only [implBits, List.map_cons]
    refine ⟨?_, ih.2.1, ih.2.2.1, ih.2.2.2⟩
    rw [ih.1]
    simp only [implementsT, sp.1]
    rfl

/-- what a construction prints, as a function of the declaration, the name and the size alone -/
theorem describe_spec {cfg : Cfg} {n : Nat} {D : String → Option Inst} (hs : SlotsOK (slotsOf cfg) n) {s : Store}
    (h : Inv D (slotsOf cfg) n s.trec) :
    (describe cfg s).2 = .ty s.name s.size (match memberOf D "Size" 0 with | some _ => 32 | none => s.size)
      (probeClasses.map (fun c => (D c).isSome)) := by
  have s1 := sizeOf_spec hs h
  have s2 := implBits_spec (D := D) probeClasses (sizeOf cfg s).1 s1.2.1
  unfold describe
  simp only
  rw [s1.1, s2.1]

end Cello.CfgType
