import Cello.ConfigThread
/-!
  Lemmas for the C18 extension round (objects that cross the end of a collector): under `SweepWired` — the scanning loop of
  `GC_Sweep`, as regenerated, releases exactly the entries that carry neither the root argument nor the mark bit — no phase
  sequence of the collector (threshold collections with any reach set, the teardown of `GC_Del`) ever releases a block that was
  registered as a root, and blocks never registered (`new_raw`) are not the collector's to release at all.
-/
namespace Cello.Config.Thr
open CelloGen.Cfg

theorem sweepFrees_eq (hw : SweepWired) (e : E) : sweepFrees e = (!e.root && !e.marked) := by
  obtain ⟨r, mk⟩ := e
  have h := hw.1 r (by cases r <;> simp) mk (by cases mk <;> simp)
  simpa using h

/-- every entry of `r'` is an entry of `r` with the same block and the same root argument (mark bits may differ) -/
def Sub (r' r : Reg) : Prop := ∀ p ∈ r', ∃ q ∈ r, q.1 = p.1 ∧ q.2.root = p.2.root

theorem Sub.refl (r : Reg) : Sub r r := fun p hp => ⟨p, hp, rfl, rfl⟩

theorem Sub.trans {a b c : Reg} (h1 : Sub a b) (h2 : Sub b c) : Sub a c := by
  intro p hp
  obtain ⟨q, hq, e1, e2⟩ := h1 p hp
  obtain ⟨q', hq', e1', e2'⟩ := h2 q hq
  exact ⟨q', hq', e1'.trans e1, e2'.trans e2⟩

theorem unmarkE_root (e : E) : (unmarkE e).root = e.root := by
  unfold unmarkE; split <;> rfl

theorem unmark_sub (r : Reg) : Sub (unmark r) r := by
  intro p hp
  obtain ⟨q, hq, rfl⟩ := List.mem_map.mp hp
  exact ⟨q, hq, rfl, (unmarkE_root q.2).symm⟩

theorem mark_sub (reached : Nat → Bool) (r : Reg) : Sub (mark reached r) r := by
  have h1 : Sub (if gcMarkPrologue.contains "GC_Unmark" then unmark r else r) r := by
    split
    · exact unmark_sub r
    · exact Sub.refl r
  refine Sub.trans ?_ h1
  intro p hp
  unfold mark at hp
  obtain ⟨q, hq, rfl⟩ := List.mem_map.mp hp
  refine ⟨q, hq, ?_, ?_⟩ <;> (split <;> rfl)

theorem sweep_sub (r : Reg) : Sub (sweep r).1 r := by
  intro p hp
  obtain ⟨q, hq, rfl⟩ := List.mem_map.mp hp
  exact ⟨q, (List.mem_filter.mp hq).1, rfl, rfl⟩

theorem sweep_freed (hw : SweepWired) (r : Reg) : ∀ i ∈ (sweep r).2, ∃ q ∈ r, q.1 = i ∧ q.2.root = false := by
  intro i hi
  obtain ⟨q, hq, rfl⟩ := List.mem_map.mp hi
  obtain ⟨hm, hf⟩ := List.mem_filter.mp hq
  refine ⟨q, hm, rfl, ?_⟩
  rw [sweepFrees_eq hw] at hf
  cases hr : q.2.root
  · rfl
  · rw [hr] at hf; simp at hf

/-- what any sequence of collector phases preserves, relative to the registry `r0` it started from -/
structure PInv (r0 : Reg) (acc : Reg × List Nat) : Prop where
  sub : Sub acc.1 r0
  fr : ∀ i ∈ acc.2, ∃ q ∈ r0, q.1 = i ∧ q.2.root = false

theorem runPhase_inv (hw : SweepWired) (reached : Nat → Bool) {r0 : Reg} {acc : Reg × List Nat} (h : PInv r0 acc) (call : String) :
    PInv r0 (runPhase reached acc call) := by
  unfold runPhase
  split
  · exact ⟨Sub.trans (unmark_sub _) h.sub, h.fr⟩
  · split
    · exact ⟨Sub.trans (mark_sub _ _) h.sub, h.fr⟩
    · split
      · refine ⟨Sub.trans (sweep_sub _) h.sub, ?_⟩
        intro i hi
        rcases List.mem_append.mp hi with hi | hi
        · exact h.fr i hi
        · obtain ⟨q, hq, e1, e2⟩ := sweep_freed hw _ i hi
          obtain ⟨q', hq', e1', e2'⟩ := h.sub q hq
          exact ⟨q', hq', e1'.trans e1, e2'.trans e2⟩
      · exact h

theorem foldl_inv (hw : SweepWired) (reached : Nat → Bool) (r0 : Reg) :
    ∀ (calls : List String) (acc : Reg × List Nat), PInv r0 acc → PInv r0 (calls.foldl (runPhase reached) acc)
  | [], _, h => h
  | c :: cs, _, h => foldl_inv hw reached r0 cs _ (runPhase_inv hw reached h c)

/-- **no phase sequence releases a root**: whatever phases run, with whatever reach set, the registry afterwards is a part of
    the registry before (same blocks, same root arguments) and every released block had been registered without the root argument -/
theorem phases_inv (hw : SweepWired) (reached : Nat → Bool) (calls : List String) (r : Reg) : PInv r (phases reached calls r) :=
  foldl_inv hw reached r calls (r, []) ⟨Sub.refl r, by intro i hi; cases hi⟩

/-! ### the life of a worker thread -/

structure WInv (s : WSt) : Prop where
  regLt : ∀ p ∈ s.reg, p.1 < s.next
  freedLt : ∀ i ∈ s.freed, i < s.next
  safeLt : ∀ i ∈ s.safe, i < s.next
  safeRoot : ∀ p ∈ s.reg, p.1 ∈ s.safe → p.2.root = true
  freedUnsafe : ∀ i ∈ s.freed, i ∉ s.safe

theorem WInv.init : WInv {} :=
  ⟨(by intro p hp; cases hp), (by intro i hi; cases hi), (by intro i hi; cases hi), (by intro p hp; cases hp), (by intro i hi; cases hi)⟩

/-- releasing what a phase sequence releases keeps the invariant -/
theorem WInv.afterPhases (hw : SweepWired) {s : WSt} (h : WInv s) (reached : Nat → Bool) (calls : List String) (reg' : Reg)
    (hreg : Sub reg' (phases reached calls s.reg).1) :
    WInv { s with reg := reg', freed := s.freed ++ (phases reached calls s.reg).2 } := by
  have hp := phases_inv hw reached calls s.reg
  have hsub : Sub reg' s.reg := Sub.trans hreg hp.sub
  refine ⟨?_, ?_, h.safeLt, ?_, ?_⟩
  · intro p hpm
    obtain ⟨q, hq, e1, _⟩ := hsub p hpm
    have := h.regLt q hq
    show p.1 < s.next
    omega
  · intro i hi
    rcases List.mem_append.mp hi with hi | hi
    · exact h.freedLt i hi
    · obtain ⟨q, hq, e1, _⟩ := hp.fr i hi
      have := h.regLt q hq
      show i < s.next
      omega
  · intro p hpm hs
    obtain ⟨q, hq, e1, e2⟩ := hsub p hpm
    have := h.safeRoot q hq (by rw [e1]; exact hs)
    rw [← e2]; exact this
  · intro i hi
    rcases List.mem_append.mp hi with hi | hi
    · exact h.freedUnsafe i hi
    · obtain ⟨q, hq, e1, e2⟩ := hp.fr i hi
      intro hs
      have := h.safeRoot q hq (by rw [e1]; exact hs)
      rw [this] at e2; cases e2

theorem WInv.step (hw : SweepWired) (cfg : Cfg) {s : WSt} (h : WInv s) (ev : WEv) : WInv (wstep cfg s ev) := by
  have hfresh : s.next ∉ s.safe := fun hm => Nat.lt_irrefl _ (h.safeLt _ hm)
  have hfr : s.next ∉ s.freed := fun hm => Nat.lt_irrefl _ (h.freedLt _ hm)
  have lt1 : ∀ {l : List Nat}, (∀ i ∈ l, i < s.next) → ∀ i ∈ l, i < s.next + 1 := fun hl i hi => Nat.lt_succ_of_lt (hl i hi)
  have rl1 : ∀ p ∈ s.reg, p.1 < s.next + 1 := fun p hp => Nat.lt_succ_of_lt (h.regLt p hp)
  cases ev with
  | collect reached =>
    simp only [wstep]
    split
    · exact WInv.afterPhases hw h _ gcSetCalls _ (Sub.refl _)
    · exact h
  | alloc m =>
    cases m with
    | standard =>
      simp only [wstep]
      split
      · refine ⟨?_, lt1 h.freedLt, lt1 h.safeLt, ?_, h.freedUnsafe⟩
        · intro p hp
          rcases List.mem_cons.mp hp with rfl | hp
          · exact Nat.lt_succ_self _
          · exact rl1 p hp
        · intro p hp hs
          rcases List.mem_cons.mp hp with rfl | hp
          · exact absurd hs hfresh
          · exact h.safeRoot p hp hs
      · exact ⟨rl1, lt1 h.freedLt, lt1 h.safeLt, h.safeRoot, h.freedUnsafe⟩
    | raw =>
      simp only [wstep]
      refine ⟨rl1, lt1 h.freedLt, ?_, ?_, ?_⟩
      · intro i hi
        rcases List.mem_cons.mp hi with rfl | hi
        · exact Nat.lt_succ_self _
        · exact lt1 h.safeLt i hi
      · intro p hp hs
        rcases List.mem_cons.mp hs with e | hs
        · exact absurd (e ▸ h.regLt p hp) (Nat.lt_irrefl _)
        · exact h.safeRoot p hp hs
      · intro i hi hs
        rcases List.mem_cons.mp hs with rfl | hs
        · exact hfr hi
        · exact h.freedUnsafe i hi hs
    | root =>
      simp only [wstep]
      have hsafe : ∀ i ∈ s.next :: s.safe, i < s.next + 1 := by
        intro i hi
        rcases List.mem_cons.mp hi with rfl | hi
        · exact Nat.lt_succ_self _
        · exact lt1 h.safeLt i hi
      have hfu : ∀ i ∈ s.freed, i ∉ s.next :: s.safe := by
        intro i hi hs
        rcases List.mem_cons.mp hs with rfl | hs
        · exact hfr hi
        · exact h.freedUnsafe i hi hs
      split
      · refine ⟨?_, lt1 h.freedLt, hsafe, ?_, hfu⟩
        · intro p hp
          rcases List.mem_cons.mp hp with rfl | hp
          · exact Nat.lt_succ_self _
          · exact rl1 p hp
        · intro p hp hs
          rcases List.mem_cons.mp hp with rfl | hp
          · rfl
          · rcases List.mem_cons.mp hs with e | hs
            · exact absurd (e ▸ h.regLt p hp) (Nat.lt_irrefl _)
            · exact h.safeRoot p hp hs
      · refine ⟨rl1, lt1 h.freedLt, hsafe, ?_, hfu⟩
        intro p hp hs
        rcases List.mem_cons.mp hs with e | hs
        · exact absurd (e ▸ h.regLt p hp) (Nat.lt_irrefl _)
        · exact h.safeRoot p hp hs

theorem WInv.run (hw : SweepWired) (cfg : Cfg) : ∀ (evs : List WEv) (s : WSt), WInv s → WInv (evs.foldl (wstep cfg) s)
  | [], _, h => h
  | ev :: evs, _, h => WInv.run hw cfg evs _ (WInv.step hw cfg h ev)

theorem WInv.threadEnd (hw : SweepWired) (cfg : Cfg) {s : WSt} (h : WInv s) : WInv (threadEnd cfg s) := by
  unfold Thr.threadEnd
  split
  · exact WInv.afterPhases hw h _ gcDelCalls [] (by intro p hp; cases hp)
  · exact h

theorem workerRun_inv (hw : SweepWired) (cfg : Cfg) (evs : List WEv) : WInv (workerRun cfg evs) :=
  WInv.threadEnd hw cfg (WInv.run hw cfg evs {} WInv.init)

/-- which blocks exist and which of them are roots / raw does not depend on the configuration -/
theorem wstep_cfg_free (c1 c2 : Cfg) (s1 s2 : WSt) (ev : WEv) (hn : s1.next = s2.next) (hs : s1.safe = s2.safe) :
    (wstep c1 s1 ev).next = (wstep c2 s2 ev).next ∧ (wstep c1 s1 ev).safe = (wstep c2 s2 ev).safe := by
  cases ev with
  | collect reached => simp only [wstep]; constructor <;> (split <;> split <;> simp [hn, hs])
  | alloc m =>
    cases m <;> simp only [wstep]
    · constructor <;> (split <;> split <;> simp [hn, hs])
    · simp [hn, hs]
    · constructor <;> (split <;> split <;> simp [hn, hs])

theorem run_cfg_free (c1 c2 : Cfg) : ∀ (evs : List WEv) (s1 s2 : WSt), s1.next = s2.next → s1.safe = s2.safe →
    (evs.foldl (wstep c1) s1).safe = (evs.foldl (wstep c2) s2).safe
  | [], _, _, _, hs => hs
  | ev :: evs, s1, s2, hn, hs =>
    run_cfg_free c1 c2 evs _ _ (wstep_cfg_free c1 c2 s1 s2 ev hn hs).1 (wstep_cfg_free c1 c2 s1 s2 ev hn hs).2

theorem threadEnd_safe (cfg : Cfg) (s : WSt) : (threadEnd cfg s).safe = s.safe := by
  unfold threadEnd; split <;> rfl

theorem workerRun_safe (c1 c2 : Cfg) (evs : List WEv) : (workerRun c1 evs).safe = (workerRun c2 evs).safe := by
  unfold workerRun
  rw [threadEnd_safe, threadEnd_safe]
  exact run_cfg_free c1 c2 evs {} {} rfl rfl

end Cello.Config.Thr
