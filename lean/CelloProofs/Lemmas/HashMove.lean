/-
  Lemmas for C10: element memory. A value read back from its own words is the value; a memcpy whose width covers the whole
  element (as the widths extracted from the source do, for every layout) moves the element: `treeRelocate`, `copySlot`,
  `loadSlot`, the memmoves of `arrayPopAt` / `arrayPushAt`.
-/
import Cello.Hash
set_option linter.unusedSimpArgs false
set_option linter.unusedVariables false

namespace Cello.Hash

/-! ### words of a value -/

theorem rawCells_length (n : Nat) (b : Bytes) : (rawCells n b).length = n := by
  induction n generalizing b with
  | zero => rfl
  | succ n ih => simp [rawCells, ih]

theorem pad8_length_of_le {b : Bytes} (h : b.length ≤ 8) : (pad8 b).length = 8 := by
  simp [pad8]; omega

/-- the bytes of the first `n` words of a struct are the struct followed by padding -/
theorem rawCells_bytes (n : Nat) : ∀ (b : Bytes), b.length ≤ 8 * n → ((rawCells n b).flatMap cellBytes).take b.length = b := by
  induction n with
  | zero => intro b h; have : b = [] := List.eq_nil_of_length_eq_zero (by omega); subst this; rfl
  | succ n ih =>
    intro b h
    simp only [rawCells, List.flatMap_cons, cellBytes]
    by_cases hb : b.length ≤ 8
    · have : b.take 8 = b := List.take_of_length_le hb
      rw [this, pad8, List.append_assoc, List.take_left']
      rfl
    · have hlen : (b.take 8).length = 8 := by simp; omega
      have hp : pad8 (b.take 8) = b.take 8 := by simp [pad8, hlen]
      rw [hp]
      have hsplit : b.length = (b.take 8).length + (b.drop 8).length := by simp; omega
      rw [hsplit, List.take_length_add_append, ih (b.drop 8) (by simp; omega), List.take_append_drop]

theorem wordsOf_ge (n : Nat) : n ≤ 8 * wordsOf n := by unfold wordsOf; omega

/-- **a value read back from its own words is the value** (every type, every size) -/
theorem scalarOfCells_cells (s : Scalar) : scalarOfCells s (scalarCells s) = s := by
  cases s with
  | int v => rfl
  | float b => rfl
  | str b => rfl
  | typ n => rfl
  | ptr bx t => rfl
  | raw k b => simp only [scalarCells, scalarOfCells]; rw [rawCells_bytes _ b (wordsOf_ge _)]

/-- the template only supplies the type: any value of the same shape reads the same words alike -/
theorem scalarCells_length_raw (k : Nat) (b : Bytes) : (scalarCells (.raw k b)).length = wordsOf b.length := by
  simp [scalarCells, rawCells_length]

/-! ### memcpy -/

/-- a copy from offset 0 to offset 0 whose width covers both blocks replaces the destination by the source -/
theorem blit_full (src dst : List Cell) (n : Nat) (hs : src.length ≤ n) (hd : dst.length ≤ n) : blit 0 0 n src dst = src := by
  simp [blit, List.take_of_length_le hs, List.drop_eq_nil_of_le hd]

theorem take_drop_append₃ {α} (a b c : List α) : ((a ++ b ++ c).drop a.length).take b.length = b := by
  simp [List.append_assoc]

theorem take_drop_of_parts {α} (a b c : List α) (i n : Nat) (hi : a.length = i) (hn : b.length = n) :
    ((a ++ (b ++ c)).drop i).take n = b := by
  subst hi hn; simp

/-! ### Tree: the relocation of `Tree_Rem` -/

/-- the value occupies `w` words -/
def Sized (w : Nat) (s : Scalar) : Prop := (scalarCells s).length = w

def EntrySized (L : Layout) (e : Scalar × Scalar) : Prop := Sized L.kw e.1 ∧ Sized L.vw e.2

instance (w : Nat) (s : Scalar) : Decidable (Sized w s) := by unfold Sized; infer_instance
instance (L : Layout) (e : Scalar × Scalar) : Decidable (EntrySized L e) := by unfold EntrySized; infer_instance

theorem sizedB_iff (w : Nat) (s : Scalar) : sizedB w s = true ↔ Sized w s := by simp [sizedB, Sized]

theorem entrySizedB_iff (L : Layout) (e : Scalar × Scalar) : entrySizedB L e = true ↔ EntrySized L e := by
  simp [entrySizedB, EntrySized, sizedB_iff]

theorem treeNodeCells_length (L : Layout) (e : Scalar × Scalar) (h : EntrySized L e) :
    (treeNodeCells L e).length = L.hw + L.kw + (L.hw + L.vw) := by
  have hk : (scalarCells e.1).length = L.kw := h.1
  have hv : (scalarCells e.2).length = L.vw := h.2
  simp [treeNodeCells, hk, hv]; omega

/-- reading key and value at the offsets `Tree_Key` / `Tree_Val` of the source from a node's own payload gives the entry -/
theorem treeEntryOfCells_cells (L : Layout) (e : Scalar × Scalar) (h : EntrySized L e) :
    treeEntryOfCells L e (treeNodeCells L e) = e := by
  obtain ⟨hk, hv⟩ := h
  unfold Sized at hk hv
  have e1 : ((treeNodeCells L e).drop (evalSize L CelloGen.Hash.treeKeyOff)).take L.kw = scalarCells e.1 := by
    simp only [treeNodeCells, evalSize, CelloGen.Hash.treeKeyOff, List.foldl_cons, List.foldl_nil, termWords, Nat.zero_add]
    rw [List.append_assoc]
    exact take_drop_of_parts _ _ _ _ _ (by simp) hk
  have e2 : ((treeNodeCells L e).drop (evalSize L CelloGen.Hash.treeValOff)).take L.vw = scalarCells e.2 := by
    simp only [treeNodeCells, evalSize, CelloGen.Hash.treeValOff, List.foldl_cons, List.foldl_nil, termWords, Nat.zero_add]
    rw [← List.append_assoc (List.replicate L.hw (Cell.hdr false) ++ scalarCells e.1)]
    have := take_drop_of_parts (List.replicate L.hw (Cell.hdr false) ++ scalarCells e.1 ++ List.replicate L.hw (Cell.hdr true))
      (scalarCells e.2) [] (L.hw + L.kw + L.hw) L.vw (by simp [hk]; omega) hv
    simpa using this
  simp only [treeEntryOfCells, e1, e2, scalarOfCells_cells]

/-- **the memcpy of `Tree_Rem` moves the whole payload**: with the width the source gives it (for every header, key and value
    width) the node holds the in-order neighbour's key and value afterwards -/
theorem treeRelocate_full (L : Layout) (pred node : Scalar × Scalar) (hp : EntrySized L pred) (hn : EntrySized L node) :
    treeRelocate L pred node = pred := by
  unfold treeRelocate
  rw [blit_full _ _ _ (by rw [treeNodeCells_length L pred hp]; simp [evalSize, CelloGen.Hash.treeRemMoveSize, termWords]; omega)
    (by rw [treeNodeCells_length L node hn]; simp [evalSize, CelloGen.Hash.treeRemMoveSize, termWords]; omega)]
  exact treeEntryOfCells_cells L pred hp

/-! ### Array: the memmoves of `Array_Pop_At` / `Array_Push_At` -/

theorem arrayStepW_eq (L : Layout) : arrayStepW L = L.hw + L.vw := by
  simp [arrayStepW, evalSize, CelloGen.Hash.arrayStepTerms, termWords]; omega

theorem elemCells_length (L : Layout) (s : Scalar) (h : Sized L.vw s) : (elemCells L s).length = arrayStepW L := by
  unfold Sized at h
  simp [elemCells, arrayStepW_eq, h]

theorem elemsCells_length (L : Layout) (xs : List Scalar) (h : ∀ x ∈ xs, Sized L.vw x) :
    (elemsCells L xs).length = arrayStepW L * xs.length := by
  induction xs with
  | nil => simp [elemsCells]
  | cons x xs ih =>
    have := ih (fun y hy => h y (by simp [hy]))
    simp only [elemsCells, List.flatMap_cons, List.length_append, List.length_cons] at this ⊢
    rw [this, elemCells_length L x (h x (by simp)), Nat.mul_succ]; omega

theorem elemsCells_append (L : Layout) (xs ys : List Scalar) : elemsCells L (xs ++ ys) = elemsCells L xs ++ elemsCells L ys := by
  simp [elemsCells]

/-- reading element slots back from their own words (whatever follows them) gives the elements -/
theorem elemsOfCells_cells (L : Layout) (ts : List Scalar) (rest : List Cell) (h : ∀ x ∈ ts, Sized L.vw x) :
    elemsOfCells L ts (elemsCells L ts ++ rest) = ts := by
  induction ts with
  | nil => rfl
  | cons t ts ih =>
    have ht : Sized L.vw t := h t (by simp)
    have e1 : ((elemsCells L (t :: ts) ++ rest).drop (evalSize L CelloGen.Hash.arrayItemOff)).take L.vw = scalarCells t := by
      simp only [elemsCells, List.flatMap_cons, elemCells, evalSize, CelloGen.Hash.arrayItemOff, List.foldl_cons, List.foldl_nil,
        termWords, Nat.zero_add, List.append_assoc]
      exact take_drop_of_parts _ _ _ _ _ (by simp) ht
    have e2 : (elemsCells L (t :: ts) ++ rest).drop (arrayStepW L) = elemsCells L ts ++ rest := by
      simp only [elemsCells, List.flatMap_cons, List.append_assoc]
      exact List.drop_left' (elemCells_length L t ht)
    simp only [elemsOfCells, e1, e2, scalarOfCells_cells, ih (fun y hy => h y (by simp [hy]))]

/-- **`Array_Pop_At` removes exactly element `i`**: the memmove of the source closes the gap for every element width -/
theorem arrayPopAt_eq (L : Layout) (A B : List Scalar) (x : Scalar) (h : ∀ y ∈ A ++ x :: B, Sized L.vw y) :
    arrayPopAt L (A ++ x :: B) A.length = A ++ B := by
  have hA : ∀ y ∈ A, Sized L.vw y := fun y hy => h y (by simp [hy])
  have hB : ∀ y ∈ B, Sized L.vw y := fun y hy => h y (by simp [hy])
  have hx : Sized L.vw x := h x (by simp)
  have lA := elemsCells_length L A hA
  have lB := elemsCells_length L B hB
  have lx := elemCells_length L x hx
  have hmem : elemsCells L (A ++ x :: B) = elemsCells L A ++ (elemCells L x ++ elemsCells L B) := by
    simp [elemsCells]
  simp only [arrayPopAt, CelloGen.Hash.arrayPopAtDst, CelloGen.Hash.arrayPopAtSrc, Nat.add_zero, blit, hmem]
  have t1 : (elemsCells L A ++ (elemCells L x ++ elemsCells L B)).take (arrayStepW L * A.length) = elemsCells L A :=
    List.take_left' lA
  have t2 : ((elemsCells L A ++ (elemCells L x ++ elemsCells L B)).drop (arrayStepW L * (A.length + 1))).take
      (arrayStepW L * ((A ++ x :: B).length - 1 - A.length)) = elemsCells L B := by
    rw [← List.append_assoc, List.drop_left' (by simp [lA, lx, Nat.mul_succ])]
    apply List.take_of_length_le
    simp [lB]
  rw [t1, t2]
  have t3 : (A ++ x :: B).take A.length ++ (A ++ x :: B).drop (A.length + 1) = A ++ B := by simp
  rw [t3, ← List.append_assoc, ← elemsCells_append]
  exact elemsOfCells_cells L (A ++ B) _ (fun y hy => by
    rcases List.mem_append.mp hy with hy | hy
    · exact hA y hy
    · exact hB y hy)

/-- **`Array_Push_At` inserts before element `i`**: the memmove of the source opens the gap for every element width -/
theorem arrayPushAt_eq (L : Layout) (A B : List Scalar) (x : Scalar) (h : ∀ y ∈ A ++ B, Sized L.vw y) :
    arrayPushAt L (A ++ B) A.length x = A ++ x :: B := by
  have hA : ∀ y ∈ A, Sized L.vw y := fun y hy => h y (by simp [hy])
  have hB : ∀ y ∈ B, Sized L.vw y := fun y hy => h y (by simp [hy])
  have lA := elemsCells_length L A hA
  have lB := elemsCells_length L B hB
  simp only [arrayPushAt, CelloGen.Hash.arrayPushAtDst, CelloGen.Hash.arrayPushAtSrc, Nat.add_zero, blit, elemsCells_append,
    List.append_assoc]
  have hn : (A ++ B).length + 1 - 1 - A.length = B.length := by simp
  rw [hn]
  -- the block that is moved: the elements from `i` on
  have t2 : ((elemsCells L A ++ (elemsCells L B ++ List.replicate (arrayStepW L) Cell.zero)).drop (arrayStepW L * A.length)).take
      (arrayStepW L * B.length) = elemsCells L B := by
    rw [List.drop_left' lA]; exact List.take_left' lB
  have t3 : (elemsCells L A ++ (elemsCells L B ++ List.replicate (arrayStepW L) Cell.zero)).drop
      (arrayStepW L * (A.length + 1) + arrayStepW L * B.length) = [] := by
    apply List.drop_eq_nil_of_le
    simp [lA, lB, Nat.mul_succ]; omega
  have t1 : (elemsCells L A ++ (elemsCells L B ++ List.replicate (arrayStepW L) Cell.zero)).take (arrayStepW L * (A.length + 1)) =
      elemsCells L A ++ (elemsCells L B ++ List.replicate (arrayStepW L) Cell.zero).take (arrayStepW L) := by
    rw [Nat.mul_succ, ← lA]; exact List.take_length_add_append _
  rw [t2, t3, t1]
  have lgap : ((elemsCells L B ++ List.replicate (arrayStepW L) Cell.zero).take (arrayStepW L)).length = arrayStepW L := by
    simp [lB]
  have hAx : (A ++ B).take A.length = A := by simp
  have hBx : (A ++ B).drop A.length = B := by simp
  rw [hAx, hBx, List.append_assoc, elemsOfCells_cells L A _ hA]
  have t4 : (elemsCells L A ++ ((elemsCells L B ++ List.replicate (arrayStepW L) Cell.zero).take (arrayStepW L) ++
      (elemsCells L B ++ []))).drop (arrayStepW L * (A.length + 1)) = elemsCells L B ++ [] := by
    rw [← List.append_assoc]
    exact List.drop_left' (by simp only [List.length_append, lA, lgap, Nat.mul_succ])
  rw [t4, elemsOfCells_cells L B _ hB]

/-! ### Table: copies of a slot -/

/-- an occupied slot whose key and value fill the widths of `L` -/
def SlotSized (L : Layout) (s : Slot) : Prop := s.stored ≠ 0 ∧ Sized L.kw s.k ∧ Sized L.vw s.v

instance (L : Layout) (s : Slot) : Decidable (SlotSized L s) := by unfold SlotSized; infer_instance

theorem slotSizedB_iff (L : Layout) (s : Slot) : slotSizedB L s = true ↔ SlotSized L s := by
  simp [slotSizedB, SlotSized, sizedB_iff, and_assoc]

theorem tableStepW_eq (L : Layout) : tableStepW L = 1 + L.hw + L.kw + L.hw + L.vw := by
  simp [tableStepW, evalSize, CelloGen.Hash.tableStepTerms, termWords]

theorem slotCells_length (L : Layout) (o : Option Slot) (h : ∀ s, o = some s → SlotSized L s) :
    (slotCells L o).length = tableStepW L := by
  cases o with
  | none => simp [slotCells]
  | some s =>
    obtain ⟨_, hk, hv⟩ := h s rfl
    unfold Sized at hk hv
    simp [slotCells, tableStepW_eq, hk, hv]; omega

/-- reading a slot back from its own words -/
theorem slotOfCells_cells (L : Layout) (s : Slot) (h : SlotSized L s) : slotOfCells L s (slotCells L (some s)) = some s := by
  obtain ⟨h0, hk, hv⟩ := h
  unfold Sized at hk hv
  have e1 : ((slotCells L (some s)).drop (evalSize L CelloGen.Hash.tableKeyOff)).take L.kw = scalarCells s.k := by
    simp only [slotCells, evalSize, CelloGen.Hash.tableKeyOff, List.foldl_cons, List.foldl_nil, termWords, Nat.zero_add]
    have := take_drop_of_parts (Cell.tag s.stored :: List.replicate L.hw (Cell.hdr false)) (scalarCells s.k)
      (List.replicate L.hw (Cell.hdr true) ++ scalarCells s.v) (1 + L.hw) L.kw (by simp; omega) hk
    simpa [List.append_assoc] using this
  have e2 : ((slotCells L (some s)).drop (evalSize L CelloGen.Hash.tableValOff)).take L.vw = scalarCells s.v := by
    simp only [slotCells, evalSize, CelloGen.Hash.tableValOff, List.foldl_cons, List.foldl_nil, termWords, Nat.zero_add]
    have := take_drop_of_parts (Cell.tag s.stored :: (List.replicate L.hw (Cell.hdr false) ++ scalarCells s.k ++
      List.replicate L.hw (Cell.hdr true))) (scalarCells s.v) [] (1 + L.hw + L.kw + L.hw) L.vw (by simp [hk]; omega) hv
    simpa [List.append_assoc] using this
  have hs : slotCells L (some s) = Cell.tag s.stored :: (List.replicate L.hw (Cell.hdr false) ++ scalarCells s.k ++
      (List.replicate L.hw (Cell.hdr true) ++ scalarCells s.v)) := rfl
  unfold slotOfCells
  rw [e1, e2, hs]
  simp [h0, scalarOfCells_cells]

/-- **a slot `memcpy` of `Table_Step(t)` words moves the whole slot** (home, key, value), over an empty or an occupied slot -/
theorem copySlot_full (L : Layout) (src : Slot) (dst : Option Slot) (hs : SlotSized L src)
    (hd : ∀ s, dst = some s → SlotSized L s) : copySlot L src dst = some src := by
  unfold copySlot
  rw [blit_full _ _ _ (by rw [slotCells_length L (some src) (fun s e => by cases e; exact hs)]; exact Nat.le_refl _)
    (by rw [slotCells_length L dst hd]; exact Nat.le_refl _)]
  exact slotOfCells_cells L src hs

/-- **the two memcpys of `Table_Set_Move(…, move)` carry the whole key and the whole value** of the old slot into `sspace0` -/
theorem loadSlot_full (L : Layout) (home1 : Nat) (old : Slot) (h0 : home1 ≠ 0) (hs : SlotSized L old) :
    loadSlot L home1 old = some { old with stored := home1 } := by
  obtain ⟨_, hk, hv⟩ := hs
  unfold Sized at hk hv
  have hcells : blit (evalSize L CelloGen.Hash.tableMoveValDst) (evalSize L CelloGen.Hash.tableRehashValOff - L.hw)
      (evalSize L CelloGen.Hash.tableMoveValSize) (slotCells L (some old))
      (blit (evalSize L CelloGen.Hash.tableMoveKeyDst) (evalSize L CelloGen.Hash.tableRehashKeyOff - L.hw)
        (evalSize L CelloGen.Hash.tableMoveKeySize) (slotCells L (some old))
        (Cell.tag home1 :: List.replicate (tableStepW L - 1) Cell.zero)) =
      slotCells L (some { old with stored := home1 }) := by
    simp only [evalSize, CelloGen.Hash.tableMoveValDst, CelloGen.Hash.tableRehashValOff, CelloGen.Hash.tableMoveValSize,
      CelloGen.Hash.tableMoveKeyDst, CelloGen.Hash.tableRehashKeyOff, CelloGen.Hash.tableMoveKeySize, List.foldl_cons,
      List.foldl_nil, termWords, Nat.zero_add, tableStepW_eq, slotCells, blit]
    have a1 : 1 + L.hw - L.hw = 1 := by omega
    have a2 : 1 + L.hw + L.kw + L.hw - L.hw = 1 + L.hw + L.kw := by omega
    have a3 : 1 + L.hw + L.kw + L.hw + L.vw - 1 = L.hw + L.kw + (L.hw + L.vw) := by omega
    rw [a1, a2, a3]
    -- the key block (header and key) of the old slot
    have k1 : ((Cell.tag old.stored :: (List.replicate L.hw (Cell.hdr false) ++ scalarCells old.k ++
        (List.replicate L.hw (Cell.hdr true) ++ scalarCells old.v))).drop 1).take (L.kw + L.hw) =
        List.replicate L.hw (Cell.hdr false) ++ scalarCells old.k := by
      simp only [List.drop_succ_cons, List.drop_zero]
      exact List.take_left' (by simp [hk]; omega)
    have v1 : ((Cell.tag old.stored :: (List.replicate L.hw (Cell.hdr false) ++ scalarCells old.k ++
        (List.replicate L.hw (Cell.hdr true) ++ scalarCells old.v))).drop (1 + L.hw + L.kw)).take (L.vw + L.hw) =
        List.replicate L.hw (Cell.hdr true) ++ scalarCells old.v := by
      rw [show 1 + L.hw + L.kw = (L.hw + L.kw) + 1 by omega, List.drop_succ_cons,
        List.drop_left' (by simp [hk])]
      exact List.take_of_length_le (by simp [hv]; omega)
    rw [k1, v1]
    simp only [List.take_succ_cons, List.take_zero, List.drop_succ_cons, List.drop_zero, List.cons_append, List.nil_append]
    have d1 : (List.replicate (L.hw + L.kw + (L.hw + L.vw)) Cell.zero).drop (L.kw + L.hw) =
        List.replicate (L.hw + L.vw) Cell.zero := by simp; omega
    rw [show (1 + (L.kw + L.hw)) = (L.kw + L.hw) + 1 by omega, List.drop_succ_cons, d1]
    rw [show 1 + L.hw + L.kw = (L.hw + L.kw) + 1 by omega, List.take_succ_cons,
      List.take_left' (by simp [hk])]
    rw [show L.hw + L.kw + 1 + (L.vw + L.hw) = (L.hw + L.kw + (L.vw + L.hw)) + 1 by omega, List.drop_succ_cons]
    rw [List.drop_eq_nil_of_le (by simp [hk]; omega)]
    simp [List.append_assoc]
  unfold loadSlot
  simp only [hcells]
  have hs' : SlotSized L { old with stored := home1 } := ⟨h0, hk, hv⟩
  have := slotOfCells_cells L { old with stored := home1 } hs'
  unfold slotOfCells at this ⊢
  exact this

end Cello.Hash
