/-
  Helper lemmas for C08 (type-class dispatch): the invariant of a type object and its preservation by every lookup
  function and by every atomic step of the small-step machine.
-/
import Cello.Dispatch

namespace Cello.Dispatch

/-! ### the declaration depends only on the immutable part of the triples -/

theorem declared_congr : ∀ {es es' : List Entry}, es.map Entry.skel = es'.map Entry.skel →
    ∀ nm, declared es nm = declared es' nm
  | [], [], _, _ => rfl
  | [], _ :: _, h, _ => by simp at h
  | _ :: _, [], h, _ => by simp at h
  | e :: es, e' :: es', h, nm => by
    simp only [List.map_cons, List.cons.injEq, Entry.skel, Prod.mk.injEq] at h
    obtain ⟨⟨hn, hi⟩, ht⟩ := h
    simp only [declared, hn, hi, declared_congr ht nm]

theorem declared_append_of_not_mem {pre : List Entry} {nm : String} (h : ∀ e ∈ pre, e.name ≠ nm) (es : List Entry) :
    declared (pre ++ es) nm = declared es nm := by
  induction pre with
  | nil => rfl
  | cons e pre ih =>
    have h1 : e.name ≠ nm := h e (by simp)
    simp only [List.cons_append, declared, h1, if_false]
    exact ih (fun e' he' => h e' (by simp [he']))

theorem declared_drop_step {es : List Entry} {pos : Nat} {e : Entry} (h : es[pos]? = some e) (nm : String) :
    declared (es.drop pos) nm = if e.name = nm then some e.inst else declared (es.drop (pos + 1)) nm := by
  have hlt : pos < es.length := by
    rcases Nat.lt_or_ge pos es.length with h' | h'
    · exact h'
    · simp [List.getElem?_eq_none h'] at h
  have he : es[pos] = e := by simpa [List.getElem?_eq_getElem hlt] using h
  rw [List.drop_eq_getElem_cons hlt, he]
  rfl

theorem declared_drop_none {es : List Entry} {pos : Nat} (h : es[pos]? = none) (nm : String) :
    declared (es.drop pos) nm = none := by
  have : es.length ≤ pos := by
    rcases Nat.lt_or_ge pos es.length with h' | h'
    · simp [List.getElem?_eq_getElem h'] at h
    · exact h'
  rw [List.drop_eq_nil_of_le this]; rfl

/-! ### Type_Scan -/

theorem scanName_skel (cls : Cls) : ∀ es : List Entry, (scanName cls es).1.map Entry.skel = es.map Entry.skel
  | [] => rfl
  | e :: es => by
    simp only [scanName]
    split
    · simp [Entry.skel]
    · simp [scanName_skel cls es]

theorem scanName_snd (cls : Cls) : ∀ es : List Entry, (scanName cls es).2 = declared es cls.name
  | [] => rfl
  | e :: es => by
    simp only [scanName, declared]
    split
    · rfl
    · exact scanName_snd cls es

/-- the memoised class pointers are sound: a triple that carries class `c` has `c`'s name and holds the declared instance -/
def MemoOK (D : String → Option Inst) (es : List Entry) : Prop :=
  ∀ e ∈ es, ∀ c, e.memo = some c → c.name = e.name ∧ D e.name = some e.inst

theorem scanName_memoOK {D : String → Option Inst} (cls : Cls) :
    ∀ es : List Entry, MemoOK D es → D cls.name = declared es cls.name → MemoOK D (scanName cls es).1
  | [], h, _ => h
  | e :: es, h, hd => by
    simp only [scanName]
    split
    · rename_i hn
      intro e' he' c hc
      simp only [List.mem_cons] at he'
      rcases he' with rfl | he'
      · simp only [Option.some.injEq] at hc
        subst hc
        refine ⟨hn.symm, ?_⟩
        simp only [declared, hn, if_true] at hd
        simpa [hn] using hd
      · exact h e' (by simp [he']) c hc
    · rename_i hn
      have hd' : D cls.name = declared es cls.name := by simpa [declared, hn] using hd
      have ih := scanName_memoOK cls es (fun e' he' => h e' (by simp [he'])) hd'
      intro e' he' c hc
      simp only [List.mem_cons] at he'
      rcases he' with rfl | he'
      · exact h e' (by simp) c hc
      · exact ih e' he' c hc

theorem scanPtr_some {D : String → Option Inst} (cls : Cls) :
    ∀ es : List Entry, MemoOK D es → ∀ i, scanPtr cls es = some i → D cls.name = some i
  | [], _, _, h => by simp [scanPtr] at h
  | e :: es, hm, i, h => by
    simp only [scanPtr] at h
    split at h
    · rename_i hc
      simp only [Option.some.injEq] at h
      subst h
      have := hm e (by simp) cls hc
      rw [this.1]; exact this.2
    · exact scanPtr_some cls es (fun e' he' => hm e' (by simp [he'])) i h

/-! ### the invariant of a type object -/

/-- the Type_Cache_Entry table is usable with `n` cache words -/
structure SlotsOK (slots : List (Nat × Cls)) (n : Nat) : Prop where
  nodup : (slots.map Prod.fst).Nodup
  bound : ∀ s ∈ slots, s.1 < n

/-- **Invariant** of a type object relative to a declaration `D`: the triples still declare `D`; memoised class pointers
    are sound; there are `n` cache words; a non-empty cache word of a slot holds the declared instance of the slot's class -/
structure Inv (D : String → Option Inst) (slots : List (Nat × Cls)) (n : Nat) (t : TypeRec) : Prop where
  decl : ∀ nm, declared t.entries nm = D nm
  memo : MemoOK D t.entries
  len : t.cache.length = n
  cache : ∀ s ∈ slots, ∀ v, t.cache[s.1]? = some (some v) → D s.2.name = some v

theorem eq_of_fst_eq : ∀ {l : List (Nat × Cls)}, (l.map Prod.fst).Nodup →
    ∀ s ∈ l, ∀ s' ∈ l, s.1 = s'.1 → s = s'
  | [], _, s, hs, _, _, _ => by simp at hs
  | a :: l, hnd, s, hs, s', hs', h => by
    simp only [List.map_cons, List.nodup_cons, List.mem_map, not_exists, not_and] at hnd
    simp only [List.mem_cons] at hs hs'
    rcases hs with rfl | hs <;> rcases hs' with rfl | hs'
    · rfl
    · exact absurd h.symm (hnd.1 s' hs')
    · exact absurd h (hnd.1 s hs)
    · exact eq_of_fst_eq hnd.2 s hs s' hs' h

theorem slotOf_some {slots : List (Nat × Cls)} {cls : Cls} {i : Nat} {lit : Cls} (h : slotOf slots cls = some (i, lit)) :
    (i, lit) ∈ slots ∧ lit = cls := by
  unfold slotOf at h
  have h1 := List.find?_some h
  have h2 := List.mem_of_find?_eq_some h
  exact ⟨h2, by simpa using h1⟩

theorem Inv.hdr {D slots n t} (h : Inv D slots n t) (b : Bool) : Inv D slots n { t with hdr := b } :=
  ⟨h.decl, h.memo, h.len, h.cache⟩

theorem scan_spec {D slots n t} (h : Inv D slots n t) (cls : Cls) :
    (scan t cls).2 = D cls.name ∧ Inv D slots n (scan t cls).1 ∧
      (scan t cls).1.cache = t.cache ∧ (scan t cls).1.sentinel = t.sentinel := by
  unfold scan
  simp only
  cases hp : scanPtr cls t.entries with
  | some i =>
    simp only
    exact ⟨(scanPtr_some cls t.entries h.memo i hp).symm, h.hdr true, by first | rfl | trivial, by first | rfl | trivial⟩
  | none =>
    simp only
    refine ⟨?_, ⟨?_, ?_, h.len, h.cache⟩, by first | rfl | trivial, by first | rfl | trivial⟩
    · rw [scanName_snd]; exact h.decl _
    · intro nm; rw [declared_congr (scanName_skel cls t.entries) nm]; exact h.decl nm
    · exact scanName_memoOK cls t.entries h.memo (h.decl _).symm

theorem cache_set_inv {D : String → Option Inst} {slots : List (Nat × Cls)} {n : Nat} {cache : List (Option Inst)} {i : Nat} {lit : Cls} {v : Option Inst}
    (hs : SlotsOK slots n) (hmem : (i, lit) ∈ slots) (hv : v = D lit.name)
    (hc : ∀ s ∈ slots, ∀ v, cache[s.1]? = some (some v) → D s.2.name = some v) :
    ∀ s ∈ slots, ∀ w, (cache.set i v)[s.1]? = some (some w) → D s.2.name = some w := by
  intro s hsm w hw
  by_cases hi : s.1 = i
  · have : s = (i, lit) := eq_of_fst_eq hs.nodup s hsm (i, lit) hmem hi
    subst this
    simp only [List.getElem?_set] at hw
    simp only [if_true] at hw
    split at hw
    · simp only [Option.some.injEq] at hw
      rw [← hv, hw]
    · simp at hw
  · rw [List.getElem?_set_ne (fun h => hi h.symm)] at hw
    exact hc s hsm w hw

theorem instanceOf_spec {D slots n t} (hs : SlotsOK slots n) (h : Inv D slots n t) (cls : Cls) :
    (instanceOf slots t cls).2 = .ok (D cls.name) ∧ Inv D slots n (instanceOf slots t cls).1 ∧
      (instanceOf slots t cls).1.sentinel = t.sentinel := by
  unfold instanceOf
  cases hso : slotOf slots cls with
  | none =>
    simp only
    have := scan_spec h cls
    exact ⟨by rw [this.1], this.2.1, this.2.2.2⟩
  | some p =>
    obtain ⟨i, lit⟩ := p
    obtain ⟨hmem, rfl⟩ := slotOf_some hso
    have hlt : i < t.cache.length := by rw [h.len]; exact hs.bound _ hmem
    simp only [hlt, dite_true]
    cases hc : t.cache[i] with
    | some inst =>
      simp only
      have : t.cache[i]? = some (some inst) := by rw [List.getElem?_eq_getElem hlt, hc]
      exact ⟨by rw [h.cache _ hmem inst this], h, by first | rfl | trivial⟩
    | none =>
      simp only
      have sp := scan_spec h lit
      refine ⟨by rw [sp.1], ⟨sp.2.1.decl, sp.2.1.memo, ?_, ?_⟩, sp.2.2.2⟩
      · simp only [List.length_set]; exact sp.2.1.len
      · exact cache_set_inv hs hmem sp.1 sp.2.1.cache

theorem reset_spec {D slots n t} (h : Inv D slots n t) : Inv D slots n (reset t) := by
  refine ⟨?_, ?_, ?_, ?_⟩
  · intro nm
    have : (reset t).entries.map Entry.skel = t.entries.map Entry.skel := by
      simp [reset, Entry.skel, Function.comp_def]
    rw [declared_congr this nm]; exact h.decl nm
  · intro e he c hc
    simp only [reset, List.mem_map] at he
    obtain ⟨e0, _, rfl⟩ := he
    simp at hc
  · simp [reset, h.len]
  · intro s _ v hv
    simp only [reset, List.getElem?_map] at hv
    cases hq : t.cache[s.1]? <;> simp [hq] at hv

/-! ### one lookup of a history -/

theorem applyOp_spec {D : String → Option Inst} {slots : List (Nat × Cls)} {n : Nat} {t : TypeRec}
    (hs : SlotsOK slots n) (h : Inv D slots n t) (op : Op) :
    (applyOp slots t op).2 = specObs t.sentinel D op ∧ Inv D slots n (applyOp slots t op).1 ∧
      (applyOp slots t op).1.sentinel = t.sentinel := by
  cases op with
  | lookup cls =>
    have sp := instanceOf_spec hs h cls
    simp only [applyOp, specObs]
    exact ⟨by rw [sp.1], sp.2.1, sp.2.2⟩
  | implements cls =>
    have sp := scan_spec h cls
    simp only [applyOp, specObs, implementsT]
    exact ⟨by rw [sp.1], sp.2.1, sp.2.2.2⟩
  | methodAt cls k =>
    have sp := instanceOf_spec hs h cls
    simp only [applyOp, specObs, methodAt]
    rcases hio : instanceOf slots t cls with ⟨t1, o⟩
    rw [hio] at sp
    simp only at sp
    obtain ⟨ho, hinv, hsent⟩ := sp
    subst ho
    cases hD : D cls.name with
    | none => exact ⟨rfl, hinv, hsent⟩
    | some inst =>
      simp only
      cases hm : memberAt inst k with
      | ok b => cases b <;> exact ⟨rfl, hinv, hsent⟩
      | raised e => exact ⟨rfl, hinv, hsent⟩
      | ub => exact ⟨rfl, hinv, hsent⟩
  | implementsMethodAt cls k =>
    have sp := scan_spec h cls
    simp only [applyOp, specObs, implementsMethodAt]
    rcases hsc : scan t cls with ⟨t1, o⟩
    rw [hsc] at sp
    simp only at sp
    obtain ⟨ho, hinv, _, hsent⟩ := sp
    subst ho
    cases hD : D cls.name with
    | none => exact ⟨rfl, hinv, hsent⟩
    | some inst => exact ⟨rfl, hinv, hsent⟩
  | reset => exact ⟨rfl, reset_spec h, rfl⟩

theorem runOps_spec {D : String → Option Inst} {slots : List (Nat × Cls)} {n : Nat} (hs : SlotsOK slots n) :
    ∀ (ops : List Op) (t : TypeRec), Inv D slots n t →
      (runOps slots t ops).2 = ops.map (specObs t.sentinel D) ∧ Inv D slots n (runOps slots t ops).1
  | [], _, h => ⟨rfl, h⟩
  | op :: ops, t, h => by
    have sp := applyOp_spec hs h op
    have ih := runOps_spec hs ops (applyOp slots t op).1 sp.2.1
    simp only [runOps, List.map_cons]
    exact ⟨by rw [sp.1, ih.1, sp.2.2], ih.2⟩

/-! ### freshly built type objects -/

theorem declared_mkEntries (es : List (String × Inst)) (nm : String) :
    declared (es.map (fun p => (⟨none, p.1, p.2⟩ : Entry))) nm = (es.find? (fun p => p.1 = nm)).map (·.2) := by
  induction es with
  | nil => rfl
  | cons p es ih =>
    simp only [List.map_cons, declared, List.find?_cons]
    by_cases hp : p.1 = nm
    · simp [hp]
    · simp [hp, ih]

/-- what `Cello(…)`, `CelloEmpty(…)` and `Type_New` build satisfies the invariant relative to its own declaration -/
theorem mkType_inv (slots : List (Nat × Cls)) (n : Nat) (hdr sent : Bool) (es : List (String × Inst)) :
    Inv (declared (mkType n hdr es sent).entries) slots n (mkType n hdr es sent) := by
  refine ⟨fun _ => rfl, ?_, by simp [mkType], ?_⟩
  · intro e he c hc
    simp only [mkType, List.mem_map] at he
    obtain ⟨p, _, rfl⟩ := he
    simp at hc
  · intro s _ v hv
    simp only [mkType] at hv
    rw [List.getElem?_replicate] at hv
    split at hv <;> simp at hv

/-- the executable invariant (evaluated by the driver on every state it reaches) is the invariant of the theorems -/
theorem inv_of_invb {slots : List (Nat × Cls)} {t : TypeRec} (h : invb slots t = true) :
    Inv (declared t.entries) slots t.cache.length t := by
  simp only [invb, Bool.and_eq_true, memoOKb, cacheOKb, List.all_eq_true] at h
  refine ⟨fun _ => rfl, ?_, rfl, ?_⟩
  · intro e he c hc
    have := h.1 e he
    simp only [hc, Bool.and_eq_true, decide_eq_true_eq] at this
    exact this
  · intro s hs v hv
    have := h.2 s hs
    simp only [hv, decide_eq_true_eq] at this
    exact this

end Cello.Dispatch
