/-
  Helper lemmas for C09, part 3: objects with identity (`Obj`), the traversal discipline of the sequence comparisons.

    objCmpF_sound       when `self` is walked by position (Tuple_Cmp by slot index, Array_Cmp / List_Cmp through their own,
                        positional, iterators) and no Tuple inside `obj` references one object twice, whatever `objCmpF`
                        returns is `valCmp` of the two CONTENTS — whatever is shared inside `self`, between the operands, or
                        if the operands are the same object
    objCmpF_terminates  under the same discipline fuel `size self` is enough, whatever `obj` is
-/
import Cello.Cmp
import CelloGen.Cmp
import CelloProofs.Lemmas.Cmp
import CelloProofs.Lemmas.CmpVal

set_option linter.unusedSimpArgs false
set_option linter.unusedVariables false

namespace Cello.Cmp
open CelloGen.Cmp (FloatOps Walk Discipline)

/-! ### slots of Arrays / Lists -/

theorem contents_enumSlots : ∀ (xs : List Val) (n : Nat), contents (enumSlots n xs) = xs := by
  intro xs
  induction xs with
  | nil => intro n; rfl
  | cons x xs ih => intro n; simp [enumSlots, contents, Obj.content, ih]

theorem slotsSize_enumSlots : ∀ (xs : List Val) (n : Nat), slotsSize (enumSlots n xs) = Val.sizeList xs := by
  intro xs
  induction xs with
  | nil => intro n; rfl
  | cons x xs ih => intro n; simp [enumSlots, slotsSize, Obj.size, Val.sizeList, ih]

theorem hasId_enumSlots : ∀ (xs : List Val) (n m : Nat), hasId m (enumSlots n xs) = true → n ≤ m := by
  intro xs
  induction xs with
  | nil => intro n m h; simp [enumSlots, hasId] at h
  | cons x xs ih =>
    intro n m h
    simp only [enumSlots, hasId, Bool.or_eq_true, beq_iff_eq] at h
    rcases h with h | h
    · omega
    · have := ih (n + 1) m h; omega

theorem idsNodup_enumSlots : ∀ (xs : List Val) (n : Nat), idsNodup (enumSlots n xs) = true := by
  intro xs
  induction xs with
  | nil => intro n; rfl
  | cons x xs ih =>
    intro n
    simp only [enumSlots, idsNodup, Bool.and_eq_true, Bool.not_eq_true', ih, and_true]
    cases h : hasId n (enumSlots (n + 1) xs) with
    | false => rfl
    | true => have := hasId_enumSlots xs (n + 1) n h; omega

theorem slotsNodup_enumSlots : ∀ (xs : List Val) (n : Nat), slotsNodup (enumSlots n xs) = true := by
  intro xs
  induction xs with
  | nil => intro n; rfl
  | cons x xs ih => intro n; simp [enumSlots, slotsNodup, Obj.nodup, ih]

/-! ### entries of Trees without shared parts -/

theorem entContents_valEnts : ∀ kvs : List (Val × Val), entContents (valEnts kvs) = kvs := by
  intro kvs
  induction kvs with
  | nil => rfl
  | cons p rest ih => obtain ⟨k, v⟩ := p; simp [valEnts, entContents, Obj.content, ih]

theorem entsSize_valEnts : ∀ kvs : List (Val × Val), entsSize (valEnts kvs) = Val.sizePairs kvs := by
  intro kvs
  induction kvs with
  | nil => rfl
  | cons p rest ih => obtain ⟨k, v⟩ := p; simp [valEnts, entsSize, Obj.size, Val.sizePairs, ih]

theorem entsNodup_valEnts : ∀ kvs : List (Val × Val), entsNodup (valEnts kvs) = true := by
  intro kvs
  induction kvs with
  | nil => rfl
  | cons p rest ih => obtain ⟨k, v⟩ := p; simp [valEnts, entsNodup, Obj.nodup, ih]

/-! ### what a sequence view says about content, size and sharing -/

theorem seqView_content {a : Obj} {k : SeqKind} {s : List Slot} (h : a.seqView = some (k, s)) :
    a.content = .seq k (contents s) := by
  cases a with
  | tuple ss => simp [Obj.seqView] at h; obtain ⟨rfl, rfl⟩ := h; simp [Obj.content]
  | cont k' ss => simp [Obj.seqView] at h; obtain ⟨rfl, rfl⟩ := h; simp [Obj.content]
  | tree es => simp [Obj.seqView] at h
  | val v =>
    cases v with
    | seq k' xs => simp [Obj.seqView] at h; obtain ⟨rfl, rfl⟩ := h; simp [Obj.content, contents_enumSlots]
    | _ => simp [Obj.seqView] at h

theorem seqView_size {a : Obj} {k : SeqKind} {s : List Slot} (h : a.seqView = some (k, s)) :
    a.size = 2 + slotsSize s := by
  cases a with
  | tuple ss => simp [Obj.seqView] at h; obtain ⟨rfl, rfl⟩ := h; simp [Obj.size]
  | cont k' ss => simp [Obj.seqView] at h; obtain ⟨rfl, rfl⟩ := h; simp [Obj.size]
  | tree es => simp [Obj.seqView] at h
  | val v =>
    cases v with
    | seq k' xs => simp [Obj.seqView] at h; obtain ⟨rfl, rfl⟩ := h; simp [Obj.size, Val.size, slotsSize_enumSlots]
    | _ => simp [Obj.seqView] at h

theorem seqView_nodup {b : Obj} {k : SeqKind} {s : List Slot} (h : b.seqView = some (k, s)) (hb : b.nodup = true) :
    idsNodup s = true ∧ slotsNodup s = true := by
  cases b with
  | tuple ss =>
    simp [Obj.seqView] at h; obtain ⟨rfl, rfl⟩ := h
    simpa [Obj.nodup] using hb
  | cont k' ss =>
    simp [Obj.seqView] at h; obtain ⟨rfl, rfl⟩ := h
    simpa [Obj.nodup] using hb
  | tree es => simp [Obj.seqView] at h
  | val v =>
    cases v with
    | seq k' xs =>
      simp [Obj.seqView] at h; obtain ⟨rfl, rfl⟩ := h
      exact ⟨idsNodup_enumSlots xs 0, slotsNodup_enumSlots xs 0⟩
    | _ => simp [Obj.seqView] at h

theorem treeView_content {a : Obj} {e : List (Val × Obj)} (h : a.treeView = some e) : a.content = .tree (entContents e) := by
  cases a with
  | tree es => simp [Obj.treeView] at h; subst h; simp [Obj.content]
  | val v =>
    cases v with
    | tree kvs => simp [Obj.treeView] at h; subst h; simp [Obj.content, entContents_valEnts]
    | _ => simp [Obj.treeView] at h
  | _ => simp [Obj.treeView] at h

theorem treeView_size {a : Obj} {e : List (Val × Obj)} (h : a.treeView = some e) : a.size = 2 + entsSize e := by
  cases a with
  | tree es => simp [Obj.treeView] at h; subst h; simp [Obj.size]
  | val v =>
    cases v with
    | tree kvs => simp [Obj.treeView] at h; subst h; simp [Obj.size, Val.size, entsSize_valEnts]
    | _ => simp [Obj.treeView] at h
  | _ => simp [Obj.treeView] at h

theorem treeView_nodup {b : Obj} {e : List (Val × Obj)} (h : b.treeView = some e) (hb : b.nodup = true) : entsNodup e = true := by
  cases b with
  | tree es => simp [Obj.treeView] at h; subst h; simpa [Obj.nodup] using hb
  | val v =>
    cases v with
    | tree kvs => simp [Obj.treeView] at h; subst h; exact entsNodup_valEnts kvs
    | _ => simp [Obj.treeView] at h
  | _ => simp [Obj.treeView] at h

theorem Val.size_pos (v : Val) : 1 ≤ v.size := by
  cases v <;> simp [Val.size] <;> omega

theorem Obj.size_pos (a : Obj) : 1 ≤ a.size := by
  cases a with
  | val v => simpa [Obj.size] using Val.size_pos v
  | tuple ss => simp [Obj.size]; omega
  | cont k ss => simp [Obj.size]; omega
  | tree es => simp [Obj.size]; omega

/-! ### an identity walk over pairwise distinct objects is the walk by position -/

theorem hasId_append_self (pre : List Slot) (s : Slot) (rest : List Slot) : hasId s.1 (pre ++ s :: rest) = true := by
  induction pre with
  | nil => simp [hasId]
  | cons p pre ih => simp [hasId, ih]

theorem afterFirst_suffix : ∀ (pre : List Slot) (s : Slot) (rest : List Slot),
    idsNodup (pre ++ s :: rest) = true → afterFirst s.1 (pre ++ s :: rest) = rest := by
  intro pre
  induction pre with
  | nil => intro s rest _; simp [afterFirst]
  | cons p pre ih =>
    intro s rest h
    simp only [List.cons_append, idsNodup, Bool.and_eq_true, Bool.not_eq_true'] at h
    have hne : ¬ p.1 = s.1 := by
      intro e
      have := hasId_append_self pre s rest
      rw [← e] at this
      rw [this] at h
      exact absurd h.1 (by simp)
    simp only [List.cons_append, afterFirst, if_neg hne]
    exact ih s rest h.2

theorem idsNodup_suffix : ∀ (pre rest : List Slot), idsNodup (pre ++ rest) = true → idsNodup rest = true := by
  intro pre
  induction pre with
  | nil => intro rest h; exact h
  | cons p pre ih =>
    intro rest h
    simp only [List.cons_append, idsNodup, Bool.and_eq_true] at h
    exact ih rest h.2

/-- the step along `obj`: by position for Array / List, and for a Tuple too when no object is in two slots -/
theorem advance_obj (k1 : SeqKind) (pre : List Slot) (s1 : Slot) (r1 : List Slot)
    (h : idsNodup (pre ++ s1 :: r1) = true) : advance .byIterator k1 (pre ++ s1 :: r1) s1 r1 = r1 := by
  cases k1 with
  | array => rfl
  | list => rfl
  | tuple => simp only [advance, iterNext]; exact afterFirst_suffix pre s1 r1 h

/-- `self` is walked by position: by slot index, or through an iterator that is positional (Array, List) -/
def PositionalSelf (D : Discipline) (k0 : SeqKind) : Prop := selfWalk D k0 = .byIndex ∨ k0 ≠ .tuple

theorem advance_self {D : Discipline} {k0 : SeqKind} (h : PositionalSelf D k0) (all0 : List Slot) (s0 : Slot) (r0 : List Slot) :
    advance (selfWalk D k0) k0 all0 s0 r0 = r0 := by
  rcases h with h | h
  · rw [h]; rfl
  · cases k0 with
    | array => cases selfWalk D .array <;> rfl
    | list => cases selfWalk D .list <;> rfl
    | tuple => exact absurd rfl h

theorem positionalSelf_of_index {D : Discipline} (h : D.tupleSelf = .byIndex) (k0 : SeqKind) : PositionalSelf D k0 := by
  cases k0 with
  | array => exact Or.inr (by simp)
  | list => exact Or.inr (by simp)
  | tuple => exact Or.inl (by simpa [selfWalk] using h)

/-! ### the exact territory: `walkClean` -/

theorem hasId_append (i : Nat) (pre rest : List Slot) : hasId i (pre ++ rest) = (hasId i pre || hasId i rest) := by
  induction pre with
  | nil => simp [hasId]
  | cons p pre ih => simp [hasId, ih, Bool.or_assoc]

/-- Tuple_Iter_Next from a slot whose object sits in no EARLIER slot returns the next slot (later occurrences do not matter) -/
theorem afterFirst_fresh : ∀ (pre : List Slot) (s : Slot) (rest : List Slot),
    hasId s.1 pre = false → afterFirst s.1 (pre ++ s :: rest) = rest := by
  intro pre
  induction pre with
  | nil => intro s rest _; simp [afterFirst]
  | cons p pre ih =>
    intro s rest h
    simp only [hasId, Bool.or_eq_false_iff, beq_eq_false_iff_ne, ne_eq] at h
    simp only [List.cons_append, afterFirst, if_neg h.1]
    exact ih s rest h.2

/-- … and from a slot whose object DOES sit in an earlier slot it returns a cursor that still has the current slot ahead -/
theorem afterFirst_of_hasId (i : Nat) : ∀ (pre l : List Slot), hasId i pre = true → ∃ t, afterFirst i (pre ++ l) = t ++ l := by
  intro pre
  induction pre with
  | nil => intro l h; simp [hasId] at h
  | cons p pre ih =>
    intro l h
    by_cases e : p.1 = i
    · exact ⟨pre, by simp [afterFirst, e]⟩
    · simp only [hasId, Bool.or_eq_true, beq_iff_eq] at h
      rcases h with h | h
      · exact absurd h e
      · obtain ⟨t, ht⟩ := ih l h
        exact ⟨t, by simp [afterFirst, e, ht]⟩

/-- the step along `obj` from a slot that is clean -/
theorem advance_obj_clean (k1 : SeqKind) (pre : List Slot) (s1 : Slot) (r1 : List Slot)
    (h : k1 = .tuple → hasId s1.1 pre = false) : advance .byIterator k1 (pre ++ s1 :: r1) s1 r1 = r1 := by
  cases k1 with
  | array => rfl
  | list => rfl
  | tuple => simp only [advance, iterNext]; exact afterFirst_fresh pre s1 r1 (h rfl)

theorem hasId_false_of_nodup (pre : List Slot) (s : Slot) (rest : List Slot) (h : idsNodup (pre ++ s :: rest) = true) :
    hasId s.1 pre = false := by
  induction pre with
  | nil => rfl
  | cons p pre ih =>
    simp only [List.cons_append, idsNodup, Bool.and_eq_true, Bool.not_eq_true'] at h
    have hne : ¬ p.1 = s.1 := by
      intro e
      have := hasId_append_self pre s rest
      rw [← e] at this
      rw [this] at h
      exact absurd h.1 (by simp)
    simp only [hasId, Bool.or_eq_false_iff, beq_eq_false_iff_ne, ne_eq]
    exact ⟨hne, ih h.2⟩

theorem slotsClean_tup_irrelevant (ops : FloatOps UInt64) : ∀ (cur1 : List Slot) (pre cur0 : List Slot),
    slotsClean ops true pre cur1 cur0 = true → slotsClean ops false pre cur1 cur0 = true := by
  intro cur1
  induction cur1 with
  | nil => intro pre cur0 _; simp [slotsClean]
  | cons s1 r1 ih =>
    obtain ⟨i1, o1⟩ := s1
    intro pre cur0 h
    cases cur0 with
    | nil => simp [slotsClean]
    | cons s0 r0 =>
      simp only [slotsClean, Bool.and_eq_true, Bool.or_eq_true, bne_iff_ne, ne_eq, Bool.not_eq_true'] at h ⊢
      refine ⟨h.1, ?_⟩
      rcases h.2 with h2 | h2
      · exact Or.inl h2
      · exact Or.inr ⟨Or.inl (Or.inl trivial), ih _ _ h2.2⟩

/-- objects none of whose Tuples holds an object twice are clean against every `self`: `nodup` is the coarser hypothesis -/
theorem walkClean_of_nodup_aux (ops : FloatOps UInt64) : ∀ n : Nat,
    (∀ b : Obj, b.size ≤ n → b.nodup = true → ∀ a, b.walkClean ops a = true) := by
  intro n
  induction n with
  | zero => intro b hb; have := Obj.size_pos b; omega
  | succ n ih =>
    have slots : ∀ (tup : Bool) (cur1 : List Slot) (pre cur0 : List Slot), slotsSize cur1 ≤ n →
        idsNodup (pre ++ cur1) = true → slotsNodup cur1 = true → slotsClean ops tup pre cur1 cur0 = true := by
      intro tup cur1
      induction cur1 with
      | nil => intro pre cur0 _ _ _; simp [slotsClean]
      | cons s1 r1 ihl =>
        obtain ⟨i1, o1⟩ := s1
        intro pre cur0 hsz hn hs
        cases cur0 with
        | nil => simp [slotsClean]
        | cons s0 r0 =>
          simp only [slotsSize] at hsz
          simp only [slotsNodup, Bool.and_eq_true] at hs
          have hid := hasId_false_of_nodup pre (i1, o1) r1 hn
          have hn' : idsNodup ((pre ++ [(i1, o1)]) ++ r1) = true := by simpa using hn
          have e1 := ih o1 (by omega) hs.1 s0.2
          have e2 := ihl (pre ++ [(i1, o1)]) r0 (by omega) hn' hs.2
          simp only at hid
          simp [slotsClean, e1, e2, hid]
    have ents : ∀ (e1 e0 : List (Val × Obj)), entsSize e1 ≤ n → entsNodup e1 = true → entsClean ops e1 e0 = true := by
      intro e1
      induction e1 with
      | nil => intro e0 _ _; simp [entsClean]
      | cons q1 r1 ihl =>
        obtain ⟨k1, o1⟩ := q1
        intro e0 hsz hn
        cases e0 with
        | nil => simp [entsClean]
        | cons q0 r0 =>
          simp only [entsSize] at hsz
          simp only [entsNodup, Bool.and_eq_true] at hn
          have c1 := ih o1 (by omega) hn.1 q0.2
          have c2 := ihl r0 (by omega) hn.2
          simp [entsClean, c1, c2]
    intro b hb hnd a
    cases b with
    | val v => simp [Obj.walkClean]
    | tuple ss =>
      simp only [Obj.size] at hb
      simp only [Obj.nodup, Bool.and_eq_true] at hnd
      cases h : a.seqView with
      | none => simp [Obj.walkClean, h]
      | some p => obtain ⟨k0, s0⟩ := p; simp only [Obj.walkClean, h]; exact slots true ss [] s0 (by omega) (by simpa using hnd.1) hnd.2
    | cont k ss =>
      simp only [Obj.size] at hb
      simp only [Obj.nodup, Bool.and_eq_true] at hnd
      cases h : a.seqView with
      | none => simp [Obj.walkClean, h]
      | some p => obtain ⟨k0, s0⟩ := p; simp only [Obj.walkClean, h]; exact slots k.byIdentity ss [] s0 (by omega) (by simpa using hnd.1) hnd.2
    | tree es =>
      simp only [Obj.size] at hb
      simp only [Obj.nodup] at hnd
      cases h : a.treeView with
      | none => simp [Obj.walkClean, h]
      | some e0 => simp only [Obj.walkClean, h]; exact ents es e0 (by omega) hnd

theorem walkClean_of_nodup (ops : FloatOps UInt64) (a b : Obj) (hb : b.nodup = true) : b.walkClean ops a = true :=
  walkClean_of_nodup_aux ops b.size b (Nat.le_refl _) hb a

/-- a clean walk, as the loop sees it: the slots of `obj` from its sequence view -/
theorem seqView_clean (ops : FloatOps UInt64) {a b : Obj} {k0 k1 : SeqKind} {s0 s1 : List Slot}
    (ha : a.seqView = some (k0, s0)) (hb : b.seqView = some (k1, s1)) (hc : b.walkClean ops a = true) :
    slotsClean ops (k1.byIdentity) [] s1 s0 = true := by
  cases b with
  | tuple ss =>
    simp [Obj.seqView] at hb; obtain ⟨rfl, rfl⟩ := hb
    simpa [Obj.walkClean, ha, SeqKind.byIdentity] using hc
  | cont k' ss =>
    simp [Obj.seqView] at hb; obtain ⟨rfl, rfl⟩ := hb
    simpa [Obj.walkClean, ha] using hc
  | tree es => simp [Obj.seqView] at hb
  | val v =>
    cases v with
    | seq k' xs =>
      simp [Obj.seqView] at hb; obtain ⟨rfl, rfl⟩ := hb
      have h := walkClean_of_nodup_aux ops (2 + slotsSize (enumSlots 0 xs)) (.tuple (enumSlots 0 xs))
        (by simp [Obj.size]) (by simp [Obj.nodup, idsNodup_enumSlots, slotsNodup_enumSlots]) a
      have ht : slotsClean ops true [] (enumSlots 0 xs) s0 = true := by simpa [Obj.walkClean, ha] using h
      cases k' with
      | tuple => simpa [SeqKind.byIdentity] using ht
      | array => simpa [SeqKind.byIdentity] using slotsClean_tup_irrelevant ops _ _ _ ht
      | list => simpa [SeqKind.byIdentity] using slotsClean_tup_irrelevant ops _ _ _ ht
    | _ => simp [Obj.seqView] at hb

theorem treeView_clean (ops : FloatOps UInt64) {a b : Obj} {e0 e1 : List (Val × Obj)}
    (ha : a.treeView = some e0) (hb : b.treeView = some e1) (hc : b.walkClean ops a = true) : entsClean ops e1 e0 = true := by
  cases b with
  | tree es => simp [Obj.treeView] at hb; subst hb; simpa [Obj.walkClean, ha] using hc
  | val v =>
    cases v with
    | tree kvs =>
      simp [Obj.treeView] at hb; subst hb
      have h := walkClean_of_nodup_aux ops (2 + entsSize (valEnts kvs)) (.tree (valEnts kvs))
        (by simp [Obj.size]) (by simp [Obj.nodup, entsNodup_valEnts]) a
      simpa [Obj.walkClean, ha] using h
    | _ => simp [Obj.treeView] at hb
  | _ => simp [Obj.treeView] at hb

/-! ### soundness: the result is the comparison of the contents -/

theorem seqCmp_cons_cons (ops : FloatOps UInt64) (x y : Val) (xs ys : List Val) :
    seqCmp ops (x :: xs) (y :: ys) =
      (if valCmp ops x y < 0 then -1 else if valCmp ops x y > 0 then 1 else seqCmp ops xs ys) := by
  simp [seqCmp]

theorem entriesCmp_cons_cons (ops : FloatOps UInt64) (p q : Val × Val) (xs ys : List (Val × Val)) :
    entriesCmp ops (p :: xs) (q :: ys) =
      (if valCmp ops p.1 q.1 < 0 then -1 else if valCmp ops p.1 q.1 > 0 then 1 else
       if valCmp ops p.2 q.2 < 0 then -1 else if valCmp ops p.2 q.2 > 0 then 1 else entriesCmp ops xs ys) := by
  obtain ⟨k, v⟩ := p; obtain ⟨k', v'⟩ := q
  simp [entriesCmp]

/-- the three branches of `objCmpF` -/
theorem objCmpF_seq (D : Discipline) (ops : FloatOps UInt64) (f : Nat) {a b : Obj} {k0 k1 : SeqKind} {s0 s1 : List Slot}
    (ha : a.seqView = some (k0, s0)) (hb : b.seqView = some (k1, s1)) :
    objCmpF D ops (f + 1) a b = loopF D ops k0 k1 s0 s1 f s0 s1 := by
  rw [objCmpF, ha, hb]

theorem objCmpF_tree (D : Discipline) (ops : FloatOps UInt64) (f : Nat) {a b : Obj} {e0 e1 : List (Val × Obj)}
    (hs : a.seqView = none ∨ b.seqView = none) (ha : a.treeView = some e0) (hb : b.treeView = some e1) :
    objCmpF D ops (f + 1) a b = treeLoopF D ops f e0 e1 := by
  rw [objCmpF]
  rcases hs with hs | hs
  · rw [hs, ha, hb]
  · cases h : a.seqView <;> rw [hs, ha, hb]

theorem objCmpF_other (D : Discipline) (ops : FloatOps UInt64) (f : Nat) {a b : Obj}
    (hs : a.seqView = none ∨ b.seqView = none) (ht : a.treeView = none ∨ b.treeView = none) :
    objCmpF D ops (f + 1) a b = some (valCmp ops a.content b.content) := by
  rw [objCmpF]
  have inner : (match a.treeView, b.treeView with
      | some e0, some e1 => treeLoopF D ops f e0 e1
      | _, _ => some (valCmp ops a.content b.content)) = some (valCmp ops a.content b.content) := by
    rcases ht with ht | ht
    · rw [ht]
    · cases h : a.treeView <;> rw [ht]
  rcases hs with hs | hs
  · rw [hs]; exact inner
  · cases h : a.seqView
    · exact inner
    · rw [hs]; exact inner

theorem objCmpF_sound_aux (D : Discipline) (ops : FloatOps UInt64) (hD : D.tupleSelf = .byIndex) : ∀ f : Nat,
    (∀ a b r, b.walkClean ops a = true → objCmpF D ops f a b = some r → r = valCmp ops a.content b.content) ∧
    (∀ k0 k1 all0 pre cur0 cur1 r, slotsClean ops k1.byIdentity pre cur1 cur0 = true →
      loopF D ops k0 k1 all0 (pre ++ cur1) f cur0 cur1 = some r → r = seqCmp ops (contents cur0) (contents cur1)) ∧
    (∀ e0 e1 r, entsClean ops e1 e0 = true → treeLoopF D ops f e0 e1 = some r →
      r = entriesCmp ops (entContents e0) (entContents e1)) := by
  intro f
  induction f with
  | zero =>
    refine ⟨fun a b r _ h => ?_, fun k0 k1 all0 pre cur0 cur1 r _ h => ?_, fun e0 e1 r _ h => ?_⟩
    · simp [objCmpF] at h
    · simp [loopF] at h
    · simp [treeLoopF] at h
  | succ f ih =>
    obtain ⟨ihP, ihQ, ihT⟩ := ih
    refine ⟨fun a b r hb h => ?_, fun k0 k1 all0 pre cur0 cur1 r hs h => ?_, fun e0 e1 r hn h => ?_⟩
    · -- pairs that are not two sequences: two Trees, or anything else
      have tail : (a.seqView = none ∨ b.seqView = none) → r = valCmp ops a.content b.content := by
        intro hs
        cases hta : a.treeView with
        | none => rw [objCmpF_other D ops f hs (Or.inl hta)] at h; simp at h; exact h.symm
        | some e0 =>
          cases htb : b.treeView with
          | none => rw [objCmpF_other D ops f hs (Or.inr htb)] at h; simp at h; exact h.symm
          | some e1 =>
            rw [objCmpF_tree D ops f hs hta htb] at h
            have := ihT e0 e1 r (treeView_clean ops hta htb hb) h
            rw [treeView_content hta, treeView_content htb, valCmp]
            exact this
      cases ha' : a.seqView with
      | none => exact tail (Or.inl ha')
      | some p0 =>
        obtain ⟨k0, s0⟩ := p0
        cases hb' : b.seqView with
        | none => exact tail (Or.inr hb')
        | some p1 =>
          obtain ⟨k1, s1⟩ := p1
          rw [objCmpF_seq D ops f ha' hb'] at h
          have := ihQ k0 k1 s0 [] s0 s1 r (seqView_clean ops ha' hb' hb) (by simpa using h)
          rw [seqView_content ha', seqView_content hb', valCmp]
          exact this
    · cases cur0 with
      | nil =>
        cases cur1 with
        | nil => simp [loopF] at h; simp [contents, seqCmp, h]
        | cons s1 r1 =>
          obtain ⟨i1, o1⟩ := s1
          simp [loopF] at h; simp [contents, seqCmp, h]
      | cons s0 r0 =>
        obtain ⟨i0, o0⟩ := s0
        cases cur1 with
        | nil => simp [loopF] at h; simp [contents, seqCmp, h]
        | cons s1 r1 =>
          obtain ⟨i1, o1⟩ := s1
          simp only [slotsClean, Bool.and_eq_true, Bool.or_eq_true, bne_iff_ne, ne_eq, Bool.not_eq_true'] at hs
          rw [loopF] at h
          simp only at h
          cases hc : objCmpF D ops f o0 o1 with
          | none => rw [hc] at h; simp at h
          | some c =>
            rw [hc] at h
            simp only at h
            have hcv := ihP o0 o1 c hs.1 hc
            rw [advance_self (positionalSelf_of_index hD k0)] at h
            simp only [contents, seqCmp_cons_cons]
            rw [← hcv]
            by_cases h1 : c < 0
            · simp [h1] at h ⊢; exact h.symm
            · by_cases h2 : c > 0
              · simp [h1, h2] at h ⊢; exact h.symm
              · simp only [h1, h2, if_false] at h ⊢
                have hz : c = 0 := by omega
                rcases hs.2 with hne | hstep
                · exact absurd (hcv ▸ hz) hne
                · by_cases hmis : k1 = .tuple ∧ hasId i1 pre = true
                  · -- the harmless mis-step: `self` ends here, `obj` does not, and the misplaced cursor is not Terminal
                    obtain ⟨hk, hid⟩ := hmis
                    subst hk
                    have hend : r0.isEmpty = true ∧ r1.isEmpty = false := by
                      rcases hstep.1 with hh | hh
                      · rcases hh with hh | hh
                        · simp [SeqKind.byIdentity] at hh
                        · rw [hid] at hh; cases hh
                      · exact hh
                    obtain ⟨t, ht⟩ := afterFirst_of_hasId i1 pre ((i1, o1) :: r1) hid
                    simp only [advance, iterNext] at h
                    rw [ht] at h
                    cases r0 with
                    | cons _ _ => simp at hend
                    | nil =>
                      cases r1 with
                      | nil => simp at hend
                      | cons s2 r2 =>
                        obtain ⟨i2, o2⟩ := s2
                        cases f with
                        | zero => simp [loopF] at h
                        | succ f' =>
                          cases t with
                          | nil => simp [loopF] at h; simp [contents, seqCmp, h]
                          | cons t1 t2 => simp [loopF] at h; simp [contents, seqCmp, h]
                  · have hfresh : k1 = .tuple → hasId i1 pre = false := by
                      intro e
                      cases hh : hasId i1 pre with
                      | false => rfl
                      | true => exact absurd ⟨e, hh⟩ hmis
                    rw [advance_obj_clean k1 pre (i1, o1) r1 hfresh] at h
                    have h' : loopF D ops k0 k1 all0 ((pre ++ [(i1, o1)]) ++ r1) f r0 r1 = some r := by simpa using h
                    exact ihQ k0 k1 all0 (pre ++ [(i1, o1)]) r0 r1 r hstep.2 h'
    · cases e0 with
      | nil =>
        cases e1 with
        | nil => simp [treeLoopF] at h; simp [entContents, entriesCmp, h]
        | cons q1 r1 => obtain ⟨k1, o1⟩ := q1; simp [treeLoopF] at h; simp [entContents, entriesCmp, h]
      | cons q0 r0 =>
        obtain ⟨k0, o0⟩ := q0
        cases e1 with
        | nil => simp [treeLoopF] at h; simp [entContents, entriesCmp, h]
        | cons q1 r1 =>
          obtain ⟨k1, o1⟩ := q1
          simp only [entsClean, Bool.and_eq_true, Bool.or_eq_true, bne_iff_ne, ne_eq] at hn
          rw [treeLoopF] at h
          simp only at h
          simp only [entContents, entriesCmp_cons_cons]
          by_cases g1 : valCmp ops k0 k1 < 0
          · simp [g1] at h ⊢; exact h.symm
          · by_cases g2 : valCmp ops k0 k1 > 0
            · simp [g1, g2] at h ⊢; exact h.symm
            · simp only [g1, g2, if_false] at h ⊢
              have gz : valCmp ops k0 k1 = 0 := by omega
              rcases hn with hne | hn
              · exact absurd gz hne
              cases hc : objCmpF D ops f o0 o1 with
              | none => rw [hc] at h; simp at h
              | some c =>
                rw [hc] at h
                simp only at h
                have hcv := ihP o0 o1 c hn.1 hc
                rw [← hcv]
                by_cases h1 : c < 0
                · simp [h1] at h ⊢; exact h.symm
                · by_cases h2 : c > 0
                  · simp [h1, h2] at h ⊢; exact h.symm
                  · simp only [h1, h2, if_false] at h ⊢
                    have hz : c = 0 := by omega
                    rcases hn.2 with hne | hrest
                    · exact absurd (hcv ▸ hz) hne
                    · exact ihT r0 r1 r hrest h

/-- soundness on the exact territory: whatever the loops return on a clean walk is the comparison of the contents -/
theorem objCmpF_sound_clean (D : Discipline) (ops : FloatOps UInt64) (hD : D.tupleSelf = .byIndex) (f : Nat) (a b : Obj) (r : Int)
    (hb : b.walkClean ops a = true) (h : objCmpF D ops f a b = some r) : r = valCmp ops a.content b.content :=
  (objCmpF_sound_aux D ops hD f).1 a b r hb h

theorem objCmpF_sound (D : Discipline) (ops : FloatOps UInt64) (hD : D.tupleSelf = .byIndex) (f : Nat) (a b : Obj) (r : Int)
    (hb : b.nodup = true) (h : objCmpF D ops f a b = some r) : r = valCmp ops a.content b.content :=
  objCmpF_sound_clean D ops hD f a b r (walkClean_of_nodup ops a b hb) h

/-! ### termination: fuel `size self` suffices when `self` is walked by position -/

theorem objCmpF_terminates_aux (D : Discipline) (ops : FloatOps UInt64) (hD : D.tupleSelf = .byIndex) : ∀ f : Nat,
    (∀ a b, a.size ≤ f → (objCmpF D ops f a b).isSome = true) ∧
    (∀ k0 k1 all0 all1 cur0 cur1, 1 + slotsSize cur0 ≤ f → (loopF D ops k0 k1 all0 all1 f cur0 cur1).isSome = true) ∧
    (∀ e0 e1, 1 + entsSize e0 ≤ f → (treeLoopF D ops f e0 e1).isSome = true) := by
  intro f
  induction f with
  | zero =>
    refine ⟨fun a b h => ?_, fun k0 k1 all0 all1 cur0 cur1 h => ?_, fun e0 e1 h => ?_⟩
    · have := Obj.size_pos a; omega
    · omega
    · omega
  | succ f ih =>
    obtain ⟨ihP, ihQ, ihT⟩ := ih
    refine ⟨fun a b h => ?_, fun k0 k1 all0 all1 cur0 cur1 h => ?_, fun e0 e1 h => ?_⟩
    · have tail : (a.seqView = none ∨ b.seqView = none) → (objCmpF D ops (f + 1) a b).isSome = true := by
        intro hs
        cases hta : a.treeView with
        | none => rw [objCmpF_other D ops f hs (Or.inl hta)]; rfl
        | some e0 =>
          cases htb : b.treeView with
          | none => rw [objCmpF_other D ops f hs (Or.inr htb)]; rfl
          | some e1 =>
            rw [objCmpF_tree D ops f hs hta htb]
            have := treeView_size hta
            exact ihT e0 e1 (by omega)
      cases ha' : a.seqView with
      | none => exact tail (Or.inl ha')
      | some p0 =>
        obtain ⟨k0, s0⟩ := p0
        cases hb' : b.seqView with
        | none => exact tail (Or.inr hb')
        | some p1 =>
          obtain ⟨k1, s1⟩ := p1
          rw [objCmpF_seq D ops f ha' hb']
          have := seqView_size ha'
          exact ihQ k0 k1 s0 s1 s0 s1 (by omega)
    · cases cur0 with
      | nil => cases cur1 <;> simp [loopF]
      | cons s0 r0 =>
        obtain ⟨i0, o0⟩ := s0
        cases cur1 with
        | nil => simp [loopF]
        | cons s1 r1 =>
          obtain ⟨i1, o1⟩ := s1
          simp only [slotsSize] at h
          rw [loopF]
          simp only
          have he := ihP o0 o1 (by omega)
          cases hc : objCmpF D ops f o0 o1 with
          | none => rw [hc] at he; simp at he
          | some c =>
            simp only
            rw [advance_self (positionalSelf_of_index hD k0)]
            by_cases h1 : c < 0
            · simp [h1]
            · by_cases h2 : c > 0
              · simp [h1, h2]
              · simp only [h1, h2, if_false]
                exact ihQ k0 k1 all0 all1 r0 _ (by omega)
    · cases e0 with
      | nil => cases e1 <;> simp [treeLoopF]
      | cons q0 r0 =>
        obtain ⟨k0, o0⟩ := q0
        cases e1 with
        | nil => simp [treeLoopF]
        | cons q1 r1 =>
          obtain ⟨k1, o1⟩ := q1
          simp only [entsSize] at h
          rw [treeLoopF]
          simp only
          by_cases g1 : valCmp ops k0 k1 < 0
          · simp [g1]
          · by_cases g2 : valCmp ops k0 k1 > 0
            · simp [g1, g2]
            · simp only [g1, g2, if_false]
              have he := ihP o0 o1 (by omega)
              have hpos := Obj.size_pos o0
              cases hc : objCmpF D ops f o0 o1 with
              | none => rw [hc] at he; simp at he
              | some c =>
                simp only
                by_cases h1 : c < 0
                · simp [h1]
                · by_cases h2 : c > 0
                  · simp [h1, h2]
                  · simp only [h1, h2, if_false]
                    exact ihT r0 r1 (by omega)

theorem objCmpF_terminates (D : Discipline) (ops : FloatOps UInt64) (hD : D.tupleSelf = .byIndex) (f : Nat) (a b : Obj)
    (h : a.size ≤ f) : (objCmpF D ops f a b).isSome = true :=
  (objCmpF_terminates_aux D ops hD f).1 a b h

/-- both together -/
theorem objCmpF_eq_content (D : Discipline) (ops : FloatOps UInt64) (hD : D.tupleSelf = .byIndex) (f : Nat) (a b : Obj)
    (hf : a.size ≤ f) (hb : b.nodup = true) : objCmpF D ops f a b = some (valCmp ops a.content b.content) := by
  have ht := objCmpF_terminates D ops hD f a b hf
  cases h : objCmpF D ops f a b with
  | none => rw [h] at ht; simp at ht
  | some r => rw [objCmpF_sound D ops hD f a b r hb h]

/-- both together, on the exact territory -/
theorem objCmpF_eq_content_clean (D : Discipline) (ops : FloatOps UInt64) (hD : D.tupleSelf = .byIndex) (f : Nat) (a b : Obj)
    (hf : a.size ≤ f) (hb : b.walkClean ops a = true) : objCmpF D ops f a b = some (valCmp ops a.content b.content) := by
  have ht := objCmpF_terminates D ops hD f a b hf
  cases h : objCmpF D ops f a b with
  | none => rw [h] at ht; simp at ht
  | some r => rw [objCmpF_sound_clean D ops hD f a b r hb h]

/-! ### an identity walk over one object in two slots never leaves it -/

/-- comparing the slot `s` (an Int object) with itself, again and again -/
theorem loopF_stuck (D : Discipline) (ops : FloatOps UInt64) (k0 k1 : SeqKind) (all0 all1 : List Slot) (i : Nat) (v : BitVec 64)
    (hz : intCmp v v = 0)
    (h0 : ∀ rest, advance (selfWalk D k0) k0 all0 (i, .val (.int v)) rest = [(i, .val (.int v))])
    (h1 : ∀ rest, advance .byIterator k1 all1 (i, .val (.int v)) rest = [(i, .val (.int v))]) :
    ∀ f rest0 rest1, loopF D ops k0 k1 all0 all1 f ((i, .val (.int v)) :: rest0) ((i, .val (.int v)) :: rest1) = none := by
  intro f
  induction f with
  | zero => intro rest0 rest1; simp [loopF]
  | succ f ih =>
    intro rest0 rest1
    rw [loopF]
    simp only
    cases f with
    | zero => simp [objCmpF]
    | succ f' =>
      have e : objCmpF D ops (f' + 1) (.val (.int v)) (.val (.int v)) = some 0 := by
        simp [objCmpF, Obj.seqView, Obj.treeView, Obj.content, valCmp, hz]
      rw [e]
      simp only [Int.lt_irrefl, if_false, gt_iff_lt]
      rw [h0, h1]
      exact ih [] []

end Cello.Cmp
