/-
  Helper lemmas for C09 (engine `cmp`): consequences of `LawfulCmpOn`, the lexicographic lifting, bytes, Tree entries,
  Float under `SubSign`.  Core Lean only.
-/
import Cello.Cmp
import CelloGen.Cmp

set_option linter.unusedSimpArgs false
set_option linter.unusedVariables false

namespace Cello.Cmp
open CelloGen.Cmp (FloatOps)

/-! ### sgn -/

theorem sgn_cases (x : Int) : (x < 0 ∧ sgn x = -1) ∨ (x = 0 ∧ sgn x = 0) ∨ (0 < x ∧ sgn x = 1) := by
  unfold sgn; split
  · left; omega
  · split
    · right; right; omega
    · right; left; omega

theorem sgn_neg_iff (x : Int) : sgn x = -1 ↔ x < 0 := by rcases sgn_cases x with h | h | h <;> omega
theorem sgn_zero_iff (x : Int) : sgn x = 0 ↔ x = 0 := by rcases sgn_cases x with h | h | h <;> omega
theorem sgn_pos_iff (x : Int) : sgn x = 1 ↔ 0 < x := by rcases sgn_cases x with h | h | h <;> omega

/-- antisymmetry in sign, unfolded into the three facts `omega` can use -/
theorem antisymm_facts {x y : Int} (h : sgn x = - sgn y) : (x < 0 ↔ 0 < y) ∧ (x = 0 ↔ y = 0) ∧ (0 < x ↔ y < 0) := by
  rcases sgn_cases x with hx | hx | hx <;> rcases sgn_cases y with hy | hy | hy <;> omega

theorem antisymm_of_facts {x y : Int} (h1 : x < 0 ↔ 0 < y) (h2 : 0 < x ↔ y < 0) : sgn x = - sgn y := by
  rcases sgn_cases x with hx | hx | hx <;> rcases sgn_cases y with hy | hy | hy <;> omega

/-! ### consequences of LawfulCmpOn -/

section lawful
variable {α : Type} {P : α → Prop} {c : α → α → Int}

theorem LawfulCmpOn.refl (h : LawfulCmpOn P c) {a : α} (pa : P a) : c a a = 0 := by
  have := antisymm_facts (h.antisymm a a pa pa); omega

theorem LawfulCmpOn.flip (h : LawfulCmpOn P c) {a b : α} (pa : P a) (pb : P b) :
    (c a b < 0 ↔ 0 < c b a) ∧ (c a b = 0 ↔ c b a = 0) ∧ (0 < c a b ↔ c b a < 0) :=
  antisymm_facts (h.antisymm a b pa pb)

theorem LawfulCmpOn.lt_of_lt_of_le (h : LawfulCmpOn P c) {a b d : α} (pa : P a) (pb : P b) (pd : P d)
    (h1 : c a b < 0) (h2 : c b d ≤ 0) : c a d < 0 := by
  have hle := h.le_trans a b d pa pb pd (by omega) h2
  rcases Int.lt_or_eq_of_le hle with hlt | heq
  · exact hlt
  · -- c a d = 0, so d ≤ a; with b ≤ d: b ≤ a, contradicting a < b
    have f1 := h.flip pa pd
    have h3 := h.le_trans b d a pb pd pa h2 (by omega)
    have f2 := h.flip pa pb
    omega

theorem LawfulCmpOn.lt_of_le_of_lt (h : LawfulCmpOn P c) {a b d : α} (pa : P a) (pb : P b) (pd : P d)
    (h1 : c a b ≤ 0) (h2 : c b d < 0) : c a d < 0 := by
  have hle := h.le_trans a b d pa pb pd h1 (by omega)
  rcases Int.lt_or_eq_of_le hle with hlt | heq
  · exact hlt
  · have f1 := h.flip pa pd
    have h3 := h.le_trans d a b pd pa pb (by omega) h1
    have f2 := h.flip pb pd
    omega

theorem LawfulCmpOn.lt_trans (h : LawfulCmpOn P c) {a b d : α} (pa : P a) (pb : P b) (pd : P d)
    (h1 : c a b < 0) (h2 : c b d < 0) : c a d < 0 :=
  h.lt_of_lt_of_le pa pb pd h1 (by omega)

theorem LawfulCmpOn.zero_trans (h : LawfulCmpOn P c) {a b d : α} (pa : P a) (pb : P b) (pd : P d)
    (h1 : c a b = 0) (h2 : c b d = 0) : c a d = 0 := by
  have hle := h.le_trans a b d pa pb pd (by omega) (by omega)
  have f1 := h.flip pa pb
  have f2 := h.flip pb pd
  have hge := h.le_trans d b a pd pb pa (by omega) (by omega)
  have f3 := h.flip pa pd
  omega

/-- values that compare equal are interchangeable: `cmp` is a congruence for `= 0` -/
theorem LawfulCmpOn.congr_left (h : LawfulCmpOn P c) {a b d : α} (pa : P a) (pb : P b) (pd : P d)
    (h1 : c a b = 0) : sgn (c a d) = sgn (c b d) := by
  have fab := h.flip pa pb
  rcases sgn_cases (c b d) with hb | hb | hb
  · have := h.lt_of_le_of_lt pa pb pd (by omega) hb.1
    rcases sgn_cases (c a d) with ha | ha | ha <;> omega
  · have := h.zero_trans pa pb pd h1 hb.1
    rcases sgn_cases (c a d) with ha | ha | ha <;> omega
  · have fbd := h.flip pb pd
    have := h.lt_of_lt_of_le pd pb pa (by omega) (by omega)
    have fad := h.flip pa pd
    rcases sgn_cases (c a d) with ha | ha | ha <;> omega

/-- weakening the domain -/
theorem LawfulCmpOn.mono {Q : α → Prop} (h : LawfulCmpOn P c) (hq : ∀ a, Q a → P a) : LawfulCmpOn Q c :=
  ⟨fun a b qa qb => h.antisymm a b (hq a qa) (hq b qb),
   fun a b d qa qb qd => h.le_trans a b d (hq a qa) (hq b qb) (hq d qd)⟩

end lawful

/-- a comparison that is the sign of an order-embedding into the integers is strict-lawful w.r.t. equality of keys -/
theorem strictCmpOn_of_key {α : Type} {P : α → Prop} {c : α → α → Int} (key : α → Int)
    (hlt : ∀ a b, P a → P b → (c a b < 0 ↔ key a < key b))
    (hgt : ∀ a b, P a → P b → (0 < c a b ↔ key b < key a)) :
    StrictCmpOn P (fun a b => key a = key b) c where
  antisymm a b pa pb := by
    have := hlt a b pa pb; have := hgt a b pa pb; have := hlt b a pb pa; have := hgt b a pb pa
    exact antisymm_of_facts (by omega) (by omega)
  le_trans a b d pa pb pd h1 h2 := by
    have := hgt a b pa pb; have := hgt b d pb pd; have := hgt a d pa pd
    omega
  zero_iff a b pa pb := by
    have := hlt a b pa pb; have := hgt a b pa pb
    omega

/-! ### lexicographic lifting (Array_Cmp / List_Cmp / Tuple_Cmp) -/

section lex
variable {α : Type} {P : α → Prop} {c : α → α → Int}

theorem lexCmp_nil_nil : lexCmp c ([] : List α) [] = 0 := rfl

theorem lexCmp_range (xs ys : List α) : lexCmp c xs ys = -1 ∨ lexCmp c xs ys = 0 ∨ lexCmp c xs ys = 1 := by
  induction xs generalizing ys with
  | nil => cases ys <;> simp [lexCmp]
  | cons x xs ih =>
    cases ys with
    | nil => simp [lexCmp]
    | cons y ys =>
      simp only [lexCmp]
      split
      · simp
      · split
        · simp
        · exact ih ys

/-- unfolding of one step in the form the proofs use -/
theorem lexCmp_cons_cons (x y : α) (xs ys : List α) :
    lexCmp c (x :: xs) (y :: ys) = if c x y < 0 then -1 else if c x y > 0 then 1 else lexCmp c xs ys := rfl

theorem lexCmp_antisymm (h : LawfulCmpOn P c) :
    ∀ xs ys : List α, (∀ x ∈ xs, P x) → (∀ y ∈ ys, P y) → sgn (lexCmp c xs ys) = - sgn (lexCmp c ys xs) := by
  intro xs
  induction xs with
  | nil => intro ys _ _; cases ys <;> simp [lexCmp, sgn]
  | cons x xs ih =>
    intro ys hx hy
    cases ys with
    | nil => simp [lexCmp, sgn]
    | cons y ys =>
      have px : P x := hx x (by simp)
      have py : P y := hy y (by simp)
      have f := h.flip px py
      have ih' := ih ys (fun a ha => hx a (by simp [ha])) (fun a ha => hy a (by simp [ha]))
      rw [lexCmp_cons_cons, lexCmp_cons_cons]
      by_cases h1 : c x y < 0
      · have h2 : ¬ c y x < 0 := by omega
        have h3 : c y x > 0 := by omega
        simp [h1, h2, h3, sgn]
      · by_cases h4 : c x y > 0
        · have h2 : c y x < 0 := by omega
          simp [h1, h4, h2, sgn]
        · have h2 : ¬ c y x < 0 := by omega
          have h3 : ¬ c y x > 0 := by omega
          simp [h1, h4, h2, h3, ih']

theorem lexCmp_le_trans (h : LawfulCmpOn P c) :
    ∀ xs ys zs : List α, (∀ x ∈ xs, P x) → (∀ y ∈ ys, P y) → (∀ z ∈ zs, P z) →
      lexCmp c xs ys ≤ 0 → lexCmp c ys zs ≤ 0 → lexCmp c xs zs ≤ 0 := by
  intro xs
  induction xs with
  | nil => intro ys zs _ _ _ _ _; cases zs <;> simp [lexCmp]
  | cons x xs ih =>
    intro ys zs hx hy hz h1 h2
    cases ys with
    | nil => simp [lexCmp] at h1
    | cons y ys =>
      cases zs with
      | nil => simp [lexCmp] at h2
      | cons z zs =>
        have px : P x := hx x (by simp)
        have py : P y := hy y (by simp)
        have pz : P z := hz z (by simp)
        have ih' := ih ys zs (fun a ha => hx a (by simp [ha])) (fun a ha => hy a (by simp [ha]))
          (fun a ha => hz a (by simp [ha]))
        rw [lexCmp_cons_cons] at h1 h2 ⊢
        by_cases a1 : c x y < 0
        · -- x < y and y ≤ z
          have a2 : c y z ≤ 0 := by
            by_cases q : c y z < 0
            · omega
            · by_cases q' : c y z > 0
              · simp [q, q'] at h2
              · omega
          have := h.lt_of_lt_of_le px py pz a1 a2
          simp [this]
        · by_cases a1' : c x y > 0
          · simp [a1, a1'] at h1
          · have e1 : c x y = 0 := by omega
            simp only [a1, a1', if_false] at h1
            by_cases b1 : c y z < 0
            · have := h.lt_of_le_of_lt px py pz (by omega) b1
              simp [this]
            · by_cases b1' : c y z > 0
              · simp [b1, b1'] at h2
              · have e2 : c y z = 0 := by omega
                simp only [b1, b1', if_false] at h2
                have e3 := h.zero_trans px py pz e1 e2
                have n1 : ¬ c x z < 0 := by omega
                have n2 : ¬ c x z > 0 := by omega
                simp only [n1, n2, if_false]
                exact ih' h1 h2

/-- **lifting**: a lawful element comparison gives a lawful comparison of sequences -/
theorem lexCmp_lawful (h : LawfulCmpOn P c) : LawfulCmpOn (fun xs : List α => ∀ x ∈ xs, P x) (lexCmp c) :=
  ⟨fun xs ys hx hy => lexCmp_antisymm h xs ys hx hy,
   fun xs ys zs hx hy hz => lexCmp_le_trans h xs ys zs hx hy hz⟩

theorem lexCmp_zero_iff {E : α → α → Prop} (hz : ∀ a b, P a → P b → (c a b = 0 ↔ E a b)) :
    ∀ xs ys : List α, (∀ x ∈ xs, P x) → (∀ y ∈ ys, P y) → (lexCmp c xs ys = 0 ↔ Pointwise E xs ys) := by
  intro xs
  induction xs with
  | nil => intro ys _ _; cases ys <;> simp [lexCmp, Pointwise]
  | cons x xs ih =>
    intro ys hx hy
    cases ys with
    | nil => simp [lexCmp, Pointwise]
    | cons y ys =>
      have px : P x := hx x (by simp)
      have py : P y := hy y (by simp)
      have ih' := ih ys (fun a ha => hx a (by simp [ha])) (fun a ha => hy a (by simp [ha]))
      have hz' := hz x y px py
      rw [lexCmp_cons_cons]; simp only [Pointwise]
      by_cases h1 : c x y < 0
      · have : ¬ E x y := fun e => by have := hz'.2 e; omega
        simp [h1, this]
      · by_cases h2 : c x y > 0
        · have : ¬ E x y := fun e => by have := hz'.2 e; omega
          simp [h1, h2, this]
        · have : E x y := hz'.1 (by omega)
          simp [h1, h2, this, ih']

theorem forall₂_eq_iff {xs ys : List α} : Pointwise Eq xs ys ↔ xs = ys := by
  induction xs generalizing ys with
  | nil => cases ys <;> simp [Pointwise]
  | cons x xs ih => cases ys <;> simp [Pointwise, ih]

theorem lexCmp_strict {E : α → α → Prop} (h : StrictCmpOn P E c) :
    StrictCmpOn (fun xs : List α => ∀ x ∈ xs, P x) (Pointwise E) (lexCmp c) :=
  { lexCmp_lawful h.toLawfulCmpOn with
    zero_iff := fun xs ys hx hy => lexCmp_zero_iff h.zero_iff xs ys hx hy }

end lex

/-! ### bytes -/

theorem byteCmp_strict : StrictCmp byteCmp := by
  have hk := strictCmpOn_of_key (P := fun _ => True) (c := byteCmp) (fun x : UInt8 => (x.toNat : Int))
    (fun a b _ _ => by unfold byteCmp; omega) (fun a b _ _ => by unfold byteCmp; omega)
  refine { hk.toLawfulCmpOn with zero_iff := fun a b pa pb => ?_ }
  rw [hk.zero_iff a b pa pb]
  constructor
  · intro h; exact UInt8.toNat_inj.mp (by omega)
  · intro h; rw [h]

theorem bytesCmp_strict : StrictCmp bytesCmp := by
  have h := lexCmp_strict byteCmp_strict
  refine { h.toLawfulCmpOn.mono (fun _ _ => by simp) with zero_iff := fun a b _ _ => ?_ }
  rw [← forall₂_eq_iff]
  exact h.zero_iff a b (by simp) (by simp)

theorem byteCmp_lt_iff (x y : UInt8) : byteCmp x y < 0 ↔ x < y := by
  unfold byteCmp; rw [UInt8.lt_iff_toNat_lt]; omega

/-- the sign of `bytesCmp` is the lexicographic order of the byte lists (core `List` order: a proper prefix is smaller) -/
theorem bytesCmp_lt_iff : ∀ a b : List UInt8, bytesCmp a b < 0 ↔ a < b := by
  intro a
  induction a with
  | nil => intro b; cases b <;> simp [bytesCmp, lexCmp]
  | cons x xs ih =>
    intro b
    cases b with
    | nil => simp [bytesCmp, lexCmp]
    | cons y ys =>
      have ih' := ih ys
      unfold bytesCmp at ih' ⊢
      rw [lexCmp_cons_cons, List.cons_lt_cons_iff]
      have hb := byteCmp_lt_iff x y
      have hz := byteCmp_strict.zero_iff x y trivial trivial
      by_cases h1 : byteCmp x y < 0
      · simp [h1, hb.1 h1]
      · by_cases h2 : byteCmp x y > 0
        · have n1 : ¬ x < y := fun q => h1 (hb.2 q)
          have n2 : ¬ x = y := fun q => by have := hz.2 q; omega
          simp [h1, h2, n1, n2]
        · have e : x = y := hz.1 (by omega)
          subst e
          have n1 : ¬ x < x := fun q => h1 (hb.2 q)
          simp [h1, h2, n1, ih']

/-! ### Tree entries: key, then value -/

section pairs
variable {κ ν : Type} {ck : κ → κ → Int} {cv : ν → ν → Int}

theorem pairsCmp_eq_lexCmp : ∀ xs ys : List (κ × ν), pairsCmp ck cv xs ys = lexCmp (pairCmp ck cv) xs ys := by
  intro xs
  induction xs with
  | nil => intro ys; cases ys <;> rfl
  | cons x xs ih =>
    intro ys
    cases ys with
    | nil => rfl
    | cons y ys =>
      obtain ⟨k, v⟩ := x; obtain ⟨k', v'⟩ := y
      simp only [pairsCmp, lexCmp, pairCmp, ih ys]
      by_cases h1 : ck k k' < 0
      · simp [h1]
      · by_cases h2 : ck k k' > 0
        · simp [h1, h2]
        · simp only [h1, h2, if_false]
          by_cases h3 : cv v v' < 0
          · simp [h3]
          · by_cases h4 : cv v v' > 0
            · simp [h3, h4]
            · simp [h3, h4]

theorem pairCmp_sign (p q : κ × ν) :
    (pairCmp ck cv p q < 0 ↔ ck p.1 q.1 < 0 ∨ (ck p.1 q.1 = 0 ∧ cv p.2 q.2 < 0)) ∧
    (pairCmp ck cv p q > 0 ↔ ck p.1 q.1 > 0 ∨ (ck p.1 q.1 = 0 ∧ cv p.2 q.2 > 0)) := by
  unfold pairCmp
  by_cases h1 : ck p.1 q.1 < 0
  · simp [h1] <;> omega
  · by_cases h2 : ck p.1 q.1 > 0
    · simp [h1, h2] <;> omega
    · simp only [h1, h2, if_false]
      by_cases h3 : cv p.2 q.2 < 0
      · simp [h3] <;> omega
      · by_cases h4 : cv p.2 q.2 > 0
        · simp [h3, h4] <;> omega
        · simp [h3, h4] <;> omega

theorem pairCmp_lawful {Pk : κ → Prop} {Pv : ν → Prop} (hk : LawfulCmpOn Pk ck) (hv : LawfulCmpOn Pv cv) :
    LawfulCmpOn (fun p : κ × ν => Pk p.1 ∧ Pv p.2) (pairCmp ck cv) where
  antisymm p q pp pq := by
    have s1 := pairCmp_sign (ck := ck) (cv := cv) p q
    have s2 := pairCmp_sign (ck := ck) (cv := cv) q p
    have fk := hk.flip pp.1 pq.1
    have fv := hv.flip pp.2 pq.2
    exact antisymm_of_facts (by omega) (by omega)
  le_trans p q r pp pq pr h1 h2 := by
    have s1 := pairCmp_sign (ck := ck) (cv := cv) p q
    have s2 := pairCmp_sign (ck := ck) (cv := cv) q r
    have s3 := pairCmp_sign (ck := ck) (cv := cv) p r
    -- p ≤ q: key p ≤ key q, and if keys equal then val p ≤ val q
    have k1 : ck p.1 q.1 ≤ 0 := by omega
    have k2 : ck q.1 r.1 ≤ 0 := by omega
    have k3 := hk.le_trans _ _ _ pp.1 pq.1 pr.1 k1 k2
    by_cases e3 : ck p.1 r.1 = 0
    · -- then all three keys are equal
      have e1 : ck p.1 q.1 = 0 := by
        rcases Int.lt_or_eq_of_le k1 with l | e
        · have := hk.lt_of_lt_of_le pp.1 pq.1 pr.1 l k2; omega
        · exact e
      have e2 : ck q.1 r.1 = 0 := by
        rcases Int.lt_or_eq_of_le k2 with l | e
        · have := hk.lt_of_le_of_lt pp.1 pq.1 pr.1 k1 l; omega
        · exact e
      have v1 : cv p.2 q.2 ≤ 0 := by omega
      have v2 : cv q.2 r.2 ≤ 0 := by omega
      have v3 := hv.le_trans _ _ _ pp.2 pq.2 pr.2 v1 v2
      omega
    · omega

theorem pairCmp_strict {Pk : κ → Prop} {Pv : ν → Prop} {Ek : κ → κ → Prop} {Ev : ν → ν → Prop}
    (hk : StrictCmpOn Pk Ek ck) (hv : StrictCmpOn Pv Ev cv) :
    StrictCmpOn (fun p : κ × ν => Pk p.1 ∧ Pv p.2) (fun p q => Ek p.1 q.1 ∧ Ev p.2 q.2) (pairCmp ck cv) :=
  { pairCmp_lawful hk.toLawfulCmpOn hv.toLawfulCmpOn with
    zero_iff := fun p q pp pq => by
      have s1 := pairCmp_sign (ck := ck) (cv := cv) p q
      have zk := hk.zero_iff p.1 q.1 pp.1 pq.1
      have zv := hv.zero_iff p.2 q.2 pp.2 pq.2
      constructor
      · intro h0
        have a : ck p.1 q.1 = 0 := by omega
        have b : cv p.2 q.2 = 0 := by omega
        exact ⟨zk.1 a, zv.1 b⟩
      · intro ⟨e1, e2⟩
        have a := zk.2 e1; have b := zv.2 e2
        omega }

end pairs

/-! ### Float under SubSign -/

/-- closes `(r < 0 ↔ …) ∧ (r = 0 ↔ …) ∧ (0 < r ↔ …)` for a translated straight-line integer comparison `r` once its
    definition is unfolded: every comparison becomes a fact about `toInt`, every `if` is split, closed `BitVec 32` terms are
    evaluated, `omega` finishes.  Written to survive harmless rewrites of `Int_Cmp` (if-chains, `<=`, `(a>b)-(a<b)`, …). -/
macro "int_cmp_tac" : tactic => `(tactic|
  (simp only [BitVec.slt_eq_decide, BitVec.sle_eq_decide, decide_eq_true_eq, Bool.and_eq_true, Bool.or_eq_true,
      Bool.not_eq_true', decide_eq_false_iff_not, bne_iff_ne, beq_iff_eq, ne_eq, ← BitVec.toInt_inj]
   refine ⟨?_, ?_, ?_⟩ <;> (repeat' split) <;>
      (try simp only [BitVec.reduceSub, BitVec.reduceAdd, BitVec.reduceNeg, BitVec.reduceToInt, true_iff, false_iff,
         iff_true, iff_false, Int.reduceNeg, Int.reduceLT, Int.reduceEq, Int.reduceNegSucc]) <;> omega))

theorem neg_one_toInt32 : (-(1 : BitVec 32)).toInt = -1 := by decide
theorem one_toInt32 : ((1 : BitVec 32)).toInt = 1 := by decide
theorem zero_toInt32 : ((0 : BitVec 32)).toInt = 0 := by decide

theorem fkey_zero : fkey 0 = 0 := by decide
theorem fkey_one_pos : 0 < fkey 0x3ff0000000000000 := by decide
theorem fkey_neg_one_neg : fkey 0xbff0000000000000 < 0 := by decide

theorem subSign_ref : SubSign refFloatOps where
  pos a b _ _ := by
    have z := fkey_zero; have p := fkey_one_pos; have n := fkey_neg_one_neg
    simp only [refFloatOps, decide_eq_true_eq]
    split
    · omega
    · split <;> omega
  neg a b _ _ := by
    have z := fkey_zero; have p := fkey_one_pos; have n := fkey_neg_one_neg
    simp only [refFloatOps, decide_eq_true_eq]
    split
    · omega
    · split <;> omega

/-- `Float_Cmp` as translated, for operations whose difference has the sign of the key order -/
theorem floatCmp_of_subSign (ops : FloatOps UInt64) (hs : SubSign ops) (a b : UInt64) (na : fIsNaN a = false) (nb : fIsNaN b = false) :
    (floatCmp ops a b < 0 ↔ fkey a < fkey b) ∧ (floatCmp ops a b = 0 ↔ fkey a = fkey b) ∧
    (0 < floatCmp ops a b ↔ fkey b < fkey a) := by
  have hp := hs.pos a b na nb
  have hn := hs.neg a b na nb
  simp only [floatCmp, CelloGen.Cmp.floatCmp]
  refine ⟨?_, ?_, ?_⟩ <;> (repeat' split) <;>
    (try simp only [BitVec.reduceSub, BitVec.reduceAdd, BitVec.reduceNeg, BitVec.reduceToInt, true_iff, false_iff,
       iff_true, iff_false, Int.reduceNeg, Int.reduceLT, Int.reduceEq, Int.reduceNegSucc]) <;>
    (try simp_all) <;> (try omega)

end Cello.Cmp
