/-
  Lemmas for C19: the type edge (an object refers to its Type object; the collector neither marks through that pointer nor
  orders releases by it — KF-C19-type-outlived).  `typeFirst` / `typeOrphans` / `typeLost` are false as soon as no run-time
  Type object *in use* is among the blocks a collection released; the release mechanics of a collection over an explicit
  victim list (`sweep_mechanics`, `teardown_mechanics`).
-/
import CelloProofs.Lemmas.HdrRefuse

namespace Cello.Hdr

variable {cfg : Config}

theorem usersOf_nil {s : St} {k : Nat} (h : s.typeInUse k = false) : s.usersOf k = [] := by
  simp only [St.usersOf, St.typeInUse] at *
  rw [List.map_eq_nil_iff, List.filter_eq_nil_iff]
  intro p hp
  have := List.any_eq_false.mp h p hp
  simpa using this

theorem usesRtAtDel_uses {o : Obj} {k : Nat} (h : o.usesRtAtDel k = true) : o.usesRt k = true := by
  unfold Obj.usesRtAtDel at h
  unfold Obj.usesRt
  cases hb : o.body <;> simp_all <;> (rcases h with h | h; exact Or.inl h; first | exact Or.inr h.1 | (rcases h.1 with h1 | h1; exact Or.inr (Or.inl h1); exact Or.inr (Or.inr h1)))

theorem finUsersOf_nil {s : St} {k : Nat} (h : s.typeInUse k = false) : s.finUsersOf k = [] := by
  simp only [St.finUsersOf, St.typeInUse] at *
  rw [List.map_eq_nil_iff, List.filter_eq_nil_iff]
  intro p hp
  have := List.any_eq_false.mp h p hp
  intro hc
  simp only [Bool.and_eq_true] at hc
  rw [hc.1, usesRtAtDel_uses hc.2] at this
  simp at this

theorem rtOf_inUse {s : St} {a k : Nat} (h : s.rtOf a = some k) : s.isTypeInUse a = s.typeInUse k := by
  unfold St.rtOf at h
  unfold St.isTypeInUse
  cases hg : s.get a with
  | none => simp [hg] at h
  | some o =>
    simp only [hg] at h ⊢
    split at h
    · rename_i k' sz hb
      simp only [Option.some.injEq] at h
      subst h
      simp
    · cases h

theorem typeFirst_false {s : St} : ∀ rel : List Nat, (∀ e ∈ rel, s.isTypeInUse e = false) → s.typeFirst rel = false
  | [], _ => rfl
  | a :: rest, h => by
    have ih := typeFirst_false rest (fun e he => h e (List.mem_cons_of_mem _ he))
    simp only [St.typeFirst, ih, Bool.or_false]
    cases hk : s.rtOf a with
    | none => rfl
    | some k =>
      have hu : s.finUsersOf k = [] := finUsersOf_nil (by rw [← rtOf_inUse hk]; exact h a List.mem_cons_self)
      simp [hu]

theorem typeOrphans_false {s : St} (rel : List Nat) (h : ∀ e ∈ rel, s.isTypeInUse e = false) : s.typeOrphans rel = false := by
  simp only [St.typeOrphans]
  apply List.any_eq_false.mpr
  intro a ha
  cases hk : s.rtOf a with
  | none => simp
  | some k =>
    have hu : s.usersOf k = [] := usersOf_nil (by rw [← rtOf_inUse hk]; exact h a ha)
    simp [hu]

/-- no run-time Type object in use among the released blocks: no Type is lost -/
theorem typeLost_false {s : St} (rel : List Nat) (h : ∀ e ∈ rel, s.isTypeInUse e = false) : s.typeLost rel = false := by
  simp only [St.typeLost, typeFirst_false rel h, typeOrphans_false rel h, Bool.or_self]

/-- a registered, non-root object that no live Tuple refers to and that is named as a victim is a victim -/
theorem mem_sweepVictims_of {s : St} {victims : List Nat} {v : Nat} (hv : v ∈ victims) (hr : (v, false) ∈ s.reg)
    (href : s.referenced v = false) : v ∈ s.sweepVictims victims := by
  simp only [St.sweepVictims, List.mem_map, List.mem_filter]
  exact ⟨(v, false), ⟨hr, by simp [hv, href]⟩, rfl⟩

/-- **release mechanics of a collection** over the victims the collector finds (`sweepVictims`), in any slot order: it runs to
    its end, every victim is among the released blocks, nothing is released twice, nothing that was released before, every
    released block belonged to a registered object; no victim stays registered; nothing is pending afterwards. -/
theorem sweep_mechanics (F : Facts cfg) {s : St} (hw : WF cfg s) (victims order : List Nat) :
    let r := s.sweep cfg victims order
    r.2.2 = .ok ∧ (∀ v ∈ s.sweepVictims victims, v ∈ r.2.1) ∧ r.2.1.Nodup ∧ (∀ e ∈ r.2.1, e ∉ s.freed) ∧
      (∀ v ∈ s.sweepVictims victims, r.1.isReg v = false) ∧ NoPend r.1 ∧ r.1.freed = s.freed ++ r.2.1 ∧
      (∀ e ∈ r.2.1, ∃ p ∈ s.reg, p.1 = e) := by
  intro r
  obtain ⟨hok, hw', hnp', hall, ⟨E, hE⟩, hfresh, _, _, _, _⟩ :=
    collect_spec F s (arrange order (s.sweepVictims victims)) hw (fun v hv => victims_registered hv)
  have hr21 : r.2.1 = E := by
    show (s.collect cfg _).1.freed.drop s.freed.length = E
    exact drop_freed_of_ext hE
  have hnd := hw'.once
  rw [hE] at hnd
  obtain ⟨_, hndE, hdisj⟩ := List.nodup_append.mp hnd
  have hin : ∀ v ∈ s.sweepVictims victims, v ∈ E := by
    intro v hv
    have hv' := hall v ((mem_arrange order _ v).mpr hv)
    rw [hE] at hv'
    rcases List.mem_append.mp hv' with h | h
    · obtain ⟨p, hp, e⟩ := mem_sweepVictims hv
      obtain ⟨o, hg, _, hl⟩ := hw.reg p hp
      obtain ⟨o', hg', _, hl'⟩ := hw.freed v h
      rw [e] at hg; rw [hg] at hg'; cases hg'; rw [hl] at hl'; cases hl'
    · exact h
  refine ⟨hok, ?_, ?_, ?_, ?_, hnp', ?_, ?_⟩
  · intro v hv; rw [hr21]; exact hin v hv
  · rw [hr21]; exact hndE
  · intro e he hes; rw [hr21] at he; exact hdisj e hes e he rfl
  · intro v hv
    cases hreg : r.1.isReg v with
    | false => rfl
    | true =>
      obtain ⟨p, hp, e⟩ := isReg_true hreg
      obtain ⟨o, hg, _, hl⟩ := hw'.reg p hp
      obtain ⟨o', hg', _, hl'⟩ := hw'.freed v (by rw [hE]; exact List.mem_append_right _ (hin v hv))
      rw [e] at hg
      have : (s.collect cfg (arrange order (s.sweepVictims victims))).1.get v = some o := hg
      rw [this] at hg'; cases hg'; rw [hl] at hl'; cases hl'
  · show (s.collect cfg _).1.freed = s.freed ++ r.2.1
    rw [hr21]; exact hE
  · intro e he
    rw [hr21] at he
    rcases hfresh e (by rw [hE]; exact List.mem_append_right _ he) with h | h
    · exact absurd rfl (hdisj e h e he)
    · exact h

/-- **release mechanics of the teardown**: every registered object that is not a root is released, once; everything released
    was a registered live heap object -/
theorem teardown_mechanics (F : Facts cfg) {s : St} (hw : WF cfg s) (order : List Nat) :
    let r := s.teardown cfg order
    r.2.2 = .ok ∧ (∀ p ∈ s.reg, p.2 = false → p.1 ∈ r.2.1) ∧ r.2.1.Nodup ∧ (∀ e ∈ r.2.1, e ∉ s.freed) ∧
      (∀ e ∈ r.2.1, ∃ o, s.get e = some o ∧ o.hdr.alloc = cfg.cHeap ∧ o.live = true) ∧
      (∀ e ∈ r.2.1, ∃ p ∈ s.reg, p.1 = e) := by
  intro r
  obtain ⟨hok, hw', _, hall, ⟨E, hE⟩, hfresh, _, _, _, _⟩ :=
    collect_spec F s (arrange order s.exitVictims) hw (fun v hv => mem_exitVictims ((mem_arrange order _ v).mp hv))
  have hr21 : r.2.1 = E := by
    show (s.collect cfg _).1.freed.drop s.freed.length = E
    exact drop_freed_of_ext hE
  have hnd := hw'.once
  rw [hE] at hnd
  obtain ⟨_, hndE, hdisj⟩ := List.nodup_append.mp hnd
  have hreg : ∀ e ∈ E, ∃ p ∈ s.reg, p.1 = e := by
    intro e he
    rcases hfresh e (by rw [hE]; exact List.mem_append_right _ he) with h | h
    · exact absurd rfl (hdisj e h e he)
    · exact h
  refine ⟨hok, ?_, by rw [hr21]; exact hndE, ?_, ?_, by rw [hr21]; exact hreg⟩
  · intro p hp hroot
    have hv : p.1 ∈ s.exitVictims := by
      simp only [St.exitVictims, List.mem_map, List.mem_filter]
      exact ⟨p, ⟨hp, by simp [hroot]⟩, rfl⟩
    have hv' := hall p.1 ((mem_arrange order _ p.1).mpr hv)
    rw [hE] at hv'
    rw [hr21]
    rcases List.mem_append.mp hv' with h | h
    · obtain ⟨o, hg, _, hl⟩ := hw.reg p hp
      obtain ⟨o', hg', _, hl'⟩ := hw.freed p.1 h
      rw [hg] at hg'; cases hg'; rw [hl] at hl'; cases hl'
    · exact h
  · intro e he hes; rw [hr21] at he; exact hdisj e hes e he rfl
  · intro e he
    rw [hr21] at he
    obtain ⟨p, hp, e'⟩ := hreg e he
    obtain ⟨o, hg, hh, hl⟩ := hw.reg p hp
    exact ⟨o, e' ▸ hg, hh, hl⟩

/-! ## embedded objects: which destructors free a block -/

/-- **the embedded territory of KF-C19-delraw-embedded, exactly**: the destructor of the element frees a block the element
    owns (or touches one it freed before) — a String (its characters: never NULL), a Tuple (its `items`: never NULL), an
    Array that has a backing store, and the three dangling forms.  An **empty** embedded Array is outside: `Array_Del` frees
    a NULL backing store, `dealloc` refuses, the object is intact. -/
def Scalar.dtorFrees : Scalar → Bool
  | .int _ => false
  | .raw _ => false
  | .arr vals => !vals.isEmpty
  | _ => true

theorem destructElem_noFree {e : Elem} (h : e.val.dtorFrees = false) : destructElem cfg e = (e, .ok) := by
  unfold destructElem
  cases hv : e.val <;> simp only [hv, Scalar.dtorFrees] at h ⊢ <;> try cases h
  rename_i vals
  have : vals.isEmpty = true := by simpa using h
  simp [this]

theorem not_dangling_of_noFree {v : Scalar} (h : v.dtorFrees = false) : v.dangling = false := by
  cases v <;> simp_all [Scalar.dtorFrees, Scalar.dangling]

theorem dtorFrees_of_noDtor {v : Scalar} (h : v.hasDestructor = false) : v.dtorFrees = false := by
  cases v <;> simp_all [Scalar.dtorFrees, Scalar.hasDestructor]

end Cello.Hdr
