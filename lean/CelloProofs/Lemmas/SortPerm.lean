/-
  C04 helper lemmas: the quicksort of Cello/Sort.lean only swaps — the result is a permutation of the input
  (and has the same size).  Core Lean only.
-/
import Cello.Sort

namespace Cello.Sort
variable {α : Type}

theorem swapIfInBounds_perm (a : Array α) (i j : Nat) : (a.swapIfInBounds i j).Perm a := by
  unfold Array.swapIfInBounds
  split
  · split
    · exact Array.swap_perm _ _
    · exact Array.Perm.refl _
  · exact Array.Perm.refl _

theorem partLoop_perm (f : α → α → Bool) (r : Nat) :
    ∀ (n i : Nat) (a : Array α) (s : Nat), (partLoop f r n i a s).1.Perm a := by
  intro n
  induction n with
  | zero => intro i a s; exact Array.Perm.refl _
  | succ n ih =>
    intro i a s
    unfold partLoop
    split
    · split
      · exact (ih (i + 1) (a.swapIfInBounds i s) (s + 1)).trans (swapIfInBounds_perm a i s)
      · exact ih (i + 1) a s
    · exact ih (i + 1) a s

theorem partition_perm (f : α → α → Bool) (a : Array α) (l r : Nat) : (partition f a l r).1.Perm a := by
  unfold partition
  dsimp only
  exact (swapIfInBounds_perm _ _ _).trans ((partLoop_perm f r _ _ _ _).trans (swapIfInBounds_perm a _ r))

theorem sortPart_perm (f : α → α → Bool) : ∀ (a : Array α) (l r : Nat), (sortPart f a l r).Perm a := by
  intro a l r
  induction a, l, r using sortPart.induct f with
  | case1 a l r h a1 s hp hs a2 ih1 ih2 =>
    rw [sortPart, dif_pos h]
    simp only [hp]
    have hperm : a1.Perm a := by have := partition_perm f a l r; rw [hp] at this; exact this
    exact ih2.trans (ih1.trans hperm)
  | case2 a l r h => rw [sortPart, dif_neg h]

theorem sortBy_perm (f : α → α → Bool) (a : Array α) : (sortBy f a).Perm a := sortPart_perm f a 0 _

/-- **sort leaves a permutation** (list form, as used by `Arr.sortBy` / `Tup.sortBy`) -/
theorem sortList_perm (f : α → α → Bool) (l : List α) : (sortList f l).Perm l := by
  unfold sortList
  have := sortBy_perm f l.toArray
  simpa [Array.perm_iff_toList_perm] using this

theorem sortList_length (f : α → α → Bool) (l : List α) : (sortList f l).length = l.length :=
  (sortList_perm f l).length_eq

end Cello.Sort
