/-
  CelloProofs/Lemmas/RegistryOrder.lean — the ledger a collection leaves does not depend on the order in which the sweep
  lists the reclaimed objects.  `absExecO` / `absFinLoop` (the nested GC_Rem / finalisation recursion on (ledger, pending
  slots)) is a depth-first traversal of the "destructor of p deletes q" graph `K`; whatever the order of the pending slots, the
  objects that leave the ledger are exactly those reachable from a reclaimed object through objects that are live when they
  are reached.  Consequence: every ledger that `LedgerK` allows for an operation has the same members, so the history
  theorem for destructors `K` needs no choice of ledger (`ledgerK_wf`, `reachK_wf`).
-/
import Cello.Registry
import CelloProofs.Lemmas.RegistryKillsHist
set_option linter.unusedSectionVars false
set_option linter.unusedVariables false
namespace Cello.Registry
open RH

/-- `K`-paths all of whose nodes satisfy `T` -/
inductive Via (K : Nat → List Nat) (T : Nat → Prop) : Nat → Nat → Prop where
  | refl {x : Nat} : T x → Via K T x x
  | step {x u v : Nat} : Via K T x u → v ∈ K u → T v → Via K T x v

theorem Via.mono {K : Nat → List Nat} {T T' : Nat → Prop} (h : ∀ x, T x → T' x) {a b : Nat} (p : Via K T a b) : Via K T' a b := by
  induction p with
  | refl hx => exact Via.refl (h _ hx)
  | step _ hv ht ih => exact Via.step ih hv (h _ ht)

theorem Via.left {K : Nat → List Nat} {T : Nat → Prop} {a b : Nat} (p : Via K T a b) : T a := by
  induction p with
  | refl hx => exact hx
  | step _ _ _ ih => exact ih

theorem Via.trans {K : Nat → List Nat} {T : Nat → Prop} {a b c : Nat} (p : Via K T a b) (q : Via K T b c) : Via K T a c := by
  induction q with
  | refl _ => exact p
  | step _ hv ht ih => exact Via.step ih hv ht

theorem Via.head {K : Nat → List Nat} {T : Nat → Prop} {x z q : Nat} (hx : T x) (hz : z ∈ K x) (p : Via K T z q) : Via K T x q :=
  Via.trans (Via.step (Via.refl hx) hz p.left) p

abbrev keys (L : Ledger) : List Nat := L.map Prod.fst

theorem keys_sublist {L L' : Ledger} (h : L'.Sublist L) : (keys L').Sublist (keys L) := List.Sublist.map _ h

theorem not_mem_keys_of_sublist {L L' : Ledger} (h : L'.Sublist L) {y : Nat} (hy : y ∉ keys L) : y ∉ keys L' :=
  fun h' => hy ((keys_sublist h).subset h')

/-- the pending slots only ever change by being struck off -/
def SlotsLe (P P' : List (Option Nat)) : Prop := P'.length = P.length ∧ ∀ j : Nat, P'[j]? = P[j]? ∨ P'[j]? = some none

theorem SlotsLe.refl (P : List (Option Nat)) : SlotsLe P P := ⟨rfl, fun _ => Or.inl rfl⟩

theorem SlotsLe.trans {P P' P'' : List (Option Nat)} (h1 : SlotsLe P P') (h2 : SlotsLe P' P'') : SlotsLe P P'' := by
  refine ⟨h2.1.trans h1.1, ?_⟩
  intro j
  rcases h2.2 j with h | h
  · rcases h1.2 j with h' | h'
    · exact Or.inl (h.trans h')
    · exact Or.inr (h.trans h')
  · exact Or.inr h

theorem SlotsLe.mem {P P' : List (Option Nat)} (h : SlotsLe P P') {q : Nat} (hq : some q ∈ P') : some q ∈ P := by
  obtain ⟨j, hj⟩ := List.mem_iff_getElem?.1 hq
  rcases h.2 j with h' | h'
  · rw [h'] at hj; exact List.mem_iff_getElem?.2 ⟨j, hj⟩
  · rw [h'] at hj; simp at hj

theorem SlotsLe.set_none (P : List (Option Nat)) (i : Nat) : SlotsLe P (P.set i none) := by
  refine ⟨by simp, ?_⟩
  intro j
  rw [List.getElem?_set]
  by_cases hij : i = j
  · subst hij
    by_cases hl : i < P.length
    · right; simp [hl]
    · left; simp [hl]
  · left; simp [hij]

/-- a pending object never is a ledger object at the same time -/
def DisjO (a : AbsO) : Prop := ∀ q, some q ∈ a.2 → q ∉ keys a.1

/-- what a (nested) removal / finalisation does to (ledger, pending slots): `tl` are the objects finalised, `R` the roots it
    started from, `E` the objects it may finalise although they are neither in the ledger nor pending -/
structure StepSpec (K : Nat → List Nat) (a a' : AbsO) (tl : List Nat) (R E : Nat → Prop) : Prop where
  sub : a'.1.Sublist a.1
  closed : ∀ q ∈ tl, ∀ y ∈ K q, y ∉ keys a'.1
  removed : ∀ y, y ∈ keys a.1 → y ∉ keys a'.1 → y ∈ tl
  slots : SlotsLe a.2 a'.2
  struck : ∀ q, some q ∈ a.2 → some q ∈ a'.2 ∨ q ∈ tl
  reach : ∀ q ∈ tl, ∃ z, R z ∧ Via K (· ∈ tl) z q
  within : ∀ q ∈ tl, E q ∨ q ∈ keys a.1 ∨ some q ∈ a.2

theorem StepSpec.nil (K : Nat → List Nat) (a : AbsO) (R E : Nat → Prop) : StepSpec K a a [] R E :=
  ⟨List.Sublist.refl _, by simp, fun y h h' => absurd h h', SlotsLe.refl _, fun q h => Or.inl h, by simp, by simp⟩

theorem StepSpec.disj {K : Nat → List Nat} {a a' : AbsO} {tl : List Nat} {R E : Nat → Prop} (h : StepSpec K a a' tl R E)
    (hd : DisjO a) : DisjO a' :=
  fun q hq => not_mem_keys_of_sublist h.sub (hd q (h.slots.mem hq))

theorem StepSpec.weaken {K : Nat → List Nat} {a a' : AbsO} {tl : List Nat} {R E R' E' : Nat → Prop} (h : StepSpec K a a' tl R E)
    (hR : ∀ z, R z → R' z) (hE : ∀ z, E z → E' z) : StepSpec K a a' tl R' E' :=
  ⟨h.sub, h.closed, h.removed, h.slots, h.struck,
   fun q hq => by obtain ⟨z, hz, hv⟩ := h.reach q hq; exact ⟨z, hR z hz, hv⟩,
   fun q hq => by rcases h.within q hq with h' | h'; exact Or.inl (hE q h'); exact Or.inr h'⟩

/-- one step after another -/
theorem StepSpec.seq {K : Nat → List Nat} {a a1 a2 : AbsO} {t1 t2 : List Nat} {R E : Nat → Prop}
    (h1 : StepSpec K a a1 t1 R E) (h2 : StepSpec K a1 a2 t2 R E) : StepSpec K a a2 (t1 ++ t2) R E := by
  refine ⟨h2.sub.trans h1.sub, ?_, ?_, h1.slots.trans h2.slots, ?_, ?_, ?_⟩
  · intro q hq y hy
    rcases List.mem_append.1 hq with h | h
    · exact not_mem_keys_of_sublist h2.sub (h1.closed q h y hy)
    · exact h2.closed q h y hy
  · intro y hy hy'
    by_cases h : y ∈ keys a1.1
    · exact List.mem_append_right _ (h2.removed y h hy')
    · exact List.mem_append_left _ (h1.removed y hy h)
  · intro q hq
    rcases h1.struck q hq with h | h
    · rcases h2.struck q h with h' | h'
      · exact Or.inl h'
      · exact Or.inr (List.mem_append_right _ h')
    · exact Or.inr (List.mem_append_left _ h)
  · intro q hq
    rcases List.mem_append.1 hq with h | h
    · obtain ⟨z, hz, hv⟩ := h1.reach q h
      exact ⟨z, hz, hv.mono (fun x hx => List.mem_append_left _ hx)⟩
    · obtain ⟨z, hz, hv⟩ := h2.reach q h
      exact ⟨z, hz, hv.mono (fun x hx => List.mem_append_right _ hx)⟩
  · intro q hq
    rcases List.mem_append.1 hq with h | h
    · exact h1.within q h
    · rcases h2.within q h with h' | h' | h'
      · exact Or.inl h'
      · exact Or.inr (Or.inl ((keys_sublist h1.sub).subset h'))
      · exact Or.inr (Or.inr (h1.slots.mem h'))

theorem Via.right {K : Nat → List Nat} {T : Nat → Prop} {a b : Nat} (p : Via K T a b) : T b := by
  cases p with
  | refl hx => exact hx
  | step _ _ ht => exact ht

/-- the step function of the fold over a destructor's deletions -/
def foldRem (K : Nat → List Nat) (running : Bool) (fuel : Nat) : Option (AbsO × List Nat) → Nat → Option (AbsO × List Nat) :=
  fun acc y =>
    match acc with
    | none => none
    | some (a', t) =>
      match absExecO K running fuel a' (.rem y) with
      | none => none
      | some (a'', t') => some (a'', t ++ t')

theorem absExecO_fin_succ (K : Nat → List Nat) (running : Bool) (fuel : Nat) (a : AbsO) (p : Nat) :
    absExecO K running (fuel+1) a (.fin p) =
      match (K p).foldl (foldRem K running fuel) (some (a, [])) with
      | none => none
      | some (a', t) => some (a', t ++ [p]) := by
  rw [absExecO]; rfl

theorem absExecO_rem_succ (K : Nat → List Nat) (fuel : Nat) (a : AbsO) (x : Nat) :
    absExecO K true (fuel+1) a (.rem x) =
      match a.2.findIdx? (fun y => y == some x) with
      | some i => absExecO K true fuel (a.1, a.2.set i none) (.fin x)
      | none =>
        if x ∈ a.1.map Prod.fst then absExecO K true fuel (a.1.filter (fun y => y.1 != x), a.2) (.fin x)
        else some (a, []) := by
  rw [absExecO]; rfl

theorem foldl_foldRem_none (K : Nat → List Nat) (running : Bool) (fuel : Nat) (l : List Nat) :
    l.foldl (foldRem K running fuel) none = none := by
  induction l with
  | nil => rfl
  | cons z l ih => simpa [List.foldl_cons, foldRem] using ih

/-- what a command does, as a `StepSpec` -/
def CmdSpec (K : Nat → List Nat) (a a' : AbsO) (t : List Nat) : Cmd → Prop
  | .fin p => (∃ tl, t = tl ++ [p]) ∧ StepSpec K a a' t (· = p) (· = p)
  | .rem x => StepSpec K a a' t (· = x) (fun _ => False) ∧ x ∉ keys a'.1

/-- striking `x` off slot `i` and finalising it, seen from the state before -/
theorem StepSpec.of_struck {K : Nat → List Nat} {a a' : AbsO} {t : List Nat} {x i : Nat} (hi : a.2[i]? = some (some x))
    (h : StepSpec K (a.1, a.2.set i none) a' t (· = x) (· = x)) (hx : x ∈ t) :
    StepSpec K a a' t (· = x) (fun _ => False) := by
  have hle : SlotsLe a.2 (a.2.set i none) := SlotsLe.set_none _ _
  refine ⟨h.sub, h.closed, h.removed, hle.trans h.slots, ?_, h.reach, ?_⟩
  · intro q hq
    by_cases hqx : q = x
    · subst hqx; exact Or.inr hx
    · apply h.struck q
      obtain ⟨k, hk⟩ := List.mem_iff_getElem?.1 hq
      have hki : i ≠ k := by
        intro e; subst e; rw [hi] at hk; exact hqx (Option.some.inj (Option.some.inj hk)).symm
      apply List.mem_iff_getElem?.2
      exact ⟨k, by show (a.2.set i none)[k]? = _; rw [List.getElem?_set]; simp [hki, hk]⟩
  · intro q hq
    rcases h.within q hq with h' | h' | h'
    · right; right
      have : q = x := h'
      subst this
      exact List.mem_iff_getElem?.2 ⟨i, hi⟩
    · exact Or.inr (Or.inl h')
    · exact Or.inr (Or.inr (hle.mem h'))

theorem not_mem_keys_filter (L : Ledger) (x : Nat) : x ∉ keys (L.filter (fun y => y.1 != x)) := by
  intro h
  obtain ⟨y, hy, hyx⟩ := List.mem_map.1 h
  have := (List.mem_filter.1 hy).2
  simp [hyx] at this

/-- **the nested removal / finalisation recursion is a depth-first traversal** -/
theorem absExecO_spec (K : Nat → List Nat) :
    ∀ (fuel : Nat) (a : AbsO) (cmd : Cmd) (a' : AbsO) (t : List Nat), DisjO a →
      absExecO K true fuel a cmd = some (a', t) → CmdSpec K a a' t cmd := by
  intro fuel
  induction fuel with
  | zero => intro a cmd a' t _ h; simp [absExecO] at h
  | succ fuel ih =>
    intro a cmd a' t hd h
    cases cmd with
    | fin p =>
      rw [absExecO_fin_succ] at h
      -- the fold over the destructor's deletions
      have hfold : ∀ (l : List Nat) (a1 : AbsO) (t1 : List Nat) (a2 : AbsO) (t2 : List Nat), DisjO a1 →
          l.foldl (foldRem K true fuel) (some (a1, t1)) = some (a2, t2) →
          ∃ tl, t2 = t1 ++ tl ∧ StepSpec K a1 a2 tl (· ∈ l) (fun _ => False) ∧ ∀ z ∈ l, z ∉ keys a2.1 := by
        intro l
        induction l with
        | nil =>
          intro a1 t1 a2 t2 _ hf
          simp only [List.foldl_nil, Option.some.injEq, Prod.mk.injEq] at hf
          obtain ⟨e1, e2⟩ := hf
          subst e1; subst e2
          exact ⟨[], by simp, StepSpec.nil K _ _ _, by simp⟩
        | cons z l ihl =>
          intro a1 t1 a2 t2 hd1 hf
          rw [List.foldl_cons] at hf
          cases hz : absExecO K true fuel a1 (.rem z) with
          | none =>
            have : foldRem K true fuel (some (a1, t1)) z = none := by simp [foldRem, hz]
            rw [this, foldl_foldRem_none] at hf
            cases hf
          | some res =>
            obtain ⟨am, tm⟩ := res
            have : foldRem K true fuel (some (a1, t1)) z = some (am, t1 ++ tm) := by simp [foldRem, hz]
            rw [this] at hf
            obtain ⟨sm, hzm⟩ := ih a1 (.rem z) am tm hd1 hz
            obtain ⟨tl, htl, sl, hroot⟩ := ihl am (t1 ++ tm) a2 t2 (sm.disj hd1) hf
            refine ⟨tm ++ tl, by rw [htl, List.append_assoc], ?_, ?_⟩
            · exact StepSpec.seq (sm.weaken (fun y hy => by rw [hy]; exact List.mem_cons_self) (fun _ h => h))
                (sl.weaken (fun y hy => List.mem_cons_of_mem _ hy) (fun _ h => h))
            · intro y hy
              rcases List.mem_cons.1 hy with e | e
              · subst e; exact not_mem_keys_of_sublist sl.sub hzm
              · exact hroot y e
      cases hf : (K p).foldl (foldRem K true fuel) (some (a, [])) with
      | none => rw [hf] at h; cases h
      | some res =>
        obtain ⟨a2, t2⟩ := res
        rw [hf] at h
        simp only [Option.some.injEq, Prod.mk.injEq] at h
        obtain ⟨e1, e2⟩ := h
        subst e1; subst e2
        obtain ⟨tl, htl, sl, hroot⟩ := hfold (K p) a [] a2 t2 hd hf
        simp only [List.nil_append] at htl
        subst htl
        refine ⟨⟨t2, rfl⟩, sl.sub, ?_, ?_, sl.slots, ?_, ?_, ?_⟩
        · intro q hq y hy
          rcases List.mem_append.1 hq with e | e
          · exact sl.closed q e y hy
          · have : q = p := by simpa using e
            subst this; exact hroot y hy
        · intro y hy hy'; exact List.mem_append_left _ (sl.removed y hy hy')
        · intro q hq
          rcases sl.struck q hq with e | e
          · exact Or.inl e
          · exact Or.inr (List.mem_append_left _ e)
        · intro q hq
          refine ⟨p, rfl, ?_⟩
          have hp : p ∈ t2 ++ [p] := by simp
          rcases List.mem_append.1 hq with e | e
          · obtain ⟨z, hz, hv⟩ := sl.reach q e
            exact Via.head hp hz (hv.mono (fun x hx => List.mem_append_left _ hx))
          · have : q = p := by simpa using e
            subst this; exact Via.refl hp
        · intro q hq
          rcases List.mem_append.1 hq with e | e
          · rcases sl.within q e with e' | e'
            · exact absurd e' id
            · exact Or.inr e'
          · have : q = p := by simpa using e
            exact Or.inl this
    | rem x =>
      rw [absExecO_rem_succ] at h
      cases hidx : a.2.findIdx? (fun y => y == some x) with
      | some i =>
        rw [hidx] at h
        simp only [] at h
        obtain ⟨hi, hp, _⟩ := List.findIdx?_eq_some_iff_getElem.1 hidx
        have hx : a.2[i] = some x := by simpa using hp
        have hi' : a.2[i]? = some (some x) := by rw [List.getElem?_eq_getElem hi, hx]
        have hle : SlotsLe a.2 (a.2.set i none) := SlotsLe.set_none _ _
        have hd1 : DisjO (a.1, a.2.set i none) := fun q hq => hd q (hle.mem hq)
        obtain ⟨⟨tl, htl⟩, s1⟩ := ih (a.1, a.2.set i none) (.fin x) a' t hd1 h
        have hxt : x ∈ t := by rw [htl]; simp
        refine ⟨StepSpec.of_struck hi' s1 hxt, ?_⟩
        exact not_mem_keys_of_sublist s1.sub (hd x (List.mem_iff_getElem?.2 ⟨i, hi'⟩))
      | none =>
        rw [hidx] at h
        simp only [] at h
        by_cases hL : x ∈ a.1.map Prod.fst
        · rw [if_pos hL] at h
          have hsub : (a.1.filter (fun y => y.1 != x)).Sublist a.1 := List.filter_sublist
          have hd1 : DisjO (a.1.filter (fun y => y.1 != x), a.2) := fun q hq => not_mem_keys_of_sublist hsub (hd q hq)
          obtain ⟨⟨tl, htl⟩, s1⟩ := ih (a.1.filter (fun y => y.1 != x), a.2) (.fin x) a' t hd1 h
          have hxt : x ∈ t := by rw [htl]; simp
          refine ⟨⟨s1.sub.trans hsub, s1.closed, ?_, s1.slots, s1.struck, s1.reach, ?_⟩, ?_⟩
          · intro y hy hy'
            by_cases hyx : y = x
            · subst hyx; exact hxt
            · apply s1.removed y _ hy'
              obtain ⟨w, hw, hwy⟩ := List.mem_map.1 hy
              exact List.mem_map.2 ⟨w, List.mem_filter.2 ⟨hw, by simp [hwy, hyx]⟩, hwy⟩
          · intro q hq
            rcases s1.within q hq with e | e | e
            · have : q = x := e
              subst this; exact Or.inr (Or.inl hL)
            · exact Or.inr (Or.inl ((keys_sublist hsub).subset e))
            · exact Or.inr (Or.inr e)
          · exact not_mem_keys_of_sublist s1.sub (not_mem_keys_filter a.1 x)
        · rw [if_neg hL] at h
          simp only [Option.some.injEq, Prod.mk.injEq] at h
          obtain ⟨e1, e2⟩ := h
          subst e1; subst e2
          exact ⟨StepSpec.nil K _ _ _, hL⟩

theorem absFinLoop_succ (K : Nat → List Nat) (running : Bool) (todo i : Nat) (a : AbsO) (t : List Nat) :
    absFinLoop K running (todo+1) i a t =
      match a.2[i]? with
      | some (some p) =>
        match absExecO K running (absFuel (a.1, a.2.set i none) + 1) (a.1, a.2.set i none) (.fin p) with
        | none => none
        | some (a2, t') => absFinLoop K running todo (i+1) a2 (t ++ t')
      | _ => absFinLoop K running todo (i+1) a t := by
  rw [absFinLoop]; rfl

/-- **the finalisation loop of GC_Sweep as a traversal**: it finalises `tl`, started from the pending objects, and leaves
    every slot it has passed struck off -/
theorem absFinLoop_spec (K : Nat → List Nat) :
    ∀ (todo i : Nat) (a : AbsO) (t : List Nat) (a' : AbsO) (t' : List Nat), DisjO a →
      absFinLoop K true todo i a t = some (a', t') →
      ∃ tl, t' = t ++ tl ∧ StepSpec K a a' tl (fun p => some p ∈ a.2) (fun _ => False) ∧
        ∀ j, i ≤ j → j < i + todo → j < a.2.length → a'.2[j]? = some none := by
  intro todo
  induction todo with
  | zero =>
    intro i a t a' t' _ h
    simp only [absFinLoop, Option.some.injEq, Prod.mk.injEq] at h
    obtain ⟨e1, e2⟩ := h
    subst e1; subst e2
    exact ⟨[], by simp, StepSpec.nil K _ _ _, fun j h1 h2 => by omega⟩
  | succ todo ih =>
    intro i a t a' t' hd h
    rw [absFinLoop_succ] at h
    -- the slot is skipped
    have skip : absFinLoop K true todo (i+1) a t = some (a', t') → (i < a.2.length → a.2[i]? = some none) →
        ∃ tl, t' = t ++ tl ∧ StepSpec K a a' tl (fun p => some p ∈ a.2) (fun _ => False) ∧
          ∀ j, i ≤ j → j < i + (todo + 1) → j < a.2.length → a'.2[j]? = some none := by
      intro h hnone
      obtain ⟨tl, htl, sl, hz⟩ := ih (i+1) a t a' t' hd h
      refine ⟨tl, htl, sl, ?_⟩
      intro j h1 h2 h3
      by_cases hji : j = i
      · subst hji
        rcases sl.slots.2 j with e | e
        · rw [e]; exact hnone h3
        · exact e
      · exact hz j (by omega) (by omega) h3
    cases hgi : a.2[i]? with
    | none =>
      rw [hgi] at h
      exact skip h (fun hlt => by rw [List.getElem?_eq_getElem hlt] at hgi; cases hgi)
    | some o =>
      cases o with
      | none =>
        rw [hgi] at h
        exact skip h (fun _ => hgi)
      | some p =>
        rw [hgi] at h
        simp only [] at h
        cases hcall : absExecO K true (absFuel (a.1, a.2.set i none) + 1) (a.1, a.2.set i none) (.fin p) with
        | none => rw [hcall] at h; cases h
        | some res =>
          obtain ⟨a2, t2⟩ := res
          rw [hcall] at h
          simp only [] at h
          have hle : SlotsLe a.2 (a.2.set i none) := SlotsLe.set_none _ _
          have hd1 : DisjO (a.1, a.2.set i none) := fun q hq => hd q (hle.mem hq)
          obtain ⟨⟨tl2, htl2⟩, s2⟩ := absExecO_spec K _ _ _ _ _ hd1 hcall
          have hpt : p ∈ t2 := by rw [htl2]; simp
          have s2' : StepSpec K a a2 t2 (· = p) (fun _ => False) := StepSpec.of_struck hgi s2 hpt
          have hd2 : DisjO a2 := s2'.disj hd
          obtain ⟨tl, htl, sl, hz⟩ := ih (i+1) a2 (t ++ t2) a' t' hd2 h
          refine ⟨t2 ++ tl, by rw [htl, List.append_assoc], ?_, ?_⟩
          · exact StepSpec.seq
              (s2'.weaken (fun z hz => by rw [hz]; exact List.mem_iff_getElem?.2 ⟨i, hgi⟩) (fun _ h => h))
              (sl.weaken (fun z hz => s2'.slots.mem hz) (fun _ h => h))
          · intro j h1 h2 h3
            by_cases hji : j = i
            · subst hji
              have h0 : (a.2.set j none)[j]? = some none := by rw [List.getElem?_set]; simp [h3]
              have h1' : a2.2[j]? = some none := by
                rcases s2.slots.2 j with e | e
                · rw [e]; exact h0
                · exact e
              rcases sl.slots.2 j with e | e
              · rw [e]; exact h1'
              · exact e
            · exact hz j (by omega) (by omega) (by rw [s2'.slots.1]; exact h3)

theorem eq_of_nodup_keys : ∀ (C : Ledger), (keys C).Nodup → ∀ q b b', (q, b) ∈ C → (q, b') ∈ C → b = b' := by
  intro C
  induction C with
  | nil => intro _ q b b' h; cases h
  | cons c C ih =>
    intro hnd q b b' h1 h2
    have hnd' := List.nodup_cons.1 hnd
    rcases List.mem_cons.1 h1 with e1 | e1 <;> rcases List.mem_cons.1 h2 with e2 | e2
    · rw [← e1] at e2; exact (Prod.mk.inj e2).2.symm ▸ rfl
    · exfalso; apply hnd'.1
      rw [← e1]; exact List.mem_map.2 ⟨_, e2, rfl⟩
    · exfalso; apply hnd'.1
      rw [← e2]; exact List.mem_map.2 ⟨_, e1, rfl⟩
    · exact ih hnd'.2 q b b' e1 e2

/-- with the collector running, two finalisation loops over the same reclaimed objects, listed in any two orders, leave
    ledgers with the same members -/
theorem absFinLoop_members_le (K : Nat → List Nat) (C : Ledger) (o1 o2 : List Nat) (hC : (keys C).Nodup)
    (hd1 : ∀ p ∈ o1, p ∉ keys C) (h12 : ∀ p, p ∈ o2 → p ∈ o1)
    (a1 a2 : AbsO) (t1 t2 : List Nat)
    (r1 : absFinLoop K true o1.length 0 (C, o1.map some) [] = some (a1, t1))
    (r2 : absFinLoop K true o2.length 0 (C, o2.map some) [] = some (a2, t2)) :
    ∀ x, x ∈ a1.1 → x ∈ a2.1 := by
  have hdisj : ∀ o : List Nat, (∀ p ∈ o, p ∉ keys C) → DisjO (C, o.map some) := by
    intro o ho q hq
    apply ho q
    obtain ⟨w, hw, e⟩ := List.mem_map.1 hq
    cases e; exact hw
  have hd2 : ∀ p ∈ o2, p ∉ keys C := fun p hp => hd1 p (h12 p hp)
  obtain ⟨tl1, e1, s1, z1⟩ := absFinLoop_spec K _ _ _ _ _ _ (hdisj o1 hd1) r1
  obtain ⟨tl2, e2, s2, z2⟩ := absFinLoop_spec K _ _ _ _ _ _ (hdisj o2 hd2) r2
  simp only [List.nil_append] at e1 e2
  subst e1; subst e2
  -- every reclaimed object is finalised
  have hall1 : ∀ p ∈ o1, p ∈ t1 := by
    intro p hp
    rcases s1.struck p (List.mem_map.2 ⟨p, hp, rfl⟩) with h | h
    · exfalso
      obtain ⟨j, hj⟩ := List.mem_iff_getElem?.1 h
      have hlt : j < a1.2.length := by
        rcases Nat.lt_or_ge j a1.2.length with h' | h'
        · exact h'
        · rw [List.getElem?_eq_none h'] at hj; cases hj
      have hlen : a1.2.length = o1.length := by rw [s1.slots.1]; simp
      have := z1 j (Nat.zero_le _) (by omega) (by simp; omega)
      rw [this] at hj; cases hj
    · exact h
  intro x hx
  obtain ⟨q, b⟩ := x
  have hxC : (q, b) ∈ C := s1.sub.subset hx
  apply Classical.byContradiction
  intro hnot
  have hq2 : q ∉ keys a2.1 := by
    intro h
    obtain ⟨w, hw, e⟩ := List.mem_map.1 h
    obtain ⟨q', b'⟩ := w
    simp only at e; subst e
    have := eq_of_nodup_keys C hC q' b b' hxC (s2.sub.subset hw)
    subst this; exact hnot hw
  have hqt2 : q ∈ t2 := s2.removed q (List.mem_map.2 ⟨_, hxC, rfl⟩) hq2
  obtain ⟨z, hz, hv⟩ := s2.reach q hqt2
  have hz2 : z ∈ o2 := by
    obtain ⟨w, hw, e⟩ := List.mem_map.1 hz
    cases e; exact hw
  -- along the path: finalised by the first run as well
  have claim : ∀ v, Via K (· ∈ t2) z v → v ∈ o1 ∨ v ∉ keys a1.1 := by
    intro v hv
    induction hv with
    | refl _ => exact Or.inl (h12 z hz2)
    | @step u v hu hvk hvt ih =>
      have hu1 : u ∈ t1 := by
        rcases ih with h | h
        · exact hall1 u h
        · rcases s2.within u hu.right with e | e | e
          · exact absurd e id
          · exact s1.removed u e h
          · obtain ⟨w, hw, e'⟩ := List.mem_map.1 e
            cases e'; exact hall1 u (h12 u hw)
      exact Or.inr (s1.closed u hu1 v hvk)
  rcases claim q hv with h | h
  · exact hd1 q h (List.mem_map.2 ⟨_, hxC, rfl⟩)
  · exact h (List.mem_map.2 ⟨_, hx, rfl⟩)

/-! ### the collector stopped: nested removals are ignored, the ledger is untouched -/

theorem absExecO_stopped (K : Nat → List Nat) :
    ∀ (fuel : Nat) (a : AbsO) (cmd : Cmd) (a' : AbsO) (t : List Nat), absExecO K false fuel a cmd = some (a', t) → a' = a := by
  intro fuel
  induction fuel with
  | zero => intro a cmd a' t h; simp [absExecO] at h
  | succ fuel ih =>
    intro a cmd a' t h
    cases cmd with
    | rem x =>
      simp only [absExecO, Bool.not_false, if_true, Option.some.injEq, Prod.mk.injEq] at h
      exact h.1.symm
    | fin p =>
      rw [absExecO_fin_succ] at h
      have hfold : ∀ (l : List Nat) (a1 : AbsO) (t1 : List Nat) (a2 : AbsO) (t2 : List Nat),
          l.foldl (foldRem K false fuel) (some (a1, t1)) = some (a2, t2) → a2 = a1 := by
        intro l
        induction l with
        | nil =>
          intro a1 t1 a2 t2 hf
          simp only [List.foldl_nil, Option.some.injEq, Prod.mk.injEq] at hf
          exact hf.1.symm
        | cons z l ihl =>
          intro a1 t1 a2 t2 hf
          rw [List.foldl_cons] at hf
          cases hz : absExecO K false fuel a1 (.rem z) with
          | none =>
            have : foldRem K false fuel (some (a1, t1)) z = none := by simp [foldRem, hz]
            rw [this, foldl_foldRem_none] at hf
            cases hf
          | some res =>
            obtain ⟨am, tm⟩ := res
            have : foldRem K false fuel (some (a1, t1)) z = some (am, t1 ++ tm) := by simp [foldRem, hz]
            rw [this] at hf
            have e1 := ih a1 (.rem z) am tm hz
            have e2 := ihl am (t1 ++ tm) a2 t2 hf
            rw [e2, e1]
      cases hf : (K p).foldl (foldRem K false fuel) (some (a, [])) with
      | none => rw [hf] at h; cases h
      | some res =>
        obtain ⟨a2, t2⟩ := res
        rw [hf] at h
        simp only [Option.some.injEq, Prod.mk.injEq] at h
        rw [← h.1]; exact hfold _ _ _ _ _ hf

theorem absFinLoop_stopped (K : Nat → List Nat) :
    ∀ (todo i : Nat) (a : AbsO) (t : List Nat) (a' : AbsO) (t' : List Nat),
      absFinLoop K false todo i a t = some (a', t') → a'.1 = a.1 := by
  intro todo
  induction todo with
  | zero =>
    intro i a t a' t' h
    simp only [absFinLoop, Option.some.injEq, Prod.mk.injEq] at h
    rw [← h.1]
  | succ todo ih =>
    intro i a t a' t' h
    rw [absFinLoop_succ] at h
    cases hgi : a.2[i]? with
    | none => rw [hgi] at h; exact ih _ _ _ _ _ h
    | some o =>
      cases o with
      | none => rw [hgi] at h; exact ih _ _ _ _ _ h
      | some p =>
        rw [hgi] at h
        simp only [] at h
        cases hcall : absExecO K false (absFuel (a.1, a.2.set i none) + 1) (a.1, a.2.set i none) (.fin p) with
        | none => rw [hcall] at h; cases h
        | some res =>
          obtain ⟨a2, t2⟩ := res
          rw [hcall] at h
          simp only [] at h
          have e1 := absExecO_stopped K _ _ _ _ _ hcall
          have e2 := ih _ _ _ _ _ h
          rw [e2, e1]

/-! ### the ledger transitions are deterministic up to the order of the ledger -/

theorem order_disj (L : Ledger) (marks : List Nat) (hL : (keys L).Nodup) (order : List Nat)
    (hmem : ∀ p, p ∈ order ↔ ∃ b, (p, b) ∈ L ∧ (p, b) ∉ collectL L marks) : ∀ p ∈ order, p ∉ keys (collectL L marks) := by
  intro p hp hk
  obtain ⟨b, hb, hnb⟩ := (hmem p).1 hp
  obtain ⟨w, hw, e⟩ := List.mem_map.1 hk
  obtain ⟨p', b'⟩ := w
  simp only at e; subst e
  have hwL : (p', b') ∈ L := (List.mem_filter.1 hw).1
  have := eq_of_nodup_keys L hL p' b b' hb hwL
  subst this
  exact hnb hw

theorem collectL_nodup (L : Ledger) (marks : List Nat) (hL : (keys L).Nodup) : (keys (collectL L marks)).Nodup :=
  List.Nodup.sublist (List.Sublist.map _ List.filter_sublist) hL

/-- what a collection leaves is a sub-ledger of what the mark phase kept -/
theorem sweepL_sublist (K : Nat → List Nat) (running : Bool) (L : Ledger) (marks : List Nat) (L' : Ledger) (hL : (keys L).Nodup)
    (h : SweepL K running L marks L') : L'.Sublist (collectL L marks) := by
  obtain ⟨order, a', t, hnd, hmem, hrun, rfl⟩ := h
  cases running with
  | false => rw [absFinLoop_stopped K _ _ _ _ _ _ hrun]; exact List.Sublist.refl _
  | true =>
    have hd : DisjO (collectL L marks, order.map some) := by
      intro q hq
      obtain ⟨w, hw, e⟩ := List.mem_map.1 hq
      cases e
      exact order_disj L marks hL order hmem q hw
    obtain ⟨tl, _, sl, _⟩ := absFinLoop_spec K _ _ _ _ _ _ hd hrun
    exact sl.sub

/-- **the ledger a collection leaves does not depend on the order in which the sweep lists the reclaimed objects** -/
theorem sweepL_members (K : Nat → List Nat) (running : Bool) (L : Ledger) (marks : List Nat) (L1 L2 : Ledger) (hL : (keys L).Nodup)
    (h1 : SweepL K running L marks L1) (h2 : SweepL K running L marks L2) : ∀ x, x ∈ L1 ↔ x ∈ L2 := by
  obtain ⟨o1, a1, t1, _, hm1, hr1, rfl⟩ := h1
  obtain ⟨o2, a2, t2, _, hm2, hr2, rfl⟩ := h2
  cases running with
  | false =>
    intro x
    rw [absFinLoop_stopped K _ _ _ _ _ _ hr1, absFinLoop_stopped K _ _ _ _ _ _ hr2]
  | true =>
    have hC := collectL_nodup L marks hL
    have d1 := order_disj L marks hL o1 hm1
    have d2 := order_disj L marks hL o2 hm2
    have h12 : ∀ p, p ∈ o1 ↔ p ∈ o2 := fun p => (hm1 p).trans (hm2 p).symm
    intro x
    exact ⟨absFinLoop_members_le K _ o1 o2 hC d1 (fun p hp => (h12 p).2 hp) a1 a2 t1 t2 hr1 hr2 x,
           absFinLoop_members_le K _ o2 o1 hC d2 (fun p hp => (h12 p).1 hp) a2 a1 t2 t1 hr2 hr1 x⟩

theorem ledgerK_members (K : Nat → List Nat) (r : Reg) (L : Ledger) (op : Op) (L1 L2 : Ledger) (hL : (keys L).Nodup)
    (hok : okOp L op) (h1 : LedgerK K r L op L1) (h2 : LedgerK K r L op L2) : ∀ x, x ∈ L1 ↔ x ∈ L2 := by
  cases h1 with
  | new_plain p root marks hr hth =>
    cases h2 with
    | new_plain => intro x; rfl
    | new_collect _ _ _ _ _ hth' _ => exact absurd hth' hth
    | new_stopped _ _ _ hr' => rw [hr] at hr'; cases hr'
  | new_collect p root marks L' hr hth hs =>
    cases h2 with
    | new_plain _ _ _ _ hth' => exact absurd hth hth'
    | new_collect _ _ _ _ _ _ hs' =>
      exact sweepL_members K true ((p, root) :: L) marks _ _ (List.nodup_cons.2 ⟨hok.1, hL⟩) hs hs'
    | new_stopped _ _ _ hr' => rw [hr] at hr'; cases hr'
  | new_stopped p root marks hr =>
    cases h2 with
    | new_plain _ _ _ hr' _ => rw [hr] at hr'; cases hr'
    | new_collect _ _ _ _ hr' _ _ => rw [hr] at hr'; cases hr'
    | new_stopped => intro x; rfl
  | newRaw p => cases h2; intro x; rfl
  | del_run p a' t hr ha =>
    cases h2 with
    | del_run _ a'' t' _ ha' => rw [ha] at ha'; cases ha'; intro x; rfl
    | del_stopped _ hr' => rw [hr] at hr'; cases hr'
  | del_stopped p hr =>
    cases h2 with
    | del_run _ _ _ hr' _ => rw [hr] at hr'; cases hr'
    | del_stopped => intro x; rfl
  | delRaw p a' t ha =>
    cases h2 with
    | delRaw _ a'' t' ha' => rw [ha] at ha'; cases ha'; intro x; rfl
  | sweep marks L' hs =>
    cases h2 with
    | sweep _ _ hs' => exact sweepL_members K _ L marks _ _ hL hs hs'
  | stop => cases h2; intro x; rfl
  | start => cases h2; intro x; rfl

theorem ledgerK_nodup (K : Nat → List Nat) (r : Reg) (L : Ledger) (op : Op) (L' : Ledger) (hL : (keys L).Nodup)
    (hok : okOp L op) (h : LedgerK K r L op L') : (keys L').Nodup := by
  cases h with
  | new_plain p root marks _ _ => exact List.nodup_cons.2 ⟨hok.1, hL⟩
  | new_collect p root marks L' _ _ hs =>
    have hL' : (keys ((p, root) :: L)).Nodup := List.nodup_cons.2 ⟨hok.1, hL⟩
    exact List.Nodup.sublist (keys_sublist ((sweepL_sublist K true _ marks _ hL' hs).trans List.filter_sublist)) hL'
  | new_stopped => exact hL
  | newRaw => exact hL
  | del_run p a' t _ ha =>
    obtain ⟨sl, _⟩ := absExecO_spec K _ (L, []) (.rem p) a' t (fun q hq => by simp at hq) ha
    exact List.Nodup.sublist (keys_sublist sl.sub) hL
  | del_stopped => exact hL
  | delRaw p a' t ha =>
    cases hr : r.running with
    | false => rw [hr] at ha; rw [absExecO_stopped K _ _ _ _ _ ha]; exact hL
    | true =>
      rw [hr] at ha
      obtain ⟨_, sl⟩ := absExecO_spec K _ (L, []) (.fin p) a' t (fun q hq => by simp at hq) ha
      exact List.Nodup.sublist (keys_sublist sl.sub) hL
  | sweep marks L' hs =>
    exact List.Nodup.sublist (keys_sublist ((sweepL_sublist K _ L marks _ hL hs).trans List.filter_sublist)) hL
  | stop => exact hL
  | start => exact hL

/-- well-formedness looks at the ledger as a set (plus distinctness of its addresses) -/
theorem WF.congr {c : Cfg} {r : Reg} {L L' : Ledger} (h : WF c r L) (hm : ∀ x, x ∈ L' ↔ x ∈ L) (hnd : (keys L').Nodup) :
    WF c r L' := by
  refine ⟨⟨h.core.inv, ?_⟩, h.count, h.room, ⟨?_, ?_, h.bounded.zero, ?_⟩, hnd, h.pend⟩
  · intro e; rw [h.core.ents e, hm]
  · intro p b hp; exact h.bounded.bounds p b ((hm _).1 hp)
  · intro p b hp; exact h.bounded.aligned p b ((hm _).1 hp)
  · intro p b hp; exact h.bounded.nonnull p b ((hm _).1 hp)

/-- **one operation, destructors `K`, any ledger the abstract transitions allow**: the new state is well formed for it -/
theorem ledgerK_wf (c : Cfg) (g : GoodCfg c) (K : Nat → List Nat) (hK : NullOk c K) (r : Reg) (L : Ledger) (hwf : WF c r L)
    (op : Op) (hok : okOp L op) (r' : Reg) (L' : Ledger) (hstep : stepK c K r op = some r') (hled : LedgerK K r L op L') :
    WF c r' L' := by
  obtain ⟨r'', L'', h1, h2, h3⟩ := stepK_wf c g K hK r L hwf op hok
  rw [hstep] at h1
  cases h1
  exact h3.congr (ledgerK_members K r L op L' L'' hwf.nodup hok hled h2) (ledgerK_nodup K r L op L' hwf.nodup hok hled)

/-- every state reached by a history with destructors `K` is well formed for every ledger that explains the history -/
theorem reachK_wf (c : Cfg) (g : GoodCfg c) (K : Nat → List Nat) (hK : NullOk c K) (r : Reg) (L : Ledger) (h : ReachK c K r L) :
    WF c r L := by
  induction h with
  | init => exact wf_init c
  | step _ hok hstep hled ih => exact ledgerK_wf c g K hK _ _ ih _ hok _ _ hstep hled

end Cello.Registry
