import Cello.Fail
/-
  C12: explicit OLD variants of model functions — the code as it was before the `fix:` commits 81e7452 (Range_Get),
  e60e6ec (String_Rem), bc940bb (Table_Get) and 744a45f (String_Assign with the target as operand).  They are not part of the model (the driver never runs them); they exist so that the
  `…_refuted` theorems of Props/C12.lean keep stating, on the original witnesses, what the repaired defects were, next
  to what the current model does on the same inputs.
-/
namespace Cello.Fail

/-- `Range_Get` before fix 81e7452:
    `i = i < 0 ? Range_Len(r)+i : i;  if (step == 0) { x->val = 0; return x; }`
    `if (step > 0 and i >= 0 and (start + step*i) < stop) …  if (step < 0 and i >= 0 and (stop-1 + step*i) >= start) …` —
    step 0 accepted every index; the element was computed *before* it was compared with the end of the range, so that a
    large index overflowed `int64_t` (undefined behaviour, `ub`). -/
def Rng.getOld (r : Rng) (k : Val) : Rng × Res :=
  match cInt k with
  | .ok kb =>
    let i : Int := (if kb.slt 0 then BitVec.ofNat 64 r.len + kb else kb).toInt
    if r.step = 0 then ({ r with scratch := 0 }, .ok (.val (.int 0)))
    else if r.step > 0 then
      if i ≥ 0 then
        if !isI64 (r.step * i) then (r, .ub)
        else if !isI64 (r.start + r.step * i) then (r, .ub)
        else if r.start + r.step * i < r.stop then
          ({ r with scratch := r.start + r.step * i }, .ok (.val (.int (r.start + r.step * i))))
        else (r, .raised .IndexOutOfBoundsError)
      else (r, .raised .IndexOutOfBoundsError)
    else
      if i ≥ 0 then
        if !isI64 (r.step * i) then (r, .ub)
        else if !isI64 (r.stop - 1 + r.step * i) then (r, .ub)
        else if r.stop - 1 + r.step * i ≥ r.start then
          ({ r with scratch := r.stop - 1 + r.step * i }, .ok (.val (.int (r.stop - 1 + r.step * i))))
        else (r, .raised .IndexOutOfBoundsError)
      else (r, .raised .IndexOutOfBoundsError)
  | .raised e => (r, .raised e)
  | .ub => (r, .ub)

/-- `String_Rem` before fix e60e6ec: `struct C_Str* c = instance(obj, C_Str); if (c and c->c_str) { … }` — an argument
    without `C_Str` was silently ignored -/
def Str.remOld (s : Str) (v : Val) : Str × Res :=
  match v with
  | .null => (s, .raised .ValueError)
  | .str t =>
    match removeFirst t s.s with
    | some r => ({ s with s := r }, .ok .unit)
    | none => (s, .raised .ValueError)
  | .nullstr => (s, .ub)
  | _ => (s, .ok .unit)

/-- `Table_Get` on an address inside the slot array before fix bc940bb:
    `if (key >= t->data and (char*)key < (char*)t->data + t->nslots * Table_Step(self)) {`
    `  return Table_Val(self, (((char*)key) - ((char*)t->data)) / Table_Step(self)); }`
    — *every* address inside the array (the value object of a slot too) returned the value of the slot it lies in, before the
    `cast` that refuses a wrong-typed key and before any lookup -/
def Tab.getSlotOld (t : Tab) (a : SlotArg) : Tab × Res :=
  match a with
  | .key k | .val k =>
    match t.items.lookup k with
    | some v => (t, .ok (.val v))
    | none => (t, .ub)

/-- `assign(s, s)` before fix 744a45f: `c_str(obj)`; the allocation check (a stack / static String raised ValueError — a call
    that asks for no change failed); on the heap `s->val = realloc(s->val, strlen(val) + 1); strcpy(s->val, val);` with `val` the
    pointer into the block just handed to `realloc` — a read through a pointer whose block may have been freed / moved, and an
    overlapping `strcpy`: undefined behaviour -/
def Str.assignSelfOld (s : Str) : Str × Res :=
  if s.alloc.nonHeap then (s, .raised .ValueError) else (s, .ub)

end Cello.Fail
