/-
  Lemmas for C06, part 6: the second layer (`stepX`/`runX`: run-time Type objects, destructors that raise).
-/
import CelloProofs.Lemmas.LifeInv
import CelloProofs.Lemmas.LifeSafe

namespace Cello.Life

/-- `op` declares a destructor that raises -/
def Op.isRaises : Op → Bool
  | .raises _ => true
  | _ => false

/-- no destructor of the history raises (the territory of known finding KF-C06-dtor-raises: a destructor that raises is
    never followed by the `dealloc` of its object, so *every* history in which such a destructor runs violates
    exactly-once for that object at least) -/
def NoRaise (ops : List Op) : Prop := ∀ op ∈ ops, op.isRaises = false

instance (ops : List Op) : Decidable (NoRaise ops) := by unfold NoRaise; infer_instance

/-- state of the second layer after a history -/
def finalX (ops : List Op) : XSt := runX Cfg.current XSt.init ops

theorem stepX_core {c : Cfg} {x : XSt} {op : Op} (hr : x.raises = []) (hop : op.isRaises = false) :
    (stepX c x op).core = step c x.core op ∧ (stepX c x op).raises = [] ∧ (stepX c x op).escaped = x.escaped := by
  cases op with
  | raises a => simp [Op.isRaises] at hop
  | _ => simp [stepX, step, hr]

/-- **for a history without a raising destructor the second layer is the core model** -/
theorem runX_core {c : Cfg} : ∀ (ops : List Op) (x : XSt), x.raises = [] → NoRaise ops →
    (runX c x ops).core = run c x.core ops ∧ (runX c x ops).raises = [] ∧ (runX c x ops).escaped = x.escaped := by
  intro ops
  induction ops with
  | nil => intro x hr _; exact ⟨rfl, hr, rfl⟩
  | cons op ops ih =>
    intro x hr hn
    obtain ⟨h1, h2, h3⟩ := stepX_core (c := c) (x := x) hr (hn op List.mem_cons_self)
    obtain ⟨i1, i2, i3⟩ := ih (stepX c x op) h2 (fun o ho => hn o (List.mem_cons_of_mem _ ho))
    refine ⟨?_, i2, by rw [← h3]; exact i3⟩
    show (runX c (stepX c x op) ops).core = run c (step c x.core op) ops
    rw [i1, h1]

theorem finalX_core (ops : List Op) (hn : NoRaise ops) :
    (finalX ops).core = final ops ∧ (finalX ops).escaped = 0 := by
  obtain ⟨h1, _, h3⟩ := runX_core (c := Cfg.current) ops XSt.init rfl hn
  exact ⟨h1, h3⟩

theorem noRaise_append {ops more : List Op} (h1 : NoRaise ops) (h2 : NoRaise more) : NoRaise (ops ++ more) := by
  intro op hop
  rcases List.mem_append.1 hop with h | h
  · exact h1 op h
  · exact h2 op h

/-- a ledger that releases no declared Type object releases none of them first -/
theorem releasedFirstFrom_false (types : List (Addr × Addr)) : ∀ (log : List Ev) (freed : List Addr),
    (∀ p ∈ types, Ev.free p.2 ∉ log) → releasedFirstFrom freed types log = false := by
  intro log
  induction log with
  | nil => intro _ _; rfl
  | cons e rest ih =>
    intro freed h
    have hrest : ∀ p ∈ types, Ev.free p.2 ∉ rest := fun p hp hm => h p hp (List.mem_cons_of_mem _ hm)
    cases e with
    | fin a => exact ih freed hrest
    | free a =>
      simp only [releasedFirstFrom, Bool.or_eq_false_iff]
      refine ⟨?_, ih _ hrest⟩
      rw [List.any_eq_false]
      intro p hp
      have : p.2 ≠ a := fun he => h p hp (by rw [he]; exact List.mem_cons_self)
      simp [this]

end Cello.Life
