/-
  Lemmas/RBArgs.lean — the second layer of histories (`AOp` / `stepA` / `runA` of Cello/RBTree.lean): `set` / `get` / `mem` /
  `rem` given the tree's OWN key and value objects (what `foreach (k in t)` and `get(t, k)` hand out), assignment from a map
  that is not a Tree, and the odd-count constructor.  Every step on a store of valid trees is defined — in particular
  `String_Assign` is never asked to copy from a buffer it has reallocated, given that it tests `val is s->val` first
  (`g = true`) — gives the observation of the specification and leaves a store of valid trees.
-/
import CelloProofs.Lemmas.RBStore

namespace Cello.RB
open Std
variable {α β : Type} {cmp : α → α → Ordering}

namespace Spec

theorem getKV_none_of_lt (k : α) (B : List (α × β)) (hB : ∀ b ∈ B, cmp b.1 k = .lt) : getKV cmp k B = none := by
  induction B with
  | nil => rfl
  | cons b B ih =>
    obtain ⟨bk, bv⟩ := b
    have : cmp bk k = .lt := hB (bk, bv) (by simp)
    simp [getKV, this, ih (fun b hb => hB b (by simp [hb]))]

theorem getKV_append_lt (k : α) (A B : List (α × β)) (x : α × β) (hx : cmp x.1 k = .lt)
    (hB : ∀ b ∈ B, cmp b.1 k = .lt) : getKV cmp k (A ++ x :: B) = getKV cmp k A := by
  induction A with
  | nil =>
    obtain ⟨xk, xv⟩ := x
    have := getKV_none_of_lt k B hB
    simp_all [getKV]
  | cons a A ih =>
    obtain ⟨ak, av⟩ := a
    simp only [List.cons_append, getKV, ih]

theorem getKV_append_gt (k : α) (A B : List (α × β)) (x : α × β)
    (hA : ∀ a ∈ A, cmp a.1 k = .gt) (hx : cmp x.1 k = .gt) : getKV cmp k (A ++ x :: B) = getKV cmp k B := by
  induction A with
  | nil => obtain ⟨xk, xv⟩ := x; simp_all [getKV]
  | cons a A ih =>
    obtain ⟨ak, av⟩ := a
    have : cmp ak k = .gt := hA (ak, av) (by simp)
    simp only [List.cons_append, getKV, this]
    simpa using ih (fun a ha => hA a (by simp [ha]))

theorem getKV_append_eq (k : α) (A B : List (α × β)) (x : α × β)
    (hA : ∀ a ∈ A, cmp a.1 k = .gt) (hx : cmp x.1 k = .eq) : getKV cmp k (A ++ x :: B) = some x := by
  induction A with
  | nil => obtain ⟨xk, xv⟩ := x; simp_all [getKV]
  | cons a A ih =>
    obtain ⟨ak, av⟩ := a
    have : cmp ak k = .gt := hA (ak, av) (by simp)
    simp only [List.cons_append, getKV, this]
    simpa using ih (fun a ha => hA a (by simp [ha]))

/-- the binding found is a binding of the map, and its key compares equal -/
theorem getKV_mem (k : α) (l : List (α × β)) (e : α × β) (h : getKV cmp k l = some e) : e ∈ l ∧ cmp e.1 k = .eq := by
  induction l with
  | nil => cases h
  | cons a l ih =>
    obtain ⟨ak, av⟩ := a
    simp only [getKV] at h
    split at h
    · cases h; exact ⟨List.mem_cons_self, by assumption⟩
    · exact ⟨List.mem_cons_of_mem _ (ih h).1, (ih h).2⟩

/-- `get` is the value of the binding found -/
theorem get_eq_getKV (k : α) (l : List (α × β)) : get cmp k l = (getKV cmp k l).map Prod.snd := by
  induction l with
  | nil => rfl
  | cons a l ih =>
    obtain ⟨ak, av⟩ := a
    simp only [get, getKV]
    split
    · rfl
    · exact ih

end Spec

/-- the descent finds the binding of the in-order sequence whose key compares equal -/
theorem findKV_eq_getKV [TransCmp cmp] (t : T α β) (k : α) (hd : Desc cmp (toList t)) :
    findKV cmp t k = Spec.getKV cmp k (toList t) := by
  induction t with
  | nil => rfl
  | node c l nk nv r ihl ihr =>
    simp only [toList_node] at hd ⊢
    obtain ⟨hl, hr, hlx, hxr, hlr⟩ := desc_mid hd
    simp only [findKV]
    cases hc : cmp nk k with
    | eq =>
      rw [Spec.getKV_append_eq k _ _ (nk, nv) (fun a ha => TransCmp.gt_of_gt_of_eq (hlx a ha) hc) hc]
    | lt =>
      rw [Spec.getKV_append_lt k _ _ (nk, nv) hc
        (fun b hb => TransCmp.lt_trans (OrientedCmp.lt_of_gt (hxr b hb)) hc)]
      exact ihl hl
    | gt =>
      rw [Spec.getKV_append_gt k _ _ (nk, nv) (fun a ha => TransCmp.gt_trans (hlx a ha) hc) hc]
      exact ihr hr

section
variable [Packed α] [Packed β]

/-- the tree's own objects for a key are the binding the map holds for it -/
theorem entry_eq [TransCmp cmp] (hsrc : SourceOk) (m : Tree α β) (k : α) (h : Valid cmp m) :
    m.entry cmp k = Spec.getKV cmp k m.abs := by
  simp only [Tree.entry, hsrc.orient_get, findKV_eq_getKV m.root k h.ordered, Tree.abs]

/-! ### typing of the second layer -/

def tyStepA (env : Store (Nat × Nat)) : AOp α β → Store (Nat × Nat)
  | .base op => tyStep env op
  | .setA t _ _ => match env.get? t with | none => env | some z => env.put t z
  | .remK t _ => match env.get? t with | none => env | some z => env.put t z
  | .assignMap t ks vs _ => match env.get? t with | none => env | some _ => env.put t (ks, vs)
  | _ => env

/-- key / value objects of the caller have the sizes of the tree's key / value types (`cast` raises otherwise); the tree's own
    objects need no such hypothesis; a foreign map's bindings have the sizes of ITS key / value types -/
def AOp.typed (env : Store (Nat × Nat)) : AOp α β → Prop
  | .base op => op.typed env
  | .setA t ka va => ∀ z, env.get? t = some z →
      (∀ k, ka = .val k → 8 * (Packed.words k).length = z.1) ∧ (∀ v, va = .val v → 8 * (Packed.words v).length = z.2)
  | .assignMap _ ks vs kvs => ∀ e ∈ kvs, Fits (ks, vs) e
  | _ => True

def WellTypedA : Store (Nat × Nat) → List (AOp α β) → Prop
  | _, [] => True
  | env, op :: ops => op.typed env ∧ WellTypedA (tyStepA env op) ops

/-- `set(t, K, V)` with the tree's own objects, given that `String_Assign` returns when asked to copy a String's own characters -/
theorem setArgs_valid [TransCmp cmp] (hsrc : SourceOk) (m : Tree α β) (ka : KArg α) (va : VArg α β) (h : Valid cmp m)
    (hk : ∀ k, ka = .val k → 8 * (Packed.words k).length = m.sizes.1)
    (hv : ∀ v, va = .val v → 8 * (Packed.words v).length = m.sizes.2) :
    ∃ m' o, m.setArgs true cmp ka va = some (m', o) ∧ Spec.setArgs cmp ka va m.abs = (m'.abs, o) ∧
      Valid cmp m' ∧ m'.sizes = m.sizes := by
  -- the key argument
  have key : (∃ key home, m.keyArg cmp ka = some (key, home) ∧ Spec.keyArg cmp m.abs ka = some key ∧
      8 * (Packed.words key).length = m.sizes.1) ∨ (m.keyArg cmp ka = none ∧ Spec.keyArg cmp m.abs ka = none) := by
    cases ka with
    | val k => exact Or.inl ⟨k, none, rfl, rfl, hk k rfl⟩
    | own k =>
      simp only [Tree.keyArg, Spec.keyArg, entry_eq hsrc m k h]
      cases hg : Spec.getKV cmp k m.abs with
      | none => exact Or.inr ⟨rfl, rfl⟩
      | some e => exact Or.inl ⟨e.1, some e.1, rfl, rfl, (h.sized e (Spec.getKV_mem k _ e hg).1).1⟩
  have val : (∃ val home, m.valArg cmp va = some (val, home) ∧ Spec.valArg cmp m.abs va = some val ∧
      8 * (Packed.words val).length = m.sizes.2) ∨ (m.valArg cmp va = none ∧ Spec.valArg cmp m.abs va = none) := by
    cases va with
    | val v => exact Or.inl ⟨v, none, rfl, rfl, hv v rfl⟩
    | own k =>
      simp only [Tree.valArg, Spec.valArg, entry_eq hsrc m k h]
      cases hg : Spec.getKV cmp k m.abs with
      | none => exact Or.inr ⟨rfl, rfl⟩
      | some e => exact Or.inl ⟨e.2, some e.1, rfl, rfl, (h.sized e (Spec.getKV_mem k _ e hg).1).2⟩
  rcases key with ⟨key, kh, k1, k2, k3⟩ | ⟨k1, k2⟩
  · rcases val with ⟨val, vh, v1, v2, v3⟩ | ⟨v1, v2⟩
    · obtain ⟨m', e, v', a, z⟩ := set_valid hsrc m key val h ⟨k3, v3⟩
      refine ⟨m', .done, ?_, ?_, v', z⟩
      · simp only [Tree.setArgs, k1, v1, selfAssignDefined, Bool.true_or, Bool.not_true, Bool.and_false, Bool.or_false,
          Bool.false_eq_true, if_false, e, Option.map_some]
      · simp only [Spec.setArgs, k2, v2, a]
    · exact ⟨m, .err .KeyError, by simp only [Tree.setArgs, k1, v1], by simp only [Spec.setArgs, k2, v2], h, rfl⟩
  · exact ⟨m, .noobj, by simp only [Tree.setArgs, k1], by simp only [Spec.setArgs, k2], h, rfl⟩

variable [LawfulPacked α] [LawfulPacked β]

/-- one step of the second layer -/
theorem stepA_refines [TransCmp cmp] (hsrc : SourceOk) (st : Store (Tree α β)) (op : AOp α β) (hv : AllValid cmp st)
    (hty : op.typed (sizeStore st)) :
    ∃ st' o, stepA true cmp st op = some (st', o) ∧ Spec.stepA cmp (absStore st) op = (absStore st', o) ∧
      AllValid cmp st' ∧ tyStepA (sizeStore st) op = sizeStore st' := by
  cases op with
  | base op => exact step_refines hsrc st op hv hty
  | setA t ka va =>
    simp only [stepA, Spec.stepA, tyStepA, get?_abs, get?_size]
    cases hg : st.get? t with
    | none => exact ⟨st, .noobj, rfl, rfl, hv, rfl⟩
    | some m =>
      have ht := hty m.sizes (by simp [get?_size, hg])
      obtain ⟨m', o, e, a, v', z⟩ := setArgs_valid hsrc m ka va (hv.get hg) ht.1 ht.2
      exact ⟨st.put t m', o, by simp [e], by simp [a, put_abs], hv.put t v', by simp [put_size, z]⟩
  | getK t k =>
    simp only [stepA, Spec.stepA, tyStepA, get?_abs]
    cases hg : st.get? t with
    | none => exact ⟨st, .noobj, rfl, rfl, hv, rfl⟩
    | some m =>
      simp only [Option.map_some, entry_eq hsrc m k (hv.get hg)]
      cases Spec.getKV cmp k m.abs with
      | none => exact ⟨st, .noobj, rfl, rfl, hv, rfl⟩
      | some e =>
        obtain ⟨st', o, h1, h2, h3, h4⟩ := step_refines hsrc st (.get t e.1) hv trivial
        exact ⟨st', o, h1, h2, h3, by simpa [tyStep] using h4⟩
  | memK t k =>
    simp only [stepA, Spec.stepA, tyStepA, get?_abs]
    cases hg : st.get? t with
    | none => exact ⟨st, .noobj, rfl, rfl, hv, rfl⟩
    | some m =>
      simp only [Option.map_some, entry_eq hsrc m k (hv.get hg)]
      cases Spec.getKV cmp k m.abs with
      | none => exact ⟨st, .noobj, rfl, rfl, hv, rfl⟩
      | some e =>
        obtain ⟨st', o, h1, h2, h3, h4⟩ := step_refines hsrc st (.mem t e.1) hv trivial
        exact ⟨st', o, h1, h2, h3, by simpa [tyStep] using h4⟩
  | remK t k =>
    simp only [stepA, Spec.stepA, tyStepA, get?_abs, get?_size]
    cases hg : st.get? t with
    | none => exact ⟨st, .noobj, rfl, rfl, hv, rfl⟩
    | some m =>
      simp only [Option.map_some, entry_eq hsrc m k (hv.get hg)]
      cases Spec.getKV cmp k m.abs with
      | none => exact ⟨st.put t m, .noobj, rfl, by simp [put_abs], hv.put t (hv.get hg), by simp [put_size]⟩
      | some e =>
        obtain ⟨st', o, h1, h2, h3, h4⟩ := step_refines hsrc st (.rem t e.1) hv trivial
        exact ⟨st', o, h1, h2, h3, by simpa [tyStep, get?_size, hg] using h4⟩
  | assignMap t ks vs kvs =>
    simp only [stepA, Spec.stepA, tyStepA, get?_abs, get?_size]
    cases hg : st.get? t with
    | none => exact ⟨st, .noobj, rfl, rfl, hv, rfl⟩
    | some m =>
      obtain ⟨st', o, h1, h2, h3, h4⟩ := step_refines hsrc st (.new t ks vs kvs) hv hty
      exact ⟨st', o, h1, h2, h3, by simpa [tyStep] using h4⟩
  | newOdd t => exact ⟨st, .err .FormatError, rfl, rfl, hv, rfl⟩

/-- whole histories of the second layer -/
theorem runA_refines [TransCmp cmp] (hsrc : SourceOk) (ops : List (AOp α β)) (st : Store (Tree α β)) (hv : AllValid cmp st)
    (hty : WellTypedA (sizeStore st) ops) :
    ∃ st' os, runA true cmp st ops = some (st', os) ∧ Spec.runA cmp (absStore st) ops = (absStore st', os) ∧
      AllValid cmp st' := by
  induction ops generalizing st with
  | nil => exact ⟨st, [], rfl, rfl, hv⟩
  | cons op ops ih =>
    obtain ⟨st1, o, e1, s1, v1, z1⟩ := stepA_refines hsrc st op hv hty.1
    obtain ⟨st2, os, e2, s2, v2⟩ := ih st1 v1 (by rw [← z1]; exact hty.2)
    exact ⟨st2, o :: os, by simp [runA, e1, e2], by simp [Spec.runA, s1, s2], v2⟩

end

end Cello.RB
