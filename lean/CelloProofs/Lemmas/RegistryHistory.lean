/-
  CelloProofs/Lemmas/RegistryHistory.lean — histories of registry operations against the ledger of live managed objects:
  the operations, the ledger they define, reachability, and the induction that every reachable state is well formed.
-/
import Cello.Registry
import CelloProofs.Lemmas.RegistryOps
set_option linter.unusedSectionVars false
set_option linter.unusedVariables false
namespace Cello.Registry
open RH

/-- what a program can do to the collector's registry (plain destructors) -/
inductive Op where
  /-- `alloc` / `alloc_root` of an object at address `p`; if the allocation reaches the collection threshold the mark phase
      reaches the roots and the addresses in `marks` -/
  | new (p : Nat) (root : Bool) (marks : List Nat)
  /-- `alloc_raw`: the collector is not told -/
  | newRaw (p : Nat)
  /-- `del` / `del_root` -/
  | del (p : Nat)
  /-- `del_raw` of an object the collector does not know: `dealloc(destruct(p))` without GC_Rem (what the destructor of `p`
      deletes does go through GC_Rem) -/
  | delRaw (p : Nat)
  /-- a collection whose mark phase reaches the addresses in `marks` (GC_Mark_Item on each, then GC_Sweep) -/
  | sweep (marks : List Nat)
  | stop
  | start

/-- the model's transition -/
def step (c : Cfg) (r : Reg) : Op → Option Reg
  | .new p root marks => (gcSet c noK r p root marks).map (fun x => x.1)
  | .newRaw _ => some r
  | .del p => (gcRem c noK r p).map (fun x => x.1)
  | .delRaw p => (exec c noK (nestFuel r + 1) r (.fin p)).map (fun x => x.1)
  | .sweep marks =>
    match markAll c r marks with
    | none => none
    | some r1 => (gcSweep c noK r1).map (fun x => x.1)
  | .stop => some (gcStop r)
  | .start => some (gcStart r)

/-- a collection keeps the roots and what the mark phase reached -/
def collectL (L : Ledger) (marks : List Nat) : Ledger := L.filter (fun x => x.2 || marks.contains x.1)

/-- the ledger of live managed objects: allocated through the collector while it runs, neither deleted (while it runs) nor
    reclaimed.  *When* an allocation triggers a collection is the implementation's choice (`nitems + 1 > mitems`). -/
def ledgerStep (r : Reg) (L : Ledger) : Op → Ledger
  | .new p root marks =>
    if r.running then (if r.nitems + 1 > r.mitems then collectL ((p, root) :: L) marks else (p, root) :: L) else L
  | .newRaw _ => L
  | .del p => if r.running then L.filter (fun y => y.1 != p) else L
  | .delRaw _ => L
  | .sweep marks => collectL L marks
  | .stop => L
  | .start => L

/-- what `malloc` guarantees: a new object's address is 8-aligned, differs from every live managed object's, and is not
    NULL (GC_Sweep's finalisation loop reads a NULL word as "no object" and GC_Rem_Ptr returns at once for NULL).  Removals
    carry no condition: `del` of any pointer, NULL included, is admissible in every state. -/
def okOp (L : Ledger) : Op → Prop
  | .new p _ _ => p ∉ L.map Prod.fst ∧ p % 8 = 0 ∧ p ≠ 0
  | .delRaw p => p ∉ L.map Prod.fst     -- `del_raw` is for objects allocated with `alloc_raw` / `new_raw`
  | _ => True

/-- the states (with their ledgers) reached by some history from the state GC_New leaves -/
inductive Reach (c : Cfg) : Reg → Ledger → Prop where
  | init : Reach c Reg.init []
  | step {r : Reg} {L : Ledger} {op : Op} {r' : Reg} :
      Reach c r L → okOp L op → step c r op = some r' → Reach c r' (ledgerStep r L op)

theorem wf_running (c : Cfg) (r : Reg) (L : Ledger) (h : WF c r L) (b : Bool) : WF c { r with running := b } L :=
  ⟨h.core.of_slots rfl HEq.rfl, h.count, h.room, ⟨h.bounded.bounds, h.bounded.aligned, h.bounded.zero, h.bounded.nonnull⟩, h.nodup, h.pend⟩

/-- one operation from a well-formed state: the model does not get stuck, and the result is well formed for the new ledger -/
theorem step_wf (c : Cfg) (g : GoodCfg c) (r : Reg) (L : Ledger) (hwf : WF c r L) (op : Op) (hok : okOp L op) :
    ∃ r', step c r op = some r' ∧ WF c r' (ledgerStep r L op) := by
  cases op with
  | new p root marks =>
    cases hrun : r.running with
    | true =>
      obtain ⟨r', t, h1, h2, _⟩ := gcSet_wf c g r L hwf p root marks hrun hok.1 hok.2.1 hok.2.2
      refine ⟨r', by simp only [step, h1, Option.map], ?_⟩
      simp only [ledgerStep, hrun, if_true]
      exact h2
    | false =>
      refine ⟨r, ?_, ?_⟩
      · simp only [step, gcSet, hrun, Bool.not_false, if_true, Option.map]
      · simp only [ledgerStep, hrun]; exact hwf
  | newRaw p => exact ⟨r, rfl, hwf⟩
  | del p =>
    cases hrun : r.running with
    | true =>
      obtain ⟨r', t, h1, h2, _⟩ := gcRem_wf c g r L hwf p hrun
      refine ⟨r', by simp only [step, h1, Option.map], ?_⟩
      simp only [ledgerStep, hrun, if_true]
      exact h2
    | false =>
      refine ⟨r, ?_, ?_⟩
      · have hfuel : nestFuel r = (2 * (r.nitems + r.pending.size) + 3) + 1 := by unfold nestFuel; omega
        simp only [step, gcRem, hfuel, exec_rem_succ, hrun, Bool.not_false, if_true, Option.map]
      · simp only [ledgerStep, hrun]; exact hwf
  | delRaw p => exact ⟨r, by simp only [step, exec_fin_noK, Option.map], hwf⟩
  | sweep marks =>
    obtain ⟨r1, r', t, h1, h2, h3, _⟩ := collect_wf c g r L hwf false marks
    simp only [Bool.false_eq_true, if_false] at h1
    exact ⟨r', by simp only [step, h1, h2, Option.map], h3⟩
  | stop => exact ⟨_, rfl, wf_running c r L hwf false⟩
  | start => exact ⟨_, rfl, wf_running c r L hwf true⟩

theorem reach_wf (c : Cfg) (g : GoodCfg c) (r : Reg) (L : Ledger) (h : Reach c r L) : WF c r L := by
  induction h with
  | init => exact wf_init c
  | step _ hok hstep ih =>
    obtain ⟨r'', h1, h2⟩ := step_wf c g _ _ ih _ hok
    rw [hstep] at h1
    cases h1
    exact h2

end Cello.Registry
