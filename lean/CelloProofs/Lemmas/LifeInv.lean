/-
  Lemmas for C06, part 3: the invariant of histories.
-/
import CelloProofs.Lemmas.LifeFin

namespace Cello.Life

/-- bookkeeping about the program (not part of the collector): what it has allocated, which raw objects it has not yet
    `del_raw`ed, which objects it allocated with `new`/`new_root` while the collector was stopped (never registered: F23) -/
structure Ghost where
  allocd : List Addr
  rawLive : List Addr
  lost : List Addr

def Ghost.init : Ghost := ⟨[], [], []⟩

/-- bookkeeping of an allocation (`new…` or `alloc…`) of identity `a` -/
def galloc (g : Ghost) (s : St) (a : Addr) : Kind → Ghost
  | .raw => { g with allocd := a :: g.allocd, rawLive := a :: g.rawLive }
  | _ => if s.running then { g with allocd := a :: g.allocd } else { g with allocd := a :: g.allocd, lost := a :: g.lost }

def gstep (g : Ghost) (s : St) : Op → Ghost
  | .new a k _ _ _ => galloc g s a k
  | .alloc a k _ _ => galloc g s a k
  | .del a k =>
    match k with
    | .raw => { g with rawLive := g.rawLive.filter (fun x => x != a) }
    | _ => g
  | .dealloc a _ => { g with rawLive := g.rawLive.filter (fun x => x != a) }
  -- the identities a destructor will allocate are reserved: no later allocation may use them
  | .dtor _ l => { g with allocd := l.map (·.addr) ++ g.allocd }
  | _ => g

/-- the program's obligations at one operation: identities are fresh; `del_raw` and `dealloc(destruct(·))` only for a
    raw object that has not been released yet (`dealloc` of a registered object is known finding
    KF-C06-dealloc-registered: it does not unregister) -/
def OpOk (g : Ghost) : Op → Prop
  | .new a _ _ _ _ => a ∉ g.allocd
  | .alloc a _ _ _ => a ∉ g.allocd
  | .del a k => match k with
    | .raw => a ∈ g.rawLive
    | _ => True
  | .dealloc a _ => a ∈ g.rawLive
  | .dtor _ l => (∀ d ∈ l, d.addr ∉ g.allocd) ∧ (l.map (·.addr)).Nodup
  | _ => True

/-- `op` declares a destructor that allocates -/
def Op.isDtor : Op → Bool
  | .dtor _ _ => true
  | _ => false

/-- no object of the history has a destructor that allocates (the territory of known finding KF-C06-dtor-alloc) -/
def NoDtor (ops : List Op) : Prop := ∀ op ∈ ops, op.isDtor = false

instance (ops : List Op) : Decidable (NoDtor ops) := by unfold NoDtor; infer_instance

/-- a history that meets the program's obligations, from ghost `g` and collector state `s` -/
def WF : Ghost → St → List Op → Prop
  | _, _, [] => True
  | g, s, op :: ops => OpOk g op ∧ WF (gstep g s op) (step Cfg.current s op) ops

instance (g : Ghost) (op : Op) : Decidable (OpOk g op) := by
  cases op with
  | new a k o m r => unfold OpOk; infer_instance
  | del a k => cases k <;> (unfold OpOk; infer_instance)
  | collect m r => unfold OpOk; infer_instance
  | own a o => unfold OpOk; infer_instance
  | stop => unfold OpOk; infer_instance
  | start => unfold OpOk; infer_instance
  | teardown r => unfold OpOk; infer_instance
  | alloc a k m r => unfold OpOk; infer_instance
  | dealloc a k => unfold OpOk; infer_instance
  | dtor a l => unfold OpOk; infer_instance
  | markAbort m => unfold OpOk; infer_instance
  | nulldel a => unfold OpOk; infer_instance
  | delNull => unfold OpOk; infer_instance
  | typed b t => unfold OpOk; infer_instance
  | raises a => unfold OpOk; infer_instance

def WF.dec : ∀ (g : Ghost) (s : St) (ops : List Op), Decidable (WF g s ops)
  | _, _, [] => isTrue trivial
  | g, s, op :: ops => by
    unfold WF
    exact @instDecidableAnd _ _ _ (WF.dec _ _ ops)

instance (g : Ghost) (s : St) (ops : List Op) : Decidable (WF g s ops) := WF.dec g s ops

def grun : Ghost → St → List Op → Ghost
  | g, _, [] => g
  | g, s, op :: ops => grun (gstep g s op) (step Cfg.current s op) ops

structure Inv (g : Ghost) (s : St) : Prop where
  pending : s.pending = []
  nodup : s.regAddrs.Nodup
  reg : ∀ a ∈ s.regAddrs, a ∈ g.allocd ∧ a ∉ g.rawLive ∧ a ∉ g.lost ∧ Clean a s.log
  loose : ∀ a, a ∈ g.rawLive ∨ a ∈ g.lost → a ∈ g.allocd ∧ a ∉ s.regAddrs ∧ Clean a s.log
  done : ∀ a ∈ g.allocd, a ∉ s.regAddrs → a ∉ g.rawLive → a ∉ g.lost → Once a s.log
  fresh : ∀ a, a ∉ g.allocd → Clean a s.log
  sep : ∀ a ∈ g.rawLive, a ∉ g.lost
  nodalloc : NoDAlloc s

theorem Inv.init : Inv Ghost.init St.init :=
  ⟨rfl, List.nodup_nil, by simp [St.init, St.regAddrs], by simp [Ghost.init], by simp [Ghost.init],
   fun a _ => Clean.nil a, by simp [Ghost.init], rfl⟩

theorem Inv.congr {g : Ghost} {s s' : St} (h : Inv g s) (hr : s'.reg = s.reg) (hp : s'.pending = s.pending)
    (hl : s'.log = s.log) (hd : s'.dalloc = s.dalloc) : Inv g s' := by
  have hra : s'.regAddrs = s.regAddrs := by unfold St.regAddrs; rw [hr]
  exact ⟨by rw [hp]; exact h.pending, by rw [hra]; exact h.nodup, by rw [hra, hl]; exact h.reg,
    by rw [hra, hl]; exact h.loose, by rw [hra, hl]; exact h.done, by rw [hl]; exact h.fresh, h.sep,
    by unfold NoDAlloc; rw [hd]; exact h.nodalloc⟩

theorem Inv.disj {g : Ghost} {s : St} (h : Inv g s) : Disj s := by
  intro a ha; rw [h.pending] at ha; simp at ha

theorem Inv.tracked {g : Ghost} {s : St} (h : Inv g s) {a : Addr} (ht : Tracked s a) : a ∈ s.regAddrs := by
  rcases ht with ht | ht
  · rw [h.pending] at ht; simp at ht
  · exact ht

theorem nodup_regWithout {D : List Addr} {r : List Entry} (h : (r.map (·.addr)).Nodup) :
    ((regWithout D r).map (·.addr)).Nodup :=
  List.Nodup.sublist (List.Sublist.map _ List.filter_sublist) h

/-- a piece of collector work that finalises registered objects `D0` and, possibly, raw objects `X` the program
    `del_raw`s, keeps the invariant -/
theorem inv_eff_gen {g g' : Ghost} {s s' : St} {D0 D X : List Addr} {E : List Ev}
    (hI : Inv g s) (he : Eff s s' D0 E) (hg : Good D E)
    (hD : ∀ d, d ∈ D ↔ d ∈ D0 ∨ d ∈ X) (hD0 : ∀ d ∈ D0, d ∈ s.regAddrs) (hX : ∀ x ∈ X, x ∈ g.rawLive)
    (ha : g'.allocd = g.allocd) (hl : g'.lost = g.lost) (hr : ∀ a, a ∈ g'.rawLive ↔ a ∈ g.rawLive ∧ a ∉ X) :
    Inv g' s' := by
  have hmem : ∀ a, a ∈ s'.regAddrs ↔ a ∈ s.regAddrs ∧ a ∉ D0 := by
    intro a; unfold St.regAddrs; rw [he.reg]; exact mem_regWithout_addrs
  have hnX : ∀ a, a ∉ g.rawLive → a ∉ X := fun a h hx => h (hX a hx)
  refine ⟨?_, ?_, ?_, ?_, ?_, ?_, ?_, he.nodalloc hI.nodalloc⟩
  · rw [he.pending, hI.pending]; rfl
  · unfold St.regAddrs; rw [he.reg]; exact nodup_regWithout hI.nodup
  · intro a ha'
    obtain ⟨h1, h2⟩ := (hmem a).1 ha'
    obtain ⟨r1, r2, r3, r4⟩ := hI.reg a h1
    refine ⟨by rw [ha]; exact r1, fun h => r2 ((hr a).1 h).1, by rw [hl]; exact r3, ?_⟩
    rw [he.log]
    refine clean_append.2 ⟨r4, hg.clean a ?_⟩
    intro hd
    rcases (hD a).1 hd with h | h
    · exact h2 h
    · exact hnX a r2 h
  · intro a ha'
    have hloose : a ∈ g.rawLive ∨ a ∈ g.lost := by
      rcases ha' with h | h
      · exact Or.inl ((hr a).1 h).1
      · exact Or.inr (by rw [← hl]; exact h)
    obtain ⟨l1, l2, l3⟩ := hI.loose a hloose
    refine ⟨by rw [ha]; exact l1, fun h => l2 ((hmem a).1 h).1, ?_⟩
    rw [he.log]
    refine clean_append.2 ⟨l3, hg.clean a ?_⟩
    intro hd
    rcases (hD a).1 hd with h | h
    · exact l2 (hD0 a h)
    · rcases ha' with h' | h'
      · exact ((hr a).1 h').2 h
      · exact hI.sep a (hX a h) (by rw [← hl]; exact h')
  · intro a ha1 ha2 ha3 ha4
    rw [ha] at ha1
    rw [hl] at ha4
    rw [he.log]
    by_cases hd : a ∈ D
    · have hc : Clean a s.log := by
        rcases (hD a).1 hd with h | h
        · exact (hI.reg a (hD0 a h)).2.2.2
        · exact (hI.loose a (Or.inl (hX a h))).2.2
      exact Once.append_left hc (hg.once a hd)
    · have hd0 : a ∉ D0 := fun h => hd ((hD a).2 (Or.inl h))
      have hx : a ∉ X := fun h => hd ((hD a).2 (Or.inr h))
      have h2 : a ∉ s.regAddrs := fun h => ha2 ((hmem a).2 ⟨h, hd0⟩)
      have h3 : a ∉ g.rawLive := fun h => ha3 ((hr a).2 ⟨h, hx⟩)
      exact (hI.done a ha1 h2 h3 ha4).append_right (hg.clean a hd)
  · intro a ha'
    rw [ha] at ha'
    rw [he.log]
    refine clean_append.2 ⟨hI.fresh a ha', hg.clean a ?_⟩
    intro hd
    rcases (hD a).1 hd with h | h
    · exact ha' (hI.reg a (hD0 a h)).1
    · exact ha' (hI.loose a (Or.inl (hX a h))).1
  · intro a ha'
    rw [hl]
    exact hI.sep a ((hr a).1 ha').1

theorem inv_eff {g : Ghost} {s s' : St} {D : List Addr} {E : List Ev}
    (hI : Inv g s) (he : Eff s s' D E) (hg : Good D E) (hD : ∀ d ∈ D, d ∈ s.regAddrs) : Inv g s' :=
  inv_eff_gen (X := []) hI he hg (by simp) hD (by simp) rfl rfl (by simp)

theorem inv_sweep {g : Ghost} {s : St} (hI : Inv g s) (marks order : List Addr) :
    Inv g (sweep Cfg.current s marks order) ∧
      ∃ D E, Eff s (sweep Cfg.current s marks order) D E ∧ Good D E ∧
        (∀ d ∈ D, d ∈ s.regAddrs) ∧
        (∀ e ∈ s.reg, swept marks e = true → e.addr ∈ D) ∧
        (∀ d ∈ D, ∃ e ∈ s.reg, swept marks e = true ∧ (d = e.addr ∨ ReachT s (· ∈ s.regAddrs) e.addr d)) ∧
        (s.running = true → ∀ d ∈ D, ∀ y ∈ s.ownsOf d, y ∈ s.regAddrs → y ∈ D) := by
  obtain ⟨D, E, he, hg, hD, hsw, hr, hk⟩ := sweep_spec s marks order hI.pending hI.nodup hI.nodalloc
  exact ⟨inv_eff hI he hg hD, D, E, he, hg, hD, hsw, hr, hk⟩

theorem allocBy_raw (c : Cfg) (s : St) (a : Addr) (marks order : List Addr) :
    allocBy c s a .raw marks order = s := rfl

theorem allocBy_stopped (c : Cfg) (s : St) (a : Addr) {k : Kind} (marks order : List Addr)
    (hk : k ≠ .raw) (hr : s.running = false) :
    allocBy c s a k marks order = s := by
  cases k <;> simp_all [allocBy, gcSet]

theorem allocBy_reg_sweep (s : St) (a : Addr) {k : Kind} (marks order : List Addr)
    (hk : k ≠ .raw) (hr : s.running = true) (ht : s.reg.length + 1 > s.mitems) :
    allocBy Cfg.current s a k marks order =
      sweep Cfg.current { s with reg := s.reg ++ [⟨a, k == .root⟩] } marks order := by
  have h' : s.mitems < s.reg.length + 1 := by omega
  cases k with
  | raw => exact absurd rfl hk
  | std => simp [allocBy, gcSet, markBits, hr, h', Cfg.current]
  | root => simp [allocBy, gcSet, markBits, hr, h', Cfg.current]

theorem allocBy_reg_plain (s : St) (a : Addr) {k : Kind} (marks order : List Addr)
    (hk : k ≠ .raw) (hr : s.running = true) (ht : ¬ s.reg.length + 1 > s.mitems) :
    allocBy Cfg.current s a k marks order = { s with reg := s.reg ++ [⟨a, k == .root⟩] } := by
  have h' : ¬ (s.mitems < s.reg.length + 1) := by omega
  cases k with
  | raw => exact absurd rfl hk
  | std => simp [allocBy, gcSet, hr, h', Cfg.current]
  | root => simp [allocBy, gcSet, hr, h', Cfg.current]

/-- `alloc_by` of a fresh identity keeps the invariant (with or without the threshold collection it may run) -/
theorem inv_allocBy {g : Ghost} {s : St} (hI : Inv g s) (a : Addr) (k : Kind) (marks order : List Addr)
    (hok : a ∉ g.allocd) :
    Inv (galloc g s a k) (allocBy Cfg.current s a k marks order) ∧
      (∃ E, (allocBy Cfg.current s a k marks order).log = s.log ++ E) ∧
      (s.running = true → (allocBy Cfg.current s a k marks order).running = true) ∧
      (allocBy Cfg.current s a k marks order).pending = [] := by
  have hfresh : a ∉ g.allocd := hok
  have hareg : a ∉ s.regAddrs := fun h => hfresh (hI.reg a h).1
  -- registration of a fresh identity (new / new_root, collector running)
  have hregd : ∀ (root : Bool), Inv { g with allocd := a :: g.allocd } { s with reg := s.reg ++ [⟨a, root⟩] } := by
    intro root
    have hra : ({ s with reg := s.reg ++ [⟨a, root⟩] } : St).regAddrs = s.regAddrs ++ [a] := by
      simp [St.regAddrs]
    refine ⟨hI.pending, ?_, ?_, ?_, ?_, ?_, hI.sep, hI.nodalloc⟩
    · rw [hra, List.nodup_append]
      refine ⟨hI.nodup, by simp, ?_⟩
      intro x hx y hy hxy
      rw [List.mem_singleton] at hy; subst hy; subst hxy; exact hareg hx
    · intro x hx
      rw [hra, List.mem_append, List.mem_singleton] at hx
      rcases hx with hx | rfl
      · obtain ⟨r1, r2, r3, r4⟩ := hI.reg x hx
        exact ⟨List.mem_cons_of_mem _ r1, r2, r3, r4⟩
      · exact ⟨List.mem_cons_self, fun h => hfresh (hI.loose _ (Or.inl h)).1,
          fun h => hfresh (hI.loose _ (Or.inr h)).1, hI.fresh _ hfresh⟩
    · intro x hx
      obtain ⟨l1, l2, l3⟩ := hI.loose x hx
      refine ⟨List.mem_cons_of_mem _ l1, ?_, l3⟩
      rw [hra, List.mem_append, List.mem_singleton, not_or]
      exact ⟨l2, fun h => hfresh (h ▸ l1)⟩
    · intro x hx h2 h3 h4
      rw [hra, List.mem_append, List.mem_singleton, not_or] at h2
      rcases List.mem_cons.1 hx with rfl | hx
      · exact absurd rfl h2.2
      · exact hI.done x hx h2.1 h3 h4
    · intro x hx
      exact hI.fresh x (fun h => hx (List.mem_cons_of_mem _ h))
  -- an identity that the collector never gets to know (raw, or allocated while stopped)
  have hloose : ∀ (g' : Ghost), g'.allocd = a :: g.allocd →
      (∀ x, x ∈ g'.rawLive ∨ x ∈ g'.lost ↔ x = a ∨ (x ∈ g.rawLive ∨ x ∈ g.lost)) →
      (∀ x ∈ g'.rawLive, x ∉ g'.lost) → Inv g' s := by
    intro g' hal hlo hsep
    refine ⟨hI.pending, hI.nodup, ?_, ?_, ?_, ?_, hsep, hI.nodalloc⟩
    · intro x hx
      obtain ⟨r1, r2, r3, r4⟩ := hI.reg x hx
      have hxa : x ≠ a := fun h => hareg (h ▸ hx)
      refine ⟨by rw [hal]; exact List.mem_cons_of_mem _ r1, ?_, ?_, r4⟩
      · intro h
        rcases (hlo x).1 (Or.inl h) with h | h | h
        · exact hxa h
        · exact r2 h
        · exact r3 h
      · intro h
        rcases (hlo x).1 (Or.inr h) with h | h | h
        · exact hxa h
        · exact r2 h
        · exact r3 h
    · intro x hx
      rcases (hlo x).1 hx with rfl | h
      · exact ⟨by rw [hal]; exact List.mem_cons_self, hareg, hI.fresh _ hfresh⟩
      · obtain ⟨l1, l2, l3⟩ := hI.loose x h
        exact ⟨by rw [hal]; exact List.mem_cons_of_mem _ l1, l2, l3⟩
    · intro x hx h2 h3 h4
      rw [hal] at hx
      rcases List.mem_cons.1 hx with rfl | hx
      · have := (hlo x).2 (Or.inl rfl)
        rcases this with h | h
        · exact absurd h h3
        · exact absurd h h4
      · refine hI.done x hx h2 (fun h => ?_) (fun h => ?_)
        · rcases (hlo x).2 (Or.inr (Or.inl h)) with h' | h'
          · exact h3 h'
          · exact h4 h'
        · rcases (hlo x).2 (Or.inr (Or.inr h)) with h' | h'
          · exact h3 h'
          · exact h4 h'
    · intro x hx
      rw [hal] at hx
      exact hI.fresh x (fun h => hx (List.mem_cons_of_mem _ h))
  -- the registering cases share their proof
  have hregcase : k ≠ .raw →
      Inv (galloc g s a k) (allocBy Cfg.current s a k marks order) ∧
      (∃ E, (allocBy Cfg.current s a k marks order).log = s.log ++ E) ∧
      (s.running = true → (allocBy Cfg.current s a k marks order).running = true) ∧
      (allocBy Cfg.current s a k marks order).pending = [] := by
    intro hk
    by_cases hrun : s.running = true
    · have hg : galloc g s a k = { g with allocd := a :: g.allocd } := by
        cases k <;> simp_all [galloc]
      rw [hg]
      by_cases hthr : s.reg.length + 1 > s.mitems
      · rw [allocBy_reg_sweep _ _ _ _ hk hrun hthr]
        obtain ⟨h1, D, E, he, _⟩ := inv_sweep (hregd (k == .root)) marks order
        exact ⟨h1, ⟨E, he.log⟩, fun _ => by rw [he.running]; exact hrun, h1.pending⟩
      · rw [allocBy_reg_plain _ _ _ _ hk hrun hthr]
        exact ⟨hregd (k == .root), ⟨[], by simp⟩, fun _ => hrun, hI.pending⟩
    · have hrun' : s.running = false := by simpa using hrun
      have hg : galloc g s a k = { g with allocd := a :: g.allocd, lost := a :: g.lost } := by
        cases k <;> simp_all [galloc]
      rw [hg, allocBy_stopped _ _ _ _ _ hk hrun']
      refine ⟨?_, ⟨[], by simp⟩, fun h => absurd h hrun, hI.pending⟩
      refine hloose _ rfl ?_ ?_
      · intro x; simp only [List.mem_cons]
        constructor
        · rintro (h | h | h)
          · exact Or.inr (Or.inl h)
          · exact Or.inl h
          · exact Or.inr (Or.inr h)
        · rintro (h | h | h)
          · exact Or.inr (Or.inl h)
          · exact Or.inl h
          · exact Or.inr (Or.inr h)
      · intro x hx
        simp only [List.mem_cons, not_or]
        exact ⟨fun h => hfresh (h ▸ (hI.loose x (Or.inl hx)).1), hI.sep x hx⟩
  cases k with
  | raw =>
    have hg : galloc g s a .raw = { g with allocd := a :: g.allocd, rawLive := a :: g.rawLive } := rfl
    rw [hg, allocBy_raw]
    refine ⟨?_, ⟨[], by simp⟩, fun h => h, hI.pending⟩
    refine hloose _ rfl ?_ ?_
    · intro x; simp only [List.mem_cons]
      constructor
      · rintro ((h | h) | h)
        · exact Or.inl h
        · exact Or.inr (Or.inl h)
        · exact Or.inr (Or.inr h)
      · rintro (h | h | h)
        · exact Or.inl (Or.inl h)
        · exact Or.inl (Or.inr h)
        · exact Or.inr h
    · intro x hx
      rcases List.mem_cons.1 hx with rfl | hx
      · exact fun h => hfresh (hI.loose _ (Or.inr h)).1
      · exact hI.sep x hx
  | std => exact hregcase (by simp)
  | root => exact hregcase (by simp)

/-- `dealloc(destruct(a))` of a raw object that has not been released yet (`del_raw`, or the program's own `dealloc`) -/
theorem inv_finalise_raw {g : Ghost} {s : St} (hI : Inv g s) (a : Addr) (hraw : a ∈ g.rawLive) :
    Inv { g with rawLive := g.rawLive.filter (fun x => x != a) } (finalise (fuelFor s) Cfg.current s a) ∧
      (∃ E, (finalise (fuelFor s) Cfg.current s a).log = s.log ++ E) ∧
      (s.running = true → (finalise (fuelFor s) Cfg.current s a).running = true) := by
  obtain ⟨D, E, he, hg, ht, _⟩ := finalise_spec (fuelFor s) s a hI.disj hI.nodalloc (mu_lt_fuelFor s)
  have hD0 : ∀ d ∈ D, d ∈ s.regAddrs := fun d hd => hI.tracked (ht d hd)
  have haD : a ∉ D := fun h => (hI.loose a (Or.inl hraw)).2.1 (hD0 a h)
  refine ⟨?_, ⟨_, he.log⟩, fun hr => by rw [he.running, hr]⟩
  refine inv_eff_gen (X := [a]) (D := a :: D) hI he (hg.bracket haD) ?_ hD0 ?_ rfl rfl ?_
  · intro d; simp only [List.mem_cons, List.not_mem_nil, or_false]; exact Or.comm
  · intro x hx; rw [List.mem_singleton] at hx; subst hx; exact hraw
  · intro x
    show x ∈ g.rawLive.filter (fun y => y != a) ↔ _
    simp [List.mem_filter]

/-- every operation of a well-formed history in which no destructor allocates keeps the invariant, only appends to the
    ledger, and changes `running` only if it is `stop`/`start` -/
theorem inv_step {g : Ghost} {s : St} (hI : Inv g s) (op : Op) (hok : OpOk g op) (hnd : op.isDtor = false) :
    Inv (gstep g s op) (step Cfg.current s op) ∧ (∃ E, (step Cfg.current s op).log = s.log ++ E) ∧
      (op ≠ .stop → s.running = true → (step Cfg.current s op).running = true) := by
  cases op with
  | stop =>
    refine ⟨hI.congr rfl rfl rfl rfl, ⟨[], by simp [step]⟩, fun h => absurd rfl h⟩
  | start =>
    refine ⟨hI.congr rfl rfl rfl rfl, ⟨[], by simp [step]⟩, fun _ _ => rfl⟩
  | own a owned =>
    refine ⟨hI.congr rfl rfl rfl rfl, ⟨[], by simp [step]⟩, fun _ h => h⟩
  | dtor a l => exact absurd hnd (by simp [Op.isDtor])
  | markAbort marks =>
    refine ⟨hI.congr rfl rfl rfl rfl, ⟨[], by simp [step]⟩, fun _ h => h⟩
  | nulldel a =>
    refine ⟨hI.congr rfl rfl rfl rfl, ⟨[], by simp [step]⟩, fun _ h => h⟩
  | typed b t =>
    refine ⟨hI.congr rfl rfl rfl rfl, ⟨[], by simp [step]⟩, fun _ h => h⟩
  | raises a =>
    refine ⟨hI.congr rfl rfl rfl rfl, ⟨[], by simp [step]⟩, fun _ h => h⟩
  | delNull =>
    obtain ⟨h1, h2, h3, _, h5, h6, _⟩ := gcRemNull_fields Cfg.current s
    exact ⟨hI.congr h1 h2 h5 h6, ⟨[], by show (gcRemNull Cfg.current s).log = _; simp [h5]⟩,
      fun _ hr => by show (gcRemNull Cfg.current s).running = true; rw [h3, hr]⟩
  | collect marks order =>
    obtain ⟨h1, D, E, he, _⟩ := inv_sweep hI marks order
    exact ⟨h1, ⟨E, he.log⟩, fun _ hr => by show (sweep Cfg.current s marks order).running = true; rw [he.running, hr]⟩
  | teardown order =>
    obtain ⟨h1, D, E, he, _⟩ := inv_sweep hI [] order
    exact ⟨h1, ⟨E, he.log⟩, fun _ hr => by show (sweep Cfg.current s [] order).running = true; rw [he.running, hr]⟩
  | dealloc a k =>
    obtain ⟨h1, h2, h3⟩ := inv_finalise_raw hI a hok
    exact ⟨h1, h2, fun _ => h3⟩
  | del a k =>
    cases k with
    | raw =>
      obtain ⟨h1, h2, h3⟩ := inv_finalise_raw hI a hok
      exact ⟨h1, h2, fun _ => h3⟩
    | std =>
      have hfin : ∀ s1 b, Disj s1 → NoDAlloc s1 → mu s1 < fuelFor s → FinSpec s1 b (finalise (fuelFor s) Cfg.current s1 b) :=
        fun s1 b hd hn hm => finalise_spec (fuelFor s) s1 b hd hn hm
      obtain ⟨D, E, he, hg, ht, _⟩ := gcRem_spec hfin s a hI.disj hI.nodalloc (Nat.le_of_lt (mu_lt_fuelFor s))
      exact ⟨inv_eff hI he hg (fun d hd => hI.tracked (ht d hd)), ⟨E, he.log⟩,
        fun _ hr => by show (gcRem _ _ _ _).running = true; rw [he.running, hr]⟩
    | root =>
      have hfin : ∀ s1 b, Disj s1 → NoDAlloc s1 → mu s1 < fuelFor s → FinSpec s1 b (finalise (fuelFor s) Cfg.current s1 b) :=
        fun s1 b hd hn hm => finalise_spec (fuelFor s) s1 b hd hn hm
      obtain ⟨D, E, he, hg, ht, _⟩ := gcRem_spec hfin s a hI.disj hI.nodalloc (Nat.le_of_lt (mu_lt_fuelFor s))
      exact ⟨inv_eff hI he hg (fun d hd => hI.tracked (ht d hd)), ⟨E, he.log⟩,
        fun _ hr => by show (gcRem _ _ _ _).running = true; rw [he.running, hr]⟩
  | alloc a k marks order =>
    obtain ⟨h1, h2, h3, _⟩ := inv_allocBy hI a k marks order hok
    exact ⟨h1, h2, fun _ => h3⟩
  | new a k owned marks order =>
    obtain ⟨h1, ⟨E, h2⟩, h3, _⟩ := inv_allocBy hI a k marks order hok
    exact ⟨h1.congr rfl rfl rfl rfl, ⟨E, h2⟩, fun _ => h3⟩

/-- `del`/`del_root` of a registered object with the collector running: the object and everything registered that its
    destructor deletes are finalised exactly once, now, and leave the registry -/
theorem gcRem_registered {g : Ghost} {s : St} (hI : Inv g s) (b : Addr) (hrun : s.running = true) (hb : b ∈ s.regAddrs) :
    Once b (gcRem (finalise (fuelFor s) Cfg.current) Cfg.current s b).log ∧
    b ∉ (gcRem (finalise (fuelFor s) Cfg.current) Cfg.current s b).regAddrs ∧
    ∀ x ∈ s.ownsOf b, x ∈ s.regAddrs →
      Once x (gcRem (finalise (fuelFor s) Cfg.current) Cfg.current s b).log ∧
      x ∉ (gcRem (finalise (fuelFor s) Cfg.current) Cfg.current s b).regAddrs := by
  have hp : s.pending.contains (some b) = false := by rw [hI.pending]; rfl
  have hg := isReg_of_mem_regAddrs hb
  generalize hs1 : ({ s with reg := eraseReg b s.reg } : St) = s1
  have he : Eff s s1 [b] [] := by
    rw [← hs1]
    refine ⟨by simp [eraseReg_eq], ?_, rfl, rfl, by simp, rfl⟩
    show s.pending = strikeAll [b] s.pending
    rw [hI.pending]; rfl
  have hlt : mu s1 < fuelFor s := Nat.lt_of_le_of_lt he.mu_le (mu_lt_fuelFor _)
  obtain ⟨D, E, heff, hgood, htr, _, hcompl, _⟩ :=
    finalise_spec (fuelFor s) s1 b (he.disj hI.disj) (he.nodalloc hI.nodalloc) hlt
  have hbD : b ∉ D := fun hd => ((he.tracked b).1 (htr b hd)).2 (List.mem_singleton.2 rfl)
  have hres : gcRem (finalise (fuelFor s) Cfg.current) Cfg.current s b =
      { finalise (fuelFor s) Cfg.current s1 b with
        mitems := threshold (finalise (fuelFor s) Cfg.current s1 b).reg.length } := by
    rw [← hs1]
    unfold gcRem gcRemPtr
    simp only [hrun, hp, hg, Bool.not_true, Bool.false_eq_true, if_false, if_true]
  rw [hres]
  have hall := he.trans heff
  have hgoodb := hgood.bracket hbD
  have hmemreg : ∀ a, a ∈ (finalise (fuelFor s) Cfg.current s1 b).regAddrs ↔ a ∈ s.regAddrs ∧ a ∉ [b] ++ D := by
    intro a; unfold St.regAddrs; rw [hall.reg]; exact mem_regWithout_addrs
  have honce : ∀ d ∈ b :: D, d ∈ s.regAddrs → Once d (finalise (fuelFor s) Cfg.current s1 b).log := by
    intro d hd hdreg
    rw [hall.log]
    exact Once.append_left (hI.reg d hdreg).2.2.2 (by simpa using hgoodb.once d hd)
  have hown : s1.ownsOf b = s.ownsOf b := St.ownsOf_congr he.owns b
  have hrun1 : s1.running = true := by rw [he.running]; exact hrun
  refine ⟨honce b List.mem_cons_self hb, ?_, ?_⟩
  · intro hc
    exact ((hmemreg b).1 hc).2 (by simp)
  · intro x hx hxreg
    by_cases hxb : x = b
    · subst hxb
      exact ⟨honce x List.mem_cons_self hb, fun hc => ((hmemreg x).1 hc).2 (by simp)⟩
    · have hxD : x ∈ D := by
        apply hcompl hrun1 x (by rw [hown]; exact hx)
        exact (he.tracked x).2 ⟨Or.inr hxreg, by simpa using hxb⟩
      exact ⟨honce x (List.mem_cons_of_mem _ hxD) hxreg, fun hc => ((hmemreg x).1 hc).2 (by simp [hxD])⟩

/-- the invariant holds after every well-formed history -/
theorem NoDtor.head {op : Op} {ops : List Op} (h : NoDtor (op :: ops)) : op.isDtor = false :=
  h op List.mem_cons_self

theorem NoDtor.tail {op : Op} {ops : List Op} (h : NoDtor (op :: ops)) : NoDtor ops :=
  fun o ho => h o (List.mem_cons_of_mem _ ho)

theorem NoDtor.append {a b : List Op} : NoDtor (a ++ b) ↔ NoDtor a ∧ NoDtor b := by
  unfold NoDtor
  constructor
  · intro h; exact ⟨fun o ho => h o (List.mem_append_left _ ho), fun o ho => h o (List.mem_append_right _ ho)⟩
  · rintro ⟨h1, h2⟩ o ho
    rcases List.mem_append.1 ho with ho | ho
    · exact h1 o ho
    · exact h2 o ho

theorem inv_run : ∀ (ops : List Op) (g : Ghost) (s : St), Inv g s → WF g s ops → NoDtor ops →
    Inv (grun g s ops) (run Cfg.current s ops) := by
  intro ops
  induction ops with
  | nil => intro g s h _ _; exact h
  | cons op ops ih =>
    intro g s h hw hnd
    exact ih _ _ (inv_step h op hw.1 hnd.head).1 hw.2 hnd.tail

theorem run_append (c : Cfg) (s : St) (a b : List Op) : run c s (a ++ b) = run c (run c s a) b := by
  unfold run; rw [List.foldl_append]

theorem wf_append : ∀ (a b : List Op) (g : Ghost) (s : St),
    WF g s (a ++ b) ↔ WF g s a ∧ WF (grun g s a) (run Cfg.current s a) b := by
  intro a
  induction a with
  | nil => intro b g s; simp [WF, grun, run]
  | cons op a ih =>
    intro b g s
    simp only [List.cons_append, WF, grun]
    rw [ih]
    simp only [run, List.foldl_cons, and_assoc]

theorem grun_append : ∀ (a b : List Op) (g : Ghost) (s : St),
    grun g s (a ++ b) = grun (grun g s a) (run Cfg.current s a) b := by
  intro a
  induction a with
  | nil => intro b g s; simp [grun, run]
  | cons op a ih => intro b g s; simp only [List.cons_append, grun]; rw [ih]; simp [run]

/-- `running` stays true along a history without `stop`, and then nothing is ever lost -/
theorem running_run : ∀ (ops : List Op) (g : Ghost) (s : St), Inv g s → WF g s ops → NoDtor ops →
    (∀ op ∈ ops, op ≠ Op.stop) → s.running = true → g.lost = [] →
    (run Cfg.current s ops).running = true ∧ (grun g s ops).lost = [] := by
  intro ops
  induction ops with
  | nil => intro g s _ _ _ _ hr hl; exact ⟨hr, hl⟩
  | cons op ops ih =>
    intro g s h hw hnd hns hr hl
    obtain ⟨h1, _, h3⟩ := inv_step h op hw.1 hnd.head
    have hl' : (gstep g s op).lost = [] := by
      cases op with
      | new a k owned marks order => cases k <;> simp [gstep, galloc, hr, hl]
      | alloc a k marks order => cases k <;> simp [gstep, galloc, hr, hl]
      | del a k => cases k <;> simp [gstep, hl]
      | _ => simpa [gstep] using hl
    exact ih _ _ h1 hw.2 hnd.tail (fun o ho => hns o (List.mem_cons_of_mem _ ho))
      (h3 (hns op List.mem_cons_self) hr) hl'

theorem allocd_galloc (g : Ghost) (s : St) (b : Addr) (k : Kind) {a : Addr} (h : a = b ∨ a ∈ g.allocd) :
    a ∈ (galloc g s b k).allocd := by
  have : a ∈ b :: g.allocd := List.mem_cons.2 h
  cases k with
  | raw => exact this
  | std => simp only [galloc]; split <;> exact this
  | root => simp only [galloc]; split <;> exact this

theorem allocd_mono_step (g : Ghost) (s : St) (op : Op) {a : Addr} (h : a ∈ g.allocd) : a ∈ (gstep g s op).allocd := by
  cases op with
  | new b k owned marks order => exact allocd_galloc g s b k (Or.inr h)
  | alloc b k marks order => exact allocd_galloc g s b k (Or.inr h)
  | del b k => cases k <;> simp [gstep, h]
  | dtor b l => exact List.mem_append_right _ h
  | _ => simpa [gstep] using h

theorem allocd_mono : ∀ (ops : List Op) (g : Ghost) (s : St) {a : Addr}, a ∈ g.allocd → a ∈ (grun g s ops).allocd := by
  intro ops
  induction ops with
  | nil => intro g s a h; exact h
  | cons op ops ih => intro g s a h; exact ih _ _ (allocd_mono_step g s op h)

/-- every identity a `new` of the history creates is recorded as allocated -/
theorem allocd_of_new : ∀ (ops : List Op) (g : Ghost) (s : St) {a : Addr} {k : Kind} {owned marks order : List Addr},
    Op.new a k owned marks order ∈ ops → a ∈ (grun g s ops).allocd := by
  intro ops
  induction ops with
  | nil => intro g s a k owned marks order h; simp at h
  | cons op ops ih =>
    intro g s a k owned marks order h
    rcases List.mem_cons.1 h with h | h
    · subst h
      simp only [grun]
      apply allocd_mono
      exact allocd_galloc g s a k (Or.inl rfl)
    · exact ih _ _ h

theorem allocd_of_alloc : ∀ (ops : List Op) (g : Ghost) (s : St) {a : Addr} {k : Kind} {marks order : List Addr},
    Op.alloc a k marks order ∈ ops → a ∈ (grun g s ops).allocd := by
  intro ops
  induction ops with
  | nil => intro g s a k marks order h; simp at h
  | cons op ops ih =>
    intro g s a k marks order h
    rcases List.mem_cons.1 h with h | h
    · subst h
      simp only [grun]
      apply allocd_mono
      exact allocd_galloc g s a k (Or.inl rfl)
    · exact ih _ _ h

/-- a history run by a fresh collector meets the program's obligations -/
def WellFormed (ops : List Op) : Prop := WF Ghost.init St.init ops

instance (ops : List Op) : Decidable (WellFormed ops) := by unfold WellFormed; infer_instance

/-- collector state after the history -/
def final (ops : List Op) : St := run Cfg.current St.init ops

/-- program-side bookkeeping after the history: identities allocated, raw objects not yet `del_raw`ed, objects
    allocated with `new`/`new_root` while the collector was stopped -/
def ghost (ops : List Op) : Ghost := grun Ghost.init St.init ops

theorem inv_final (ops : List Op) (h : WellFormed ops) (hnd : NoDtor ops) : Inv (ghost ops) (final ops) :=
  inv_run ops _ _ Inv.init h hnd

/-- `dealloc(destruct(a))` by the program — as `del_raw` (`op = .del a .raw`) or spelled out (`op = .dealloc a k`) — of a
    raw object it has not released yet -/
theorem release_raw_now (ops : List Op) (h : WellFormed ops) (hnd : NoDtor ops) (a : Addr) (ha : a ∈ (ghost ops).rawLive)
    (op : Op) (hop : op = .del a .raw ∨ ∃ k, op = .dealloc a k) :
    Once a (final (ops ++ [op])).log := by
  have hok : OpOk (ghost ops) op := by rcases hop with rfl | ⟨k, rfl⟩ <;> exact ha
  have hdt : op.isDtor = false := by rcases hop with rfl | ⟨k, rfl⟩ <;> rfl
  have hst : step Cfg.current (final ops) op = finalise (fuelFor (final ops)) Cfg.current (final ops) a := by
    rcases hop with rfl | ⟨k, rfl⟩ <;> rfl
  have hgs : gstep (ghost ops) (final ops) op =
      { ghost ops with rawLive := (ghost ops).rawLive.filter (fun x => x != a) } := by
    rcases hop with rfl | ⟨k, rfl⟩ <;> rfl
  have hw : WellFormed (ops ++ [op]) := by
    unfold WellFormed
    rw [wf_append]
    exact ⟨h, hok, trivial⟩
  have hnd' : NoDtor (ops ++ [op]) := NoDtor.append.2 ⟨hnd, fun o ho => by rw [List.mem_singleton] at ho; rw [ho]; exact hdt⟩
  have hI := inv_final _ hw hnd'
  have hI0 := inv_final ops h hnd
  have hgh : ghost (ops ++ [op]) = gstep (ghost ops) (final ops) op := by
    unfold ghost final; rw [grun_append]; rfl
  have hs' : final (ops ++ [op]) = finalise (fuelFor (final ops)) Cfg.current (final ops) a := by
    unfold final; rw [run_append]; exact hst
  have hal : a ∈ (ghost (ops ++ [op])).allocd := by
    rw [hgh, hgs]; exact (hI0.loose a (Or.inl ha)).1
  have hnr : a ∉ (ghost (ops ++ [op])).rawLive := by
    rw [hgh, hgs]; simp
  have hnl : a ∉ (ghost (ops ++ [op])).lost := by
    rw [hgh, hgs]; exact hI0.sep a ha
  have hreg : a ∉ (final (ops ++ [op])).regAddrs := by
    obtain ⟨D, E, he, _⟩ := finalise_spec (fuelFor (final ops)) (final ops) a hI0.disj hI0.nodalloc (mu_lt_fuelFor _)
    rw [hs']
    unfold St.regAddrs
    rw [he.reg]
    intro hc
    exact (hI0.loose a (Or.inl ha)).2.1 (mem_regWithout_addrs.1 hc).1
  exact hI.done a hal hreg hnr hnl

end Cello.Life
