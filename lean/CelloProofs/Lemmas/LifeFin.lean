/-
  Lemmas for C06, part 2: what `finalise` (a destructor cascade), `gcRem` (`del`) and `sweep` (`GC_Sweep`) do,
  for the code that exists (`Cfg.current`).
-/
import CelloProofs.Lemmas.LifeBasic

namespace Cello.Life

/-- the objects `D` finalised by a piece of work whose events are `E`: each exactly once, nothing else touched -/
structure Good (D : List Addr) (E : List Ev) : Prop where
  nodup : D.Nodup
  once : ∀ d ∈ D, Once d E
  clean : ∀ b, b ∉ D → Clean b E

theorem Good.nil : Good [] [] :=
  ⟨List.nodup_nil, by simp, fun b _ => Clean.nil b⟩

theorem Good.append {D1 D2 : List Addr} {E1 E2 : List Ev} (h1 : Good D1 E1) (h2 : Good D2 E2)
    (hdis : ∀ d ∈ D2, d ∉ D1) : Good (D1 ++ D2) (E1 ++ E2) := by
  refine ⟨?_, ?_, ?_⟩
  · rw [List.nodup_append]
    refine ⟨h1.nodup, h2.nodup, ?_⟩
    intro a ha b hb hab
    subst hab
    exact hdis a hb ha
  · intro d hd
    rcases List.mem_append.1 hd with hd | hd
    · have : d ∉ D2 := fun h => hdis d h hd
      exact (h1.once d hd).append_right (h2.clean d this)
    · exact Once.append_left (h1.clean d (hdis d hd)) (h2.once d hd)
  · intro b hb
    rw [List.mem_append, not_or] at hb
    exact clean_append.2 ⟨h1.clean b hb.1, h2.clean b hb.2⟩

theorem Good.bracket {D : List Addr} {E : List Ev} {x : Addr} (h : Good D E) (hx : x ∉ D) :
    Good (x :: D) (Ev.fin x :: (E ++ [Ev.free x])) := by
  refine ⟨List.nodup_cons.2 ⟨hx, h.nodup⟩, ?_, ?_⟩
  · intro d hd
    rcases List.mem_cons.1 hd with rfl | hd
    · exact once_bracket (h.clean _ hx)
    · have : d ≠ x := fun e => hx (e ▸ hd)
      exact (h.once d hd).bracket this
  · intro b hb
    rw [List.mem_cons, not_or] at hb
    exact clean_bracket hb.1 (h.clean b hb.2)

/-- `x` is reached from `a` through ownership links whose targets all satisfy `T` (in the specifications below:
    are tracked by the collector when the work starts — a destructor's `del` of an untracked object goes no further) -/
inductive ReachT (s : St) (T : Addr → Prop) : Addr → Addr → Prop where
  | base {a x : Addr} : x ∈ s.ownsOf a → T x → ReachT s T a x
  | step {a b x : Addr} : ReachT s T a b → x ∈ s.ownsOf b → T x → ReachT s T a x

theorem ReachT.toReach {s : St} {T : Addr → Prop} {a x : Addr} (r : ReachT s T a x) : Reach s a x := by
  induction r with
  | base hx _ => exact Reach.base hx
  | step _ hx _ ih => exact Reach.step ih hx

theorem ReachT.congr_mono {s s' : St} {T T' : Addr → Prop} (h : s'.owns = s.owns) (hT : ∀ a, T' a → T a) {a x : Addr}
    (r : ReachT s' T' a x) : ReachT s T a x := by
  induction r with
  | base hx ht => exact ReachT.base (by rwa [St.ownsOf_congr h] at hx) (hT _ ht)
  | step _ hx ht ih => exact ReachT.step ih (by rwa [St.ownsOf_congr h] at hx) (hT _ ht)

theorem ReachT.head {s : St} {T : Addr → Prop} {a b x : Addr} (hb : b ∈ s.ownsOf a) (tb : T b) (r : ReachT s T b x) :
    ReachT s T a x := by
  induction r with
  | base hx ht => exact ReachT.step (ReachT.base hb tb) hx ht
  | step _ hx ht ih => exact ReachT.step ih hx ht

theorem ReachT.target {s : St} {T : Addr → Prop} {a x : Addr} (r : ReachT s T a x) : T x := by
  cases r with
  | base _ ht => exact ht
  | step _ _ ht => exact ht

theorem regWithout_of_not_mem {D : List Addr} {r : List Entry} (h : ∀ d ∈ D, d ∉ r.map (·.addr)) :
    regWithout D r = r := by
  unfold regWithout
  rw [List.filter_eq_self]
  intro e he
  simp only [decide_eq_true_eq]
  intro hd
  exact h _ hd (List.mem_map.2 ⟨e, he, rfl⟩)

theorem strikeAll_of_not_mem {D : List Addr} {p : List (Option Addr)} (h : ∀ d ∈ D, some d ∉ p) :
    strikeAll D p = p := by
  unfold strikeAll
  conv => rhs; rw [← List.map_id p]
  apply List.map_congr_left
  intro o ho
  cases o with
  | none => simp
  | some y =>
    have : y ∉ D := fun hy => h y hy ho
    simp [this]

theorem Eff.set_mitems {s s' : St} {D : List Addr} {E : List Ev} (h : Eff s s' D E) (m : Nat) :
    Eff s { s' with mitems := m } D E :=
  ⟨h.reg, h.pending, h.running, h.owns, h.log, h.dalloc⟩

theorem Eff.log_only (s : St) (E : List Ev) : Eff s { s with log := s.log ++ E } [] E :=
  ⟨(regWithout_nil _).symm, (strikeAll_nil _).symm, rfl, rfl, rfl, rfl⟩

theorem Eff.nodalloc {s s' : St} {D : List Addr} {E : List Ev} (h : Eff s s' D E) (hn : NoDAlloc s) : NoDAlloc s' := by
  unfold NoDAlloc; rw [h.dalloc]; exact hn

/-- what `dealloc(destruct(a))` does -/
def FinSpec (s : St) (a : Addr) (s' : St) : Prop :=
  ∃ D E, Eff s s' D (Ev.fin a :: (E ++ [Ev.free a])) ∧ Good D E ∧ (∀ d ∈ D, Tracked s d) ∧
    (∀ d ∈ D, ReachT s (Tracked s) a d) ∧
    (s.running = true → ∀ x ∈ s.ownsOf a, Tracked s x → x ∈ D) ∧
    (s.running = true → ∀ d ∈ D, ∀ y ∈ s.ownsOf d, Tracked s y → y ∈ D)

/-- what a `del(x)` through the collector does -/
def RemSpec (s : St) (x : Addr) (s' : St) : Prop :=
  ∃ D E, Eff s s' D E ∧ Good D E ∧ (∀ d ∈ D, Tracked s d) ∧
    (∀ d ∈ D, x ∈ D ∧ (d = x ∨ ReachT s (Tracked s) x d)) ∧
    (s.running = true → Tracked s x → x ∈ D) ∧
    (s.running = true → ∀ d ∈ D, ∀ y ∈ s.ownsOf d, Tracked s y → y ∈ D)

theorem RemSpec.refl_of_stopped (s : St) (x : Addr) (h : ¬ s.running = true) : RemSpec s x s :=
  ⟨[], [], Eff.refl s, Good.nil, by simp, by simp, fun hr => absurd hr h, fun hr => absurd hr h⟩

/-- `x` has just been taken off the collector's tables (state `s1`) and is finalised -/
theorem rem_common_strong {fin : St → Addr → St} {s s1 : St} {x : Addr}
    (he : Eff s s1 [x] []) (hx : Tracked s x) (hf : FinSpec s1 x (fin s1 x)) (m : Nat) :
    ∃ D E, Eff s { fin s1 x with mitems := m } D E ∧ Good D E ∧ (∀ d ∈ D, Tracked s d) ∧
      (∀ d ∈ D, d = x ∨ ReachT s (Tracked s) x d) ∧ x ∈ D ∧
      (s.running = true → ∀ d ∈ D, ∀ y ∈ s.ownsOf d, Tracked s y → y ∈ D) := by
  obtain ⟨D, E, heff, hgood, htr, hreach, hc1, hc2⟩ := hf
  have hxD : x ∉ D := by
    intro h
    have := (he.tracked x).1 (htr x h)
    exact this.2 (List.mem_singleton.2 rfl)
  have hsub : ∀ a, Tracked s1 a → Tracked s a := fun a h => ((he.tracked a).1 h).1
  refine ⟨x :: D, Ev.fin x :: (E ++ [Ev.free x]), ?_, hgood.bracket hxD, ?_, ?_, List.mem_cons_self, ?_⟩
  · have := (he.trans heff).set_mitems m
    simpa using this
  · intro d hd
    rcases List.mem_cons.1 hd with rfl | hd
    · exact hx
    · exact hsub d (htr d hd)
  · intro d hd
    rcases List.mem_cons.1 hd with rfl | hd
    · exact Or.inl rfl
    · exact Or.inr ((hreach d hd).congr_mono he.owns hsub)
  · intro hrun d hd y hy hty
    have hrun1 : s1.running = true := by rw [he.running]; exact hrun
    by_cases hyx : y = x
    · exact hyx ▸ List.mem_cons_self
    · have hty1 : Tracked s1 y := (he.tracked y).2 ⟨hty, by simpa using hyx⟩
      have hy1 : y ∈ s1.ownsOf d := by rw [St.ownsOf_congr he.owns]; exact hy
      rcases List.mem_cons.1 hd with rfl | hd
      · exact List.mem_cons_of_mem _ (hc1 hrun1 y hy1 hty1)
      · exact List.mem_cons_of_mem _ (hc2 hrun1 d hd y hy1 hty1)

theorem rem_common {fin : St → Addr → St} {s s1 : St} {x : Addr}
    (he : Eff s s1 [x] []) (hx : Tracked s x) (hf : FinSpec s1 x (fin s1 x)) (m : Nat) :
    RemSpec s x { fin s1 x with mitems := m } := by
  obtain ⟨D, E, h1, h2, h3, h4, h5, h6⟩ := rem_common_strong he hx hf m
  exact ⟨D, E, h1, h2, h3, fun d hd => ⟨h5, h4 d hd⟩, fun _ _ => h5, h6⟩

theorem mem_pending_of_contains {s : St} {x : Addr} (h : s.pending.contains (some x) = true) : some x ∈ s.pending := by
  simpa using h

theorem mem_regAddrs_of_isReg {s : St} {x : Addr} (h : s.isReg x = true) : x ∈ s.regAddrs := by
  unfold St.isReg at h
  unfold St.regAddrs
  rw [List.any_eq_true] at h
  obtain ⟨e, he, hx⟩ := h
  exact List.mem_map.2 ⟨e, he, by simpa using hx⟩

theorem isReg_of_mem_regAddrs {s : St} {x : Addr} (h : x ∈ s.regAddrs) : s.isReg x = true := by
  unfold St.isReg
  unfold St.regAddrs at h
  rw [List.any_eq_true]
  obtain ⟨e, he, hx⟩ := List.mem_map.1 h
  exact ⟨e, he, by simpa using hx⟩

/-- `GC_Rem`, given that the finaliser it calls behaves (`FinSpec`) on every state with fewer tracked objects -/
theorem gcRem_spec {fin : St → Addr → St} {f : Nat}
    (hfin : ∀ s1 a, Disj s1 → NoDAlloc s1 → mu s1 < f → FinSpec s1 a (fin s1 a))
    (s : St) (x : Addr) (hd : Disj s) (hnd : NoDAlloc s) (hmu : mu s ≤ f) :
    RemSpec s x (gcRem fin Cfg.current s x) := by
  unfold gcRem
  by_cases hr : s.running
  · simp only [hr, Bool.not_true, Bool.false_eq_true, if_false]
    unfold gcRemPtr
    by_cases hp : s.pending.contains (some x) = true
    · simp only [hp, if_true, Cfg.current]
      have hmem := mem_pending_of_contains hp
      have he : Eff s { s with pending := strike x s.pending } [x] [] := by
        refine ⟨?_, by simp [strike_eq], rfl, rfl, by simp, rfl⟩
        show s.reg = regWithout [x] s.reg
        rw [regWithout_of_not_mem]
        intro d hd'
        rw [List.mem_singleton] at hd'; subst hd'
        exact hd d hmem
      have hlt : mu { s with pending := strike x s.pending } < f := by
        have := length_filter_isSome_strike_lt hmem
        unfold mu at hmu ⊢
        simp only [strike_eq]
        omega
      exact rem_common he (Or.inl hmem) (hfin _ x (he.disj hd) (he.nodalloc hnd) hlt) _
    · simp only [hp, Bool.false_eq_true, if_false]
      by_cases hg : s.isReg x = true
      · simp only [hg, if_true]
        have hmem := mem_regAddrs_of_isReg hg
        have he : Eff s { s with reg := eraseReg x s.reg } [x] [] := by
          refine ⟨by simp [eraseReg_eq], ?_, rfl, rfl, by simp, rfl⟩
          show s.pending = strikeAll [x] s.pending
          rw [strikeAll_of_not_mem]
          intro d hd'
          rw [List.mem_singleton] at hd'; subst hd'
          intro h
          exact hp (by simpa using h)
        have hlt : mu { s with reg := eraseReg x s.reg } < f := by
          have := length_regWithout_lt hmem
          unfold mu at hmu ⊢
          simp only [eraseReg_eq]
          omega
        exact rem_common he (Or.inr hmem) (hfin _ x (he.disj hd) (he.nodalloc hnd) hlt) _
      · simp only [hg, Bool.false_eq_true, if_false]
        refine ⟨[], [], (Eff.refl s).set_mitems _, Good.nil, by simp, by simp, ?_, by simp⟩
        intro _ ht
        rcases ht with ht | ht
        · exact absurd (by simpa using ht) hp
        · exact absurd (isReg_of_mem_regAddrs ht) hg
  · simp only [hr, Bool.not_false, if_true]
    exact RemSpec.refl_of_stopped s x hr

/-- the destructor's loop over what the object owns -/
theorem fold_spec {fin : St → Addr → St} {f : Nat}
    (hfin : ∀ s1 a, Disj s1 → NoDAlloc s1 → mu s1 < f → FinSpec s1 a (fin s1 a)) (l : List Addr) :
    ∀ t : St, Disj t → NoDAlloc t → mu t ≤ f →
      ∃ D E, Eff t (l.foldl (fun st x => gcRem fin Cfg.current st x) t) D E ∧ Good D E ∧
        (∀ d ∈ D, Tracked t d) ∧ (∀ d ∈ D, ∃ x ∈ l, x ∈ D ∧ (d = x ∨ ReachT t (Tracked t) x d)) ∧
        (t.running = true → ∀ x ∈ l, Tracked t x → x ∈ D) ∧
        (t.running = true → ∀ d ∈ D, ∀ y ∈ t.ownsOf d, Tracked t y → y ∈ D) := by
  induction l with
  | nil => intro t _ _ _; exact ⟨[], [], Eff.refl t, Good.nil, by simp, by simp, by simp, by simp⟩
  | cons x l ih =>
    intro t hd hnd hmu
    obtain ⟨D1, E1, he1, hg1, ht1, hr1, hc1, hk1⟩ := gcRem_spec hfin t x hd hnd hmu
    have hmu1 : mu (gcRem fin Cfg.current t x) ≤ f := Nat.le_trans he1.mu_le hmu
    obtain ⟨D2, E2, he2, hg2, ht2, hr2, hc2, hk2⟩ := ih _ (he1.disj hd) (he1.nodalloc hnd) hmu1
    have hsub : ∀ a, Tracked (gcRem fin Cfg.current t x) a → Tracked t a := fun a h => ((he1.tracked a).1 h).1
    refine ⟨D1 ++ D2, E1 ++ E2, ?_, ?_, ?_, ?_, ?_, ?_⟩
    · simpa [List.foldl_cons] using he1.trans he2
    · exact hg1.append hg2 (fun d hd2 => ((he1.tracked d).1 (ht2 d hd2)).2)
    · intro d hdd
      rcases List.mem_append.1 hdd with h | h
      · exact ht1 d h
      · exact hsub d (ht2 d h)
    · intro d hdd
      rcases List.mem_append.1 hdd with h | h
      · exact ⟨x, List.mem_cons_self, List.mem_append_left _ (hr1 d h).1, (hr1 d h).2⟩
      · obtain ⟨y, hy, hyD, hyd⟩ := hr2 d h
        refine ⟨y, List.mem_cons_of_mem _ hy, List.mem_append_right _ hyD, ?_⟩
        rcases hyd with rfl | hyd
        · exact Or.inl rfl
        · exact Or.inr (hyd.congr_mono he1.owns hsub)
    · intro hrun y hy hty
      rcases List.mem_cons.1 hy with rfl | hy
      · exact List.mem_append_left _ (hc1 hrun hty)
      · by_cases hyD : y ∈ D1
        · exact List.mem_append_left _ hyD
        · exact List.mem_append_right _ (hc2 (by rw [he1.running]; exact hrun) y hy ((he1.tracked y).2 ⟨hty, hyD⟩))
    · intro hrun d hdd y hy hty
      by_cases hyD : y ∈ D1
      · exact List.mem_append_left _ hyD
      · rcases List.mem_append.1 hdd with h | h
        · exact absurd (hk1 hrun d h y hy hty) hyD
        · refine List.mem_append_right _ (hk2 (by rw [he1.running]; exact hrun) d h y ?_ ((he1.tracked y).2 ⟨hty, hyD⟩))
          rw [St.ownsOf_congr he1.owns]; exact hy

/-- **the destructor cascade**: with enough fuel (more than the number of tracked objects), `dealloc(destruct(a))` logs
    `fin a … free a`, and in between finalises, each exactly once, a duplicate-free set `D` of tracked objects that `a`
    owns directly or indirectly, removing exactly those from the collector's tables. -/
theorem finalise_spec (f : Nat) : ∀ (s : St) (a : Addr), Disj s → NoDAlloc s → mu s < f →
    FinSpec s a (finalise f Cfg.current s a) := by
  induction f with
  | zero => intro s a _ _ h; omega
  | succ f ih =>
    intro s a hd hnd hmu
    have hmu' : mu s ≤ f := by omega
    let s1 : St := { s with log := s.log ++ [Ev.fin a] }
    have he1 : Eff s s1 [] [Ev.fin a] := Eff.log_only s _
    have hmu1 : mu s1 ≤ f := Nat.le_trans he1.mu_le hmu'
    obtain ⟨D, E, he2, hg, ht, hr, hc, hk⟩ := fold_spec ih (s.ownsOf a) s1 (he1.disj hd) (he1.nodalloc hnd) hmu1
    have he3n := Eff.maybe_null Cfg.current (s.nulldel.contains a)
      ((s.ownsOf a).foldl (fun st x => gcRem (finalise f Cfg.current) Cfg.current st x) s1)
    have he3 := Eff.log_only (if s.nulldel.contains a then gcRemNull Cfg.current
      ((s.ownsOf a).foldl (fun st x => gcRem (finalise f Cfg.current) Cfg.current st x) s1)
      else (s.ownsOf a).foldl (fun st x => gcRem (finalise f Cfg.current) Cfg.current st x) s1) [Ev.free a]
    have hsub : ∀ b, Tracked s1 b → Tracked s b := fun b h => ((he1.tracked b).1 h).1
    have hsup : ∀ b, Tracked s b → Tracked s1 b := fun b h => (he1.tracked b).2 ⟨h, by simp⟩
    refine ⟨D, E, ?_, hg, ?_, ?_, ?_, ?_⟩
    · have := ((he1.trans he2).trans he3n).trans he3
      simpa [finalise, St.dallocOf_nil hnd] using this
    · intro d hdd
      exact hsub d (ht d hdd)
    · intro d hdd
      obtain ⟨x, hx, hxD, hxd⟩ := hr d hdd
      rcases hxd with rfl | hxd
      · exact ReachT.base hx (hsub _ (ht _ hdd))
      · exact ReachT.head hx (hsub _ (ht _ hxD)) (hxd.congr_mono he1.owns hsub)
    · intro hrun x hx htx
      exact hc hrun x hx (hsup x htx)
    · intro hrun d hdd y hy hty
      exact hk hrun d hdd y hy (hsup y hty)

theorem mu_lt_fuelFor (s : St) : mu s < fuelFor s := by
  unfold mu fuelFor
  have := List.length_filter_le Option.isSome s.pending
  omega

theorem length_arrange (order : List Addr) : ∀ cand : List Addr, (arrange order cand).length = cand.length := by
  induction order with
  | nil => intro cand; rfl
  | cons o os ih =>
    intro cand
    unfold arrange
    by_cases h : cand.contains o = true
    · have ho : o ∈ cand := by simpa using h
      simp only [h, if_true, List.length_cons, ih, List.length_erase_of_mem ho]
      have : 0 < cand.length := List.length_pos_of_mem ho
      omega
    · simp only [h, Bool.false_eq_true, if_false]; exact ih cand

/-- phase 1 of a collection only moves entries from the registry to the pending list -/
theorem length_sweep1 (s : St) (marks order : List Addr) :
    (s.reg.filter (fun e => !swept marks e)).length + (pendingOf s marks order).length = s.reg.length := by
  unfold pendingOf
  rw [length_arrange, List.length_map]
  induction s.reg with
  | nil => rfl
  | cons e r ih =>
    by_cases h : swept marks e = true
    · simp only [List.filter_cons, h, Bool.not_true, Bool.false_eq_true, if_false, if_true, List.length_cons]; omega
    · have h' : swept marks e = false := by simpa using h
      simp only [List.filter_cons, h', Bool.not_false, Bool.false_eq_true, if_false, if_true, List.length_cons]; omega

/-! ### `GC_Sweep` -/

theorem mem_arrange (order : List Addr) : ∀ (cand : List Addr) (a : Addr), a ∈ arrange order cand ↔ a ∈ cand := by
  induction order with
  | nil => intro cand a; simp [arrange]
  | cons o os ih =>
    intro cand a
    unfold arrange
    by_cases h : cand.contains o = true
    · simp only [h, if_true, List.mem_cons]
      rw [ih]
      have ho : o ∈ cand := by simpa using h
      constructor
      · rintro (rfl | h')
        · exact ho
        · exact List.mem_of_mem_erase h'
      · intro ha
        by_cases hao : a = o
        · exact Or.inl hao
        · exact Or.inr ((List.mem_erase_of_ne hao).2 ha)
    · simp only [h, Bool.false_eq_true, if_false]
      exact ih cand a

/-- phase 2 of `GC_Sweep` -/
theorem sweepLoop_spec (F : Nat) (todo : List Addr) :
    ∀ t : St, Disj t → NoDAlloc t → mu t < F →
      ∃ D E, Eff t (sweepLoop F Cfg.current todo t) D E ∧ Good D E ∧ (∀ d ∈ D, Tracked t d) ∧
        (∀ d ∈ D, ∃ x ∈ todo, x ∈ D ∧ (d = x ∨ ReachT t (Tracked t) x d)) ∧ (∀ x ∈ todo, some x ∈ t.pending → x ∈ D) ∧
        (t.running = true → ∀ d ∈ D, ∀ y ∈ t.ownsOf d, Tracked t y → y ∈ D) := by
  induction todo with
  | nil => intro t _ _ _; exact ⟨[], [], Eff.refl t, Good.nil, by simp, by simp, by simp, by simp⟩
  | cons a rest ih =>
    intro t hd hnd hmu
    -- the step for `a`
    have hstep : ∃ D1 E1, Eff t (if t.pending.contains (some a) then
          finalise F Cfg.current (if Cfg.current.sweepNullsSlot then { t with pending := strike a t.pending } else t) a else t) D1 E1 ∧
        Good D1 E1 ∧ (∀ d ∈ D1, Tracked t d) ∧ (∀ d ∈ D1, a ∈ D1 ∧ (d = a ∨ ReachT t (Tracked t) a d)) ∧
        (some a ∈ t.pending → a ∈ D1) ∧
        (t.running = true → ∀ d ∈ D1, ∀ y ∈ t.ownsOf d, Tracked t y → y ∈ D1) := by
      by_cases hp : t.pending.contains (some a) = true
      · simp only [hp, if_true, Cfg.current]
        have hmem := mem_pending_of_contains hp
        have he : Eff t { t with pending := strike a t.pending } [a] [] := by
          refine ⟨?_, by simp [strike_eq], rfl, rfl, by simp, rfl⟩
          show t.reg = regWithout [a] t.reg
          rw [regWithout_of_not_mem]
          intro d hd'
          rw [List.mem_singleton] at hd'; subst hd'
          exact hd d hmem
        have hlt : mu { t with pending := strike a t.pending } < F := Nat.lt_of_le_of_lt he.mu_le hmu
        have hf := finalise_spec F _ a (he.disj hd) (he.nodalloc hnd) hlt
        obtain ⟨D, E, heff, hgood, htr, hreach, hmemD, hk⟩ := rem_common_strong (fin := finalise F Cfg.current) he (Or.inl hmem) hf t.mitems
        exact ⟨D, E, ⟨heff.reg, heff.pending, heff.running, heff.owns, heff.log, heff.dalloc⟩, hgood, htr,
          fun d hd' => ⟨hmemD, hreach d hd'⟩, fun _ => hmemD, hk⟩
      · simp only [hp, Bool.false_eq_true, if_false]
        refine ⟨[], [], Eff.refl t, Good.nil, by simp, by simp, ?_, by simp⟩
        intro h; exact absurd (by simpa using h) hp
    obtain ⟨D1, E1, he1, hg1, ht1, hr1, hin1, hk1⟩ := hstep
    have hmu1 := Nat.lt_of_le_of_lt he1.mu_le hmu
    obtain ⟨D2, E2, he2, hg2, ht2, hr2, hin2, hk2⟩ := ih _ (he1.disj hd) (he1.nodalloc hnd) hmu1
    have hsub : ∀ b, Tracked (if t.pending.contains (some a) then
          finalise F Cfg.current (if Cfg.current.sweepNullsSlot then { t with pending := strike a t.pending } else t) a else t) b →
        Tracked t b := fun b h => ((he1.tracked b).1 h).1
    refine ⟨D1 ++ D2, E1 ++ E2, ?_, ?_, ?_, ?_, ?_, ?_⟩
    · simpa [sweepLoop, sweepLoopWith] using he1.trans he2
    · exact hg1.append hg2 (fun d hd2 => ((he1.tracked d).1 (ht2 d hd2)).2)
    · intro d hdd
      rcases List.mem_append.1 hdd with h | h
      · exact ht1 d h
      · exact hsub d (ht2 d h)
    · intro d hdd
      rcases List.mem_append.1 hdd with h | h
      · exact ⟨a, List.mem_cons_self, List.mem_append_left _ (hr1 d h).1, (hr1 d h).2⟩
      · obtain ⟨y, hy, hyD, hyd⟩ := hr2 d h
        refine ⟨y, List.mem_cons_of_mem _ hy, List.mem_append_right _ hyD, ?_⟩
        rcases hyd with rfl | hyd
        · exact Or.inl rfl
        · exact Or.inr (hyd.congr_mono he1.owns hsub)
    · intro x hx hxp
      rcases List.mem_cons.1 hx with rfl | hx
      · exact List.mem_append_left _ (hin1 hxp)
      · by_cases hxD : x ∈ D1
        · exact List.mem_append_left _ hxD
        · refine List.mem_append_right _ (hin2 x hx ?_)
          rw [he1.pending, mem_strikeAll]; exact ⟨hxp, hxD⟩
    · intro hrun d hdd y hy hty
      by_cases hyD : y ∈ D1
      · exact List.mem_append_left _ hyD
      · rcases List.mem_append.1 hdd with h | h
        · exact absurd (hk1 hrun d h y hy hty) hyD
        · refine List.mem_append_right _ (hk2 (by rw [he1.running]; exact hrun) d h y ?_ ((he1.tracked y).2 ⟨hty, hyD⟩))
          rw [St.ownsOf_congr he1.owns]; exact hy

/-- what a collection does, seen from a state between operations (empty pending list) -/
def SweepSpec (s : St) (marks : List Addr) (s' : St) : Prop :=
  ∃ D E, Eff s s' D E ∧ Good D E ∧ (∀ d ∈ D, d ∈ s.regAddrs) ∧
    (∀ e ∈ s.reg, swept marks e = true → e.addr ∈ D) ∧
    (∀ d ∈ D, ∃ e ∈ s.reg, swept marks e = true ∧ (d = e.addr ∨ ReachT s (· ∈ s.regAddrs) e.addr d)) ∧
    (s.running = true → ∀ d ∈ D, ∀ y ∈ s.ownsOf d, y ∈ s.regAddrs → y ∈ D)

theorem eq_of_addr_eq_of_nodup : ∀ {r : List Entry}, (r.map (·.addr)).Nodup → ∀ {e e' : Entry}, e ∈ r → e' ∈ r →
    e.addr = e'.addr → e = e' := by
  intro r
  induction r with
  | nil => intro _ e e' he; simp at he
  | cons x r ih =>
    intro hn e e' he he' h
    simp only [List.map_cons, List.nodup_cons] at hn
    rcases List.mem_cons.1 he with h1 | h1
    · rcases List.mem_cons.1 he' with h2 | h2
      · rw [h1, h2]
      · have : x.addr ∈ r.map (·.addr) := List.mem_map.2 ⟨e', h2, by rw [← h, h1]⟩
        exact absurd this hn.1
    · rcases List.mem_cons.1 he' with h2 | h2
      · have : x.addr ∈ r.map (·.addr) := List.mem_map.2 ⟨e, h1, by rw [h, h2]⟩
        exact absurd this hn.1
      · exact ih hn.2 h1 h2 h

/-- **`GC_Sweep`**: from a state with an empty pending list, for every marked set and every slot order, the collection
    finalises a duplicate-free set `D` of registered objects, each exactly once; `D` contains every unmarked non-root
    entry and otherwise only objects owned (directly or indirectly) by such entries; exactly `D` leaves the registry and
    the pending list is empty again. -/
theorem sweep_spec (s : St) (marks order : List Addr) (hp : s.pending = []) (hn : s.regAddrs.Nodup)
    (hnd : NoDAlloc s) : SweepSpec s marks (sweep Cfg.current s marks order) := by
  have hpend : ∀ a, a ∈ pendingOf s marks order ↔ ∃ e ∈ s.reg, swept marks e = true ∧ e.addr = a := by
    intro a
    unfold pendingOf
    rw [mem_arrange, List.mem_map]
    constructor
    · rintro ⟨e, he, rfl⟩; rw [List.mem_filter] at he; exact ⟨e, he.1, he.2, rfl⟩
    · rintro ⟨e, he, hs, rfl⟩; exact ⟨e, List.mem_filter.2 ⟨he, hs⟩, rfl⟩
  generalize hs1 : ({ s with reg := s.reg.filter (fun e => !swept marks e),
                             pending := (pendingOf s marks order).map some,
                             mitems := threshold (s.reg.filter (fun e => !swept marks e)).length,
                             marked := [] } : St) = s1
  have hsw : sweep Cfg.current s marks order =
      { (sweepLoop (fuelFor s) Cfg.current (pendingOf s marks order) s1) with pending := [] } := by
    rw [← hs1]; rfl
  rw [hsw]
  have hreg1 : s1.reg = s.reg.filter (fun e => !swept marks e) := by rw [← hs1]
  have hpen1 : s1.pending = (pendingOf s marks order).map some := by rw [← hs1]
  have hrun1 : s1.running = s.running := by rw [← hs1]
  have hown1 : s1.owns = s.owns := by rw [← hs1]
  have hlog1 : s1.log = s.log := by rw [← hs1]
  have hmemp : ∀ a, some a ∈ s1.pending ↔ a ∈ pendingOf s marks order := by
    intro a; rw [hpen1]; simp
  have hd1 : Disj s1 := by
    intro a ha
    obtain ⟨e, he, hsw, rfl⟩ := (hpend _).1 ((hmemp _).1 ha)
    intro hmem
    unfold St.regAddrs at hmem
    rw [hreg1] at hmem
    obtain ⟨e', he', hadd⟩ := List.mem_map.1 hmem
    rw [List.mem_filter] at he'
    have : e' = e := eq_of_addr_eq_of_nodup hn he'.1 he hadd
    subst this
    simp [hsw] at he'
  have hnd1 : NoDAlloc s1 := by rw [← hs1]; exact hnd
  have hmu1 : mu s1 < fuelFor s := by
    have h1 := length_sweep1 s marks order
    have h2 := List.length_filter_le Option.isSome ((pendingOf s marks order).map some)
    rw [List.length_map] at h2
    unfold mu fuelFor
    rw [hreg1, hpen1]
    omega
  obtain ⟨D, E, he, hg, ht, hr, hin, hk⟩ := sweepLoop_spec (fuelFor s) (pendingOf s marks order) s1 hd1 hnd1 hmu1
  have hsweptD : ∀ e ∈ s.reg, swept marks e = true → e.addr ∈ D := by
    intro e he' hsw
    have h1 : e.addr ∈ pendingOf s marks order := (hpend _).2 ⟨e, he', hsw, rfl⟩
    exact hin _ h1 ((hmemp _).2 h1)
  have htr1 : ∀ d, Tracked s1 d → d ∈ s.regAddrs := by
    intro d h
    rcases h with h | h
    · obtain ⟨e, he', _, rfl⟩ := (hpend _).1 ((hmemp _).1 h)
      exact List.mem_map.2 ⟨e, he', rfl⟩
    · unfold St.regAddrs at h ⊢
      rw [hreg1] at h
      obtain ⟨e, he', rfl⟩ := List.mem_map.1 h
      exact List.mem_map.2 ⟨e, (List.mem_filter.1 he').1, rfl⟩
  have htr2 : ∀ d, d ∈ s.regAddrs → Tracked s1 d := by
    intro d h
    obtain ⟨e, he', rfl⟩ := List.mem_map.1 h
    by_cases hsw : swept marks e = true
    · exact Or.inl ((hmemp _).2 ((hpend _).2 ⟨e, he', hsw, rfl⟩))
    · refine Or.inr ?_
      unfold St.regAddrs; rw [hreg1]
      exact List.mem_map.2 ⟨e, List.mem_filter.2 ⟨he', by simp [hsw]⟩, rfl⟩
  have hDreg : ∀ d ∈ D, d ∈ s.regAddrs := fun d hd => htr1 d (ht d hd)
  refine ⟨D, E, ⟨?_, ?_, ?_, ?_, ?_, ?_⟩, hg, hDreg, hsweptD, ?_, ?_⟩
  · show (sweepLoop (fuelFor s) Cfg.current (pendingOf s marks order) s1).reg = regWithout D s.reg
    rw [he.reg, hreg1]
    unfold regWithout
    rw [List.filter_filter]
    apply List.filter_congr
    intro e he'
    by_cases hsw : swept marks e = true
    · have := hsweptD e he' hsw
      simp [this]
    · simp [hsw]
  · show ([] : List (Option Addr)) = strikeAll D s.pending
    rw [hp]; rfl
  · show (sweepLoop (fuelFor s) Cfg.current (pendingOf s marks order) s1).running = s.running
    rw [he.running, hrun1]
  · show (sweepLoop (fuelFor s) Cfg.current (pendingOf s marks order) s1).owns = s.owns
    rw [he.owns, hown1]
  · show (sweepLoop (fuelFor s) Cfg.current (pendingOf s marks order) s1).log = s.log ++ E
    rw [he.log, hlog1]
  · show (sweepLoop (fuelFor s) Cfg.current (pendingOf s marks order) s1).dalloc = s.dalloc
    rw [he.dalloc, ← hs1]
  · intro d hd
    obtain ⟨x, hx, _, hxd⟩ := hr d hd
    obtain ⟨e, he', hsw, rfl⟩ := (hpend _).1 hx
    refine ⟨e, he', hsw, ?_⟩
    rcases hxd with rfl | hxd
    · exact Or.inl rfl
    · exact Or.inr (hxd.congr_mono hown1 htr1)
  · intro hrun d hd y hy hyreg
    refine hk (by rw [hrun1]; exact hrun) d hd y ?_ (htr2 y hyreg)
    rw [St.ownsOf_congr hown1]; exact hy

end Cello.Life
