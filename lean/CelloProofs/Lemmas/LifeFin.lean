/-
  Lemmas for C06, part 2: what `finalise` (a destructor cascade), `gcRem` (`del`) and `sweep` (`GC_Sweep`) do,
  for the code that exists (`Cfg.current`).
-/
import CelloProofs.Lemmas.LifeBasic

namespace Cello.Life

/-- the objects `D` finalised by a piece of work whose events are `E`: each exactly once, nothing else touched -/
structure Good (D : List Addr) (E : List Ev) : Prop where
  nodup : D.Nodup
  once : ∀ d ∈ D, Once d E
  clean : ∀ b, b ∉ D → Clean b E

theorem Good.nil : Good [] [] :=
  ⟨List.nodup_nil, by simp, fun b _ => Clean.nil b⟩

theorem Good.append {D1 D2 : List Addr} {E1 E2 : List Ev} (h1 : Good D1 E1) (h2 : Good D2 E2)
    (hdis : ∀ d ∈ D2, d ∉ D1) : Good (D1 ++ D2) (E1 ++ E2) := by
  refine ⟨?_, ?_, ?_⟩
  · rw [List.nodup_append]
    refine ⟨h1.nodup, h2.nodup, ?_⟩
    intro a ha b hb hab
    subst hab
    exact hdis a hb ha
  · intro d hd
    rcases List.mem_append.1 hd with hd | hd
    · have : d ∉ D2 := fun h => hdis d h hd
      exact (h1.once d hd).append_right (h2.clean d this)
    · exact Once.append_left (h1.clean d (hdis d hd)) (h2.once d hd)
  · intro b hb
    rw [List.mem_append, not_or] at hb
    exact clean_append.2 ⟨h1.clean b hb.1, h2.clean b hb.2⟩

theorem Good.bracket {D : List Addr} {E : List Ev} {x : Addr} (h : Good D E) (hx : x ∉ D) :
    Good (x :: D) (Ev.fin x :: (E ++ [Ev.free x])) := by
  refine ⟨List.nodup_cons.2 ⟨hx, h.nodup⟩, ?_, ?_⟩
  · intro d hd
    rcases List.mem_cons.1 hd with rfl | hd
    · exact once_bracket (h.clean _ hx)
    · have : d ≠ x := fun e => hx (e ▸ hd)
      exact (h.once d hd).bracket this
  · intro b hb
    rw [List.mem_cons, not_or] at hb
    exact clean_bracket hb.1 (h.clean b hb.2)

theorem regWithout_of_not_mem {D : List Addr} {r : List Entry} (h : ∀ d ∈ D, d ∉ r.map (·.addr)) :
    regWithout D r = r := by
  unfold regWithout
  rw [List.filter_eq_self]
  intro e he
  simp only [decide_eq_true_eq]
  intro hd
  exact h _ hd (List.mem_map.2 ⟨e, he, rfl⟩)

theorem strikeAll_of_not_mem {D : List Addr} {p : List (Option Addr)} (h : ∀ d ∈ D, some d ∉ p) :
    strikeAll D p = p := by
  unfold strikeAll
  conv => rhs; rw [← List.map_id p]
  apply List.map_congr_left
  intro o ho
  cases o with
  | none => simp
  | some y =>
    have : y ∉ D := fun hy => h y hy ho
    simp [this]

theorem Eff.set_mitems {s s' : St} {D : List Addr} {E : List Ev} (h : Eff s s' D E) (m : Nat) :
    Eff s { s' with mitems := m } D E :=
  ⟨h.reg, h.pending, h.running, h.owns, h.log⟩

theorem Eff.log_only (s : St) (E : List Ev) : Eff s { s with log := s.log ++ E } [] E :=
  ⟨(regWithout_nil _).symm, (strikeAll_nil _).symm, rfl, rfl, rfl⟩

/-- what `dealloc(destruct(a))` does -/
def FinSpec (s : St) (a : Addr) (s' : St) : Prop :=
  ∃ D E, Eff s s' D (Ev.fin a :: (E ++ [Ev.free a])) ∧ Good D E ∧ (∀ d ∈ D, Tracked s d) ∧ (∀ d ∈ D, Reach s a d) ∧
    (s.running = true → ∀ x ∈ s.ownsOf a, Tracked s x → x ∈ D)

/-- what a `del(x)` through the collector does -/
def RemSpec (s : St) (x : Addr) (s' : St) : Prop :=
  ∃ D E, Eff s s' D E ∧ Good D E ∧ (∀ d ∈ D, Tracked s d) ∧ (∀ d ∈ D, d = x ∨ Reach s x d) ∧
    (s.running = true → Tracked s x → x ∈ D)

theorem RemSpec.refl_of_stopped (s : St) (x : Addr) (h : ¬ s.running = true) : RemSpec s x s :=
  ⟨[], [], Eff.refl s, Good.nil, by simp, by simp, fun hr => absurd hr h⟩

/-- `x` has just been taken off the collector's tables (state `s1`) and is finalised -/
theorem rem_common_strong {fin : St → Addr → St} {s s1 : St} {x : Addr}
    (he : Eff s s1 [x] []) (hx : Tracked s x) (hf : FinSpec s1 x (fin s1 x)) (m : Nat) :
    ∃ D E, Eff s { fin s1 x with mitems := m } D E ∧ Good D E ∧ (∀ d ∈ D, Tracked s d) ∧
      (∀ d ∈ D, d = x ∨ Reach s x d) ∧ x ∈ D := by
  obtain ⟨D, E, heff, hgood, htr, hreach, _⟩ := hf
  have hxD : x ∉ D := by
    intro h
    have := (he.tracked x).1 (htr x h)
    exact this.2 (List.mem_singleton.2 rfl)
  refine ⟨x :: D, Ev.fin x :: (E ++ [Ev.free x]), ?_, hgood.bracket hxD, ?_, ?_, List.mem_cons_self⟩
  · have := (he.trans heff).set_mitems m
    simpa using this
  · intro d hd
    rcases List.mem_cons.1 hd with rfl | hd
    · exact hx
    · exact ((he.tracked d).1 (htr d hd)).1
  · intro d hd
    rcases List.mem_cons.1 hd with rfl | hd
    · exact Or.inl rfl
    · exact Or.inr ((hreach d hd).congr he.owns)

theorem rem_common {fin : St → Addr → St} {s s1 : St} {x : Addr}
    (he : Eff s s1 [x] []) (hx : Tracked s x) (hf : FinSpec s1 x (fin s1 x)) (m : Nat) :
    RemSpec s x { fin s1 x with mitems := m } := by
  obtain ⟨D, E, h1, h2, h3, h4, h5⟩ := rem_common_strong he hx hf m
  exact ⟨D, E, h1, h2, h3, h4, fun _ _ => h5⟩

theorem mem_pending_of_contains {s : St} {x : Addr} (h : s.pending.contains (some x) = true) : some x ∈ s.pending := by
  simpa using h

theorem mem_regAddrs_of_isReg {s : St} {x : Addr} (h : s.isReg x = true) : x ∈ s.regAddrs := by
  unfold St.isReg at h
  unfold St.regAddrs
  rw [List.any_eq_true] at h
  obtain ⟨e, he, hx⟩ := h
  exact List.mem_map.2 ⟨e, he, by simpa using hx⟩

theorem isReg_of_mem_regAddrs {s : St} {x : Addr} (h : x ∈ s.regAddrs) : s.isReg x = true := by
  unfold St.isReg
  unfold St.regAddrs at h
  rw [List.any_eq_true]
  obtain ⟨e, he, hx⟩ := List.mem_map.1 h
  exact ⟨e, he, by simpa using hx⟩

/-- `GC_Rem`, given that the finaliser it calls behaves (`FinSpec`) on every state with fewer tracked objects -/
theorem gcRem_spec {fin : St → Addr → St} {f : Nat}
    (hfin : ∀ s1 a, Disj s1 → mu s1 < f → FinSpec s1 a (fin s1 a))
    (s : St) (x : Addr) (hd : Disj s) (hmu : mu s ≤ f) :
    RemSpec s x (gcRem fin Cfg.current s x) := by
  unfold gcRem
  by_cases hr : s.running
  · simp only [hr, Bool.not_true, Bool.false_eq_true, if_false]
    unfold gcRemPtr
    by_cases hp : s.pending.contains (some x) = true
    · simp only [hp, if_true, Cfg.current]
      have hmem := mem_pending_of_contains hp
      have he : Eff s { s with pending := strike x s.pending } [x] [] := by
        refine ⟨?_, by simp [strike_eq], rfl, rfl, by simp⟩
        show s.reg = regWithout [x] s.reg
        rw [regWithout_of_not_mem]
        intro d hd'
        rw [List.mem_singleton] at hd'; subst hd'
        exact hd d hmem
      have hlt : mu { s with pending := strike x s.pending } < f := by
        have := length_filter_isSome_strike_lt hmem
        unfold mu at hmu ⊢
        simp only [strike_eq]
        omega
      exact rem_common he (Or.inl hmem) (hfin _ x (he.disj hd) hlt) _
    · simp only [hp, Bool.false_eq_true, if_false]
      by_cases hg : s.isReg x = true
      · simp only [hg, if_true]
        have hmem := mem_regAddrs_of_isReg hg
        have he : Eff s { s with reg := eraseReg x s.reg } [x] [] := by
          refine ⟨by simp [eraseReg_eq], ?_, rfl, rfl, by simp⟩
          show s.pending = strikeAll [x] s.pending
          rw [strikeAll_of_not_mem]
          intro d hd'
          rw [List.mem_singleton] at hd'; subst hd'
          intro h
          exact hp (by simpa using h)
        have hlt : mu { s with reg := eraseReg x s.reg } < f := by
          have := length_regWithout_lt hmem
          unfold mu at hmu ⊢
          simp only [eraseReg_eq]
          omega
        exact rem_common he (Or.inr hmem) (hfin _ x (he.disj hd) hlt) _
      · simp only [hg, Bool.false_eq_true, if_false]
        refine ⟨[], [], (Eff.refl s).set_mitems _, Good.nil, by simp, by simp, ?_⟩
        intro _ ht
        rcases ht with ht | ht
        · exact absurd (by simpa using ht) hp
        · exact absurd (isReg_of_mem_regAddrs ht) hg
  · simp only [hr, Bool.not_false, if_true]
    exact RemSpec.refl_of_stopped s x hr

/-- the destructor's loop over what the object owns -/
theorem fold_spec {fin : St → Addr → St} {f : Nat}
    (hfin : ∀ s1 a, Disj s1 → mu s1 < f → FinSpec s1 a (fin s1 a)) (l : List Addr) :
    ∀ t : St, Disj t → mu t ≤ f →
      ∃ D E, Eff t (l.foldl (fun st x => gcRem fin Cfg.current st x) t) D E ∧ Good D E ∧
        (∀ d ∈ D, Tracked t d) ∧ (∀ d ∈ D, ∃ x ∈ l, d = x ∨ Reach t x d) ∧
        (t.running = true → ∀ x ∈ l, Tracked t x → x ∈ D) := by
  induction l with
  | nil => intro t _ _; exact ⟨[], [], Eff.refl t, Good.nil, by simp, by simp, by simp⟩
  | cons x l ih =>
    intro t hd hmu
    obtain ⟨D1, E1, he1, hg1, ht1, hr1, hc1⟩ := gcRem_spec hfin t x hd hmu
    have hmu1 : mu (gcRem fin Cfg.current t x) ≤ f := Nat.le_trans he1.mu_le hmu
    obtain ⟨D2, E2, he2, hg2, ht2, hr2, hc2⟩ := ih _ (he1.disj hd) hmu1
    refine ⟨D1 ++ D2, E1 ++ E2, ?_, ?_, ?_, ?_, ?_⟩
    case refine_5 =>
      intro hrun y hy hty
      rcases List.mem_cons.1 hy with rfl | hy
      · exact List.mem_append_left _ (hc1 hrun hty)
      · by_cases hyD : y ∈ D1
        · exact List.mem_append_left _ hyD
        · exact List.mem_append_right _ (hc2 (by rw [he1.running]; exact hrun) y hy ((he1.tracked y).2 ⟨hty, hyD⟩))
    · simpa [List.foldl_cons] using he1.trans he2
    · exact hg1.append hg2 (fun d hd2 => ((he1.tracked d).1 (ht2 d hd2)).2)
    · intro d hdd
      rcases List.mem_append.1 hdd with h | h
      · exact ht1 d h
      · exact ((he1.tracked d).1 (ht2 d h)).1
    · intro d hdd
      rcases List.mem_append.1 hdd with h | h
      · exact ⟨x, List.mem_cons_self, hr1 d h⟩
      · obtain ⟨y, hy, hyd⟩ := hr2 d h
        refine ⟨y, List.mem_cons_of_mem _ hy, ?_⟩
        rcases hyd with rfl | hyd
        · exact Or.inl rfl
        · exact Or.inr (hyd.congr he1.owns)

/-- **the destructor cascade**: with enough fuel (more than the number of tracked objects), `dealloc(destruct(a))` logs
    `fin a … free a`, and in between finalises, each exactly once, a duplicate-free set `D` of tracked objects that `a`
    owns directly or indirectly, removing exactly those from the collector's tables. -/
theorem finalise_spec (f : Nat) : ∀ (s : St) (a : Addr), Disj s → mu s < f → FinSpec s a (finalise f Cfg.current s a) := by
  induction f with
  | zero => intro s a _ h; omega
  | succ f ih =>
    intro s a hd hmu
    have hmu' : mu s ≤ f := by omega
    let s1 : St := { s with log := s.log ++ [Ev.fin a] }
    have he1 : Eff s s1 [] [Ev.fin a] := Eff.log_only s _
    have hmu1 : mu s1 ≤ f := Nat.le_trans he1.mu_le hmu'
    obtain ⟨D, E, he2, hg, ht, hr, hc⟩ := fold_spec ih (s.ownsOf a) s1 (he1.disj hd) hmu1
    have he3 := Eff.log_only ((s.ownsOf a).foldl (fun st x => gcRem (finalise f Cfg.current) Cfg.current st x) s1) [Ev.free a]
    refine ⟨D, E, ?_, hg, ?_, ?_, ?_⟩
    case refine_4 =>
      intro hrun x hx htx
      exact hc hrun x hx ((he1.tracked x).2 ⟨htx, by simp⟩)
    · have := (he1.trans he2).trans he3
      simpa [finalise] using this
    · intro d hdd
      exact ((he1.tracked d).1 (ht d hdd)).1
    · intro d hdd
      obtain ⟨x, hx, hxd⟩ := hr d hdd
      rcases hxd with rfl | hxd
      · exact Reach.base hx
      · exact Reach.head hx (hxd.congr he1.owns)

theorem mu_lt_fuelFor (s : St) : mu s < fuelFor s := by
  unfold mu fuelFor
  have := List.length_filter_le Option.isSome s.pending
  omega

/-! ### `GC_Sweep` -/

theorem mem_arrange (order : List Addr) : ∀ (cand : List Addr) (a : Addr), a ∈ arrange order cand ↔ a ∈ cand := by
  induction order with
  | nil => intro cand a; simp [arrange]
  | cons o os ih =>
    intro cand a
    unfold arrange
    by_cases h : cand.contains o = true
    · simp only [h, if_true, List.mem_cons]
      rw [ih]
      have ho : o ∈ cand := by simpa using h
      constructor
      · rintro (rfl | h')
        · exact ho
        · exact List.mem_of_mem_erase h'
      · intro ha
        by_cases hao : a = o
        · exact Or.inl hao
        · exact Or.inr ((List.mem_erase_of_ne hao).2 ha)
    · simp only [h, Bool.false_eq_true, if_false]
      exact ih cand a

/-- phase 2 of `GC_Sweep` -/
theorem sweepLoop_spec (F : Nat) (todo : List Addr) :
    ∀ t : St, Disj t → mu t < F →
      ∃ D E, Eff t (sweepLoop F Cfg.current todo t) D E ∧ Good D E ∧ (∀ d ∈ D, Tracked t d) ∧
        (∀ d ∈ D, ∃ x ∈ todo, d = x ∨ Reach t x d) ∧ (∀ x ∈ todo, some x ∈ t.pending → x ∈ D) := by
  induction todo with
  | nil => intro t _ _; exact ⟨[], [], Eff.refl t, Good.nil, by simp, by simp, by simp⟩
  | cons a rest ih =>
    intro t hd hmu
    -- the step for `a`
    have hstep : ∃ D1 E1, Eff t (if t.pending.contains (some a) then
          finalise F Cfg.current (if Cfg.current.sweepNullsSlot then { t with pending := strike a t.pending } else t) a else t) D1 E1 ∧
        Good D1 E1 ∧ (∀ d ∈ D1, Tracked t d) ∧ (∀ d ∈ D1, d = a ∨ Reach t a d) ∧ (some a ∈ t.pending → a ∈ D1) := by
      by_cases hp : t.pending.contains (some a) = true
      · simp only [hp, if_true, Cfg.current]
        have hmem := mem_pending_of_contains hp
        have he : Eff t { t with pending := strike a t.pending } [a] [] := by
          refine ⟨?_, by simp [strike_eq], rfl, rfl, by simp⟩
          show t.reg = regWithout [a] t.reg
          rw [regWithout_of_not_mem]
          intro d hd'
          rw [List.mem_singleton] at hd'; subst hd'
          exact hd d hmem
        have hlt : mu { t with pending := strike a t.pending } < F := Nat.lt_of_le_of_lt he.mu_le hmu
        have hf := finalise_spec F _ a (he.disj hd) hlt
        obtain ⟨D, E, heff, hgood, htr, hreach, hmemD⟩ := rem_common_strong (fin := finalise F Cfg.current) he (Or.inl hmem) hf t.mitems
        exact ⟨D, E, ⟨heff.reg, heff.pending, heff.running, heff.owns, heff.log⟩, hgood, htr, hreach, fun _ => hmemD⟩
      · simp only [hp, Bool.false_eq_true, if_false]
        refine ⟨[], [], Eff.refl t, Good.nil, by simp, by simp, ?_⟩
        intro h; exact absurd (by simpa using h) hp
    obtain ⟨D1, E1, he1, hg1, ht1, hr1, hin1⟩ := hstep
    have hmu1 := Nat.lt_of_le_of_lt he1.mu_le hmu
    obtain ⟨D2, E2, he2, hg2, ht2, hr2, hin2⟩ := ih _ (he1.disj hd) hmu1
    refine ⟨D1 ++ D2, E1 ++ E2, ?_, ?_, ?_, ?_, ?_⟩
    · simpa [sweepLoop] using he1.trans he2
    · exact hg1.append hg2 (fun d hd2 => ((he1.tracked d).1 (ht2 d hd2)).2)
    · intro d hdd
      rcases List.mem_append.1 hdd with h | h
      · exact ht1 d h
      · exact ((he1.tracked d).1 (ht2 d h)).1
    · intro d hdd
      rcases List.mem_append.1 hdd with h | h
      · exact ⟨a, List.mem_cons_self, hr1 d h⟩
      · obtain ⟨y, hy, hyd⟩ := hr2 d h
        refine ⟨y, List.mem_cons_of_mem _ hy, ?_⟩
        rcases hyd with rfl | hyd
        · exact Or.inl rfl
        · exact Or.inr (hyd.congr he1.owns)
    · intro x hx hxp
      rcases List.mem_cons.1 hx with rfl | hx
      · exact List.mem_append_left _ (hin1 hxp)
      · by_cases hxD : x ∈ D1
        · exact List.mem_append_left _ hxD
        · refine List.mem_append_right _ (hin2 x hx ?_)
          rw [he1.pending, mem_strikeAll]; exact ⟨hxp, hxD⟩

/-- what a collection does, seen from a state between operations (empty pending list) -/
def SweepSpec (s : St) (marks : List Addr) (s' : St) : Prop :=
  ∃ D E, Eff s s' D E ∧ Good D E ∧ (∀ d ∈ D, d ∈ s.regAddrs) ∧
    (∀ e ∈ s.reg, swept marks e = true → e.addr ∈ D) ∧
    (∀ d ∈ D, ∃ e ∈ s.reg, swept marks e = true ∧ (d = e.addr ∨ Reach s e.addr d))

theorem eq_of_addr_eq_of_nodup : ∀ {r : List Entry}, (r.map (·.addr)).Nodup → ∀ {e e' : Entry}, e ∈ r → e' ∈ r →
    e.addr = e'.addr → e = e' := by
  intro r
  induction r with
  | nil => intro _ e e' he; simp at he
  | cons x r ih =>
    intro hn e e' he he' h
    simp only [List.map_cons, List.nodup_cons] at hn
    rcases List.mem_cons.1 he with h1 | h1
    · rcases List.mem_cons.1 he' with h2 | h2
      · rw [h1, h2]
      · have : x.addr ∈ r.map (·.addr) := List.mem_map.2 ⟨e', h2, by rw [← h, h1]⟩
        exact absurd this hn.1
    · rcases List.mem_cons.1 he' with h2 | h2
      · have : x.addr ∈ r.map (·.addr) := List.mem_map.2 ⟨e, h1, by rw [h, h2]⟩
        exact absurd this hn.1
      · exact ih hn.2 h1 h2 h

/-- **`GC_Sweep`**: from a state with an empty pending list, for every marked set and every slot order, the collection
    finalises a duplicate-free set `D` of registered objects, each exactly once; `D` contains every unmarked non-root
    entry and otherwise only objects owned (directly or indirectly) by such entries; exactly `D` leaves the registry and
    the pending list is empty again. -/
theorem sweep_spec (s : St) (marks order : List Addr) (hp : s.pending = []) (hn : s.regAddrs.Nodup) :
    SweepSpec s marks (sweep Cfg.current s marks order) := by
  have hpend : ∀ a, a ∈ pendingOf s marks order ↔ ∃ e ∈ s.reg, swept marks e = true ∧ e.addr = a := by
    intro a
    unfold pendingOf
    rw [mem_arrange, List.mem_map]
    constructor
    · rintro ⟨e, he, rfl⟩; rw [List.mem_filter] at he; exact ⟨e, he.1, he.2, rfl⟩
    · rintro ⟨e, he, hs, rfl⟩; exact ⟨e, List.mem_filter.2 ⟨he, hs⟩, rfl⟩
  generalize hs1 : ({ s with reg := s.reg.filter (fun e => !swept marks e),
                             pending := (pendingOf s marks order).map some,
                             mitems := threshold (s.reg.filter (fun e => !swept marks e)).length } : St) = s1
  have hsw : sweep Cfg.current s marks order =
      { (sweepLoop (fuelFor s1) Cfg.current (pendingOf s marks order) s1) with pending := [] } := by
    rw [← hs1]; rfl
  rw [hsw]
  have hreg1 : s1.reg = s.reg.filter (fun e => !swept marks e) := by rw [← hs1]
  have hpen1 : s1.pending = (pendingOf s marks order).map some := by rw [← hs1]
  have hrun1 : s1.running = s.running := by rw [← hs1]
  have hown1 : s1.owns = s.owns := by rw [← hs1]
  have hlog1 : s1.log = s.log := by rw [← hs1]
  have hmemp : ∀ a, some a ∈ s1.pending ↔ a ∈ pendingOf s marks order := by
    intro a; rw [hpen1]; simp
  have hd1 : Disj s1 := by
    intro a ha
    obtain ⟨e, he, hsw, rfl⟩ := (hpend _).1 ((hmemp _).1 ha)
    intro hmem
    unfold St.regAddrs at hmem
    rw [hreg1] at hmem
    obtain ⟨e', he', hadd⟩ := List.mem_map.1 hmem
    rw [List.mem_filter] at he'
    have : e' = e := eq_of_addr_eq_of_nodup hn he'.1 he hadd
    subst this
    simp [hsw] at he'
  obtain ⟨D, E, he, hg, ht, hr, hin⟩ := sweepLoop_spec (fuelFor s1) (pendingOf s marks order) s1 hd1 (mu_lt_fuelFor s1)
  have hsweptD : ∀ e ∈ s.reg, swept marks e = true → e.addr ∈ D := by
    intro e he' hsw
    have h1 : e.addr ∈ pendingOf s marks order := (hpend _).2 ⟨e, he', hsw, rfl⟩
    exact hin _ h1 ((hmemp _).2 h1)
  refine ⟨D, E, ⟨?_, ?_, ?_, ?_, ?_⟩, hg, ?_, hsweptD, ?_⟩
  · show (sweepLoop (fuelFor s1) Cfg.current (pendingOf s marks order) s1).reg = regWithout D s.reg
    rw [he.reg, hreg1]
    unfold regWithout
    rw [List.filter_filter]
    apply List.filter_congr
    intro e he'
    by_cases hsw : swept marks e = true
    · have := hsweptD e he' hsw
      simp [this]
    · simp [hsw]
  · show ([] : List (Option Addr)) = strikeAll D s.pending
    rw [hp]; rfl
  · show (sweepLoop (fuelFor s1) Cfg.current (pendingOf s marks order) s1).running = s.running
    rw [he.running, hrun1]
  · show (sweepLoop (fuelFor s1) Cfg.current (pendingOf s marks order) s1).owns = s.owns
    rw [he.owns, hown1]
  · show (sweepLoop (fuelFor s1) Cfg.current (pendingOf s marks order) s1).log = s.log ++ E
    rw [he.log, hlog1]
  · intro d hd
    rcases ht d hd with h | h
    · obtain ⟨e, he', _, rfl⟩ := (hpend _).1 ((hmemp _).1 h)
      exact List.mem_map.2 ⟨e, he', rfl⟩
    · unfold St.regAddrs at h ⊢
      rw [hreg1] at h
      obtain ⟨e, he', rfl⟩ := List.mem_map.1 h
      exact List.mem_map.2 ⟨e, (List.mem_filter.1 he').1, rfl⟩
  · intro d hd
    obtain ⟨x, hx, hxd⟩ := hr d hd
    obtain ⟨e, he', hsw, rfl⟩ := (hpend _).1 hx
    refine ⟨e, he', hsw, ?_⟩
    rcases hxd with rfl | hxd
    · exact Or.inl rfl
    · exact Or.inr (hxd.congr hown1)

end Cello.Life
