/-
  Exception objects of any type (Cello/Exn.lean: `World`, `cmpObj`, `walkIdxW`, `catchDecisionW`, `runW`, `evalM`,
  `evalW`, `clash`, `noClash`).
    * `run` is `runW idWorld`;
    * the walk with the filter entry's `Cmp` instance decides by "some entry lists the object" exactly when it meets
      no clash, and raises ValueError / ClassError exactly when it does;
    * the refinement induction for a reference with any match relation `m`, under the hypothesis that the filter walk
      decides by `m` at the filters the reference run arrives at (`DecidesAlong`);
    * `noClash` gives `DecidesAlong` for `catchDecisionW w` / `fmatchW w`.
-/
import Cello.Exn
import CelloProofs.Lemmas.ExnWalk
import CelloProofs.Lemmas.ExnDomain
import CelloProofs.Lemmas.ExnRefine

namespace Cello.Exn

/-! ### `run` = the world in which every address is a Type object with its own name -/

theorem cmpObj_idWorld (a obj : Nat) : cmpObj idWorld a obj = if a = obj then .eq else .ne := by
  rfl

theorem walkIdx_eq_walkIdxW (obj : Nat) (f : List Nat) : walkIdx obj f = walkIdxW idWorld obj f := by
  induction f with
  | nil => simp [walkIdx, walkIdxW]
  | cons a rest ih =>
    simp only [walkIdx, walkIdxW, cmpObj_idWorld]
    by_cases ho : obj = 0
    · simp [ho]
    · by_cases ha : a = 0
      · simp [ho, ha]
      · by_cases hao : a = obj <;> simp [ho, ha, hao, ih]

theorem catchDecision_eq_catchDecisionW : catchDecision = catchDecisionW idWorld := by
  funext f obj
  simp [catchDecision, catchDecisionW, walkIdx_eq_walkIdxW]

theorem run_eq_runW_idWorld : run = runW idWorld := by
  funext c m
  simp [run, runW, catchDecision_eq_catchDecisionW]

/-! ### the walk: `cmp` through the entry's `Cmp` instance -/

theorem cmpObj_comparable (w : World) (a e : Nat) (h : comparable (w a).cls (w e).cls = true) :
    cmpObj w a e = if specEq w a e then .eq else .ne := by
  unfold cmpObj specEq Obj.value
  rcases hA : w a with ⟨ca, va⟩
  rcases hE : w e with ⟨ce, ve⟩
  rw [hA, hE] at h
  cases ca <;> cases ce <;> simp_all [comparable]

theorem cmpObj_not_comparable (w : World) (a e : Nat) (h : comparable (w a).cls (w e).cls = false) :
    cmpObj w a e = .raises valueErr ∨ cmpObj w a e = .raises classErr := by
  unfold cmpObj
  rcases hA : w a with ⟨ca, va⟩
  rcases hE : w e with ⟨ce, ve⟩
  rw [hA, hE] at h
  cases ca <;> cases ce <;> simp_all [comparable]

/-- no clash: the walk decides by "some entry lists the object" -/
theorem walkIdxW_noclash (w : World) (obj : Nat) (hobj : obj ≠ 0) (f : List Nat) (h0 : 0 ∉ f)
    (hc : clash w obj f = false) :
    walkIdxW w obj f = if f.any (fun a => specEq w a obj) then .matched else .exhausted := by
  induction f with
  | nil => simp [walkIdxW]
  | cons a rest ih =>
    have ha0 : a ≠ 0 := fun e => h0 (by simp [e])
    have hr0 : 0 ∉ rest := fun e => h0 (by simp [e])
    simp only [clash] at hc
    by_cases hcomp : comparable (w a).cls (w obj).cls = true
    · simp only [hcomp, Bool.not_true, Bool.false_eq_true, if_false] at hc
      simp only [walkIdxW, hobj, ha0, if_false, cmpObj_comparable w a obj hcomp, List.any_cons]
      by_cases hs : specEq w a obj = true
      · simp [hs]
      · have hs' : specEq w a obj = false := by simpa using hs
        simp only [hs', Bool.false_eq_true, if_false] at hc
        simp [hs', ih hr0 hc]
    · have : comparable (w a).cls (w obj).cls = false := by simpa using hcomp
      simp [this] at hc

/-- a clash: the comparison raises ValueError or ClassError and the walk is over -/
theorem walkIdxW_clash (w : World) (obj : Nat) (hobj : obj ≠ 0) (f : List Nat) (h0 : 0 ∉ f)
    (hc : clash w obj f = true) :
    walkIdxW w obj f = .cmpRaises valueErr ∨ walkIdxW w obj f = .cmpRaises classErr := by
  induction f with
  | nil => simp [clash] at hc
  | cons a rest ih =>
    have ha0 : a ≠ 0 := fun e => h0 (by simp [e])
    have hr0 : 0 ∉ rest := fun e => h0 (by simp [e])
    simp only [clash] at hc
    by_cases hcomp : comparable (w a).cls (w obj).cls = true
    · simp only [hcomp, Bool.not_true, Bool.false_eq_true, if_false] at hc
      simp only [walkIdxW, hobj, ha0, if_false, cmpObj_comparable w a obj hcomp]
      by_cases hs : specEq w a obj = true
      · simp [hs] at hc
      · have hs' : specEq w a obj = false := by simpa using hs
        simp only [hs', Bool.false_eq_true, if_false] at hc
        simpa [hs'] using ih hr0 hc
    · have hn : comparable (w a).cls (w obj).cls = false := by simpa using hcomp
      simp only [walkIdxW, hobj, ha0, if_false]
      rcases cmpObj_not_comparable w a obj hn with h | h <;> simp [h]

theorem catchDecisionW_noclash (w : World) (f : List Nat) (obj : Nat) (hobj : obj ≠ 0) (h0 : 0 ∉ f)
    (hc : clash w obj f = false) :
    catchDecisionW w f obj = if fmatchW w f obj then .matched else .exhausted := by
  unfold catchDecisionW fmatchW
  by_cases he : f.isEmpty
  · simp [he]
  · simp [he, walkIdxW_noclash w obj hobj f h0 hc]

theorem catchDecisionW_clash (w : World) (f : List Nat) (obj : Nat) (hobj : obj ≠ 0) (h0 : 0 ∉ f)
    (hc : clash w obj f = true) :
    catchDecisionW w f obj = .cmpRaises valueErr ∨ catchDecisionW w f obj = .cmpRaises classErr := by
  unfold catchDecisionW
  have he : f.isEmpty = false := by
    cases f with
    | nil => simp [clash] at hc
    | cons _ _ => rfl
  simpa [he] using walkIdxW_clash w obj hobj f h0 hc

theorem walkIdxW_ne_hang (w : World) (obj : Nat) (f : List Nat) : walkIdxW w obj f ≠ .hang := by
  induction f with
  | nil => simp [walkIdxW]
  | cons a rest ih =>
    simp only [walkIdxW]
    split
    · simp
    · split
      · simp
      · split
        · simp
        · exact ih
        · simp

theorem catchDecisionW_ne_hang (w : World) (f : List Nat) (obj : Nat) : catchDecisionW w f obj ≠ .hang := by
  unfold catchDecisionW
  split
  · simp
  · exact walkIdxW_ne_hang w obj f

/-! ### the reference with a match relation `m` -/

theorem evalM_fmatch (p : Prog) : ∀ x, evalM fmatch p x = eval p x := by
  induction p with
  | stmt t => intro x; rfl
  | throw e => intro x; rfl
  | throwBad e => intro x; rfl
  | rethrow => intro x; rfl
  | call p ih => intro x; simp [evalM, eval, ih]
  | seq p q ihp ihq => intro x; simp [evalM, eval, ihp, ihq]
  | tryCatch b f h ihb ihh => intro x; simp [evalM, eval, ihb, ihh]

/-- inside the object domain the reference never raises NULL (any match relation) -/
theorem evalM_exc_ne_zero (m : List Nat → Nat → Bool) (p : Prog) :
    ∀ (x e : Nat), x ≠ 0 → inDomain p = true → (evalM m p x).2 = some e → e ≠ 0 := by
  induction p with
  | stmt t => intro x e _ _ h; simp [evalM] at h
  | throw e0 => intro x e _ hd h; simp [evalM] at h; subst h; simpa [inDomain] using hd
  | throwBad e0 => intro x e _ hd; simp [inDomain] at hd
  | rethrow => intro x e hx _ h; simp [evalM] at h; subst h; exact hx
  | call p ih => intro x e hx hd h; exact ih x e hx (by simpa [inDomain] using hd) (by simpa [evalM] using h)
  | seq p q ihp ihq =>
    intro x e hx hd h
    simp only [inDomain, Bool.and_eq_true] at hd
    simp only [evalM] at h
    rcases hev : evalM m p x with ⟨t1, _ | e1⟩
    · rw [hev] at h
      exact ihq x e hx hd.2 (by simpa using h)
    · rw [hev] at h; simp only at h
      exact ihp x e hx hd.1 (by rw [hev]; exact h)
  | tryCatch b f h ihb ihh =>
    intro x e hx hd he
    simp only [inDomain, Bool.and_eq_true] at hd
    simp only [evalM] at he
    rcases hev : evalM m b x with ⟨t1, _ | e1⟩
    · rw [hev] at he; simp at he
    · rw [hev] at he; simp only at he
      have h1 : e1 ≠ 0 := ihb x e1 hx hd.1.1 (by rw [hev])
      by_cases hm : m f e1
      · simp only [hm, if_true] at he
        exact ihh e1 e h1 hd.2 (by simpa using he)
      · simp only [hm] at he
        simp at he; subst he; exact h1

/-- the filter walk `dec` decides by `m` at every filter the reference run of `p` (bound variable `x`) arrives at -/
def DecidesAlong (dec : List Nat → Nat → Walk) (m : List Nat → Nat → Bool) : Prog → Nat → Prop
  | .seq p q, x => DecidesAlong dec m p x ∧ ((evalM m p x).2 = none → DecidesAlong dec m q x)
  | .call p, x => DecidesAlong dec m p x
  | .tryCatch b f h, x =>
    DecidesAlong dec m b x ∧
      ∀ e, (evalM m b x).2 = some e →
        (dec f e = if m f e then .matched else .exhausted) ∧ (m f e = true → DecidesAlong dec m h e)
  | _, _ => True

/-- **Refinement, for any filter walk and any match relation, along the reference run.** -/
theorem runWith_refines_along (dec : List Nat → Nat → Walk) (m : List Nat → Nat → Bool) (maxDepth : Nat) (p : Prog) :
    ∀ (x : Nat) (s : St), s.active = false → s.depth + nest p ≤ maxDepth →
      x ≠ 0 → inDomain p = true → DecidesAlong dec m p x →
      Agrees s (runWith dec true maxDepth p x s) (evalM m p x) := by
  induction p with
  | stmt t => intro x s h _ _ _ _; simp [runWith, evalM, Agrees, h]
  | throw e => intro x s h _ _ _ _; simp only [runWith, throwObj, evalM, Agrees]; split <;> simp_all
  | throwBad e => intro x s _ _ _ hd _; simp [inDomain] at hd
  | rethrow => intro x s h _ _ _ _; simp only [runWith, throwObj, evalM, Agrees]; split <;> simp_all
  | call p ih =>
    intro x s h hn hx hd hf
    simpa [runWith, evalM] using ih x s h (by simpa [nest] using hn) hx (by simpa [inDomain] using hd)
      (by simpa [DecidesAlong] using hf)
  | seq p q ihp ihq =>
    intro x s h hn hx hd hf
    simp only [inDomain, Bool.and_eq_true] at hd
    simp only [DecidesAlong] at hf
    have hnp : s.depth + nest p ≤ maxDepth := by simp only [nest] at hn; omega
    have hnq : s.depth + nest q ≤ maxDepth := by simp only [nest] at hn; omega
    have hp := ihp x s h hnp hx hd.1 hf.1
    simp only [runWith, evalM]
    rcases hev : evalM m p x with ⟨t1, _ | e⟩
    · rw [hev] at hp; simp only [Agrees] at hp
      obtain ⟨h1, h2, h3, h4⟩ := hp
      rcases hr : runWith dec true maxDepth p x s with ⟨s1, t1', g1⟩
      rw [hr] at h1 h2 h3 h4; simp only at h1 h2 h3 h4
      subst h2 h1
      have hq := ihq x s1 h4 (by omega) hx hd.2 (hf.2 (by rw [hev]))
      rcases hev2 : evalM m q x with ⟨t2, _ | e2⟩ <;> rw [hev2] at hq <;> simp only [Agrees] at hq ⊢ <;>
        rcases hr2 : runWith dec true maxDepth q x s1 with ⟨s2, t2', g2⟩ <;> rw [hr2] at hq <;> simp_all
    · rw [hev] at hp; simp only [Agrees] at hp
      obtain ⟨h1, h2, h3, h4⟩ := hp
      rcases hr : runWith dec true maxDepth p x s with ⟨s1, t1', g1⟩
      rw [hr] at h1 h2 h3 h4; simp only at h1 h2 h3 h4
      simp only [Agrees]
      by_cases hd : s.depth ≥ 1 <;> simp_all
  | tryCatch b f h ihb ihh =>
    intro x s hs hn hx hd hf
    simp only [inDomain, Bool.and_eq_true] at hd
    simp only [DecidesAlong] at hf
    have hnb : s.depth + 1 + nest b ≤ maxDepth := by simp only [nest] at hn; omega
    have hnh : s.depth + nest h ≤ maxDepth := by simp only [nest] at hn; omega
    have hlt : s.depth ≠ maxDepth := by omega
    simp only [runWith, evalM, hlt, if_false]
    have hb := ihb x { s with depth := s.depth + 1, active := false } rfl (by simpa using hnb) hx hd.1.1 hf.1
    rcases hev : evalM m b x with ⟨t, _ | e⟩
    · -- body completes
      rw [hev] at hb; simp only [Agrees] at hb
      rcases hr : runWith dec true maxDepth b x { s with depth := s.depth + 1, active := false } with ⟨s2, t', g⟩
      rw [hr] at hb; simp only at hb
      obtain ⟨h1, h2, h3, h4⟩ := hb
      subst h1 h2
      simp only
      rw [catchPhase_inactive dec true _ f s2 t' s.depth h3 h4]
      simp [Agrees, h4]
    · -- body raises e: the jump targets exactly this block's buffer
      have he0 : e ≠ 0 := evalM_exc_ne_zero m b x e hx hd.1.1 (by rw [hev])
      obtain ⟨hdec, hhd⟩ := hf.2 e (by rw [hev])
      rw [hev] at hb; simp only [Agrees] at hb
      rcases hr : runWith dec true maxDepth b x { s with depth := s.depth + 1, active := false } with ⟨s2, t', g⟩
      rw [hr] at hb; simp only at hb
      obtain ⟨h1, h2, h3, h4⟩ := hb
      simp only [Nat.le_add_left, ge_iff_le, if_true, Nat.add_sub_cancel] at h4
      subst h1 h4 h2
      simp only [if_true]
      have ho : ({ s2 with active := true } : St).obj ≠ 0 := he0
      by_cases hm : m f s2.obj = true
      · rw [catchPhase_match dec _ f { s2 with active := true } t' s.depth h3 rfl ho (by simpa [hm] using hdec)]
        simp only [hm, if_true]
        have hh := ihh s2.obj { s2 with active := false, depth := s.depth } rfl (by simpa using hnh) he0 hd.2 (hhd hm)
        rcases hev2 : evalM m h s2.obj with ⟨th, _ | e2⟩ <;> rw [hev2] at hh <;> simp only [Agrees] at hh ⊢ <;>
          rcases hr2 : runWith dec true maxDepth h s2.obj { s2 with active := false, depth := s.depth } with ⟨s6, th', g'⟩ <;>
          rw [hr2] at hh <;> simp_all
      · have hm' : m f s2.obj = false := by simpa using hm
        rw [catchPhase_nomatch dec true _ f { s2 with active := true } t' s.depth h3 rfl (by simpa [hm'] using hdec)]
        simp [Agrees, hm']

/-- `noClash` (decidable, Cello/Exn.lean) is what `DecidesAlong` needs for the walk through the entries' `Cmp`
    instances -/
theorem noClash_decidesAlong (w : World) (p : Prog) :
    ∀ x, x ≠ 0 → inDomain p = true → noClash w p x = true →
      DecidesAlong (catchDecisionW w) (fmatchW w) p x := by
  induction p with
  | stmt t => intro x _ _ _; simp [DecidesAlong]
  | throw e => intro x _ _ _; simp [DecidesAlong]
  | throwBad e => intro x _ _ _; simp [DecidesAlong]
  | rethrow => intro x _ _ _; simp [DecidesAlong]
  | call p ih =>
    intro x hx hd hn
    simpa [DecidesAlong] using ih x hx (by simpa [inDomain] using hd) (by simpa [noClash] using hn)
  | seq p q ihp ihq =>
    intro x hx hd hn
    simp only [inDomain, Bool.and_eq_true] at hd
    simp only [noClash, Bool.and_eq_true] at hn
    refine ⟨ihp x hx hd.1 hn.1, ?_⟩
    intro hnone
    have h2 := hn.2
    simp only [evalW] at h2
    rw [hnone] at h2
    exact ihq x hx hd.2 h2
  | tryCatch b f h ihb ihh =>
    intro x hx hd hn
    simp only [inDomain, Bool.and_eq_true] at hd
    simp only [noClash, Bool.and_eq_true] at hn
    refine ⟨ihb x hx hd.1.1 hn.1, ?_⟩
    intro e he
    have he0 : e ≠ 0 := evalM_exc_ne_zero (fmatchW w) b x e hx hd.1.1 he
    have h0 : 0 ∉ f := by simpa using hd.1.2
    have h2 := hn.2
    simp only [evalW] at h2
    rw [he] at h2
    simp only [Bool.and_eq_true, Bool.not_eq_true', Bool.or_eq_true] at h2
    refine ⟨catchDecisionW_noclash w f e he0 h0 h2.1, ?_⟩
    intro hm
    rcases h2.2 with h3 | h3
    · rw [hm] at h3; exact absurd h3 (by simp)
    · exact ihh e he0 hd.2 h3

/-- the machine for the code as it is in /repo now, exception objects of any type -/
def runNowW (w : World) : Prog → Nat → St → St × List Ev × Sig :=
  runCfgW w CelloGen.Exn.catchWalksFilterWithForeachEq CelloGen.Exn.catchConsumes CelloGen.Exn.maxDepth

/-! ### the world of `run` -/

theorem fmatchW_idWorld : fmatchW idWorld = fmatch := by
  funext f e
  have : ∀ f : List Nat, f.any (fun a => specEq idWorld a e) = f.contains e := by
    intro f
    induction f with
    | nil => rfl
    | cons a rest ih =>
      simp only [List.any_cons, List.contains_cons, ih]
      congr 1
      simp only [specEq, idWorld, Obj.value]
      by_cases h : a = e
      · simp [h]
      · have : ¬ e = a := fun h' => h h'.symm
        simp [h, this]
  simp [fmatchW, fmatch, this]

theorem evalW_idWorld (p : Prog) (x : Nat) : evalW idWorld p x = eval p x := by
  rw [evalW, fmatchW_idWorld, evalM_fmatch]

theorem clash_idWorld (e : Nat) (f : List Nat) : clash idWorld e f = false := by
  induction f with
  | nil => rfl
  | cons a rest ih =>
    simp only [clash, idWorld, comparable, Bool.not_true, Bool.false_eq_true, if_false]
    split <;> simp [ih]

theorem noClash_idWorld (p : Prog) : ∀ x, noClash idWorld p x = true := by
  induction p with
  | stmt t => intro x; rfl
  | throw e => intro x; rfl
  | throwBad e => intro x; rfl
  | rethrow => intro x; rfl
  | call p ih => intro x; simpa [noClash] using ih x
  | seq p q ihp ihq =>
    intro x
    simp only [noClash, ihp x, Bool.true_and]
    split <;> simp [ihq x]
  | tryCatch b f h ihb ihh =>
    intro x
    simp only [noClash, ihb x, Bool.true_and]
    split
    · rfl
    · simp [clash_idWorld, ihh]

/-- … after a clash: `exception_catch` leaves by the raised exception, one level further out -/
theorem catchPhase_raises (dec : List Nat → Nat → Walk) (c : Bool) (runH : Nat → St → St × List Ev × Sig)
    (f : List Nat) (s3 : St) (t : List Ev) (exc : Nat)
    (d : Nat) (hd : s3.depth = d + 1) (ha : s3.active = true) (hm : dec f s3.obj = .cmpRaises exc) :
    catchPhase dec c runH f s3 t =
      ({ s3 with depth := d, obj := exc }, t, if d ≥ 1 then .jump (d - 1) else .fatal) := by
  simp only [catchPhase, hd, ha, hm]
  by_cases h : d ≥ 1 <;> simp [h]

end Cello.Exn
