/-
  CelloProofs/Lemmas/RegistrySpec.lean — the ledger of the property text ("allocated and neither deleted nor reclaimed"),
  which does not look at the collector's `running` flag, and the two regions in which the code departs from it:
  allocation / deletion while the collector is stopped (`ReachI` against `ReachQ`), and `dealloc` / `dealloc_root` of a
  registered object (`ReachD`).
-/
import Cello.Registry
import CelloProofs.Lemmas.RegistryHistory
set_option linter.unusedSectionVars false
set_option linter.unusedVariables false
namespace Cello.Registry
open RH

/-- the ledger of the property text together with the `running` flag the history itself determines (`stop` / `start`).
    Every managed allocation adds its object and every `del` removes it, whatever the flag; a collection triggered by an
    allocation happens only while running.  The only thing read from the model state is *when* an allocation collects. -/
def idealStep (r : Reg) (S : Ledger × Bool) : Op → Ledger × Bool
  | .new p root marks =>
    (if S.2 && decide (r.nitems + 1 > r.mitems) then collectL ((p, root) :: S.1) marks else (p, root) :: S.1, S.2)
  | .newRaw _ => S
  | .del p => (S.1.filter (fun y => y.1 != p), S.2)
  | .delRaw _ => S
  | .sweep marks => (collectL S.1 marks, S.2)
  | .stop => (S.1, false)
  | .start => (S.1, true)

/-- all histories, against the ledger of the property text -/
inductive ReachI (c : Cfg) : Reg → Ledger × Bool → Prop where
  | init : ReachI c Reg.init ([], true)
  | step {r : Reg} {S : Ledger × Bool} {op : Op} {r' : Reg} :
      ReachI c r S → okOp S.1 op → step c r op = some r' → ReachI c r' (idealStep r S op)

/-- no allocation and no deletion through the collector while it is stopped -/
def Quiet (S : Ledger × Bool) : Op → Prop
  | .new _ _ _ => S.2 = true
  | .del _ => S.2 = true
  | _ => True

/-- the histories that keep out of the stopped window -/
inductive ReachQ (c : Cfg) : Reg → Ledger × Bool → Prop where
  | init : ReachQ c Reg.init ([], true)
  | step {r : Reg} {S : Ledger × Bool} {op : Op} {r' : Reg} :
      ReachQ c r S → okOp S.1 op → Quiet S op → step c r op = some r' → ReachQ c r' (idealStep r S op)

/-- what an operation does to the `running` flag -/
def runAfter (b : Bool) : Op → Bool
  | .stop => false
  | .start => true
  | _ => b

theorem step_running (c : Cfg) (g : GoodCfg c) (r : Reg) (L : Ledger) (hwf : WF c r L) (op : Op) (hok : okOp L op) (r' : Reg)
    (hstep : step c r op = some r') :
    r'.running = runAfter r.running op := by
  cases op with
  | new p root marks =>
    cases hrun : r.running with
    | true =>
      obtain ⟨r'', t, h1, _, h3⟩ := gcSet_wf c g r L hwf p root marks hrun hok.1 hok.2.1 hok.2.2
      simp only [step, h1, Option.map, Option.some.injEq] at hstep
      rw [← hstep]; exact h3
    | false =>
      simp only [step, gcSet, hrun, Bool.not_false, if_true, Option.map, Option.some.injEq] at hstep
      rw [← hstep]; exact hrun
  | newRaw p => simp only [step, Option.some.injEq] at hstep; rw [← hstep]; rfl
  | del p =>
    cases hrun : r.running with
    | true =>
      obtain ⟨r'', t, h1, _, h3⟩ := gcRem_wf c g r L hwf p hrun
      simp only [step, h1, Option.map, Option.some.injEq] at hstep
      rw [← hstep]; exact h3
    | false =>
      have hfuel : nestFuel r = (2 * (r.nitems + r.pending.size) + 3) + 1 := by unfold nestFuel; omega
      simp only [step, gcRem, hfuel, exec_rem_succ, hrun, Bool.not_false, if_true, Option.map, Option.some.injEq] at hstep
      rw [← hstep]; exact hrun
  | delRaw p =>
    simp only [step, exec_fin_noK, Option.map, Option.some.injEq] at hstep
    rw [← hstep]; rfl
  | sweep marks =>
    obtain ⟨r1, r'', t, h1, h2, _, h4⟩ := collect_wf c g r L hwf false marks
    simp only [Bool.false_eq_true, if_false] at h1
    simp only [step, h1, h2, Option.map, Option.some.injEq] at hstep
    rw [← hstep]; exact h4
  | stop => simp only [step, Option.some.injEq] at hstep; rw [← hstep]; rfl
  | start => simp only [step, Option.some.injEq] at hstep; rw [← hstep]; rfl

/-- outside the stopped window the ledger of the property text is the ledger of `Reach`, and the flag is the model's -/
theorem reachQ_reach (c : Cfg) (g : GoodCfg c) (r : Reg) (S : Ledger × Bool) (h : ReachQ c r S) :
    Reach c r S.1 ∧ r.running = S.2 := by
  induction h with
  | init => exact ⟨Reach.init, rfl⟩
  | @step r S op r' _ hok hq hstep ih =>
    obtain ⟨hr, hrun⟩ := ih
    have hwf := reach_wf c g r S.1 hr
    have hrun' := step_running c g r S.1 hwf op hok r' hstep
    have hnext := Reach.step hr hok hstep
    cases op with
    | new p root marks =>
      have hq' : S.2 = true := hq
      have hr1 : r.running = true := by rw [hrun, hq']
      refine ⟨?_, by rw [hrun']; exact hrun⟩
      simp only [ledgerStep, hr1, if_true] at hnext
      simp only [idealStep, hq', Bool.true_and]
      by_cases hth : r.nitems + 1 > r.mitems
      · simp only [hth, if_true] at hnext; simp only [hth, decide_true, if_true]; exact hnext
      · simp only [hth, if_false] at hnext; simp only [hth, decide_false, Bool.false_eq_true, if_false]; exact hnext
    | newRaw p => exact ⟨hnext, by rw [hrun']; exact hrun⟩
    | del p =>
      have hq' : S.2 = true := hq
      have hr1 : r.running = true := by rw [hrun, hq']
      refine ⟨?_, by rw [hrun']; exact hrun⟩
      simp only [ledgerStep, hr1, if_true] at hnext
      exact hnext
    | delRaw p => exact ⟨hnext, by rw [hrun']; exact hrun⟩
    | sweep marks => exact ⟨hnext, by rw [hrun']; exact hrun⟩
    | stop => exact ⟨hnext, hrun'⟩
    | start => exact ⟨hnext, hrun'⟩

/-- histories that also use `dealloc` / `dealloc_raw` / `dealloc_root` (src/Alloc.c) on managed objects: the block is
    released — the object is no longer live — and the collector is not told.  `del_raw` of a managed object is the same
    transition (`del_raw` is `dealloc(destruct(self))` without GC_Rem; `okOp (.delRaw p)` keeps it out of `Op`): constructor
    `dealloc` models both entrances to KF-C17-dealloc-stale (for the `del_raw` one see also `C17_del_raw_managed_refuted`). -/
inductive ReachD (c : Cfg) : Reg → Ledger → Prop where
  | init : ReachD c Reg.init []
  | step {r : Reg} {L : Ledger} {op : Op} {r' : Reg} :
      ReachD c r L → okOp L op → step c r op = some r' → ReachD c r' (ledgerStep r L op)
  | dealloc {r : Reg} {L : Ledger} (p : Nat) : ReachD c r L → ReachD c r (L.filter (fun y => y.1 != p))

theorem reach_reachD (c : Cfg) (r : Reg) (L : Ledger) (h : Reach c r L) : ReachD c r L := by
  induction h with
  | init => exact ReachD.init
  | step _ hok hstep ih => exact ReachD.step ih hok hstep

end Cello.Registry
