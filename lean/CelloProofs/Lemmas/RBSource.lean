/-
  Lemmas/RBSource.lean — what the proofs need of the data the model reads from the source (CelloGen/Tree.lean).

  The model (Cello/RBTree.lean) evaluates the offset and width expressions, the descent directions and the guard of
  `Tree_Assign` that translate/g_tree.py extracts from src/Tree.c on every run.  The lemmas of RBReloc / RBValid / RBStore are
  proved under the hypothesis `SourceOk` — a statement about those generated definitions — and never look at their values;
  `SourceOk` itself is proved in Props/C03.lean (`C03_layout_current_source`, `C03_descent_current_source`,
  `C03_assign_current_source`), which is therefore where the build breaks when the source changes one of them.
-/
import Cello.RBTree

namespace Cello.RB
open CelloGen.Tree (Descent Side)
variable {α β : Type}

/-- **the node layout**: `Tree_Alloc` puts the key header at the start of the payload, the key (`Tree_Key`) after it, the value
    header after the key, the value (`Tree_Val`) after that header; it reserves room for exactly these four, and the `memcpy`
    of `Tree_Rem` moves exactly these four — for every width of header, key and value. -/
def LayoutOk : Prop := ∀ y : Lay,
  y.keyHdrOff = 0 ∧ y.keyOff = y.hdr ∧ y.valHdrOff = y.hdr + y.ks ∧ y.valOff = y.hdr + y.ks + y.hdr ∧
  y.entryLen = y.hdr + y.ks + y.hdr + y.vs ∧ y.moveLen = y.hdr + y.ks + y.hdr + y.vs

/-- the descent the model's `insAt` / `find` / `remAt` are written for: `c = cmp(Tree_Key(m, node), key)`, `c < 0` → left,
    `c > 0` → right -/
def Descent.std : Descent := ⟨true, .left, .right⟩

/-- **the four descent loops** (`Tree_Set`, `Tree_Get`, `Tree_Mem`, `Tree_Rem`) all compare the node's key with the key, in this
    order, and all go left for `c < 0` and right for `c > 0` -/
def DescentOk : Prop :=
  CelloGen.Tree.setDescent = Descent.std ∧ CelloGen.Tree.getDescent = Descent.std ∧
  CelloGen.Tree.memDescent = Descent.std ∧ CelloGen.Tree.remDescent = Descent.std

/-- what the refinement proof uses of src/Tree.c beyond the control flow mirrored by the model -/
structure SourceOk : Prop where
  layout : LayoutOk
  descent : DescentOk
  /-- `Tree_Assign` starts with `if (self is obj) { return; }` -/
  selfGuard : CelloGen.Tree.assignGuardsSelf = true

theorem orient_std (cmp : α → α → Ordering) : orient Descent.std cmp = cmp := by
  funext nk k
  simp only [orient, Descent.std]
  cases cmp nk k <;> rfl

theorem SourceOk.orient_set (h : SourceOk) (cmp : α → α → Ordering) : orient CelloGen.Tree.setDescent cmp = cmp := by
  rw [h.descent.1, orient_std]

theorem SourceOk.orient_get (h : SourceOk) (cmp : α → α → Ordering) : orient CelloGen.Tree.getDescent cmp = cmp := by
  rw [h.descent.2.1, orient_std]

theorem SourceOk.orient_mem (h : SourceOk) (cmp : α → α → Ordering) : orient CelloGen.Tree.memDescent cmp = cmp := by
  rw [h.descent.2.2.1, orient_std]

theorem SourceOk.orient_rem (h : SourceOk) (cmp : α → α → Ordering) : orient CelloGen.Tree.remDescent cmp = cmp := by
  rw [h.descent.2.2.2, orient_std]

/-- a descent that goes the other way for one sign is a different function: on a two-node tree it misses a key that is there -/
theorem orient_flipped_differs :
    find (orient ⟨true, .right, .left⟩ (compare : Nat → Nat → Ordering))
      (T.node .B (T.node .R .nil 2 "two" .nil) 1 "one" .nil) 2 = none ∧
    find (orient Descent.std (compare : Nat → Nat → Ordering))
      (T.node .B (T.node .R .nil 2 "two" .nil) 1 "one" .nil) 2 = some "two" := by
  decide

end Cello.RB
