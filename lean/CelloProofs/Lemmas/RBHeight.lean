/-
  Lemmas/RBHeight.lean — a red-black tree with n nodes has height at most 2·log2(n+1).
-/
import CelloProofs.Lemmas.RBBal

namespace Cello.RB
variable {α β : Type}

/-- 1 for a red root, 0 otherwise -/
def redBonus (t : T α β) : Nat := if color t = .R then 1 else 0

theorem height_le_bh (t : T α β) (hr : RRt t) (hb : Bal t) : height t ≤ 2 * bh t + redBonus t := by
  induction t with
  | nil => simp [height, redBonus]
  | node c l k v r ihl ihr =>
    simp at hr hb
    have h1 := ihl hr.2.1 hb.2.1
    have h2 := ihr hr.2.2 hb.2.2
    simp only [height, bh_node]
    cases c with
    | B =>
      simp only [redBonus, color_node, cw_B]
      have : redBonus l ≤ 1 := by unfold redBonus; split <;> omega
      have : redBonus r ≤ 1 := by unfold redBonus; split <;> omega
      simp; omega
    | R =>
      obtain ⟨cl, cr⟩ := hr.1 rfl
      simp only [redBonus, cl, cr, color_node, cw_R] at h1 h2 ⊢
      simp at h1 h2 ⊢; omega

theorem pow_bh_le_size (t : T α β) (hb : Bal t) : 2 ^ bh t ≤ size t + 1 := by
  induction t with
  | nil => simp [size]
  | node c l k v r ihl ihr =>
    simp at hb
    have h1 := ihl hb.2.1
    have h2 := ihr hb.2.2
    rw [← hb.1] at h2
    simp only [size, bh_node]
    have : 2 ^ (bh l + cw c) ≤ 2 * 2 ^ bh l := by
      cases c with
      | R => simp; omega
      | B => simp [Nat.pow_succ]; omega
    omega

/-- the height bound of red-black trees -/
theorem height_le_log (t : T α β) (h : ValidT t) : height t ≤ 2 * Nat.log2 (size t + 1) := by
  obtain ⟨hc, hr, hb⟩ := h
  have h1 := height_le_bh t hr hb
  have h2 := pow_bh_le_size t hb
  have h3 : bh t ≤ Nat.log2 (size t + 1) := (Nat.le_log2 (by omega)).mpr h2
  simp [redBonus, hc] at h1
  omega

/-- the same bound without logarithm: 2^height ≤ (n+1)² -/
theorem pow_height_le_sq (t : T α β) (h : ValidT t) : 2 ^ height t ≤ (size t + 1) ^ 2 := by
  obtain ⟨hc, hr, hb⟩ := h
  have h1 := height_le_bh t hr hb
  have h2 := pow_bh_le_size t hb
  simp [redBonus, hc] at h1
  calc 2 ^ height t ≤ 2 ^ (2 * bh t) := Nat.pow_le_pow_right (by omega) h1
    _ = (2 ^ bh t) ^ 2 := by rw [Nat.mul_comm, Nat.pow_mul]
    _ ≤ (size t + 1) ^ 2 := Nat.pow_le_pow_left h2 2

end Cello.RB
