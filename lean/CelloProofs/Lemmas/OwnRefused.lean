/-
  CelloProofs/Lemmas/OwnRefused.lean — C05: an operation that raises constructs nothing, finalises nothing and leaves
  every container as it was.
-/
import CelloProofs.Lemmas.OwnHist
set_option linter.unusedVariables false
set_option linter.unusedSimpArgs false
namespace Cello.Own
open List

/-- a container-level result that "did nothing" -/
def Res.inert {α : Type} (r : Res α) (x : α) : Prop := r.val = x ∧ r.issued = [] ∧ r.retired = [] ∧ r.updated = []

theorem inert_arrayPushAt (next xs i p) (h : (arrayPushAt next xs i p).out ≠ .ok) : (arrayPushAt next xs i p).inert xs := by
  simp only [arrayPushAt] at h ⊢
  generalize (if i < 0 then (xs.length : Int) + 1 + i else i) = j at h ⊢
  by_cases hb : j < 0 ∨ j > (xs.length : Int) <;> simp_all [Res.inert]
theorem inert_listPushAt (next xs i p) (h : (listPushAt next xs i p).out ≠ .ok) : (listPushAt next xs i p).inert xs := by
  simp only [listPushAt] at h ⊢
  by_cases hi : i = 0
  · simp [hi] at h
  · simp only [hi, if_false] at h ⊢
    generalize (if i < 0 then (xs.length : Int) + i else i) = j at h ⊢
    by_cases hb : j < 0 ∨ j ≥ (xs.length : Int) <;> simp_all [Res.inert]
theorem inert_seqPop (xs) (h : (seqPop xs).out ≠ .ok) : (seqPop xs).inert xs := by
  unfold seqPop at h ⊢; split <;> simp_all [Res.inert]
theorem inert_seqPopAt (xs i) (h : (seqPopAt xs i).out ≠ .ok) : (seqPopAt xs i).inert xs := by
  simp only [seqPopAt] at h ⊢
  generalize (if i < 0 then (xs.length : Int) + i else i) = j at h ⊢
  by_cases hb : j < 0 ∨ j ≥ (xs.length : Int)
  · simp_all [Res.inert]
  · simp only [hb, if_false] at h ⊢
    split <;> simp_all [Res.inert]
theorem inert_seqSetProbe (next xs i p) (h : (seqSetProbe next xs i p).out ≠ .ok) : (seqSetProbe next xs i p).inert xs := by
  simp only [seqSetProbe] at h ⊢
  generalize (if i < 0 then (xs.length : Int) + i else i) = j at h ⊢
  by_cases hb : j < 0 ∨ j ≥ (xs.length : Int)
  · simp_all [Res.inert]
  · simp only [hb, if_false] at h ⊢
    split <;> simp_all [Res.inert]
theorem inert_seqRem (xs p) (h : (seqRem xs p).out ≠ .ok) : (seqRem xs p).inert xs := by
  unfold seqRem at h ⊢; split <;> simp_all [Res.inert]
theorem inert_mapRem (kvs k) (h : (mapRem kvs k).out ≠ .ok) : (mapRem kvs k).inert kvs := by
  unfold mapRem at h ⊢; split <;> simp_all [Res.inert]
theorem inert_mapResize (mk kvs n) (h : (mapResize mk kvs n).out ≠ .ok) : (mapResize mk kvs n).inert kvs := by
  unfold mapResize at h ⊢; split <;> (try split) <;> (try split) <;> simp_all [Res.inert, mapClear]

/-- the world-level meaning of "nothing happened" -/
def Untouched (w : World) (res : World × Obs) : Prop :=
  res.2.issued = [] ∧ res.2.retired = [] ∧ res.2.updated = [] ∧ ∀ e, lookup res.1.objs e = lookup w.objs e

theorem untouched_seq {w : World} {c : Nat} {k : SeqKind} {ek : ElemKind} {xs : List Tok} (r : Res (List Tok))
    (t : List Nat) (wb : Bool) (hl : lookup w.objs c = some (.seq k ek xs))
    (hi : r.out ≠ .ok → r.inert xs) (hr : (commitSeq w c k ek r t wb).2.out ≠ .ok) :
    Untouched w (commitSeq w c k ek r t wb) := by
  have hro : r.out ≠ .ok := by simpa [commitSeq, commit, Res.unit] using hr
  obtain ⟨h1, h2, h3, h4⟩ := hi hro
  refine ⟨by simp [commitSeq, commit, Res.unit, h2], by simp [commitSeq, commit, Res.unit, h3, dedupIds],
    by simp [commitSeq, commit, Res.unit, h4], fun e => ?_⟩
  simp only [commitSeq, commit_objs, objsAfter, lookup_store, h1]
  split
  · rename_i he; rw [he, hl]
  · rfl

theorem untouched_map {w : World} {c : Nat} {k : MapKind} {kvs : List KV} (r : Res (List KV))
    (t : List Nat) (hl : lookup w.objs c = some (.map k kvs))
    (hi : r.out ≠ .ok → r.inert kvs) (hr : (commitMap w c k r t).2.out ≠ .ok) :
    Untouched w (commitMap w c k r t) := by
  have hro : r.out ≠ .ok := by simpa [commitMap, commit, Res.unit] using hr
  obtain ⟨h1, h2, h3, h4⟩ := hi hro
  refine ⟨by simp [commitMap, commit, Res.unit, h2], by simp [commitMap, commit, Res.unit, h3],
    by simp [commitMap, commit, Res.unit, h4], fun e => ?_⟩
  simp only [commitMap, commit_objs, objsAfter, lookup_store, h1]
  split
  · rename_i he; rw [he, hl]
  · rfl

theorem ok_absurd {α : Type} {r : Res α} {x : α} (h : r.out = .ok) : r.out ≠ .ok → r.inert x := fun h' => absurd h h'

theorem inert_arrayPushAtTok (xs i t) (h : (arrayPushAtTok xs i t).out ≠ .ok) : (arrayPushAtTok xs i t).inert xs := by
  simp only [arrayPushAtTok] at h ⊢
  generalize (if i < 0 then (xs.length : Int) + 1 + i else i) = j at h ⊢
  by_cases hb : j < 0 ∨ j > (xs.length : Int) <;> simp_all [Res.inert]

theorem inert_listPushAtTok (xs i t) (h : (listPushAtTok xs i t).out ≠ .ok) : (listPushAtTok xs i t).inert xs := by
  simp only [listPushAtTok] at h ⊢
  by_cases hi : i = 0
  · simp [hi] at h
  · simp only [hi, if_false] at h ⊢
    generalize (if i < 0 then (xs.length : Int) + i else i) = j at h ⊢
    by_cases hb : j < 0 ∨ j ≥ (xs.length : Int) <;> simp_all [Res.inert]

/-- a refused insertion of a Box argument: the pointee constructed for the call is the only thing constructed, nothing
    but it is finalised (the caller deletes it), no container changes -/
def BoxArgRefused (w : World) (res : World × Obs) : Prop :=
  (∃ t, res.2.issued = [t] ∧ ∀ u ∈ res.2.retired, u = t) ∧ res.2.updated = [] ∧
    ∀ e, lookup res.1.objs e = lookup w.objs e

theorem mem_dedupIds {l : List Tok} {u : Tok} (h : u ∈ dedupIds l) : u ∈ l := by
  induction l with
  | nil => simp [dedupIds] at h
  | cons t ts ih =>
    simp only [dedupIds, List.mem_cons] at h ⊢
    rcases h with h | h
    · exact Or.inl h
    · exact Or.inr (ih (List.mem_filter.mp h).1)

theorem boxArg_seq {w : World} {c : Nat} {k : SeqKind} {xs : List Tok} (p : Nat) (f : Tok → Res (List Tok))
    (tl : List Nat) (hl : lookup w.objs c = some (.seq k .box xs))
    (hi : (f ⟨w.next, p⟩).out ≠ .ok → (f ⟨w.next, p⟩).inert xs)
    (hr : (commitSeq w c k .box (withPointee w.next p f) tl).2.out ≠ .ok) :
    BoxArgRefused w (commitSeq w c k .box (withPointee w.next p f) tl) := by
  have hro : (f ⟨w.next, p⟩).out ≠ .ok := by
    intro h; apply hr
    simp only [commitSeq, commit, Res.unit, withPointee, h]
  obtain ⟨h1, h2, h3, h4⟩ := hi hro
  cases ho : (f ⟨w.next, p⟩).out with
  | ok => exact absurd ho hro
  | raised e =>
    refine ⟨⟨⟨w.next, p⟩, ?_, ?_⟩, ?_, fun e' => ?_⟩
    · simp [commitSeq, commit, Res.unit, withPointee, ho, h2]
    · intro u hu
      simp only [commitSeq, commit, Res.unit, withPointee, ho, h3, List.nil_append, beq_self_eq_true, Bool.true_or,
        if_true] at hu
      have := (List.mem_filter.mp (mem_dedupIds hu)).1
      simpa using this
    · simp [commitSeq, commit, Res.unit, withPointee, ho, h4]
    · simp only [commitSeq, commit_objs, objsAfter, lookup_store, withPointee, ho, h1]
      split
      · rename_i he; rw [he, hl]
      · rfl

/-- a refused in-contract operation constructs nothing, finalises nothing, assigns nothing and leaves every container
    as it was -/
theorem step_refused {w : World} (op : Op) (hin : noKnownFinding w op = true) (hr : (step w op).2.out ≠ .ok) :
    Untouched w (step w op) ∨ (srcIsBox w op.target = true ∧ BoxArgRefused w (step w op)) := by
  cases op with
  | new c k => simp only [step] at hr ⊢; split at hr <;> simp [badOp, commit] at hr
  | newSeq c k ps => simp only [step] at hr ⊢; split at hr <;> simp [badOp, commitSeq, commit, Res.unit] at hr
  | newMap c k kvs =>
    simp only [step] at hr ⊢
    split at hr
    · simp [badOp] at hr
    · exfalso; apply hr
      simp only [commitMap, commit, Res.unit]
      generalize w.next = n
      generalize ([] : List KV) = acc
      induction kvs generalizing n acc with
      | nil => rfl
      | cons kv kvs ih => obtain ⟨a, b⟩ := kv; simp only [mapSetMany]
  | box c p => simp only [step] at hr ⊢; split at hr <;> simp [badOp, commit] at hr
  | push c p =>
    simp only [step] at hr ⊢
    split at hr
    · rename_i k xs hl; (try simp only [hl]); exact Or.inl <| untouched_seq _ _ _ hl (ok_absurd rfl) hr
    · rename_i k xs hl; (try simp only [hl]); exact Or.inl <| untouched_seq _ _ _ hl (ok_absurd rfl) hr
    · simp [badOp] at hr
  | pushAt c i p =>
    simp only [step] at hr ⊢
    split at hr
    · rename_i xs hl; (try simp only [hl]); exact Or.inl <| untouched_seq _ _ _ hl (inert_arrayPushAt _ _ _ _) hr
    · rename_i xs hl; (try simp only [hl]); exact Or.inl <| untouched_seq _ _ _ hl (inert_listPushAt _ _ _ _) hr
    · rename_i xs hl
      exact Or.inr ⟨by simp [srcIsBox, Op.target, hl, Cont.isBox], boxArg_seq p _ _ hl (inert_arrayPushAtTok _ _ _) hr⟩
    · rename_i xs hl
      exact Or.inr ⟨by simp [srcIsBox, Op.target, hl, Cont.isBox], boxArg_seq p _ _ hl (inert_listPushAtTok _ _ _) hr⟩
    · simp [badOp] at hr
  | pop c =>
    simp only [step] at hr ⊢
    split at hr
    · rename_i k ek xs hl; (try simp only [hl]); exact Or.inl <| untouched_seq _ _ _ hl (inert_seqPop _) hr
    · simp [badOp] at hr
  | popAt c i =>
    simp only [step] at hr ⊢
    split at hr
    · rename_i k ek xs hl; (try simp only [hl]); exact Or.inl <| untouched_seq _ _ _ hl (inert_seqPopAt _ _) hr
    · simp [badOp] at hr
  | set c i p =>
    simp only [step] at hr ⊢
    split at hr
    · rename_i k xs hl; (try simp only [hl]); exact Or.inl <| untouched_seq _ _ _ hl (inert_seqSetProbe _ _ _ _) hr
    · rename_i k xs hl; simp [noKnownFinding, hl] at hin
    · simp [badOp] at hr
  | rem c p =>
    simp only [step] at hr ⊢
    split at hr
    · rename_i k xs hl; (try simp only [hl]); exact Or.inl <| untouched_seq _ _ _ hl (inert_seqRem _ _) hr
    · simp [badOp] at hr
  | resize c n =>
    simp only [step] at hr ⊢
    split at hr
    · rename_i ek xs hl; (try simp only [hl])
      exact Or.inl <| untouched_seq _ _ _ hl (ok_absurd (by unfold arrayResize seqClear; split <;> rfl)) hr
    · rename_i ek xs hl; (try simp only [hl])
      exact Or.inl <| untouched_seq _ _ _ hl (ok_absurd (by unfold listResize seqClear; split <;> (try split) <;> rfl)) hr
    · rename_i k kvs hl; (try simp only [hl]); exact Or.inl <| untouched_map _ _ hl (inert_mapResize _ _ _) hr
    · simp [badOp] at hr
  | sort c =>
    simp only [step] at hr ⊢
    split at hr
    · rename_i xs hl; (try simp only [hl]); exact Or.inl <| untouched_seq _ _ _ hl (ok_absurd rfl) hr
    · simp [badOp] at hr
  | concat c d =>
    simp only [step] at hr ⊢
    split at hr
    · simp [badOp] at hr
    · split at hr <;> simp [badOp, commitSeq, commit, Res.unit, seqConcatProbe, seqConcatBox] at hr
  | assign c d =>
    simp only [step] at hr ⊢
    split at hr
    · split at hr <;> simp [badOp, commit] at hr
    · rename_i hcd
      split at hr
      · simp [commitSeq, commit, Res.unit, seqAssignProbe] at hr
      · simp [commitSeq, commit, Res.unit, seqAssignBox] at hr
      · simp [commitMap, commit, Res.unit, mapAssign] at hr
      · rename_i k ek xs _ src hl hd
        exfalso; apply hr
        have hsrc : src = [] := by
          simp [noKnownFinding, srcIsBox, crossRefused, hl, hd, Cont.isBox, hcd] at hin; exact hin
        subst hsrc
        simp [commitSeq, commit, Res.unit, seqAssignFromMap]
      · simp [badOp] at hr
  | copy c d =>
    simp only [step] at hr ⊢
    split at hr
    · simp [badOp] at hr
    · split at hr <;> simp [badOp, commitSeq, commitMap, commit, Res.unit, seqAssignProbe, seqAssignBox, mapAssign] at hr
  | mset c k v =>
    simp only [step] at hr ⊢
    split at hr
    · rename_i mk kvs hl; (try simp only [hl])
      exact Or.inl <| untouched_map _ _ hl (ok_absurd (by
        cases mk <;> simp only [mapSet, tableSet, treeSet] <;> split <;> rfl)) hr
    · simp [badOp] at hr
  | mrem c k =>
    simp only [step] at hr ⊢
    split at hr
    · rename_i mk kvs hl; (try simp only [hl]); exact Or.inl <| untouched_map _ _ hl (inert_mapRem _ _) hr
    · simp [badOp] at hr
  | del c => simp only [step] at hr ⊢; split at hr <;> simp [badOp, commit] at hr
  | bassign c d => simp [noKnownFinding] at hin
  | bref c p => simp [noKnownFinding] at hin
  | read c => simp only [step] at hr ⊢; split at hr <;> simp [badOp, commit] at hr

end Cello.Own
